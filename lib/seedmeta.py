#!/usr/bin/env python3
"""lib/seedmeta.py — (re)write seeded/<id>/meta.json from confirm.log, check outputs and the short descriptions below;
prints the DESIGN §10.3 table rows."""
import json, os, re, glob
D = {  # id: (property, breaks, needs, strengthened-note)
 "C39-1": ("C39", "Equals reads the partial byte from the last backing byte", "backing slice longer than needed and len%8 != 0", ""),
 "C39-2": ("C39", "byte-wise UnsetBytes uses ^= (toggles already-clear bits)", "a mask bit on an already-clear bit", ""),
 "C03-1": ("C03", "Hash zero-pads only zerosection[h.offset:] of the open section", "multi-write whose last write starts mid-section, on a reused (dirty) pooled tree", ""),
 "C03-2": ("C03", "precomputed empty-data hash ignores the span header and is shared between callers", "length 0 with a non-zero span", ""),
 "C04-1": ("C04", "size limit moved into hasher while Valid discards the error: oversize payload + empty address is 'valid'", "payload > C+8 paired with the zero-length address", "missed at first; C04 generator now pairs every payload length class with empty/short/long addresses"),
 "C04-2": ("C04", "pooled BMT tree returned to the pool before Hash runs", ">32 concurrent New/Valid calls (more than pooled trees)", "missed at first; C04 now has a concurrent `par` op (96-128 workers) with a hang watchdog"),
 "C18-1": ("C18", "hand-built prefix range wraps for prefixes ending in 0xff: leveldb Iterate visits nothing", "iterate prefix ending in 0xff", ""),
 "C18-2": ("C18", "mock caches sorted keys, Delete does not invalidate the cache", "iterate; delete; iterate without a new key put in between", ""),
 "C19-1": ("C19", "reverse iteration / Last use the carrying increment for the upper bound", "prefix ending in 0xff and a stored key equal to the truncated bound", ""),
 "C19-2": ("C19", "DeleteInBatch deletes straight from the database", "read between DeleteInBatch and Commit, abandoned batch, or put+delete of one key in a batch", ""),
 "C20-1": ("C20", "ExtendedProximity keeps the 4-byte scan bound of Proximity", "first differing bit 32..35", ""),
 "C20-2": ("C20", "word-wise DistanceCmp never compares the last 8 bytes", "addresses equal in the first 24 bytes", ""),
 "C21-1": ("C21", "in-place swap-remove in PSlice.Remove (no copy-on-write)", "Remove of a non-last element while an iteration holds the bin's slice header", ""),
 "C21-2": ("C21", "Length() from a cached counter that over-counts in-batch duplicates", "batched Add naming one new address twice, then Length()", ""),
 "C22-1": ("C22", "depth recalculated outside depthMu (lost atomicity, stale write-back)", "a slow recalculation overlapped by SetRadius / Disconnected", "missed at first; C22 now parks a recalculation and overlaps other events (racerecalc) and proves the atomic compute-and-store fact over generated lock regions"),
 "C22-2": ("C22", "Disconnected skips the recalculation while BinSize (all peers) stays saturated", "bin shallower than depth with exactly 4 reachable + >=1 unreachable peers, a reachable one disconnects", ""),
 "C23-1": ("C23", "ClosestPeer stops after the target's bin ignoring eligibility", "every peer of the target's bin skipped/unreachable, eligible peers deeper", ""),
 "C23-2": ("C23", "word-wise DistanceCmp compares only the first 8 bytes of 32-byte addresses", "candidates agreeing on their first 8 bytes", "C23 missed it at first (C20 caught it); C23 generator now adds long-common-prefix siblings"),
 "C24-1": ("C24", "PSlice.Add single-address path checks presence under RLock, then appends under Lock without re-check", "two overlapping Adds of one overlay (simultaneous dial), then one Remove", "C24's sequential check misses it; C21's generated lock table (decide) breaks and reports it"),
 "C24-2": ("C24", "binSaturated count jumps to the next bin at the first unreachable peer", "an unreachable peer stored first in an oversaturated bin", ""),
 "C25-1": ("C25", "Add returns early (no timestamp refresh) when the stored block is at least as long", "re-add during or after a block", ""),
 "C25-2": ("C25", "Add lost the `duration != 0` guard: a requested forever is replaced by the stored finite duration", "finite block, then Add(0)", ""),
 "C26-1": ("C26", "Unflag disarms (blockAfter=0) instead of deleting; Flag never re-arms", "flag, unflag, flag again", ""),
 "C26-2": ("C26", "sequencer catches up on wall time but not across a network outage", "outage longer than the flag timeout", ""),
 "C27-1": ("C27", "SavePath persists the route list before truncating it to NeighborAlpha", "alpha+1 saves to one target, then reload", ""),
 "C27-2": ("C27", "Gc bypasses Delete and leaves the expired path in the store", "Gc, then reload", ""),
 "C29-1": ("C29", "skip list rebuilt between the connected and known passes drops the requester", "requester whose proximity to the target is among the requested orders and target != requester", ""),
 "C29-2": ("C29", "limit clamp missed at one site: limitConn uses the unclamped request limit", "limit > 30 with >= 16 connected candidates", ""),
 "C35-1": ("C35", "RefreshKey assigns the new expiry before testing the old one: expired tokens are revived", "refresh of an expired token", ""),
 "C35-2": ("C35", "short-token guard moved from decoded bytes to the base64 string", "valid base64 of 12-16 chars decoding to < 12 bytes", ""),
 "C40-1": ("C40", "pending subscriptions drained only after the key lookup in process", "select picks an unsubscription while a subscription is still queued", ""),
 "C40-2": ("C40", "unsubscription edits the published subscriber slice in place", "Publish iterating the list while an unsubscription is processed", "missed at first; C40 now has the pubduring op + generated copy-on-write fact"),
 "C40-3": ("C40", "j-- lost in the removal loop", "duplicate subscriptions and a single error value", ""),
 "C02-1": ("C02", "feeder resets bufferIdx only after the flush loop: later chunks of one Write land behind a stale offset", "a Write that finds a non-empty buffer and completes >= 2 chunks", "C01's generator did not split writes that way (C02's does); see C01-1"),
 "C02-2": ("C02", "hashtrie Sum carries a lone reference only if the next level is empty (else wraps it in a single-child chunk)", "8192k+1 chunks with real constants; small-branching instances", ""),
 "C28-1": ("C28", "post-discovery getNextHopRandom call drops the skip list", "relay node without a usable route whose discovery learns a route through its predecessor", "missed at first; C28 now covers relay-after-discovery (relayd op, link changes) + generated skip-list fact"),
 "C28-2": ("C28", "response filter counts hops instead of nodes (len-1 <= MaxTTL)", "one discovery reaching a node over two branches", ""),
 "C30-1": ("C30", "cheque store takes its lock after the increasing check", "two overlapping deliveries for one issuer on the ChequeStore", "missed at first; C30 now has parrecv + generated lock-region fact"),
 "C30-2": ("C30", "recovered issuer cached by signature bytes only", "genuine cheque, then a forgery reusing exactly that signature", "missed at first; C30 generator now reuses accepted signatures"),
 "C31-1": ("C31", "putSendCheque Sets the cheque total in place (aliases the cashed record after a refresh)", "peer settled at a refresh, then a delivered cheque", ""),
 "C31-2": ("C31", "cash-out receipt handler swaps the arguments of trafficPeerChainUpdate", "received cheque, CashCheque, asynchronous receipt", ""),
 "C32-1": ("C32", "getAccountingPeer drops the map lock during the settlement lookup and inserts without re-check", "two concurrent first-time operations on one peer", "missed at first; C32 now has a concurrent first-touch op + generated map-region fact"),
 "C32-2": ("C32", "Debit no longer takes the per-peer lock", "concurrent Debits just below the tolerance", ""),
 "C33-1": ("C33", "Put*Traffic accumulate in place (aliasing total and last-cheque amount after restore)", "settled peer, restart, update, restart", ""),
 "C33-2": ("C33", "refresh reads the persisted totals before taking the peer lock", "traffic update overlapping the 24h refresh / Init", "missed at first; C33 now gates the refresh reads + generated refresh-region fact"),
 "C07-1": ("C07", "ReadAt bounds the read by cap(buffer) again", "a buffer with capacity > length", ""),
 "C07-2": ("C07", "subtrieSection uses Branches (8192) as branching also for 64-byte encrypted references", "encrypted file > 1 GiB (two intermediate levels), read at/after 1 GiB", "missed at first; C01/C07 now serve a synthetic two-level encrypted tree to the real joiner"),
 "C05-1": ("C05", "CreateAddress appends the owner into the id sub-slice of the chunk data: validation corrupts the chunk in place", "a SOC parsed with FromChunk, validated twice", ""),
 "C05-2": ("C05", "crypto.Recover also accepts the recovery id in 0/1 form (and 4..7): byte 27 -> 0/4 recovers the same owner", "recovery byte changed to an aliasing value (not a single-bit flip)", "missed at first; C05 now lets the recovery byte take every value"),
 "C01-1": ("C01", "feeder resets bufferIdx only after the flush loop (same change as C02-1)", "short write, then one write completing >= 2 chunks", "C01 missed it at first (C02 caught it); C01 now has short-then-big write cases"),
 "C01-2": ("C01", "joiner branching constant wrong for encrypted references (same change as C07-2)", "encrypted file > 1 GiB", "missed at first; caught after c01-enc (synthetic two-level encrypted tree)"),
 "C06-1": ("C06", "soc.FromChunk recomputes the wrapped chunk's span instead of taking the signed one", "a peer replying with the genuine SOC with an altered span", ""),
 "C06-2": ("C06", "cac.Valid size bound 8 bytes too generous (hasher truncation hides the surplus)", "a maximum-size chunk followed by 1..8 arbitrary bytes", ""),
 "C08-1": ("C08", "decrypt length loop rounds up once and then only divides", "intermediate chunk two or more levels up whose span is not a multiple of the child subtree size", ""),
 "C08-2": ("C08", "Encrypt returns 0 bytes for a 0-byte payload, skipping the padding", "encrypted empty file", ""),
 "C09-1": ("C09", "processChunkAddresses decides data-chunk-ness once per intermediate chunk", "chunk count = 1 mod Branches (carried-up lone chunk), e.g. 8193 chunks", "missed at first; caught after fix-trav (carried-lone-chunk tries at real constants / big manifest nodes + loadsave round trip)"),
 "C09-2": ("C09", "manifest IterateAddresses skips entries on nodes that are also edge nodes", "one stored path a proper prefix of another", ""),
 "C10-1": ("C10", "Lookup tests len(Entry()) == 0 instead of IsValueType", "store/reload, then lookup of a branch point; zero-reference entries", ""),
 "C10-2": ("C10", "loadsave.Load single-chunk fast path checks the payload length, not the span", "a manifest node blob larger than one chunk", "missed at first; caught after fix-trav (carried-lone-chunk tries at real constants / big manifest nodes + loadsave round trip)"),
 "C11-1": ("C11", "single-chunk Put(ModePutUploadPin) of a stored chunk takes the exists fast path: pin counter not incremented", "upload-pin twice, remove once", ""),
 "C11-2": ("C11", "putRequest writes the chunk data directly instead of in the batch", "request put with a root context whose root is not stored (the put fails)", ""),
 "C36-1": ("C36", "file keystore ImportKey no longer checks the password of the key it replaces", "import under a different password over an existing name", ""),
 "C36-2": ("C36", "in-memory keystore check-then-create no longer atomic (RWMutex, no re-check)", "concurrent Key calls on one new name", "missed at first; C36 now has a concurrent parkey op"),
 "C38-1": ("C38", "Group.add early return for already-connected peers skips the neighbour re-check", "connected peer loses its direct link, handshakes again over a relay", ""),
 "C38-2": ("C38", "receive-side de-duplication removed from onMulticast", "one message reaching a member over two paths", ""),
 "C14-1": ("C14", "setRemove deletes the chunk data by a direct write before the batch", "crash between the two writes on a once-pinned chunk", ""),
 "C14-2": ("C14", "reopen recomputes gcSize as the number of gc entries instead of the sum of counters", "multi-address remove of a cached file, stop, reopen", ""),
 "C34-1": ("C34", "verified-signer cache keyed by the signature bytes only", "genuine record seen first, then the same signature with another underlay / network id", ""),
 "C34-2": ("C34", "one byte of the network id (bits 32..39) is not signed", "network ids differing in bits 32..39", "missed at first; C34 now uses arbitrary 64-bit network ids and every-single-bit mismatches"),
 "C13-1": ("C13", "GC's dirty check moved out of the DelFile callback", "access to the file between the check and the eviction callback", ""),
 "C13-2": ("C13", "GC's cleanup defer registered after the early return: gcRunning stays true after an idle run", "idle run, then a run whose candidates were all touched", ""),
 "C37-1": ("C37", "hive2 limit split simplified: a negative Limit slices peers[:negative]", "FindNodeReq with Limit < 0", ""),
 "C37-2": ("C37", "updateChunkInfo ORs presence bytes byte-wise without the length check", "second ChunkInfoResp for an overlay with more presence bytes", ""),
 "C15-1": ("C15", "DeletePin skips leaves already handled in the same traversal", "reference containing the same chunk at several positions", ""),
 "C15-2": ("C15", "setPin computes the new counter from a reused variable: with a root context every pin sets the counter to 1", "two references sharing a chunk, both pinned, one unpinned", ""),
 "C16-1": ("C16", "getUnRepeatChunk lost the refcount test for intermediate/manifest chunks", "two files sharing a non-data chunk (same content under two names)", ""),
 "C16-2": ("C16", "delRootCid releases one reference per occurrence instead of one per file", "file with a repeated chunk also used by two other files", ""),
 "C17-1": ("C17", "getPyramidHash hands delRootCid every key (single-chunk file's chunk released twice)", "two roots sharing a single-chunk file, delete/re-upload/delete", ""),
 "C17-2": ("C17", "delPresence deletes only the node's own persisted record", "file served to a peer before deletion", ""),
 "C12-1": ("C12", "setUnpin lost its early return: an unpin that leaves the chunk pinned re-enters the root into the gc index", "pin twice, unpin once, cache over capacity", ""),
 "C12-2": ("C12", "GC dirty-address check hoisted out of the deletion callback", "a pin landing between the check and the callback", ""),
 "C19-3": ("C19", "Index.Fill merges in the wrong direction (caller's non-zero fields override the stored value)", "Fill with items that carry value fields", "missed at first; the C19 runner now hands Fill items with stale value fields"),
 "C19-4": ("C19", "skip-start drops any first key that merely extends the StartFrom key", "forward iteration with SkipStartFromItem from an absent key that prefixes the next stored key", ""),
 "C20-3": ("C20", "merged proximity helper lost the ExtendedPO clamp", "first difference in the low 3 bits of byte 4", ""),
 "C20-4": ("C20", "DistanceRaw XORs in place into its first argument (aliasing append)", "a second distance/ordering call with the same target", ""),
 "C11-3": ("C11", "setRemove lost the write-back of the decremented pin counter", "pin count >= 2, then removes", ""),
 "C11-4": ("C11", "Index.Fill sorts the caller's slice: GetMulti returns chunks in key order, not request order", "GetMulti with addresses not in ascending order", ""),
 "C24-3": ("C24", "Outbound no longer adds the peer to the known set", "Outbound of a peer that was forgotten / never added", ""),
 "C24-4": ("C24", "RefreshProtectPeer returns early on an empty list (old protect list stays)", "protect, then refresh with an empty list, then inbound into an oversaturated bin", ""),
 "C27-3": ("C27", "GetNextHop rewritten onto skipPeers loses the stored-path check", "save, delete/expire, restart, GetNextHop", ""),
 "C27-4": ("C27", "GetNextHop de-duplicates by path key instead of by neighbour", "two live paths to one target sharing the last hop", ""),
 "C29-3": ("C29", "requested orders treated as a contiguous window [min,max]", "order list with a hole, e.g. [6 4]", ""),
 "C29-4": ("C29", "requester's public/private classification cached per overlay and never invalidated", "requester first seen with a private underlay, record replaced by a public one, second request", "missed at first; the C29 generator now replaces the requester's record between requests"),
 "C03-3": ("C03", "SetHeader keeps the caller's span slice instead of copying it", "caller recycles its span buffer before Hash / Reset zeroes the caller's buffer", "missed at first; the C03 runner now scribbles over its span buffer right after SetHeader"),
 "C03-4": ("C03", "Write keeps the last section open only when the filling write was non-empty", "zero-length Write on a full hasher, then Hash (worker goroutine panic)", ""),
 "C02-3": ("C02", "ChunkPipe.Write fast path sends whole chunks past buffered bytes", "short write followed by a write of >= one chunk through ChunkPipe", "missed at first; strengthening by fix-r2-a"),
 "C02-4": ("C02", "pipeline bmt writer returns the hasher to the pool before Hash", "concurrent uploads", "missed at first; strengthening by fix-r2-a"),
 "C02-5": ("C02", "FeedPipeline drops bytes delivered together with io.EOF", "a reader returning data and EOF in one call", "missed at first; strengthening by fix-r2-a"),
 "C06-3": ("C06", "GetChunkHashes verifies pyramid entries in goroutines capturing the loop variables (go 1.17 semantics): only the last entry is verified", "adversarial pyramid with >= 2 entries, altered one not last in map order", "missed at first; strengthening by fix-r2-a"),
 "C06-4": ("C06", "retrieval falls back to soc.FromChunk (layout only) instead of soc.Valid", "crafted single-owner-shaped reply for another address", ""),
 "C16-3": ("C16", "DELETE handler computes the unshared-chunk list before entering DelFile (list-then-remove no longer atomic)", "upload / delete of an overlapping file while a DELETE is held at DelFile", "missed at first; C16 now holds a DELETE at DelFile (delr op) + generated fact that the list is computed under the lock"),
 "C16-4": ("C16", "registration gives a one-chunk file's chunk two references", "files of at most one chunk; delete or evict", ""),
 "C21-3": ("C21", "EachBin/EachBinRev copy the outer slice once under the lock and read bins[i] unlocked", "iteration concurrent with Add/Remove (data race on the per-bin slice headers)", "missed at first (demonstration needs -race); the pslice lock extractor now follows local aliases of guarded fields: C21_lockset_table breaks"),
 "C21-4": ("C21", "batch Add collects new addresses but indexes addrPo by the wrong position", "batch in which an already-present address precedes a new one", ""),
 "C38-3": ("C38", "discovery writes answered peers straight into knownPeers (no removal from connected/kept)", "member handshakes while a findGroup request is in flight and is named in the answer", "missed at first; C38 now runs real discovery rounds with a handshake at the rendezvous + generated fact on list mutations"),
 "C38-4": ("C38", "de-duplication cache bounded to 1024 entries (LRU eviction before expiry)", "> ~500 messages within the window, then a late duplicate", "missed at first; C38 now has a 1100-message burst case + generated fact on the cache constructor"),
}
rows = []
for d in sorted(glob.glob('/verif/seeded/*')):
    sid = os.path.basename(d)
    if sid not in D or not os.path.exists(d + '/confirm.log'):
        continue
    prop, breaks, needs, note = D[sid]
    log = open(d + '/confirm.log').read()
    conf = re.search(r'confirm: (.*)', log); chk = re.search(r'checks:(.*)', log)
    results = {}
    for f in glob.glob(d + '/check-*.out'):
        p = os.path.basename(f)[6:-4]; t = open(f).read()
        v = re.findall(r'^VIOLATION .*', t, re.M)
        results[p] = {"detected": bool(v), "violation_lines": [x.replace('/verif/replays/', 'seeded/' + sid + '/') for x in v][:4],
                      "summary": (t.strip().splitlines() or [''])[-1]}
    det = [p for p, r in results.items() if r["detected"]]
    meta = {"id": sid, "property": prop, "breaks": breaks, "needs_to_manifest": needs,
            "written_by": "independent sub-agent given only the property text and its own scratch worktree of /repo (lib/mutprompt.py)",
            "confirmed": conf.group(1) if conf else None,
            "what_i_ran": "lib/seeded.sh: scratch worktree — build result identical to baseline, previously passing tests of the touched packages still pass, demonstration (demo.cmd) passes without and fails with the change; then `git -C /repo apply patch.diff`, `./check <Cxx> --tier quick` for the listed properties, `git -C /repo checkout -- .`, checks re-run on the unchanged tree",
            "checks": results, "detected_by": det, "note": note}
    json.dump(meta, open(d + '/meta.json', 'w'), indent=1)
    rows.append(f"| {sid} | {prop} | {breaks}; needs: {needs} | {', '.join(det) if det else '—'} | {'VIOLATION' if det else 'MISSED'}{(' — ' + note) if note else ''} |")
table = "| seed | property | what it breaks; what it needs to manifest | caught by | result |\n|---|---|---|---|---|\n" + "\n".join(rows)
dp = '/verif/DESIGN.md'; ds = open(dp).read()
a = ds.index('<!-- SEEDTABLE-BEGIN -->') + len('<!-- SEEDTABLE-BEGIN -->'); b = ds.index('<!-- SEEDTABLE-END -->')
open(dp, 'w').write(ds[:a] + "\n" + table + "\n" + ds[b:])
print(len(rows), "seeds;", sum('MISSED' in r for r in rows), "currently missed")
