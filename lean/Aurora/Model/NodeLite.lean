import Aurora.Model.Localstore
import Aurora.Model.GcWindow
import Aurora.Model.ChunkPyramid
import Aurora.Model.ChunkInfo
/-!
# "Node-lite": one AuroraFS node at the level of its HTTP API (properties C12, C15, C16, C17)

Composition of lstore-a's literal `Localstore` model with `ChunkPyramid` and `ChunkInfo` and the
root pin keys, driven by API-level operations.  Every operation is the sequence of storage calls
the real handler makes (observed on the real code with call traces, then transcribed):

* `upload` — one `Put(ModePutUpload[Pin])` per chunk the pipeline and the manifest writer emit
  (`writes`, with repetitions), then `OnChunkRetrieved(b, root, self)` for every data chunk of
  `GetChunkHashes`, then the root pin key for a pinned upload (`CreatePin(…, false)`).
* `rawUpload` — `POST /bytes`: the puts and the pin key only (chunkinfo is not told).
* `findPyramid` — pyramid exchange with the peer (`onChunkPyramidResp`): pyramid chunks are put
  by `ModePutRequest` under the root context, source / pyramid / availability tables are set up.
* `nsGet` — `netstore.Get` under a file context: a stored chunk is read (`ModeGetRequest` moves
  the file's access time) and reported with `OnChunkRetrieved(cid, root, self)` unless it is
  the root; a missing chunk is retrieved from the peer: `OnChunkRetrieved(cid, root, peer)`
  *before* `Put(ModePutRequest)`.
* `nsGetFault` — the same read when the local `Get` fails with an error that is not not-found: the
  error is returned, nothing is reported to chunkinfo, the peer is not asked (state unchanged).
* `apiPin` / `apiUnpin` — `HasPin` guard, traversal reads of every pyramid key under the root
  context, `ModeSetPin` / `ModeSetUnpin` once per reported address (pyramid keys once, data
  chunks of multi-chunk entries once per occurrence), root key.
* `apiDelete` — `DelFile` with the API's closure: `GetChunkPyramid` (non-shared chunks by
  reference count), `Number` removals per chunk, the root, then the four tables.
* `gc` — `collectGarbage` runs until done: candidate selection, per candidate
  `DelFile(root, evict closure)`; the reference counts seen by candidate i are those after the
  candidates before it were released; batch deletions are invisible to reads of the same run.
* `reinit` — chunkinfo restart: tables from the persisted image, reference counts re-derived.
* `serve` — the retrieval handler answering the peer: `Get(ModeGetRequest)` of the chunk without file
  context, then `OnChunkTransferred(cid, root, peer, self)`: the availability record the node keeps FOR
  THE PEER (`chunk-<root>-<peer>`, memory + persisted) is created / gets the chunk's bit.
* `gcRace` — `gc` with one scripted operation racing with the eviction of the first candidate: it runs
  after the run has entered `DelFile` for that candidate and before the deletion callback re-checks the
  dirty addresses (`Model/GcWindow.lean`).

Within one operation the clock is constant (the harness pins `now()` to the op counter), so the
order of the reads / sets inside one traversal does not matter for anything this model exposes.
Core Lean only.
-/
namespace Aurora.NodeLite
open Aurora.ChunkPyramid Aurora.ChunkInfo


abbrev LS := Aurora.Localstore.State

def peer : Ov := 1

/-- what the node-lite model knows about one file spec (from the upload's annotation) -/
structure FileInfo where
  fs : FileS
  /-- `Put` sequence of the upload (with repetitions) -/
  writes : List Addr := []
  enc : Bool := false
  raw : Bool := false
  atN : Bool := false
  atP : Bool := false
deriving Repr

structure State where
  ls : LS := Aurora.Localstore.init 1000000
  cp : ChunkPyramid.State := {}
  ci : ChunkInfo.State := {}
  pinned : List Addr := []
  files : List (String × FileInfo) := []
deriving Repr

def po (_ : Addr) : Nat := 0

def stored (s : State) (a : Addr) : Bool := Aurora.Localstore.SMap.has a s.ls.db.data

def lsPut (s : State) (mode : Aurora.Localstore.PutMode) (root : Option Addr) (a : Addr) : State :=
  { s with ls := (Aurora.Localstore.put po s.ls mode root [(a, [])]).st }

/-- `Set` of one address; the flag tells whether it succeeded -/
def lsSet (s : State) (mode : Aurora.Localstore.SetMode) (root : Option Addr) (a : Addr) : State × Bool :=
  let r := Aurora.Localstore.set s.ls mode root [a]
  ({ s with ls := r.st }, match r.out with | .ok => true | _ => false)

/-- `Get(ModeGetRequest)` under a root context (moves the root's access time) -/
def lsGetReq (s : State) (root : Addr) (a : Addr) : State :=
  { s with ls := (Aurora.Localstore.get s.ls .request (some root) a).st }

/-- local traversals of the file succeed: every pyramid key is stored -/
def complete (s : State) (f : FileS) : Bool := stored s f.root && f.hash.all (stored s)

def known (s : State) (f : FileS) : Bool := s.cp.registered f.root

/-- every chunk stored ⇒ the joiner reads the file back (C01) -/
def readable (s : State) (f : FileS) : Bool := f.all.all (stored s)

/-- `putChunkInfoNeighbor(root, o)`; `none` = error ("pyramid is not exists") -/
def putNeighbor (s : State) (f : FileS) (o : Ov) : Option State :=
  if !known s f && !complete s f then none
  else
    let cp := ensure s.cp f
    if f.cids.length = 0 then none
    else some { s with cp := cp, ci := ChunkInfo.putNeighbor s.ci f.root o f.cids.length }

/-- `updateNeighborChunkInfo(root, cid, self)` -/
def markSelf (s : State) (f : FileS) (cid : Addr) : State :=
  if (s.ci.mem.presence.lookup f.root).isNone then s
  else match putNeighbor s f self with
    | none => s
    | some s1 => { s1 with ci := markPresent s1.ci f self cid }

/-- data chunks of single-chunk entries (`pieces` of `GetChunkHashes` with a pyramid) -/
def pieces (f : FileS) : List Addr := (f.subs.filter (fun l => l.length == 1)).flatten

/-- `onChunkPyramidResp(root, peer, …)` -/
def findPyramid (s : State) (f : FileS) : State :=
  if known s f then s
  else
    let keys := f.root :: (dedup f.hash).filter (· != f.root)
    let s1 := keys.foldl (fun s a => lsPut s .request (some f.root) a) s
    let s2 := { s1 with ci := updatePyramidSource s1.ci f.root peer }
    let s3 := { s2 with cp := updateChunkPyramid s2.cp f }
    let s4 := if (s3.ci.mem.presence.lookup f.root).isSome then s3
              else (putNeighbor s3 f self).getD s3
    (pieces f).foldl (fun s c => markSelf { s with ci := updateChunkSource s.ci f peer c } f c) s4

/-- `OnChunkRetrieved(cid, root, src)` -/
def onChunkRetrieved (s : State) (f : FileS) (cid : Addr) (src : Ov) : State :=
  let s1? : Option State :=
    if known s f then some s
    else putNeighbor (if src != self then findPyramid s f else s) f self
  match s1? with
  | none => s
  | some s1 =>
    if (s1.ci.mem.presence.lookup f.root).isNone then s1
    else match putNeighbor s1 f self with
      | none => s1
      | some s2 =>
        let s3 := { s2 with ci := markPresent s2.ci f self cid }
        let s4 := { s3 with ci := updatePyramidSource s3.ci f.root src }
        { s4 with ci := updateChunkSource s4.ci f src cid }

/-- `netstore.Get(ctx{root, targets = peer}, ModeGetRequest, a)` -/
def nsGet (s : State) (f : FileS) (a : Addr) : State :=
  if stored s a then
    let s1 := lsGetReq s f.root a
    if a = f.root then s1 else onChunkRetrieved s1 f a self
  else
    let s1 := onChunkRetrieved s f a peer
    lsPut s1 .request (some f.root) a

/-- `netstore.Get` under a file context when the local read `s.Storer.Get` of `a` fails with an error
    other than `storage.ErrNotFound` (I/O error, closed database, cancelled context …; in the harness
    the storer netstore reads through answers it, localstore is not reached — no access-time update):
    the `err != nil` branch returns `netstore get: …` at once — the network is not asked and
    `OnChunkRetrieved` is NOT called, whether or not the chunk is stored.  Nothing is recorded; the
    Boolean is "the read answered a chunk". -/
def nsGetFault (s : State) (_f : FileS) (_a : Addr) : State × Bool := (s, false)

def apiUpload (s : State) (fi : FileInfo) (pin : Bool) : State :=
  let mode := if pin then Aurora.Localstore.PutMode.uploadPin else Aurora.Localstore.PutMode.upload
  let s1 := fi.writes.foldl (fun s a => lsPut s mode none a) s
  let s2 := if fi.raw then s1 else fi.fs.data.foldl (fun s b => onChunkRetrieved s fi.fs b self) s1
  if pin && !s2.pinned.contains fi.fs.root then { s2 with pinned := s2.pinned ++ [fi.fs.root] } else s2

/-- addresses reported by `Traverse`, with multiplicity -/
def pinMultiset (f : FileS) : List Addr :=
  dedup f.hash ++ (f.subs.filter (fun l => l.length ≥ 2)).flatten

/-- pyramid keys in traversal order as far as it matters: the root first -/
def hashOrder (f : FileS) : List Addr := f.root :: (dedup f.hash).filter (· != f.root)

/-- data-chunk addresses the traversal reports without reading them -/
def dataReports (f : FileS) : List Addr := (f.subs.filter (fun l => l.length ≥ 2)).flatten

/-- `Traverse(ctx{root}, root, fn)`: every pyramid key is read through the netstore under the
    root context and then handed to `fn`; data chunks of multi-chunk entries are only reported.
    (The reads and `fn` calls interleave: a read after the `fn` that re-created the file's gc
    entry moves that entry to the current time.) -/
def traverse (s : State) (f : FileS) (fn : State → Addr → State) : State :=
  let s1 := (hashOrder f).foldl (fun s h => fn (nsGet s f h) h) s
  (dataReports f).foldl fn s1

def apiPin (s : State) (f : FileS) : State × Nat :=
  if s.pinned.contains f.root then (s, 200)
  else
    let s2 := traverse s f (fun s a => (lsSet s .pin (some f.root) a).1)
    ({ s2 with pinned := s2.pinned ++ [f.root] }, 201)

def apiUnpin (s : State) (f : FileS) : State × Nat :=
  if !s.pinned.contains f.root then (s, 404)
  else
    -- the error flag of DeletePin's iterator is threaded through a wrapper state
    let step (p : State × Bool) (a : Addr) : State × Bool :=
      let q := lsSet p.1 .unpin (some f.root) a
      (q.1, p.2 && q.2)
    let r1 := (hashOrder f).foldl (fun (p : State × Bool) h => step (nsGet p.1 f h, p.2) h) (s, true)
    let r := (dataReports f).foldl step r1
    if r.2 then ({ r.1 with pinned := r.1.pinned.filter (· != f.root) }, 200) else (r.1, 500)

def apiDelete (s : State) (f : FileS) : State :=
  let unshared := getUnRepeatChunk s.cp f
  let s1 := unshared.foldl (fun s (e : Addr × Nat) =>
    if e.1 = f.root then s
    else (List.range e.2).foldl (fun s _ => (lsSet s .remove (some f.root) e.1).1) s) s
  let s2 := (lsSet s1 .remove (some f.root) f.root).1
  { s2 with cp := delRootCid s2.cp f, ci := ChunkInfo.delFile s2.ci f.root }

/-- `DELETE /aurora/{root}` overlapping with another API operation `during` (an upload or a DELETE of
    another file) that runs to completion while the delete handler is held at the entry of
    `ChunkInfo.DelFile`.  The handler has done nothing yet that depends on the state (it parsed the
    address), and `DelFile` takes chunkinfo's `syncLk`: the list of unshared chunks is computed by the
    `del` callback INSIDE that critical section (generated fact `C16_delete_list_computed_under_lock`),
    from the reference counts as they are then.  So the overlap is the sequential composition in the
    order the lock enforces: first `during`, then the whole delete. -/
def apiDeleteHeld (s : State) (f : FileS) (during : State → State) : State :=
  apiDelete (during s) f

def fileOfRoot (s : State) (r : Addr) : Option FileInfo :=
  (s.files.find? (fun e => e.2.fs.root == r && !e.2.raw)).map (·.2)

structure GcAcc where
  pyrs : List (Addr × Option (List (Addr × Nat))) := []
  cp : ChunkPyramid.State
  ci : ChunkInfo.State

/-- one `collectGarbage` run; returns (state, done, collected) -/
def gcRun (s : State) : State × Bool × Nat :=
  let r1 := Aurora.Localstore.gcSelect s.ls
  match r1.out with
  | .gcSel =>
    let acc : GcAcc := r1.st.cands.foldl (fun (acc : GcAcc) (e : Aurora.Localstore.GcKey × Nat) =>
      match fileOfRoot s e.1.addr with
      | none => { acc with pyrs := acc.pyrs ++ [(e.1.addr, none)] }
      | some fi =>
        if fi.enc || !complete s fi.fs then { acc with pyrs := acc.pyrs ++ [(e.1.addr, none)] }
        else
          { pyrs := acc.pyrs ++ [(e.1.addr, some (getUnRepeatChunk acc.cp fi.fs))],
            cp := delRootCid acc.cp fi.fs,
            ci := ChunkInfo.delFile acc.ci fi.fs.root }) { cp := s.cp, ci := s.ci }
    let r2 := Aurora.Localstore.gcEvict r1.st (Aurora.Localstore.pyrFun acc.pyrs)
    match r2.out with
    | .gcDone n done _ => ({ s with ls := r2.st, cp := acc.cp, ci := acc.ci }, done, n)
    | _ => ({ s with ls := r2.st }, true, 0)
  | _ => ({ s with ls := r1.st }, true, 0)

/-- `gc c`: capacity c, runs until done (at most 8), capacity back to the default -/
def gc (s : State) (c : Nat) : State × Nat :=
  let s0 := { s with ls := { s.ls with capacity := c } }
  let rec loop (fuel : Nat) (s : State) (total : Nat) : State × Nat :=
    match fuel with
    | 0 => (s, total)
    | fuel + 1 =>
      let (s', done, n) := gcRun s
      if done then (s', total + n) else loop fuel s' (total + n)
  let (s1, n) := loop 8 s0 0
  ({ s1 with ls := { s1.ls with capacity := 1000000 } }, n)

/-- `OnChunkTransferred(cid, root, o, target = self)`: `pyramidCheck(root, o, self)` (an unregistered
    root gets a record for `o` — the target is the node itself, so no pyramid is fetched), then
    `updateNeighborChunkInfo(root, cid, o)` -/
def onChunkTransferred (s : State) (f : FileS) (cid : Addr) (o : Ov) : State :=
  let s1? : Option State := if known s f then some s else putNeighbor s f o
  match s1? with
  | none => s
  | some s1 =>
    if (s1.ci.mem.presence.lookup f.root).isNone then s1
    else match putNeighbor s1 f o with
      | none => s1
      | some s2 => { s2 with ci := markPresent s2.ci f o cid }

/-- the retrieval handler serving chunk `a` of file `f` to the peer (`a` is stored) -/
def serve (s : State) (f : FileS) (a : Addr) : State :=
  let s1 := { s with ls := (Aurora.Localstore.get s.ls .request none a).st }
  onChunkTransferred s1 f a peer

/-- what `DelFile` hands to the deletion callback for root `r` in node state `s`: `none` = the file is
    unknown / not traversable (`ErrNotFound`) -/
def gcPyramid (s : State) (r : Addr) : Option (FileInfo × List (Addr × Nat)) :=
  match fileOfRoot s r with
  | none => none
  | some fi => if fi.enc || !complete s fi.fs then none else some (fi, getUnRepeatChunk s.cp fi.fs)

/-- a collection run in progress at node level: the node state as racing operations see it
    (`s.ls = run.st`) and the localstore run -/
structure GcNode where
  s : State
  run : Aurora.Localstore.GcRun
  /-- status of the racing operation once it has run -/
  fired : Option Nat := none

/-- a racing operation: new node state and status (HTTP status of pin / unpin, 0 for a read) -/
abbrev RaceOp := State → State × Nat

/-- candidate number `i` (from 0): the racing operation if it is armed for this position, then
    `DelFile(root, callback)`: pyramid by the reference counts as they are now, re-check of the dirty
    addresses, eviction; chunkinfo drops its tables only if the callback succeeded -/
def gcCandidate (race : Option (Nat × RaceOp)) (i : Nat) (g : GcNode)
    (e : Aurora.Localstore.GcKey × Nat) : GcNode :=
  let g1 : GcNode := match race with
    | some (pos, op) =>
      if i == pos then
        let (s', code) := op g.s
        { s := s', run := { g.run with st := s'.ls }, fired := some code }
      else g
    | none => g
  let py := gcPyramid g1.s e.1.addr
  let (run', evicted) := Aurora.Localstore.gcEvictOne g1.run e (py.map (·.2))
  let s2 := { g1.s with ls := run'.st }
  match py, evicted with
  | some (fi, _), true =>
    { g1 with s := { s2 with cp := delRootCid s2.cp fi.fs, ci := ChunkInfo.delFile s2.ci fi.fs.root }, run := run' }
  | _, _ => { g1 with s := s2, run := run' }

def gcCandidates (race : Option (Nat × RaceOp)) : Nat → GcNode →
    List (Aurora.Localstore.GcKey × Nat) → GcNode
  | _, g, [] => g
  | i, g, e :: rest => gcCandidates race (i + 1) (gcCandidate race i g e) rest

/-- one `collectGarbage` run with a racing operation `(roots, op)`: `op` runs inside the `DelFile` call
    number `roots.length` of the run, provided the run's calls up to there are for exactly `roots`;
    returns (state, done, collected, status of the operation if it ran) -/
def gcRunRace (s : State) (race : Option (List Addr × RaceOp)) : State × Bool × Nat × Option Nat :=
  let r1 := Aurora.Localstore.gcSelect s.ls
  match r1.out with
  | .gcSel =>
    let s0 := { s with ls := r1.st }
    let armed : Option (Nat × RaceOp) := match race with
      | some (roots, op) =>
        if !roots.isEmpty && (r1.st.cands.map (·.1.addr)).take roots.length == roots
        then some (roots.length - 1, op) else none
      | none => none
    let g := gcCandidates armed 0 { s := s0, run := Aurora.Localstore.GcRun.start r1.st } r1.st.cands
    let r2 := Aurora.Localstore.gcFinish g.run
    match r2.out with
    | .gcDone n done _ => ({ g.s with ls := r2.st }, done, n, g.fired)
    | _ => ({ g.s with ls := r2.st }, true, 0, g.fired)
  | _ => ({ s with ls := r1.st }, true, 0, none)

/-- `gcr c` / `gcr2 c`: as `gc c`; the racing operation is armed for the first run only (`[root]`: its
    first `DelFile` call; `[r1, r2]`: its second call, i.e. after the callback of `r1` has decided that
    file's deletions and before the run's batch is committed) -/
def gcRace (s : State) (c : Nat) (race : List Addr × RaceOp) : State × Nat × Option Nat :=
  let s0 := { s with ls := { s.ls with capacity := c } }
  let rec loop (fuel : Nat) (s : State) (total : Nat) (race : Option (List Addr × RaceOp)) (fired : Option Nat) :
      State × Nat × Option Nat :=
    match fuel with
    | 0 => (s, total, fired)
    | fuel + 1 =>
      let (s', done, n, f) := gcRunRace s race
      if done then (s', total + n, fired.or f) else loop fuel s' (total + n) none (fired.or f)
  let (s1, n, f) := loop 8 s0 0 (some race) none
  ({ s1 with ls := { s1.ls with capacity := 1000000 } }, n, f)

/-- roots that have a persisted chunkinfo record -/
def diskRoots (s : State) : List Addr :=
  dedup (s.ci.disk.presence.map (·.1) ++ s.ci.disk.discover.map (·.1) ++ s.ci.disk.source.map (·.1))

def reinit (s : State) : State :=
  let cp := (diskRoots s).foldl (fun cp r =>
    match fileOfRoot s r with
    | some fi => ensure cp fi.fs
    | none => cp) ({} : ChunkPyramid.State)
  { s with cp := cp, ci := ChunkInfo.reinit s.ci }

/-- `ask`: the peer's answer carries its own (complete) vector -/
def ask (s : State) (f : FileS) : State :=
  { s with ci := updateDiscover s.ci f peer (ones f.cids.length) }

end Aurora.NodeLite
