/-
Model of /repo/pkg/subscribe/subscribe.go (hand translation of the code *after* the two `fix:`
commits, tied by the C40 correspondence run).

Concurrency is modelled as interleavings of atomic actions on one shared state:

* `subscribe n k`   — `Subscribe`: the event is appended to `subInfoChan` (`subQ`) and a goroutine
                      starts waiting on `n.Err()` (`waiting`);
* `errFires n`      — `n`'s error channel is closed (`dead`);
* `errOne n`        — one error value is sent on `n`'s (open) error channel: exactly one waiting
                      goroutine of `n` — the one that blocked first — sends its event;
* `wake e`          — a waiting goroutine whose notifier is dead sends its event to
                      `unsubInfoChan` (`unsubQ`); goroutines wake in any order, at any time;
* `processSub` / `processUnsub` — one iteration of `process` taking the `subInfoChan` /
                      `unsubInfoChan` case of the `select` (either may be taken whenever its queue
                      is non-empty: the `select` is a nondeterministic choice);
                      the unsubscribe case first applies every pending subscription (`drainSubs`),
                      then removes *every* entry of the notifier from the key's list;
* `publish ns kind param m` — `Publish`: `Notify` is called synchronously for the namespace-wide key
                      `ns_kind`, then (if `param ≠ ""`) for `ns_kind_param`, in list order.

A disabled action (empty queue, nothing to wake) leaves the state unchanged, so *every* list of
actions is a schedule and "all schedules" = "all `List Act`".  Channel capacity (50) is not
modelled (a full channel only delays `Subscribe`).  `PublishArray` is not modelled.
-/
namespace Aurora.Subscribe

abbrev Notifier := String
abbrev Key := String
abbrev Msg := String

structure Ev where
  key : Key
  n   : Notifier
deriving DecidableEq, Repr

abbrev Table := List (Key × List Notifier)

/-- `keyToNotifier.Load(k)` (absent = empty list) -/
def tget : Table → Key → List Notifier
  | [], _ => []
  | (k', l) :: t, k => if k' = k then l else tget t k

def terase : Table → Key → Table
  | [], _ => []
  | (k', l) :: t, k => if k' = k then terase t k else (k', l) :: terase t k

/-- `Store(k, l)`, or `Delete(k)` when the list became empty -/
def tset (t : Table) (k : Key) (l : List Notifier) : Table :=
  if l = [] then terase t k else (k, l) :: terase t k

/-- `addSub`: append the notifier to its key's list -/
def addSub (t : Table) (e : Ev) : Table := tset t e.key (tget t e.key ++ [e.n])

/-- `drainSubs`: apply the pending subscriptions in FIFO order -/
def drain (t : Table) (q : List Ev) : Table := q.foldl addSub t

/-- the removal loop (with `j--`): every entry of the notifier leaves the key's list -/
def removeAll (t : Table) (e : Ev) : Table :=
  tset t e.key ((tget t e.key).filter (fun x => x ≠ e.n))

structure Delivery where
  n   : Notifier
  key : Key
  msg : Msg
deriving DecidableEq, Repr

structure State where
  subQ    : List Ev := []
  unsubQ  : List Ev := []
  waiting : List Ev := []
  dead    : List Notifier := []
  table   : Table := []
  log     : List Delivery := []
deriving Repr

def init : State := {}

/-- key used by `Subscribe` -/
def subKey (ns kind param : String) : Key :=
  if param ≠ "" then ns ++ "_" ++ kind ++ "_" ++ param else ns ++ "_" ++ kind

/-- keys notified by `Publish`, in order -/
def pubKeys (ns kind param : String) : List Key :=
  if param ≠ "" then [ns ++ "_" ++ kind, ns ++ "_" ++ kind ++ "_" ++ param] else [ns ++ "_" ++ kind]

/-- the `Notify` calls of one `Publish` -/
def deliveries (t : Table) (keys : List Key) (m : Msg) : List Delivery :=
  keys.flatMap (fun k => (tget t k).map (fun n => ⟨n, k, m⟩))

inductive Act where
  | subscribe (n : Notifier) (k : Key)
  | errFires (n : Notifier)
  | errOne (n : Notifier)
  | wake (e : Ev)
  | processSub
  | processUnsub
  | publish (keys : List Key) (m : Msg)
deriving Repr, DecidableEq

def step (s : State) : Act → State
  | .subscribe n k => { s with subQ := s.subQ ++ [⟨k, n⟩], waiting := s.waiting ++ [⟨k, n⟩] }
  | .errFires n => { s with dead := n :: s.dead }
  | .errOne n =>
    match s.waiting.find? (fun e => e.n = n) with
    | some e => { s with waiting := s.waiting.erase e, unsubQ := s.unsubQ ++ [e] }
    | none => s
  | .wake e =>
    if e ∈ s.waiting ∧ e.n ∈ s.dead then
      { s with waiting := s.waiting.erase e, unsubQ := s.unsubQ ++ [e] }
    else s
  | .processSub =>
    match s.subQ with
    | [] => s
    | e :: q => { s with subQ := q, table := addSub s.table e }
  | .processUnsub =>
    match s.unsubQ with
    | [] => s
    | e :: q => { s with unsubQ := q, subQ := [], table := removeAll (drain s.table s.subQ) e }
  | .publish keys m => { s with log := s.log ++ deliveries s.table keys m }

def run (s : State) (acts : List Act) : State := acts.foldl step s

/-- nothing is in flight: both channels empty and no goroutine of a dead notifier still has to send -/
def Quiescent (s : State) : Prop :=
  s.subQ = [] ∧ s.unsubQ = [] ∧ ∀ e ∈ s.waiting, e.n ∉ s.dead

/-! ### a `Publish` that is parked inside a slow consumer's `Notify`

`Publish` takes no lock: for each key it `Load`s the slice stored under the key and ranges over it.
**`publish` reads an immutable snapshot**: the slice value it loaded is never written to afterwards —
`process` removes subscribers on a fresh `make`+`copy` of the loaded slice and `Store`s that copy
(copy-on-write; `Mem` below is the memory-level statement, the extracted fact
`Aurora.Generated.SubscribeCow` is what subscribe.go actually does), and `addSub`'s `append` only
writes behind the length of every slice value published so far.  So a publish that blocks inside a
`Notify` call goes on, when released, over the list *as it was when the key was loaded*, whatever
`process` has applied meanwhile; the lists of the keys it has not loaded yet are read afterwards,
from the then current table. -/

/-- a `Publish` parked inside a `Notify`: the `Notify` calls still to be made from the snapshot it is
    iterating, and the keys it has not loaded yet -/
structure Parked where
  rest  : List Delivery
  later : List Key
deriving Repr, DecidableEq

/-- the calls of one loaded list up to and including the first one to `slow`, and those after it;
    `none` if `slow` is not in the list -/
def splitSlow (slow : Notifier) : List Delivery → Option (List Delivery × List Delivery)
  | [] => none
  | d :: ds =>
    if d.n = slow then some ([d], ds)
    else match splitSlow slow ds with
      | some (a, b) => some (d :: a, b)
      | none => none

/-- run `Publish(keys, m)` on table `t` until it blocks in the first `Notify` call to `slow`:
    the calls made so far (the blocked one included) and, if it blocked, what is left -/
def pubUntilParked (t : Table) (m : Msg) (slow : Notifier) : List Key → List Delivery × Option Parked
  | [] => ([], none)
  | k :: ks =>
    let ds := (tget t k).map (fun n => (⟨n, k, m⟩ : Delivery))
    match splitSlow slow ds with
    | some (a, b) => (a, some ⟨b, ks⟩)
    | none => (ds ++ (pubUntilParked t m slow ks).1, (pubUntilParked t m slow ks).2)

/-- the gate opens: the rest of the snapshot, then the remaining keys from the table as it is now -/
def pubResume (t' : Table) (m : Msg) (p : Parked) : List Delivery :=
  p.rest ++ deliveries t' p.later m

/-! ### memory level: slices and backing arrays

What "immutable snapshot" rests on.  A slice value is a backing array (by address) and a length;
`Load` hands the publisher the slice value stored under the key.  The unsubscribe branch of
`process` either runs its removal loop `cSlice = append(cSlice[:j], cSlice[j+1:]...)` on a fresh
array (`make`+`copy`: `fresh = true`, the code as it is) or on the loaded slice itself
(`fresh = false`: the elements are shifted inside the array a parked publisher is ranging over). -/

structure Slice where
  arr : Nat
  len : Nat
deriving DecidableEq, Repr

/-- backing arrays by address (never freed while referenced) -/
abbrev Arrays := List (List Notifier)

/-- what ranging over slice value `s` yields -/
def view (m : Arrays) (s : Slice) : List Notifier := (m.getD s.arr []).take s.len

/-- one `append(c[:j], c[j+1:]...)` inside an array whose slice has length `len`: the elements
    `j+1 … len-1` move one place to the left, the cell `len-1` keeps its old content -/
def shiftLeft (a : List Notifier) (len j : Nat) : List Notifier :=
  a.take j ++ (a.take len).drop (j + 1) ++ a.drop (len - 1)

/-- the removal loop (with `j--`) executed in place; returns the array and the new length -/
def removeLoop (x : Notifier) : Nat → List Notifier → Nat → Nat → List Notifier × Nat
  | 0, a, len, _ => (a, len)
  | fuel + 1, a, len, j =>
    if j < len then
      if a.getD j "" = x then removeLoop x fuel (shiftLeft a len j) (len - 1) j
      else removeLoop x fuel a len (j + 1)
    else (a, len)

/-- the unsubscribe branch of `process` on the loaded slice `s`: new memory and the slice it `Store`s
    (`Delete` when it is empty — irrelevant for a publisher that already holds `s`) -/
def unsubMem (fresh : Bool) (m : Arrays) (s : Slice) (x : Notifier) : Arrays × Slice :=
  if fresh then
    let c := (view m s).filter (fun y => y ≠ x)
    (m ++ [c], ⟨m.length, c.length⟩)
  else
    let r := removeLoop x (s.len + 1) (m.getD s.arr []) s.len 0
    (m.set s.arr r.1, ⟨s.arr, r.2⟩)

/-- `addSub`: `append(slice, &info)` writes cell `len` of the same array when the capacity allows it
    (`room`), otherwise into a new, larger array -/
def addMem (room : Bool) (m : Arrays) (s : Slice) (x : Notifier) : Arrays × Slice :=
  if room then
    let a := m.getD s.arr []
    (m.set s.arr (a.take s.len ++ [x] ++ a.drop (s.len + 1)), ⟨s.arr, s.len + 1⟩)
  else
    (m ++ [view m s ++ [x]], ⟨m.length, s.len + 1⟩)

/-- the model's copy semantics: the removal of `process` runs on a fresh copy -/
def processRemovesOnFreshCopy : Bool := true

/-! ### running to quiescence (used by the driver; `sched` resolves the `select`) -/

/-- wake every goroutine whose notifier is dead (in `waiting` order, or reversed) -/
def wakeAll (s : State) (rev : Bool) : State :=
  let w := s.waiting.filter (fun e => e.n ∈ s.dead)
  let w := if rev then w.reverse else w
  { s with waiting := s.waiting.filter (fun e => e.n ∉ s.dead), unsubQ := s.unsubQ ++ w }

/-- process until both queues are empty; when both are non-empty the next schedule bit picks the
    case (`true` = unsubscribe first); bits default to `false` -/
def processAll : Nat → State → List Bool → State
  | 0, s, _ => s
  | fuel + 1, s, sched =>
    match s.subQ, s.unsubQ with
    | [], [] => s
    | _ :: _, [] => processAll fuel (step s .processSub) sched
    | [], _ :: _ => processAll fuel (step s .processUnsub) sched
    | _ :: _, _ :: _ =>
      match sched with
      | true :: r => processAll fuel (step s .processUnsub) r
      | false :: r => processAll fuel (step s .processSub) r
      | [] => processAll fuel (step s .processSub) []

def settle (s : State) (sched : List Bool) : State :=
  let (rev, sched) := match sched with
    | b :: r => (b, r)
    | [] => (false, [])
  let s := wakeAll s rev
  processAll (s.subQ.length + s.unsubQ.length) s sched

end Aurora.Subscribe
