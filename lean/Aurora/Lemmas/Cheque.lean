import Aurora.Model.Cheque
/-! Helper lemmas for C30 (cheque reception). -/
namespace Aurora.Cheque

/-- full characterisation of the cheque store's decision -/
theorem storeReceive_ok_iff (self : Nat) (s : Store) (c : Cheque) (r : Option Nat) (s' : Store) (amt : Nat) :
    storeReceive self s c r = (s', .ok amt) ↔
      (c.rcp = self ∧ r = some c.ben ∧ lastCum s c.ben < c.cum ∧ amt = c.cum - lastCum s c.ben ∧
       s' = { last := fun i => if i = c.ben then some c else s.last i }) := by
  unfold storeReceive
  by_cases h1 : c.rcp = self
  · cases r with
    | none => simp [h1]
    | some issuer =>
      by_cases h2 : issuer = c.ben
      · by_cases h3 : c.cum ≤ lastCum s c.ben
        · simp [h1, h2, h3]; omega
        · simp only [h1, h2, h3, ne_eq, not_true_eq_false, if_false, Prod.mk.injEq, StoreRes.ok.injEq, true_and]
          constructor
          · rintro ⟨rfl, rfl⟩; exact ⟨by omega, rfl, rfl⟩
          · rintro ⟨_, rfl, rfl⟩; exact ⟨rfl, rfl⟩
      · simp [h1, h2]
  · simp [h1]

/-- a store call that does not answer `ok` leaves the store unchanged -/
theorem storeReceive_not_ok (self : Nat) (s : Store) (c : Cheque) (r : Option Nat)
    (h : ∀ a, (storeReceive self s c r).2 ≠ .ok a) : (storeReceive self s c r).1 = s := by
  by_cases h1 : c.rcp = self
  · cases r with
    | none => simp [storeReceive, h1]
    | some issuer =>
      by_cases h2 : issuer = c.ben
      · by_cases h3 : c.cum ≤ lastCum s c.ben
        · simp [storeReceive, h1, h2, h3]
        · exact absurd (by simp [storeReceive, h1, h2, h3]) (h (c.cum - lastCum s c.ben))
      · simp [storeReceive, h1, h2]
  · simp [storeReceive, h1]

theorem lastCum_update (s : Store) (c : Cheque) (i : Nat) :
    lastCum { last := fun j => if j = c.ben then some c else s.last j } i
      = if i = c.ben then c.cum else lastCum s i := by
  unfold lastCum
  by_cases h : i = c.ben <;> simp [h]

theorem foldl_max_ge (l : List Nat) (a : Nat) : a ≤ l.foldl max a := by
  induction l generalizing a with
  | nil => simp
  | cons x xs ih => simp only [List.foldl_cons]; exact Nat.le_trans (Nat.le_max_left a x) (ih _)

/-- Clause 1, service level (`accept_sound`): a cheque delivered by `peer` is accepted only if
    it names this node as recipient, the recovered signer is its stated issuer, it raises that
    issuer's cumulative payout, and `peer`'s registered chain address is that issuer. -/
theorem receive_ok_sound (st st' : St) (peer : Nat) (c : Cheque) (r : Option Nat) (amt : Nat)
    (h : receive st peer c r = (st', .store (.ok amt))) :
    c.rcp = st.self ∧ r = some c.ben ∧ lastCum st.store c.ben < c.cum ∧ st.fwd peer = some c.ben ∧
    amt = c.cum - lastCum st.store c.ben := by
  unfold receive receiveG at h
  cases hf : st.fwd peer with
  | none => simp [hf] at h
  | some a =>
    simp only [hf] at h
    by_cases hrej : (c.ben != a || c.rcp != st.self) = true
    · simp [hrej] at h
    · simp only [hrej, if_true, Bool.false_eq_true, if_false] at h
      have hben : c.ben = a := by
        simp only [Bool.or_eq_true, bne_iff_ne, ne_eq, not_or, Decidable.not_not] at hrej; exact hrej.1
      cases hs : storeReceive st.self st.store c r with
      | mk s' res =>
        cases res with
        | ok amt' =>
          simp only [hs, Prod.mk.injEq, Res.store.injEq, StoreRes.ok.injEq] at h
          obtain ⟨_, rfl⟩ := h
          have := (storeReceive_ok_iff _ _ _ _ _ _).1 hs
          exact ⟨this.1, this.2.1, this.2.2.1, by rw [hben], this.2.2.2.1⟩
        | wrongRecipient => simp [hs] at h
        | recoverErr => simp [hs] at h
        | invalid => simp [hs] at h
        | notIncreasing => simp [hs] at h

/-- A cheque that is not accepted changes nothing (no store entry, no credit): replays, equal or
    lower amounts, mis-addressed, wrongly signed and foreign-issuer cheques are inert. -/
theorem receive_reject_no_change (st : St) (peer : Nat) (c : Cheque) (r : Option Nat)
    (h : ∀ amt, (receive st peer c r).2 ≠ .store (.ok amt)) : (receive st peer c r).1 = st := by
  unfold receive receiveG at *
  cases hf : st.fwd peer with
  | none => simp
  | some a =>
    simp only [hf] at h ⊢
    by_cases hrej : (c.ben != a || c.rcp != st.self) = true
    · simp [hrej]
    · simp only [hrej, if_true, Bool.false_eq_true, if_false] at h ⊢
      cases hs : storeReceive st.self st.store c r with
      | mk s' res =>
        cases res with
        | ok amt' => simp only [hs] at h; exact absurd rfl (h amt')
        | wrongRecipient => rfl
        | recoverErr => rfl
        | invalid => rfl
        | notIncreasing => rfl

/-- Effect of an accepted cheque: the credit record of the issuer's chain address — and of no
    other address — becomes the cumulative payout; only the issuer's stored cheque changes. -/
theorem receive_ok_effect (st st' : St) (peer : Nat) (c : Cheque) (r : Option Nat) (amt : Nat)
    (h : receive st peer c r = (st', .store (.ok amt))) :
    st'.credited c.ben = c.cum ∧ (∀ x, x ≠ c.ben → st'.credited x = st.credited x) ∧
    st'.store.last c.ben = some c ∧ (∀ x, x ≠ c.ben → st'.store.last x = st.store.last x) ∧
    st'.earned c.ben = st.earned c.ben + amt ∧ (∀ x, x ≠ c.ben → st'.earned x = st.earned x) ∧
    st'.fwd = st.fwd ∧ st'.rev = st.rev ∧ st'.self = st.self := by
  have hs := receive_ok_sound st st' peer c r amt h
  unfold receive receiveG at h
  simp only [hs.2.2.2.1] at h
  have hrej : (c.ben != c.ben || c.rcp != st.self) = false := by simp [hs.1]
  simp only [hrej, Bool.false_eq_true, if_false, if_true] at h
  cases hst : storeReceive st.self st.store c r with
  | mk s' res =>
    cases res with
    | ok amt' =>
      simp only [hst, Prod.mk.injEq, Res.store.injEq, StoreRes.ok.injEq] at h
      obtain ⟨rfl, rfl⟩ := h
      have h2 := ((storeReceive_ok_iff _ _ _ _ _ _).1 hst).2.2.2.2
      subst h2
      refine ⟨by simp, fun x hx => by simp [hx], by simp, fun x hx => by simp [hx], by simp,
              fun x hx => by simp [hx], rfl, rfl, rfl⟩
    | wrongRecipient => simp [hst] at h
    | recoverErr => simp [hst] at h
    | invalid => simp [hst] at h
    | notIncreasing => simp [hst] at h

/-- invariant of every reachable state: per issuer, Σ credited amounts = last cumulative payout,
    and no credit record exceeds it -/
def Inv (st : St) : Prop := ∀ i, st.earned i = lastCum st.store i ∧ st.credited i ≤ lastCum st.store i

theorem inv_init (self : Nat) : Inv (init self) := by intro i; simp [init, lastCum]

theorem step_facts (st : St) (op : Op) (hinv : Inv st) (i : Nat) :
    Inv (step st op) ∧
    lastCum (step st op).store i =
      (accOne st op i).foldl max (lastCum st.store i) := by
  unfold accOne
  cases op with
  | reg p a =>
    refine ⟨fun j => ?_, ?_⟩
    · simpa [step, register] using hinv j
    · simp [step, register, accepted]
  | recv p c r =>
    cases hres : (receive st p c r).2 with
    | unknownPeer =>
      have hno : ∀ amt, (receive st p c r).2 ≠ .store (.ok amt) := by intro amt; simp [hres]
      have := receive_reject_no_change st p c r hno
      simp only [step, this, accepted, hres]; exact ⟨hinv, by simp⟩
    | account =>
      have hno : ∀ amt, (receive st p c r).2 ≠ .store (.ok amt) := by intro amt; simp [hres]
      have := receive_reject_no_change st p c r hno
      simp only [step, this, accepted, hres]; exact ⟨hinv, by simp⟩
    | store sr =>
      cases sr with
      | ok amt =>
        have heq : receive st p c r = ((receive st p c r).1, .store (.ok amt)) := Prod.ext rfl hres
        have hs := receive_ok_sound _ _ _ _ _ _ heq
        have he := receive_ok_effect _ _ _ _ _ _ heq
        have hl : ∀ j, lastCum (receive st p c r).1.store j = if j = c.ben then c.cum else lastCum st.store j := by
          intro j; unfold lastCum
          by_cases hj : j = c.ben
          · subst hj; simp [he.2.2.1]
          · simp [he.2.2.2.1 j hj, hj]
        refine ⟨fun j => ?_, ?_⟩
        · simp only [step, hl]
          by_cases hj : j = c.ben
          · subst hj; simp only [if_true]; rw [he.1, he.2.2.2.2.1, (hinv c.ben).1]; omega
          · simp only [hj, if_false]; rw [he.2.1 j hj, he.2.2.2.2.2.1 j hj]; exact hinv j
        · simp only [step, accepted, hres, hl]
          by_cases hi : c.ben = i
          · subst hi; simp; omega
          · have : ¬ i = c.ben := fun h => hi h.symm
            simp [hi, this]
      | wrongRecipient | recoverErr | invalid | notIncreasing =>
        have hno : ∀ amt, (receive st p c r).2 ≠ .store (.ok amt) := by intro amt; simp [hres]
        have := receive_reject_no_change st p c r hno
        simp only [step, this, accepted, hres]; exact ⟨hinv, by simp⟩
  | srecv c r =>
    cases hs : storeReceive st.self st.store c r with
    | mk s' res =>
      cases res with
      | ok amt =>
        have h := (storeReceive_ok_iff _ _ _ _ _ _).1 hs
        obtain ⟨_, _, hlt, hamt, rfl⟩ := h
        refine ⟨fun j => ?_, ?_⟩
        · simp only [step, storeOnly, hs, lastCum_update]
          by_cases hj : j = c.ben
          · subst hj; simp only [if_true]; have := hinv c.ben; omega
          · simp only [hj, if_false]; exact hinv j
        · simp only [step, storeOnly, accepted, hs, lastCum_update]
          by_cases hi : c.ben = i
          · subst hi; simp; omega
          · have : ¬ i = c.ben := fun h => hi h.symm
            simp [hi, this]
      | wrongRecipient | recoverErr | invalid | notIncreasing =>
        have hno : ∀ a, (storeReceive st.self st.store c r).2 ≠ .ok a := by intro a; simp [hs]
        have h1 := storeReceive_not_ok _ _ _ _ hno
        simp only [step, storeOnly, accepted, hs]
        exact ⟨hinv, by simp⟩

theorem run_facts (ops : List Op) : ∀ (st : St), Inv st → ∀ i,
    Inv (run st ops) ∧ lastCum (run st ops).store i = (accCums st ops i).foldl max (lastCum st.store i) := by
  induction ops with
  | nil => intro st h i; exact ⟨h, rfl⟩
  | cons op ops ih =>
    intro st h i
    have h1 := step_facts st op h i
    have h2 := ih (step st op) h1.1 i
    refine ⟨h2.1, ?_⟩
    simp only [run, List.foldl_cons] at h2 ⊢
    rw [h2.2, h1.2, accCums, List.foldl_append]

end Aurora.Cheque
