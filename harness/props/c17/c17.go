// Package c17: correspondence + model-free oracle for property C17
// (chunk availability records never overclaim) on the node-lite harness.
package c17

import (
	"fmt"
	"strings"

	"verifharness/core"
	"verifharness/nodelite"
)

type prop struct{}

func init() { core.Register(prop{}) }

func (prop) ID() string { return "C17" }
func (prop) Rule() string {
	return "node-lite histories with netstore + retrieval over a second real node: 1-3 initial uploads / cached files, then 6-18 ops: uploads, pyramid exchange and PARTIAL fetches of files and directory entries, " +
		"local reads of manifest / intermediate / data chunks under a file context (`get`, and the reads pin traversals make), the same reads with a failing local store (`getfault`: the storer netstore reads through answers the read of exactly that chunk — stored or not — with an error other than not-found; the real netstore.Get must report the error, not go to the peer and record nothing), discovery answers from the peer (`ask`), chunks of the file served TO the peer (`serve`: the peer's retrieval request answered by the node's real handler, which records the transfer in the availability record it keeps for the peer), chunkinfo restarts from the state store (`reinit`), deletions and collection runs. " +
		"Fixed regression histories first. After every op status + symbolic dump (availability / discovery / source tables with their bit vectors, state-store keys) are compared with the Lean model; " +
		"the oracle checks after every op: every set self-presence bit i has data chunk i stored (positions = distinct data chunks in traversal order, addresses computed from the content), an all-set vector has all data chunks stored, " +
		"after delete / eviction / restart no table entry and no state-store key mentioning the root (any prefix, any overlay) remains, and for a file that was removed once an availability record for the peer exists (memory or state store) only for what was transferred to it since — also after re-upload / re-caching and restart. Non-trivial: >=1 partially fetched file and >=1 chunk read under a file context or delete; distinct by op-list hash."
}

var fixed = []core.Case{
	// a read under the file context whose LOCAL read fails with an error other than not-found (I/O error ...) reports the error and
	// records nothing: d1 is not stored (its bit / source entry must not appear, also not after a restart), d0 is stored (nothing changes)
	{ID: "fix-read-fault-not-recorded", NT: true, Ops: []string{"pup x/AB 0", "pyr x/AB", "fetch x/AB 0 10", "getfault x/AB d1", "getfault x/AB d0", "reinit"}},
	{ID: "fix-read-fault-last-missing-bit", NT: true, Ops: []string{"pup q/ABC 0", "pyr q/ABC", "fetch q/ABC 0 110", "getfault q/ABC d2", "getfault q/ABC h1", "reinit", "read q/ABC"}},
	// reading the manifest / intermediate chunk of a cached file under its context must not mark data chunk 0
	{ID: "fix-bit0-intermediate", NT: true, Ops: []string{"pup q/ABC 0", "pyr q/ABC", "get q/ABC h0", "get q/ABC h1", "get q/ABC h2", "get q/ABC h3", "fetch q/ABC 0 010", "read q/ABC"}},
	{ID: "fix-bit0-pin-traversal", NT: true, Ops: []string{"pup u/BA 0", "pyr u/BA", "pin u/BA", "unpin u/BA"}},
	{ID: "fix-bit0-dir-manifest", NT: true, Ops: []string{"pup p/a+q/b 0", "pyr p/a+q/b", "fetch p/a+q/b 1 1", "get p/a+q/b h0", "get p/a+q/b h1"}},
	{ID: "fix-delete-clears", NT: true, Ops: []string{"pup x/AB 0", "pyr x/AB", "fetch x/AB 0 10", "ask x/AB", "del x/AB", "reinit"}},
	{ID: "fix-evict-clears", NT: true, Ops: []string{"pup x/AB 0", "pyr x/AB", "fetch x/AB 0 11", "ask x/AB", "gc 0", "reinit"}},
	{ID: "fix-upload-full", NT: true, Ops: []string{"up y/ABA 0", "reinit", "get y/ABA d0", "del y/ABA", "reinit"}},
	// the file was served to the peer before it is removed: the record kept for the peer (chunk-<root>-<peer>) must go as well and
	// must not come back when the same root exists again and chunkinfo restarts from the state store
	{ID: "fix-serve-delete-reupload-restart", NT: true, Ops: []string{"up x/AB 0", "serve x/AB d0", "serve x/AB d1", "del x/AB", "reinit", "up x/AB 0", "reinit", "serve x/AB d1", "reinit"}},
	{ID: "fix-serve-evict-recache-restart", NT: true, Ops: []string{"pup x/AB 0", "pyr x/AB", "fetch x/AB 0 11", "serve x/AB d0", "serve x/AB h0", "gc 0", "reinit", "pyr x/AB", "fetch x/AB 0 10", "reinit"}},
	{ID: "fix-serve-short-file-delete", NT: true, Ops: []string{"up x/a 0", "up y/a 0", "serve x/a d0", "serve y/a h1", "del x/a", "reinit", "up x/a 0", "reinit", "del y/a", "reinit"}},
	{ID: "fix-shared-chunk-then-delete-other", NT: true, Ops: []string{"up x/AB 0", "pup y/ABA 0", "pyr y/ABA", "fetch y/ABA 0 100", "del x/AB", "read y/ABA"}},
}

func (prop) Gen(r *core.Rand, tier string) []core.Case {
	n := 80
	if tier == "thorough" {
		n = 450
	}
	cs := append([]core.Case(nil), fixed...)
	for i := 0; i < n; i++ {
		cfg := nodelite.GenConfig{MinOps: 6, MaxOps: 18, PinUploads: 10, Pins: 8, Deletes: 10, GC: 6, Cache: 24, Partial: true, Gets: 16, Ask: 8, Serve: 14, GetFault: 9, Reinit: 8, Reads: 3, Dirs: true, Budget: 7}
		ops := nodelite.GenHistory(r.Fork(), cfg)
		cs = append(cs, core.Case{ID: fmt.Sprintf("g%d", i), NT: nontrivial(ops), Ops: ops})
	}
	return cs
}

func nontrivial(ops []string) bool {
	partial, ctxread := false, false
	for _, o := range ops {
		f := strings.Fields(o)
		switch f[0] {
		case "fetch":
			if len(f) == 4 && strings.Contains(f[3], "0") {
				partial = true
			}
		case "pyr":
			partial = true
		case "get", "getfault", "del", "pin", "unpin", "serve":
			ctxread = true
		}
	}
	return partial && ctxread
}

func (prop) New() core.Runner { return nodelite.NewRunner(nodelite.NewC17Oracle()) }
