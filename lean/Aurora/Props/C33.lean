import Aurora.Lemmas.TrafficPersist
import Aurora.Props.C31
import Aurora.Lemmas.DepthAtomic
import Aurora.Lemmas.AtomicRegion
import Aurora.Generated.TrafficRefreshRegions
/-!
# C33 — Traffic totals survive restarts

Property theorems only (helpers in `Aurora/Lemmas/TrafficPersist.lean`; the cheque clause reuses the
sequential traffic model of C31).  `Aurora/Model/TrafficPersist.lean` models one traffic total
updated by any number of goroutines as interleavings of atomic steps; `stepNew` is the repaired
code (`lock → add → persist → unlock`), `stepOld` the former one (`… unlock → readField → persist`).
`exec step s acts` runs a schedule; theorems quantify over *all* schedules `acts` (no bound on
goroutines or steps).  `restored s = max(base, stored total)` is what a restart restores.
-/
namespace Aurora.TrafficPersist

/-- Clause 1 (`quiescent_persisted_eq_memory`): in every state reachable by any interleaving,
    whenever no update holds the peer lock — in particular when no update is in flight — what a
    restart would restore equals the total in memory; and once the store holds at least the
    chain/cheque figure, the persisted total *is* the total in memory. -/
theorem C33_quiescent_persisted_eq_memory (base st : Nat) (acts : List Act) (s : State)
    (he : exec stepNew (init base st) acts = some s) :
    (s.lock = none → restored s = s.mem) ∧
    (QuiescentNew s → restored s = s.mem ∧ (s.base ≤ s.store → s.store = s.mem)) := by
  have hinv := (inv_exec acts _ _ (inv_init base st) he).1
  refine ⟨hinv.2.2.1, fun hq => ?_⟩
  have hfree : s.lock = none := by
    cases hl : s.lock with
    | none => rfl
    | some t =>
      have := holder_pc s hinv t hl
      have := hq t
      omega
  have hr := hinv.2.2.1 hfree
  refine ⟨hr, fun hb => ?_⟩
  simp only [restored] at hr; omega

/-- Clause 2 (`restart_ge_before`, crash at any point): take any moment at which the peer lock is
    free (e.g. right after an update returned) with total `s1.mem` in memory; after *any* further
    interleaving — including a crash in the middle of later updates — a restart restores at least
    that total: no served or consumed traffic whose update had returned is forgotten.  The persisted
    total never decreases. -/
theorem C33_restart_ge_before (base st : Nat) (acts1 acts2 : List Act) (s1 s2 : State)
    (h1 : exec stepNew (init base st) acts1 = some s1) (hfree : s1.lock = none)
    (h2 : exec stepNew s1 acts2 = some s2) :
    s1.mem ≤ restored s2 ∧ s1.store ≤ s2.store := by
  have i1 := inv_exec acts1 _ _ (inv_init base st) h1
  have i2 := inv_exec acts2 _ _ i1.1 h2
  have hr := i1.1.2.2.1 hfree
  simp only [restored] at hr ⊢
  rw [i2.2.2.2]
  refine ⟨?_, i2.2.1⟩
  have := i2.2.1
  omega

/-- What the repair changed: with the former order (persist after unlock, from a re-read field) the
    schedule "T0 adds 5 and reads 5; T1 adds 3, reads 8 and persists 8; T0 persists 5" ends with no
    update in flight, 8 in memory and 5 in the store — a restart would forget 3. -/
theorem C33_stale_persist_counterexample :
    ∃ acts s, exec stepOld (init 0 0) acts = some s ∧ s.lock = none ∧
      (s.thr 0).pc = 5 ∧ (s.thr 1).pc = 5 ∧ s.mem = 8 ∧ s.store = 5 ∧ restored s < s.mem :=
  ⟨[.call 0 5, .call 1 3, .lock 0, .add 0, .unlock 0, .read 0, .lock 1, .add 1, .unlock 1, .read 1,
    .persist 1, .persist 0], _, rfl, rfl, rfl, rfl, rfl, rfl, by decide⟩

/-- the same schedule shape is harmless for the repaired code: T1 cannot lock before T0 unlocked, and
    T0 unlocks only after persisting (non-vacuity of the theorems above: schedules exist) -/
example : ∃ s, exec stepNew (init 0 0) [.call 0 5, .call 1 3, .lock 0, .add 0, .persist 0, .unlock 0,
    .lock 1, .add 1, .persist 1, .unlock 1] = some s ∧ s.mem = 8 ∧ s.store = 8 ∧ s.lock = none :=
  ⟨_, rfl, rfl, rfl, rfl⟩
example : exec stepNew (init 0 0) [.call 0 5, .call 1 3, .lock 0, .add 0, .lock 1] = none := rfl

/-! ### the refresh (`trafficPeerChequeUpdate`) against concurrent updates

`trafficInit` (start-up, every 24 h, `TrafficInit` API) resets each peer's totals to
max(chain value, last cheque, persisted total) while `PutRetrieveTraffic` / `PutTransferTraffic` may run.
That is safe only if the persisted totals are read inside the peer-lock region that assigns the
fields — otherwise an update that lands between the read and the lock is overwritten in memory and the
next update persists the smaller total.  The extractor regenerates the lock / store-read /
store-write / field events of the three functions (`Aurora/Generated/TrafficRefreshRegions.lean`). -/

section Refresh
open Aurora.Generated.TrafficRefreshRegions
open Aurora.LockSetProg (Body)

/-- a function's events are all inside ONE critical section of the peer lock -/
def regionOk (f : Bool × Body) : Bool :=
  f.1 && Aurora.LockSetProg.bodyOk lockOf f.2 && Aurora.AtomicRegion.oneRegion f.2

/-- Clause 1/2, **static obligation** (by evaluation of the regenerated lists): in
    `trafficPeerChequeUpdate` the reads of both persisted totals and the assignments of
    `retrieveTraffic` / `transferTraffic` were found and all lie in one peer-lock region; in
    `PutRetrieveTraffic` / `PutTransferTraffic` the field update and the store `Put` were found and lie in
    one peer-lock region.  The seeded change C33-2 (store reads hoisted in front of `traffic.Lock()`)
    generates `[.access 0 false, .access 1 false, .lock 0, …]` and this fails. -/
theorem C33_refresh_reads_inside_lock_region :
    regionOk trafficPeerChequeUpdate = true ∧
    Aurora.AtomicRegion.accesses trafficPeerChequeUpdate.2 0 false = true ∧
    Aurora.AtomicRegion.accesses trafficPeerChequeUpdate.2 1 false = true ∧
    Aurora.AtomicRegion.accesses trafficPeerChequeUpdate.2 2 true = true ∧
    Aurora.AtomicRegion.accesses trafficPeerChequeUpdate.2 3 true = true ∧
    regionOk PutRetrieveTraffic = true ∧
    Aurora.AtomicRegion.accesses PutRetrieveTraffic.2 2 true = true ∧
    Aurora.AtomicRegion.accesses PutRetrieveTraffic.2 0 true = true ∧
    regionOk PutTransferTraffic = true ∧
    Aurora.AtomicRegion.accesses PutTransferTraffic.2 3 true = true ∧
    Aurora.AtomicRegion.accesses PutTransferTraffic.2 1 true = true := by
  decide

/-- the shape of an update site in the transition system of `Lemmas/DepthAtomic.lean`: change and
    recomputation inside one critical section (`atomicIn`) iff the extracted events say so, otherwise
    the pessimistic `split` (compute with no lock held, lock only to store) -/
def shapeOf (f : Bool × Body) : Aurora.DepthAtomic.Shape := if regionOk f then .atomicIn else .split

/-- Clause 1/2 for refreshes racing with updates (one total of one peer).  Threads: `isRefresh i` —
    a refresh of the peer (no change to the persisted total; memory := max(base, persisted)); otherwise
    an update by `amt i` (persisted total += `amt i`; memory := the new total), each with the shape
    its extracted function has.  By `C33_refresh_reads_inside_lock_region` no thread is `split`, so by
    the quiescence theorem of `Lemmas/DepthAtomic.lean`: in every interleaving, once all threads have
    finished, the total in memory is max(base, persisted total), the persisted total is the start
    value plus the amounts of ALL updates that took part (in the order `s.log`), and it never went
    below the start value — nothing acknowledged is forgotten by the running node or by a restart
    (`restored = max base store`).  `upd` is either extracted update function.
    (Abstraction: an update's two assignments — field, then store — are one `mutateLocked` /
    `storeRelease` pair of the lemma file, in the other order; both happen inside the one critical
    section that the static obligation establishes.  Mutex semantics assumed as in the lemma file.) -/
theorem C33_refresh_concurrent_totals_current (base : Nat) (isRefresh : Nat → Bool) (amt : Nat → Nat)
    (upd : Bool × Body) (hupd : upd = PutRetrieveTraffic ∨ upd = PutTransferTraffic)
    (sh0 : Nat) (pc0 : Nat → Aurora.DepthAtomic.Pc) (h0 : ∀ i, pc0 i = .start ∨ pc0 i = .done)
    (s : Aurora.DepthAtomic.St Nat)
    (hr : Aurora.DepthAtomic.Reach (max base) (fun i x => if isRefresh i then x else x + amt i)
            (fun i => if isRefresh i then shapeOf trafficPeerChequeUpdate else shapeOf upd) sh0 pc0 s)
    (hq : ∀ i, s.pc i = .done) :
    s.depth = max base s.sh ∧
    s.sh = s.log.foldl (fun x i => if isRefresh i then x else x + amt i) sh0 ∧
    (∀ i, i ∈ s.log ↔ pc0 i = .start) ∧ sh0 ≤ s.sh := by
  have hs : ∀ i, (if isRefresh i then shapeOf trafficPeerChequeUpdate else shapeOf upd) ≠ .split := by
    intro i
    have hu : shapeOf upd = .atomicIn := by
      rcases hupd with e | e <;> subst e
      · simp [shapeOf, C33_refresh_reads_inside_lock_region.2.2.2.2.2.1]
      · simp [shapeOf, C33_refresh_reads_inside_lock_region.2.2.2.2.2.2.2.2.1]
    have hf : shapeOf trafficPeerChequeUpdate = .atomicIn := by
      simp [shapeOf, C33_refresh_reads_inside_lock_region.1]
    cases isRefresh i <;> simp [hu, hf]
  have hsh := Aurora.DepthAtomic.sh_eq_fold_log _ _ _ hr
  refine ⟨Aurora.DepthAtomic.quiescent_current _ _ _ hs h0 hr hq, hsh,
    Aurora.DepthAtomic.log_exact _ _ _ h0 hr hq, ?_⟩
  rw [hsh]
  have : ∀ (l : List Nat) (x : Nat), x ≤ l.foldl (fun x i => if isRefresh i then x else x + amt i) x := by
    intro l
    induction l with
    | nil => intro x; exact Nat.le_refl x
    | cons i l ih =>
      intro x
      simp only [List.foldl_cons]
      cases isRefresh i
      · exact Nat.le_trans (Nat.le_add_right x (amt i)) (ih _)
      · exact ih x
  exact this _ _

/-- the hypothesis "no split site" is needed: `Lemmas/DepthAtomic.split_breaks` is a concrete
    interleaving of one split and one atomic event that ends, at quiescence, with a stale value in
    memory — the shape of the seeded change C33-2 (refresh computes from a total read before the lock) -/
example : ∃ s : Aurora.DepthAtomic.St Nat,
    Aurora.DepthAtomic.Reach id (fun i _ => i + 1) (fun i => if i = 0 then .split else .atomic) 0
      (fun i => if i < 2 then .start else .done) s ∧ (∀ i, s.pc i = .done) ∧ s.depth ≠ id s.sh :=
  Aurora.DepthAtomic.split_breaks

/-- the shape of the seeded change C33-2 is rejected by the region check -/
example : regionOk (true, [.access 0 false, .access 1 false, .lock 0, .access 2 true, .access 3 true, .unlock 0]) = false := by
  decide
/-- … and so is reading under the lock, releasing it, and assigning in a second critical section -/
example : Aurora.AtomicRegion.oneRegion [.lock 0, .access 0 false, .unlock 0, .lock 0, .access 2 true, .unlock 0] = false := by
  decide

end Refresh

/-! ### the settlement handshake (a peer presents the cheque it holds) -/

/-- Clause 2 ("last cheque amounts … at least their values", "no cheque issued for an amount already
    paid") for the handshake of the coarse model (`Node.handshake`, compared with the real
    `Service.Handshake` by the `hs` op): whatever cheque a registered peer presents, the persisted last
    sent cheque and the owed total of every address are at least what they were, the persisted traffic
    totals are untouched, and the presented amount is covered afterwards (a cheque whose record was lost
    is adopted) — so a stale cheque can never lower the record (seeded change C33-3). -/
theorem C33_handshake_never_lowers (n n' : Node) (p c : Nat) (h : n.handshake p c = some n') :
    (∀ a, (n.sLast a).getD 0 ≤ (n'.sLast a).getD 0 ∧ n.memR a ≤ n'.memR a) ∧
    n'.stR = n.stR ∧ n'.stT = n.stT ∧ n'.memT = n.memT ∧
    (∀ a, n.fwd p = some a → c ≤ (n'.sLast a).getD 0) := by
  unfold Node.handshake at h
  cases hf : n.fwd p with
  | none => simp [hf] at h
  | some a0 =>
    simp only [hf] at h
    by_cases hc : c > (n.sLast a0).getD 0
    · simp only [hc, if_true, Option.some.injEq] at h
      subst h
      refine ⟨fun a => ?_, rfl, rfl, rfl, fun a ha => ?_⟩
      · by_cases e : a = a0
        · subst e; simp only [upd, if_true, Option.getD_some]; exact ⟨Nat.le_of_lt hc, Nat.le_max_left _ _⟩
        · simp only [upd, e, if_false]; exact ⟨Nat.le_refl _, Nat.le_refl _⟩
      · cases ha; simp [upd]
    · simp only [hc, if_false, Option.some.injEq] at h
      subst h
      refine ⟨fun a => ⟨Nat.le_refl _, Nat.le_refl _⟩, rfl, rfl, rfl, fun a ha => ?_⟩
      cases ha; exact Nat.le_of_not_gt hc

/-- the hypothesis is satisfiable and the theorem is not about a no-op: a stale cheque (100 after 250)
    changes nothing, a newer one (300) is adopted -/
example :
    let n0 : Node := { Node.init with fwd := upd Node.init.fwd 0 (some 1), sLast := upd Node.init.sLast 1 (some 250) }
    (n0.handshake 0 100).map (fun n => n.sLast 1) = some (some 250) ∧
    (n0.handshake 0 300).map (fun n => (n.sLast 1, n.chq 1, n.memR 1)) = some (some 300, 300, 300) := by
  decide

/-- **Known finding** (`known-findings.txt`: `C33/restart-below-before.cheque-only-peer`), as a theorem about
    the model that the correspondence run ties to the code: a registered peer with no persisted traffic
    total whose cheque for 300 is adopted at the handshake has owed total 300 and a persisted last cheque
    of 300 — and after a restart owed total and cheque total are 0 while the persisted cheque is still
    300, so the next payment starts again from 0.  Clause 2 of C33 does not hold for this history. -/
theorem C33_cheque_only_peer_forgotten_counterexample :
    let n0 : Node := { Node.init with fwd := upd Node.init.fwd 0 (some 1), sFwd := upd Node.init.sFwd 0 (some 1) }
    ∃ n1, n0.handshake 0 300 = some n1 ∧ n1.memR 1 = 300 ∧ n1.sLast 1 = some 300 ∧
      n1.restart.memR 1 = 0 ∧ n1.restart.chq 1 = 0 ∧ n1.restart.sLast 1 = some 300 := by
  exact ⟨_, rfl, by decide, by decide, by decide, by decide, by decide⟩

end Aurora.TrafficPersist

namespace Aurora.Traffic

/-- Clause 3 (`no_repay`): after any history (credits, payments with positive threshold, refreshes,
    cash-outs, earlier restarts) followed by a restart, the next cheque for peer `p` has a
    cumulative payout strictly above every cheque already recorded as sent to that address and
    equal to the restored total owed — so no amount already paid is paid again, and the last
    cheque amount restored is at least the recorded one. -/
theorem C33_no_repay (n : Nat) (ops : List Op) (hpos : ∀ op ∈ ops, PosThr op)
    (p : Nat) (thr : Int) (hthr : 0 < thr) (fail : Bool) (cum : Int) :
    let st := restart (run n init ops)
    (pay n st p thr fail).2.emit = some cum →
    ∃ a, st.fwd p = some a ∧ (∀ l, st.sLast a = some l → l < cum ∧ l ≤ st.chq a) ∧ cum = st.tot a := by
  intro st hem
  have hrun : st = run n init (ops ++ [.restart]) := by
    simp [st, run, List.foldl_append, step]
  have hpos' : ∀ op ∈ ops ++ [.restart], PosThr op := by
    intro op hop
    rcases List.mem_append.1 hop with h | h
    · exact hpos op h
    · simp only [List.mem_singleton] at h; subst h; trivial
  have hinv : Inv st := by
    rw [hrun]
    have : ∀ (ops : List Op) (s : St), Inv s → (∀ op ∈ ops, PosThr op) → Inv (run n s ops) := by
      intro ops
      induction ops with
      | nil => intro s hs _; exact hs
      | cons op ops ih =>
        intro s hs hp
        exact ih (step n s op) (inv_step n s op (hp op (List.mem_cons_self ..)) hs)
          (fun o ho => hp o (List.mem_cons_of_mem _ ho))
    exact this _ init inv_init hpos'
  have h := C31_payout_monotone_bounded n (ops ++ [.restart]) hpos' p thr hthr fail cum
  simp only at h
  rw [← hrun] at h
  obtain ⟨a, hf, hlt, hc, _, _⟩ := h hem
  exact ⟨a, hf, fun l hl => ⟨hlt l hl, ((hinv a).2.1 l hl).1⟩, hc⟩

/-- Clause 2 on the sequential model: a restart restores, for every address, a total that is at
    least the persisted total and a cheque total that is at least the last recorded cheque. -/
theorem C33_restore_is_max (st : St) (a : Nat) :
    (∀ v, st.sRetr a = some v → v ≤ (restart st).tot a) ∧
    (∀ l, st.sLast a = some l → inSet st a = true → l ≤ (restart st).chq a ∧ l ≤ (restart st).tot a) := by
  constructor
  · intro v hv
    have hin : inSet st a = true := by simp [inSet, hv]
    simp only [restart, refresh, inSet] at hin ⊢
    simp only [hin, if_true, hv, Option.getD_some]
    exact imax_ge_right _ _
  · intro l hl hin
    simp only [restart, refresh, inSet] at hin ⊢
    simp only [hin, if_true, hl]
    exact ⟨imax_ge_right _ _, Int.le_trans (imax_ge_right _ _) (imax_ge_left _ _)⟩

end Aurora.Traffic
