import Aurora.Lemmas.Accept
import Aurora.Props.C04
/-!
# C06 — Only valid chunks are accepted from peers

Model: `Aurora/Model/Accept.lean` (hand translation of `retrieval.retrieveChunk`'s acceptance test
and of `traversal.GetChunkHashes` with a supplied pyramid, after the `fix:` that bounds the length
in the pipeline's BMT writer), on top of the `Cac`/`Soc` models.  All statements hold for every
base hash `H`, every signature scheme `S` (no cryptographic hypothesis is needed: the theorems
say that what is stored passed the validity predicates of C04/C05), every stale pooled tree and —
for the pyramid — **every tree walk** `trav` (so also for mantaray manifests, which the driver's
concrete walk `loadKeys` does not cover).
-/
namespace Aurora.Accept
open Aurora.Bmt Aurora.Cac Aurora.Soc

variable (S : SigScheme) (H : Bytes → Bytes)

/-- **Deliveries**: whatever the peer sends, the chunk that `retrieveChunk` stores and hands to the
    requester is the delivery for the requested address, and it is a valid content-addressed or a
    valid single-owner chunk for that address. -/
theorem C06_delivery_stored_valid (seg d : Nat) (stale : Bytes) (creditOk reportOk : Bool)
    (addr data : Bytes) (e : Entry)
    (h : acceptDelivery S H seg d stale creditOk reportOk addr data = some e) :
    e = (addr, data) ∧
      (Cac.valid H seg d stale { addr := addr, data := data } = true ∨
       Soc.valid S H seg d stale { addr := addr, data := data } = true) := by
  unfold acceptDelivery at h
  cases hc : Cac.valid H seg d stale { addr := addr, data := data } <;>
  cases hs : Soc.valid S H seg d stale { addr := addr, data := data } <;>
  cases creditOk <;> cases reportOk <;> simp_all

/-- **Deliveries, converse**: an invalid delivery is neither stored nor returned, and nothing is
    accepted when accounting or the chunk-info report fails (the peer is credited only after the
    validity test: `acceptDelivery` is `none` as soon as the test fails, whatever `creditOk`). -/
theorem C06_delivery_invalid_rejected (seg d : Nat) (stale : Bytes) (creditOk reportOk : Bool)
    (addr data : Bytes)
    (hc : Cac.valid H seg d stale { addr := addr, data := data } = false)
    (hs : Soc.valid S H seg d stale { addr := addr, data := data } = false) :
    acceptDelivery S H seg d stale creditOk reportOk addr data = none := by
  simp [acceptDelivery, hc, hs]

/-- a valid delivery is accepted when credit and report succeed -/
theorem C06_delivery_valid_accepted (seg d : Nat) (stale : Bytes) (addr data : Bytes)
    (hv : Cac.valid H seg d stale { addr := addr, data := data } = true ∨
          Soc.valid S H seg d stale { addr := addr, data := data } = true) :
    acceptDelivery S H seg d stale true true addr data = some (addr, data) := by
  rcases hv with hv | hv <;> simp [acceptDelivery, hv]

/-- the per-entry pyramid check is exactly `cac.Valid` for (key, data) -/
theorem checkEntry_iff_valid (seg d : Nat) (stale : Bytes) (e : Entry) :
    checkEntry H seg d stale e = Cac.valid H seg d stale { addr := e.1, data := e.2 } := by
  unfold checkEntry bmtWriterRef Cac.valid
  by_cases h1 : e.2.length < 8
  · simp [h1]
  · by_cases h2 : e.2.length > maxSize seg d + 8
    · simp [h1, h2]
    · simp [h1, h2]

theorem get_mem (m : List Entry) (k : Key) (v : Bytes) (h : get m k = some v) : (k, v) ∈ m := by
  unfold get at h
  induction m with
  | nil => simp at h
  | cons a rest ih =>
    obtain ⟨k', v'⟩ := a
    simp only [List.lookup] at h
    by_cases hk : k == k'
    · simp [hk] at h
      have : k = k' := by simpa using hk
      subst this; subst h; simp
    · simp [hk] at h
      exact List.mem_cons_of_mem _ (ih h)

/-- **Pyramids**: every chunk `GetChunkHashes` puts into the local store is an entry of the peer's
    map and is a valid content-addressed chunk for the key it is stored under — for every walk. -/
theorem C06_pyramid_stored_valid (seg d : Nat) (stale : Bytes)
    (trav : (Key → Option Bytes) → Key → Except Unit (List Key)) (root : Key) (m : List Entry)
    (stored : List Entry) (h : acceptPyramid H seg d stale trav root m = .ok stored) :
    ∀ e ∈ stored, e ∈ m ∧ Cac.valid H seg d stale { addr := e.1, data := e.2 } = true := by
  unfold acceptPyramid at h
  cases hr : get m root with
  | none => simp [hr] at h
  | some rootData =>
    simp only [hr] at h
    by_cases hall : m.all (checkEntry H seg d stale) = true
    · simp only [hall, Bool.not_true, Bool.false_eq_true, if_false] at h
      cases ht : trav (get m) root with
      | error e => simp [ht] at h
      | ok asked =>
        simp only [ht] at h
        have hst : stored = _ := (Except.ok.inj h).symm
        intro e he
        have hmem : e ∈ m := by
          rw [hst] at he
          rcases List.mem_cons.mp he with rfl | he
          · exact get_mem m root rootData hr
          · obtain ⟨k, _, hk⟩ := List.mem_filterMap.mp he
            cases hg : get m k with
            | none => simp [hg] at hk
            | some v =>
              simp [hg] at hk
              subst hk
              exact get_mem m k v hg
        refine ⟨hmem, ?_⟩
        rw [← checkEntry_iff_valid]
        exact List.all_eq_true.mp hall e hmem
    · simp [hall] at h

/-- In terms of the specification (C04): stored entries have 8 … `maxSize+8` bytes and their key
    is the BMT hash of their payload under their span. -/
theorem C06_pyramid_stored_spec (seg d : Nat) (hs : 0 < seg) (stale : Bytes) (hb : stale.length = maxSize seg d)
    (trav : (Key → Option Bytes) → Key → Except Unit (List Key)) (root : Key) (m : List Entry)
    (stored : List Entry) (h : acceptPyramid H seg d stale trav root m = .ok stored) :
    ∀ e ∈ stored, 8 ≤ e.2.length ∧ e.2.length ≤ maxSize seg d + 8 ∧
      e.1 = bmtHash H seg d (e.2.take 8) (e.2.drop 8) := by
  intro e he
  have := (C06_pyramid_stored_valid H seg d stale trav root m stored h e he).2
  exact (C04_valid_iff H seg d hs stale hb _).mp this

theorem mem_dedup (l : List Key) (k : Key) (h : k ∈ dedup l) : k ∈ l := by
  induction l with
  | nil => simp [dedup] at h
  | cons a rest ih =>
    simp only [dedup, List.mem_cons] at h
    rcases h with rfl | h
    · simp
    · exact List.mem_cons_of_mem _ (ih (List.mem_filter.mp h).1)

/-- **Unseen entries are not stored**: a stored key is the root or a key the walk asked the
    in-memory getter for; in particular an entry of the map that the walk never requests (not
    reachable from the root) is not stored, and nothing is stored twice under the root's key. -/
theorem C06_pyramid_unseen_not_stored (seg d : Nat) (stale : Bytes)
    (trav : (Key → Option Bytes) → Key → Except Unit (List Key)) (root : Key) (m : List Entry)
    (stored : List Entry) (h : acceptPyramid H seg d stale trav root m = .ok stored) :
    ∃ asked, trav (get m) root = .ok asked ∧ ∀ e ∈ stored, e.1 = root ∨ e.1 ∈ asked := by
  unfold acceptPyramid at h
  cases hr : get m root with
  | none => simp [hr] at h
  | some rootData =>
    simp only [hr] at h
    by_cases hall : m.all (checkEntry H seg d stale) = true
    · simp only [hall, Bool.not_true, Bool.false_eq_true, if_false] at h
      cases ht : trav (get m) root with
      | error e => simp [ht] at h
      | ok asked =>
        simp only [ht] at h
        refine ⟨asked, rfl, ?_⟩
        have hst : stored = _ := (Except.ok.inj h).symm
        intro e he
        rw [hst] at he
        rcases List.mem_cons.mp he with rfl | he
        · exact Or.inl rfl
        · obtain ⟨k, hk1, hk⟩ := List.mem_filterMap.mp he
          cases hg : get m k with
          | none => simp [hg] at hk
          | some v =>
            simp [hg] at hk
            subst hk
            exact Or.inr (mem_dedup _ _ (List.mem_filter.mp hk1).1)
    · simp [hall] at h

/-- **Unreachable entries are not stored** (concrete walk of the driver: `joiner` full read over
    the pyramid getter, root not a manifest): every stored key is *reachable* from the root — it is
    the root, or an aligned `refLen`-byte reference in the payload of a stored-map entry that is
    itself reachable.  An extra entry nobody references is never stored, however valid it is. -/
theorem C06_pyramid_unreachable_not_stored (seg d : Nat) (stale : Bytes) (C refLen maxReads : Nat)
    (root : Key) (m : List Entry) (stored : List Entry)
    (h : acceptPyramid H seg d stale (Accept.trav C refLen maxReads) root m = .ok stored) :
    ∀ e ∈ stored, Reach (get m) refLen root e.1 := by
  obtain ⟨asked, ht, hs⟩ := C06_pyramid_unseen_not_stored H seg d stale _ root m stored h
  have hl : loadKeys C refLen maxReads (get m) root = .ok asked := by
    unfold Accept.trav at ht
    cases hk : loadKeys C refLen maxReads (get m) root with
    | error e => simp [hk] at ht
    | ok ks => simp [hk] at ht; rw [ht]
  intro e he
  rcases hs e he with hr | ha
  · rw [hr]; exact Reach.root
  · exact loadKeys_reach (get m) C refLen maxReads root asked hl _ ha

/-- A pyramid with any invalid entry — reachable or not — is rejected as a whole. -/
theorem C06_pyramid_invalid_entry_rejected (seg d : Nat) (stale : Bytes)
    (trav : (Key → Option Bytes) → Key → Except Unit (List Key)) (root : Key) (m : List Entry)
    (e : Entry) (he : e ∈ m) (hbad : Cac.valid H seg d stale { addr := e.1, data := e.2 } = false) :
    acceptPyramid H seg d stale trav root m = .error () := by
  unfold acceptPyramid
  cases hr : get m root with
  | none => rfl
  | some rootData =>
    have : m.all (checkEntry H seg d stale) = false := by
      rw [List.all_eq_false]
      exact ⟨e, he, by rw [checkEntry_iff_valid, hbad]; simp⟩
    simp [this]

/-- **The repaired defect.**  The hasher truncates what is written beyond its capacity: an
    oversized payload `p ++ junk` with `|p| = maxSize + 8` hashes like `p`.  This is why the BMT
    comparison alone (the code before the `fix:` commit) accepted such an entry … -/
theorem C06_truncation_collision (seg d : Nat) (hs : 0 < seg) (stale : Bytes) (hb : stale.length = maxSize seg d)
    (span data junk : Bytes) (hspan : span.length = 8) (hd : data.length = maxSize seg d) :
    hashWith H seg d stale span (data ++ junk) = hashWith H seg d stale span data := by
  have h1 := C03_seq_correct H seg d hs stale hb span hspan [data ++ junk]
  have h2 := C03_seq_correct H seg d hs stale hb span hspan [data]
  simp only [writes, List.foldl_cons, List.foldl_nil, List.flatten_cons, List.flatten_nil,
    List.append_nil] at h1 h2
  have e1 : (data ++ junk).take (maxSize seg d) = data := by
    rw [← hd]; exact List.take_left' rfl
  have e2 : data.take (maxSize seg d) = data := List.take_of_length_le (by omega)
  rw [e1] at h1; rw [e2] at h2
  unfold hashWith hashWithBuf
  exact h1.trans h2.symm

/-- … and with the length bound of the repaired writer an oversized entry makes the whole pyramid
    fail, whatever it hashes to. -/
theorem C06_oversize_entry_rejected (seg d : Nat) (stale : Bytes)
    (trav : (Key → Option Bytes) → Key → Except Unit (List Key)) (root : Key) (m : List Entry)
    (e : Entry) (he : e ∈ m) (hbig : e.2.length > maxSize seg d + 8) :
    acceptPyramid H seg d stale trav root m = .error () := by
  apply C06_pyramid_invalid_entry_rejected H seg d stale trav root m e he
  simp [Cac.valid, hbig]

/-- The model instance the driver runs is the repository's: `maxSize 32 12 = ChunkSize`. -/
theorem C06_consts : Aurora.Generated.chunkSize = maxSize 32 12 ∧ Aurora.Generated.hashSize = 32 := by decide

/-- Non-vacuity: a one-entry pyramid (toy hash, `seg = 1`, `d = 0`) is accepted and its root stored. -/
example :
    let H : Bytes → Bytes := fun x => [x.foldl (fun a b => a * 3 + b + 1) 0]
    let p : Bytes := [1,0,0,0,0,0,0,0,7]
    let k := hashWith H 1 0 [0,0] (p.take 8) (p.drop 8)
    (acceptPyramid H 1 0 [0,0] (fun _ r => .ok [r]) k [(k, p)]).toOption = some [(k, p)] := by decide

end Aurora.Accept
