package c28

// Network-level simulation: N real Services, a deterministic scheduler, invariants after every step.

import (
	"context"
	"fmt"
	"strconv"
	"strings"
	"time"

	"github.com/ethereum/go-ethereum/common"
	"github.com/gauss-project/aurorafs/pkg/p2p/protobuf"
	"github.com/gauss-project/aurorafs/pkg/routetab"
	"github.com/gauss-project/aurorafs/pkg/routetab/pb"

	"verifharness/core"
)

type simNet struct {
	n      int
	nodes  []*simNode
	adj    [][]bool // current neighbour links
	ever   [][]bool // links that existed at some time (nlink / nunlink change adj only)
	pub    []int
	relays []packet // relay streams (C/P) picked up while collecting a node's output
	alpha  int
	ttl    int
	flight []packet
	steps  int
}

func (s *simNet) close() {
	for _, n := range s.nodes {
		n.close()
	}
}

func (s *simNet) collect(from int) {
	for _, p := range decode(from, s.nodes[from].str.take()) {
		switch p.kind {
		case "Q", "R":
			if p.to < s.n && !s.adj[from][p.to] && s.ever[from][p.to] {
				continue // the link has gone down (nunlink): the stream cannot be opened
			}
			s.flight = append(s.flight, p)
		case "C", "P":
			s.relays = append(s.relays, p)
		}
	}
}

// checkPath: C28's path predicate, evaluated directly on a path of node indices.
func (s *simNet) checkPath(ctx *core.Ctx, where string, p []int) {
	if hasDup(p) {
		ctx.Fail(where+"-path-duplicate", "%s path %v repeats a node", where, p)
	}
	for i := 0; i+1 < len(p); i++ {
		if p[i] >= s.n || p[i+1] >= s.n || !s.ever[p[i]][p[i+1]] {
			ctx.Fail(where+"-path-not-walk", "%s path %v: %d-%d is not a neighbour link", where, p, p[i], p[i+1])
			break
		}
	}
}

func (s *simNet) invariants(ctx *core.Ctx) {
	for i, n := range s.nodes {
		n.svc.VerifTable().VerifEachPath(func(_ common.Hash, p *routetab.Path) {
			ip := make([]int, len(p.Items))
			for k, a := range p.Items {
				ip[k] = idx(a)
			}
			s.checkPath(ctx, "stored", ip)
			if contains(ip, i) {
				ctx.Fail("stored-path-contains-self", "node %d stores %v", i, ip)
			}
			if len(ip) > s.ttl {
				ctx.Fail("stored-path-too-long", "node %d stores %v, ttl %d", i, ip, s.ttl)
			}
			if len(ip) > 0 && !s.ever[i][ip[len(ip)-1]%universe] {
				ctx.Fail("stored-path-last-not-neighbor", "node %d stores %v whose last hop is not its neighbour", i, ip)
			}
		})
		// what the node returns
		for t := 0; t < s.n; t++ {
			ps, err := n.svc.GetRoute(context.Background(), ids[t].overlay)
			if err != nil {
				continue
			}
			for _, p := range ps {
				ip := make([]int, len(p.Items))
				for k, a := range p.Items {
					ip[k] = idx(a)
				}
				if len(ip) == 0 || !contains(ip[:len(ip)-1], t) {
					ctx.Fail("returned-path-without-target", "node %d returns %v for target %d", i, ip, t)
				}
			}
		}
	}
	for _, p := range s.flight {
		var ps [][]int
		if p.kind == "Q" {
			ps = idxPaths(p.req.Paths)
		} else {
			ps = idxPaths(p.resp.Paths)
		}
		if !s.ever[p.from][p.to%universe] {
			ctx.Fail("message-to-non-neighbor", "%s sent from %d to %d", p.kind, p.from, p.to)
		}
		for _, q := range ps {
			s.checkPath(ctx, "flight", q)
			if len(q) == 0 || q[len(q)-1] != p.from {
				ctx.Fail("flight-path-not-ending-in-sender", "path %v sent by %d", q, p.from)
			}
		}
	}
}

func (s *simNet) deliverAt(ctx *core.Ctx, k int, drop bool, r *core.Rand) {
	p := s.flight[k]
	s.flight = append(append([]packet(nil), s.flight[:k]...), s.flight[k+1:]...)
	s.steps++
	if drop || p.to >= s.n || !s.adj[p.from][p.to] {
		return
	}
	var msg protobuf.Message
	name := "onRouteReq"
	if p.kind == "Q" {
		msg = p.req
	} else {
		msg, name = p.resp, "onRouteResp"
	}
	withRand(r.Bytes(6), func() { _ = s.nodes[p.to].deliver(name, p.from, msg) })
	s.collect(p.to)
	s.invariants(ctx)
}

// bound on the number of scheduler steps a finite batch of in-flight messages can cause: every
// delivery replaces a message by at most n messages of strictly smaller rank; ranks < 2*ttl+4.
func (s *simNet) stepBound() int {
	b := len(s.flight) + 1
	for i := 0; i < 2*s.ttl+4 && b < 2_000_000; i++ {
		b *= s.n + 1
	}
	if b > 200_000 {
		b = 200_000
	}
	return b
}

func (rn *runner) netStep(ctx *core.Ctx, op []string) string {
	if op[0] == "net" {
		if len(op) != 6 {
			return "bad-op"
		}
		n, e1 := strconv.Atoi(op[1])
		a, e2 := strconv.Atoi(op[3])
		l, e3 := strconv.Atoi(op[4])
		pub, ok := parseList(op[5], ",")
		if e1 != nil || e2 != nil || e3 != nil || !ok || n < 1 || n > universe || a < 1 || l < 0 {
			return "bad-op"
		}
		adj, ever := make([][]bool, universe), make([][]bool, universe)
		for i := range adj {
			adj[i], ever[i] = make([]bool, universe), make([]bool, universe)
		}
		order := make([][]int, n)
		if op[2] != "-" {
			for _, e := range strings.Split(op[2], ",") {
				xy := strings.Split(e, "-")
				if len(xy) != 2 {
					return "bad-op"
				}
				x, e1 := strconv.Atoi(xy[0])
				y, e2 := strconv.Atoi(xy[1])
				if e1 != nil || e2 != nil || x < 0 || y < 0 || x >= n || y >= n || x == y {
					return "bad-op"
				}
				if !adj[x][y] {
					adj[x][y], adj[y][x] = true, true
					ever[x][y], ever[y][x] = true, true
					order[x] = append(order[x], y)
					order[y] = append(order[y], x)
				}
			}
		}
		if rn.net != nil {
			rn.net.close()
		}
		setGlobals(a, l)
		s := &simNet{n: n, adj: adj, ever: ever, pub: pub, alpha: a, ttl: l}
		for i := 0; i < n; i++ {
			class := make([]int, len(order[i]))
			for k, nb := range order[i] {
				class[k] = 1
				if contains(pub, nb) {
					class[k] = 0
				}
			}
			// every node knows the underlay of its neighbours (as after a libp2p handshake)
			s.nodes = append(s.nodes, newSimNode(i, order[i], class, order[i]))
		}
		rn.net = s
		return "ok"
	}
	if rn.net == nil {
		return "nonet"
	}
	s := rn.net
	setGlobals(s.alpha, s.ttl)
	switch {
	case op[0] == "nfind" && len(op) == 4:
		i, e1 := strconv.Atoi(op[1])
		t, e2 := strconv.Atoi(op[2])
		rnd, e3 := core.UnHex(op[3])
		if e1 != nil || e2 != nil || e3 != nil || i < 0 || t < 0 {
			return "bad-op"
		}
		if i >= s.n || t >= s.n {
			return "ok"
		}
		withRand(rnd, func() { _, _ = s.nodes[i].svc.FindRoute(context.Background(), ids[t].overlay, time.Millisecond) })
		s.collect(i)
		s.invariants(ctx)
		return "ok"
	case op[0] == "nrun" && len(op) == 4:
		k, e1 := strconv.Atoi(op[1])
		seed, e2 := strconv.Atoi(op[2])
		dp, e3 := strconv.Atoi(op[3])
		if e1 != nil || e2 != nil || e3 != nil || k < 0 || seed < 0 || dp < 0 {
			return "bad-op"
		}
		r := core.NewRand(uint64(seed))
		for ; k > 0 && len(s.flight) > 0; k-- {
			s.deliverAt(ctx, r.Intn(len(s.flight)), r.Chance(dp), r)
		}
		return "ok"
	case op[0] == "nquiesce" && len(op) == 2:
		seed, e1 := strconv.Atoi(op[1])
		if e1 != nil || seed < 0 {
			return "bad-op"
		}
		r := core.NewRand(uint64(seed))
		bound := s.stepBound()
		for k := 0; len(s.flight) > 0; k++ {
			if k >= bound {
				ctx.Fail("discovery-does-not-terminate", "%d messages still in flight after %d deliveries (n=%d ttl=%d)", len(s.flight), k, s.n, s.ttl)
				s.flight = nil
				break
			}
			s.deliverAt(ctx, r.Intn(len(s.flight)), r.Chance(5), r)
		}
		return "ok"
	case (op[0] == "nlink" || op[0] == "nunlink") && len(op) == 3:
		// the topology changes: a link comes up / goes down (both ends notice, as after a libp2p
		// connect / disconnect); messages in flight on a link that goes down are lost
		a, e1 := strconv.Atoi(op[1])
		b, e2 := strconv.Atoi(op[2])
		if e1 != nil || e2 != nil || a < 0 || b < 0 {
			return "bad-op"
		}
		if a >= s.n || b >= s.n || a == b {
			return "ok"
		}
		if op[0] == "nlink" && !s.adj[a][b] {
			s.adj[a][b], s.adj[b][a] = true, true
			s.ever[a][b], s.ever[b][a] = true, true
			s.nodes[a].link(b, contains(s.pub, b))
			s.nodes[b].link(a, contains(s.pub, a))
		}
		if op[0] == "nunlink" && s.adj[a][b] {
			s.adj[a][b], s.adj[b][a] = false, false
			s.nodes[a].unlink(b)
			s.nodes[b].unlink(a)
			var keep []packet
			for _, p := range s.flight {
				if !(p.from == a && p.to == b || p.from == b && p.to == a) {
					keep = append(keep, p)
				}
			}
			s.flight = keep
		}
		s.invariants(ctx)
		return "ok"
	case op[0] == "nrelay" && len(op) == 4:
		i, e1 := strconv.Atoi(op[1])
		t, e2 := strconv.Atoi(op[2])
		seed, e3 := strconv.Atoi(op[3])
		if e1 != nil || e2 != nil || e3 != nil || i < 0 || t < 0 || seed < 0 {
			return "bad-op"
		}
		if i >= s.n || t >= s.n || i == t {
			return "ok"
		}
		r := core.NewRand(uint64(seed))
		// follow a relay hop by hop through the real handlers.  A node without a usable next hop runs a
		// route discovery inside the handler (GetNextHopRandomOrFind -> FindRoute): while it waits, the
		// scheduler delivers the messages in flight (the discovery's requests, their answers, anything
		// left over) until a response for the target reaches the waiting node or nothing is left to
		// deliver (then FindRoute gives up); the handler then picks the next hop from what it has learned.
		cur, from := i, i
		path := []int{}
		for hop := 0; hop < 4*universe; hop++ {
			if cur == t {
				break
			}
			msg := &pb.RouteRelayReq{Src: ids[i].overlay.Bytes(), SrcMode: full.Bv.Bytes(), Dest: ids[t].overlay.Bytes(),
				ProtocolName: []byte("x"), ProtocolVersion: []byte("1"), StreamName: []byte("y"), Paths: itemsOf(path)}
			name := routetab.StreamOnRelayConnChain
			if r.Bool() {
				name = routetab.StreamOnRelay
			}
			n := s.nodes[cur]
			s.collect(cur)
			s.relays = nil
			discovered := false
			withRand(r.Bytes(6), func() {
				discovered = n.relayRun(name, from, msg, t, n.expectForward(t, s.alpha), func() {
					s.collect(cur) // the discovery's requests
					s.invariants(ctx)
					bound := s.stepBound()
					for k := 0; len(s.flight) > 0 && n.selfPending(t) > 0; k++ {
						if k >= bound {
							ctx.Fail("discovery-does-not-terminate", "%d messages still in flight after %d deliveries during a relay (n=%d ttl=%d)", len(s.flight), k, s.n, s.ttl)
							s.flight = nil
							break
						}
						s.deliverAt(ctx, r.Intn(len(s.flight)), r.Chance(5), r)
					}
				})
			})
			s.collect(cur)
			next := -1
			for _, p := range s.relays {
				if p.from == cur {
					next = p.to
					path = idxPath(p.relay.Paths)
				}
			}
			s.relays = nil
			s.invariants(ctx)
			if next < 0 {
				break
			}
			if next != t && contains(path, next) {
				if discovered {
					ctx.Fail("relay-revisit/after-discovery", "relay %d->%d: node %d ran a route discovery and then forwards to %d which is on the path %v", i, t, cur, next, path)
				} else {
					ctx.Fail("relay-revisit", "relay %d->%d: node %d forwards to %d which is on the path %v", i, t, cur, next, path)
				}
				break
			}
			if next >= s.n || !s.adj[cur][next] {
				ctx.Fail("relay-to-non-neighbor", fmt.Sprintf("relay %d->%d: node %d forwards to %d", i, t, cur, next))
				break
			}
			from, cur = cur, next
			if hop == 4*universe-1 {
				ctx.Fail("relay-does-not-terminate", "relay %d->%d still travelling after %d hops: %v", i, t, hop+1, path)
			}
		}
		return "ok"
	}
	return "bad-op"
}
