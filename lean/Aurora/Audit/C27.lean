import Aurora.Props.C27
#print axioms Aurora.RouteTable.C27_routes_bounded
#print axioms Aurora.RouteTable.C27_routes_bounded_configured
#print axioms Aurora.RouteTable.C27_get_contains_target_before_last
#print axioms Aurora.RouteTable.C27_nexthop_sound
#print axioms Aurora.RouteTable.C27_deleted_never_returned
#print axioms Aurora.RouteTable.C27_expired_never_returned
#print axioms Aurora.RouteTable.C27_gc_keeps_fresh
#print axioms Aurora.RouteTable.C27_nextHopOld_counterexample
