import Aurora.Lemmas.Kv
import Aurora.Model.StateStore
/-! Helper lemmas for C18 (state stores). Core Lean only. -/
namespace Aurora.StateStore
open Aurora.Kv

/-! ### the callback loop -/

/-- every callback decision up to (excluding) position `n` of `l` was "continue" -/
def ContUpTo (cb : Callback) (vis l : List Entry) (n : Nat) : Prop :=
  ∀ j (h : j < l.length), j < n → cb (vis ++ l.take j) l[j] = .cont

/-- result of a halting decision -/
def haltRes : Act → Res
  | .cont => .ok
  | .stop => .ok
  | .err => .cberr
  | .stopErr => .cberr

theorem drive_all (cb : Callback) (vis l : List Entry) (h : ContUpTo cb vis l l.length) :
    drive cb vis l = (vis ++ l, .ok) := by
  induction l generalizing vis with
  | nil => simp [drive]
  | cons e r ih =>
    have h0 := h 0 (by simp) (by simp)
    simp only [List.take_zero, List.append_nil, List.getElem_cons_zero] at h0
    simp only [drive, h0]
    rw [ih]
    · simp
    · intro j hj hj'
      have := h (j + 1) (by simp; omega) (by simp; omega)
      simpa using this

theorem drive_halt (cb : Callback) (vis l : List Entry) (n : Nat) (hn : n < l.length)
    (hc : ContUpTo cb vis l n) (hh : cb (vis ++ l.take n) l[n] ≠ .cont) :
    drive cb vis l = (vis ++ l.take (n + 1), haltRes (cb (vis ++ l.take n) l[n])) := by
  induction l generalizing vis n with
  | nil => simp at hn
  | cons e r ih =>
    cases n with
    | zero =>
      simp only [List.take_zero, List.append_nil, List.getElem_cons_zero] at hh ⊢
      simp only [drive]
      cases hcb : cb vis e <;> simp_all [haltRes]
    | succ n =>
      have h0 := hc 0 (by simp) (by omega)
      simp only [List.take_zero, List.append_nil, List.getElem_cons_zero] at h0
      simp only [drive, h0]
      have hn' : n < r.length := by simpa using hn
      have := ih (vis ++ [e]) n hn'
        (by
          intro j hj hj'
          have := hc (j + 1) (by simp; omega) (by omega)
          simpa using this)
        (by simpa using hh)
      rw [this]
      simp

/-! ### leveldb store: the range view is the prefix filter -/

theorem rangeView_eq_filter (s : Store) (p : Bytes) :
    rangeView s p = s.filter (fun e => hasPrefix e.1 p) := by
  unfold rangeView
  apply List.filter_congr
  intro e _
  cases hlt : blt e.1 p
  · simp only [ble, hlt, Bool.not_false, Bool.true_and]
    cases hinc : bytesIncrement p with
    | none => simp [hasPrefix_of_increment_none hinc hlt]
    | some q =>
      have := hasPrefix_iff_blt_increment hinc hlt
      cases h1 : hasPrefix e.1 p <;> cases h2 : blt e.1 q <;> simp_all
  · have : hasPrefix e.1 p = false := by
      cases h : hasPrefix e.1 p
      · rfl
      · rw [not_blt_of_hasPrefix h] at hlt; cases hlt
    simp [ble, hlt, this]

theorem dropWhile_none {α : Type} (P : α → Bool) (l : List α) (h : ∀ a ∈ l, P a = false) :
    l.dropWhile P = l := by
  cases l with
  | nil => rfl
  | cons a r => simp [List.dropWhile, h a List.mem_cons_self]

theorem level_iterate_eq (s : Store) (p : Bytes) (cb : Callback) :
    Level.iterate s p cb = drive cb [] (s.filter (fun e => hasPrefix e.1 p)) := by
  unfold Level.iterate
  rw [seek_fwdList, rangeView_eq_filter, dropWhile_none]
  intro e he
  exact not_blt_of_hasPrefix (List.mem_filter.mp he).2

/-! ### mock store -/

/-- the Go map has one entry per key -/
def NoDupKeys (m : Mock) : Prop := (m.map (·.1)).Nodup

theorem get_filter_key (P : Bytes → Bool) (s : List Entry) (k : Bytes) :
    Kv.get (s.filter (fun e => P e.1)) k = if P k then Kv.get s k else none := by
  induction s with
  | nil => simp [Kv.get]
  | cons e r ih =>
    obtain ⟨k1, v1⟩ := e
    by_cases hp : P k1 = true
    · simp only [List.filter, hp, Kv.get, ih]
      by_cases hk : k1 = k
      · subst hk; simp [hp]
      · simp [hk]
    · have hp' : P k1 = false := by simpa using hp
      simp only [List.filter, hp', Kv.get, ih]
      by_cases hk : k1 = k
      · subst hk; simp [hp']
      · simp [hk]

theorem mock_get_put (m : Mock) (k v k' : Bytes) :
    (Mock.put m k v).get k' = if k' = k then some v else m.get k' := by
  unfold Mock.put Mock.get
  by_cases h : k' = k
  · subst h; simp [Kv.get]
  · have h' : ¬ k = k' := fun e => h e.symm
    have := get_filter_key (fun x => !decide (x = k)) m k'
    simp only [Kv.get, h', if_false, h]
    rw [show (fun e : Entry => decide (e.1 ≠ k)) = (fun e : Entry => !decide (e.1 = k)) from by
      funext e; simp]
    rw [this]; simp [h]

theorem mock_get_delete (m : Mock) (k k' : Bytes) :
    (Mock.delete m k).get k' = if k' = k then none else m.get k' := by
  unfold Mock.delete Mock.get
  have := get_filter_key (fun x => !decide (x = k)) m k'
  rw [show (fun e : Entry => decide (e.1 ≠ k)) = (fun e : Entry => !decide (e.1 = k)) from by
    funext e; simp]
  rw [this]
  by_cases h : k' = k <;> simp [h]

theorem nodup_filter (m : Mock) (h : NoDupKeys m) (P : Entry → Bool) : NoDupKeys (m.filter P) := by
  unfold NoDupKeys at *
  exact List.Nodup.sublist (List.Sublist.map _ List.filter_sublist) h

theorem nodup_put (m : Mock) (h : NoDupKeys m) (k v : Bytes) : NoDupKeys (Mock.put m k v) := by
  unfold Mock.put
  have h1 := nodup_filter m h (fun e => decide (e.1 ≠ k))
  unfold NoDupKeys at *
  simp only [List.map_cons, List.nodup_cons]
  refine ⟨?_, h1⟩
  intro hk
  obtain ⟨e, he, hek⟩ := List.mem_map.mp hk
  have := (List.mem_filter.mp he).2
  simp at this
  exact this hek

theorem nodup_delete (m : Mock) (h : NoDupKeys m) (k : Bytes) : NoDupKeys (Mock.delete m k) :=
  nodup_filter m h _

theorem get_some_mem {m : List Entry} {k v : Bytes} (h : Kv.get m k = some v) : (k, v) ∈ m := by
  induction m with
  | nil => simp [Kv.get] at h
  | cons e r ih =>
    obtain ⟨k1, v1⟩ := e
    simp only [Kv.get] at h
    by_cases hk : k1 = k
    · subst hk; simp only [if_true, Option.some.injEq] at h; subst h; exact List.mem_cons_self
    · simp only [hk, if_false] at h; exact List.mem_cons_of_mem _ (ih h)

theorem mem_keys_get {m : List Entry} {k : Bytes} (h : k ∈ m.map (·.1)) : ∃ v, Kv.get m k = some v := by
  induction m with
  | nil => simp at h
  | cons e r ih =>
    obtain ⟨k1, v1⟩ := e
    simp only [Kv.get]
    by_cases hk : k1 = k
    · exact ⟨v1, by simp [hk]⟩
    · simp only [hk, if_false]
      apply ih
      simp only [List.map_cons, List.mem_cons] at h
      rcases h with h | h
      · exact absurd h.symm hk
      · exact h

/-- the sorted matching keys of the mock are strictly ascending -/
theorem mock_keys_sorted (m : Mock) (h : NoDupKeys m) (p : Bytes) :
    (((m.map (·.1)).filter (fun k => hasPrefix k p)).mergeSort ble).Pairwise
      (fun a b => blt a b = true) := by
  have hle := List.pairwise_mergeSort (le := ble) ble_trans ble_total
    ((m.map (·.1)).filter (fun k => hasPrefix k p))
  have hnd : (((m.map (·.1)).filter (fun k => hasPrefix k p)).mergeSort ble).Nodup :=
    (List.mergeSort_perm _ _).nodup_iff.mpr (List.Nodup.sublist List.filter_sublist h)
  have := hle.and hnd
  refine this.imp ?_
  rintro a b ⟨h1, h2⟩
  rcases blt_trichotomy a b with h | h | h
  · exact h
  · exact absurd h h2
  · simp [ble, h] at h1

theorem mock_matching_eq (m : Mock) (hm : NoDupKeys m) (L : Store) (hL : Sorted L)
    (hget : ∀ k, Kv.get L k = Kv.get m k) (p : Bytes) :
    m.matching p = L.filter (fun e => hasPrefix e.1 p) := by
  have hK := mock_keys_sorted m hm p
  have hS1 : Sorted (m.matching p) := by
    unfold Mock.matching Sorted
    refine List.Pairwise.filterMap _ ?_ hK
    intro a a' haa b hb b' hb'
    simp only [Option.mem_def, Option.map_eq_some_iff] at hb hb'
    obtain ⟨_, _, rfl⟩ := hb
    obtain ⟨_, _, rfl⟩ := hb'
    exact haa
  have hS2 : Sorted (L.filter (fun e => hasPrefix e.1 p)) := List.Pairwise.sublist List.filter_sublist hL
  apply ext hS1 hS2
  intro k
  apply Option.ext
  intro v
  rw [← mem_iff_get hS1, get_filter_key (fun k => hasPrefix k p) L k, hget]
  unfold Mock.matching
  simp only [List.mem_filterMap, List.mem_mergeSort, List.mem_filter, Option.map_eq_some_iff,
    Prod.mk.injEq]
  constructor
  · rintro ⟨k', ⟨_, hp⟩, v', hv, rfl, rfl⟩
    simp [hp, hv]
  · intro h
    by_cases hp : hasPrefix k p = true
    · simp only [hp, if_true] at h
      refine ⟨k, ⟨?_, hp⟩, v, h, rfl, rfl⟩
      exact List.mem_map.mpr ⟨(k, v), get_some_mem h, rfl⟩
    · simp [hp] at h

end Aurora.StateStore
