import Driver.Localstore
/-! Driver for C14: the shared localstore model driver, additionally printing after every op the
state recovered (`recover (crash s op k)`) for every prefix length k of the op's driver writes. -/
namespace Driver.C14
def handler : Driver.Handler := Driver.Localstore.handler true
end Driver.C14
