import Aurora.Model.Keccak
/-!
Fast Keccak-256 / BMT for the file-pipeline drivers (C01, C02, C07).  GENERATED round function
(unrolled, 25 unboxed lanes) — same permutation as `Aurora.Keccak.keccakF`; the drivers cross-check
`fastBmt` against the list model `Aurora.Cac.hashWith` on small inputs (`selftest`), and every
reference it produces is compared with Go's in the correspondence run.  Driver-only code.
-/
namespace Driver.Fast

structure S where
  a0 : UInt64 := 0
  a1 : UInt64 := 0
  a2 : UInt64 := 0
  a3 : UInt64 := 0
  a4 : UInt64 := 0
  a5 : UInt64 := 0
  a6 : UInt64 := 0
  a7 : UInt64 := 0
  a8 : UInt64 := 0
  a9 : UInt64 := 0
  a10 : UInt64 := 0
  a11 : UInt64 := 0
  a12 : UInt64 := 0
  a13 : UInt64 := 0
  a14 : UInt64 := 0
  a15 : UInt64 := 0
  a16 : UInt64 := 0
  a17 : UInt64 := 0
  a18 : UInt64 := 0
  a19 : UInt64 := 0
  a20 : UInt64 := 0
  a21 : UInt64 := 0
  a22 : UInt64 := 0
  a23 : UInt64 := 0
  a24 : UInt64 := 0

@[inline] def rotl (x : UInt64) (n : UInt64) : UInt64 := (x <<< n) ||| (x >>> (64 - n))

def round (s : S) (rc : UInt64) : S :=
  let c0 := s.a0 ^^^ s.a5 ^^^ s.a10 ^^^ s.a15 ^^^ s.a20
  let c1 := s.a1 ^^^ s.a6 ^^^ s.a11 ^^^ s.a16 ^^^ s.a21
  let c2 := s.a2 ^^^ s.a7 ^^^ s.a12 ^^^ s.a17 ^^^ s.a22
  let c3 := s.a3 ^^^ s.a8 ^^^ s.a13 ^^^ s.a18 ^^^ s.a23
  let c4 := s.a4 ^^^ s.a9 ^^^ s.a14 ^^^ s.a19 ^^^ s.a24
  let d0 := c4 ^^^ rotl c1 1
  let d1 := c0 ^^^ rotl c2 1
  let d2 := c1 ^^^ rotl c3 1
  let d3 := c2 ^^^ rotl c4 1
  let d4 := c3 ^^^ rotl c0 1
  let b0 := s.a0 ^^^ d0
  let b16 := rotl (s.a5 ^^^ d0) 36
  let b7 := rotl (s.a10 ^^^ d0) 3
  let b23 := rotl (s.a15 ^^^ d0) 41
  let b14 := rotl (s.a20 ^^^ d0) 18
  let b10 := rotl (s.a1 ^^^ d1) 1
  let b1 := rotl (s.a6 ^^^ d1) 44
  let b17 := rotl (s.a11 ^^^ d1) 10
  let b8 := rotl (s.a16 ^^^ d1) 45
  let b24 := rotl (s.a21 ^^^ d1) 2
  let b20 := rotl (s.a2 ^^^ d2) 62
  let b11 := rotl (s.a7 ^^^ d2) 6
  let b2 := rotl (s.a12 ^^^ d2) 43
  let b18 := rotl (s.a17 ^^^ d2) 15
  let b9 := rotl (s.a22 ^^^ d2) 61
  let b5 := rotl (s.a3 ^^^ d3) 28
  let b21 := rotl (s.a8 ^^^ d3) 55
  let b12 := rotl (s.a13 ^^^ d3) 25
  let b3 := rotl (s.a18 ^^^ d3) 21
  let b19 := rotl (s.a23 ^^^ d3) 56
  let b15 := rotl (s.a4 ^^^ d4) 27
  let b6 := rotl (s.a9 ^^^ d4) 20
  let b22 := rotl (s.a14 ^^^ d4) 39
  let b13 := rotl (s.a19 ^^^ d4) 8
  let b4 := rotl (s.a24 ^^^ d4) 14
  { a0 := (b0 ^^^ ((~~~ b1) &&& b2)) ^^^ rc,
    a1 := b1 ^^^ ((~~~ b2) &&& b3),
    a2 := b2 ^^^ ((~~~ b3) &&& b4),
    a3 := b3 ^^^ ((~~~ b4) &&& b0),
    a4 := b4 ^^^ ((~~~ b0) &&& b1),
    a5 := b5 ^^^ ((~~~ b6) &&& b7),
    a6 := b6 ^^^ ((~~~ b7) &&& b8),
    a7 := b7 ^^^ ((~~~ b8) &&& b9),
    a8 := b8 ^^^ ((~~~ b9) &&& b5),
    a9 := b9 ^^^ ((~~~ b5) &&& b6),
    a10 := b10 ^^^ ((~~~ b11) &&& b12),
    a11 := b11 ^^^ ((~~~ b12) &&& b13),
    a12 := b12 ^^^ ((~~~ b13) &&& b14),
    a13 := b13 ^^^ ((~~~ b14) &&& b10),
    a14 := b14 ^^^ ((~~~ b10) &&& b11),
    a15 := b15 ^^^ ((~~~ b16) &&& b17),
    a16 := b16 ^^^ ((~~~ b17) &&& b18),
    a17 := b17 ^^^ ((~~~ b18) &&& b19),
    a18 := b18 ^^^ ((~~~ b19) &&& b15),
    a19 := b19 ^^^ ((~~~ b15) &&& b16),
    a20 := b20 ^^^ ((~~~ b21) &&& b22),
    a21 := b21 ^^^ ((~~~ b22) &&& b23),
    a22 := b22 ^^^ ((~~~ b23) &&& b24),
    a23 := b23 ^^^ ((~~~ b24) &&& b20),
    a24 := b24 ^^^ ((~~~ b20) &&& b21) }

def permute (s : S) : S := Id.run do
  let mut s := s
  for r in [0:24] do
    s := round s Aurora.Keccak.roundConstants[r]!
  return s

/-- little-endian 64-bit lane at byte offset `o` of `b`; bytes at index ≥ `n` read as the padded
    message `b[0:n] ‖ 0x01 ‖ 0… ‖ 0x80` of total length `tot` -/
@[inline] def padByte (b : ByteArray) (n tot i : Nat) : UInt64 :=
  if i < n then (b.get! i).toUInt64
  else
    let v : UInt64 := if i = n then 1 else 0
    if i + 1 = tot then v ||| 0x80 else v

def lane (b : ByteArray) (n tot o : Nat) : UInt64 := Id.run do
  let mut w : UInt64 := 0
  for j in [0:8] do
    w := w ||| (padByte b n tot (o + j) <<< (8 * j).toUInt64)
  return w

def absorb (s : S) (b : ByteArray) (n tot o : Nat) : S :=
  let l (i : Nat) := lane b n tot (o + 8 * i)
  permute { s with
    a0 := s.a0 ^^^ l 0, a1 := s.a1 ^^^ l 1, a2 := s.a2 ^^^ l 2, a3 := s.a3 ^^^ l 3, a4 := s.a4 ^^^ l 4,
    a5 := s.a5 ^^^ l 5, a6 := s.a6 ^^^ l 6, a7 := s.a7 ^^^ l 7, a8 := s.a8 ^^^ l 8, a9 := s.a9 ^^^ l 9,
    a10 := s.a10 ^^^ l 10, a11 := s.a11 ^^^ l 11, a12 := s.a12 ^^^ l 12, a13 := s.a13 ^^^ l 13,
    a14 := s.a14 ^^^ l 14, a15 := s.a15 ^^^ l 15, a16 := s.a16 ^^^ l 16 }

def pushLane (out : ByteArray) (w : UInt64) : ByteArray := Id.run do
  let mut out := out
  for j in [0:8] do
    out := out.push (w >>> (8 * j).toUInt64).toUInt8
  return out

/-- Keccak-256 (legacy padding) of `b[0:n]` -/
def keccakN (b : ByteArray) (n : Nat) : ByteArray := Id.run do
  let tot := (n / 136 + 1) * 136
  let mut s : S := {}
  for k in [0:tot / 136] do
    s := absorb s b n tot (k * 136)
  let out := ByteArray.emptyWithCapacity 32
  return pushLane (pushLane (pushLane (pushLane out s.a0) s.a1) s.a2) s.a3

def keccak (b : ByteArray) : ByteArray := keccakN b b.size

end Driver.Fast
