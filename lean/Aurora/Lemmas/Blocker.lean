import Aurora.Model.Blocker
/-! Helper definitions and lemmas for C26 (blocker).

`period T a ops` is the *history-side* bookkeeping the property speaks about, defined without
looking at the blocker's state: `some n` = "address `a` is inside a flag period that has so far
lasted `n` available ticks", `none` = "no flag period is open".  A period opens at a `flag a`
issued while the network is available and no period is open; it closes at `unflag a`, at a
`prune` whose seen-list lacks `a`, and at a sweep taken when it is older than `T` available ticks
(that sweep is the one blocklisting of the period). -/
namespace Aurora.Blocker

def pstep (T : Nat) (a : Addr) (p : Option Nat) : Op → Option Nat
  | .tick avail => if avail then p.map (· + 1) else p
  | .flag b avail => if b = a ∧ avail = true ∧ p = none then some 0 else p
  | .unflag b => if b = a then none else p
  | .prune seen => if a ∈ seen then p else none
  | .sweep =>
    match p with
    | some n => if T < n then none else some n
    | none => none

def periodFrom (T : Nat) (a : Addr) (p : Option Nat) (ops : List Op) : Option Nat :=
  ops.foldl (pstep T a) p

def period (T : Nat) (a : Addr) (ops : List Op) : Option Nat := periodFrom T a none ops

/-- number of ticks with the network available -/
def availTicks : List Op → Nat
  | [] => 0
  | .tick true :: ops => availTicks ops + 1
  | _ :: ops => availTicks ops

/-- `op` does not end a flag period of `a` by unflagging or pruning -/
def keeps (a : Addr) : Op → Prop
  | .unflag b => b ≠ a
  | .prune seen => a ∈ seen
  | _ => True

/-- relation between the blocker state and the history bookkeeping for one address -/
def Rel (T : Nat) (a : Addr) (s : State) (p : Option Nat) : Prop :=
  (∀ ba, (a, ba) ∈ s.flags → ∃ n, p = some n ∧ ba + n = s.seq + T ∧ T ≤ ba) ∧
  (∀ n, p = some n → ∃ ba, (a, ba) ∈ s.flags)

theorem rel_init (T : Nat) (a : Addr) : Rel T a init none := by
  constructor
  · intro ba h; simp [init] at h
  · intro n h; simp at h

theorem rel_step {T : Nat} {a : Addr} {s : State} {p : Option Nat} (hT : 0 < T) (op : Op)
    (h : Rel T a s p) : Rel T a (step T s op) (pstep T a p op) := by
  obtain ⟨h1, h2⟩ := h
  cases op with
  | tick avail =>
    cases avail with
    | false => simpa [step, pstep] using ⟨h1, h2⟩
    | true =>
      simp only [step, pstep, if_true]
      constructor
      · intro ba hm
        obtain ⟨n, hp, he, hb⟩ := h1 ba hm
        refine ⟨n + 1, by simp [hp], ?_, hb⟩
        show ba + (n + 1) = s.seq + 1 + T
        omega
      · intro n hp
        cases p with
        | none => simp at hp
        | some m => exact h2 m rfl
  | flag b avail =>
    by_cases hc : avail = true ∧ b ∉ s.flags.map Prod.fst
    · -- the flag is recorded
      obtain ⟨hav, hnk⟩ := hc
      subst hav
      have hs : step T s (.flag b true) = { s with flags := (b, s.seq + T) :: s.flags } := by
        simp only [step]; rw [if_pos ⟨trivial, hnk⟩]
      rw [hs]
      by_cases hb : b = a
      · subst hb
        have hp : p = none := by
          cases p with
          | none => rfl
          | some m =>
            obtain ⟨ba, hm⟩ := h2 m rfl
            exact absurd (List.mem_map.mpr ⟨(b, ba), hm, rfl⟩) hnk
        subst hp
        have hps : pstep T b none (.flag b true) = some 0 := by simp [pstep]
        rw [hps]
        constructor
        · intro ba hm
          rcases List.mem_cons.mp hm with hm | hm
          · simp only [Prod.mk.injEq, true_and] at hm
            subst hm
            exact ⟨0, rfl, by show s.seq + T + 0 = s.seq + T; omega, by omega⟩
          · exact absurd (List.mem_map.mpr ⟨(b, ba), hm, rfl⟩) hnk
        · intro n _; exact ⟨s.seq + T, List.mem_cons_self ..⟩
      · have hps : pstep T a p (.flag b true) = p := by simp [pstep, hb]
        rw [hps]
        constructor
        · intro ba hm
          rcases List.mem_cons.mp hm with hm | hm
          · simp only [Prod.mk.injEq] at hm
            exact absurd hm.1.symm hb
          · exact h1 ba hm
        · intro n hp
          obtain ⟨ba, hm⟩ := h2 n hp
          exact ⟨ba, List.mem_cons_of_mem _ hm⟩
    · -- ignored: network not available, or already flagged
      have hs : step T s (.flag b avail) = s := by simp only [step]; rw [if_neg hc]
      rw [hs]
      have : pstep T a p (.flag b avail) = p := by
        simp only [pstep]
        split
        · rename_i hx
          obtain ⟨hb, hav, hp⟩ := hx
          subst hb; subst hp
          exfalso; apply hc; refine ⟨hav, ?_⟩
          intro hm
          obtain ⟨q, hq, hqe⟩ := List.mem_map.mp hm
          obtain ⟨n, hn, _⟩ := h1 q.2 (by rw [← hqe]; exact hq)
          simp at hn
        · rfl
      rw [this]; exact ⟨h1, h2⟩
  | unflag b =>
    by_cases hb : b = a
    · subst hb
      simp only [step, pstep, if_true]
      constructor
      · intro ba hm; simp [List.mem_filter] at hm
      · intro n hp; simp at hp
    · simp only [step, pstep, hb, if_false]
      constructor
      · intro ba hm
        exact h1 ba (List.mem_filter.mp hm).1
      · intro n hp
        obtain ⟨ba, hm⟩ := h2 n hp
        exact ⟨ba, List.mem_filter.mpr ⟨hm, by simpa using fun h' => hb h'.symm⟩⟩
  | prune seen =>
    by_cases hs : a ∈ seen
    · simp only [step, pstep, hs, if_true]
      constructor
      · intro ba hm; exact h1 ba (List.mem_filter.mp hm).1
      · intro n hp
        obtain ⟨ba, hm⟩ := h2 n hp
        exact ⟨ba, List.mem_filter.mpr ⟨hm, by simpa using hs⟩⟩
    · simp only [step, pstep, hs, if_false]
      constructor
      · intro ba hm
        have := (List.mem_filter.mp hm).2
        simp at this; exact absurd this hs
      · intro n hp; simp at hp
  | sweep =>
    simp only [step]
    constructor
    · intro ba hm
      obtain ⟨hm, hd⟩ := List.mem_filter.mp hm
      obtain ⟨n, hp, he, hb⟩ := h1 ba hm
      subst hp
      simp only [due, Bool.not_eq_true', Bool.and_eq_false_iff, decide_eq_false_iff_not] at hd
      have hn : ¬ T < n := by omega
      exact ⟨n, by simp [pstep, hn], he, hb⟩
    · intro n hp
      cases p with
      | none => simp [pstep] at hp
      | some m =>
        simp only [pstep] at hp
        by_cases hm : T < m
        · simp [hm] at hp
        · simp only [hm, if_false, Option.some.injEq] at hp
          obtain ⟨ba, hmem⟩ := h2 m rfl
          obtain ⟨n', hp', he, hb⟩ := h1 ba hmem
          simp only [Option.some.injEq] at hp'
          refine ⟨ba, List.mem_filter.mpr ⟨hmem, ?_⟩⟩
          simp only [due, Bool.not_eq_true', Bool.and_eq_false_iff, decide_eq_false_iff_not]
          omega

theorem rel_run {T : Nat} {a : Addr} (hT : 0 < T) (ops : List Op) :
    ∀ (s : State) (p : Option Nat), Rel T a s p → Rel T a (run T s ops) (periodFrom T a p ops) := by
  induction ops with
  | nil => intro s p h; exact h
  | cons op ops ih =>
    intro s p h
    exact ih _ _ (rel_step hT op h)

/-- in related states the sweep blocklists `a` iff its flag period is older than `T` -/
theorem sweep_iff {T : Nat} {a : Addr} {s : State} {p : Option Nat} (hT : 0 < T) (h : Rel T a s p) :
    a ∈ sweepOut s ↔ ∃ n, p = some n ∧ T < n := by
  obtain ⟨h1, h2⟩ := h
  simp only [sweepOut, List.mem_map, List.mem_filter]
  constructor
  · rintro ⟨⟨b, ba⟩, ⟨hm, hd⟩, hb⟩
    simp only at hb; subst hb
    obtain ⟨n, hp, he, _⟩ := h1 ba hm
    simp only [due, Bool.and_eq_true, decide_eq_true_eq] at hd
    exact ⟨n, hp, by omega⟩
  · rintro ⟨n, hp, hn⟩
    obtain ⟨ba, hm⟩ := h2 n hp
    obtain ⟨n', hp', he, hb⟩ := h1 ba hm
    rw [hp] at hp'; simp only [Option.some.injEq] at hp'; subst hp'
    refine ⟨(a, ba), ⟨hm, ?_⟩, rfl⟩
    simp only [due, Bool.and_eq_true, decide_eq_true_eq]
    omega

theorem periodFrom_append (T : Nat) (a : Addr) (p : Option Nat) (xs ys : List Op) :
    periodFrom T a p (xs ++ ys) = periodFrom T a (periodFrom T a p xs) ys := by
  simp [periodFrom, List.foldl_append]

theorem periodFrom_cons (T : Nat) (a : Addr) (p : Option Nat) (op : Op) (ops : List Op) :
    periodFrom T a p (op :: ops) = periodFrom T a (pstep T a p op) ops := rfl

theorem run_append (T : Nat) (s : State) (xs ys : List Op) :
    run T s (xs ++ ys) = run T (run T s xs) ys := by
  simp [run, List.foldl_append]

/-- without a `flag a` issued while the network is available no period opens -/
theorem periodFrom_none {T : Nat} {a : Addr} (ops : List Op)
    (hnf : ∀ op ∈ ops, op ≠ Op.flag a true) : periodFrom T a none ops = none := by
  induction ops with
  | nil => rfl
  | cons op ops ih =>
    rw [periodFrom_cons]
    have hop := hnf op (List.mem_cons_self ..)
    have : pstep T a none op = none := by
      cases op with
      | tick avail => cases avail <;> simp [pstep]
      | flag b avail =>
        simp only [pstep]
        split
        · rename_i hx
          obtain ⟨hb, hav, _⟩ := hx
          subst hb; subst hav
          exact absurd rfl hop
        · rfl
      | unflag b => simp [pstep]
      | prune seen => simp [pstep]
      | sweep => simp [pstep]
    rw [this]
    exact ih (fun o ho => hnf o (List.mem_cons_of_mem _ ho))

/-- what an open period means in terms of events (generalised over the start value) -/
theorem periodFrom_some {T : Nat} {a : Addr} (ops : List Op) :
    ∀ (p0 : Option Nat) (n : Nat), periodFrom T a p0 ops = some n →
      (∃ m, p0 = some m ∧ n = m + availTicks ops ∧ ∀ op ∈ ops, keeps a op) ∨
      (∃ h1 h2, ops = h1 ++ Op.flag a true :: h2 ∧ periodFrom T a p0 h1 = none ∧
        n = availTicks h2 ∧ ∀ op ∈ h2, keeps a op) := by
  induction ops with
  | nil =>
    intro p0 n h
    exact Or.inl ⟨n, h, by simp [availTicks], by simp⟩
  | cons op ops ih =>
    intro p0 n h
    rw [periodFrom_cons] at h
    rcases ih _ _ h with ⟨m, hm, hn, hk⟩ | ⟨h1, h2, ho, hp, hn, hk⟩
    · -- the period was already open after `op`
      cases op with
      | tick avail =>
        cases avail with
        | false =>
          simp only [pstep] at hm
          exact Or.inl ⟨m, by simpa using hm, by simp [availTicks, hn], by
            intro o ho; rcases List.mem_cons.mp ho with h' | h'
            · subst h'; trivial
            · exact hk o h'⟩
        | true =>
          simp only [pstep, if_true] at hm
          cases p0 with
          | none => simp at hm
          | some m0 =>
            simp only [Option.map_some, Option.some.injEq] at hm
            exact Or.inl ⟨m0, rfl, by simp [availTicks]; omega, by
              intro o ho; rcases List.mem_cons.mp ho with h' | h'
              · subst h'; trivial
              · exact hk o h'⟩
      | flag b avail =>
        simp only [pstep] at hm
        split at hm
        · rename_i hx
          obtain ⟨hb, hav, hp0⟩ := hx
          subst hb; subst hav; subst hp0
          simp only [Option.some.injEq] at hm; subst hm
          exact Or.inr ⟨[], ops, rfl, rfl, by omega, hk⟩
        · exact Or.inl ⟨m, hm, by simp [availTicks, hn], by
            intro o ho; rcases List.mem_cons.mp ho with h' | h'
            · subst h'; trivial
            · exact hk o h'⟩
      | unflag b =>
        simp only [pstep] at hm
        by_cases hb : b = a
        · simp [hb] at hm
        · simp only [hb, if_false] at hm
          exact Or.inl ⟨m, hm, by simp [availTicks, hn], by
            intro o ho; rcases List.mem_cons.mp ho with h' | h'
            · subst h'; exact hb
            · exact hk o h'⟩
      | prune seen =>
        simp only [pstep] at hm
        by_cases hs : a ∈ seen
        · simp only [hs, if_true] at hm
          exact Or.inl ⟨m, hm, by simp [availTicks, hn], by
            intro o ho; rcases List.mem_cons.mp ho with h' | h'
            · subst h'; exact hs
            · exact hk o h'⟩
        · simp [hs] at hm
      | sweep =>
        simp only [pstep] at hm
        cases p0 with
        | none => simp at hm
        | some m0 =>
          by_cases hx : T < m0
          · simp [hx] at hm
          · simp only [hx, if_false, Option.some.injEq] at hm
            exact Or.inl ⟨m0, rfl, by simp [availTicks]; omega, by
              intro o ho; rcases List.mem_cons.mp ho with h' | h'
              · subst h'; trivial
              · exact hk o h'⟩
    · -- the period opened later
      exact Or.inr ⟨op :: h1, h2, by simp [ho], by rw [periodFrom_cons]; exact hp, hn, hk⟩

/-! ### flagged addresses stay distinct (no address is blocklisted twice by one sweep) -/

theorem keys_step_nodup (T : Nat) (s : State) (op : Op) (h : (s.flags.map Prod.fst).Nodup) :
    ((step T s op).flags.map Prod.fst).Nodup := by
  cases op with
  | tick avail => cases avail <;> simpa [step] using h
  | flag b avail =>
    simp only [step]
    split
    · rename_i hc
      simp only [List.map_cons, List.nodup_cons]
      exact ⟨hc.2, h⟩
    · exact h
  | unflag b => exact (List.filter_sublist.map Prod.fst).nodup h
  | prune seen => exact (List.filter_sublist.map Prod.fst).nodup h
  | sweep => exact (List.filter_sublist.map Prod.fst).nodup h

theorem keys_run_nodup (T : Nat) (ops : List Op) :
    ∀ s : State, (s.flags.map Prod.fst).Nodup → ((run T s ops).flags.map Prod.fst).Nodup := by
  induction ops with
  | nil => intro s h; exact h
  | cons op ops ih => intro s h; exact ih _ (keys_step_nodup T s op h)

end Aurora.Blocker
