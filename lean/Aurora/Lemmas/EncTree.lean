import Aurora.Model.EncUpload
import Aurora.Lemmas.Joiner
/-!
Decorated (encrypted) file trees: the shape lemmas of `Lemmas/Tree.lean` and the reader theorems of
`Lemmas/Joiner.lean` (`erefLoop_spec`, `ereadAtOffset_spec`, `enew_spec`, `ereadAt_spec`) on `ET` —
the same proofs with the reference of a node depending on its `(key, padding)` decoration.  The
arithmetic of `subtrieSection` and the buffer lemmas are shared with the plain development.
-/
namespace Aurora.EncUpload
open Aurora.Bmt (Bytes)
open Aurora.Cac (le64)
open Aurora.Tree (fromLe64 le64_length pow_mono)
open Aurora.Joiner

theorem flatL_append (a b : List ET) : eflatL (a ++ b) = eflatL a ++ eflatL b := by
  induction a with
  | nil => simp [eflatL]
  | cons t ts ih => simp [eflatL, ih]

theorem flatL_length (ks : List ET) (h : ∀ k ∈ ks, k.flat.length = k.size) :
    (eflatL ks).length = (ks.map ET.size).sum := by
  induction ks with
  | nil => simp [eflatL]
  | cons t ts ih =>
    rw [eflatL]
    simp only [List.length_append, List.map_cons, List.sum_cons]
    rw [h t (by simp), ih (fun k hk => h k (by simp [hk]))]

theorem size_le_sum (ks : List ET) (k : ET) (hk : k ∈ ks) : k.size ≤ (ks.map ET.size).sum := by
  induction ks with
  | nil => simp at hk
  | cons t ts ih =>
    simp only [List.map_cons, List.sum_cons]
    rcases List.mem_cons.mp hk with h | h
    · subst h; omega
    · have := ih h; omega

theorem sum_const (ks : List ET) (q : Nat) (h : ∀ k ∈ ks, k.size = q) : (ks.map ET.size).sum = ks.length * q := by
  induction ks with
  | nil => simp
  | cons t ts ih =>
    simp only [List.map_cons, List.sum_cons, List.length_cons]
    rw [h t (by simp), ih (fun k hk => h k (by simp [hk])), Nat.add_mul]; omega

/-- the shape data of a node at height `h+1`, or a tree of height ≤ `h` -/
theorem EWF_succ_cases (C B h : Nat) (t : ET) (w : EWF C B (h + 1) t) :
    EWF C B h t ∨
      ∃ k p span init last, t = .node k p span (init ++ [last]) ∧ 1 ≤ init.length ∧ init.length + 1 ≤ B ∧
        (∀ x ∈ init, EWF C B h x ∧ x.size = C * B ^ h) ∧
        EWF C B h last ∧ 0 < last.size ∧ last.size ≤ C * B ^ h ∧
        span = ((init ++ [last]).map ET.size).sum := by
  rw [EWF] at w; exact w

theorem node_span (init : List ET) (last : ET) (q : Nat) (h : ∀ k ∈ init, k.size = q) :
    ((init ++ [last]).map ET.size).sum = init.length * q + last.size := by
  simp only [List.map_append, List.sum_append, List.map_cons, List.map_nil, List.sum_cons, List.sum_nil]
  rw [sum_const init q h]; omega

theorem EWF_flat_size (C B : Nat) (hB1 : 1 ≤ B) : ∀ (h : Nat) (t : ET), EWF C B h t → t.flat.length = t.size ∧ t.size ≤ C * B ^ h := by
  intro h
  induction h with
  | zero =>
    intro t w
    rw [EWF] at w
    obtain ⟨k, p, d, rfl, hd⟩ := w
    simp [ET.flat, ET.size, hd]
  | succ h ih =>
    intro t w
    rcases EWF_succ_cases C B h t w with w' | ⟨k0, p0, span, init, last, rfl, h1, h2, hinit, hlast, hpos, hle, hspan⟩
    · have := ih t w'
      exact ⟨this.1, Nat.le_trans this.2 (pow_mono C B h hB1)⟩
    · constructor
      · rw [ET.flat, ET.size, hspan]
        apply flatL_length
        intro k hk
        rcases List.mem_append.mp hk with hk | hk
        · exact (ih k (hinit k hk).1).1
        · simp at hk; subst hk; exact (ih k hlast).1
      · rw [ET.size, hspan, node_span init last (C * B ^ h) (fun k hk => (hinit k hk).2)]
        rw [Nat.pow_succ]
        have : init.length * (C * B ^ h) + C * B ^ h ≤ B * (C * B ^ h) := by
          have : (init.length + 1) * (C * B ^ h) ≤ B * (C * B ^ h) := Nat.mul_le_mul_right _ h2
          rw [Nat.add_mul] at this; omega
        have e : C * (B ^ h * B) = B * (C * B ^ h) := by
          rw [Nat.mul_comm (B ^ h) B, ← Nat.mul_assoc, Nat.mul_comm C B, Nat.mul_assoc]
        rw [e]; omega

section Chunks
variable (eref : Bytes → Bytes → Bytes → Bytes → Bytes)

theorem refsL_append (a b : List ET) : erefsL eref (a ++ b) = erefsL eref a ++ erefsL eref b := by
  induction a with
  | nil => simp [erefsL]
  | cons t ts ih => simp [erefsL, ih]

theorem refsL_length (R : Nat) (hR : ∀ k q s p, (eref k q s p).length = R) (ks : List ET) :
    (erefsL eref ks).length = R * ks.length := by
  induction ks with
  | nil => simp [erefsL]
  | cons t ts ih =>
    rw [erefsL]
    have : (t.ref eref).length = R := by cases t <;> simp [ET.ref, hR]
    simp only [List.length_append, this, ih, List.length_cons]; rw [Nat.mul_add]; omega

theorem ET.ref_length (R : Nat) (hR : ∀ k q s p, (eref k q s p).length = R) (t : ET) : (t.ref eref).length = R := by
  cases t <;> simp [ET.ref, hR]

theorem chunks_head (t : ET) : (t.ref eref, t.data eref) ∈ t.chunks eref := by
  cases t with
  | leaf k p d => simp [ET.chunks, ET.ref, ET.data, ET.size, ET.payload]
  | node k p s ks => simp [ET.chunks, ET.ref, ET.data, ET.size, ET.payload]

theorem chunksL_mem (ks : List ET) (k : ET) (hk : k ∈ ks) (x : Bytes × Bytes) (hx : x ∈ k.chunks eref) :
    x ∈ echunksL eref ks := by
  induction ks with
  | nil => simp at hk
  | cons t ts ih =>
    rw [echunksL]
    rcases List.mem_cons.mp hk with h | h
    · subst h; exact List.mem_append_left _ hx
    · exact List.mem_append_right _ (ih h)

theorem node_chunks_mem (k0 p0 : Bytes) (s : Nat) (ks : List ET) (k : ET) (hk : k ∈ ks) (x : Bytes × Bytes)
    (hx : x ∈ k.chunks eref) : x ∈ (ET.node k0 p0 s ks).chunks eref := by
  rw [ET.chunks]; exact List.mem_cons_of_mem _ (chunksL_mem eref ks k hk x hx)

end Chunks

section Reader
variable (eref : Bytes → Bytes → Bytes → Bytes → Bytes) (get : Bytes → Except Err Bytes) (C B R : Nat)

/-- the store returns every chunk of the tree under its reference -/
def EHolds (t : ET) : Prop := ∀ x ∈ t.chunks eref, get x.1 = .ok x.2

/-- what a correct recursive call does on subtree `k` -/
def ERecOk (rec : Bytes → Nat → Nat → Nat → Nat → Nat → RS → Except Err RS) (k : ET) : Prop :=
  ∀ (cur off bo n : Nat) (st : RS), cur ≤ off → off + n ≤ cur + k.size → bo + n ≤ st.mem.length →
    rec (k.payload eref) cur k.size off bo n st =
      .ok { mem := splice st.mem bo ((k.flat.drop (off - cur)).take n), read := st.read + n }

theorem erefLoop_spec (hR : ∀ k q s p, (eref k q s p).length = R) (hRpos : 0 < R)
    (span : Nat) (kids : List ET) (hspan : span < 2 ^ 64)
    (hsize : ∀ k ∈ kids, k.size ≤ span) (hflat : ∀ k ∈ kids, k.flat.length = k.size)
    (hget : ∀ k ∈ kids, get (k.ref eref) = .ok (k.data eref))
    (rec : Bytes → Nat → Nat → Nat → Nat → Nat → RS → Except Err RS)
    (hrec : ∀ k ∈ kids, ERecOk eref rec k)
    (hsec : ∀ pre k post, kids = pre ++ k :: post →
      subtrieSection C (erefsL eref kids).length (pre.length * R) R span = k.size) :
    ∀ (ks pre : List ET), kids = pre ++ ks →
    ∀ (cur off bo n : Nat) (st : RS), cur ≤ off → off + n ≤ cur + (ks.map ET.size).sum →
      bo + n ≤ st.mem.length →
      refLoop get C R (erefsL eref kids) span rec ks.length (pre.length * R) cur off bo n st =
        .ok { mem := splice st.mem bo (((eflatL ks).drop (off - cur)).take n), read := st.read + n } := by
  intro ks
  induction ks with
  | nil =>
    intro pre _ cur off bo n st h1 h2 _
    have : n = 0 := by simp at h2; omega
    subst this
    simp [refLoop, splice_nil]
  | cons k ks' ih =>
    intro pre hk cur off bo n st h1 h2 h3
    have hkmem : k ∈ kids := by rw [hk]; simp
    simp only [List.length_cons, refLoop]
    by_cases hn : n = 0
    · subst hn; simp [splice_nil]
    · simp only [hn, ↓reduceIte]
      rw [hsec pre k ks' hk]
      have hkflat := hflat k hkmem
      have hpre' : kids = (pre ++ [k]) ++ ks' := by rw [hk]; simp
      have hcursor : pre.length * R + R = (pre ++ [k]).length * R := by
        simp only [List.length_append, List.length_cons, List.length_nil]; rw [Nat.add_mul]; omega
      by_cases hskip : cur + k.size < off
      · simp only [hskip, ↓reduceIte]
        rw [hcursor]
        have := ih (pre ++ [k]) hpre' (cur + k.size) off bo n st (by omega)
          (by simp only [List.map_cons, List.sum_cons] at h2; omega) h3
        rw [this]
        congr 3
        rw [eflatL]
        have e : off - cur = k.flat.length + (off - (cur + k.size)) := by omega
        rw [e, drop_add_append]
      · simp only [hskip, ↓reduceIte]
        -- the reference of child k sits at the cursor
        have hdata : erefsL eref kids = erefsL eref pre ++ (k.ref eref ++ erefsL eref ks') := by
          rw [hk, refsL_append, erefsL]
        have hprelen : (erefsL eref pre).length = pre.length * R := by
          rw [refsL_length eref R hR pre, Nat.mul_comm]
        have hreflen : (k.ref eref).length = R := ET.ref_length eref R hR k
        have hnotshort : ¬ (erefsL eref kids).length < pre.length * R + R := by
          rw [hdata]; simp only [List.length_append, hprelen, hreflen]; omega
        simp only [hnotshort, ↓reduceIte]
        have haddr : ((erefsL eref kids).drop (pre.length * R)).take R = k.ref eref := by
          rw [hdata, ← hprelen, List.drop_left, List.take_left' hreflen]
        rw [haddr, hget k hkmem]
        have hks : k.size < 2 ^ 64 := Nat.lt_of_le_of_lt (hsize k hkmem) hspan
        have hlen8 : ¬ (k.data eref).length < 8 := by
          simp only [ET.data, List.length_append, le64_length]; omega
        have hspan' : fromLe64 (k.data eref) = k.size := fromLe64_data k.size _ hks
        have hpayload : (k.data eref).drop 8 = k.payload eref := by
          simp only [ET.data]; rw [List.drop_left' (le64_length _)]
        simp only [hlen8, ↓reduceIte, hspan', Nat.lt_irrefl, hpayload]
        -- the recursive call
        have hcrs : min (min (k.size - (off - cur)) n) k.size = min (k.size - (off - cur)) n := by omega
        rw [hcrs]
        have hr := hrec k hkmem cur off bo (min (k.size - (off - cur)) n) st h1 (by omega) (by omega)
        rw [hr]
        simp only []
        rw [hcursor]
        have hS1 : ((k.flat.drop (off - cur)).take (min (k.size - (off - cur)) n)).length
            = min (k.size - (off - cur)) n := by
          simp only [List.length_take, List.length_drop, hkflat]; omega
        have hmem1 : (splice st.mem bo ((k.flat.drop (off - cur)).take (min (k.size - (off - cur)) n))).length
            = st.mem.length := splice_length _ _ _ (by rw [hS1]; omega)
        have := ih (pre ++ [k]) hpre' (cur + k.size) (cur + k.size) (bo + min (k.size - (off - cur)) n)
          (n - min (k.size - (off - cur)) n)
          { mem := splice st.mem bo ((k.flat.drop (off - cur)).take (min (k.size - (off - cur)) n)),
            read := st.read + min (k.size - (off - cur)) n }
          (Nat.le_refl _) (by simp only [List.map_cons, List.sum_cons] at h2; omega)
          (by simp only [hmem1]; omega)
        rw [this]
        simp only [Nat.sub_self, List.drop_zero]
        have hread : st.read + min (k.size - (off - cur)) n + (n - min (k.size - (off - cur)) n) = st.read + n := by
          omega
        rw [hread]
        have e := splice_splice st.mem bo ((k.flat.drop (off - cur)).take (min (k.size - (off - cur)) n))
          ((eflatL ks').take (n - min (k.size - (off - cur)) n))
          (by rw [hS1]; simp only [List.length_take]; omega)
        rw [hS1] at e
        rw [e, eflatL, take_drop_append _ _ _ _ (by omega), hkflat]

theorem ekids_index (init : List ET) (last : ET) (pre : List ET) (k : ET) (post : List ET)
    (h : init ++ [last] = pre ++ k :: post) :
    (pre.length = init.length ∧ k = last) ∨ (pre.length < init.length ∧ k ∈ init) := by
  have hk : (pre ++ k :: post)[pre.length]? = some k := by simp
  rw [← h] at hk
  have hlen := congrArg List.length h
  simp only [List.length_append, List.length_cons, List.length_nil] at hlen
  by_cases hj : pre.length < init.length
  · right
    rw [List.getElem?_append_left hj] at hk
    exact ⟨hj, List.mem_of_getElem? hk⟩
  · left
    have hje : pre.length = init.length := by omega
    rw [hje] at hk
    simp at hk
    exact ⟨hje, hk.symm⟩

/-- **The reader returns the requested slice of the content** on every well-formed tree whose
    chunks the store holds: `readAtOffset` started on subtree `t` (covering `[cur, cur+size)`)
    for `n` bytes at `off` writes `flat t [off-cur, off-cur+n)` at `bufferOffset` and nothing else,
    and adds `n` to `bytesRead`. -/
theorem ereadAtOffset_spec (hR : ∀ k q s p, (eref k q s p).length = R) (hRpos : 0 < R) (hBR : C / R = B)
    (hB : 2 ≤ B) (hC : 1 ≤ C) :
    ∀ (h : Nat) (t : ET), EWF C B h t → t.size < 2 ^ 64 → EHolds eref get t →
    ∀ fuel, h + 1 ≤ fuel → ERecOk eref (readAtOffset get C R fuel) t := by
  intro h
  induction h with
  | zero =>
    intro t w _ _ fuel hf cur off bo n st h1 h2 h3
    rw [EWF] at w
    obtain ⟨k, p, d, rfl, _⟩ := w
    obtain ⟨f, rfl⟩ : ∃ f, fuel = f + 1 := ⟨fuel - 1, by omega⟩
    simp only [ET.payload, ET.size, ET.flat] at h2 ⊢
    simp only [readAtOffset, Nat.le_refl, ↓reduceIte]
    have e1 : ¬ off < cur := by omega
    have e2 : ¬ d.length < off - cur := by omega
    have e3 : ¬ n > d.length - (off - cur) := by omega
    simp only [e1, e2, e3, ↓reduceIte]
    have hbs : (d.take (off - cur + n)).drop (off - cur) = (d.drop (off - cur)).take n := by
      rw [List.take_drop]
    rw [hbs]
    have hlen : ((d.drop (off - cur)).take n).length = n := by
      simp only [List.length_take, List.length_drop]; omega
    have e4 : ¬ st.mem.length < bo + n := by omega
    simp only [hlen, e4, ↓reduceIte, splice]
  | succ h ih =>
    intro t w hsz hholds fuel hf
    rcases EWF_succ_cases C B h t w with w' | ⟨k0, p0, span, init, last, rfl, h1, h2, hinit, hlast, hpos, hle, hspan⟩
    · exact ih t w' hsz hholds fuel (by omega)
    · intro cur off bo n st c1 c2 c3
      obtain ⟨f, rfl⟩ : ∃ f, fuel = f + 1 := ⟨fuel - 1, by omega⟩
      have hB1 : 1 ≤ B := by omega
      have hQ := node_span init last (C * B ^ h) (fun k hk => (hinit k hk).2)
      simp only [ET.size] at hsz c2 ⊢
      simp only [ET.payload, ET.flat]
      have hdlen : (erefsL eref (init ++ [last])).length = R * (init.length + 1) := by
        rw [refsL_length eref R hR]; simp
      -- not a leaf: the span exceeds the payload length
      have hRB : B * R ≤ C := by rw [← hBR]; exact Nat.div_mul_le_self C R
      have hpow : C ≤ C * B ^ h := Nat.le_mul_of_pos_right _ (Nat.pow_pos (by omega))
      have hQa : C * B ^ h ≤ init.length * (C * B ^ h) := Nat.le_mul_of_pos_left _ (by omega)
      have hRa : R * (init.length + 1) ≤ B * R := by
        rw [Nat.mul_comm B R]; exact Nat.mul_le_mul_left R h2
      have hnotleaf : ¬ span ≤ (erefsL eref (init ++ [last])).length := by
        rw [hdlen, hspan, hQ]; omega
      simp only [readAtOffset, hnotleaf, ↓reduceIte]
      have hiter : ((erefsL eref (init ++ [last])).length + R - 1) / R = (init ++ [last]).length := by
        rw [hdlen]
        simp only [List.length_append, List.length_cons, List.length_nil, Nat.zero_add]
        apply Nat.div_eq_of_lt_le
        · rw [Nat.mul_comm]; omega
        · rw [Nat.add_mul, Nat.mul_comm R]; omega
      rw [hiter]
      have hkid : ∀ k ∈ init ++ [last], EWF C B h k := by
        intro k hk
        rcases List.mem_append.mp hk with hk | hk
        · exact (hinit k hk).1
        · simp at hk; subst hk; exact hlast
      have hsizes : ∀ k ∈ init ++ [last], k.size ≤ span := by
        intro k hk; rw [hspan]; exact size_le_sum _ k hk
      have := erefLoop_spec eref get C R hR hRpos span (init ++ [last]) hsz hsizes
        (fun k hk => (EWF_flat_size C B hB1 h k (hkid k hk)).1)
        (fun k hk => hholds _ (node_chunks_mem eref k0 p0 span _ k hk _ (chunks_head eref k)))
        (readAtOffset get C R f)
        (fun k hk => ih k (hkid k hk) (Nat.lt_of_le_of_lt (hsizes k hk) hsz)
          (fun x hx => hholds x (node_chunks_mem eref k0 p0 span _ k hk x hx)) f (by omega))
        (by
          intro pre k post hk
          rw [hdlen, hspan, hQ]
          have := subtrieSection_spec C B R h init.length last.size pre.length hC hRpos hBR hB h1 hpos hle
          rcases ekids_index init last pre k post hk with ⟨e1, e2⟩ | ⟨e1, e2⟩
          · rw [this (by omega)]; simp [e1, e2]
          · rw [this (by omega)]
            have : ¬ pre.length = init.length := by omega
            simp [this, (hinit k e2).2])
        (init ++ [last]) [] rfl cur off bo n st c1 (by rw [← hspan]; exact c2) c3
      simpa using this

/-- `joiner.New` on the root reference of a stored tree: span = size, root data = payload -/
theorem enew_spec (t : ET) (hsz : t.size < 2 ^ 64) (hholds : EHolds eref get t) :
    new get (t.ref eref) = .ok { rootData := t.payload eref, span := t.size, off := 0, refLength := (t.ref eref).length } := by
  unfold new
  rw [hholds _ (chunks_head eref t)]
  have hlen8 : ¬ (t.data eref).length < 8 := by
    simp only [ET.data, List.length_append, le64_length]; omega
  have hspan : fromLe64 (t.data eref) = t.size := fromLe64_data t.size _ hsz
  have hpl : (t.data eref).drop 8 = t.payload eref := by
    simp only [ET.data]; rw [List.drop_left' (le64_length _)]
  simp only [hlen8, ↓reduceIte, hspan, hpl]

/-- the premises shared by the reader theorems: a well-formed tree of height ≤ `h`, stored under
    references of `R` bytes, with the reader's branching derivation `C / R = B` -/
structure EStored (h : Nat) (t : ET) : Prop where
  refLen : ∀ k q s p, (eref k q s p).length = R
  rpos : 0 < R
  branching : C / R = B
  b2 : 2 ≤ B
  c1 : 1 ≤ C
  wf : EWF C B h t
  small : t.size < 2 ^ 64
  holds : EHolds eref get t

/-- the joiner opened on `t`, positioned at `off` -/
def ejOf (t : ET) (off : Nat) : J := { rootData := t.payload eref, span := t.size, off := off, refLength := R }

theorem ereadAt_spec (h : Nat) (t : ET) (S : EStored eref get C B R h t) (fuel : Nat) (hf : h + 1 ≤ fuel)
    (o len : Nat) (mem : Bytes) (off : Nat) (hcap : len ≤ mem.length) :
    (ejOf eref R t o).readAt get C fuel len mem off =
      if off ≥ t.size then { n := 0, err := some .eof, mem := mem }
      else { n := min len (t.size - off), err := none,
             mem := splice mem 0 ((t.flat.drop off).take (min len (t.size - off))) } := by
  unfold J.readAt ejOf
  by_cases hoff : off ≥ t.size
  · simp [hoff]
  · simp only [hoff, ↓reduceIte]
    have := ereadAtOffset_spec eref get C B R S.refLen S.rpos S.branching S.b2 S.c1 h t S.wf S.small S.holds
      fuel hf 0 off 0 (min len (t.size - off)) { mem := mem, read := 0 } (Nat.zero_le _) (by omega) (by simp only []; omega)
    simp only [Nat.sub_zero, Nat.zero_add] at this
    rw [this]

end Reader

end Aurora.EncUpload
