import Driver.Util
import Aurora.Model.Address
/-! Driver for C34: runs the Address model on the op lines of the harness.

Annotations: `new … | u=<hex> o=<hex> sig=<hex>` the record the real `NewAddress` produced;
`parse|ack|save … | data=<hex> rec=<hex|none> uok=<0|1>`: the sign data the harness fed to the real
`crypto.Recover` (cross-checked against the model's `signData`), the overlay
`NewOverlayAddress` derives from the recovered key (`none` if recovery failed) and whether
`ma.NewMultiaddrBytes` parses the underlay.  The driver's scheme identifies a public key with
its derived overlay. -/
namespace Driver.C34
open Aurora.Address

abbrev Slots := List (Nat × Record)

def splitAnnot (op : List String) : List String × List String :=
  match op.span (· ≠ "|") with
  | (a, []) => (a, [])
  | (a, _ :: b) => (a, b)

def annot (an : List String) (key : String) : Option String :=
  (an.find? (fun t => t.startsWith (key ++ "="))).map (fun t => (t.drop (key.length + 1)).toString)

def annotBytes (an : List String) (key : String) : Option Bytes := (annot an key).bind Driver.hexToBytes

def setSlot (s : Slots) (i : Nat) (r : Record) : Slots := (i, r) :: s.filter (·.1 != i)

def flipBit (b : Bytes) (i : Nat) : Bytes :=
  if b.isEmpty then b else
  let i := i % (b.length * 8)
  b.set (i / 8) ((b.getD (i / 8) 0) ^^^ (UInt8.ofNat (1 <<< (i % 8))))

def toNatBE (b : Bytes) : Nat := b.foldl (fun acc x => acc * 256 + x.toNat) 0

def ofNatBE (len n : Nat) : Bytes := (List.range len).map (fun i => UInt8.ofNat (n / 256 ^ (len - 1 - i) % 256))

/-- order of the secp256k1 group -/
def curveN : Nat := 0xFFFFFFFFFFFFFFFFFFFFFFFFFFFFFFFEBAAEDCE6AF48A03BBFD25E8CD0364141

/-- ECDSA malleability: `(r, s, v) ↦ (r, N − s, v xor 1)` on a 65-byte signature -/
def malleate (sig : Bytes) : Bytes :=
  if sig.length ≠ 65 then sig else
  let r := sig.take 32
  let s := toNatBE ((sig.drop 32).take 32)
  let v := sig.getD 64 0
  let v' := if v ≥ 27 then 27 + ((v - 27) ^^^ 1) else v ^^^ 1
  r ++ ofNatBE 32 ((curveN - s % curveN) % curveN) ++ [v']

def mutField (b : Bytes) (kind : String) (arg : Nat) : Option Bytes :=
  if kind = "flip" then some (flipBit b arg)
  else if kind = "trunc" then some (b.take arg)
  else if kind = "app" then some (b ++ [UInt8.ofNat (arg % 256)])
  else if kind = "pre" then some (UInt8.ofNat (arg % 256) :: b)
  else none

def step (st : Slots) (op : List String) : Slots × String :=
  let (args, an) := splitAnnot op
  match args with
  | ["new", s, _, _, nid] =>
    match Driver.parseNat s, Driver.parseNat nid, annotBytes an "u", annotBytes an "o", annotBytes an "sig" with
    | some s, some _, some u, some o, some sig => (setSlot st s { underlay := u, overlay := o, signature := sig }, "ok")
    | _, _, _, _, _ => (st, "bad-op")
  | ["raw", s, u, o, sig] =>
    match Driver.parseNat s, Driver.hexToBytes u, Driver.hexToBytes o, Driver.hexToBytes sig with
    | some s, some u, some o, some sig => (setSlot st s { underlay := u, overlay := o, signature := sig }, "ok")
    | _, _, _, _ => (st, "bad-op")
  | ["mut", s, d, f, kind, arg] =>
    match Driver.parseNat s, Driver.parseNat d, Driver.parseNat arg with
    | some s, some d, some arg =>
      match st.lookup s with
      | none => (st, "noslot")
      | some r =>
        let res : Option Record :=
          if f = "u" then (mutField r.underlay kind arg).map (fun x => { r with underlay := x })
          else if f = "o" then (mutField r.overlay kind arg).map (fun x => { r with overlay := x })
          else if f = "s" then (mutField r.signature kind arg).map (fun x => { r with signature := x })
          else none
        match res with
        | some r' => (setSlot st d r', "ok")
        | none => (st, "bad-op")
    | _, _, _ => (st, "bad-op")
  | ["move", s, d, dir, k] =>
    match Driver.parseNat s, Driver.parseNat d, Driver.parseNat k with
    | some s, some d, some k =>
      match st.lookup s with
      | none => (st, "noslot")
      | some r =>
        if dir = "fwd" then   -- the last k bytes of the underlay become the first bytes of the overlay
          let k := min k r.underlay.length
          (setSlot st d { r with underlay := r.underlay.take (r.underlay.length - k),
                                 overlay := r.underlay.drop (r.underlay.length - k) ++ r.overlay }, "ok")
        else if dir = "back" then
          let k := min k r.overlay.length
          (setSlot st d { r with underlay := r.underlay ++ r.overlay.take k, overlay := r.overlay.drop k }, "ok")
        else (st, "bad-op")
    | _, _, _ => (st, "bad-op")
  | ["malleate", s, d] =>
    match Driver.parseNat s, Driver.parseNat d with
    | some s, some d =>
      match st.lookup s with
      | none => (st, "noslot")
      | some r => (setSlot st d { r with signature := malleate r.signature }, "ok")
    | _, _ => (st, "bad-op")
  | ["take", d, su, so, ss] =>
    match Driver.parseNat d, Driver.parseNat su, Driver.parseNat so, Driver.parseNat ss with
    | some d, some su, some so, some ss =>
      match st.lookup su, st.lookup so, st.lookup ss with
      | some a, some b, some c =>
        (setSlot st d { underlay := a.underlay, overlay := b.overlay, signature := c.signature }, "ok")
      | _, _, _ => (st, "noslot")
    | _, _, _, _ => (st, "bad-op")
  | ["par", a, b, nid] =>
    -- concurrent verification: decided by the Go-side oracle from the per-record verdicts of the primitives (the
    -- model of one call is `parseAddress`, exercised by parse/ack/save); the state is unchanged
    match Driver.parseNat a, Driver.parseNat b, Driver.parseNat nid with
    | some a, some b, some nid =>
      if nid ≥ 2 ^ 64 then (st, "bad-op") else
      match st.lookup a, st.lookup b with
      | some _, some _ => (st, "done")
      | _, _ => (st, "noslot")
    | _, _, _ => (st, "bad-op")
  | ["save2", a, b, nid] =>
    -- `saveUnderlay` on the two-entry list [a, b] (the list model of `Props/C34`: `C34_save_underlay_iff`), then the
    -- address book as a map overlay ↦ last stored record: what does it hold under a's and under b's overlay?
    match Driver.parseNat a, Driver.parseNat b, Driver.parseNat nid with
    | some a, some b, some nid =>
      if nid ≥ 2 ^ 64 then (st, "bad-op") else
      match st.lookup a, st.lookup b with
      | some ra, some rb =>
        match annotBytes an "dataA", annot an "recA", annot an "uokA", annotBytes an "dataB", annot an "recB", annot an "uokB" with
        | some dA, some rcA, some uA, some dB, some rcB, some uB =>
          if dA ≠ signData ra.underlay ra.overlay nid ∨ dB ≠ signData rb.underlay rb.overlay nid then (st, "oracle-mismatch") else
          let recA : Option Bytes := if rcA = "none" then none else Driver.hexToBytes rcA
          let recB : Option Bytes := if rcB = "none" then none else Driver.hexToBytes rcB
          let S : SigScheme Bytes :=
            { recover := fun x y =>
                if (x = ra.signature ∧ y = dA) ∨ (y = ra.signature ∧ x = dA) then recA
                else if (x = rb.signature ∧ y = dB) ∨ (y = rb.signature ∧ x = dB) then recB else none,
              overlayOf := id,
              underlayOK := fun u => if u = ra.underlay then uA == "1" else if u = rb.underlay then uB == "1" else false }
          let stored := saveUnderlay S nid [ra, rb]
          let held := fun (o : Bytes) =>
            match (stored.filter (fun r => r.overlay = o)).getLast? with
            | none => "none"
            | some r => if r = ra then "A" else if r = rb then "B" else "other"
          (st, s!"a={held ra.overlay} b={held rb.overlay}")
        | _, _, _, _, _, _ => (st, "bad-op")
      | _, _ => (st, "noslot")
    | _, _, _ => (st, "bad-op")
  | [what, s, nid] =>
    if what ≠ "parse" ∧ what ≠ "ack" ∧ what ≠ "save" then (st, "bad-op") else
    match Driver.parseNat s, Driver.parseNat nid with
    | some s, some nid =>
      if nid ≥ 2 ^ 64 then (st, "bad-op") else
      match st.lookup s with
      | none => (st, "noslot")
      | some r =>
        match annotBytes an "data", annot an "rec", annot an "uok" with
        | some data, some rc, some uok =>
          if data ≠ signData r.underlay r.overlay nid then (st, "oracle-mismatch") else
          let recov : Option Bytes := if rc = "none" then none else Driver.hexToBytes rc
          let S : SigScheme Bytes :=
            { recover := fun _ _ => recov, overlayOf := id, underlayOK := fun _ => uok == "1" }
          let res :=
            if what = "parse" then parseAddress S r.underlay r.overlay r.signature nid
            else if what = "ack" then parseCheckAck S r.underlay r.overlay r.signature nid
            else (saveUnderlay S nid [r]).head?
          match res with
          | some r' => if r' = r then (st, "ok") else (st, "ok-different-record")
          | none => (st, "invalid")
        | _, _, _ => (st, "bad-op")
    | _, _ => (st, "bad-op")
  | _ => (st, "bad-op")

def handler : Driver.Handler := { σ := Slots, init := [], step := step }

end Driver.C34
