/-
Abstract small-step program for lock-set reasoning (DESIGN §4 "Data races").
A program is a finite set of function bodies; a body is a list of instructions
`lock l | unlock l | access loc write`.  Any number of threads repeatedly pick a body and run it;
`lock l` is enabled only when `l` is free.  The instruction lists of real code are *generated*
(Aurora/Generated/*Locks.lean).  Core Lean only.
-/
namespace Aurora.LockSetProg

inductive Instr where
  | lock (l : Nat)
  | unlock (l : Nat)
  | access (loc : Nat) (write : Bool)
deriving DecidableEq, Repr

abbrev Body := List Instr

/-- static check of the rest of a body, `h` = locks held at this point: every access to `loc`
    happens while `L loc` is held, `unlock` only of a held lock, nothing held at the end -/
def okFrom (L : Nat → Nat) : List Nat → Body → Bool
  | h, [] => h.isEmpty
  | h, .lock l :: r => okFrom L (l :: h) r
  | h, .unlock l :: r => h.contains l && okFrom L (h.filter (· ≠ l)) r
  | h, .access loc _ :: r => h.contains (L loc) && okFrom L h r

def bodyOk (L : Nat → Nat) (b : Body) : Bool := okFrom L [] b

structure Thread where
  held : List Nat      -- locks acquired and not yet released by this thread
  rest : Body          -- instructions still to run in the current call
deriving Repr

structure State where
  thr : Nat → Thread            -- any number of threads (indexed by Nat)
  holder : Nat → Option Nat     -- lock ↦ thread that holds it

def State.setThr (s : State) (t : Nat) (x : Thread) : Nat → Thread := fun u => if u = t then x else s.thr u

def init : State := { thr := fun _ => ⟨[], []⟩, holder := fun _ => none }

/-- one atomic step of thread `t` -/
inductive Step (prog : List Body) : State → State → Prop where
  | lock (s : State) (t l : Nat) (r : Body) :
      (s.thr t).rest = .lock l :: r → s.holder l = none →
      Step prog s { thr := s.setThr t ⟨l :: (s.thr t).held, r⟩, holder := fun x => if x = l then some t else s.holder x }
  | unlock (s : State) (t l : Nat) (r : Body) :
      (s.thr t).rest = .unlock l :: r →
      Step prog s { thr := s.setThr t ⟨(s.thr t).held.filter (· ≠ l), r⟩, holder := fun x => if x = l then none else s.holder x }
  | access (s : State) (t loc : Nat) (w : Bool) (r : Body) :
      (s.thr t).rest = .access loc w :: r →
      Step prog s { thr := s.setThr t ⟨(s.thr t).held, r⟩, holder := s.holder }
  | call (s : State) (t : Nat) (b : Body) :
      (s.thr t).rest = [] → b ∈ prog →
      Step prog s { thr := s.setThr t ⟨(s.thr t).held, b⟩, holder := s.holder }

inductive Reachable (prog : List Body) : State → Prop where
  | init : Reachable prog init
  | step (s s' : State) : Reachable prog s → Step prog s s' → Reachable prog s'

/-- a data race: two different threads are both about to access the same location, one writing -/
def Race (s : State) : Prop :=
  ∃ t1 t2 loc w1 w2 r1 r2, t1 ≠ t2 ∧ (s.thr t1).rest = .access loc w1 :: r1 ∧
    (s.thr t2).rest = .access loc w2 :: r2 ∧ (w1 = true ∨ w2 = true)

end Aurora.LockSetProg
