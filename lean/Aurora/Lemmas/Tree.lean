import Aurora.Model.Tree
/-!
Shape lemmas for well-formed file trees (`Tree.WF`): flat length = size, size bounds, the sizes
of a node's children, chunk-set inclusions.
-/
namespace Aurora.Tree
open Aurora.Bmt (Bytes)
open Aurora.Cac (le64)

theorem fromLe64_le64 (n : Nat) (h : n < 2 ^ 64) : fromLe64 (le64 n) = n := by
  simp [fromLe64, le64, List.range, List.range.loop]
  omega

theorem le64_length (n : Nat) : (le64 n).length = 8 := by simp [le64]

theorem flatL_append (a b : List T) : flatL (a ++ b) = flatL a ++ flatL b := by
  induction a with
  | nil => simp [flatL]
  | cons t ts ih => simp [flatL, ih]

theorem flatL_length (ks : List T) (h : ∀ k ∈ ks, k.flat.length = k.size) :
    (flatL ks).length = (ks.map T.size).sum := by
  induction ks with
  | nil => simp [flatL]
  | cons t ts ih =>
    rw [flatL]
    simp only [List.length_append, List.map_cons, List.sum_cons]
    rw [h t (by simp), ih (fun k hk => h k (by simp [hk]))]

theorem size_le_sum (ks : List T) (k : T) (hk : k ∈ ks) : k.size ≤ (ks.map T.size).sum := by
  induction ks with
  | nil => simp at hk
  | cons t ts ih =>
    simp only [List.map_cons, List.sum_cons]
    rcases List.mem_cons.mp hk with h | h
    · subst h; omega
    · have := ih h; omega

theorem sum_const (ks : List T) (q : Nat) (h : ∀ k ∈ ks, k.size = q) : (ks.map T.size).sum = ks.length * q := by
  induction ks with
  | nil => simp
  | cons t ts ih =>
    simp only [List.map_cons, List.sum_cons, List.length_cons]
    rw [h t (by simp), ih (fun k hk => h k (by simp [hk])), Nat.add_mul]; omega

theorem WF_mono (C B h : Nat) (t : T) (w : WF C B h t) : WF C B (h + 1) t := by
  rw [WF]; exact Or.inl w

theorem pow_mono (C B h : Nat) (hB : 1 ≤ B) : C * B ^ h ≤ C * B ^ (h + 1) := by
  rw [Nat.pow_succ]
  calc C * B ^ h = C * (B ^ h * 1) := by simp
    _ ≤ C * (B ^ h * B) := Nat.mul_le_mul_left C (Nat.mul_le_mul_left _ hB)

/-- the shape data of a node at height `h+1`, or a tree of height ≤ `h` -/
theorem WF_succ_cases (C B h : Nat) (t : T) (w : WF C B (h + 1) t) :
    WF C B h t ∨
      ∃ span init last, t = .node span (init ++ [last]) ∧ 1 ≤ init.length ∧ init.length + 1 ≤ B ∧
        (∀ k ∈ init, WF C B h k ∧ k.size = C * B ^ h) ∧
        WF C B h last ∧ 0 < last.size ∧ last.size ≤ C * B ^ h ∧
        span = ((init ++ [last]).map T.size).sum := by
  rw [WF] at w; exact w

theorem node_span (init : List T) (last : T) (q : Nat) (h : ∀ k ∈ init, k.size = q) :
    ((init ++ [last]).map T.size).sum = init.length * q + last.size := by
  simp only [List.map_append, List.sum_append, List.map_cons, List.map_nil, List.sum_cons, List.sum_nil]
  rw [sum_const init q h]; omega

theorem WF_flat_size (C B : Nat) (hB1 : 1 ≤ B) : ∀ (h : Nat) (t : T), WF C B h t → t.flat.length = t.size ∧ t.size ≤ C * B ^ h := by
  intro h
  induction h with
  | zero =>
    intro t w
    rw [WF] at w
    obtain ⟨d, rfl, hd⟩ := w
    simp [T.flat, T.size, hd]
  | succ h ih =>
    intro t w
    rcases WF_succ_cases C B h t w with w' | ⟨span, init, last, rfl, h1, h2, hinit, hlast, hpos, hle, hspan⟩
    · have := ih t w'
      exact ⟨this.1, Nat.le_trans this.2 (pow_mono C B h hB1)⟩
    · constructor
      · rw [T.flat, T.size, hspan]
        apply flatL_length
        intro k hk
        rcases List.mem_append.mp hk with hk | hk
        · exact (ih k (hinit k hk).1).1
        · simp at hk; subst hk; exact (ih k hlast).1
      · rw [T.size, hspan, node_span init last (C * B ^ h) (fun k hk => (hinit k hk).2)]
        rw [Nat.pow_succ]
        have : init.length * (C * B ^ h) + C * B ^ h ≤ B * (C * B ^ h) := by
          have : (init.length + 1) * (C * B ^ h) ≤ B * (C * B ^ h) := Nat.mul_le_mul_right _ h2
          rw [Nat.add_mul] at this; omega
        have e : C * (B ^ h * B) = B * (C * B ^ h) := by
          rw [Nat.mul_comm (B ^ h) B, ← Nat.mul_assoc, Nat.mul_comm C B, Nat.mul_assoc]
        rw [e]; omega

section Chunks
variable (cref : Bytes → Bytes → Bytes)

theorem refsL_append (a b : List T) : refsL cref (a ++ b) = refsL cref a ++ refsL cref b := by
  induction a with
  | nil => simp [refsL]
  | cons t ts ih => simp [refsL, ih]

theorem refsL_length (R : Nat) (hR : ∀ s p, (cref s p).length = R) (ks : List T) :
    (refsL cref ks).length = R * ks.length := by
  induction ks with
  | nil => simp [refsL]
  | cons t ts ih =>
    rw [refsL]
    have : (t.ref cref).length = R := by cases t <;> simp [T.ref, hR]
    simp only [List.length_append, this, ih, List.length_cons]; rw [Nat.mul_add]; omega

theorem T.ref_length (R : Nat) (hR : ∀ s p, (cref s p).length = R) (t : T) : (t.ref cref).length = R := by
  cases t <;> simp [T.ref, hR]

theorem chunks_head (t : T) : (t.ref cref, t.data cref) ∈ t.chunks cref := by
  cases t with
  | leaf d => simp [T.chunks, T.ref, T.data, T.size, T.payload]
  | node s ks => simp [T.chunks, T.ref, T.data, T.size, T.payload]

theorem chunksL_mem (ks : List T) (k : T) (hk : k ∈ ks) (x : Bytes × Bytes) (hx : x ∈ k.chunks cref) :
    x ∈ chunksL cref ks := by
  induction ks with
  | nil => simp at hk
  | cons t ts ih =>
    rw [chunksL]
    rcases List.mem_cons.mp hk with h | h
    · subst h; exact List.mem_append_left _ hx
    · exact List.mem_append_right _ (ih h)

theorem node_chunks_mem (s : Nat) (ks : List T) (k : T) (hk : k ∈ ks) (x : Bytes × Bytes)
    (hx : x ∈ k.chunks cref) : x ∈ (T.node s ks).chunks cref := by
  rw [T.chunks]; exact List.mem_cons_of_mem _ (chunksL_mem cref ks k hk x hx)

end Chunks

end Aurora.Tree
