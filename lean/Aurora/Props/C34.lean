import Aurora.Model.Address
/-!
# C34 — Peer address records are authenticated

Model: `Aurora/Model/Address.lean`.  The signature scheme (`crypto.Recover`, the signer),
`NewOverlayAddress` and multiaddr parsing are the `SigScheme` parameter; cryptographic assumptions
are hypotheses of the theorems (never axioms) and are instantiated at the end (non-vacuity).
`handshake.parseCheckAck` and `routetab.saveUnderlay`/`FindUnderlay` accept a record iff
`ParseAddress` does (`parseCheckAck`, `saveUnderlay` in the model), so the theorems about
`parseAddress` are the theorems about those call sites.
-/
namespace Aurora.Address

variable {PK : Type} (S : SigScheme PK)

/-- **Accepted iff authentic**: a record is accepted exactly when the signature over
    `prefix ‖ underlay ‖ overlay ‖ be64(networkID)` recovers to a key whose derived overlay is the
    claimed overlay and the underlay parses; the accepted record is the input unchanged. -/
theorem C34_parse_iff (u o sig : Bytes) (nid : Nat) (r : Record) :
    parseAddress S u o sig nid = some r ↔
      ∃ pk, S.recover sig (signData u o nid) = some pk ∧ S.overlayOf pk = o ∧
        S.underlayOK u = true ∧ r = { underlay := u, overlay := o, signature := sig } := by
  unfold parseAddress
  constructor
  · intro h
    cases hr : S.recover sig (signData u o nid) with
    | none => simp [hr] at h
    | some pk =>
      simp only [hr] at h
      by_cases ho : S.overlayOf pk = o
      · by_cases hu : S.underlayOK u = true
        · simp [ho, hu] at h
          exact ⟨pk, rfl, ho, hu, h.symm⟩
        · simp [ho, hu] at h
      · simp [ho] at h
  · rintro ⟨pk, hr, ho, hu, rfl⟩
    simp [hr, ho, hu]

/-- the same decision at the two call sites -/
theorem C34_call_sites (u o sig : Bytes) (nid : Nat) (list : List Record) :
    parseCheckAck S u o sig nid = parseAddress S u o sig nid ∧
    (∀ r, r ∈ saveUnderlay S nid list ↔
      ∃ x ∈ list, parseAddress S x.underlay x.overlay x.signature nid = some r) := by
  refine ⟨rfl, fun r => ?_⟩
  simp [saveUnderlay, List.mem_filterMap]

/-- **Records produced by a node's own signer are always accepted**: if recovering a signature
    made by `sign` yields the signer's key `pk` (correctness of sign/recover), the node's overlay is
    the one derived from `pk`, and its underlay is a well-formed multiaddr. -/
theorem C34_own_record_accepted (sign : Bytes → Bytes) (pk : PK)
    (hrec : ∀ m, S.recover (sign m) m = some pk) (u : Bytes) (nid : Nat) (hu : S.underlayOK u = true) :
    parseAddress S (newAddress sign u (S.overlayOf pk) nid).underlay
      (newAddress sign u (S.overlayOf pk) nid).overlay
      (newAddress sign u (S.overlayOf pk) nid).signature nid
      = some (newAddress sign u (S.overlayOf pk) nid) := by
  simp [parseAddress, newAddress, hrec, hu]

theorem byteAt_inj (n m : Nat) (hn : n < 2 ^ 64) (hm : m < 2 ^ 64)
    (h : ∀ k, k < 8 → byteAt n k = byteAt m k) : n = m := by
  have e : ∀ k, k < 8 → n / 2 ^ (8 * k) % 256 = m / 2 ^ (8 * k) % 256 := by
    intro k hk
    have := congrArg UInt8.toNat (h k hk)
    simp only [byteAt, UInt8.toNat_ofNat'] at this
    have h1 : n / 2 ^ (8 * k) % 256 < 256 := Nat.mod_lt _ (by decide)
    have h2 : m / 2 ^ (8 * k) % 256 < 256 := Nat.mod_lt _ (by decide)
    omega
  have e0 := e 0 (by decide); have e1 := e 1 (by decide); have e2 := e 2 (by decide)
  have e3 := e 3 (by decide); have e4 := e 4 (by decide); have e5 := e 5 (by decide)
  have e6 := e 6 (by decide); have e7 := e 7 (by decide)
  simp only [Nat.mul_zero, Nat.pow_zero, Nat.div_one] at e0
  simp only [Nat.reduceMul, Nat.reducePow] at e1 e2 e3 e4 e5 e6 e7 hn hm
  omega

/-- **The undelimited concatenation is unambiguous** once the overlay length is fixed (an accepted
    overlay always has the derived length): equal sign data with equally long overlays means equal
    underlay, overlay and network id — bytes cannot be moved across the underlay/overlay boundary. -/
theorem C34_signData_injective_given_overlay_len (u u' o o' : Bytes) (n n' : Nat)
    (hn : n < 2 ^ 64) (hn' : n' < 2 ^ 64) (hlen : o.length = o'.length)
    (h : signData u o n = signData u' o' n') : u = u' ∧ o = o' ∧ n = n' := by
  unfold signData at h
  have hb : (be64 n).length = (be64 n').length := rfl
  have h1 := List.append_inj' h hb
  have h2 := List.append_inj' h1.1 hlen
  have h3 := List.append_cancel_left h2.1
  refine ⟨h3, h2.2, ?_⟩
  apply byteAt_inj n n' hn hn'
  have hb := h1.2
  simp only [be64, List.cons.injEq, and_true] at hb
  obtain ⟨b7, b6, b5, b4, b3, b2, b1, b0⟩ := hb
  intro k hk
  have : k = 0 ∨ k = 1 ∨ k = 2 ∨ k = 3 ∨ k = 4 ∨ k = 5 ∨ k = 6 ∨ k = 7 := by omega
  rcases this with rfl | rfl | rfl | rfl | rfl | rfl | rfl | rfl <;> assumption

/-- **Changing any of the values makes the record rejected** (unforgeability as hypotheses).
    Scenario: the honest key `pk` (overlay `o`) signed exactly the message for `(u, o, n)`.
    * `hunf` — existential unforgeability: whenever a signature recovers to a key, that key's owner
      signed that message (`Signed`); `honly` — in the scenario the only signed pair is the honest
      one.
    (An accepted overlay is the derived overlay of the recovered key, hence of the honest key, so its
    length is the honest overlay's and `C34_signData_injective_given_overlay_len` applies.)
    Then *every* accepted record `(u', o', sig', n')` has `u' = u`, `o' = o`, `n' = n`: changing the
    underlay, the overlay or the network id (alone or together, including moving bytes across the
    underlay/overlay boundary) is rejected.  For the signature itself the scheme must be *strongly*
    unforgeable (`hsuf`: one signature per message) — ECDSA is malleable, see notes/C34.md. -/
theorem C34_tamper_rejected (Signed : PK → Bytes → Prop) (pk : PK) (u o sig : Bytes) (n : Nat)
    (hn : n < 2 ^ 64)
    (hov : S.overlayOf pk = o)
    (hunf : ∀ s m k, S.recover s m = some k → Signed k m)
    (honly : ∀ k m, Signed k m → k = pk ∧ m = signData u o n)
    (u' o' sig' : Bytes) (n' : Nat) (hn' : n' < 2 ^ 64) (r : Record)
    (hacc : parseAddress S u' o' sig' n' = some r) :
    u' = u ∧ o' = o ∧ n' = n ∧
      ((∀ s, S.recover s (signData u o n) = some pk → s = sig) → sig' = sig) := by
  obtain ⟨k, hr, ho, _, _⟩ := (C34_parse_iff S u' o' sig' n' r).1 hacc
  obtain ⟨hk, hm⟩ := honly k _ (hunf _ _ _ hr)
  subst hk
  have hoo : o' = o := by rw [← ho, hov]
  have hl : o'.length = o.length := by rw [hoo]
  obtain ⟨h1, h2, h3⟩ := C34_signData_injective_given_overlay_len u' u o' o n' n hn' hn hl hm
  refine ⟨h1, h2, h3, fun hsuf => hsuf sig' ?_⟩
  rw [← hm]; exact hr

/-- single-field corollaries in the same scenario -/
theorem C34_single_field_mutations (Signed : PK → Bytes → Prop) (pk : PK) (u o sig : Bytes) (n : Nat)
    (hn : n < 2 ^ 64) (hov : S.overlayOf pk = o)
    (hunf : ∀ s m k, S.recover s m = some k → Signed k m)
    (honly : ∀ k m, Signed k m → k = pk ∧ m = signData u o n)
 :
    (∀ u', u' ≠ u → parseAddress S u' o sig n = none) ∧
    (∀ o', o' ≠ o → parseAddress S u o' sig n = none) ∧
    (∀ n', n' < 2 ^ 64 → n' ≠ n → parseAddress S u o sig n' = none) ∧
    (∀ sig', sig' ≠ sig → (∀ s, S.recover s (signData u o n) = some pk → s = sig) →
      parseAddress S u o sig' n = none) := by
  have key := C34_tamper_rejected S Signed pk u o sig n hn hov hunf honly
  refine ⟨?_, ?_, ?_, ?_⟩
  · intro u' hne
    cases h : parseAddress S u' o sig n with
    | none => rfl
    | some r => exact absurd (key u' o sig n hn r h).1 hne
  · intro o' hne
    cases h : parseAddress S u o' sig n with
    | none => rfl
    | some r => exact absurd (key u o' sig n hn r h).2.1 hne
  · intro n' hn' hne
    cases h : parseAddress S u o sig n' with
    | none => rfl
    | some r => exact absurd (key u o sig n' hn' r h).2.2.1 hne
  · intro sig' hne hsuf
    cases h : parseAddress S u o sig' n with
    | none => rfl
    | some r => exact absurd ((key u o sig' n hn r h).2.2.2 hsuf) hne

/-! ### non-vacuity -/

/-- toy scheme: a signature is `key byte :: message`; recovering checks the message -/
def toy : SigScheme UInt8 :=
  { recover := fun s m => match s with
      | k :: m' => if m' = m then some k else none
      | [] => none,
    overlayOf := fun k => [k],
    underlayOK := fun _ => true }

/-- the hypotheses of `C34_own_record_accepted` are met by the toy signer `sign m = 5 :: m`,
    and the record it produces is accepted -/
example : (∀ m, toy.recover ((fun m => 5 :: m) m) m = some 5) ∧
    parseAddress toy [1, 2] [5] (5 :: signData [1, 2] [5] 9) 9 =
      some (newAddress (fun m => 5 :: m) [1, 2] (toy.overlayOf 5) 9) := by
  refine ⟨fun m => by simp [toy], by decide⟩

/-- a scheme in which only the honest signature exists: all hypotheses of `C34_tamper_rejected`
    (unforgeability, "only the honest pair is signed", and even strong
    unforgeability) hold together with an accepted honest record. -/
def honestOnly : SigScheme UInt8 :=
  { recover := fun s m => if s = [42] ∧ m = signData [1, 2] [5] 9 then some 5 else none,
    overlayOf := fun k => [k],
    underlayOK := fun _ => true }

example :
    let Signed : UInt8 → Bytes → Prop := fun k m => k = 5 ∧ m = signData [1, 2] [5] 9
    honestOnly.overlayOf 5 = [5] ∧
    (∀ s m k, honestOnly.recover s m = some k → Signed k m) ∧
    (∀ k m, Signed k m → k = 5 ∧ m = signData [1, 2] [5] 9) ∧
    (∀ s, honestOnly.recover s (signData [1, 2] [5] 9) = some 5 → s = [42]) ∧
    (parseAddress honestOnly [1, 2] [5] [42] 9).isSome = true := by
  refine ⟨rfl, ?_, fun k m h => h, ?_, by decide⟩
  · intro s m k h
    simp only [honestOnly] at h
    split at h
    · rename_i hc; cases h; exact ⟨rfl, hc.2⟩
    · cases h
  · intro s h
    simp only [honestOnly] at h
    split at h
    · rename_i hc; exact hc.1
    · cases h

/-! ### the signature field itself: only under *strong* unforgeability -/

/-- The full reading of "changing the signature makes the record rejected" with only existential
    unforgeability assumed (what ECDSA offers). -/
def C34_full : Prop :=
  ∀ (PK : Type) (S : SigScheme PK) (Signed : PK → Bytes → Prop) (pk : PK) (u o sig : Bytes) (n : Nat),
    n < 2 ^ 64 → S.overlayOf pk = o → S.recover sig (signData u o n) = some pk →
    (∀ s m k, S.recover s m = some k → Signed k m) →
    (∀ k m, Signed k m → k = pk ∧ m = signData u o n) →
    ∀ sig', sig' ≠ sig → parseAddress S u o sig' n = none

/-- the guarded statement that is provable: with strong unforgeability (`hsuf`, one valid signature
    per message and key) a changed signature is rejected -/
theorem C34_tamper_signature_partial (Signed : PK → Bytes → Prop) (pk : PK) (u o sig : Bytes) (n : Nat)
    (hn : n < 2 ^ 64) (hov : S.overlayOf pk = o)
    (hunf : ∀ s m k, S.recover s m = some k → Signed k m)
    (honly : ∀ k m, Signed k m → k = pk ∧ m = signData u o n)
    (hsuf : ∀ s, S.recover s (signData u o n) = some pk → s = sig) :
    ∀ sig', sig' ≠ sig → parseAddress S u o sig' n = none :=
  fun sig' hne => (C34_single_field_mutations S Signed pk u o sig n hn hov hunf honly).2.2.2 sig' hne hsuf

/-- a malleable scheme: two signatures (`[42]`, `[43]`) verify for the one honest message -/
def malleable : SigScheme UInt8 :=
  { recover := fun s m => if (s = [42] ∨ s = [43]) ∧ m = signData [1, 2] [5] 9 then some 5 else none,
    overlayOf := fun k => [k],
    underlayOK := fun _ => true }

/-- **`C34_full` is false for a malleable scheme**: existential unforgeability holds, yet the second
    signature of the same message is accepted.  secp256k1 ECDSA is malleable in exactly this way
    (`(r, s, v) ↦ (r, N − s, v′)`); the harness replays that witness on the real `ParseAddress`,
    `parseCheckAck` and `saveUnderlay` in every run (oracle clause `…-sig-malleable-accepted`). -/
theorem C34_full_counterexample : ¬ C34_full := by
  intro h
  have := h UInt8 malleable (fun k m => k = 5 ∧ m = signData [1, 2] [5] 9) 5 [1, 2] [5] [42] 9
    (by decide) rfl (by decide) ?_ (fun k m hh => hh) [43] (by decide)
  · revert this; decide
  · intro s m k hk
    simp only [malleable] at hk
    split at hk
    · rename_i hc; cases hk; exact ⟨rfl, hc.2⟩
    · cases hk

end Aurora.Address
