import Aurora.Model.Encryption
/-!
Model of `/repo/pkg/encryption/store/decrypt_store.go`: `decryptingStore.Get` and
`decryptChunkData`, whose length-recovery loop runs in `uint64` arithmetic:

    for length > ChunkSize { length = (length + ChunkSize - 1) / ChunkSize * refSize }

The Go loop has no bound; the model gives it fuel 64 and `Props/C08` proves the fuel is never
exhausted for the repository's constants (4 iterations suffice for every `uint64`).
`treeSize*` is the local arithmetic notion of an encrypted subtree used by `C08_strip_intermediate`.
-/
namespace Aurora.DecryptStore
open Aurora.Bmt Aurora.Encryption

/-- `binary.LittleEndian.Uint64` -/
def u64le (b : Bytes) : UInt64 :=
  UInt64.ofNat ((b.take 8).foldr (fun x acc => x.toNat + 256 * acc) 0)

/-- the `for length > ChunkSize` loop of `decryptChunkData` (uint64, wrapping) -/
def lengthLoopFuel (C R : UInt64) : Nat → UInt64 → UInt64
  | 0, l => l
  | f + 1, l => if l > C then lengthLoopFuel C R f ((l + (C - 1)) / C * R) else l

def lengthLoop (C R : UInt64) (l : UInt64) : UInt64 := lengthLoopFuel C R 64 l

inductive Err | enc (e : Encryption.Err) | refLength | notFound
deriving Repr, DecidableEq

/-- `decryptChunkData(chunkData, key)` (`chunkData[:8]` panics below 8 bytes — guarded in the driver) -/
def decryptChunkData (H : Bytes → Bytes) (C R : Nat) (chunkData key : Bytes) : Except Err Bytes :=
  match (spanEnc C R key).decrypt H (chunkData.take 8) with
  | .error e => .error (.enc e)
  | .ok (span, _) =>
    match (dataEnc C key).decrypt H (chunkData.drop 8) with
    | .error e => .error (.enc e)
    | .ok (data, _) =>
      let length := lengthLoop (UInt64.ofNat C) (UInt64.ofNat R) (u64le span)
      .ok (span ++ data.take length.toNat)

/-- `decryptingStore.Get(ctx, mode, addr)` over a getter; returns (address, data) -/
def storeGet (H : Bytes → Bytes) (C R hashSize : Nat) (getter : Bytes → Option Bytes) (addr : Bytes) :
    Except Err (Bytes × Bytes) :=
  if addr.length = hashSize then
    match getter addr with
    | none => .error .notFound
    | some d => .ok (addr, d)
  else if addr.length = R then
    let address := addr.take hashSize
    match getter address with
    | none => .error .notFound
    | some d =>
      match decryptChunkData H C R d (addr.drop hashSize) with
      | .error e => .error e
      | .ok c => .ok (address, c)
  else .error .refLength

/-! ## shape of encrypted trees (arithmetic only)

A well-formed subtree of height `h + 1` (its root is an intermediate chunk whose children are
subtrees of height `≤ h`) with `k` children has `k - 1` full children of `C * B^h` bytes and a
last child of `1 … C * B^h` bytes; `2 ≤ k ≤ B` (a lone reference is carried up, never wrapped). -/

/-- bytes below a full subtree of height `h` (`h = 0`: one data chunk) -/
def full (C B : Nat) (h : Nat) : Nat := C * B ^ h

/-- `s` is the span of a well-formed intermediate chunk of height `h + 1` with `k` children -/
def WFNode (C B : Nat) (h k s : Nat) : Prop :=
  2 ≤ k ∧ k ≤ B ∧ (k - 1) * full C B h < s ∧ s ≤ k * full C B h

/-- number of chunks of the encrypted tree of an `n`-byte subtree (used by the driver to predict
    what the real pipeline stores; fuel = height bound) -/
def chunkCount (C B : Nat) : Nat → Nat → Nat
  | 0, _ => 1
  | f + 1, s =>
    if s ≤ C then 1
    else
      -- height: smallest h ≥ 0 with s ≤ C * B^(h+1)
      let h := (List.range 8).find? (fun h => s ≤ full C B (h + 1)) |>.getD 8
      let fl := full C B h
      let k := (s + fl - 1) / fl
      1 + (k - 1) * chunkCount C B f fl + chunkCount C B f (s - (k - 1) * fl)

end Aurora.DecryptStore
