import Aurora.Lemmas.Accounting
import Aurora.Lemmas.LockSetProg
import Aurora.Generated.AccountingLocks
import Aurora.Lemmas.AtomicRegionUse
import Aurora.Generated.AccountingMapRegions
/-!
# C32 — Per-peer debt tracking is exact and race-free

Property theorems only (helpers in `Aurora/Lemmas/Accounting.lean`, `Aurora/Lemmas/LockSetProg.lean`).
`Aurora/Model/Accounting.lean` transcribes `pkg/accounting/accounting.go`; the settlement layer's
answers are arbitrary oracle arguments.  The race-freedom clause is about the *generated*
instruction table `Aurora/Generated/AccountingLocks.lean` (regenerated from accounting.go by a
go/ast pass on every run).  All statements are for every configuration, state and history.
-/
namespace Aurora.Accounting
open Aurora.LockSetProg

/-- Clause 1 (`unpaid_spec`): for every history over any number of peers, the unpaid balance of
    peer `p` is the fold, in order, of *its own* operations — opening balance from the settlement
    layer at first contact, `+ amt` per credit, truncated subtraction per notified payment —
    and it is never negative (opening balances and payment amounts being non-negative). -/
theorem C32_unpaid_spec (cfg : Cfg) (ops : List Op) (st : St) (p : Nat)
    (hn : ∀ op ∈ ops, op.NonNeg) (h0 : ∀ q, NonNegAt st q) :
    (run cfg st ops).unpaid p = (ops.filter (fun op => op.peer = p)).foldl specStep (st.unpaid p) ∧
    ∀ q, NonNegAt (run cfg st ops) q := by
  induction ops generalizing st with
  | nil => exact ⟨rfl, h0⟩
  | cons op ops ih =>
    have hop := hn op (List.mem_cons_self ..)
    have hself := step_self cfg st op hop (h0 op.peer)
    have h1 : ∀ q, NonNegAt (step cfg st op) q := by
      intro q
      by_cases hq : op.peer = q
      · subst hq; exact hself.2
      · intro u hu; rw [step_other cfg st op q hq] at hu; exact h0 q u hu
    have := ih (step cfg st op) (fun o ho => hn o (List.mem_cons_of_mem _ ho)) h1
    simp only [run, List.foldl_cons] at this ⊢
    refine ⟨?_, this.2⟩
    rw [this.1]
    by_cases hp : op.peer = p
    · subst hp; simp [hself.1]
    · simp [hp, step_other cfg st op p hp]

/-- Clause 1, exactness: a payment that does not exceed the outstanding amount is subtracted
    exactly (so without over-payments, unpaid = opening + Σ credits − Σ payments); an over-payment
    clears the balance; the result is never negative. -/
theorem C32_payment_exact (u amt : Int) (hu : 0 ≤ u) (ha : 0 ≤ amt) :
    (amt ≤ u → payDown u amt = u - amt) ∧ (u < amt → payDown u amt = 0) ∧ 0 ≤ payDown u amt := by
  unfold payDown
  refine ⟨fun h => ?_, fun h => ?_, ?_⟩
  · by_cases h1 : u ≤ 0
    · simp only [h1, if_true]; omega
    · have h2 : ¬ u < amt := by omega
      simp only [h1, h2, if_false]
  · by_cases h1 : u ≤ 0
    · simp only [h1, if_true]; omega
    · simp only [h1, h, if_false, if_true]
  · by_cases h1 : u ≤ 0
    · simp only [h1, if_true]; omega
    · by_cases h2 : u < amt
      · simp only [h1, h2, if_false, if_true]; omega
      · simp only [h1, h2, if_false]; omega

/-- Clause 2 (`pay_requested_iff`): `Credit` enqueues a payment request iff the settlement layer
    recorded the traffic and the credit leaves the unpaid balance at or above the threshold —
    and then exactly one. -/
theorem C32_pay_requested_iff (cfg : Cfg) (st : St) (p amt : Nat) (rt : Option Int) (putErr : Bool) :
    (credit cfg st p amt rt putErr).2.pays ≤ 1 ∧
    ((credit cfg st p amt rt putErr).2.pays = 1 ↔
      ∃ st1 u, getPeer st p rt = some (st1, u) ∧ putErr = false ∧ cfg.threshold ≤ u + amt ∧
        (credit cfg st p amt rt putErr).1.unpaid p = some (u + amt)) := by
  unfold credit
  cases hg : getPeer st p rt with
  | none => simp
  | some x =>
    obtain ⟨st1, u⟩ := x
    cases putErr with
    | true => simp
    | false =>
      by_cases ht : cfg.threshold ≤ u + amt
      · simp [ht, set]
      · simp [ht]

/-- Clause 3 (`debit_refused_not_recorded`): when the peer's unsettled served traffic has reached
    the tolerance, `Debit` is refused (block-list error) and nothing is handed to the settlement
    layer; below the tolerance the served traffic is handed over. -/
theorem C32_debit_refused_not_recorded (cfg : Cfg) (st st1 : St) (p amt : Nat) (rt : Option Int) (u t : Int)
    (putErr : Bool) (hg : getPeer st p rt = some (st1, u)) :
    (cfg.tolerance ≤ t → (debit cfg st p amt rt (some t) putErr).2 = ⟨.blocked, none⟩) ∧
    (t < cfg.tolerance → (debit cfg st p amt rt (some t) putErr).2.put = some amt ∧
                          (debit cfg st p amt rt (some t) putErr).2.res ≠ .blocked) := by
  unfold debit
  simp only [hg]
  constructor
  · intro h; simp [h]
  · intro h
    have : ¬ cfg.tolerance ≤ t := by omega
    cases putErr <;> simp [this]

/-- Clause 4a (`lockset_ok`): in the table generated from accounting.go every function's locking
    pattern was recognised, every read or write of `accountingPeer.unPaidTraffic` /
    `.paymentThreshold` lies inside a `lock.Lock() … lock.Unlock()` region of the same object, unlocks
    are matched and no function returns holding the lock. -/
theorem C32_lockset_ok :
    (Aurora.Generated.AccountingLocks.funcs.all
      fun f => f.2.1 && bodyOk Aurora.Generated.AccountingLocks.lockOf f.2.2) = true := by
  decide

/-- Clause 4b (race freedom): any number of goroutines, each repeatedly running any of the
    functions of accounting.go on one accountingPeer, in any interleaving of their atomic
    lock / unlock / access steps, never reach a state where two of them are at conflicting accesses
    of the same field. -/
theorem C32_race_free (s : State)
    (h : Reachable (Aurora.Generated.AccountingLocks.funcs.map (·.2.2)) s) : ¬ Race s := by
  apply lockset_race_free Aurora.Generated.AccountingLocks.lockOf _ _ s h
  intro b hb
  obtain ⟨f, hf, rfl⟩ := List.mem_map.1 hb
  have := List.all_eq_true.1 C32_lockset_ok f hf
  simp only [Bool.and_eq_true] at this
  exact this.2

/-- non-vacuity of the lock-set theorem: an unguarded read next to a guarded write *is* a reachable
    race in the abstract program (this is the shape `Reserve` had before the repair). -/
example : ∃ s, Reachable [[.access 0 false], [.lock 0, .access 0 true, .unlock 0]] s ∧ Race s := by
  let prog : List Body := [[.access 0 false], [.lock 0, .access 0 true, .unlock 0]]
  let s1 : State := { thr := LockSetProg.init.setThr 0 ⟨[], [.access 0 false]⟩, holder := LockSetProg.init.holder }
  let s2 : State := { thr := s1.setThr 1 ⟨[], [.lock 0, .access 0 true, .unlock 0]⟩, holder := s1.holder }
  let s3 : State := { thr := s2.setThr 1 ⟨[0], [.access 0 true, .unlock 0]⟩, holder := fun x => if x = 0 then some 1 else s2.holder x }
  have r1 : Reachable prog s1 := .step _ _ .init (Step.call LockSetProg.init 0 _ rfl (by simp [prog]))
  have r2 : Reachable prog s2 := .step _ _ r1 (Step.call s1 1 _ rfl (by simp [prog]))
  have r3 : Reachable prog s3 := .step _ _ r2 (Step.lock s2 1 0 _ rfl rfl)
  exact ⟨s3, r3, 0, 1, 0, false, true, [], [.unlock 0], by decide, rfl, rfl, Or.inr rfl⟩

/-! ### one `accountingPeer` record per peer: lookup and insertion in one `accountingPeersMu` region

The functional clauses treat the operations on one peer as atomic because they run under the lock
of THE record of that peer.  That needs `getAccountingPeer` to hand the same record to everybody:
its map lookup and the insertion of a new record must not be separated by a window in which
another goroutine can do the same.  The extractor regenerates the lock / lookup / insertion events
of `getAccountingPeer` (`Aurora/Generated/AccountingMapRegions.lean`). -/

/-- Clause 4c (**static obligation**, by evaluation of the regenerated list): in `getAccountingPeer`
    the locking pattern was recognised, every access of the `accountingPeers` map happens under
    `accountingPeersMu`, and the insertion `a.accountingPeers[k] = …` is preceded by a lookup in the
    same critical section (holding the mutex across the `RetrieveTraffic` call, or re-checking after
    re-locking, both satisfy this).  The seeded change C32-1 (unlock during `RetrieveTraffic`, insert
    without re-check) generates `[.lock 0, .access 0 false, .unlock 0, .lock 0, .access 0 true, .unlock 0]`
    and this fails. -/
theorem C32_get_peer_lookup_insert_one_region :
    Aurora.Generated.AccountingMapRegions.getAccountingPeer.1 = true ∧
    AtomicRegion.bodyOk Aurora.Generated.AccountingMapRegions.getAccountingPeer.2 = true ∧
    AtomicRegion.hasReadWrite Aurora.Generated.AccountingMapRegions.getAccountingPeer.2 = true := by
  decide

/-- Clause 4d (one record per peer): any number of goroutines running the extracted
    `getAccountingPeer` body on a peer without a record, in any interleaving: every caller that has
    got its answer got the SAME record, and that record is the one in the map — no Credit, Reserve or
    NotifyPayment can work on a private copy whose updates are lost. -/
theorem C32_one_record_per_peer (d : Option Nat) (s : AtomicRegion.St (Option Nat) Nat)
    (hr : AtomicRegion.Reach getOrCreate
            (fun _ => Aurora.Generated.AccountingMapRegions.getAccountingPeer.2) none d s) :
    (∀ x ∈ s.outs, ∀ y ∈ s.outs, x.2 = y.2) ∧ (∀ x ∈ s.outs, s.cell = some x.2) := by
  have hser := AtomicRegion.atomic_serial getOrCreate
    (fun _ => Aurora.Generated.AccountingMapRegions.getAccountingPeer.2)
    (fun _ => C32_get_peer_lookup_insert_one_region.2.1) none d s hr
  have hc : s.cell = (AtomicRegion.seqRun getOrCreate none s.log).1 := congrArg Prod.fst hser
  have ho : s.outs = (AtomicRegion.seqRun getOrCreate none s.log).2 := congrArg Prod.snd hser
  cases hl : s.log with
  | nil => rw [hl] at ho; simp [ho, AtomicRegion.seqRun]
  | cons t l =>
    rw [hl] at hc ho
    simp only [AtomicRegion.seqRun, getOrCreate] at hc ho
    have h := seqRun_getOrCreate_some t l
    have hall : ∀ x ∈ s.outs, x.2 = t := by
      intro x hx
      rw [ho] at hx
      rcases List.mem_cons.1 hx with e | e
      · rw [e]
      · exact h.2 x e
    refine ⟨fun x hx y hy => by rw [hall x hx, hall y hy], fun x hx => ?_⟩
    rw [hc, h.1, hall x hx]

/-- the discipline is needed: the shape of the seeded change C32-1 does not pass the check -/
example : AtomicRegion.bodyOk [.lock 0, .access 0 false, .unlock 0, .lock 0, .access 0 true, .unlock 0] = false := by
  decide
/-- … while re-checking after re-locking does -/
example : AtomicRegion.bodyOk [.lock 0, .access 0 false, .unlock 0, .lock 0, .access 0 false, .access 0 true, .unlock 0] = true := by
  decide

/-- non-vacuity / sanity of the functional clauses -/
example :
    let cfg : Cfg := ⟨1000, 100⟩
    let ops := [Op.credit 0 99 (some 0) false, .credit 1 500 (some 0) false, .credit 0 1 none false,
                .notify 0 150 none, .credit 0 7 none false]
    (run cfg init ops).unpaid 0 = some 7 ∧ (run cfg init ops).unpaid 1 = some 500 ∧
    (credit cfg (run cfg init (ops.take 2)) 0 1 none false).2.pays = 1 := by decide

end Aurora.Accounting
