import Aurora.Model.Bmt
/-! Helper lemmas for Props/C03 and C04 (core Lean only). -/
namespace Aurora.Bmt

variable (H : Bytes → Bytes)

theorem zeros_append (a b : Nat) : zeros a ++ zeros b = zeros (a + b) := by
  simp [zeros, List.replicate_append_replicate]

@[simp] theorem zeros_length (a : Nat) : (zeros a).length = a := by simp [zeros]

theorem take_zeros (a b : Nat) : (zeros b).take a = zeros (min a b) := by
  simp [zeros, List.take_replicate]

theorem drop_zeros (a b : Nat) : (zeros b).drop a = zeros (b - a) := by
  simp [zeros, List.drop_replicate]

/-- `zerohashes[i]` is the root of `2^i` zero segments. -/
theorem zerohash_eq (seg : Nat) (i : Nat) : zerohash H seg i = bmtRoot H seg i (zeros (seg * 2 ^ i)) := by
  induction i with
  | zero => simp [zerohash, bmtRoot]
  | succ i ih =>
    simp only [zerohash, bmtRoot, take_zeros, drop_zeros]
    have h1 : min (seg * 2 ^ i) (seg * 2 ^ (i + 1)) = seg * 2 ^ i := by
      rw [Nat.pow_succ]; apply Nat.min_eq_left; apply Nat.mul_le_mul_left; omega
    have h2 : seg * 2 ^ (i + 1) - seg * 2 ^ i = seg * 2 ^ i := by
      rw [Nat.pow_succ, ← Nat.mul_assoc, Nat.mul_two]; omega
    rw [h1, h2, ih]

/-! ### Merkle root over a list of digests -/

/-- top-down root over `2^d` leaf digests -/
def mroot : Nat → List Bytes → Bytes
  | 0, ls => ls.headD []
  | d + 1, ls => H (mroot d (ls.take (2 ^ d)) ++ mroot d (ls.drop (2 ^ d)))

/-- hash neighbours pairwise (even length) -/
def pairs : List Bytes → List Bytes
  | a :: b :: rest => H (a ++ b) :: pairs rest
  | _ => []

theorem pairs_take (n : Nat) (ls : List Bytes) : pairs H (ls.take (2 * n)) = (pairs H ls).take n := by
  induction n generalizing ls with
  | zero => simp [pairs]
  | succ n ih =>
    match ls with
    | [] => simp [pairs]
    | [a] =>
      have : 2 * (n + 1) = 2 * n + 1 + 1 := by omega
      rw [this]; simp [pairs]
    | a :: b :: rest =>
      have : 2 * (n + 1) = 2 * n + 1 + 1 := by omega
      rw [this]
      simp only [List.take_succ_cons, pairs]
      rw [ih]

theorem pairs_drop (n : Nat) (ls : List Bytes) (h : 2 * n ≤ ls.length) :
    pairs H (ls.drop (2 * n)) = (pairs H ls).drop n := by
  induction n generalizing ls with
  | zero => simp
  | succ n ih =>
    match ls with
    | [] => simp at h
    | [a] => simp at h; omega
    | a :: b :: rest =>
      have : 2 * (n + 1) = 2 * n + 1 + 1 := by omega
      rw [this]
      simp only [List.drop_succ_cons, pairs]
      apply ih
      simp at h; omega

theorem pairs_length (ls : List Bytes) : (pairs H ls).length = ls.length / 2 := by
  match ls with
  | [] => simp [pairs]
  | [a] => simp [pairs]
  | a :: b :: rest =>
    simp only [pairs, List.length_cons]
    rw [pairs_length rest]; omega

theorem mroot_succ_pairs (d : Nat) (ls : List Bytes) (h : ls.length = 2 ^ (d + 1)) :
    mroot H (d + 1) ls = mroot H d (pairs H ls) := by
  induction d generalizing ls with
  | zero =>
    match ls, h with
    | [a, b], _ => simp [mroot, pairs]
  | succ d ih =>
    have hp : (2:Nat) ^ (d + 1) = 2 * 2 ^ d := by rw [Nat.pow_succ]; omega
    have hp2 : (2:Nat) ^ (d + 1 + 1) = 2 * 2 ^ (d + 1) := by rw [Nat.pow_succ]; omega
    have e1 : mroot H (d + 1 + 1) ls
        = H (mroot H (d + 1) (ls.take (2 ^ (d + 1))) ++ mroot H (d + 1) (ls.drop (2 ^ (d + 1)))) := rfl
    have e2 : mroot H (d + 1) (pairs H ls)
        = H (mroot H d ((pairs H ls).take (2 ^ d)) ++ mroot H d ((pairs H ls).drop (2 ^ d))) := rfl
    rw [e1, e2]
    rw [ih (ls.take (2 ^ (d + 1))) (by simp [h]; omega), ih (ls.drop (2 ^ (d + 1))) (by simp [h]; omega)]
    rw [hp, pairs_take, pairs_drop H _ _ (by omega)]

theorem pairs_replicate (k : Nat) (z : Bytes) :
    pairs H (List.replicate (2 * k) z) = List.replicate k (H (z ++ z)) := by
  induction k with
  | zero => simp [pairs]
  | succ k ih =>
    have : 2 * (k + 1) = 2 * k + 1 + 1 := by omega
    rw [this]
    simp only [List.replicate_succ, pairs]
    rw [ih]

theorem levelUp_length (zh : Bytes) (vals : List Bytes) : (levelUp H zh vals).length = (vals.length + 1) / 2 := by
  match vals with
  | [] => simp [levelUp]
  | [a] => simp [levelUp]
  | a :: b :: rest =>
    simp only [levelUp, List.length_cons]
    rw [levelUp_length zh rest]; omega

/-- pairing a zero-padded level = `levelUp` followed by the padding one level up -/
theorem pairs_pad (z : Bytes) (vals : List Bytes) (m : Nat) (h : vals.length ≤ 2 * m) :
    pairs H (vals ++ List.replicate (2 * m - vals.length) z)
      = levelUp H z vals ++ List.replicate (m - (vals.length + 1) / 2) (H (z ++ z)) := by
  match vals with
  | [] => simp [levelUp, pairs_replicate]
  | [a] =>
    simp only [List.length_singleton] at h ⊢
    have : 2 * m - 1 = 2 * (m - 1) + 1 := by omega
    rw [this]
    simp only [List.replicate_succ, List.singleton_append, pairs, levelUp, pairs_replicate]
  | a :: b :: rest =>
    simp only [List.length_cons] at h ⊢
    simp only [List.cons_append, pairs, levelUp]
    have ih := pairs_pad z rest (m - 1) (by omega)
    have e1 : 2 * m - (rest.length + 1 + 1) = 2 * (m - 1) - rest.length := by omega
    have e2 : m - (rest.length + 1 + 1 + 1) / 2 = m - 1 - (rest.length + 1) / 2 := by omega
    rw [e1, e2, ih]

theorem iterUp_eq (seg : Nat) (d lvl : Nat) (vals : List Bytes) (h1 : 1 ≤ vals.length) (h2 : vals.length ≤ 2 ^ d) :
    iterUp H seg d lvl vals
      = [mroot H d (vals ++ List.replicate (2 ^ d - vals.length) (zerohash H seg lvl))] := by
  induction d generalizing lvl vals with
  | zero =>
    match vals, h1, h2 with
    | [a], _, _ => simp [iterUp, mroot]
  | succ d ih =>
    simp only [iterUp]
    have hp : (2:Nat) ^ (d + 1) = 2 * 2 ^ d := by rw [Nat.pow_succ]; omega
    have hl := levelUp_length H (zerohash H seg lvl) vals
    rw [ih (lvl + 1) _ (by rw [hl]; omega) (by rw [hl]; omega)]
    rw [mroot_succ_pairs H d _ (by simp; omega)]
    rw [hp, pairs_pad H _ _ _ (by omega), hl]
    rfl

end Aurora.Bmt

namespace Aurora.Bmt
variable (H : Bytes → Bytes)

/-- the first `n` sections of a buffer -/
def sects (seg n : Nat) (x : Bytes) : List Bytes := (List.range n).map (sect seg x)

@[simp] theorem sects_length (seg n : Nat) (x : Bytes) : (sects seg n x).length = n := by simp [sects]

theorem sect_take (seg : Nat) (x : Bytes) (i n : Nat) (h : (i + 1) * (2 * seg) ≤ n) :
    sect seg (x.take n) i = sect seg x i := by
  unfold sect
  rw [List.drop_take, List.take_take]
  have : min (2 * seg) (n - i * (2 * seg)) = 2 * seg := by
    apply Nat.min_eq_left
    rw [Nat.add_mul] at h; omega
  rw [this]

theorem sect_drop (seg : Nat) (x : Bytes) (j k : Nat) :
    sect seg (x.drop (k * (2 * seg))) j = sect seg x (k + j) := by
  unfold sect
  rw [List.drop_drop, Nat.add_mul]

theorem sects_add (seg a b : Nat) (x : Bytes) :
    sects seg (a + b) x = sects seg a (x.take (a * (2 * seg))) ++ sects seg b (x.drop (a * (2 * seg))) := by
  unfold sects
  rw [List.range_add, List.map_append, List.map_map]
  congr 1
  · apply List.map_congr_left
    intro i hi
    rw [List.mem_range] at hi
    rw [sect_take]
    apply Nat.mul_le_mul_right; omega
  · apply List.map_congr_left
    intro j _
    simp only [Function.comp]
    rw [sect_drop]

theorem bmtRoot_eq_mroot (seg d : Nat) (x : Bytes) (hx : x.length = 2 * seg * 2 ^ d) :
    bmtRoot H seg (d + 1) x = mroot H d ((sects seg (2 ^ d) x).map H) := by
  induction d generalizing x with
  | zero =>
    simp only [bmtRoot, Nat.pow_zero, Nat.mul_one, mroot, sects, List.range_one, List.map_cons,
      List.map_nil, List.headD_cons, sect, Nat.zero_mul, List.drop_zero]
    rw [List.take_append_drop]
    congr 1
    rw [List.take_of_length_le]; omega
  | succ d ih =>
    have hp : (2:Nat) ^ (d + 1) = 2 ^ d + 2 ^ d := by rw [Nat.pow_succ]; omega
    have hh : seg * 2 ^ (d + 1) = 2 ^ d * (2 * seg) := by
      rw [Nat.pow_succ, Nat.mul_comm (2 ^ d) 2, ← Nat.mul_assoc, Nat.mul_comm seg 2, Nat.mul_comm]
    have e1 : bmtRoot H seg (d + 1 + 1) x
        = H (bmtRoot H seg (d + 1) (x.take (seg * 2 ^ (d + 1))) ++ bmtRoot H seg (d + 1) (x.drop (seg * 2 ^ (d + 1)))) := rfl
    have hlen : seg * 2 ^ (d + 1) = 2 * seg * 2 ^ d := by
      rw [Nat.pow_succ, Nat.mul_comm (2 ^ d) 2, ← Nat.mul_assoc, Nat.mul_comm seg 2]
    have hx' : x.length = 2 * seg * 2 ^ d + 2 * seg * 2 ^ d := by
      rw [hx, Nat.pow_succ, ← Nat.mul_assoc, Nat.mul_two]
    rw [e1, ih (x.take (seg * 2 ^ (d + 1))) (by rw [List.length_take, hlen]; omega),
      ih (x.drop (seg * 2 ^ (d + 1))) (by rw [List.length_drop, hlen]; omega)]
    have e2 : mroot H (d + 1) ((sects seg (2 ^ (d + 1)) x).map H)
        = H (mroot H d (((sects seg (2 ^ (d + 1)) x).map H).take (2 ^ d))
           ++ mroot H d (((sects seg (2 ^ (d + 1)) x).map H).drop (2 ^ d))) := rfl
    have hA : sects seg (2 ^ (d + 1)) x
        = sects seg (2 ^ d) (x.take (seg * 2 ^ (d + 1))) ++ sects seg (2 ^ d) (x.drop (seg * 2 ^ (d + 1))) :=
      calc sects seg (2 ^ (d + 1)) x = sects seg (2 ^ d + 2 ^ d) x := by rw [← hp]
        _ = _ := by rw [sects_add, hh]
    rw [e2, hA, List.map_append]
    rw [List.take_left' (by simp), List.drop_left' (by simp)]

end Aurora.Bmt

namespace Aurora.Bmt
variable (H : Bytes → Bytes)

theorem sects_succ (seg n : Nat) (x : Bytes) : sects seg (n + 1) x = sects seg n x ++ [sect seg x n] := by
  simp [sects, List.range_succ]

theorem sects_add' (seg a b : Nat) (x : Bytes) :
    sects seg (a + b) x = sects seg a x ++ (List.range b).map (fun j => sect seg x (a + j)) := by
  unfold sects
  rw [List.range_add, List.map_append, List.map_map]
  rfl

/-- sections entirely below a common prefix agree -/
theorem sect_eq_of_take_eq (seg : Nat) (x y : Bytes) (n i : Nat) (h : x.take n = y.take n)
    (hi : (i + 1) * (2 * seg) ≤ n) : sect seg x i = sect seg y i := by
  rw [← sect_take seg x i n hi, ← sect_take seg y i n hi, h]

theorem sects_eq_of_take_eq (seg : Nat) (x y : Bytes) (n k : Nat) (h : x.take n = y.take n)
    (hk : k * (2 * seg) ≤ n) : sects seg k x = sects seg k y := by
  unfold sects
  apply List.map_congr_left
  intro i hi
  rw [List.mem_range] at hi
  apply sect_eq_of_take_eq seg x y n i h
  calc (i + 1) * (2 * seg) ≤ k * (2 * seg) := Nat.mul_le_mul_right _ (by omega)
    _ ≤ n := hk

theorem copyAt_length (dst src : Bytes) (a : Nat) (ha : a ≤ dst.length) :
    (copyAt dst a src).length = dst.length := by
  unfold copyAt
  simp only [List.length_append, List.length_take, List.length_drop]
  omega

theorem copyAt_take (dst src : Bytes) (a : Nat) (ha : a ≤ dst.length) :
    (copyAt dst a src).take (a + min src.length (dst.length - a)) = dst.take a ++ src.take (dst.length - a) := by
  unfold copyAt
  rw [List.take_left']
  simp only [List.length_append, List.length_take]
  omega

theorem copyAt_take_le (dst src : Bytes) (a : Nat) (ha : a ≤ dst.length) :
    (copyAt dst a src).take a = dst.take a := by
  unfold copyAt
  rw [List.append_assoc, List.take_left']
  simp only [List.length_take]; omega

/-- Bookkeeping invariant of the hasher after the writes `data` (concatenated) on a tree whose
    buffer held arbitrary stale bytes. -/
structure Inv (seg d : Nat) (h : Hasher) (data : Bytes) : Prop where
  blen : h.buffer.length = maxSize seg d
  size : h.size = min data.length (maxSize seg d)
  pref : h.buffer.take h.size = data.take (maxSize seg d)
  pos  : h.pos = if h.size = maxSize seg d then 2 ^ d - 1 else h.size / (2 * seg)
  leafs : h.leafs = (sects seg h.pos h.buffer).map H

theorem maxSize_pos (seg d : Nat) (hs : 0 < seg) : 0 < maxSize seg d := by
  unfold maxSize
  have : 0 < 2 ^ d := Nat.two_pow_pos d
  exact Nat.mul_pos (by omega) this

theorem Inv_get (seg d : Nat) (buf : Bytes) (hb : buf.length = maxSize seg d) (hs : 0 < seg) :
    Inv H seg d (Hasher.get buf) [] := by
  have hM := maxSize_pos seg d hs
  refine ⟨hb, by simp [Hasher.get], by simp [Hasher.get], ?_, by simp [Hasher.get, sects]⟩
  simp only [Hasher.get]
  have : ¬ (0 = maxSize seg d) := by omega
  simp [this]

theorem Inv_pos_le (seg d : Nat) (h : Hasher) (data : Bytes) (hs : 0 < seg) (inv : Inv H seg d h data) :
    h.pos * (2 * seg) ≤ h.size ∧ h.pos + 1 ≤ 2 ^ d ∧ h.size ≤ maxSize seg d ∧
    (h.size < maxSize seg d → h.size < (h.pos + 1) * (2 * seg)) ∧
    (h.size = maxSize seg d → (h.pos + 1) * (2 * seg) = maxSize seg d) := by
  have hw : 0 < 2 * seg := by omega
  have hS : 0 < 2 ^ d := Nat.two_pow_pos d
  have hsz : h.size ≤ maxSize seg d := by rw [inv.size]; exact Nat.min_le_right _ _
  have hM : maxSize seg d = 2 * seg * 2 ^ d := rfl
  rw [inv.pos]
  by_cases hfull : h.size = maxSize seg d
  · simp only [hfull, if_true]
    have e : (2 ^ d - 1 + 1) * (2 * seg) = maxSize seg d := by
      rw [Nat.sub_add_cancel hS, hM, Nat.mul_comm]
    have e' : (2 ^ d - 1) * (2 * seg) + 2 * seg = maxSize seg d := by
      rw [← e, Nat.add_mul, Nat.one_mul]
    refine ⟨by omega, by omega, by omega, by omega, fun _ => e⟩
  · simp only [hfull, if_false]
    have hlt : h.size < 2 * seg * 2 ^ d := by omega
    have h1 : h.size / (2 * seg) < 2 ^ d := Nat.div_lt_of_lt_mul hlt
    have h2 : h.size / (2 * seg) * (2 * seg) ≤ h.size := Nat.div_mul_le_self _ _
    have h3 : h.size < (h.size / (2 * seg) + 1) * (2 * seg) := by
      rw [Nat.mul_comm]; exact Nat.lt_mul_div_succ _ hw
    refine ⟨h2, by omega, hsz, fun _ => h3, fun hh => hh.elim⟩

end Aurora.Bmt

namespace Aurora.Bmt
variable (H : Bytes → Bytes)

theorem chunkList_eq (seg : Nat) (n a : Nat) (buf : Bytes) :
    chunkList (2 * seg) n (buf.drop (a * (2 * seg)))
      = (List.range n).map (fun j => sect seg buf (a + j)) := by
  induction n generalizing a with
  | zero => simp [chunkList]
  | succ n ih =>
    rw [List.range_succ_eq_map, List.map_cons, List.map_map]
    simp only [chunkList]
    congr 1
    rw [List.drop_drop]
    have : a * (2 * seg) + 2 * seg = (a + 1) * (2 * seg) := by rw [Nat.add_mul, Nat.one_mul]
    rw [this, ih (a + 1)]
    apply List.map_congr_left
    intro j _
    simp only [Function.comp]
    congr 1; omega

theorem Inv_write (seg d : Nat) (h : Hasher) (data b : Bytes) (hs : 0 < seg) (inv : Inv H seg d h data) :
    Inv H seg d (h.write H seg b).1 (data ++ b) := by
  obtain ⟨hpos1, hpos2, hsz, hlt, hfull⟩ := Inv_pos_le H seg d h data hs inv
  have hw : 0 < 2 * seg := by omega
  have hM : maxSize seg d = 2 * seg * 2 ^ d := rfl
  have hdiv : maxSize seg d / (2 * seg) = 2 ^ d := by rw [hM]; exact Nat.mul_div_cancel_left _ hw
  have hbl := inv.blen
  -- abbreviations
  have hbuf' : (copyAt h.buffer h.size b).length = maxSize seg d := by
    rw [copyAt_length _ _ _ (by omega), hbl]
  have hpre : (copyAt h.buffer h.size b).take h.size = h.buffer.take h.size :=
    copyAt_take_le _ _ _ (by omega)
  have hl : min b.length (h.buffer.length - h.size) = min b.length (maxSize seg d - h.size) := by rw [hbl]
  constructor
  · exact hbuf'
  · show h.size + min b.length (h.buffer.length - h.size) = min (data ++ b).length (maxSize seg d)
    rw [hbl, inv.size, List.length_append]; omega
  · show (copyAt h.buffer h.size b).take (h.size + min b.length (h.buffer.length - h.size)) = _
    rw [copyAt_take _ _ _ (by omega), inv.pref, hbl]
    by_cases hd : data.length ≤ maxSize seg d
    · have e : h.size = data.length := by rw [inv.size]; omega
      rw [List.take_of_length_le hd, List.take_append, e]
      congr 1
      rw [List.take_of_length_le hd]
    · have e : h.size = maxSize seg d := by rw [inv.size]; omega
      rw [e, Nat.sub_self, List.take_zero, List.append_nil, List.take_append_of_le_length (by omega)]
  · show (if min b.length (h.buffer.length - h.size) = h.buffer.length - h.size
          then (h.size + min b.length (h.buffer.length - h.size)) / (2 * seg) - 1
          else (h.size + min b.length (h.buffer.length - h.size)) / (2 * seg))
        = if h.size + min b.length (h.buffer.length - h.size) = maxSize seg d then 2 ^ d - 1
          else (h.size + min b.length (h.buffer.length - h.size)) / (2 * seg)
    rw [hbl]
    by_cases hc : min b.length (maxSize seg d - h.size) = maxSize seg d - h.size
    · have : h.size + min b.length (maxSize seg d - h.size) = maxSize seg d := by omega
      rw [if_pos hc, if_pos this, this, hdiv]
    · have : ¬ (h.size + min b.length (maxSize seg d - h.size) = maxSize seg d) := by omega
      rw [if_neg hc, if_neg this]
  · -- leafs
    have hspawn : (h.write H seg b).1.leafs = h.leafs ++ (List.range ((if min b.length (h.buffer.length - h.size) = h.buffer.length - h.size
            then (h.size + min b.length (h.buffer.length - h.size)) / (2 * seg) - 1
            else (h.size + min b.length (h.buffer.length - h.size)) / (2 * seg)) - h.size / (2 * seg))).map
          (fun j => H (sect seg (copyAt h.buffer h.size b) (h.size / (2 * seg) + j))) := by
      show h.leafs ++ (chunkList (2 * seg) _ ((copyAt h.buffer h.size b).drop (h.size / (2 * seg) * (2 * seg)))).map H = _
      rw [chunkList_eq, List.map_map]
      rfl
    rw [hspawn]
    show h.leafs ++ (List.range ((if min b.length (h.buffer.length - h.size) = h.buffer.length - h.size
            then (h.size + min b.length (h.buffer.length - h.size)) / (2 * seg) - 1
            else (h.size + min b.length (h.buffer.length - h.size)) / (2 * seg)) - h.size / (2 * seg))).map
          (fun j => H (sect seg (copyAt h.buffer h.size b) (h.size / (2 * seg) + j)))
        = (sects seg (if min b.length (h.buffer.length - h.size) = h.buffer.length - h.size
            then (h.size + min b.length (h.buffer.length - h.size)) / (2 * seg) - 1
            else (h.size + min b.length (h.buffer.length - h.size)) / (2 * seg)) (copyAt h.buffer h.size b)).map H
    rw [hbl, inv.leafs]
    generalize hto : (if min b.length (maxSize seg d - h.size) = maxSize seg d - h.size
            then (h.size + min b.length (maxSize seg d - h.size)) / (2 * seg) - 1
            else (h.size + min b.length (maxSize seg d - h.size)) / (2 * seg)) = to_
    have hold : sects seg h.pos h.buffer = sects seg h.pos (copyAt h.buffer h.size b) :=
      sects_eq_of_take_eq seg _ _ h.size h.pos hpre.symm hpos1
    rw [hold]
    by_cases hf : h.size = maxSize seg d
    · -- buffer already full: nothing is spawned, `to_ = pos`
      have hp : h.pos = 2 ^ d - 1 := by rw [inv.pos, if_pos hf]
      have hto' : to_ = 2 ^ d - 1 := by
        rw [← hto, hf, Nat.sub_self, Nat.min_zero, if_pos rfl, Nat.add_zero, hdiv]
      have : to_ - h.size / (2 * seg) = 0 := by rw [hto', hf, hdiv]; omega
      rw [this, hto', hp]; simp
    · have hp : h.pos = h.size / (2 * seg) := by rw [inv.pos, if_neg hf]
      have hge : h.size / (2 * seg) ≤ to_ := by
        rw [← hto]
        split
        · rename_i hc
          have : h.size + min b.length (maxSize seg d - h.size) = maxSize seg d := by omega
          rw [this, hdiv]; omega
        · apply Nat.div_le_div_right; omega
      have e : to_ = h.pos + (to_ - h.size / (2 * seg)) := by omega
      conv => rhs; rw [e, sects_add', List.map_append, List.map_map]
      rw [hp]
      rfl

end Aurora.Bmt

namespace Aurora.Bmt
variable (H : Bytes → Bytes)

theorem sect_zeros_tail (seg : Nat) (D : Bytes) (M j : Nat) (hD : D.length ≤ j * (2 * seg))
    (hj : (j + 1) * (2 * seg) ≤ M) : sect seg (D ++ zeros (M - D.length)) j = zeros (2 * seg) := by
  unfold sect
  rw [List.drop_append, List.drop_eq_nil_of_le hD, List.nil_append, drop_zeros, take_zeros]
  congr 1
  rw [Nat.add_mul] at hj
  omega

/-- `Hash` on a hasher satisfying the invariant returns the specified BMT hash of the data
    offered so far (truncated to the capacity). -/
theorem hash_correct (seg d : Nat) (h : Hasher) (data : Bytes) (hs : 0 < seg) (inv : Inv H seg d h data) :
    (h.hash H seg d).1 = bmtHash H seg d h.span (data.take (maxSize seg d)) := by
  obtain ⟨hpos1, hpos2, hsz, hlt, hfull⟩ := Inv_pos_le H seg d h data hs inv
  have hw : 0 < 2 * seg := by omega
  have hM : maxSize seg d = 2 * seg * 2 ^ d := rfl
  have hbl := inv.blen
  unfold Hasher.hash bmtHash
  by_cases h0 : h.size = 0
  · -- empty data: the zero-hash table entry
    rw [if_pos h0]
    have hd : data.take (maxSize seg d) = [] := by
      rw [← inv.pref, h0]; rfl
    rw [hd]
    simp only [pad, List.nil_append, List.length_nil, Nat.sub_zero]
    rw [zerohash_eq, hM]
    congr 3
    rw [Nat.pow_succ, Nat.mul_comm (2 ^ d) 2, ← Nat.mul_assoc, Nat.mul_comm seg 2]
  · rw [if_neg h0]
    simp only
    congr 2
    -- P = zero padded data
    have hDlen : (data.take (maxSize seg d)).length = h.size := by
      rw [List.length_take, inv.size, Nat.min_comm]
    have hP : pad (maxSize seg d) (data.take (maxSize seg d))
        = data.take (maxSize seg d) ++ zeros (maxSize seg d - h.size) := by
      unfold pad; rw [hDlen]
    have hPlen : (pad (maxSize seg d) (data.take (maxSize seg d))).length = maxSize seg d := by
      rw [hP, List.length_append, hDlen, zeros_length]; omega
    -- the zeroed buffer agrees with P on the first (pos+1) sections
    let n := h.size + min (2 * seg) (maxSize seg d - h.size)
    have hbuf : (copyAt h.buffer h.size (zeros (2 * seg))).take n
        = (pad (maxSize seg d) (data.take (maxSize seg d))).take n := by
      have := copyAt_take h.buffer (zeros (2 * seg)) h.size (by omega)
      rw [zeros_length, hbl] at this
      show (copyAt h.buffer h.size (zeros (2 * seg))).take (h.size + min (2 * seg) (maxSize seg d - h.size)) = _
      have hT : (data.take (maxSize seg d)).take (h.size + min (2 * seg) (maxSize seg d - h.size))
          = data.take (maxSize seg d) := List.take_of_length_le (by rw [hDlen]; omega)
      rw [this, inv.pref, hP, List.take_append, hT, hDlen, take_zeros, take_zeros]
      congr 2
      omega
    have hn : (h.pos + 1) * (2 * seg) ≤ n := by
      show (h.pos + 1) * (2 * seg) ≤ h.size + min (2 * seg) (maxSize seg d - h.size)
      by_cases hf : h.size = maxSize seg d
      · have := hfull hf; omega
      · have h1 := hlt (by omega)
        have h2 : (h.pos + 1) * (2 * seg) ≤ maxSize seg d := by
          rw [hM, Nat.mul_comm (2 * seg)]; exact Nat.mul_le_mul_right _ hpos2
        rw [Nat.add_mul] at h1 h2 ⊢
        omega
    have hleafs : h.leafs ++ [H (sect seg (copyAt h.buffer h.size (zeros (2 * seg))) h.pos)]
        = (sects seg (h.pos + 1) (pad (maxSize seg d) (data.take (maxSize seg d)))).map H := by
      rw [inv.leafs, sects_succ, List.map_append]
      have hn' : h.pos * (2 * seg) ≤ n := by rw [Nat.add_mul] at hn; omega
      have e1 : sects seg h.pos h.buffer
          = sects seg h.pos (pad (maxSize seg d) (data.take (maxSize seg d))) := by
        rw [sects_eq_of_take_eq seg h.buffer (copyAt h.buffer h.size (zeros (2 * seg))) h.size h.pos
          (copyAt_take_le _ _ _ (by omega)).symm hpos1]
        exact sects_eq_of_take_eq seg _ _ n h.pos hbuf hn'
      rw [e1, sect_eq_of_take_eq seg _ _ n h.pos hbuf hn]
      rfl
    rw [hleafs]
    -- the remaining sections of P are zero sections
    have hrest : sects seg (2 ^ d) (pad (maxSize seg d) (data.take (maxSize seg d)))
        = sects seg (h.pos + 1) (pad (maxSize seg d) (data.take (maxSize seg d)))
          ++ List.replicate (2 ^ d - (h.pos + 1)) (zeros (2 * seg)) := by
      have e : 2 ^ d = (h.pos + 1) + (2 ^ d - (h.pos + 1)) := by omega
      conv => lhs; rw [e, sects_add']
      congr 1
      rw [List.eq_replicate_iff]
      refine ⟨by simp, ?_⟩
      intro x hx
      rw [List.mem_map] at hx
      obtain ⟨j, hj, rfl⟩ := hx
      rw [List.mem_range] at hj
      rw [hP, ← hDlen]
      apply sect_zeros_tail
      · rw [hDlen]
        by_cases hf : h.size = maxSize seg d
        · have := hfull hf; rw [Nat.add_mul]; omega
        · have h1 := hlt (by omega); rw [Nat.add_mul]; omega
      · have : h.pos + 1 + j + 1 ≤ 2 ^ d := by omega
        calc (h.pos + 1 + j + 1) * (2 * seg) ≤ 2 ^ d * (2 * seg) := Nat.mul_le_mul_right _ this
          _ = maxSize seg d := by rw [hM, Nat.mul_comm]
    have hz1 : zerohash H seg 1 = H (zeros (2 * seg)) := by
      simp only [zerohash, zeros_append]; congr 2; omega
    rw [iterUp_eq H seg d 1 _ (by simp) (by simp; omega)]
    simp only [List.headD_cons, List.length_map, sects_length]
    rw [bmtRoot_eq_mroot H seg d _ hPlen, hrest, List.map_append, List.map_replicate, hz1]

end Aurora.Bmt
