// Package c06: correspondence + oracle for "only valid chunks are accepted from peers" (C06):
// retrieval.Service (real service, fake streamer/accounting/chunkinfo/route table/store) and
// traversal.GetChunkHashes with a supplied pyramid (map built as chunkinfo.onChunkPyramidResp does).
package c06

import (
	"bytes"
	"context"
	"crypto/elliptic"
	"errors"
	"fmt"
	"io"
	"sort"
	"strconv"
	"strings"
	"sync"
	"time"

	"github.com/btcsuite/btcd/btcec"
	"github.com/gauss-project/aurorafs/pkg/aurora"
	"github.com/gauss-project/aurorafs/pkg/boson"
	"github.com/gauss-project/aurorafs/pkg/cac"
	"github.com/gauss-project/aurorafs/pkg/chunkinfo"
	"github.com/gauss-project/aurorafs/pkg/crypto"
	"github.com/gauss-project/aurorafs/pkg/logging"
	"github.com/gauss-project/aurorafs/pkg/p2p"
	"github.com/gauss-project/aurorafs/pkg/p2p/protobuf"
	"github.com/gauss-project/aurorafs/pkg/retrieval"
	"github.com/gauss-project/aurorafs/pkg/retrieval/aco"
	"github.com/gauss-project/aurorafs/pkg/retrieval/pb"
	"github.com/gauss-project/aurorafs/pkg/routetab"
	"github.com/gauss-project/aurorafs/pkg/soc"
	"github.com/gauss-project/aurorafs/pkg/storage"
	"github.com/gauss-project/aurorafs/pkg/subscribe"
	"github.com/gauss-project/aurorafs/pkg/traversal"

	"verifharness/core"
	"verifharness/refimpl"
)

type prop struct{}

func init() { core.Register(prop{}) }

func (prop) ID() string { return "C06" }
func (prop) Rule() string {
	return "delivery cases: a content chunk (payload 1..300, 4096, C) or a single-owner chunk signed with a real key, or an arbitrary (address,bytes) pair, is requested through the real retrieval.Service " +
		"(RetrieveChunkFromNode = 'deliver', RetrieveChunk with one chunkinfo route = 'deliver2', the forwarding stream handler = 'forward') from a fake peer that replies with the honest data or with " +
		"truncated / extended (+1..+64, zero byte, past C+8) / bit-flipped data, data of another address, a flipped address, or an oversized payload whose first C+8 bytes hash to the address; accounting credit and the chunkinfo report may fail. " +
		"pyramid cases: named chunks build honest file trees (1 leaf; 2..3 leaves with full first leaves) and GetChunkHashes is called with the honest map or with extra (valid / invalid), missing, altered (data or key), short, duplicate-key, zero-padded, span-lying, " +
		"wrong-key-length entries, a zero-padded intermediate root, and oversized-but-hash-matching entries (as extra entry, as leaf, as root); adversarial multi-entry cases (a*, am*, fix-pyramid-altered-not-last): the honest tree padded with valid unreachable entries to 2..12 entries, then variants with one or two bad entries at a random list position (payload byte of root / full leaf / last leaf altered, one span bit cleared, intermediate chunk with swapped or repeated references, altered unreachable extra, a valid chunk of the map under a reachable address, extension by non-zero bytes, an invalid entry under a random key). " +
		"Every `pyr` op submits its pyramid 12 times, each time as a freshly built map with the insertion order rotated by one more entry (Go visits a small map in a rotation of its insertion order), into a fresh store: every trial is judged by the oracle, all trials must answer alike (else `unstable […]`). Every Put is observed. " +
		"Non-trivial: at least one delivery/pyramid op with adversarial (non-honest) content; distinct by op-list hash. Not generated: mantaray manifests as pyramid root, intermediate chunks whose length is not a multiple of 32, spans >= 2^56 (joiner int64 overflow: endless loop), trees of height >= 2."
}

const C = boson.ChunkSize

// pyrTrials: how often one `pyr` op submits its pyramid (see runner.pyr)
const pyrTrials = 12

// ---------------------------------------------------------------- generator

type gen struct {
	r *core.Rand
	c *core.Case
}

func (g *gen) op(f string, a ...interface{}) { g.c.Ops = append(g.c.Ops, fmt.Sprintf(f, a...)) }

func (g *gen) flags() string {
	switch g.r.Intn(12) {
	case 0:
		return "0 1"
	case 1:
		return "1 0"
	}
	return "1 1"
}
func (g *gen) deliver() {
	switch g.r.Intn(8) {
	case 0, 1:
		g.op("deliver2 %s", g.flags())
	case 2:
		g.op("forward %s", g.flags())
	default:
		g.op("deliver %s", g.flags())
	}
}

func (g *gen) deliveryCase(big bool) {
	r := g.r
	l := r.Range(1, 300)
	switch r.Intn(8) {
	case 0:
		l = 1
	case 1:
		l = 4096
	}
	if big {
		l = r.Pick([]int{C, C, C - 1})
	}
	src := fmt.Sprintf("g:%d:%d", r.Intn(1000), l)
	if l > 70000 {
		src = fmt.Sprintf("p:%d:%d:%d", r.Intn(1000), l, r.Range(100, 3000))
	}
	isSoc := !big && r.Chance(35)
	total := l + 8
	if isSoc {
		g.op("soc %s %s %s", core.Hex(r.Bytes(32)), core.Hex(r.Bytes(32)), src)
		total = l + 105
	} else {
		g.op("new %s", src)
	}
	g.deliver()
	k := r.Range(2, 6)
	if big {
		k = 2
	}
	for j := 0; j < k; j++ {
		x := 1 << uint(r.Intn(8))
		switch r.Intn(9) {
		case 0, 1:
			pos := r.Intn(total)
			if r.Chance(30) {
				pos = r.Pick([]int{0, 7, 8, total - 1, 31, 32, 96, 97, 104})
			}
			g.op("mutd %d %d", pos, x)
			g.deliver()
			g.op("mutd %d %d", pos, x)
		case 2:
			pos := r.Intn(32)
			g.op("muta %d %d", pos, x)
			g.deliver()
			g.op("muta %d %d", pos, x)
		case 3:
			g.op("extend h:%s", core.Hex(r.Bytes(r.Range(1, 64))))
			g.deliver()
			g.op("trunc %d", total)
		case 4:
			g.op("extend h:00") // zero padding keeps the BMT address: still a valid chunk unless past C+8
			g.deliver()
			g.op("trunc %d", total)
		case 5:
			if !big {
				g.op("trunc %d", r.Pick([]int{0, 7, 8, total - 1, total / 2, 104, 105}))
				g.deliver()
				return
			}
		case 6:
			if big {
				g.op("extend g:%d:%d", r.Intn(100), r.Pick([]int{1, 8, 64}))
				g.deliver()
				g.op("trunc %d", total)
			}
		default:
			g.deliver()
		}
	}
}

// a (address, data) pair that is not what the address commits to
func (g *gen) foreignCase() {
	r := g.r
	a := r.Bytes(r.Range(1, 200))
	b := r.Bytes(r.Range(1, 200))
	pa := append(le64(uint64(len(a))), a...)
	pb := append(le64(uint64(len(b))), b...)
	g.op("set %s h:%s", core.Hex(refimpl.Bmt(pa)), core.Hex(pb)) // payload of another address
	g.deliver()
	g.op("set %s h:%s", core.Hex(refimpl.Bmt(pa)), core.Hex(pa)) // and the right one
	g.deliver()
	g.op("set %s h:%s", core.Hex(r.Bytes(r.Pick([]int{32, 32, 0, 20}))), core.Hex(r.Bytes(r.Pick([]int{0, 5, 8, 9, 104, 105, 150}))))
	g.deliver()
}

// oversized payload whose first C+8 bytes hash to the requested address
func (g *gen) oversizeDelivery() {
	r := g.r
	seed, per := r.Intn(1000), r.Range(100, 3000)
	p := append(le64(C), core.GenBytes(uint64(seed), C, per)...)
	g.op("setx %s s%d+p:%d:%d:%d+h:%s", core.Hex(refimpl.Bmt(p)), C, seed, C, per, core.Hex(r.Bytes(r.Pick([]int{1, 8, 32}))))
	g.deliver()
}

func le64(n uint64) []byte {
	b := make([]byte, 8)
	for i := range b {
		b[i] = byte(n >> (8 * uint(i)))
	}
	return b
}

// pyramid cases -----------------------------------------------------------

type pent struct{ k, v string }

func (g *gen) pyr(root string, es []pent) {
	s := "pyr " + root
	for _, e := range es {
		s += " " + e.k + "=" + e.v
	}
	g.c.Ops = append(g.c.Ops, s)
}

// honest file tree: returns root name and entries
func (g *gen) file(leaves int, lastLen int) (string, []pent, []string) {
	r := g.r
	var es []pent
	var names []string
	if leaves == 1 {
		g.op("def f s%d+g:%d:%d", lastLen, r.Intn(1000), lastLen)
		return "f", []pent{{"#f", "@f"}}, []string{"f"}
	}
	rootE := fmt.Sprintf("s%d", (leaves-1)*C+lastLen)
	for i := 0; i < leaves; i++ {
		nm := fmt.Sprintf("l%d", i)
		if i < leaves-1 {
			g.op("def %s s%d+p:%d:%d:%d", nm, C, r.Intn(1000), C, r.Range(100, 3000))
		} else {
			g.op("def %s s%d+g:%d:%d", nm, lastLen, r.Intn(1000), lastLen)
		}
		rootE += "+#" + nm
		es = append(es, pent{"#" + nm, "@" + nm})
		names = append(names, nm)
	}
	g.op("def f %s", rootE)
	es = append([]pent{{"#f", "@f"}}, es...)
	return "f", es, append([]string{"f"}, names...)
}

// altPos: a payload position below n (> 8) to alter — never a span byte: an altered entry that a changed
// GetChunkHashes lets through must not carry a span larger than its payload (joiner.subtrieSection
// spins for ever on a payload shorter than one reference, JoinReadAll loops span/C times — see
// notes/C06.md); span alterations are generated by advPyramidCase, which only CLEARS a bit.
func (g *gen) altPos(n int) int {
	if n <= 8 {
		return 8
	}
	return 8 + g.r.Intn(n-8)
}

// spanAlt: `pos:x` clearing one set bit of the low three span bytes (the altered span is smaller)
func (g *gen) spanAlt(span int) string {
	var bits []int
	for b := 0; b < 24; b++ {
		if span>>uint(b)&1 == 1 {
			bits = append(bits, b)
		}
	}
	if len(bits) == 0 {
		return "8:1"
	}
	b := bits[g.r.Intn(len(bits))]
	return fmt.Sprintf("%d:%d", b/8, 1<<uint(b%8))
}

func (g *gen) pyramidCase(multi bool) {
	r := g.r
	leaves := 1
	last := r.Range(1, 3000)
	if multi {
		leaves = r.Pick([]int{2, 2, 3})
		last = r.Pick([]int{1, 31, 32, 33, 4096, r.Range(1, 5000)})
	} else if r.Chance(10) {
		last = r.Pick([]int{1, 8, 63, 64, 65})
	}
	root, es, names := g.file(leaves, last)
	shuffled := func() []pent {
		o := append([]pent(nil), es...)
		for i := len(o) - 1; i > 0; i-- {
			j := r.Intn(i + 1)
			o[i], o[j] = o[j], o[i]
		}
		return o
	}
	g.pyr("#"+root, shuffled()) // honest
	n := r.Range(2, 5)
	for j := 0; j < n; j++ {
		o := shuffled()
		victim := names[r.Intn(len(names))]
		switch r.Intn(14) {
		case 0: // extra valid, unreachable entry
			g.op("def x s%d+g:%d:%d", 50, r.Intn(1000), 50)
			o = append(o, pent{"#x", "@x"})
		case 1: // extra invalid entry
			g.op("def x s%d+g:%d:%d", 50, r.Intn(1000), 50)
			o = append(o, pent{"#x", fmt.Sprintf("@x^%d:%d", r.Intn(58), 1<<uint(r.Intn(8)))})
		case 2: // missing entry
			i := r.Intn(len(o))
			o = append(o[:i], o[i+1:]...)
		case 3: // altered data
			for i := range o {
				if o[i].k == "#"+victim {
					o[i].v = fmt.Sprintf("@%s^%d:%d", victim, g.altPos(8+last), 1<<uint(r.Intn(8)))
				}
			}
		case 4: // altered key
			for i := range o {
				if o[i].k == "#"+victim {
					o[i].k = "#" + victim + "+h:00"
					if r.Bool() {
						o[i].k = "h:" + core.Hex(r.Bytes(32))
					}
				}
			}
		case 5: // short entry
			o = append(o, pent{"h:" + core.Hex(r.Bytes(32)), "h:" + core.Hex(r.Bytes(r.Intn(8)))})
		case 6: // duplicate key: bad first, good last (last wins) or the reverse
			bad := pent{"#" + victim, fmt.Sprintf("@%s^%d:1", victim, g.altPos(8+last))}
			if r.Bool() {
				o = append([]pent{bad}, o...)
			} else {
				o = append(o, bad)
			}
		case 7: // zero-padded leaf (still hashes to its key; valid while <= C+8)
			lf := names[len(names)-1]
			for i := range o {
				if o[i].k == "#"+lf {
					o[i].v = fmt.Sprintf("@%s+z%d", lf, r.Pick([]int{1, 5, 32}))
				}
			}
		case 8: // oversized-but-hash-matching extra entry
			g.op("def big s%d+p:%d:%d:%d", C, r.Intn(1000), C, r.Range(100, 3000))
			o = append(o, pent{"#big", "@big+h:" + core.Hex(r.Bytes(r.Pick([]int{1, 8, 64})))})
		case 9: // oversized entry, zero junk (hash-matching too)
			g.op("def big s%d+p:%d:%d:%d", C, r.Intn(1000), C, r.Range(100, 3000))
			o = append(o, pent{"#big", fmt.Sprintf("@big+z%d", r.Pick([]int{1, 8, 64}))})
		case 10: // root only (what GetPyramid itself would send for a multi-chunk plain file)
			o = []pent{{"#" + root, "@" + root}}
		case 11: // root missing from the map
			var o2 []pent
			for _, e := range o {
				if e.k != "#"+root {
					o2 = append(o2, e)
				}
			}
			o = o2
		case 12: // wrong root requested
			g.pyr("#"+names[len(names)-1]+"+h:01", o)
			continue
		case 13: // a leaf asked as root (valid sub-pyramid; the rest is unreachable)
			g.pyr("#"+names[len(names)-1], o)
			continue
		}
		g.pyr("#"+root, o)
	}
}

// the defect of DESIGN §7 as fixed regression: oversized root, oversized leaf
func (g *gen) oversizeTreeCase(asLeaf bool) {
	r := g.r
	junk := "h:" + core.Hex(r.Bytes(r.Pick([]int{1, 8, 32})))
	if !asLeaf {
		g.op("def f s%d+p:%d:%d:%d", C, r.Intn(1000), C, r.Range(100, 3000))
		g.pyr("#f", []pent{{"#f", "@f"}})
		g.pyr("#f", []pent{{"#f", "@f+" + junk}})
		return
	}
	g.op("def l0 s%d+p:%d:%d:%d", C, r.Intn(1000), C, r.Range(100, 3000))
	g.op("def l1 s%d+g:%d:%d", 77, r.Intn(1000), 77)
	g.op("def f s%d+#l0+#l1", C+77)
	g.pyr("#f", []pent{{"#f", "@f"}, {"#l0", "@l0"}, {"#l1", "@l1"}})
	g.pyr("#f", []pent{{"#f", "@f"}, {"#l0", "@l0+" + junk}, {"#l1", "@l1"}})
	// intermediate root padded with one zero reference: still hashes to its key, walk asks for the zero address
	g.pyr("#f", []pent{{"#f", "@f+z32"}, {"#l0", "@l0"}, {"#l1", "@l1"}})
	// last leaf lying about its span (one less): a different, valid chunk; accepted when referenced
	g.op("def m1 s76+g:5:77")
	g.op("def f2 s%d+#l0+#m1", C+77)
	g.pyr("#f2", []pent{{"#f2", "@f2"}, {"#l0", "@l0"}, {"#m1", "@m1"}})
}

// adversarial multi-entry pyramids (added after seeded change C06-3, which verified only the entry
// the map iteration visited last): an honest file tree (1 leaf = the root is the only reachable
// entry; 2..3 leaves with full first leaves) padded with valid unreachable entries to n = 2..12
// entries; then variants with exactly one (sometimes two) bad entries at a random position of the
// entry list — the runner additionally rotates the insertion order over its trials, so every entry
// is visited first, in the middle and last.
func (g *gen) advPyramidCase(leaves int, n int) {
	r := g.r
	last := r.Pick([]int{1, 31, 32, 33, 100, 4096, r.Range(1, 3000)})
	root, es, names := g.file(leaves, last)
	if n < len(es) {
		n = len(es)
	}
	if n < 2 {
		n = 2
	}
	var pads []string
	for i := 0; len(es)+len(pads) < n; i++ {
		nm := fmt.Sprintf("x%d", i)
		ln := r.Range(1, 200)
		g.op("def %s s%d+g:%d:%d", nm, ln, r.Intn(1000), ln)
		pads = append(pads, nm)
	}
	base := func() []pent {
		o := append([]pent(nil), es...)
		for _, nm := range pads {
			o = append(o, pent{"#" + nm, "@" + nm})
		}
		for i := len(o) - 1; i > 0; i-- {
			j := r.Intn(i + 1)
			o[i], o[j] = o[j], o[i]
		}
		return o
	}
	lenOf := func(nm string) int {
		switch {
		case leaves == 1 && nm == "f":
			return 8 + last
		case nm == "f":
			return 8 + 32*leaves
		case nm == names[len(names)-1]:
			return 8 + last
		}
		return 8 + C
	}
	set := func(o []pent, key, val string) {
		for i := range o {
			if o[i].k == key {
				o[i].v = val
			}
		}
	}
	bit := func() int { return 1 << uint(r.Intn(8)) }
	// extension by non-zero bytes; an intermediate chunk only by whole references (the joiner slices
	// data[cursor:cursor+32] of an intermediate payload that is not a multiple of 32: a panic inside one of
	// its goroutines would end the harness process if a changed GetChunkHashes let the entry through)
	ext := func(nm string) string {
		if nm == "f" && leaves > 1 {
			return "@" + nm + "+h:" + core.Hex(append(r.Bytes(31), 1))
		}
		return "@" + nm + "+h:" + core.Hex(append(r.Bytes(r.Range(0, 8)), 1))
	}
	g.pyr("#"+root, base()) // honest tree + valid unreachable extras
	k := r.Range(4, 7)
	for j := 0; j < k; j++ {
		o := base()
		victim := names[r.Intn(len(names))]
		switch r.Intn(10) {
		case 0, 1, 2: // one payload byte of a reachable entry altered, key unchanged
			set(o, "#"+victim, fmt.Sprintf("@%s^%d:%d", victim, r.Range(8, lenOf(victim)-1), bit()))
		case 3: // one bit of the span of a reachable entry cleared (never a larger span, see altPos)
			span := lenOf(victim) - 8
			if victim == "f" && leaves > 1 {
				span = (leaves-1)*C + last
			}
			set(o, "#"+victim, "@"+victim+"^"+g.spanAlt(span))
		case 4: // intermediate root with two references swapped / one repeated (the walk still succeeds
			// when both are full leaves); 1-leaf trees: root payload altered
			if leaves >= 3 {
				refs := []string{"#l0", "#l1", "#l2"}
				if r.Bool() {
					refs[0], refs[1] = refs[1], refs[0]
				} else {
					refs[r.Intn(2)] = refs[r.Intn(2)]
					if refs[0] != refs[1] {
						refs[1] = refs[0]
					}
				}
				g.op("def fs s%d+%s", 2*C+last, strings.Join(refs, "+"))
				set(o, "#f", "@fs")
			} else {
				set(o, "#f", fmt.Sprintf("@f^%d:%d", r.Range(8, lenOf("f")-1), bit()))
			}
		case 5: // an unreachable extra entry altered (never stored; the whole pyramid is refused)
			if len(pads) > 0 {
				x := pads[r.Intn(len(pads))]
				set(o, "#"+x, fmt.Sprintf("@%s^%d:%d", x, r.Intn(9), bit()))
			} else {
				set(o, "#"+victim, ext(victim))
			}
		case 6: // a valid chunk of the map under the address of a reachable one
			other := names[r.Intn(len(names))]
			if len(pads) > 0 && r.Chance(60) {
				other = pads[r.Intn(len(pads))]
			}
			if other != victim {
				set(o, "#"+victim, "@"+other)
			} else {
				set(o, "#"+victim, ext(victim))
			}
		case 7: // extended by non-zero bytes (not truncated: a payload shorter than its span, let through by a
			// changed GetChunkHashes, sends joiner.subtrieSection into an endless loop — see altPos)
			set(o, "#"+victim, ext(victim))
		case 8: // two bad entries: a reachable one and (if any) an extra
			set(o, "#"+victim, fmt.Sprintf("@%s^%d:%d", victim, r.Range(8, lenOf(victim)-1), bit()))
			if len(pads) > 0 {
				x := pads[r.Intn(len(pads))]
				set(o, "#"+x, fmt.Sprintf("@%s^%d:%d", x, r.Intn(9), bit()))
			}
		case 9: // an additional invalid entry under a random key, anywhere in the list
			bad := pent{"h:" + core.Hex(r.Bytes(32)), "h:" + core.Hex(r.Bytes(r.Range(8, 60)))}
			i := r.Intn(len(o) + 1)
			o = append(o[:i], append([]pent{bad}, o[i:]...)...)
		}
		g.pyr("#"+root, o)
	}
}

// C06-3 as fixed regression: the altered entry first / in the middle / last, 2..12 entries
func (g *gen) alteredNotLastCase() {
	g.op("def f s40+g:1:40")
	g.op("def x0 s50+g:2:50")
	g.op("def x1 s60+g:3:60")
	g.pyr("#f", []pent{{"#f", "@f"}, {"#x0", "@x0"}})
	g.pyr("#f", []pent{{"#f", "@f^20:1"}, {"#x0", "@x0"}})
	g.pyr("#f", []pent{{"#x0", "@x0"}, {"#f", "@f^20:1"}})
	g.pyr("#f", []pent{{"#f", "@f^47:128"}, {"#x0", "@x0"}, {"#x1", "@x1"}})
	g.pyr("#f", []pent{{"#x0", "@x0^30:4"}, {"#f", "@f"}})
	g.pyr("#f", []pent{{"#f", "@f"}, {"#x0", "@x1"}, {"#x1", "@x1"}})
	// 12 entries, the altered root in the middle
	es := []pent{}
	for i := 2; i < 11; i++ {
		g.op("def x%d s%d+g:%d:%d", i, 20+i, 10+i, 20+i)
	}
	for i := 0; i < 11; i++ {
		if i == 5 {
			es = append(es, pent{"#f", "@f^9:1"})
		}
		es = append(es, pent{fmt.Sprintf("#x%d", i), fmt.Sprintf("@x%d", i)})
	}
	g.pyr("#f", es)
	// two leaves: altered full leaf in the middle, altered last leaf first, foreign chunk under a leaf address
	g.op("def l0 s%d+p:7:%d:1000", C, C)
	g.op("def l1 s77+g:8:77")
	g.op("def ff s%d+#l0+#l1", C+77)
	g.pyr("#ff", []pent{{"#ff", "@ff"}, {"#l0", "@l0"}, {"#l1", "@l1"}})
	g.pyr("#ff", []pent{{"#ff", "@ff"}, {"#l0", "@l0^5000:1"}, {"#l1", "@l1"}})
	g.pyr("#ff", []pent{{"#l1", "@l1^10:2"}, {"#ff", "@ff"}, {"#l0", "@l0"}})
	g.pyr("#ff", []pent{{"#ff", "@ff"}, {"#l0", "@l0"}, {"#l1", "@x0"}, {"#x0", "@x0"}})
	// three leaves: the intermediate chunk with its two full-leaf references swapped (walk succeeds)
	g.op("def m1 s%d+p:9:%d:1000", C, C)
	g.op("def g3 s%d+#l0+#m1+#l1", 2*C+77)
	g.op("def g3s s%d+#m1+#l0+#l1", 2*C+77)
	g.pyr("#g3", []pent{{"#g3", "@g3"}, {"#l0", "@l0"}, {"#m1", "@m1"}, {"#l1", "@l1"}})
	g.pyr("#g3", []pent{{"#g3", "@g3s"}, {"#l0", "@l0"}, {"#m1", "@m1"}, {"#l1", "@l1"}})
}

func (prop) Gen(r *core.Rand, tier string) []core.Case {
	nd, nbig, np, nmulti, nadv, nadvMulti := 30, 2, 12, 3, 10, 2
	if tier == "thorough" {
		nd, nbig, np, nmulti, nadv, nadvMulti = 600, 20, 200, 30, 150, 20
	}
	var cs []core.Case
	mk := func(id string, nt bool, f func(g *gen)) {
		c := core.Case{ID: id, NT: nt}
		g := &gen{r: r, c: &c}
		f(g)
		cs = append(cs, c)
	}
	mk("fix-oversize-root", true, func(g *gen) { g.oversizeTreeCase(false) })
	mk("fix-oversize-leaf", true, func(g *gen) { g.oversizeTreeCase(true) })
	mk("fix-oversize-delivery", true, func(g *gen) { g.oversizeDelivery() })
	mk("fix-pyramid-altered-not-last", true, func(g *gen) { g.alteredNotLastCase() })
	mk("fix-basic", true, func(g *gen) {
		g.op("deliver 1 1")
		g.op("new h:666f6f")
		g.op("deliver 1 1")
		g.op("deliver2 1 1")
		g.op("forward 1 1")
		g.op("deliver 0 1")
		g.op("deliver 1 0")
		g.op("deliver2 1 0")
		g.op("mutd 8 1")
		g.op("deliver 1 1")
		g.op("deliver2 1 1")
		g.op("forward 1 1")
		g.op("soc %s %s h:666f6f", core.Hex(bytes.Repeat([]byte{0x11}, 32)), core.Hex(bytes.Repeat([]byte{0x22}, 32)))
		g.op("deliver 1 1")
		g.op("forward 1 1")
		g.op("mutd 40 1")
		g.op("deliver 1 1")
		g.op("mutd 40 1")
		g.op("mutd 96 4") // recovery byte with the compressed-key flag (C05 fix aca4d22)
		g.op("deliver 1 1")
		g.op("mutd 96 4")
		g.op("mutd 96 60")
		g.op("deliver 1 1")
		g.op("pyr #nope")
		g.op("def a s3+h:666f6f")
		g.op("pyr #a #a=@a")
		g.op("pyr #a")
		g.op("pyr #a #a=@a/10")
	})
	big := 0
	for i := 0; i < nd; i++ {
		mk(fmt.Sprintf("d%d", i), true, func(g *gen) {
			switch r.Intn(10) {
			case 0:
				g.foreignCase()
			case 1:
				if big < nbig {
					big++
					if r.Bool() {
						g.oversizeDelivery()
					} else {
						g.deliveryCase(true)
					}
				} else {
					g.deliveryCase(false)
				}
			default:
				g.deliveryCase(false)
			}
		})
	}
	multi := 0
	for i := 0; i < np; i++ {
		mk(fmt.Sprintf("p%d", i), true, func(g *gen) {
			m := false
			if multi < nmulti && r.Chance(30) {
				multi++
				m = true
			}
			g.pyramidCase(m)
		})
	}
	for i := 0; i < nadv; i++ {
		mk(fmt.Sprintf("a%d", i), true, func(g *gen) { g.advPyramidCase(1, 2+(i+r.Intn(3))%11) })
	}
	for i := 0; i < nadvMulti; i++ {
		mk(fmt.Sprintf("am%d", i), true, func(g *gen) { g.advPyramidCase(2+i%2, r.Range(3, 12)) })
	}
	return cs
}

// ---------------------------------------------------------------- fakes

type put struct{ addr, data []byte }

type fakeStore struct {
	mu   sync.Mutex
	puts []put
}

func (s *fakeStore) Get(context.Context, storage.ModeGet, boson.Address) (boson.Chunk, error) {
	return nil, storage.ErrNotFound
}
func (s *fakeStore) Put(_ context.Context, _ storage.ModePut, chs ...boson.Chunk) ([]bool, error) {
	s.mu.Lock()
	defer s.mu.Unlock()
	for _, c := range chs {
		s.puts = append(s.puts, put{append([]byte(nil), c.Address().Bytes()...), append([]byte(nil), c.Data()...)})
	}
	return make([]bool, len(chs)), nil
}
func (s *fakeStore) GetMulti(context.Context, storage.ModeGet, ...boson.Address) ([]boson.Chunk, error) {
	return nil, storage.ErrNotFound
}
func (s *fakeStore) Has(context.Context, storage.ModeHas, boson.Address) (bool, error) {
	return false, nil
}
func (s *fakeStore) HasMulti(_ context.Context, _ storage.ModeHas, a ...boson.Address) ([]bool, error) {
	return make([]bool, len(a)), nil
}
func (s *fakeStore) Set(context.Context, storage.ModeSet, ...boson.Address) error { return nil }
func (s *fakeStore) Close() error                                                 { return nil }

type fakeStream struct {
	r *bytes.Reader
	w bytes.Buffer
}

func (s *fakeStream) Read(p []byte) (int, error)   { return s.r.Read(p) }
func (s *fakeStream) Write(p []byte) (int, error)  { return s.w.Write(p) }
func (s *fakeStream) Close() error                 { return nil }
func (s *fakeStream) ResponseHeaders() p2p.Headers { return nil }
func (s *fakeStream) Headers() p2p.Headers         { return nil }
func (s *fakeStream) FullClose() error             { return nil }
func (s *fakeStream) Reset() error                 { return nil }

func frame(m protobuf.Message) []byte {
	var b bytes.Buffer
	_ = protobuf.NewWriter(&b).WriteMsg(m)
	return b.Bytes()
}

// the adversarial peer: answers every request with the scripted delivery
type fakeStreamer struct {
	mu    sync.Mutex
	reply []byte
	asked [][]byte
}

func (f *fakeStreamer) NewStream(context.Context, boson.Address, p2p.Headers, string, string, string) (p2p.Stream, error) {
	return &reqStream{f: f, fakeStream: fakeStream{r: bytes.NewReader(frame(&pb.Delivery{Data: f.reply}))}}, nil
}
func (f *fakeStreamer) NewRelayStream(context.Context, boson.Address, p2p.Headers, string, string, string, bool) (p2p.Stream, error) {
	return nil, errors.New("no relay")
}
func (f *fakeStreamer) NewConnChainRelayStream(context.Context, boson.Address, p2p.Headers, string, string, string) (p2p.Stream, error) {
	return nil, errors.New("no relay")
}

type reqStream struct {
	fakeStream
	f *fakeStreamer
}

func (s *reqStream) FullClose() error {
	var req pb.RequestChunk
	if err := protobuf.NewReader(bytes.NewReader(s.w.Bytes())).ReadMsg(&req); err == nil {
		s.f.mu.Lock()
		s.f.asked = append(s.f.asked, req.ChunkAddr)
		s.f.mu.Unlock()
	}
	return nil
}

type fakeRT struct{ routetab.RouteTab }

func (fakeRT) Connect(context.Context, boson.Address) error { return nil }
func (fakeRT) FindRoute(context.Context, boson.Address, ...time.Duration) ([]*routetab.Path, error) {
	return nil, errors.New("none")
}

type fakeAcc struct {
	mu       sync.Mutex
	creditOK bool
	credits  int
}

func (a *fakeAcc) Reserve(boson.Address, uint64) error { return nil }
func (a *fakeAcc) Credit(context.Context, boson.Address, uint64) error {
	a.mu.Lock()
	defer a.mu.Unlock()
	if !a.creditOK {
		return errors.New("credit refused")
	}
	a.credits++
	return nil
}
func (a *fakeAcc) Debit(boson.Address, uint64) error { return nil }

type fakeCI struct {
	chunkinfo.Interface
	reportOK bool
	peer     boson.Address
}

func (c *fakeCI) OnChunkRetrieved(cid, root, src boson.Address) error {
	if !c.reportOK {
		return errors.New("report refused")
	}
	return nil
}
func (c *fakeCI) OnChunkTransferred(cid, root, overlay, target boson.Address) error { return nil }
func (c *fakeCI) GetChunkInfo(root, cid boson.Address) []aco.Route {
	return []aco.Route{aco.NewRoute(c.peer, c.peer)}
}

// ---------------------------------------------------------------- runner

type chunk struct{ addr, data []byte }

type named struct {
	b, h []byte
}

type runner struct {
	cur  *chunk
	defs map[string]named
}

func (prop) New() core.Runner { return &runner{defs: map[string]named{}} }
func (*runner) Close()        {}

var (
	selfAddr = boson.NewAddress(bytes.Repeat([]byte{0xa1}, 32))
	peerAddr = boson.NewAddress(bytes.Repeat([]byte{0xb2}, 32))
	reqAddr  = boson.NewAddress(bytes.Repeat([]byte{0xc3}, 32))
	rootAddr = boson.NewAddress(bytes.Repeat([]byte{0xd4}, 32))
	logger   = logging.New(io.Discard, 0)
)

func short(b []byte) string {
	if len(b) > 6 {
		b = b[:6]
	}
	return core.Hex(b)
}
func entryStr(k, v []byte) string {
	return fmt.Sprintf("%s:%d:%s", short(k), len(v), short(refimpl.Keccak(v)))
}

func refOf(b []byte) []byte {
	if len(b) < 8 {
		return make([]byte, 32)
	}
	return refimpl.Bmt(b)
}

func (rn *runner) atom(a string) ([]byte, string) {
	switch {
	case strings.HasPrefix(a, "@"):
		body := a[1:]
		if f := strings.Split(body, "/"); len(f) == 2 {
			n, err := strconv.Atoi(f[1])
			if err != nil || n < 0 {
				return nil, "bad-op"
			}
			d, ok := rn.defs[f[0]]
			if !ok {
				return nil, "noname"
			}
			if n > len(d.b) {
				n = len(d.b)
			}
			return append([]byte(nil), d.b[:n]...), ""
		}
		if f := strings.Split(body, "^"); len(f) == 2 {
			d, ok := rn.defs[f[0]]
			if !ok {
				return nil, "noname"
			}
			px := strings.Split(f[1], ":")
			if len(px) != 2 {
				return nil, "bad-op"
			}
			p, e1 := strconv.Atoi(px[0])
			x, e2 := strconv.Atoi(px[1])
			if e1 != nil || e2 != nil || p < 0 || x < 0 {
				return nil, "bad-op"
			}
			o := append([]byte(nil), d.b...)
			if p < len(o) {
				o[p] ^= byte(x)
			}
			return o, ""
		}
		d, ok := rn.defs[body]
		if !ok {
			return nil, "noname"
		}
		return append([]byte(nil), d.b...), ""
	case strings.HasPrefix(a, "#"):
		d, ok := rn.defs[a[1:]]
		if !ok {
			return nil, "noname"
		}
		return append([]byte(nil), d.h...), ""
	case strings.HasPrefix(a, "s"):
		n, err := strconv.ParseUint(a[1:], 10, 64)
		if err != nil {
			return nil, "bad-op"
		}
		return le64(n), ""
	case strings.HasPrefix(a, "z"):
		n, err := strconv.Atoi(a[1:])
		if err != nil || n < 0 {
			return nil, "bad-op"
		}
		return make([]byte, n), ""
	}
	b, ok := core.ParseSrc(a)
	if !ok {
		return nil, "bad-op"
	}
	return b, ""
}

func (rn *runner) expr(e string) ([]byte, string) {
	var out []byte
	for _, a := range strings.Split(e, "+") {
		b, msg := rn.atom(a)
		if msg != "" {
			return nil, msg
		}
		out = append(out, b...)
	}
	if out == nil {
		out = []byte{}
	}
	return out, ""
}

func refValid(addr, data []byte) bool {
	return refimpl.CacValid(addr, data) || refimpl.SocValid(addr, data)
}

func (rn *runner) annotate(ctx *core.Ctx) {
	dg, owner := refimpl.SocParse(rn.cur.data)
	switch {
	case dg == nil:
		ctx.Annotate("-", "fail")
	case owner == nil:
		ctx.Annotate(core.Hex(dg), "fail")
	default:
		ctx.Annotate(core.Hex(dg), core.Hex(owner))
	}
}

func (rn *runner) deliver(ctx *core.Ctx, kind string, creditOK, reportOK bool) string {
	c := rn.cur
	rn.annotate(ctx)
	st := &fakeStore{}
	sm := &fakeStreamer{reply: append([]byte(nil), c.data...)}
	acc := &fakeAcc{creditOK: creditOK}
	ci := &fakeCI{reportOK: reportOK, peer: peerAddr}
	svc := retrieval.New(selfAddr, sm, fakeRT{}, st, true, logger, nil, acc, subscribe.NewSubPub())
	svc.Config(ci)
	addr := boson.NewAddress(append([]byte(nil), c.addr...))
	var got []byte
	var err error
	bg := context.Background()
	switch kind {
	case "deliver":
		var ch boson.Chunk
		ch, err = svc.RetrieveChunkFromNode(bg, peerAddr, rootAddr, addr)
		if err == nil {
			got = ch.Data()
			if !ch.Address().Equal(addr) {
				ctx.Fail("delivery-returned-wrong-address", "returned chunk has another address")
			}
		}
	case "deliver2":
		var ch boson.Chunk
		ch, err = svc.RetrieveChunk(bg, rootAddr, addr)
		if err == nil {
			got = ch.Data()
			if !ch.Address().Equal(addr) {
				ctx.Fail("delivery-returned-wrong-address", "returned chunk has another address")
			}
		}
	case "forward":
		// a downstream requester asks us for a chunk we do not have and that lives at peerAddr
		rs := &fakeStream{r: bytes.NewReader(frame(&pb.RequestChunk{TargetAddr: peerAddr.Bytes(), RootAddr: rootAddr.Bytes(), ChunkAddr: addr.Bytes()}))}
		err = svc.Protocol().StreamSpecs[0].Handler(bg, p2p.Peer{Address: reqAddr, Mode: aurora.NewModel().SetMode(aurora.FullNode)}, rs)
		var d pb.Delivery
		if e := protobuf.NewReader(bytes.NewReader(rs.w.Bytes())).ReadMsg(&d); e == nil {
			got = d.Data
			if got == nil {
				got = []byte{}
			}
			if err != nil {
				ctx.Fail("forward-handed-despite-error", "delivery written although the handler failed: %v", err)
			}
		} else if err == nil {
			ctx.Fail("forward-nothing-handed", "handler succeeded without writing a delivery")
		}
	}
	valid := refValid(c.addr, c.data)
	// oracle: every Put and everything handed out must be valid for the requested address
	for _, p := range st.puts {
		if !bytes.Equal(p.addr, c.addr) {
			ctx.Fail("delivery-stored-wrong-address", "Put under %x, requested %x", p.addr, c.addr)
		}
		if !refValid(p.addr, p.data) {
			clause := "delivery-stored-invalid"
			if len(p.data) > C+8+97 || (len(p.data) > C+8 && refimpl.Bmt(p.data) != nil && bytes.Equal(refimpl.Bmt(p.data), p.addr)) {
				clause += "-oversize"
			}
			ctx.Fail(clause, "stored %d bytes under %x, neither a valid content-addressed nor single-owner chunk", len(p.data), p.addr)
		}
	}
	if got != nil && !valid {
		ctx.Fail("delivery-returned-invalid", "handed %d invalid bytes to the requester", len(got))
	}
	if got != nil && !bytes.Equal(got, c.data) {
		ctx.Fail("delivery-returned-other-data", "returned data is not the delivery")
	}
	if acc.credits > 0 && !valid {
		ctx.Fail("delivery-credit-invalid", "peer credited for an invalid chunk")
	}
	if valid && creditOK && reportOK && (err != nil || len(st.puts) != 1) {
		ctx.Fail("delivery-rejected-valid", "valid chunk not accepted: %v, %d puts", err, len(st.puts))
	}
	for _, a := range sm.asked {
		if !bytes.Equal(a, c.addr) {
			ctx.Fail("delivery-asked-other", "request names another chunk")
		}
	}
	putS, gotS := "-", "-"
	if len(st.puts) > 0 {
		var l []string
		for _, p := range st.puts {
			l = append(l, entryStr(p.addr, p.data))
		}
		sort.Strings(l)
		putS = strings.Join(l, ",")
	}
	if got != nil {
		gotS = entryStr(c.addr, got)
	}
	res := "ok"
	if err != nil {
		res = "err"
	}
	return fmt.Sprintf("%s credit=%d put=%s got=%s", res, acc.credits, putS, gotS)
}

// independent reachability: keys referenced (32-byte aligned) from reachable intermediate payloads
func reachable(root []byte, m map[string][]byte) map[string]bool {
	seen := map[string]bool{}
	var walk func(k []byte, depth int)
	walk = func(k []byte, depth int) {
		ks := string(k)
		if seen[ks] || depth > 8 {
			return
		}
		v, ok := m[ks]
		if !ok {
			return
		}
		seen[ks] = true
		if len(v) < 8 {
			return
		}
		var span uint64
		for i := 7; i >= 0; i-- {
			span = span<<8 | uint64(v[i])
		}
		pl := v[8:]
		if span <= uint64(len(pl)) {
			return
		}
		for i := 0; i+32 <= len(pl); i += 32 {
			walk(pl[i:i+32], depth+1)
		}
	}
	walk(root, 0)
	return seen
}

func (rn *runner) pyr(ctx *core.Ctx, op []string) string {
	root, msg := rn.expr(op[1])
	if msg != "" {
		return msg
	}
	type kv struct{ k, v []byte }
	var ents []kv
	for _, e := range op[2:] {
		f := strings.Split(e, "=")
		if len(f) != 2 {
			return "bad-op"
		}
		k, m1 := rn.expr(f[0])
		if m1 != "" {
			return m1
		}
		v, m2 := rn.expr(f[1])
		if m2 != "" {
			return m2
		}
		ents = append(ents, kv{k, v})
	}
	// the map content exactly as chunkinfo.onChunkPyramidResp builds it from the peer's responses
	// (NewAddress(hash).String() keys, later responses win)
	raw := map[string][]byte{}
	var order [][]byte // distinct keys, first occurrence first
	for _, e := range ents {
		if _, dup := raw[string(e.k)]; !dup {
			order = append(order, e.k)
		}
		raw[string(e.k)] = e.v
	}
	reach := reachable(root, raw)
	// GetChunkHashes ranges over the map, and Go's map order differs from one range statement to the
	// next (maps of <= 8 entries: a rotation of the insertion order starting at a random slot; the entry
	// inserted last is visited last 7 times out of 8 in a 2-entry map).  Whether an entry is visited
	// first or last must not matter, so the same pyramid is submitted pyrTrials times, each time as a
	// freshly built map whose insertion order is rotated by one more entry, into a fresh store; every
	// trial is judged by the oracle and all trials must give the same answer.
	trials := pyrTrials
	if len(order) <= 1 {
		trials = 2
	}
	failed := map[string]bool{}
	fail := func(clause, format string, a ...interface{}) {
		msg := fmt.Sprintf(format, a...)
		if !failed[clause+msg] {
			failed[clause+msg] = true
			ctx.Fail(clause, "%s", msg)
		}
	}
	var outcomes []string
	seenOut := map[string]bool{}
	for t := 0; t < trials; t++ {
		pyramid := make(map[string][]byte)
		for i := range order {
			k := order[(i+t)%len(order)]
			pyramid[boson.NewAddress(k).String()] = raw[string(k)]
		}
		st := &fakeStore{}
		type res struct{ err error }
		done := make(chan res, 1)
		go func() {
			_, _, err := traversal.New(st).GetChunkHashes(context.Background(), boson.NewAddress(root), pyramid)
			done <- res{err}
		}()
		var err error
		select {
		case r := <-done:
			err = r.err
		case <-time.After(60 * time.Second):
			ctx.Fail("pyramid-hang", "GetChunkHashes did not return")
			return "hang"
		}
		st.mu.Lock()
		puts := append([]put(nil), st.puts...)
		st.mu.Unlock()
		for _, p := range puts {
			want, ok := raw[string(p.addr)]
			if !ok || !bytes.Equal(want, p.data) {
				fail("pyramid-stored-not-in-map", "Put of %x is not an entry of the pyramid", p.addr)
			}
			if !refimpl.CacValid(p.addr, p.data) {
				clause := "pyramid-stored-invalid"
				if len(p.data) > C+8 {
					clause += "-oversize"
				}
				fail(clause, "stored %d bytes under %x: not a valid content-addressed chunk", len(p.data), p.addr)
			}
			if !reach[string(p.addr)] {
				fail("pyramid-stored-unreachable", "stored %x is not reachable from the root", p.addr)
			}
		}
		out := "err"
		if err != nil {
			if len(puts) > 0 {
				fail("pyramid-stored-despite-error", "%d puts although GetChunkHashes failed: %v", len(puts), err)
			}
		} else {
			var l []string
			for _, p := range puts {
				l = append(l, entryStr(p.addr, p.data))
			}
			sort.Strings(l)
			out = "ok " + strings.Join(l, " ")
		}
		if !seenOut[out] {
			seenOut[out] = true
			outcomes = append(outcomes, out)
		}
	}
	if len(outcomes) == 1 {
		return outcomes[0]
	}
	// the answer depends on the order in which the map happened to be visited
	sort.Strings(outcomes)
	return "unstable [" + strings.Join(outcomes, "] [") + "]"
}

func (rn *runner) Step(ctx *core.Ctx, op []string) string {
	switch {
	case len(op) == 2 && op[0] == "new":
		d, ok := core.ParseSrc(op[1])
		if !ok {
			return "bad-op"
		}
		ch, err := cac.New(d)
		if err != nil {
			rn.cur = nil
			return "err"
		}
		rn.cur = &chunk{append([]byte(nil), ch.Address().Bytes()...), append([]byte(nil), ch.Data()...)}
		return fmt.Sprintf("ok %s %d", short(rn.cur.addr), len(rn.cur.data))
	case len(op) == 4 && op[0] == "soc":
		key, e1 := core.UnHex(op[1])
		id, e2 := core.UnHex(op[2])
		data, ok := core.ParseSrc(op[3])
		if e1 != nil || e2 != nil || !ok {
			return "bad-op"
		}
		rn.cur = nil
		ch, err := cac.New(data)
		if err != nil {
			return "err"
		}
		priv := crypto.Secp256k1PrivateKeyFromBytes(key)
		sch, err := soc.New(id, ch).Sign(crypto.NewDefaultSigner(priv))
		if err != nil {
			return "err"
		}
		d := sch.Data()
		pub := elliptic.Marshal(btcec.S256(), priv.PublicKey.X, priv.PublicKey.Y)
		ctx.Annotate(core.Hex(d[len(id):len(id)+65]), core.Hex(refimpl.Keccak(pub[1:])[12:]))
		rn.cur = &chunk{append([]byte(nil), sch.Address().Bytes()...), append([]byte(nil), d...)}
		return fmt.Sprintf("ok %s %d", short(rn.cur.addr), len(d))
	case len(op) == 3 && (op[0] == "set" || op[0] == "setx"):
		a, err := core.UnHex(op[1])
		var p []byte
		var ok bool
		if op[0] == "set" {
			p, ok = core.ParseSrc(op[2])
		} else {
			var msg string
			p, msg = rn.expr(op[2])
			if msg == "noname" {
				return msg
			}
			ok = msg == ""
		}
		if err != nil || !ok {
			return "bad-op"
		}
		rn.cur = &chunk{a, p}
		return "ok"
	case len(op) == 3 && op[0] == "def":
		b, msg := rn.expr(op[2])
		if msg != "" {
			return msg
		}
		h := refOf(b)
		rn.defs[op[1]] = named{b, h}
		return fmt.Sprintf("ok %d %s", len(b), short(h))
	case len(op) >= 2 && op[0] == "pyr":
		return rn.pyr(ctx, op)
	}
	if rn.cur == nil {
		return "nochunk"
	}
	c := rn.cur
	switch {
	case len(op) == 3 && (op[0] == "deliver" || op[0] == "deliver2" || op[0] == "forward"):
		if (op[1] != "0" && op[1] != "1") || (op[2] != "0" && op[2] != "1") {
			return "bad-op"
		}
		return rn.deliver(ctx, op[0], op[1] == "1", op[2] == "1")
	case len(op) == 3 && (op[0] == "mutd" || op[0] == "muta"):
		pos, e1 := strconv.Atoi(op[1])
		x, e2 := strconv.Atoi(op[2])
		if e1 != nil || e2 != nil || pos < 0 || x < 0 {
			return "bad-op"
		}
		t := c.data
		if op[0] == "muta" {
			t = c.addr
		}
		if pos >= len(t) {
			return "range"
		}
		t[pos] ^= byte(x)
		return "ok"
	case len(op) == 2 && op[0] == "trunc":
		n, err := strconv.Atoi(op[1])
		if err != nil || n < 0 {
			return "bad-op"
		}
		if n < len(c.data) {
			c.data = c.data[:n]
		}
		return "ok"
	case len(op) == 2 && op[0] == "extend":
		b, ok := core.ParseSrc(op[1])
		if !ok {
			return "bad-op"
		}
		c.data = append(c.data, b...)
		return "ok"
	}
	return "bad-op"
}
