import Aurora.Lemmas.Closest
/-!
# C23 — Closest-peer selection is the XOR-closest eligible peer

Theorems about `Aurora.Topo.closestPeer` / `closestPeers` (Model/Closest.lean), the transcription
of `Kad.ClosestPeer` / `Kad.ClosestPeers`.  `conn` is the connected peer list in `EachPeerRev`
order with one reachability flag per peer; `eligibleOf conn reachOnly skip` is the list of
connected peers that are not skipped (and reachable when `reachOnly`); `xorNat t x` is the XOR
distance of `x` to the target `t` as a natural number.

Premise (`WF`): target, base and all connected addresses have one common non-zero length (the zero
address is the "nothing found yet" sentinel of the code) and no connected peer has the node's own
address.  Reading of "self is eligible": `includeSelf` was requested and the node's reachability
status is public (`selfOk`), which is what the code implements; like the code, `ErrNotFound` is
answered whenever nothing is connected, even if self is eligible.
-/
namespace Aurora.Props.C23
open Aurora.Topo

structure WF (base t : Addr) (conn : List (Addr × Bool)) : Prop where
  ht : 0 < t.length
  hb : base.length = t.length
  hc : ∀ p ∈ conn, p.1.length = t.length
  hnb : ∀ p ∈ conn, p.1 ≠ base

/-- auxiliary: membership in the eligible list, spelled out -/
theorem C23_mem_eligibleOf (conn : List (Addr × Bool)) (ro : Bool) (skip : List Addr) (x : Addr) :
    x ∈ eligibleOf conn ro skip ↔ ∃ fl, (x, fl) ∈ conn ∧ (ro && !fl) = false ∧ x ∉ skip := by
  unfold eligibleOf eligible
  simp only [List.mem_map, List.mem_filter, Bool.and_eq_true, Bool.not_eq_true']
  constructor
  · rintro ⟨⟨a, fl⟩, ⟨hm, h1, h2⟩, rfl⟩
    exact ⟨fl, hm, h1, by simpa using h2⟩
  · rintro ⟨fl, hm, h1, h2⟩
    exact ⟨(x, fl), ⟨hm, h1, by simpa using h2⟩, rfl⟩

/-- complete case description of `closestPeer` -/
theorem C23_closestPeer_cases (base : Addr) (sp : Bool) (conn : List (Addr × Bool)) (t : Addr)
    (incl ro : Bool) (skip : List Addr) (wf : WF base t conn) :
    let res := closestPeer base sp conn t incl ro skip
    let E := eligibleOf conn ro skip
    (conn = [] ∧ res = .notFound) ∨
    (conn ≠ [] ∧ (incl && sp) = false ∧ E = [] ∧ res = .notFound) ∨
    (conn ≠ [] ∧ (incl && sp) = false ∧ ∃ c, res = .found c ∧ c ∈ E ∧ ∀ q ∈ E, xorNat t c ≤ xorNat t q) ∨
    (conn ≠ [] ∧ (incl && sp) = true ∧ res = .wantSelf ∧ ∀ q ∈ E, xorNat t base < xorNat t q) ∨
    (conn ≠ [] ∧ (incl && sp) = true ∧ ∃ c, res = .found c ∧ c ∈ E ∧
        (∀ q ∈ E, xorNat t c ≤ xorNat t q) ∧ xorNat t c < xorNat t base) := by
  intro res E
  have hEmem : ∀ c, c ∈ E → c ≠ base ∧ c.length = t.length := by
    intro c hc
    obtain ⟨fl, hm, _, _⟩ := (C23_mem_eligibleOf conn ro skip c).mp hc
    exact ⟨wf.hnb _ hm, wf.hc _ hm⟩
  have hnonempty : ∀ c : Addr, c.length = t.length → c.isEmpty = false := by
    intro c hc
    cases c with
    | nil => have := wf.ht; simp at hc; omega
    | cons _ _ => rfl
  by_cases hne : conn = []
  · left; subst hne; exact ⟨rfl, by simp [res, closestPeer]⟩
  · right
    have hlen : (conn.length == 0) = false := by
      cases conn with
      | nil => exact absurd rfl hne
      | cons _ _ => simp
    cases hs : (incl && sp)
    · -- start from the zero address
      obtain ⟨z1, z2⟩ := fold_from_zero t ro skip wf.ht conn wf.hc
      by_cases hE : E = []
      · left
        refine ⟨hne, rfl, hE, ?_⟩
        have := z1 hE
        simp only [res, closestPeer, hlen, hs, Bool.false_eq_true, if_false]
        rw [this]; simp
      · right; left
        obtain ⟨a, b, c⟩ := z2 hE
        refine ⟨hne, rfl, _, ?_, b, c⟩
        have hcb := (hEmem _ b).1
        simp only [res, closestPeer, hlen, hs, Bool.false_eq_true, if_false]
        rw [hnonempty _ a]
        simp [hcb]
    · right; right
      obtain ⟨a, b, c, d, e⟩ := fold_from_nonempty t ro skip wf.ht conn base wf.hc wf.hb
      by_cases hcb : List.foldl (closestStep t ro skip) base conn = base
      · left
        refine ⟨hne, rfl, ?_, ?_⟩
        · simp only [res, closestPeer, hlen, hs, if_true, Bool.false_eq_true, if_false]
          rw [hcb, hnonempty _ wf.hb]; simp
        · intro q hq
          have h1 := c q hq
          rw [hcb] at h1
          have hqb := hEmem q hq
          have : xorNat t base ≠ xorNat t q := fun h =>
            hqb.1 (xorNat_inj t base q wf.hb.symm hqb.2.symm h).symm
          omega
      · right
        refine ⟨hne, rfl, _, ?_, ?_, c, e hcb⟩
        · simp only [res, closestPeer, hlen, hs, if_true, Bool.false_eq_true, if_false]
          rw [hnonempty _ a]; simp [hcb]
        · rcases b with b | b
          · exact absurd b hcb
          · exact b

/-- clause 1: a returned peer is eligible, is XOR-nearest among the eligible peers, and — when self
is eligible — is strictly nearer than self -/
theorem C23_closest_is_argmin (base : Addr) (sp : Bool) (conn : List (Addr × Bool)) (t : Addr)
    (incl ro : Bool) (skip : List Addr) (wf : WF base t conn) (p : Addr)
    (h : closestPeer base sp conn t incl ro skip = .found p) :
    p ∈ eligibleOf conn ro skip ∧ (∀ q ∈ eligibleOf conn ro skip, xorNat t p ≤ xorNat t q) ∧
    ((incl && sp) = true → xorNat t p < xorNat t base) := by
  have := C23_closestPeer_cases base sp conn t incl ro skip wf
  simp only [h] at this
  rcases this with ⟨_, h1⟩ | ⟨_, _, _, h1⟩ | ⟨_, hs, c, h1, h2, h3⟩ | ⟨_, _, h1, _⟩ | ⟨_, _, c, h1, h2, h3, h4⟩
  · cases h1
  · cases h1
  · cases h1; exact ⟨h2, h3, fun h => by simp [hs] at h⟩
  · cases h1
  · cases h1; exact ⟨h2, h3, fun _ => h4⟩

/-- clause 2: "want self" exactly when something is connected, self is eligible and self is
strictly nearer than every eligible peer -/
theorem C23_want_self_iff (base : Addr) (sp : Bool) (conn : List (Addr × Bool)) (t : Addr)
    (incl ro : Bool) (skip : List Addr) (wf : WF base t conn) :
    closestPeer base sp conn t incl ro skip = .wantSelf ↔
      conn ≠ [] ∧ (incl && sp) = true ∧ ∀ q ∈ eligibleOf conn ro skip, xorNat t base < xorNat t q := by
  have := C23_closestPeer_cases base sp conn t incl ro skip wf
  simp only [] at this
  constructor
  · intro h
    rw [h] at this
    rcases this with ⟨_, h1⟩ | ⟨_, _, _, h1⟩ | ⟨_, _, c, h1, _⟩ | ⟨a, b, _, c⟩ | ⟨_, _, c, h1, _⟩
    · cases h1
    · cases h1
    · cases h1
    · exact ⟨a, b, c⟩
    · cases h1
  · rintro ⟨hne, hs, hall⟩
    rcases this with ⟨a, _⟩ | ⟨_, b, _⟩ | ⟨_, b, _⟩ | ⟨_, _, h1, _⟩ | ⟨_, _, c, _, h2, _, h4⟩
    · exact absurd a hne
    · rw [hs] at b; cases b
    · rw [hs] at b; cases b
    · exact h1
    · have := hall c h2; omega

/-- clause 3: "not found" exactly when nothing is connected, or no peer is eligible and self is not -/
theorem C23_not_found_iff (base : Addr) (sp : Bool) (conn : List (Addr × Bool)) (t : Addr)
    (incl ro : Bool) (skip : List Addr) (wf : WF base t conn) :
    closestPeer base sp conn t incl ro skip = .notFound ↔
      conn = [] ∨ (eligibleOf conn ro skip = [] ∧ (incl && sp) = false) := by
  have := C23_closestPeer_cases base sp conn t incl ro skip wf
  simp only [] at this
  constructor
  · intro h
    rw [h] at this
    rcases this with ⟨a, _⟩ | ⟨_, b, c, _⟩ | ⟨_, _, c, h1, _⟩ | ⟨_, _, h1, _⟩ | ⟨_, _, c, h1, _⟩
    · exact Or.inl a
    · exact Or.inr ⟨c, b⟩
    · cases h1
    · cases h1
    · cases h1
  · intro h
    rcases this with ⟨_, h1⟩ | ⟨_, _, _, h1⟩ | ⟨a, _, c, _, h2, _⟩ | ⟨a, b, _⟩ | ⟨a, b, _⟩
    · exact h1
    · exact h1
    · rcases h with h | ⟨h, _⟩
      · exact absurd h a
      · rw [h] at h2; cases h2
    · rcases h with h | ⟨_, h⟩
      · exact absurd h a
      · rw [h] at b; cases b
    · rcases h with h | ⟨_, h⟩
      · exact absurd h a
      · rw [h] at b; cases b

/-- clause 4: `ClosestPeers` returns eligible, pairwise distinct peers in non-decreasing distance order -/
theorem C23_closestPeers_sorted_distinct (base : Addr) (sp : Bool) (conn : List (Addr × Bool)) (t : Addr)
    (ro : Bool) (wf : WF base t conn) : ∀ (n : Nat) (skip : List Addr),
    (∀ x ∈ closestPeers base sp conn t ro n skip, x ∈ eligibleOf conn ro skip) ∧
    (closestPeers base sp conn t ro n skip).Pairwise (fun a b => a ≠ b ∧ xorNat t a ≤ xorNat t b) := by
  intro n
  induction n with
  | zero => intro skip; simp [closestPeers]
  | succ n ih =>
    intro skip
    have hcases := C23_closestPeer_cases base sp conn t false ro skip wf
    simp only [Bool.false_and] at hcases
    unfold closestPeers
    rcases hcases with ⟨_, h1⟩ | ⟨_, _, _, h1⟩ | ⟨_, _, c, h1, h2, h3⟩ | ⟨_, b, _⟩ | ⟨_, b, _⟩
    · rw [h1]; simp
    · rw [h1]; simp
    · rw [h1]
      simp only []
      obtain ⟨i1, i2⟩ := ih (skip ++ [c])
      have hsub : ∀ x, x ∈ eligibleOf conn ro (skip ++ [c]) → x ∈ eligibleOf conn ro skip ∧ x ≠ c := by
        intro x hx
        obtain ⟨fl, hm, hr, hs⟩ := (C23_mem_eligibleOf conn ro (skip ++ [c]) x).mp hx
        simp only [List.mem_append, List.mem_singleton, not_or] at hs
        exact ⟨(C23_mem_eligibleOf conn ro skip x).mpr ⟨fl, hm, hr, hs.1⟩, hs.2⟩
      refine ⟨?_, ?_⟩
      · intro x hx
        rcases List.mem_cons.mp hx with rfl | hx
        · exact h2
        · exact (hsub x (i1 x hx)).1
      · refine List.Pairwise.cons ?_ i2
        intro x hx
        have := hsub x (i1 x hx)
        exact ⟨fun e => this.2 e.symm, h3 x this.1⟩
    · cases b
    · cases b

/-! ### non-vacuity: the premise is satisfiable and each outcome occurs -/

private def base : Addr := [0x5a, 0x01]
private def c1 : List (Addr × Bool) := [([0xda, 0x00], true), ([0x5a, 0x03], false), ([0x1a, 0xff], true)]

example : WF base [0x5a, 0x02] c1 :=
  ⟨by decide, by decide, by decide, by decide⟩
example : closestPeer base true c1 [0x5a, 0x02] false false [] = .found [0x5a, 0x03] := by decide
example : closestPeer base true c1 [0x5a, 0x02] false true [] = .found [0x1a, 0xff] := by decide
example : closestPeer base true c1 [0x5a, 0x00] true false [] = .wantSelf := by decide
example : closestPeer base false c1 [0x5a, 0x00] true false [[0x5a, 0x03], [0xda, 0x00], [0x1a, 0xff]] = .notFound := by decide
example : closestPeers base true c1 [0x5a, 0x02] false 5 [] = [[0x5a, 0x03], [0x1a, 0xff], [0xda, 0x00]] := by decide

end Aurora.Props.C23
