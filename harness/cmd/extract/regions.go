package main

// Atomic-region facts (properties C17, C30, C32, C33): for a named function, the sequence of
// lock / unlock events of ONE mutex expression and of read / write events of a few shared
// resources, in source order, as an instruction list of lean/Aurora/Model/LockSetProg.lean.
// The Props files check on these lists (by `decide`) that the check and the act of a
// check-then-act sequence sit in one critical section (Model/AtomicRegion.lean: `okFrom`) or
// that all listed accesses lie in a single critical section (`oneRegion`).
//
// What is recognised — everything else makes the function NOT recognised, which fails the obligation:
//
//	<mutex>.Lock()                     as a top-level statement of the function body
//	<mutex>.Unlock()                   as a top-level statement
//	defer <mutex>.Unlock()             as a top-level statement directly governed by a preceding Lock
//	                                   (the unlock event is emitted at the end of the function)
//
// where <mutex> is compared as printed source text (e.g. `s.lock`, `a.accountingPeersMu`, `traffic`
// for an embedded sync.Mutex).  A Lock/Unlock/RLock/TryLock… of that mutex anywhere else (inside a
// branch, a loop, a closure, an expression), a `return` between a Lock and a non-deferred Unlock, or a
// resource event inside a function literal / go / defer statement → not recognised.
//
// Resource events are matched on printed source text as well:
//
//	call   <fun>(<arg0>…)   with fun == pattern and arg0 starting with the given prefix  → read or write
//	index  <expr>[…]        with expr == pattern: on the left of `=` a write, elsewhere a read
//	field  <expr>           with expr == pattern: on the left of `=` a write, elsewhere a read
//
// Branches are linearised (every event of every branch is listed in source order); since no lock
// operation may occur inside a branch, every real execution performs a subsequence of the listed
// resource events between the same lock operations.  In an assignment the right-hand side is
// listed before the left-hand side.

import (
	"fmt"
	"go/ast"
	"go/parser"
	"go/token"
	"path/filepath"
	"strings"
)

type resPat struct {
	kind  string // call | index | field
	text  string // printed function / indexed / selector expression
	arg0  string // call: required prefix of the printed first argument ("" = any)
	write bool   // call only: the call writes the resource
	loc   int
}

type regionFunc struct {
	fn    string // function name
	recv  string // receiver type name ("" = plain function)
	mutex string // printed mutex expression
	pats  []resPat
}

type regionSpec struct {
	out   string
	ns    string
	file  string
	doc   string
	funcs []regionFunc
}

func init() {
	cs := regionSpec{
		out: "ChequeStoreRegions.lean", ns: "ChequeStoreRegions", file: "pkg/settlement/traffic/cheque/chequestore.go",
		doc: "lock 0 = chequeStore.lock; location 0 = the persisted record traffic_last_received_cheque_<issuer> " +
			"(read: s.store.Get(lastReceivedChequeKey(…)), write: s.store.Put(lastReceivedChequeKey(…)))",
		funcs: []regionFunc{{fn: "ReceiveCheque", recv: "chequeStore", mutex: "s.lock", pats: []resPat{
			{kind: "call", text: "s.store.Get", arg0: "lastReceivedChequeKey(", loc: 0},
			{kind: "call", text: "s.store.Put", arg0: "lastReceivedChequeKey(", write: true, loc: 0},
		}}},
	}
	ap := regionSpec{
		out: "AccountingMapRegions.lean", ns: "AccountingMapRegions", file: "pkg/accounting/accounting.go",
		doc: "lock 0 = Accounting.accountingPeersMu; location 0 = the entry of the peer in the map Accounting.accountingPeers " +
			"(read: a.accountingPeers[…] in an expression, write: a.accountingPeers[…] = …)",
		funcs: []regionFunc{{fn: "getAccountingPeer", recv: "Accounting", mutex: "a.accountingPeersMu", pats: []resPat{
			{kind: "index", text: "a.accountingPeers", loc: 0},
		}}},
	}
	upd := func(fn, mutex, field, put string, memLoc, stLoc int) regionFunc {
		return regionFunc{fn: fn, recv: "Service", mutex: mutex, pats: []resPat{
			{kind: "field", text: mutex + "." + field, loc: memLoc},
			{kind: "call", text: "s.chequeStore." + put, write: true, loc: stLoc},
		}}
	}
	tr := regionSpec{
		out: "TrafficRefreshRegions.lean", ns: "TrafficRefreshRegions", file: "pkg/settlement/traffic/traffic.go",
		doc: "lock 0 = the per-peer Traffic mutex (embedded sync.Mutex); locations: 0 = persisted retrieve total " +
			"(chequeStore.GetRetrieveTraffic / PutRetrieveTraffic), 1 = persisted transfer total (GetTransferTraffic / PutTransferTraffic), " +
			"2 = Traffic.retrieveTraffic, 3 = Traffic.transferTraffic",
		funcs: []regionFunc{
			{fn: "trafficPeerChequeUpdate", recv: "Service", mutex: "traffic", pats: []resPat{
				{kind: "call", text: "s.chequeStore.GetRetrieveTraffic", loc: 0},
				{kind: "call", text: "s.chequeStore.GetTransferTraffic", loc: 1},
				{kind: "field", text: "traffic.retrieveTraffic", loc: 2},
				{kind: "field", text: "traffic.transferTraffic", loc: 3},
			}},
			upd("PutRetrieveTraffic", "chainTraffic", "retrieveTraffic", "PutRetrieveTraffic", 2, 0),
			upd("PutTransferTraffic", "localTraffic", "transferTraffic", "PutTransferTraffic", 3, 1),
		},
	}
	ciPats := []resPat{
		{kind: "call", text: "ci.pyramidCheck", loc: 0},
		{kind: "call", text: "ci.getPyramid", loc: 0},
		{kind: "call", text: "ci.getPyramidHash", loc: 0},
		{kind: "call", text: "ci.chunkPutChanUpdate", write: true, loc: 0},
		{kind: "call", text: "ci.DelChunkInfoSource", write: true, loc: 0},
		{kind: "call", text: "ci.queues.Delete", write: true, loc: 0},
		{kind: "call", text: "ci.CancelFindChunkInfo", write: true, loc: 0},
	}
	cir := regionSpec{
		out: "ChunkInfoRegions.lean", ns: "ChunkInfoRegions", file: "pkg/chunkinfo/chunkinfo.go",
		doc: "lock 0 = ChunkInfo.syncLk; location 0 = the records chunkinfo keeps for the file (pyramid, availability, discovery, source tables, " +
			"pull queue, pending finder) — reads: ci.pyramidCheck / ci.getPyramid / ci.getPyramidHash, writes: ci.chunkPutChanUpdate(…) " +
			"(every table update goes through it), ci.DelChunkInfoSource, ci.queues.Delete, ci.CancelFindChunkInfo",
		funcs: []regionFunc{
			{fn: "OnChunkRetrieved", recv: "ChunkInfo", mutex: "ci.syncLk", pats: ciPats},
			{fn: "OnChunkTransferred", recv: "ChunkInfo", mutex: "ci.syncLk", pats: ciPats},
			{fn: "DelFile", recv: "ChunkInfo", mutex: "ci.syncLk", pats: ciPats},
			{fn: "DelDiscover", recv: "ChunkInfo", mutex: "ci.syncLk", pats: ciPats},
		},
	}
	for _, sp := range []regionSpec{cs, ap, tr, cir} {
		sp := sp
		extraGenerators[sp.out] = func(repo string) (string, error) { return genRegions(repo, sp) }
	}
}

// srcText prints the few expression forms that occur in the patterns; anything else prints as "?".
func srcText(e ast.Expr) string {
	switch x := e.(type) {
	case *ast.Ident:
		return x.Name
	case *ast.SelectorExpr:
		return srcText(x.X) + "." + x.Sel.Name
	case *ast.CallExpr:
		var a []string
		for _, y := range x.Args {
			a = append(a, srcText(y))
		}
		return srcText(x.Fun) + "(" + strings.Join(a, ", ") + ")"
	case *ast.IndexExpr:
		return srcText(x.X) + "[" + srcText(x.Index) + "]"
	case *ast.ParenExpr:
		return "(" + srcText(x.X) + ")"
	case *ast.StarExpr:
		return "*" + srcText(x.X)
	case *ast.UnaryExpr:
		return x.Op.String() + srcText(x.X)
	case *ast.BasicLit:
		return x.Value
	}
	return "?"
}

type regionFacts struct {
	name   string
	ok     bool
	why    string
	events []lockEvent
}

func genRegions(repo string, sp regionSpec) (string, error) {
	fset := token.NewFileSet()
	f, err := parser.ParseFile(fset, filepath.Join(repo, sp.file), nil, 0)
	if err != nil {
		return "", err
	}
	var facts []regionFacts
	for _, rf := range sp.funcs {
		var fd *ast.FuncDecl
		for _, d := range f.Decls {
			x, ok := d.(*ast.FuncDecl)
			if !ok || x.Body == nil || x.Name.Name != rf.fn {
				continue
			}
			rt := ""
			if x.Recv != nil && len(x.Recv.List) == 1 {
				rt = typeName(x.Recv.List[0].Type)
			}
			if rt == rf.recv {
				fd = x
			}
		}
		if fd == nil {
			facts = append(facts, regionFacts{name: rf.fn, ok: false, why: "function not found"})
			continue
		}
		facts = append(facts, analyseRegion(fset, fd, rf))
	}
	var sb strings.Builder
	fmt.Fprintf(&sb, "-- GENERATED by harness/cmd/extract (regions.go) from /repo/%s on every check run — do not edit\n", sp.file)
	sb.WriteString("import Aurora.Model.LockSetProg\n")
	fmt.Fprintf(&sb, "namespace Aurora.Generated.%s\nopen Aurora.LockSetProg\n\n", sp.ns)
	fmt.Fprintf(&sb, "/-- %s -/\ndef lockOf : Nat → Nat := fun _ => 0\n\n", sp.doc)
	for _, ff := range facts {
		var ev []string
		for _, e := range ff.events {
			switch e.kind {
			case "lock":
				ev = append(ev, ".lock 0")
			case "unlock":
				ev = append(ev, ".unlock 0")
			default:
				ev = append(ev, fmt.Sprintf(".access %d %v", e.loc, e.write))
			}
		}
		why := ""
		if !ff.ok {
			why = "  -- NOT RECOGNISED: " + ff.why
		}
		fmt.Fprintf(&sb, "/-- `%s`: (locking pattern recognised?, lock / unlock / access events in source order) -/\n", ff.name)
		fmt.Fprintf(&sb, "def %s : Bool × Body :=\n  (%v, [%s])%s\n\n", ff.name, ff.ok, strings.Join(ev, ", "), why)
	}
	fmt.Fprintf(&sb, "end Aurora.Generated.%s\n", sp.ns)
	return sb.String(), nil
}

func analyseRegion(fset *token.FileSet, fd *ast.FuncDecl, rf regionFunc) regionFacts {
	ff := regionFacts{name: rf.fn, ok: true}
	line := func(n ast.Node) int { return fset.Position(n.Pos()).Line }
	bad := func(format string, a ...interface{}) {
		if ff.ok {
			ff.ok = false
			ff.why = fmt.Sprintf(format, a...)
		}
	}
	// mutexCall: <mutex>.<method>()
	mutexCall := func(e ast.Expr) (string, bool) {
		c, ok := e.(*ast.CallExpr)
		if !ok {
			return "", false
		}
		se, ok := c.Fun.(*ast.SelectorExpr)
		if !ok || srcText(se.X) != rf.mutex {
			return "", false
		}
		switch se.Sel.Name {
		case "Lock", "Unlock", "RLock", "RUnlock", "TryLock", "TryRLock":
			return se.Sel.Name, true
		}
		return "", false
	}
	matchCall := func(c *ast.CallExpr) (resPat, bool) {
		t := srcText(c.Fun)
		for _, p := range rf.pats {
			if p.kind == "call" && p.text == t {
				if p.arg0 == "" || (len(c.Args) > 0 && strings.HasPrefix(srcText(c.Args[0]), p.arg0)) {
					return p, true
				}
			}
		}
		return resPat{}, false
	}
	matchPlace := func(e ast.Expr) (resPat, bool) { // index / field patterns
		switch x := e.(type) {
		case *ast.IndexExpr:
			t := srcText(x.X)
			for _, p := range rf.pats {
				if p.kind == "index" && p.text == t {
					return p, true
				}
			}
		case *ast.SelectorExpr:
			t := srcText(x)
			for _, p := range rf.pats {
				if p.kind == "field" && p.text == t {
					return p, true
				}
			}
		}
		return resPat{}, false
	}
	heldPlain, deferred := 0, 0
	emit := func(kind string, loc int, write bool, n ast.Node) {
		ff.events = append(ff.events, lockEvent{kind: kind, loc: loc, write: write, line: line(n)})
	}
	// walk lists the resource events of a node in evaluation order; lock operations are not allowed here
	var walk func(n ast.Node)
	walk = func(n ast.Node) {
		if n == nil {
			return
		}
		ast.Inspect(n, func(m ast.Node) bool {
			switch x := m.(type) {
			case *ast.FuncLit, *ast.GoStmt, *ast.DeferStmt:
				// code that runs later / elsewhere: must not touch the mutex or the resources
				ast.Inspect(x, func(k ast.Node) bool {
					switch y := k.(type) {
					case *ast.CallExpr:
						if _, ok := mutexCall(y); ok {
							bad("line %d: mutex operation inside a closure / go / defer statement", line(y))
						}
						if _, ok := matchCall(y); ok {
							bad("line %d: resource access inside a closure / go / defer statement", line(y))
						}
					case ast.Expr:
						if _, ok := matchPlace(y); ok {
							bad("line %d: resource access inside a closure / go / defer statement", line(y))
						}
					}
					return true
				})
				return false
			case *ast.AssignStmt:
				for _, r := range x.Rhs {
					walk(r)
				}
				for _, l := range x.Lhs {
					if p, ok := matchPlace(l); ok && (x.Tok == token.ASSIGN || x.Tok == token.DEFINE) {
						if ie, isIdx := l.(*ast.IndexExpr); isIdx {
							walk(ie.Index)
						}
						emit("access", p.loc, true, l)
					} else if ok { // op-assignment: read then write
						emit("access", p.loc, false, l)
						emit("access", p.loc, true, l)
					} else {
						walk(l)
					}
				}
				return false
			case *ast.IncDecStmt:
				if p, ok := matchPlace(x.X); ok {
					emit("access", p.loc, false, x.X)
					emit("access", p.loc, true, x.X)
					return false
				}
			case *ast.UnaryExpr:
				if x.Op == token.AND {
					if _, ok := matchPlace(x.X); ok {
						bad("line %d: address of a tracked resource taken", line(x))
					}
				}
			case *ast.ReturnStmt:
				if heldPlain > 0 {
					bad("line %d: return between Lock and a non-deferred Unlock", line(x))
				}
			case *ast.CallExpr:
				if meth, ok := mutexCall(x); ok {
					bad("line %d: %s.%s() outside the recognised top-level patterns", line(x), rf.mutex, meth)
					return false
				}
				if p, ok := matchCall(x); ok {
					for _, a := range x.Args {
						walk(a)
					}
					emit("access", p.loc, p.write, x)
					return false
				}
			case *ast.IndexExpr:
				if p, ok := matchPlace(x); ok {
					walk(x.Index)
					emit("access", p.loc, false, x)
					return false
				}
			case *ast.SelectorExpr:
				if p, ok := matchPlace(x); ok {
					emit("access", p.loc, false, x)
					return false
				}
				if srcText(x) == rf.mutex {
					bad("line %d: the mutex is used as a value", line(x))
				}
			}
			return true
		})
	}
	for _, st := range fd.Body.List {
		switch x := st.(type) {
		case *ast.ExprStmt:
			if meth, ok := mutexCall(x.X); ok {
				switch meth {
				case "Lock":
					if heldPlain > 0 || deferred > 0 {
						bad("line %d: nested Lock", line(x))
					}
					heldPlain++
					emit("lock", 0, false, x)
				case "Unlock":
					if heldPlain == 0 {
						bad("line %d: Unlock without a preceding top-level Lock", line(x))
					} else {
						heldPlain--
					}
					emit("unlock", 0, false, x)
				default:
					bad("line %d: %s.%s()", line(x), rf.mutex, meth)
				}
				continue
			}
			walk(x)
		case *ast.DeferStmt:
			if meth, ok := mutexCall(x.Call); ok {
				if meth != "Unlock" || heldPlain == 0 {
					bad("line %d: defer %s.%s() not governed by a preceding Lock", line(x), rf.mutex, meth)
					continue
				}
				heldPlain--
				deferred++
				continue
			}
			walk(x)
		default:
			walk(st)
		}
	}
	if heldPlain > 0 {
		bad("function ends holding the lock")
	}
	for ; deferred > 0; deferred-- {
		ff.events = append(ff.events, lockEvent{kind: "unlock", line: fset.Position(fd.End()).Line})
	}
	return ff
}
