package c37

import (
	"bufio"
	"bytes"
	"fmt"
	"io"
	"os"
	"os/exec"
	"strings"
	"time"
)

// The chunkinfo service applies a peer's ChunkInfoResp in its own worker goroutines
// (chunkPutChanUpdateListen): a panic there — updateChunkInfo on the peer's presence bytes — cannot be
// recovered by anybody and takes the whole node (here: the harness) down.  So a message that reaches
// updateChunkInfo in a branch where peer-controlled lengths meet stored state (a vector is already stored for
// the (root, overlay); or the first vector is shorter than the file needs) is first applied in a MIRROR
// process: this binary re-executed with C37_MIRROR_CI set, which runs the same op lines on its own real
// service (set-up ops and earlier messages of the case are replayed when the mirror takes the case over, every
// later chunkinfo op of the case is sent to it before it runs here).  If the mirror dies with a Go panic, the op's
// outcome is `panic` (oracle clause `chunkinfo-<shape>-worker-goroutine`) and the real handler is not called
// in this process.
const mirrorEnv = "C37_MIRROR_CI"

var inMirror = os.Getenv(mirrorEnv) != ""

func init() {
	if !inMirror {
		return
	}
	rn := &runner{}
	rd := bufio.NewReaderSize(os.Stdin, 1<<20)
	for {
		line, err := rd.ReadString('\n')
		if f := strings.Fields(line); len(f) > 0 {
			if f[0] == "#reset" {
				rn.dropCi()
			} else if out := rn.stepCi(nullCtx{}, f); needsReset(out) {
				rn.dropCi()
			}
			fmt.Fprintln(os.Stdout, "k")
		}
		if err != nil {
			os.Exit(0)
		}
	}
}

type ciMirror struct {
	cmd    *exec.Cmd
	in     io.WriteCloser
	out    *bufio.Reader
	stderr bytes.Buffer
}

func startMirror() *ciMirror {
	exe, err := os.Executable()
	if err != nil {
		return nil
	}
	m := &ciMirror{}
	m.cmd = exec.Command(exe, "C37", "rule")
	m.cmd.Env = append(os.Environ(), mirrorEnv+"=1")
	m.cmd.Stderr = &m.stderr
	if m.in, err = m.cmd.StdinPipe(); err != nil {
		return nil
	}
	po, err := m.cmd.StdoutPipe()
	if err != nil {
		return nil
	}
	m.out = bufio.NewReader(po)
	if err := m.cmd.Start(); err != nil {
		return nil
	}
	return m
}

// send runs one op line in the mirror.  died: the mirror process ended with a Go panic / fatal error (detail =
// panic message and the innermost aurorafs frame); usable=false: the mirror cannot be used any more for
// another reason (could not be run, no answer in time) and the caller goes on without it.
func (m *ciMirror) send(line string) (died bool, detail string, usable bool) {
	if _, err := io.WriteString(m.in, line+"\n"); err == nil {
		ans := make(chan error, 1)
		go func() {
			_, err := m.out.ReadString('\n')
			ans <- err
		}()
		select {
		case err := <-ans:
			if err == nil {
				return false, "", true
			}
		case <-time.After(60 * time.Second):
			m.stop()
			return false, "", false
		}
	}
	// the pipe broke: the process is gone (or going)
	_ = m.in.Close()
	_ = m.cmd.Wait()
	msg := m.stderr.String()
	if !strings.Contains(msg, "panic") && !strings.Contains(msg, "fatal error") {
		return false, "", false
	}
	return true, panicDetail(msg), false
}

func (m *ciMirror) stop() {
	_ = m.in.Close()
	if m.cmd.Process != nil {
		_ = m.cmd.Process.Kill()
	}
	_ = m.cmd.Wait()
}

// panicDetail: `<panic line> in <innermost function of the aurorafs module on the dying goroutine's stack>`
func panicDetail(stderr string) string {
	lines := strings.Split(stderr, "\n")
	msg, site := "", ""
	for i, l := range lines {
		if msg == "" && (strings.HasPrefix(l, "panic:") || strings.HasPrefix(l, "fatal error:")) {
			msg = strings.TrimSpace(l)
			for _, f := range lines[i+1:] {
				if strings.HasPrefix(f, "github.com/gauss-project/aurorafs/") {
					site = strings.TrimPrefix(f, "github.com/gauss-project/aurorafs/")
					if j := strings.LastIndex(site, "("); j > 0 {
						site = site[:j]
					}
					break
				}
			}
			break
		}
	}
	if msg == "" {
		msg = trunc(strings.TrimSpace(stderr), 160)
	}
	return trunc(msg, 160) + " in " + site
}

// One mirror process serves the whole run: `#reset` makes it drop its service, so that the next case that
// needs it starts from a fresh state there too (a new process is started only after the mirror died).
var mirror struct {
	m     *ciMirror
	owner *ciEnv // the service whose ops the mirror process currently holds
	off   bool   // the mirror cannot be run in this environment: everything runs in-process only
}

func (e *ciEnv) stopMirror() {
	if mirror.owner == e {
		mirror.owner = nil
	}
}

// shadow is called right before an op is executed on the real service in this process.  It returns false when
// the mirror process died on the op (reported with ctx.Fail under `clause`): the caller then answers `panic`
// without touching its own service.  risky: the op must be tried in the mirror first (the mirror takes over
// this service's history if it does not hold it yet); from then on every op of the service goes there first.
func (e *ciEnv) shadow(ctx octx, line string, risky bool, clause string) bool {
	if inMirror {
		return true
	}
	if mirror.off || (!risky && mirror.owner != e) {
		e.hist = append(e.hist, line)
		return true
	}
	lost := func(died bool, detail, at string) bool { // the mirror is gone: report if it died of a panic
		mirror.m, mirror.owner = nil, nil
		if died {
			ctx.Fail(clause, "the node process does not survive this %s: a goroutine of the service panics (seen in the mirror process): %s", at, detail)
			return false
		}
		mirror.off = true
		e.hist = append(e.hist, line)
		return true
	}
	if mirror.owner != e {
		if mirror.m == nil {
			if mirror.m = startMirror(); mirror.m == nil {
				return lost(false, "", "")
			}
		}
		mirror.owner = e
		for _, h := range append([]string{"#reset"}, e.hist...) {
			if died, detail, usable := mirror.m.send(h); died || !usable {
				return lost(died, detail, "case (while replaying its earlier op "+trunc(h, 60)+")")
			}
		}
	}
	if died, detail, usable := mirror.m.send(line); died || !usable {
		return lost(died, detail, "message")
	}
	e.hist = append(e.hist, line)
	return true
}
