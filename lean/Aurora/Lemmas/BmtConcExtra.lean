import Aurora.Lemmas.BmtConcMain
/-! Termination measure, slot-level race freedom and the pool model. -/
namespace Aurora.BmtConc
open Aurora.Bmt

/-! ## termination measure -/

theorem map_upd_ge (f : Nat → Nat) (t v n : Nat) (ht : n ≤ t) :
    (List.range n).map (upd f t v) = (List.range n).map f := by
  apply List.map_congr_left
  intro x hx
  rw [List.mem_range] at hx
  exact upd_ne _ _ _ _ (by omega)

theorem sum_upd_lt (f : Nat → Nat) (t v n : Nat) (ht : t < n) (hv : v < f t) :
    ((List.range n).map (upd f t v)).sum < ((List.range n).map f).sum := by
  induction n with
  | zero => omega
  | succ n ih =>
    simp only [List.range_succ, List.map_append, List.sum_append, List.map_cons, List.map_nil, List.sum_cons,
      List.sum_nil, Nat.add_zero]
    by_cases e : t = n
    · subst e
      rw [map_upd_ge f t v t (Nat.le_refl _), upd_same]; omega
    · have := ih (by omega)
      rw [upd_ne _ _ _ _ (by omega : n ≠ t)]; omega

theorem rank_step {cfg : Cfg} {s s' : St} {ph : Nat → Nat → Ph} {t : Nat}
    (inv : Inv cfg s ph) (ht : t ≤ cfg.pos) (h : StepRel cfg s t s') :
    ∃ p', s'.pc = upd s.pc t p' ∧ rank cfg.d p' < rank cfg.d (s.pc t) := by
  have hT := inv.thr t ht
  cases h with
  | init hpc => exact ⟨_, rfl, by rw [hpc]; simp [rank]⟩
  | send c k sv v hpc hc hres hvv =>
    refine ⟨_, rfl, ?_⟩
    rw [hpc] at hT ⊢
    cases sv with
    | none => simp only [TOK] at hT; simp only [rank]; omega
    | some v' => simp only [TOK] at hT; simp only [rank]; omega
  | finNil c k hpc hc _ =>
    refine ⟨_, rfl, ?_⟩
    rw [hpc] at hT ⊢; simp only [TOK] at hT; simp only [rank]; omega
  | wrL c k sv hpc hc htp hk => exact ⟨_, rfl, by rw [hpc]; simp only [rank]; omega⟩
  | wrR c k sv hpc hc htp hk => exact ⟨_, rfl, by rw [hpc]; simp only [rank]; omega⟩
  | fzr c k sv hpc hc htp hk => exact ⟨_, rfl, by rw [hpc]; simp only [rank]; omega⟩
  | fwr c k v hpc hc htp hk => exact ⟨_, rfl, by rw [hpc]; simp only [rank]; omega⟩
  | fnil c k hpc hc htp hk => exact ⟨_, rfl, by rw [hpc]; simp only [rank]; omega⟩
  | zrSome c k v hpc htp =>
    refine ⟨_, rfl, ?_⟩
    rw [hpc] at hT ⊢; simp only [TOK] at hT; simp only [rank]; omega
  | zrNone c k hpc htp =>
    rw [hpc] at hT ⊢; simp only [TOK] at hT
    unfold toggleStep
    simp only
    split
    · refine ⟨_, rfl, ?_⟩
      first | (simp only [rank]; omega) | (split <;> simp only [rank] <;> omega)
    · exact ⟨_, rfl, by simp only [rank]; omega⟩
  | tog c k hpc =>
    rw [hpc] at hT ⊢; simp only [TOK] at hT
    unfold toggleStep
    simp only
    split
    · refine ⟨_, rfl, ?_⟩
      first | (simp only [rank]; omega) | (split <;> simp only [rank] <;> omega)
    · exact ⟨_, rfl, by simp only [rank]; omega⟩
  | hash c j hpc => exact ⟨_, rfl, by rw [hpc]; simp only [rank]; omega⟩

theorem measure_step {cfg : Cfg} {s s' : St} {ph : Nat → Nat → Ph} {t : Nat}
    (inv : Inv cfg s ph) (h : step cfg s t = some s') : measure cfg s' < measure cfg s := by
  obtain ⟨ht, hr⟩ := step_rel h
  obtain ⟨p', hp, hlt⟩ := rank_step inv ht hr
  unfold measure
  rw [hp]
  exact sum_upd_lt (fun t => rank cfg.d (s.pc t)) t (rank cfg.d p') (cfg.pos + 1) (by omega) hlt
    |> (fun h => by
      have e : (fun t_1 => rank cfg.d (upd s.pc t p' t_1)) = upd (fun t => rank cfg.d (s.pc t)) t (rank cfg.d p') := by
        funext x; unfold upd; split <;> rfl
      rw [e]; exact h)

theorem measure_exec {cfg : Cfg} {s s' : St} {ts : List Nat} (hv : cfg.vals ≠ [])
    (hpos : cfg.pos < 2 ^ cfg.d) (h : Exec cfg s ts s') :
    (∃ ph, Inv cfg s ph) → ts.length + measure cfg s' ≤ measure cfg s := by
  induction h with
  | nil => intro _; simp
  | cons hs _ ih =>
    rintro ⟨ph, inv⟩
    have h1 := measure_step inv hs
    have h2 := ih (inv_step hv hpos inv hs)
    simp only [List.length_cons]; omega

theorem measure_init {cfg : Cfg} {s : St} (h : Init cfg s) :
    measure cfg s = (cfg.pos + 1) * (4 * (cfg.d + 1) + 1) := by
  unfold measure
  have : (List.range (cfg.pos + 1)).map (fun t => rank cfg.d (s.pc t))
      = (List.range (cfg.pos + 1)).map (fun _ => 4 * (cfg.d + 1) + 1) := by
    apply List.map_congr_left
    intro x hx
    rw [List.mem_range] at hx
    rw [h.pcs x (by omega)]; rfl
  rw [this, List.map_const', List.sum_replicate_nat, List.length_range]

/-! ## slot-level race freedom -/

/-- a write access: the writer is responsible for child position `(c, x)` of the node, which has
    not arrived yet; it is either the (unique) holder of `x`, or the final thread writing the zero
    hash for the absent right child. -/
theorem acc_write {cfg : Cfg} {s : St} {ph : Nat → Nat → Ph} {t n j : Nat} {side : Bool}
    (inv : Inv cfg s ph) (ht : t ≤ cfg.pos) (h : (n, j, side, true) ∈ accesses cfg s t) :
    ∃ c x, n = c + 1 ∧ c < cfg.d ∧ x / 2 = j ∧ side = (x % 2 != 0) ∧ arr cfg s ph c x = false ∧
      ((x ≤ path cfg.pos c ∧ ph c x = .held t) ∨ (path cfg.pos c < x ∧ t = cfg.pos)) := by
  have hT := inv.thr t ht
  unfold accesses at h
  rw [if_neg (by omega)] at h
  cases hpc : s.pc t with
  | init => rw [hpc] at h; simp at h
  | done => rw [hpc] at h; simp at h
  | wrote c k => rw [hpc] at h; simp at h
  | hash c k => rw [hpc] at h; simp at h
  | top c k sv =>
    rw [hpc] at h hT
    simp only at h
    split at h
    · simp at h
    · next hc =>
      split at h
      · next htp =>
        simp only [List.mem_singleton, Prod.mk.injEq] at h
        obtain ⟨rfl, rfl, rfl, _⟩ := h
        cases sv with
        | none => have := hT.1; omega
        | some v =>
          obtain ⟨_, h2, h3, _, _⟩ := hT
          exact ⟨c, k, rfl, by omega, rfl, rfl, arr_held h2 h3, .inl ⟨h2, h3⟩⟩
      · next htp =>
        have htpos : t = cfg.pos := by omega
        split at h
        · next hk =>
          simp only [List.mem_singleton, Prod.mk.injEq] at h
          obtain ⟨rfl, rfl, rfl, _⟩ := h
          have hkp : k = path cfg.pos c := by
            cases sv with
            | none => exact hT.2.2
            | some v => exact hT.2.2.2.2 htpos
          refine ⟨c, k + 1, rfl, by omega, by omega, ?_, ?_, .inr ⟨by omega, htpos⟩⟩
          · have : (k + 1) % 2 = 1 := by omega
            simp [this]
          · unfold arr; rw [if_neg (by omega), ← htpos, hpc]; simp [fl]
        · next hk =>
          cases sv with
          | none => simp at h
          | some v =>
            simp only [List.mem_singleton, Prod.mk.injEq] at h
            obtain ⟨rfl, rfl, rfl, _⟩ := h
            obtain ⟨_, h2, h3, _, _⟩ := hT
            refine ⟨c, k, rfl, by omega, rfl, ?_, arr_held h2 h3, .inl ⟨h2, h3⟩⟩
            have : k % 2 = 1 := by omega
            simp [this]
  | zr c k sv =>
    rw [hpc] at h hT
    simp only at h
    split at h
    · simp at h
    · cases sv with
      | none => simp at h
      | some v =>
        simp only [List.mem_singleton, Prod.mk.injEq] at h
        obtain ⟨rfl, rfl, rfl, _⟩ := h
        obtain ⟨_, hc, hkp, hk, _, hh⟩ := hT
        obtain ⟨h3, _⟩ := hh v rfl
        refine ⟨c, k, rfl, hc, rfl, ?_, arr_held (by omega) h3, .inl ⟨by omega, h3⟩⟩
        simp [hk]

/-- a read access: the reader has seen both toggles — both children of the node have arrived -/
theorem acc_read {cfg : Cfg} {s : St} {ph : Nat → Nat → Ph} {t n j : Nat} {side : Bool}
    (inv : Inv cfg s ph) (ht : t ≤ cfg.pos) (h : (n, j, side, false) ∈ accesses cfg s t) :
    ∃ c, n = c + 1 ∧ c < cfg.d ∧ s.pc t = .hash n j ∧
      arr cfg s ph c (2 * j) = true ∧ arr cfg s ph c (2 * j + 1) = true := by
  have hT := inv.thr t ht
  unfold accesses at h
  rw [if_neg (by omega)] at h
  cases hpc : s.pc t with
  | init => rw [hpc] at h; simp at h
  | done => rw [hpc] at h; simp at h
  | wrote c k => rw [hpc] at h; simp at h
  | top c k sv =>
    rw [hpc] at h; simp only at h
    split at h
    · simp at h
    · split at h
      · simp at h
      · split at h
        · simp at h
        · cases sv <;> simp at h
  | zr c k sv =>
    rw [hpc] at h; simp only at h
    split at h
    · simp at h
    · cases sv <;> simp at h
  | hash c k =>
    rw [hpc] at h hT
    have : n = c ∧ j = k := by
      simp only [List.mem_cons, Prod.mk.injEq, List.mem_nil_iff, or_false] at h
      rcases h with ⟨a, b, _⟩ | ⟨a, b, _⟩ <;> exact ⟨a, b⟩
    obtain ⟨rfl, rfl⟩ := this
    obtain ⟨h1, h2, h3, h4, _⟩ := hT
    obtain ⟨c, rfl⟩ : ∃ c', n = c' + 1 := ⟨n - 1, by omega⟩
    have hN := inv.node c j (by omega) h3
    obtain ⟨_, _, _, np⟩ := hN
    rw [h4] at np
    have hb : arr cfg s ph c (2 * j) = true ∧ arr cfg s ph c (2 * j + 1) = true := by
      apply Classical.byContradiction
      intro hc
      exact Ph.noConfusion (np.mpr hc)
    exact ⟨c, rfl, by omega, rfl, hb.1, hb.2⟩

theorem no_race {cfg : Cfg} {s : St} {ph : Nat → Nat → Ph} (inv : Inv cfg s ph) {t t' : Nat}
    (ht : t ≤ cfg.pos) (ht' : t' ≤ cfg.pos) (hne : t ≠ t') {n j : Nat} {side w : Bool}
    (h : (n, j, side, true) ∈ accesses cfg s t) (h' : (n, j, side, w) ∈ accesses cfg s t') : False := by
  obtain ⟨c, x, rfl, hc, hx, hs, ha, hd⟩ := acc_write inv ht h
  cases w with
  | true =>
    obtain ⟨c', x', e, hc', hx', hs', ha', hd'⟩ := acc_write inv ht' h'
    have : c' = c := by omega
    subst this
    have : x' = x := by
      rw [hs] at hs'
      have : (x % 2 != 0) = (x' % 2 != 0) := hs'
      have : x % 2 = x' % 2 := by
        rcases Nat.mod_two_eq_zero_or_one x with a | a <;> rcases Nat.mod_two_eq_zero_or_one x' with b | b <;>
          simp [a, b] at this <;> omega
      omega
    subst this
    rcases hd with ⟨_, q⟩ | ⟨p, q⟩ <;> rcases hd' with ⟨p', q'⟩ | ⟨p', q'⟩
    · rw [q] at q'; cases q'; exact hne rfl
    · omega
    · omega
    · omega
  | false =>
    obtain ⟨c', e, hc', _, a1, a2⟩ := acc_read inv ht' h'
    have : c' = c := by omega
    subst this
    rcases Nat.mod_two_eq_zero_or_one x with a | a
    · rw [show 2 * j = x by omega, ha] at a1; cases a1
    · rw [show 2 * j + 1 = x by omega, ha] at a2; cases a2

/-- `accesses` lists every slot a step writes: a slot not listed as written is unchanged. -/
theorem step_writes {cfg : Cfg} {s s' : St} {t : Nat} (h : step cfg s t = some s') (n j : Nat) :
    (s'.left n j ≠ s.left n j → (n, j, false, true) ∈ accesses cfg s t) ∧
    (s'.right n j ≠ s.right n j → (n, j, true, true) ∈ accesses cfg s t) := by
  obtain ⟨ht, hr⟩ := step_rel h
  have hnp : ¬ cfg.pos < t := by omega
  have hupd : ∀ (f : Nat → Nat → Option Bytes) (a b : Nat) (v : Option Bytes),
      upd2 f a b v n j ≠ f n j → n = a ∧ j = b := by
    intro f a b v hne
    apply Classical.byContradiction
    intro hc
    exact hne (upd2_ne _ _ _ _ _ _ hc)
  cases hr with
  | init hpc => exact ⟨fun h => absurd rfl h, fun h => absurd rfl h⟩
  | send c k sv v hpc hc hres hvv => exact ⟨fun h => absurd rfl h, fun h => absurd rfl h⟩
  | finNil c k hpc hc _ => exact ⟨fun h => absurd rfl h, fun h => absurd rfl h⟩
  | fnil c k hpc hc htp hk => exact ⟨fun h => absurd rfl h, fun h => absurd rfl h⟩
  | hash c j hpc => exact ⟨fun h => absurd rfl h, fun h => absurd rfl h⟩
  | tog c k hpc =>
    unfold toggleStep; simp only
    split <;> exact ⟨fun h => absurd rfl h, fun h => absurd rfl h⟩
  | zrNone c k hpc htp =>
    unfold toggleStep; simp only
    split <;> exact ⟨fun h => absurd rfl h, fun h => absurd rfl h⟩
  | wrL c k sv hpc hc htp hk =>
    refine ⟨fun h => ?_, fun h => absurd rfl h⟩
    obtain ⟨rfl, rfl⟩ := hupd _ _ _ _ h
    unfold accesses
    rw [if_neg hnp, hpc]
    simp only
    rw [if_neg (by omega), if_pos htp]
    simp [hk]
  | wrR c k sv hpc hc htp hk =>
    refine ⟨fun h => absurd rfl h, fun h => ?_⟩
    obtain ⟨rfl, rfl⟩ := hupd _ _ _ _ h
    unfold accesses
    rw [if_neg hnp, hpc]
    simp only
    rw [if_neg (by omega), if_pos htp]
    simp; omega
  | fzr c k sv hpc hc htp hk =>
    refine ⟨fun h => absurd rfl h, fun h => ?_⟩
    obtain ⟨rfl, rfl⟩ := hupd _ _ _ _ h
    unfold accesses
    rw [if_neg hnp, hpc]
    simp only
    rw [if_neg (by omega), if_neg htp, if_pos hk]
    simp
  | fwr c k v hpc hc htp hk =>
    refine ⟨fun h => absurd rfl h, fun h => ?_⟩
    obtain ⟨rfl, rfl⟩ := hupd _ _ _ _ h
    unfold accesses
    rw [if_neg hnp, hpc]
    simp only
    rw [if_neg (by omega), if_neg htp, if_neg hk]
    simp
  | zrSome c k v hpc htp =>
    refine ⟨fun h => ?_, fun h => absurd rfl h⟩
    obtain ⟨rfl, rfl⟩ := hupd _ _ _ _ h
    unfold accesses
    rw [if_neg hnp, hpc]
    simp only
    rw [if_neg htp]
    simp

/-! ## pool -/

structure PoolInv (p : Pool) : Prop where
  chan  : p.chan.Nodup
  held  : ∀ g, (p.held g).Nodup
  excl  : ∀ g tr, tr ∈ p.held g → tr ∉ p.chan
  uniq  : ∀ g g' tr, tr ∈ p.held g → tr ∈ p.held g' → g = g'

theorem poolInv_step {p q : Pool} (inv : PoolInv p) (h : PoolStep p q) : PoolInv q := by
  cases h with
  | get g tr rest held =>
    have hc := inv.chan
    rw [List.nodup_cons] at hc
    refine ⟨hc.2, ?_, ?_, ?_⟩
    · intro g'
      by_cases e : g' = g
      · subst e; simp only [upd_same, List.nodup_cons]
        refine ⟨?_, inv.held g'⟩
        intro hm; exact inv.excl g' tr hm (List.mem_cons_self ..)
      · simp only [upd_ne _ _ _ _ e]; exact inv.held g'
    · intro g' tr' hm
      by_cases e : g' = g
      · subst e; simp only [upd_same, List.mem_cons] at hm
        rcases hm with rfl | hm
        · exact hc.1
        · intro hr; exact inv.excl g' tr' hm (List.mem_cons_of_mem _ hr)
      · simp only [upd_ne _ _ _ _ e] at hm
        intro hr; exact inv.excl g' tr' hm (List.mem_cons_of_mem _ hr)
    · intro g1 g2 tr' h1 h2
      by_cases e1 : g1 = g <;> by_cases e2 : g2 = g
      · rw [e1, e2]
      · exfalso
        subst e1; simp only [upd_same, List.mem_cons] at h1; simp only [upd_ne _ _ _ _ e2] at h2
        rcases h1 with rfl | h1
        · exact inv.excl g2 tr' h2 (List.mem_cons_self ..)
        · exact e2 (inv.uniq _ _ _ h2 h1)
      · exfalso
        subst e2; simp only [upd_same, List.mem_cons] at h2; simp only [upd_ne _ _ _ _ e1] at h1
        rcases h2 with rfl | h2
        · exact inv.excl g1 tr' h1 (List.mem_cons_self ..)
        · exact e1 (inv.uniq _ _ _ h1 h2)
      · simp only [upd_ne _ _ _ _ e1] at h1; simp only [upd_ne _ _ _ _ e2] at h2
        exact inv.uniq _ _ _ h1 h2
  | put g tr chan held hm =>
    have hnd := inv.held g
    refine ⟨?_, ?_, ?_, ?_⟩
    · rw [List.nodup_append]
      refine ⟨inv.chan, (by simp), ?_⟩
      intro a ha b hb
      rw [List.mem_singleton] at hb
      subst hb
      intro e; subst e
      exact inv.excl g _ hm ha
    · intro g'
      by_cases e : g' = g
      · subst e; simp only [upd_same]; exact (inv.held g').erase _
      · simp only [upd_ne _ _ _ _ e]; exact inv.held g'
    · intro g' tr' hm' hr
      rw [List.mem_append, List.mem_singleton] at hr
      by_cases e : g' = g
      · subst e; simp only [upd_same, hnd.mem_erase_iff] at hm'
        rcases hr with hr | hr
        · exact inv.excl g' tr' hm'.2 hr
        · exact hm'.1 hr
      · simp only [upd_ne _ _ _ _ e] at hm'
        rcases hr with hr | hr
        · exact inv.excl g' tr' hm' hr
        · subst hr; exact e (inv.uniq _ _ _ hm' hm)
    · intro g1 g2 tr' h1 h2
      have m1 : tr' ∈ held g1 := by
        by_cases e : g1 = g
        · subst e; simp only [upd_same] at h1; exact List.mem_of_mem_erase h1
        · simp only [upd_ne _ _ _ _ e] at h1; exact h1
      have m2 : tr' ∈ held g2 := by
        by_cases e : g2 = g
        · subst e; simp only [upd_same] at h2; exact List.mem_of_mem_erase h2
        · simp only [upd_ne _ _ _ _ e] at h2; exact h2
      exact inv.uniq _ _ _ m1 m2

theorem poolInv_reach {p q : Pool} (h : PoolReach p q) (inv : PoolInv p) : PoolInv q := by
  induction h with
  | refl => exact inv
  | tail _ hs ih => exact poolInv_step ih hs

end Aurora.BmtConc
