package c37

import (
	"context"
	"strings"
	"time"

	"github.com/gauss-project/aurorafs/pkg/addressbook"
	"github.com/gauss-project/aurorafs/pkg/boson"
	"github.com/gauss-project/aurorafs/pkg/multicast"
	"github.com/gauss-project/aurorafs/pkg/multicast/model"
	mcpb "github.com/gauss-project/aurorafs/pkg/multicast/pb"
	"github.com/gauss-project/aurorafs/pkg/p2p"
	p2pmock "github.com/gauss-project/aurorafs/pkg/p2p/mock"
	rtmock "github.com/gauss-project/aurorafs/pkg/routetab/mock"
	mockstate "github.com/gauss-project/aurorafs/pkg/statestore/mock"
	"github.com/gauss-project/aurorafs/pkg/subscribe"

	"verifharness/core"
)

// ---- multicast: HandshakeIncoming, onFindGroup, onMulticast, onNotify, onMessage handlers; Handshake, getGroupNode, Send, SendReceive client reads

// mcRoute: peers whose name starts with "mc-n" are direct neighbours.
type mcRoute struct {
	rtmock.MockRouteTable
	nb map[string]bool
}

func (r *mcRoute) IsNeighbor(a boson.Address) bool { return r.nb[a.String()] }

type mcEnv struct {
	svc  *multicast.Service
	st   *fakeStreamer
	kb   *kadBox
	self boson.Address
	gids map[string]bool
}

var mcNeighbours = []string{"mc-n0", "mc-n1", "mc-n2"}

func newMcEnv() *mcEnv {
	self := overlayOf("mc-self")
	st := &fakeStreamer{}
	ab := addressbook.New(mockstate.NewStateStore())
	kb := newKad(self, ab, noDiscovery{}, nil, nil, nil)
	rt := &mcRoute{nb: map[string]bool{}}
	for _, n := range mcNeighbours {
		rt.nb[overlayOf(n).String()] = true
	}
	svc := multicast.NewService(self, fullMode, p2pmock.New(), st, kb.kad, rt, noLog, subscribe.NewSubPub(), multicast.Option{Dev: true})
	return &mcEnv{svc: svc, st: st, kb: kb, self: self, gids: map[string]bool{}}
}

func (e *mcEnv) close() { e.kb.close() }

func annList(bs [][]byte) []string {
	t := []string{itoa(int64(len(bs)))}
	for _, b := range bs {
		t = append(t, hx(b))
	}
	return t
}

func (rn *runner) stepMc(ctx *core.Ctx, op []string) string {
	if rn.mc == nil {
		rn.mc = newMcEnv()
	}
	e := rn.mc
	bg := context.Background()
	if op[0] == "mc.join" && len(op) == 3 && (op[2] == "sub=0" || op[2] == "sub=1") {
		// set-up: the node joins group op[1] (hex gid); sub=1: a local client subscribed to its group messages
		gb, err := core.UnHex(op[1])
		if err != nil || len(gb) != 32 {
			return "bad-op"
		}
		o := run(func() error {
			if err := e.svc.AddGroup([]model.ConfigNodeGroup{{Name: op[1], GType: model.GTypeJoin}}); err != nil {
				return err
			}
			e.svc.VerifSetGroupMsgSub(boson.NewAddress(gb), op[2] == "sub=1")
			return nil
		})
		time.Sleep(5 * time.Millisecond)
		report(ctx, o, "multicast-setup-join", "AddGroup")
		return o.class
	}
	if len(op) < 3 {
		return "bad-op"
	}
	stream, err := core.UnHex(op[2])
	if err != nil {
		return "bad-op"
	}
	peer := p2p.Peer{Address: overlayOf(op[1]), Mode: fullMode}
	specs := e.svc.Protocol().StreamSpecs // handshake, findGroup, multicast, notify, message
	fr := newFrameReader(stream)
	e.st.setReply(nil)
	var gids [][]byte
	var o outcome
	switch {
	case op[0] == "mc.handshake" && len(op) == 3:
		var m mcpb.GIDs
		if ok, _ := fr.next(&m); !ok {
			ctx.Annotate("X")
		} else {
			ctx.Annotate(append([]string{"H"}, annList(m.Gid)...)...)
			gids = m.Gid
		}
		o = run(func() error { return specs[0].Handler(bg, peer, newStream(stream)) })
		report(ctx, o, "multicast-handshake", "multicast.HandshakeIncoming")
	case op[0] == "mc.findgroup" && len(op) == 4:
		reply, err := core.UnHex(op[3])
		if err != nil {
			return "bad-op"
		}
		var m mcpb.FindGroupReq
		if ok, _ := fr.next(&m); !ok {
			ctx.Annotate("X")
		} else {
			// oracle fact (group membership is C38's subject): can the node answer from its own peer lists?
			ans := false
			if gp, err := e.svc.GetGroupPeers(boson.NewAddress(m.Gid).String()); err == nil && gp != nil {
				inPath := func(a boson.Address) bool {
					if a.Equal(e.self) {
						return true
					}
					for _, p := range m.Paths {
						if a.Equal(boson.NewAddress(p)) {
							return true
						}
					}
					return false
				}
				if len(gp.Connected) > 0 && m.Limit <= 0 {
					ans = true
				}
				for _, a := range append(append([]boson.Address(nil), gp.Connected...), gp.Keep...) {
					if !inPath(a) {
						ans = true
					}
				}
			}
			ctx.Annotate(append([]string{"F", hx(m.Gid), itoa(int64(m.Limit)), itoa(int64(m.Ttl)), core.B(ans)}, annList(m.Paths)...)...)
			gids = [][]byte{m.Gid}
			var fg mcpb.FindGroupResp
			if ok, _ := newFrameReader(reply).next(&fg); !ok {
				ctx.Annotate("X")
			} else {
				ctx.Annotate(append([]string{"G"}, annList(fg.Addresses)...)...)
			}
		}
		e.st.setReply(reply)
		o = run(func() error { return specs[1].Handler(bg, peer, newStream(stream)) })
		report(ctx, o, "multicast-findgroup", "multicast.onFindGroup / getGroupNode")
	case op[0] == "mc.multicast" && len(op) == 3:
		var m mcpb.MulticastMsg
		if ok, _ := fr.next(&m); !ok {
			ctx.Annotate("X")
		} else {
			ctx.Annotate("M", itoa(int64(m.Id)), itoa(m.CreateTime), hx(m.Origin), hx(m.Gid), itoa(int64(len(m.Data))))
			gids = [][]byte{m.Gid}
		}
		o = run(func() error { return specs[2].Handler(bg, peer, newStream(stream)) })
		report(ctx, o, "multicast-multicast", "multicast.onMulticast")
	case op[0] == "mc.notify" && len(op) == 3:
		var m mcpb.Notify
		if ok, _ := fr.next(&m); !ok {
			ctx.Annotate("X")
		} else {
			ctx.Annotate(append([]string{"N", itoa(int64(m.Status))}, annList(m.Gids)...)...)
			gids = m.Gids
		}
		o = run(func() error { return specs[3].Handler(bg, peer, newStream(stream)) })
		report(ctx, o, "multicast-notify", "multicast.onNotify")
	case op[0] == "mc.message" && len(op) == 3:
		var m mcpb.GroupMsg
		shape := "other"
		if ok, _ := fr.next(&m); !ok {
			ctx.Annotate("X")
		} else {
			ctx.Annotate("W", hx(m.Gid), itoa(int64(len(m.Data))), itoa(int64(m.Type)), itoa(int64(len(m.Err))))
			gids = [][]byte{m.Gid}
			if m.Type == int32(multicast.SendReceive) {
				shape = "sendreceive"
			}
		}
		o = run(func() error { return specs[4].Handler(bg, peer, newStream(stream)) })
		report(ctx, o, "multicast-message-"+shape, "multicast.onMessage")
		if shape == "sendreceive" {
			time.Sleep(3 * time.Millisecond) // the session goroutines read the rest of the stream
		}
	case op[0] == "mc.dohandshake" && len(op) == 3:
		var m mcpb.GIDs
		if ok, _ := fr.next(&m); !ok {
			ctx.Annotate("X")
		} else {
			ctx.Annotate(append([]string{"H"}, annList(m.Gid)...)...)
			gids = m.Gid
		}
		e.st.setReply(stream)
		o = run(func() error { return e.svc.Handshake(bg, peer.Address) })
		report(ctx, o, "multicast-dohandshake", "multicast.Handshake")
	case (op[0] == "mc.send" || op[0] == "mc.sendreceive") && len(op) == 3:
		var m mcpb.GroupMsg
		if ok, _ := fr.next(&m); !ok {
			ctx.Annotate("X")
		} else {
			ctx.Annotate("W", hx(m.Gid), itoa(int64(len(m.Data))), itoa(int64(m.Type)), itoa(int64(len(m.Err))))
		}
		e.st.setReply(stream)
		gid := overlayOf("mc-gid-send")
		if op[0] == "mc.send" {
			o = run(func() error { return e.svc.Send(bg, []byte("data"), gid, peer.Address) })
		} else {
			o = run(func() error { _, err := e.svc.SendReceive(bg, []byte("data"), gid, peer.Address); return err })
		}
		report(ctx, o, "multicast-"+op[0][3:], "multicast."+op[0][3:])
	default:
		return "bad-op"
	}
	if o.class == "panic" || o.class == "hang" {
		return o.class
	}
	for _, g := range gids {
		e.gids[boson.NewAddress(g).String()] = true
	}
	// later local use: API snapshots over the groups / peer lists a message created
	l := run(func() error {
		_ = e.svc.Snapshot()
		n := 0
		for g := range e.gids {
			_, _ = e.svc.GetGroupPeers(g)
			_, _ = e.svc.GetOptimumPeer(g)
			if n++; n > 8 {
				break
			}
		}
		return nil
	})
	report(ctx, l, "multicast-later-use", "Snapshot / GetGroupPeers after "+strings.TrimPrefix(op[0], "mc."))
	return o.class + " " + l.class
}
