// Package c31: correspondence + oracle for "issued cheques never inflate the available balance"
// (traffic.Service: PutRetrieveTraffic, Pay/issue, Init refresh, CashCheque receipts, restart).
package c31

import (
	"context"
	"fmt"
	"math/big"
	"strconv"
	"strings"
	"time"

	chequePkg "github.com/gauss-project/aurorafs/pkg/settlement/traffic/cheque"

	"verifharness/core"
	"verifharness/settle"
)

type prop struct{}

func init() { core.Register(prop{}) }

func (prop) ID() string { return "C31" }
func (prop) Rule() string {
	return "cases: 3 peers registered (peer p -> address p+1), chain stub balance and cashed amounts set, Init; then 8-45 ops over " +
		"credit (PutRetrieveTraffic), pay with threshold in {1, small, exactly outstanding, outstanding+1} and delivery scripted ok/fail, " +
		"chain stub changes (balance, cashed amount, TransAmount failure switch), init (24h refresh), restart (new service on the same store + Init), " +
		"cashout with receipt status 1/0/error, and observations avail/info/lastsent/owed; fixed regression cases fix-alias-* / fix-failed-delivery first. " +
		"Non-trivial: >=1 delivered payment after a refresh, >=1 observation; distinct by op-list hash."
}

const (
	nPeers = 6
	nAddrs = 8
)

func (prop) Gen(r *core.Rand, tier string) []core.Case {
	n := 300
	if tier == "thorough" {
		n = 5000
	}
	cs := []core.Case{
		{ID: "fix-alias-refresh-credit-pay", NT: true, Ops: []string{"reg 0 1", "chain bal 1000", "chain cashed 1 100", "init", "credit 0 50", "avail", "pay 0 1 0", "avail", "info", "owed 0"}},
		{ID: "fix-alias-two-peers", NT: true, Ops: []string{"reg 0 1", "reg 1 2", "chain bal 500", "chain cashed 1 100", "chain cashed 2 40", "init", "credit 0 50", "credit 1 5", "pay 0 10 0", "avail", "pay 1 1 0", "avail", "info", "init", "avail"}},
		{ID: "fix-failed-delivery", NT: true, Ops: []string{"reg 0 1", "chain bal 1000", "init", "credit 0 50", "pay 0 1 1", "owed 0", "avail", "info", "pay 0 1 0", "lastsent 0", "owed 0"}},
		{ID: "fix-failed-delivery-after-refresh", NT: true, Ops: []string{"reg 0 1", "chain bal 1000", "chain cashed 1 100", "init", "credit 0 50", "pay 0 1 1", "avail", "owed 0", "info", "restart", "avail", "owed 0"}},
	}
	for i := 0; i < n; i++ {
		c := core.Case{ID: fmt.Sprintf("g%d", i)}
		out := map[int]int{} // rough outstanding per peer (generator only, to aim thresholds)
		for p := 0; p < 3; p++ {
			c.Ops = append(c.Ops, fmt.Sprintf("reg %d %d", p, p+1))
		}
		c.Ops = append(c.Ops, fmt.Sprintf("chain bal %d", r.Pick([]int{0, 30, 200, 1000, 100000})))
		for p := 0; p < 3; p++ {
			if r.Chance(50) {
				c.Ops = append(c.Ops, fmt.Sprintf("chain cashed %d %d", p+1, r.Range(0, 150)))
			}
		}
		refreshed := r.Chance(85)
		if refreshed {
			c.Ops = append(c.Ops, "init")
		}
		paid, obs := 0, 0
		nops := r.Range(8, 45)
		for k := 0; k < nops; k++ {
			p := r.Intn(3)
			if r.Chance(4) {
				p = r.Range(3, 4) // unregistered
			}
			switch r.Intn(24) {
			case 0, 1, 2, 3, 4, 5:
				amt := r.Range(1, 60)
				c.Ops = append(c.Ops, fmt.Sprintf("credit %d %d", p, amt))
				out[p] += amt
			case 6, 7, 8, 9, 10:
				thr := r.Pick([]int{1, 1, 10, 50, out[p], out[p] + 1})
				if thr < 1 {
					thr = 1
				}
				fail := 0
				if r.Chance(20) {
					fail = 1
				}
				c.Ops = append(c.Ops, fmt.Sprintf("pay %d %d %d", p, thr, fail))
				if fail == 0 && out[p] >= thr {
					out[p] = 0
					if refreshed {
						paid++
					}
				}
			case 11:
				c.Ops = append(c.Ops, fmt.Sprintf("chain cashed %d %d", r.Range(1, 4), r.Range(0, 300)))
			case 12:
				c.Ops = append(c.Ops, fmt.Sprintf("chain bal %d", r.Pick([]int{0, 10, 100, 1000, 5000})))
			case 13:
				if r.Chance(40) {
					c.Ops = append(c.Ops, fmt.Sprintf("chain fail %d", r.Intn(2)))
				}
			case 14:
				c.Ops = append(c.Ops, "init")
				refreshed = true
			case 15:
				c.Ops = append(c.Ops, "restart")
				refreshed = true
			case 16:
				c.Ops = append(c.Ops, fmt.Sprintf("cashout %d %s", p, []string{"1", "1", "0", "e"}[r.Intn(4)]))
			case 17, 18, 19:
				c.Ops = append(c.Ops, "avail")
				obs++
			case 20:
				c.Ops = append(c.Ops, "info")
				obs++
			case 21:
				c.Ops = append(c.Ops, "lastsent "+strconv.Itoa(p))
				obs++
			default:
				c.Ops = append(c.Ops, "owed "+strconv.Itoa(p))
				obs++
			}
		}
		c.Ops = append(c.Ops, "avail", "info", "owed 0", "owed 1", "owed 2", "lastsent 0", "lastsent 1", "lastsent 2")
		c.NT = paid > 0
		cs = append(cs, c)
	}
	return cs
}

type runner struct {
	env        *settle.Env
	reg        map[int]int        // peer -> addr (harness shadow)
	delivered  map[int]*big.Int   // addr -> last delivered cumulative payout (survives restarts, as the store does)
	cashedAddr map[int]bool       // addresses the chain stub knows
	lastCashed *big.Int           // Σ cashed as last observed after a refresh-type op
}

func (prop) New() core.Runner {
	return &runner{env: settle.NewEnv(), reg: map[int]int{}, delivered: map[int]*big.Int{}, cashedAddr: map[int]bool{}, lastCashed: big.NewInt(0)}
}
func (rn *runner) Close() { rn.env.Close() }

// cashedTotal = Σ retrieveChainTraffic, derived from TrafficInfo: AvailableBalance' = bal + cashed - Σcheque.
func (rn *runner) cashedTotal() *big.Int {
	ti, _ := rn.env.Svc.TrafficInfo()
	x := new(big.Int).Sub(ti.AvailableBalance, ti.Balance)
	return x.Add(x, ti.TotalSendTraffic)
}

// owedTotal = Σ retrieveTraffic over registered peers; complete=false if some address with a
// record may have no registered peer.
func (rn *runner) owedTotal() (*big.Int, bool) {
	sum := big.NewInt(0)
	seen := map[int]bool{}
	for p, a := range rn.reg {
		if seen[a] {
			continue
		}
		t, err := rn.env.Svc.TotalReceived(settle.Peer(p))
		if err != nil {
			return sum, false // registered in the store but not loaded (restart) — cannot happen after Init
		}
		seen[a] = true
		sum.Add(sum, t)
	}
	for a := range rn.cashedAddr {
		if !seen[a] {
			return sum, false
		}
	}
	return sum, true
}

func (rn *runner) snapshot() string {
	var sb strings.Builder
	av, _ := rn.env.Svc.AvailableBalance()
	ti, _ := rn.env.Svc.TrafficInfo()
	fmt.Fprintf(&sb, "avail=%s info=%s/%s/%s", av, ti.Balance, ti.AvailableBalance, ti.TotalSendTraffic)
	for p := 0; p < nPeers; p++ {
		t, e1 := rn.env.Svc.TotalReceived(settle.Peer(p))
		o, _ := rn.env.Svc.RetrieveTraffic(settle.Peer(p))
		l, e2 := rn.env.Svc.LastSentCheque(settle.Peer(p))
		ls := "-"
		if e2 == nil {
			ls = l.CumulativePayout.String()
		}
		if e1 == nil {
			fmt.Fprintf(&sb, " p%d=%s/%s/%s", p, t, o, ls)
		}
	}
	return sb.String()
}

func (rn *runner) Step(ctx *core.Ctx, op []string) string {
	atoi := func(s string) (int, bool) {
		v, err := strconv.Atoi(s)
		return v, err == nil && v >= 0
	}
	svc := rn.env.Svc
	refreshOp := false
	out := rn.do(ctx, op, atoi, &refreshOp)
	_ = svc
	if out == "bad-op" {
		return out
	}
	// "issuing a cheque never changes the node's record of what peers have already cashed":
	// Σ cashed may only move on init / restart / cashout.
	ct := rn.cashedTotal()
	if refreshOp {
		rn.lastCashed = ct
	} else if ct.Cmp(rn.lastCashed) != 0 {
		ctx.Fail("cashed-changed-by-"+op[0], "Σ cashed record moved %s -> %s on `%s`", rn.lastCashed, ct, strings.Join(op, " "))
		rn.lastCashed = ct
	}
	// reported available balance = chain balance + cashed - owed
	if owed, complete := rn.owedTotal(); complete {
		ti, _ := rn.env.Svc.TrafficInfo()
		av, _ := rn.env.Svc.AvailableBalance()
		want := new(big.Int).Add(ti.Balance, new(big.Int).Sub(ct, owed))
		if av.Cmp(want) != 0 {
			ctx.Fail("available-formula", "AvailableBalance=%s, balance %s + cashed %s - owed %s = %s", av, ti.Balance, ct, owed, want)
		}
	}
	return out
}

func (rn *runner) do(ctx *core.Ctx, op []string, atoi func(string) (int, bool), refreshOp *bool) string {
	svc := rn.env.Svc
	switch {
	case len(op) == 3 && op[0] == "reg":
		p, ok1 := atoi(op[1])
		a, ok2 := atoi(op[2])
		if !ok1 || !ok2 || p >= nPeers || a >= nAddrs {
			return "bad-op"
		}
		if err := rn.env.Book.PutBeneficiary(settle.Peer(p), settle.Addr(a)); err != nil {
			return "err"
		}
		rn.reg[p] = a
		return "ok"
	case len(op) == 3 && op[0] == "credit":
		p, ok1 := atoi(op[1])
		amt, ok2 := atoi(op[2])
		if !ok1 || !ok2 || p >= nPeers {
			return "bad-op"
		}
		err := svc.PutRetrieveTraffic(settle.Peer(p), big.NewInt(int64(amt)))
		if err == chequePkg.ErrNoCheque {
			return "nocheque"
		}
		if err != nil {
			return "err"
		}
		return "ok"
	case len(op) == 4 && op[0] == "pay":
		p, ok1 := atoi(op[1])
		thr, err := strconv.ParseInt(op[2], 10, 64)
		f, ok3 := atoi(op[3])
		if !ok1 || err != nil || !ok3 || p >= nPeers || f > 1 {
			return "bad-op"
		}
		before := rn.snapshot()
		avB, _ := svc.AvailableBalance()
		owedB, _ := rn.owedTotal()
		rn.env.Proto.SetFail(f == 1)
		rn.env.Proto.Take()
		rn.env.TakeNotes()
		perr := svc.Pay(context.Background(), settle.Peer(p), big.NewInt(thr))
		em := rn.env.Proto.Take()
		notes := rn.env.TakeNotes()
		status := "ok"
		switch {
		case perr == nil && len(em) == 0:
			status = "below"
		case perr == nil:
			status = "ok"
		case perr.Error() == "unknown beneficiary for peer":
			status = "unknown"
		case perr.Error() == "insufficient token balance":
			status = "insufficient"
		case perr.Error() == "delivery failed":
			status = "deliver-fail"
		default:
			status = "err"
		}
		emit, notify := "-", "-"
		if len(em) == 1 {
			emit = em[0].Cheque.CumulativePayout.String()
		} else if len(em) > 1 {
			emit = "many"
		}
		if len(notes) == 1 {
			notify = notes[0].Amount.String()
		} else if len(notes) > 1 {
			notify = "many"
		}
		// ---- oracle
		avA, _ := svc.AvailableBalance()
		owedA, _ := rn.owedTotal()
		if new(big.Int).Add(avB, owedB).Cmp(new(big.Int).Add(avA, owedA)) != 0 {
			ctx.Fail("pay-changes-cashed", "AvailableBalance+owed moved from %s+%s to %s+%s across Pay (chain balance and cashed records must not change)", avB, owedB, avA, owedA)
		}
		if status != "ok" {
			if after := rn.snapshot(); after != before {
				ctx.Fail("unpaid-pay-changed-state", "Pay answered %s but state changed:\n  %s\n  %s", status, before, after)
			}
		}
		if len(em) == 1 {
			a := rn.reg[p]
			cum := em[0].Cheque.CumulativePayout
			if owed, err := svc.TotalReceived(settle.Peer(p)); err == nil && cum.Cmp(owed) > 0 {
				ctx.Fail("payout-exceeds-owed", "cheque cumulative payout %s > traffic owed %s", cum, owed)
			}
			if d, ok := rn.delivered[a]; ok && thr > 0 && cum.Cmp(d) <= 0 {
				ctx.Fail("payout-not-increasing", "cheque cumulative payout %s <= last delivered %s", cum, d)
			}
			if em[0].Cheque.Recipient != settle.Addr(a) || em[0].Cheque.Beneficiary != settle.Self() {
				ctx.Fail("cheque-parties", "cheque recipient/beneficiary wrong")
			}
			if rec, err := chequePkg.RecoverCheque(&em[0].Cheque, settle.ChainID); err != nil || rec != settle.Self() {
				ctx.Fail("cheque-signature", "emitted cheque is not signed by this node")
			}
			if status == "ok" {
				rn.delivered[a] = new(big.Int).Set(cum)
			}
		}
		return fmt.Sprintf("%s emit=%s notify=%s", status, emit, notify)
	case len(op) == 3 && op[0] == "chain" && op[1] == "bal":
		v, ok := atoi(op[2])
		if !ok {
			return "bad-op"
		}
		rn.env.Chain.SetBalance(settle.Self(), big.NewInt(int64(v)))
		return "ok"
	case len(op) == 4 && op[0] == "chain" && op[1] == "cashed":
		a, ok1 := atoi(op[2])
		v, ok2 := atoi(op[3])
		if !ok1 || !ok2 || a >= nAddrs {
			return "bad-op"
		}
		rn.env.Chain.SetAmount(settle.Self(), settle.Addr(a), big.NewInt(int64(v)), settle.Addr(a))
		rn.cashedAddr[a] = true
		return "ok"
	case len(op) == 3 && op[0] == "chain" && op[1] == "fail":
		b, ok := atoi(op[2])
		if !ok || b > 1 {
			return "bad-op"
		}
		rn.env.Chain.SetFail(b == 1, false)
		return "ok"
	case len(op) == 1 && op[0] == "init":
		*refreshOp = true
		if err := svc.Init(); err != nil {
			return "err"
		}
		return "ok"
	case len(op) == 1 && op[0] == "restart":
		*refreshOp = true
		rn.env.Restart()
		if err := rn.env.Svc.Init(); err != nil {
			return "err"
		}
		return "ok"
	case len(op) == 3 && op[0] == "cashout":
		p, ok := atoi(op[1])
		if !ok || p >= nPeers {
			return "bad-op"
		}
		switch op[2] {
		case "e":
			rn.env.Cashout.Script(0, fmt.Errorf("receipt error"))
		case "0", "1":
			rn.env.Cashout.Script(uint64(op[2][0]-'0'), nil)
		default:
			if _, ok := atoi(op[2]); !ok {
				return "bad-op"
			}
			rn.env.Cashout.Script(2, nil)
		}
		*refreshOp = true
		_, err := svc.CashCheque(context.Background(), settle.Peer(p))
		if err == chequePkg.ErrNoCheque {
			return "nocheque"
		}
		if err != nil {
			return "err"
		}
		select {
		case <-rn.env.Pub.CashOut():
		case <-time.After(10 * time.Second):
			return "timeout"
		}
		return "ok"
	case len(op) == 1 && op[0] == "avail":
		v, err := svc.AvailableBalance()
		if err != nil {
			return "err"
		}
		return v.String()
	case len(op) == 1 && op[0] == "info":
		ti, err := svc.TrafficInfo()
		if err != nil {
			return "err"
		}
		return fmt.Sprintf("%s %s %s", ti.Balance, ti.AvailableBalance, ti.TotalSendTraffic)
	case len(op) == 2 && op[0] == "lastsent":
		p, ok := atoi(op[1])
		if !ok || p >= nPeers {
			return "bad-op"
		}
		c, err := svc.LastSentCheque(settle.Peer(p))
		if err == chequePkg.ErrNoCheque {
			return "nocheque"
		}
		if err != nil {
			return "err"
		}
		return c.CumulativePayout.String()
	case len(op) == 2 && op[0] == "owed":
		p, ok := atoi(op[1])
		if !ok || p >= nPeers {
			return "bad-op"
		}
		t, err := svc.TotalReceived(settle.Peer(p))
		if err == chequePkg.ErrNoCheque {
			return "nocheque"
		}
		o, err2 := svc.RetrieveTraffic(settle.Peer(p))
		if err != nil || err2 != nil {
			return "err"
		}
		return fmt.Sprintf("%s %s", t, o)
	}
	return "bad-op"
}
