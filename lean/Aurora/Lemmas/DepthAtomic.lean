/-!
# Atomic compute-and-store under one mutex ⇒ the stored value is current at quiescence (C22)

Abstract transition system for the way `pkg/topology/kademlia` maintains `Kad.depth`.

* Shared state: `sh : σ` — everything `recalcDepth` reads (connected set, reachability table,
  radius) —, the stored `depth`, and one mutex (`holder`).
* Threads = events (`Nat`-indexed; thread `i` applies the change `chg i : σ → σ` once).  Each event's
  update site has one of three shapes:
  - `atomic`   — change the shared state (NOT under the mutex: `connectedPeers.Add/Remove`, the
    collector's reachability record), then `Lock; depth = f(current state); Unlock`
    (`Outbound`, `onConnected`, `Disconnected`, `DisconnectForce`, `Reachable`);
  - `atomicIn` — `Lock; change; depth = f(current state); Unlock` (`SetRadius`);
  - `split`    — change, compute `f(current state)` with no lock held, then `Lock; store; Unlock`
    (the shape the seeded change C22-1 introduces).
* Because the changes of `atomic` events happen outside the mutex, a recalculation in flight can
  be overtaken by another thread's change.  The model is pessimistic about that: the thread that
  holds the mutex carries a flag `clean`; any change by another thread clears it, and a
  recalculation that is not clean stores an ARBITRARY value (torn reads of the peer slice).

`quiescent_current`: if no event is `split`, then in every reachable state in which all events
have finished, `depth = f sh`.  (Argument: the last thread to store took the mutex after every
change, so its recalculation was clean.)  `sh_eq_fold_log`: the final shared state is the
sequential composition of the changes in the order `log` in which they were applied, so the
quiescent outcome of any interleaving is the outcome of a sequential run of the same events.
`split_breaks`: with one `split` event the conclusion fails (a concrete interleaving), so the
hypothesis is needed.

What is assumed about Go: `sync.RWMutex.Lock` is mutual exclusion (a step that needs the mutex is
enabled only when nobody holds it) and memory is sequentially consistent for accesses ordered by
the mutex / by `PSlice`'s own lock.  Core Lean only.
-/
namespace Aurora.DepthAtomic

inductive Pc where
  | start                   -- nothing done yet
  | mutated                 -- the event's change is applied, the mutex not yet taken
  | lockedPre               -- (`atomicIn`) holds the mutex, change not yet applied
  | locked (clean : Bool)   -- holds the mutex and recalculates; `clean` = nobody changed `sh` since
  | computed (d : Nat)      -- (`split`) carries a value computed with no lock held
  | done
deriving DecidableEq, Repr

inductive Shape where
  | atomic | atomicIn | split
deriving DecidableEq, Repr

structure St (σ : Type) where
  sh : σ
  depth : Nat
  holder : Option Nat
  pc : Nat → Pc
  log : List Nat            -- ghost: the threads in the order in which their changes were applied

/-- a change by another thread invalidates the recalculation in flight -/
def dirty : Pc → Pc
  | .locked _ => .locked false
  | p => p

section
variable {σ : Type} (f : σ → Nat) (chg : Nat → σ → σ) (shape : Nat → Shape)

inductive Step : St σ → St σ → Prop
  | mutate (s : St σ) (i : Nat) : s.pc i = .start → shape i ≠ .atomicIn →
      Step s { s with sh := chg i s.sh, log := s.log ++ [i],
                      pc := fun j => if j = i then .mutated else dirty (s.pc j) }
  | acquire (s : St σ) (i : Nat) : s.pc i = .mutated → shape i = .atomic → s.holder = none →
      Step s { s with holder := some i, pc := fun j => if j = i then .locked true else s.pc j }
  | acquireFirst (s : St σ) (i : Nat) : s.pc i = .start → shape i = .atomicIn → s.holder = none →
      Step s { s with holder := some i, pc := fun j => if j = i then .lockedPre else s.pc j }
  | mutateLocked (s : St σ) (i : Nat) : s.pc i = .lockedPre →
      Step s { s with sh := chg i s.sh, log := s.log ++ [i],
                      pc := fun j => if j = i then .locked true else dirty (s.pc j) }
  | storeRelease (s : St σ) (i : Nat) (c : Bool) (d : Nat) : s.pc i = .locked c → (c = true → d = f s.sh) →
      Step s { s with depth := d, holder := none, pc := fun j => if j = i then .done else s.pc j }
  | computeUnlocked (s : St σ) (i : Nat) : s.pc i = .mutated → shape i = .split →
      Step s { s with pc := fun j => if j = i then .computed (f s.sh) else s.pc j }
  | storeSplit (s : St σ) (i : Nat) (d : Nat) : s.pc i = .computed d → s.holder = none →
      Step s { s with depth := d, pc := fun j => if j = i then .done else s.pc j }

/-- start: the stored depth is current, nobody holds the mutex, every thread is either an event
that has not begun or is not taking part (`done`) -/
def init (sh0 : σ) (pc0 : Nat → Pc) : St σ :=
  { sh := sh0, depth := f sh0, holder := none, pc := pc0, log := [] }

inductive Reach (sh0 : σ) (pc0 : Nat → Pc) : St σ → Prop
  | init : Reach sh0 pc0 (init f sh0 pc0)
  | step {s s' : St σ} : Reach sh0 pc0 s → Step f chg shape s s' → Reach sh0 pc0 s'

/-! ### the final state is the sequential composition in `log` order (any shapes) -/

theorem sh_eq_fold_log {sh0 : σ} {pc0 : Nat → Pc} {s : St σ} (h : Reach f chg shape sh0 pc0 s) :
    s.sh = s.log.foldl (fun x i => chg i x) sh0 := by
  induction h with
  | init => rfl
  | step _ st ih =>
    cases st <;> simp_all [List.foldl_append]

/-! ### which threads are in the log -/

theorem dirty_eq_start (p : Pc) : dirty p = .start ↔ p = .start := by cases p <;> simp [dirty]
theorem dirty_eq_lockedPre (p : Pc) : dirty p = .lockedPre ↔ p = .lockedPre := by cases p <;> simp [dirty]
theorem dirty_eq_done (p : Pc) : dirty p = .done ↔ p = .done := by cases p <;> simp [dirty]
theorem dirty_eq_computed (p : Pc) (d : Nat) : dirty p = .computed d ↔ p = .computed d := by
  cases p <;> simp [dirty]
theorem dirty_eq_mutated (p : Pc) : dirty p = .mutated ↔ p = .mutated := by cases p <;> simp [dirty]

/-- a thread is in the log iff it takes part and has applied its change -/
def LogInv (pc0 : Nat → Pc) (s : St σ) : Prop :=
  (∀ i, pc0 i = .done → s.pc i = .done) ∧
  (∀ i, i ∈ s.log ↔ (pc0 i = .start ∧ s.pc i ≠ .start ∧ s.pc i ≠ .lockedPre))

theorem logInv_reach {sh0 : σ} {pc0 : Nat → Pc} (h0 : ∀ i, pc0 i = .start ∨ pc0 i = .done)
    {s : St σ} (h : Reach f chg shape sh0 pc0 s) : LogInv pc0 s := by
  induction h with
  | init =>
    refine ⟨fun i hi => hi, fun i => ?_⟩
    simp only [init, List.not_mem_nil, false_iff]
    rintro ⟨h1, h2, _⟩; exact h2 h1
  | step _ st ih =>
    obtain ⟨a, b⟩ := ih
    have hst : ∀ (s : St σ) i, s.pc i ≠ .done → (∀ i, pc0 i = .done → s.pc i = .done) → pc0 i = .start := by
      intro s i hne hd
      rcases h0 i with h | h
      · exact h
      · exact absurd (hd i h) hne
    cases st with
    | mutate i hpc hs =>
      have hi0 := hst _ i (by rw [hpc]; simp) a
      refine ⟨?_, ?_⟩
      · intro j hj
        by_cases e : j = i
        · subst e; rw [hi0] at hj; cases hj
        · simp only [e, if_false]; rw [dirty_eq_done]; exact a j hj
      · intro j
        by_cases e : j = i
        · subst e; simp [hi0]
        · simp only [List.mem_append, List.mem_singleton, e, or_false, if_false, ne_eq,
            dirty_eq_start, dirty_eq_lockedPre]
          exact b j
    | acquire i hpc hs hh =>
      refine ⟨?_, ?_⟩
      · intro j hj
        by_cases e : j = i
        · subst e; have := a j hj; rw [hpc] at this; cases this
        · simp only [e, if_false]; exact a j hj
      · intro j
        by_cases e : j = i
        · subst e; have := (b j); rw [hpc] at this; simpa using this
        · simp only [e, if_false]; exact b j
    | acquireFirst i hpc hs hh =>
      refine ⟨?_, ?_⟩
      · intro j hj
        by_cases e : j = i
        · subst e; have := a j hj; rw [hpc] at this; cases this
        · simp only [e, if_false]; exact a j hj
      · intro j
        by_cases e : j = i
        · subst e; have := (b j); rw [hpc] at this; simpa using this
        · simp only [e, if_false]; exact b j
    | mutateLocked i hpc =>
      have hi0 := hst _ i (by rw [hpc]; simp) a
      refine ⟨?_, ?_⟩
      · intro j hj
        by_cases e : j = i
        · subst e; rw [hi0] at hj; cases hj
        · simp only [e, if_false]; rw [dirty_eq_done]; exact a j hj
      · intro j
        by_cases e : j = i
        · subst e; simp [hi0]
        · simp only [List.mem_append, List.mem_singleton, e, or_false, if_false, ne_eq,
            dirty_eq_start, dirty_eq_lockedPre]
          exact b j
    | storeRelease i c d hpc hd =>
      refine ⟨?_, ?_⟩
      · intro j hj
        by_cases e : j = i
        · simp [e]
        · simp only [e, if_false]; exact a j hj
      · intro j
        by_cases e : j = i
        · subst e; have := (b j); rw [hpc] at this; simpa using this
        · simp only [e, if_false]; exact b j
    | computeUnlocked i hpc hs =>
      refine ⟨?_, ?_⟩
      · intro j hj
        by_cases e : j = i
        · subst e; have := a j hj; rw [hpc] at this; cases this
        · simp only [e, if_false]; exact a j hj
      · intro j
        by_cases e : j = i
        · subst e; have := (b j); rw [hpc] at this; simpa using this
        · simp only [e, if_false]; exact b j
    | storeSplit i d hpc hh =>
      refine ⟨?_, ?_⟩
      · intro j hj
        by_cases e : j = i
        · simp [e]
        · simp only [e, if_false]; exact a j hj
      · intro j
        by_cases e : j = i
        · subst e; have := (b j); rw [hpc] at this; simpa using this
        · simp only [e, if_false]; exact b j

/-- at quiescence the log holds exactly the events that took part -/
theorem log_exact {sh0 : σ} {pc0 : Nat → Pc} (h0 : ∀ i, pc0 i = .start ∨ pc0 i = .done)
    {s : St σ} (h : Reach f chg shape sh0 pc0 s) (hq : ∀ i, s.pc i = .done) (i : Nat) :
    i ∈ s.log ↔ pc0 i = .start := by
  rw [(logInv_reach f chg shape h0 h).2 i, hq i]; simp

/-! ### the stored value is current at quiescence (no `split` event) -/

def holds (p : Pc) : Prop := p = .lockedPre ∨ ∃ c, p = .locked c

theorem holds_dirty (p : Pc) : holds (dirty p) ↔ holds p := by
  cases p <;> simp [holds, dirty]

def pending (p : Pc) : Prop := p = .mutated ∨ ∃ c, p = .locked c

def Inv (s : St σ) : Prop :=
  (∀ i, holds (s.pc i) ↔ s.holder = some i) ∧
  (∀ i, s.pc i = .locked false → ∃ j, s.pc j = .mutated) ∧
  (s.depth = f s.sh ∨ ∃ j, pending (s.pc j)) ∧
  (∀ i d, s.pc i ≠ .computed d)

theorem inv_reach (hs : ∀ i, shape i ≠ .split) {sh0 : σ} {pc0 : Nat → Pc}
    (h0 : ∀ i, pc0 i = .start ∨ pc0 i = .done) {s : St σ} (h : Reach f chg shape sh0 pc0 s) :
    Inv f s := by
  induction h with
  | init =>
    refine ⟨?_, ?_, Or.inl rfl, ?_⟩
    · intro i; rcases h0 i with e | e <;> simp [init, holds, e]
    · intro i hi; rcases h0 i with e | e <;> simp [init, e] at hi
    · intro i d hi; rcases h0 i with e | e <;> simp [init, e] at hi
  | @step t t' _ st ih =>
    obtain ⟨i1, i2, i3, i4⟩ := ih
    cases st with
    | mutate i hpc hsh =>
      have hnh : ¬ holds (t.pc i) := by rw [hpc]; simp [holds]
      refine ⟨?_, ?_, ?_, ?_⟩
      · intro j
        by_cases e : j = i
        · subst e
          simp only [if_true]
          constructor
          · intro hh; simp [holds] at hh
          · intro hh; exact absurd ((i1 j).2 hh) hnh
        · simp only [e, if_false, holds_dirty]; exact i1 j
      · intro j _; exact ⟨i, by simp⟩
      · exact Or.inr ⟨i, by simp [pending]⟩
      · intro j d
        by_cases e : j = i
        · simp [e]
        · simp only [e, if_false]
          rw [ne_eq, dirty_eq_computed]; exact i4 j d
    | acquire i hpc hsh hh =>
      have nolock : ∀ j c, t.pc j ≠ .locked c := by
        intro j c hj
        have := (i1 j).1 (Or.inr ⟨c, hj⟩)
        rw [hh] at this; cases this
      refine ⟨?_, ?_, ?_, ?_⟩
      · intro j
        by_cases e : j = i
        · subst e; simp [holds]
        · simp only [e, if_false]
          constructor
          · intro hj; have := (i1 j).1 hj; rw [hh] at this; cases this
          · intro hj; exact absurd (Option.some.inj hj).symm e
      · intro j hj
        by_cases e : j = i
        · simp [e] at hj
        · simp only [e, if_false] at hj; exact absurd hj (nolock j false)
      · exact Or.inr ⟨i, by simp [pending]⟩
      · intro j d
        by_cases e : j = i
        · simp [e]
        · simp only [e, if_false]; exact i4 j d
    | acquireFirst i hpc hsh hh =>
      have nolock : ∀ j c, t.pc j ≠ .locked c := by
        intro j c hj
        have := (i1 j).1 (Or.inr ⟨c, hj⟩)
        rw [hh] at this; cases this
      refine ⟨?_, ?_, ?_, ?_⟩
      · intro j
        by_cases e : j = i
        · subst e; simp [holds]
        · simp only [e, if_false]
          constructor
          · intro hj; have := (i1 j).1 hj; rw [hh] at this; cases this
          · intro hj; exact absurd (Option.some.inj hj).symm e
      · intro j hj
        by_cases e : j = i
        · simp [e] at hj
        · simp only [e, if_false] at hj; exact absurd hj (nolock j false)
      · rcases i3 with h | ⟨j, hj⟩
        · exact Or.inl h
        · refine Or.inr ⟨j, ?_⟩
          by_cases e : j = i
          · subst e; rw [hpc] at hj; simp [pending] at hj
          · simpa [e] using hj
      · intro j d
        by_cases e : j = i
        · simp [e]
        · simp only [e, if_false]; exact i4 j d
    | mutateLocked i hpc =>
      have hhold : t.holder = some i := (i1 i).1 (Or.inl hpc)
      have nolock : ∀ j c, t.pc j ≠ .locked c := by
        intro j c hj
        have := (i1 j).1 (Or.inr ⟨c, hj⟩)
        rw [hhold] at this
        have e : i = j := Option.some.inj this
        subst e; rw [hpc] at hj; cases hj
      refine ⟨?_, ?_, ?_, ?_⟩
      · intro j
        by_cases e : j = i
        · subst e; simp [holds, hhold]
        · simp only [e, if_false, holds_dirty]; exact i1 j
      · intro j hj
        by_cases e : j = i
        · simp [e] at hj
        · simp only [e, if_false] at hj
          cases hp : t.pc j with
          | locked c => exact absurd hp (nolock j c)
          | _ => rw [hp] at hj; simp [dirty] at hj
      · exact Or.inr ⟨i, by simp [pending]⟩
      · intro j d
        by_cases e : j = i
        · simp [e]
        · simp only [e, if_false]
          rw [ne_eq, dirty_eq_computed]; exact i4 j d
    | storeRelease i c d hpc hd =>
      have hhold : t.holder = some i := (i1 i).1 (Or.inr ⟨c, hpc⟩)
      have only : ∀ j, holds (t.pc j) → j = i := by
        intro j hj
        have := (i1 j).1 hj
        rw [hhold] at this
        exact (Option.some.inj this).symm
      refine ⟨?_, ?_, ?_, ?_⟩
      · intro j
        by_cases e : j = i
        · subst e; simp [holds]
        · simp only [e, if_false]
          constructor
          · intro hj; exact absurd (only j hj) e
          · intro hj; cases hj
      · intro j hj
        by_cases e : j = i
        · simp [e] at hj
        · simp only [e, if_false] at hj
          exact absurd (only j (Or.inr ⟨false, hj⟩)) e
      · cases c with
        | true => exact Or.inl (hd rfl)
        | false =>
          obtain ⟨j, hj⟩ := i2 i hpc
          have e : j ≠ i := by intro e; subst e; rw [hpc] at hj; cases hj
          exact Or.inr ⟨j, by simp [e, pending, hj]⟩
      · intro j d'
        by_cases e : j = i
        · simp [e]
        · simp only [e, if_false]; exact i4 j d'
    | computeUnlocked i hpc hsh => exact absurd hsh (hs i)
    | storeSplit i d hpc hh => exact absurd hpc (i4 i d)

/-- **Quiescence theorem.**  Every update site is an atomic compute-and-store under the one mutex
(no `split` event) ⇒ once all events have finished, the stored depth is `f` of the current
shared state — whatever the interleaving was. -/
theorem quiescent_current (hs : ∀ i, shape i ≠ .split) {sh0 : σ} {pc0 : Nat → Pc}
    (h0 : ∀ i, pc0 i = .start ∨ pc0 i = .done) {s : St σ} (h : Reach f chg shape sh0 pc0 s)
    (hq : ∀ i, s.pc i = .done) : s.depth = f s.sh := by
  obtain ⟨_, _, i3, _⟩ := inv_reach f chg shape hs h0 h
  rcases i3 with h | ⟨j, hj⟩
  · exact h
  · rw [hq j] at hj; simp [pending] at hj

end

/-! ### the hypothesis is needed: one `split` event and a stale depth survives quiescence -/

/-- two events over `σ = Nat`, `f = id`: event 0 sets the state to 1 and is `split`, event 1 sets
it to 2 and is `atomic`.  Interleaving: 0 changes and computes 1 with no lock; 1 changes, locks,
stores 2, unlocks; 0 locks and stores its stale 1.  All done, `depth = 1 ≠ 2 = f sh`. -/
theorem split_breaks :
    ∃ s : St Nat,
      Reach id (fun i _ => i + 1) (fun i => if i = 0 then .split else .atomic) 0
        (fun i => if i < 2 then .start else .done) s ∧
      (∀ i, s.pc i = .done) ∧ s.depth ≠ id s.sh := by
  let pc0 : Nat → Pc := fun i => if i < 2 then .start else .done
  let shape : Nat → Shape := fun i => if i = 0 then .split else .atomic
  let chg : Nat → Nat → Nat := fun i _ => i + 1
  have r0 : Reach id chg shape 0 pc0 (init id 0 pc0) := .init
  have r1 := Reach.step r0 (Step.mutate (init id 0 pc0) 0 (by simp [init, pc0]) (by simp [shape]))
  have r2 := Reach.step r1 (Step.computeUnlocked _ 0 (by simp) (by simp [shape]))
  have r3 := Reach.step r2 (Step.mutate _ 1 (by simp [init, pc0, dirty]) (by simp [shape]))
  have r4 := Reach.step r3 (Step.acquire _ 1 (by simp) (by simp [shape]) (by simp [init]))
  have r5 := Reach.step r4 (Step.storeRelease _ 1 true 2 (by simp) (by intro _; simp [chg]))
  have r6 := Reach.step r5 (Step.storeSplit _ 0 1 (by simp [dirty, chg, init]) (by simp))
  refine ⟨_, r6, ?_, ?_⟩
  · intro i
    by_cases e0 : i = 0
    · simp [e0]
    · by_cases e1 : i = 1
      · simp [e1]
      · have : ¬ i < 2 := by omega
        simp [e0, e1, dirty, init, pc0, this]
  · simp [chg]

end Aurora.DepthAtomic
