package c37

import (
	"encoding/json"
	"fmt"
	"strings"

	"github.com/gauss-project/aurorafs/pkg/boson"
	cipb "github.com/gauss-project/aurorafs/pkg/chunkinfo/pb"
	hivepb "github.com/gauss-project/aurorafs/pkg/hive2/pb"
	"github.com/gauss-project/aurorafs/pkg/multicast"
	mcpb "github.com/gauss-project/aurorafs/pkg/multicast/pb"
	"github.com/gauss-project/aurorafs/pkg/p2p/libp2p/verifexport"
	pingpb "github.com/gauss-project/aurorafs/pkg/pingpong/pb"
	retpb "github.com/gauss-project/aurorafs/pkg/retrieval/pb"
	rtpb "github.com/gauss-project/aurorafs/pkg/routetab/pb"
	trpb "github.com/gauss-project/aurorafs/pkg/settlement/traffic/trafficprotocol/pb"
	"github.com/gogo/protobuf/proto"

	"verifharness/core"
)

// ---- field value classes

// fb picks a bytes field value: missing / empty / short / one of the typical values / oversized.
func fb(r *core.Rand, typical ...[]byte) []byte {
	switch r.Intn(12) {
	case 0:
		return nil
	case 1:
		return []byte{}
	case 2:
		return r.Bytes(r.Range(1, 31))
	case 3:
		return r.Bytes(r.Pick([]int{33, 64, 65, 200}))
	case 4:
		return r.Bytes(32)
	case 5:
		if r.Chance(15) {
			return r.Bytes(r.Pick([]int{4096, 70000}))
		}
		return r.Bytes(32)
	}
	if len(typical) == 0 {
		return r.Bytes(32)
	}
	return typical[r.Intn(len(typical))]
}

func fi32(r *core.Rand) int32 {
	return int32(r.Pick([]int{0, 0, 1, 1, 2, 3, 5, 9, 10, 11, 30, 31, -1, -5, 1 << 20, -(1 << 31), 1<<31 - 1}))
}

// mutate turns a well-framed stream into a raw-byte variant.
func mutate(r *core.Rand, s []byte) []byte {
	s = append([]byte(nil), s...)
	switch r.Intn(9) {
	case 0: // truncated frame
		if len(s) > 0 {
			return s[:r.Intn(len(s))]
		}
	case 1: // flipped byte
		if len(s) > 0 {
			s[r.Intn(len(s))] ^= byte(1 << uint(r.Intn(8)))
		}
	case 2: // trailing garbage
		return append(s, r.Bytes(r.Range(1, 20))...)
	case 3: // length prefix beyond the 1 MiB limit
		return append(lenPrefix(uint64(1<<20+r.Range(1, 1000))), s...)
	case 4: // pure random
		return r.Bytes(r.Range(0, 64))
	case 5: // length prefix longer than the body
		return append(lenPrefix(uint64(len(s)+r.Range(1, 300))), s...)
	case 6: // random body behind a correct prefix
		return rawFrame(r.Bytes(r.Range(1, 80)))
	case 7: // overlong / overflowing varint prefix
		return append([]byte{0xff, 0xff, 0xff, 0xff, 0xff, 0xff, 0xff, 0xff, 0xff, 0x7f}, s...)
	case 8: // the frame twice
		return append(s, s...)
	}
	return s
}

// stream marshals msgs with the real writer and, with probability pct, mutates the bytes.
func gstream(r *core.Rand, pct int, msgs ...proto.Message) string {
	b := frame(msgs...)
	if r.Chance(pct) {
		b = mutate(r, b)
	}
	return core.Hex(b)
}

func names(r *core.Rand, xs ...string) string { return xs[r.Intn(len(xs))] }

// ---- handshake

func hsRemote() (u, o, s []byte) {
	a := signedAddress("hs-remote", "/ip4/10.1.2.3/tcp/1634/p2p/"+hsRemoteP2P)
	ub, _ := a.Underlay.MarshalBinary()
	return ub, a.Overlay.Bytes(), a.Signature
}

func genUnderlay(r *core.Rand) []byte {
	withP2P, _ := mustMA("/ip4/127.0.0.1/tcp/1634/p2p/" + hsSelfP2P).MarshalBinary()
	plain, _ := mustMA("/ip4/8.8.8.8/tcp/1634").MarshalBinary()
	dns, _ := mustMA("/dns4/example.com/tcp/1/p2p/" + hsRemoteP2P).MarshalBinary()
	return fb(r, withP2P, withP2P, withP2P, plain, dns)
}

func genBzz(r *core.Rand) *verifexport.HandshakeBzzAddress {
	u, o, s := hsRemote()
	switch r.Intn(8) {
	case 0:
		return nil
	case 1:
		return &verifexport.HandshakeBzzAddress{}
	case 2:
		return &verifexport.HandshakeBzzAddress{Underlay: fb(r, u), Overlay: fb(r, o), Signature: fb(r, s)}
	case 3:
		s2 := append([]byte(nil), s...)
		s2[r.Intn(len(s2))] ^= 1
		return &verifexport.HandshakeBzzAddress{Underlay: u, Overlay: o, Signature: s2}
	}
	return &verifexport.HandshakeBzzAddress{Underlay: u, Overlay: o, Signature: s}
}

func genAck(r *core.Rand) *verifexport.HandshakeAck {
	a := &verifexport.HandshakeAck{Address: genBzz(r), NetworkID: networkID}
	if r.Chance(12) {
		a.NetworkID = uint64(r.Pick([]int{0, 1, 8, 1 << 40}))
	}
	switch r.Intn(8) {
	case 0:
		a.NodeMode = nil
	case 1:
		a.NodeMode = []byte{}
	case 2:
		a.NodeMode = []byte{0}
	case 3:
		a.NodeMode = r.Bytes(r.Range(1, 9))
	case 4:
		a.NodeMode = []byte{3}
	default:
		a.NodeMode = []byte{1}
	}
	switch r.Intn(6) {
	case 0:
		a.WelcomeMessage = strings.Repeat("w", r.Pick([]int{1, 140, 141, 5000}))
	case 1:
		a.WelcomeMessage = "hello"
	}
	return a
}

func genHs(r *core.Rand, n int) []core.Case {
	var cs []core.Case
	for i := 0; i < n; i++ {
		c := core.Case{ID: fmt.Sprintf("hs%d", i), NT: true}
		for k := r.Range(1, 3); k > 0; k-- {
			if r.Bool() {
				c.Ops = append(c.Ops, "hs.handle "+gstream(r, 20, &verifexport.HandshakeSyn{ObservedUnderlay: genUnderlay(r)}, genAck(r)))
			} else {
				sa := &verifexport.HandshakeSynAck{Syn: &verifexport.HandshakeSyn{ObservedUnderlay: genUnderlay(r)}, Ack: genAck(r)}
				if r.Chance(12) {
					sa.Syn = nil
				}
				if r.Chance(12) {
					sa.Ack = nil
				}
				c.Ops = append(c.Ops, "hs.dial "+gstream(r, 20, sa))
			}
		}
		cs = append(cs, c)
	}
	// hand-encoded wire variants: sub-message fields with the wrong wire type, truncated nesting, unknown fields
	u, o, s := hsRemote()
	ou := genUnderlay(core.NewRand(1))
	bz := (&wire{}).bytes(1, u).bytes(2, s).bytes(3, o).b
	ack := (&wire{}).bytes(1, bz).varint(2, networkID).bytes(3, []byte{1}).b
	syn := (&wire{}).bytes(1, ou).b
	ws := [][]byte{
		rawFrame((&wire{}).varint(1, 5).bytes(2, ack).b),                        // Syn as varint
		rawFrame((&wire{}).bytes(1, syn).fixed64(2, 7).b),                       // Ack as fixed64
		rawFrame((&wire{}).bytes(1, syn).bytes(2, ack[:len(ack)/2]).b),          // truncated Ack inside a good frame
		rawFrame((&wire{}).bytes(1, syn).bytes(2, ack).bytes(2, ack).b),         // Ack twice (merge)
		rawFrame((&wire{}).bytes(1, syn).bytes(2, (&wire{}).bytes(1, nil).b).b), // Ack with an empty Address sub-message
		rawFrame((&wire{}).bytes(7, []byte("unknown")).bytes(1, syn).bytes(2, ack).fixed32(9, 1).b),
		rawFrame((&wire{}).bytes(1, syn).bytes(2, (&wire{}).varint(1, 1).varint(2, networkID).b).b), // Address as varint
	}
	for i, w := range ws {
		cs = append(cs, core.Case{ID: fmt.Sprintf("hs-wire%d", i), NT: true, Ops: []string{"hs.dial " + core.Hex(w)}})
	}
	return cs
}

// ---- hive2

func genHive(r *core.Rand, n int, slow int) []core.Case {
	var cs []core.Case
	tgt := overlayOf("hive-target").Bytes()
	und, _ := mustMA("/ip4/7.7.7.7/tcp/1634").MarshalBinary()
	for i := 0; i < n; i++ {
		c := core.Case{ID: fmt.Sprintf("hive%d", i), NT: true}
		for k := r.Range(1, 3); k > 0; k-- {
			if r.Intn(3) > 0 {
				req := &hivepb.FindNodeReq{Target: fb(r, tgt, overlayOf("hive-c1").Bytes()), Limit: fi32(r)}
				for j := r.Pick([]int{0, 1, 3, 33, 200}); j > 0; j-- {
					req.Pos = append(req.Pos, int32(r.Pick([]int{0, 1, 2, 5, 31, 32, -1, 255, 256, 1 << 30})))
				}
				if r.Chance(40) {
					req.Pos = allPos()
				}
				c.Ops = append(c.Ops, "hive.findnode "+gstream(r, 20, req))
			} else {
				ps := &hivepb.Peers{}
				for j := r.Pick([]int{0, 1, 2, 5}); j > 0; j-- {
					ps.Peers = append(ps.Peers, &hivepb.AuroraAddress{Underlay: fb(r, und, und, und), Signature: fb(r), Overlay: fb(r)})
				}
				ping := "ping=0"
				if slow > 0 && r.Chance(30) {
					slow--
					ping = "ping=1"
				}
				c.Ops = append(c.Ops, "hive.dofind "+gstream(r, 20, ps)+" "+ping)
			}
		}
		cs = append(cs, c)
	}
	return cs
}

// ---- retrieval + pingpong

func genRetPing(r *core.Rand, n int) []core.Case {
	var cs []core.Case
	known := retKnownChunk()
	self := overlayOf("ret-self").Bytes()
	for i := 0; i < n; i++ {
		c := core.Case{ID: fmt.Sprintf("ret%d", i), NT: true}
		for k := r.Range(1, 3); k > 0; k-- {
			switch r.Intn(5) {
			case 0, 1:
				c.Ops = append(c.Ops, "ret.handler "+gstream(r, 20, &retpb.RequestChunk{TargetAddr: fb(r, self, self), RootAddr: fb(r), ChunkAddr: fb(r, known.Address().Bytes(), known.Address().Bytes())}))
			case 2, 3:
				addr := known.Address().Bytes()
				var data []byte
				switch r.Intn(7) {
				case 0:
					data = nil
				case 1:
					data = r.Bytes(r.Range(1, 7)) // shorter than a span
				case 2:
					data = r.Bytes(r.Pick([]int{8, 9, 96, 97, 104, 105, 200}))
				case 3:
					data = r.Bytes(4096 + 8 + r.Range(0, 2))
				case 4:
					data = append(append([]byte(nil), known.Data()...), 0) // valid chunk plus one byte
				default:
					data = known.Data()
				}
				if r.Chance(10) {
					addr = fb(r)
				}
				c.Ops = append(c.Ops, "ret.retrieve "+gstream(r, 15, &retpb.Delivery{Data: data})+" "+core.Hex(addr))
			default:
				var msgs []proto.Message
				np := r.Range(0, 4)
				for j := 0; j < np; j++ {
					msgs = append(msgs, &pingpb.Ping{Greeting: strings.Repeat("g", r.Pick([]int{0, 1, 5, 3000}))})
				}
				if r.Bool() {
					c.Ops = append(c.Ops, "ping.handler "+gstream(r, 25, msgs...))
				} else {
					var pongs []proto.Message
					for j := r.Range(0, 4); j > 0; j-- {
						pongs = append(pongs, &pingpb.Pong{Response: strings.Repeat("p", r.Pick([]int{0, 2, 2000}))})
					}
					c.Ops = append(c.Ops, fmt.Sprintf("ping.ping %s %d", gstream(r, 25, pongs...), r.Range(0, 4)))
				}
			}
		}
		cs = append(cs, c)
	}
	return cs
}

// ---- traffic

func genChequeJSON(r *core.Rand, issuer string) []byte {
	switch r.Intn(14) {
	case 0:
		return []byte("null")
	case 1:
		return nil
	case 2:
		return []byte("{}")
	case 3:
		return []byte(`{"Recipient":"0x00","Beneficiary":5}`)
	case 4:
		return []byte(`{"Signature":"AAEC"}`) // signature without payout
	case 5:
		return []byte(`{"CumulativePayout":null,"Signature":"` + strings.Repeat("A", 88) + `"}`)
	case 6:
		return []byte(`[1,2,3]`)
	case 7:
		return []byte(`{"CumulativePayout":-5,"Signature":"AAEC"}`)
	case 8:
		b := signedChequeJSON(issuer, int64(r.Range(1, 500)))
		return b[:r.Intn(len(b))]
	case 9:
		return signedChequeJSON("tr-other", int64(r.Range(1, 500))) // valid cheque of another issuer
	case 10:
		// valid signature, then tampered payout
		var m map[string]interface{}
		_ = json.Unmarshal(signedChequeJSON(issuer, 50), &m)
		m["CumulativePayout"] = 51
		b, _ := json.Marshal(m)
		return b
	case 11:
		return signedChequeJSON("tr-self", int64(r.Range(1, 500))) // a cheque the node itself issued (init exchange)
	}
	return signedChequeJSON(issuer, int64(r.Pick([]int{0, 1, 10, 10, 77, 500})))
}

func genTr(r *core.Rand, n int) []core.Case {
	var cs []core.Case
	for i := 0; i < n; i++ {
		c := core.Case{ID: fmt.Sprintf("tr%d", i), NT: true}
		peer := names(r, "tr-p1", "tr-p2")
		if r.Chance(75) {
			c.Ops = append(c.Ops, "tr.reg "+peer+" "+peer)
		}
		for k := r.Range(1, 4); k > 0; k-- {
			p := peer
			if r.Chance(15) {
				p = "tr-stranger"
			}
			m := &trpb.EmitCheque{Address: fb(r, ethAddrOf(p).Bytes(), ethAddrOf(p).Bytes(), ethAddrOf(p).Bytes()), SignedCheque: genChequeJSON(r, p)}
			c.Ops = append(c.Ops, names(r, "tr.cheque", "tr.cheque", "tr.inithandler", "tr.init")+" "+p+" "+gstream(r, 15, m))
		}
		cs = append(cs, c)
	}
	return cs
}

// ---- chunkinfo

func genCi(r *core.Rand, n int) []core.Case {
	var cs []core.Case
	self := overlayOf("ci-self")
	for i := 0; i < n; i++ {
		c := core.Case{ID: fmt.Sprintf("ci%d", i), NT: true}
		root := boson.NewAddress(core.GenBytes(uint64(r.Intn(3)+100), 32, 0))
		nch := r.Pick([]int{1, 2, 7, 8, 9, 16, 17, 20, 64, 100})
		ov := []boson.Address{overlayOf("ci-src1"), overlayOf("ci-src2"), overlayOf("ci-peerA")}
		if r.Chance(80) {
			c.Ops = append(c.Ops, fmt.Sprintf("ci.file %s %d", core.Hex(root.Bytes()), nch))
			if r.Chance(60) {
				c.Ops = append(c.Ops, fmt.Sprintf("ci.find %s %s,%s", core.Hex(root.Bytes()), core.Hex(ov[0].Bytes()), core.Hex(ov[1].Bytes())))
			}
		}
		need := (nch + 7) / 8
		presVal := func() []byte {
			switch r.Intn(8) {
			case 0:
				return []byte{}
			case 1:
				return r.Bytes(r.Range(0, need)) // possibly too short
			case 2:
				return r.Bytes(need + r.Range(1, 4)) // longer than needed
			case 3:
				if need > 1 {
					return r.Bytes(need - 1)
				}
				return []byte{}
			}
			return r.Bytes(need)
		}
		for k := r.Range(1, 4); k > 0; k-- {
			peer := names(r, "ci-src1", "ci-src2", "ci-peerA")
			rootB := fb(r, root.Bytes(), root.Bytes(), root.Bytes(), root.Bytes())
			switch r.Intn(6) {
			case 0:
				c.Ops = append(c.Ops, "ci.req "+peer+" "+gstream(r, 15, &cipb.ChunkInfoReq{RootCid: rootB, Target: fb(r, self.Bytes(), self.Bytes()), Req: fb(r, overlayOf(peer).Bytes())}))
			case 1, 2, 3:
				tgt := ov[r.Intn(len(ov))]
				resp := &cipb.ChunkInfoResp{RootCid: rootB, Target: fb(r, tgt.Bytes(), tgt.Bytes(), tgt.Bytes(), tgt.Bytes()), Req: fb(r, self.Bytes(), self.Bytes(), self.Bytes(), self.Bytes())}
				switch r.Intn(6) {
				case 0:
					resp.Presence = nil
				case 1:
					resp.Presence = map[string][]byte{}
				default:
					resp.Presence = map[string][]byte{}
					if r.Chance(85) {
						resp.Presence[boson.NewAddress(resp.Target).String()] = presVal()
					}
					for j := r.Intn(4); j > 0; j-- {
						var key string
						switch r.Intn(8) {
						case 0:
							key = "zz-not-hex"
						case 1:
							key = ""
						case 2:
							key = "abc" // odd-length hex
						case 3:
							key = self.String()
						case 4:
							key = strings.ToUpper(overlayOf("ci-src2").String())
						default:
							key = overlayOf(names(r, "ci-src1", "ci-src2", "ci-x1", "ci-x2")).String()
						}
						resp.Presence[key] = presVal()
					}
				}
				c.Ops = append(c.Ops, "ci.resp "+peer+" "+gstream(r, 12, resp))
			default:
				// pyramid request: served locally (target = self / known root) or forwarded, the reply being the peer's pyramid
				seed := uint64(r.Intn(50) + 1)
				froot, frames := plainFilePyramid(seed, r.Pick([]int{1, 1, 2, 5, 128}))
				req := &cipb.ChunkPyramidReq{RootCid: fb(r, froot.Bytes(), froot.Bytes(), froot.Bytes(), root.Bytes()), Target: fb(r, self.Bytes(), overlayOf("ci-src1").Bytes(), overlayOf("ci-src1").Bytes())}
				var reply []proto.Message
				switch r.Intn(6) {
				case 0: // no Ok terminator
					reply = []proto.Message{frames[0]}
				case 1: // hash / chunk inconsistent
					reply = []proto.Message{&cipb.ChunkPyramidResp{Hash: frames[0].Hash, Chunk: fb(r)}, frames[1]}
				case 2: // root missing from the pyramid
					reply = []proto.Message{&cipb.ChunkPyramidResp{Hash: fb(r), Chunk: frames[0].Chunk}, frames[1]}
				case 3: // only the terminator
					reply = []proto.Message{frames[1]}
				default:
					reply = []proto.Message{frames[0], frames[1]}
				}
				c.Ops = append(c.Ops, "ci.pyramid "+peer+" "+gstream(r, 12, req)+" "+gstream(r, 15, reply...))
			}
		}
		cs = append(cs, c)
	}
	return cs
}

// presence-vector length classes relative to the `need` = ceil(chunks/8) bytes of the file: empty, one byte short,
// exact, longer by 1 byte, longer by many bytes
func presLens(need int) []int {
	short := need - 1
	if short < 0 {
		short = 0
	}
	return []int{0, short, need, need + 1, need + 9, need + 200}
}

// genCiMerge: multi-step ChunkInfoResp sequences on the SAME (root, overlay): the first acceptable vector is
// stored (updateChunkInfo, first branch), every later one is merged into it (stored-vector branch: SetBytes),
// with lengths equal to / shorter than / longer than (by 1, by many bytes) the stored one and empty, in all orders.
func genCiMerge(r *core.Rand, n int) []core.Case {
	var cs []core.Case
	self := overlayOf("ci-self")
	respOp := func(peer string, root, tgt boson.Address, v []byte, extra map[string][]byte, pct int) string {
		pres := map[string][]byte{tgt.String(): v}
		for k, x := range extra {
			pres[k] = x
		}
		return "ci.resp " + peer + " " + gstream(r, pct, &cipb.ChunkInfoResp{RootCid: root.Bytes(), Target: tgt.Bytes(), Req: self.Bytes(), Presence: pres})
	}
	// (a) systematic: for every storable first length, every second length — each ordered pair on its own overlay
	nchs := []int{11, 20, 8, 1, 64, 100, 17}
	nch := nchs[r.Intn(len(nchs))]
	need := (nch + 7) / 8
	root := boson.NewAddress(core.GenBytes(uint64(r.Intn(3)+100), 32, 0))
	for fi, first := range presLens(need)[2:] {
		c := core.Case{ID: fmt.Sprintf("cim-pairs%d", fi), NT: true, Ops: []string{fmt.Sprintf("ci.file %s %d", core.Hex(root.Bytes()), nch)}}
		for si, second := range presLens(need) {
			tgt := overlayOf(fmt.Sprintf("ci-m%d-%d", fi, si))
			c.Ops = append(c.Ops, respOp("ci-src1", root, tgt, r.Bytes(first), nil, 0), respOp("ci-src2", root, tgt, r.Bytes(second), nil, 0))
		}
		cs = append(cs, c)
	}
	// (b) random orders of 2-5 lengths on one or two overlays, optional running discovery, other keys alongside
	for i := 0; i < n; i++ {
		c := core.Case{ID: fmt.Sprintf("cim%d", i), NT: true}
		nch := r.Pick([]int{1, 2, 7, 8, 9, 11, 16, 17, 20, 64, 100})
		need := (nch + 7) / 8
		root := boson.NewAddress(core.GenBytes(uint64(r.Intn(3)+100), 32, 0))
		tgts := []boson.Address{overlayOf(names(r, "ci-src1", "ci-src2", "ci-x1")), overlayOf("ci-peerA")}
		c.Ops = append(c.Ops, fmt.Sprintf("ci.file %s %d", core.Hex(root.Bytes()), nch))
		if r.Chance(40) {
			c.Ops = append(c.Ops, fmt.Sprintf("ci.find %s %s,%s", core.Hex(root.Bytes()), core.Hex(tgts[0].Bytes()), core.Hex(tgts[1].Bytes())))
		}
		ls := presLens(need)
		for k := r.Range(2, 5); k > 0; k-- {
			tgt := tgts[0]
			if r.Chance(15) {
				tgt = tgts[1]
			}
			l := ls[r.Intn(len(ls))]
			if r.Chance(10) {
				l = r.Range(0, need+3)
			}
			var extra map[string][]byte
			if r.Chance(25) {
				extra = map[string][]byte{overlayOf(names(r, "ci-src2", "ci-x2")).String(): r.Bytes(ls[r.Intn(len(ls))])}
			}
			c.Ops = append(c.Ops, respOp(names(r, "ci-src1", "ci-src2", "ci-peerA"), root, tgt, r.Bytes(l), extra, 4))
		}
		cs = append(cs, c)
	}
	return cs
}

// ---- routetab

func genPath(r *core.Rand, pool [][]byte) *rtpb.Path {
	p := &rtpb.Path{Sign: fb(r)}
	for j := r.Pick([]int{0, 1, 2, 3}); j > 0; j-- {
		p.Bodys = append(p.Bodys, fb(r))
	}
	for j := r.Pick([]int{0, 1, 2, 2, 3, 4, 10, 11, 12}); j > 0; j-- {
		p.Items = append(p.Items, fb(r, pool...))
	}
	return p
}

func genRt(r *core.Rand, n int, slow int) []core.Case {
	var cs []core.Case
	self := overlayOf("rt-self").Bytes()
	var pool [][]byte
	for _, nm := range []string{"rt-n0", "rt-n1", "rt-n2", "rt-far", "rt-a", "rt-b", "rt-c"} {
		pool = append(pool, overlayOf(nm).Bytes())
	}
	far := signedAddress("rt-far", "/ip4/9.9.9.9/tcp/1634")
	farU, _ := far.Underlay.MarshalBinary()
	ulist := func() []*rtpb.UnderlayResp {
		var us []*rtpb.UnderlayResp
		for j := r.Pick([]int{0, 0, 1, 2}); j > 0; j-- {
			if r.Bool() {
				us = append(us, &rtpb.UnderlayResp{Dest: far.Overlay.Bytes(), Underlay: farU, Signature: far.Signature})
			} else {
				us = append(us, &rtpb.UnderlayResp{Dest: fb(r, pool...), Underlay: fb(r, farU), Signature: fb(r, far.Signature)})
			}
		}
		return us
	}
	for i := 0; i < n; i++ {
		c := core.Case{ID: fmt.Sprintf("rt%d", i), NT: true}
		for k := r.Range(1, 4); k > 0; k-- {
			peer := names(r, "rt-n0", "rt-n1", "rt-a")
			switch r.Intn(8) {
			case 0, 1, 2:
				req := &rtpb.RouteReq{Dest: fb(r, append(pool, self)...), Alpha: fi32(r), UType: int32(r.Pick([]int{0, 1, 1, 2, -1})), UList: ulist()}
				for j := r.Pick([]int{0, 1, 1, 2}); j > 0; j-- {
					req.Paths = append(req.Paths, genPath(r, append(pool, self)))
				}
				c.Ops = append(c.Ops, "rt.req "+peer+" "+gstream(r, 15, req))
			case 3, 4:
				resp := &rtpb.RouteResp{Dest: fb(r, pool...), UType: int32(r.Pick([]int{0, 1, 1, 2, -1})), UList: ulist()}
				for j := r.Pick([]int{0, 1, 1, 2, 3}); j > 0; j-- {
					resp.Paths = append(resp.Paths, genPath(r, pool))
				}
				c.Ops = append(c.Ops, "rt.resp "+peer+" "+gstream(r, 15, resp))
			case 5:
				c.Ops = append(c.Ops, "rt.findunderlay "+peer+" "+gstream(r, 20, &rtpb.UnderlayReq{Dest: fb(r, pool...)}))
			case 6:
				if r.Bool() {
					c.Ops = append(c.Ops, "rt.dofindunderlay "+peer+" "+gstream(r, 15, &rtpb.UnderlayResp{Dest: far.Overlay.Bytes(), Underlay: farU, Signature: far.Signature}))
				} else {
					c.Ops = append(c.Ops, "rt.dofindunderlay "+peer+" "+gstream(r, 15, &rtpb.UnderlayResp{Dest: fb(r, far.Overlay.Bytes()), Underlay: fb(r, farU), Signature: fb(r, far.Signature)}))
				}
			default:
				// relay ops to a non-neighbour without a route wait for the find-route deadline: rationed
				dest := fb(r, pool[0], pool[1], pool[2], self)
				if slow > 0 && r.Chance(25) {
					slow--
					dest = fb(r, pool...)
				}
				req := &rtpb.RouteRelayReq{Src: fb(r, pool...), SrcMode: fb(r, []byte{1}, []byte{1}, []byte{1}), Dest: dest, ProtocolName: []byte("pingpong"), ProtocolVersion: []byte("1.0.0"), StreamName: []byte("pingpong"),
					Data: fb(r), MidCall: r.Chance(20)}
				for j := r.Pick([]int{0, 0, 1, 3}); j > 0; j-- {
					req.Paths = append(req.Paths, fb(r, pool...))
				}
				c.Ops = append(c.Ops, names(r, "rt.relay", "rt.connchain")+" "+peer+" "+gstream(r, 15, req))
			}
		}
		cs = append(cs, c)
	}
	return cs
}

// ---- multicast

func genMc(r *core.Rand, n int) []core.Case {
	var cs []core.Case
	var gidPool [][]byte
	for i := 0; i < 3; i++ {
		gidPool = append(gidPool, multicast.GenerateGID(fmt.Sprintf("c37-group-%d", i)).Bytes())
	}
	self := overlayOf("mc-self").Bytes()
	for i := 0; i < n; i++ {
		c := core.Case{ID: fmt.Sprintf("mc%d", i), NT: true}
		if r.Chance(70) {
			c.Ops = append(c.Ops, fmt.Sprintf("mc.join %s sub=%d", core.Hex(gidPool[0]), r.Intn(2)))
		}
		for k := r.Range(1, 4); k > 0; k-- {
			peer := names(r, "mc-n0", "mc-n1", "mc-far1", "mc-far2")
			gl := func() [][]byte {
				var g [][]byte
				for j := r.Pick([]int{0, 1, 1, 2, 3}); j > 0; j-- {
					g = append(g, fb(r, gidPool...))
				}
				return g
			}
			switch r.Intn(12) {
			case 0:
				c.Ops = append(c.Ops, "mc.handshake "+peer+" "+gstream(r, 15, &mcpb.GIDs{Gid: gl()}))
			case 1:
				c.Ops = append(c.Ops, "mc.notify "+peer+" "+gstream(r, 15, &mcpb.Notify{Status: int32(r.Pick([]int{0, 1, 1, 2, 3, -1})), Gids: gl()}))
			case 2, 3:
				req := &mcpb.FindGroupReq{Gid: fb(r, gidPool...), Limit: fi32(r), Ttl: int32(r.Pick([]int{0, 0, 1, 8, 9, 10, -1, 1<<31 - 1}))}
				for j := r.Pick([]int{0, 0, 1, 2}); j > 0; j-- {
					req.Paths = append(req.Paths, fb(r, overlayOf("mc-n0").Bytes(), self))
				}
				fg := &mcpb.FindGroupResp{}
				for j := r.Pick([]int{0, 1, 2, 5}); j > 0; j-- {
					fg.Addresses = append(fg.Addresses, fb(r))
				}
				c.Ops = append(c.Ops, "mc.findgroup "+peer+" "+gstream(r, 15, req)+" "+gstream(r, 20, fg))
			case 4, 5:
				m := &mcpb.MulticastMsg{Id: uint64(r.Intn(1 << 30)), CreateTime: int64(r.Pick([]int{0, 1, -1, 1 << 40})), Origin: fb(r, self, overlayOf("mc-far1").Bytes()), Gid: fb(r, gidPool...), Data: fb(r)}
				c.Ops = append(c.Ops, "mc.multicast "+peer+" "+gstream(r, 15, m))
			case 6, 7, 8:
				m := &mcpb.GroupMsg{Gid: fb(r, gidPool[0], gidPool[0], gidPool[0], gidPool[1]), Data: fb(r), Type: int32(r.Pick([]int{0, 1, 1, 2, 3, -1, 99})), Err: names(r, "", "", "boom")}
				s := frame(m)
				switch r.Intn(5) {
				case 0:
					s = append(s, rawFrame(nil)...) // a further, empty frame on the session stream
				case 1:
					s = append(s, frame(&mcpb.GroupMsg{Data: []byte("more")})...)
				case 2:
					s = mutate(r, s)
				}
				c.Ops = append(c.Ops, "mc.message "+peer+" "+core.Hex(s))
			case 9:
				c.Ops = append(c.Ops, "mc.dohandshake "+peer+" "+gstream(r, 20, &mcpb.GIDs{Gid: gl()}))
			default:
				m := &mcpb.GroupMsg{Gid: fb(r, gidPool...), Data: fb(r), Type: int32(r.Intn(3)), Err: names(r, "", "", "remote error %d %s")}
				c.Ops = append(c.Ops, names(r, "mc.send", "mc.sendreceive")+" "+peer+" "+gstream(r, 20, m))
			}
		}
		cs = append(cs, c)
	}
	return cs
}

// ---- fixed regression cases (one per repaired defect) and the whole generator

func fixedCases() []core.Case {
	u, o, s := hsRemote()
	ou, _ := mustMA("/ip4/127.0.0.1/tcp/1634/p2p/" + hsSelfP2P).MarshalBinary()
	syn := &verifexport.HandshakeSyn{ObservedUnderlay: ou}
	goodAck := &verifexport.HandshakeAck{Address: &verifexport.HandshakeBzzAddress{Underlay: u, Overlay: o, Signature: s}, NetworkID: networkID, NodeMode: []byte{1}}
	root := boson.NewAddress(core.GenBytes(100, 32, 0))
	self := overlayOf("ci-self")
	src := overlayOf("ci-src1")
	gid := multicast.GenerateGID("c37-group-0").Bytes()
	h := func(ms ...proto.Message) string { return core.Hex(frame(ms...)) }
	nroot, nframes := nestedRaggedPyramid()
	var nmsgs []proto.Message
	for _, f := range nframes {
		nmsgs = append(nmsgs, f)
	}
	return []core.Case{
		// known finding (pkg/file/joiner, not repaired here): see known-findings.txt
		{ID: "known-pyramid-ragged-nested", NT: true, Ops: []string{"ci.pyramid ci-src1 " + h(&cipb.ChunkPyramidReq{RootCid: nroot.Bytes(), Target: src.Bytes()}) + " " + h(nmsgs...)}},
		{ID: "fix-handshake-ok", NT: true, Ops: []string{"hs.dial " + h(&verifexport.HandshakeSynAck{Syn: syn, Ack: goodAck}), "hs.handle " + h(syn, goodAck)}},
		{ID: "fix-handshake-synack-nil-syn", NT: true, Ops: []string{"hs.dial " + h(&verifexport.HandshakeSynAck{}), "hs.dial " + h(&verifexport.HandshakeSynAck{Ack: goodAck})}},
		{ID: "fix-handshake-synack-nil-ack", NT: true, Ops: []string{"hs.dial " + h(&verifexport.HandshakeSynAck{Syn: syn})}},
		{ID: "fix-handshake-synack-nil-address", NT: true, Ops: []string{"hs.dial " + h(&verifexport.HandshakeSynAck{Syn: syn, Ack: &verifexport.HandshakeAck{NetworkID: networkID, NodeMode: []byte{1}}})}},
		{ID: "fix-handshake-ack-nil-address", NT: true, Ops: []string{"hs.handle " + h(syn, &verifexport.HandshakeAck{NetworkID: networkID, NodeMode: []byte{1}}), "hs.handle " + h(syn, &verifexport.HandshakeAck{NetworkID: networkID, NodeMode: []byte{0}})}},
		{ID: "fix-traffic-null-cheque", NT: true, Ops: []string{"tr.reg tr-p1 tr-p1", "tr.cheque tr-p1 " + h(&trpb.EmitCheque{SignedCheque: []byte("null")}), "tr.cheque tr-p1 " + h(&trpb.EmitCheque{SignedCheque: signedChequeJSON("tr-p1", 10)}),
			"tr.cheque tr-stranger " + h(&trpb.EmitCheque{SignedCheque: []byte("null")})}},
		{ID: "fix-chunkinfo-short-presence", NT: true, Ops: []string{fmt.Sprintf("ci.file %s 20", core.Hex(root.Bytes())),
			"ci.resp ci-src1 " + h(&cipb.ChunkInfoResp{RootCid: root.Bytes(), Target: src.Bytes(), Req: self.Bytes(), Presence: map[string][]byte{src.String(): {0x01}}}),
			"ci.resp ci-src1 " + h(&cipb.ChunkInfoResp{RootCid: root.Bytes(), Target: src.Bytes(), Req: self.Bytes(), Presence: map[string][]byte{src.String(): {}}}),
			"ci.resp ci-src1 " + h(&cipb.ChunkInfoResp{RootCid: root.Bytes(), Target: src.Bytes(), Req: self.Bytes(), Presence: map[string][]byte{src.String(): {1, 2, 3}}})}},
		{ID: "fix-chunkinfo-nonhex-presence-key", NT: true, Ops: []string{fmt.Sprintf("ci.file %s 4", core.Hex(root.Bytes())),
			fmt.Sprintf("ci.find %s %s", core.Hex(root.Bytes()), core.Hex(src.Bytes())),
			"ci.resp ci-src1 " + h(&cipb.ChunkInfoResp{RootCid: root.Bytes(), Target: src.Bytes(), Req: self.Bytes(), Presence: map[string][]byte{src.String(): {0x0f}, "zz": {1}}}),
			"ci.resp ci-src1 " + h(&cipb.ChunkInfoResp{RootCid: root.Bytes(), Target: src.Bytes(), Req: self.Bytes(), Presence: map[string][]byte{"abc": {1}}})}},
		// seeded change C37-2 (missed before): a vector is stored for (root, src); a later response for the same pair with
		// MORE presence bytes must be rejected by SetBytes' length check (a byte-wise merge indexes out of range in the
		// worker goroutine); then equal / shorter / empty / much longer ones
		{ID: "fix-presence-longer-second", NT: true, Ops: []string{fmt.Sprintf("ci.file %s 11", core.Hex(root.Bytes())),
			"ci.resp ci-src1 " + h(&cipb.ChunkInfoResp{RootCid: root.Bytes(), Target: src.Bytes(), Req: self.Bytes(), Presence: map[string][]byte{src.String(): {0x0f, 0x00}}}),
			"ci.resp ci-src1 " + h(&cipb.ChunkInfoResp{RootCid: root.Bytes(), Target: src.Bytes(), Req: self.Bytes(), Presence: map[string][]byte{src.String(): {0xff, 0x07, 0x01}}}),
			"ci.resp ci-src2 " + h(&cipb.ChunkInfoResp{RootCid: root.Bytes(), Target: src.Bytes(), Req: self.Bytes(), Presence: map[string][]byte{src.String(): {0xf0, 0x01}}}),
			"ci.resp ci-src1 " + h(&cipb.ChunkInfoResp{RootCid: root.Bytes(), Target: src.Bytes(), Req: self.Bytes(), Presence: map[string][]byte{src.String(): {0x01}}}),
			"ci.resp ci-src1 " + h(&cipb.ChunkInfoResp{RootCid: root.Bytes(), Target: src.Bytes(), Req: self.Bytes(), Presence: map[string][]byte{src.String(): {}}}),
			"ci.resp ci-src1 " + h(&cipb.ChunkInfoResp{RootCid: root.Bytes(), Target: src.Bytes(), Req: self.Bytes(), Presence: map[string][]byte{src.String(): make([]byte, 202)}})}},
		{ID: "fix-multicast-sendreceive-extra-frame", NT: true, Ops: []string{fmt.Sprintf("mc.join %s sub=1", core.Hex(gid)),
			"mc.message mc-far1 " + core.Hex(append(frame(&mcpb.GroupMsg{Gid: gid, Data: []byte("q"), Type: int32(multicast.SendReceive)}), rawFrame(nil)...)),
			"mc.message mc-far1 " + core.Hex(append(frame(&mcpb.GroupMsg{Gid: gid, Data: []byte("q"), Type: int32(multicast.SendReceive)}), frame(&mcpb.GroupMsg{Data: []byte("x")})...))}},
	}
}

func (prop) Gen(r *core.Rand, tier string) []core.Case {

	k := 1
	if tier == "thorough" {
		k = 12
	}
	cs := fixedCases()
	cs = append(cs, genHs(r.Fork(), 60*k)...)
	cs = append(cs, genHive(r.Fork(), 30*k, 3*k)...)
	cs = append(cs, genRetPing(r.Fork(), 50*k)...)
	cs = append(cs, genTr(r.Fork(), 60*k)...)
	cs = append(cs, genCi(r.Fork(), 70*k)...)
	cs = append(cs, genRt(r.Fork(), 50*k, 4*k)...)
	cs = append(cs, genMc(r.Fork(), 25*k)...)
	cs = append(cs, genCiMerge(r.Fork(), 12*k)...) // last: the streams of the generators above stay what they were
	return cs
}
