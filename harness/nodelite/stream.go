package nodelite

import (
	"context"
	"errors"
	"io"
	"sync"
	"time"

	"github.com/gauss-project/aurorafs/pkg/aurora"
	"github.com/gauss-project/aurorafs/pkg/boson"
	"github.com/gauss-project/aurorafs/pkg/p2p"
)

// memStreamer connects a node to the protocol handlers of its peer through in-memory pipes.
// (pkg/p2p/streamtest is not used: its record.Read reports io.EOF as soon as the writer has
// closed, even while unread bytes remain, which truncates 256 KiB deliveries.)
type memStreamer struct {
	base      boson.Address
	protocols []p2p.ProtocolSpec
	handlers  sync.WaitGroup // protocol handler goroutines started through this streamer
}

// Wait blocks until every protocol handler started through this streamer has returned.
func (m *memStreamer) Wait() { m.handlers.Wait() }

var errNoStream = errors.New("nodelite: stream not supported")

type pipe struct {
	mu     sync.Mutex
	cond   *sync.Cond
	buf    []byte
	closed bool
}

func newPipe() *pipe { p := &pipe{}; p.cond = sync.NewCond(&p.mu); return p }

func (p *pipe) Read(b []byte) (int, error) {
	p.mu.Lock()
	defer p.mu.Unlock()
	for len(p.buf) == 0 && !p.closed {
		p.cond.Wait()
	}
	if len(p.buf) == 0 {
		return 0, io.EOF
	}
	n := copy(b, p.buf)
	p.buf = p.buf[n:]
	return n, nil
}

func (p *pipe) Write(b []byte) (int, error) {
	p.mu.Lock()
	defer p.mu.Unlock()
	if p.closed {
		return 0, errors.New("nodelite: stream closed")
	}
	p.buf = append(p.buf, b...)
	p.cond.Broadcast()
	return len(b), nil
}

func (p *pipe) Close() {
	p.mu.Lock()
	p.closed = true
	p.cond.Broadcast()
	p.mu.Unlock()
}

func (p *pipe) isClosed() bool { p.mu.Lock(); defer p.mu.Unlock(); return p.closed }

type memStream struct {
	r, w *pipe
}

func (s *memStream) Read(b []byte) (int, error)   { return s.r.Read(b) }
func (s *memStream) Write(b []byte) (int, error)  { return s.w.Write(b) }
func (s *memStream) Close() error                 { s.w.Close(); return nil }
func (s *memStream) Headers() p2p.Headers         { return nil }
func (s *memStream) ResponseHeaders() p2p.Headers { return nil }
func (s *memStream) Reset() error                 { s.w.Close(); s.r.Close(); return nil }
func (s *memStream) FullClose() error {
	s.w.Close()
	t0 := time.Now()
	for !s.r.isClosed() {
		if time.Since(t0) > 2*time.Second {
			return errors.New("nodelite: full close timeout")
		}
		time.Sleep(100 * time.Microsecond)
	}
	return nil
}

func (m *memStreamer) NewStream(ctx context.Context, addr boson.Address, h p2p.Headers, proto, ver, name string) (p2p.Stream, error) {
	var handler p2p.HandlerFunc
	for _, p := range m.protocols {
		if p.Name == proto && p.Version == ver {
			for _, s := range p.StreamSpecs {
				if s.Name == name {
					handler = s.Handler
				}
			}
		}
	}
	if handler == nil {
		return nil, errNoStream
	}
	a, b := newPipe(), newPipe()
	out := &memStream{r: a, w: b}
	in := &memStream{r: b, w: a}
	m.handlers.Add(1)
	go func() {
		defer m.handlers.Done()
		_ = handler(context.Background(), p2p.Peer{Address: m.base, Mode: aurora.NewModel().SetMode(aurora.FullNode)}, in)
	}()
	return out, nil
}
func (m *memStreamer) NewRelayStream(context.Context, boson.Address, p2p.Headers, string, string, string, bool) (p2p.Stream, error) {
	return nil, errNoStream
}
func (m *memStreamer) NewConnChainRelayStream(context.Context, boson.Address, p2p.Headers, string, string, string) (p2p.Stream, error) {
	return nil, errNoStream
}
