import Aurora.Lemmas.GcEvict
import Aurora.Model.GcWindow
/-!
Helper lemmas for the candidate-by-candidate model of `collectGarbage` (`Model/GcWindow.lean`):
without an operation between the candidates, the steps compose to lstore-a's `gcEvict`.
-/
namespace Aurora.Localstore

/-- all candidates in turn, no operation in between -/
def gcSteps (pyr : Addr → Option (List (Addr × Nat))) : GcRun → List (GcKey × Nat) → GcRun
  | r, [] => r
  | r, e :: rest => gcSteps pyr (gcEvictOne r e (pyr e.1.addr)).1 rest

/-- `tx'` continues `tx`: clock, bin ids and gcSize change untouched; if the view of `tx` is the
    start database with its direct writes applied, so is the view of `tx'` -/
def Tx.Cont (tx tx' : Tx) : Prop :=
  tx'.clock = tx.clock ∧ tx'.clockStep = tx.clockStep ∧ tx'.bins = tx.bins ∧ tx'.change = tx.change ∧
  ∀ db0, tx.db = applyLog db0 tx.log → tx'.db = applyLog db0 tx'.log

theorem Tx.Cont.refl (tx : Tx) : Tx.Cont tx tx := ⟨rfl, rfl, rfl, rfl, fun _ h => h⟩

theorem Tx.Cont.trans {a b c : Tx} (h1 : Tx.Cont a b) (h2 : Tx.Cont b c) : Tx.Cont a c :=
  ⟨h2.1.trans h1.1, h2.2.1.trans h1.2.1, h2.2.2.1.trans h1.2.2.1, h2.2.2.2.1.trans h1.2.2.2.1,
   fun db0 h => h2.2.2.2.2 db0 (h1.2.2.2.2 db0 h)⟩

theorem Tx.Cont.inBatch (tx : Tx) (w : Write) : Tx.Cont tx (tx.inBatch w) :=
  ⟨rfl, rfl, rfl, rfl, fun _ h => h⟩

theorem Tx.Cont.direct (tx : Tx) (w : Write) : Tx.Cont tx (tx.direct w) := by
  refine ⟨rfl, rfl, rfl, rfl, ?_⟩
  intro db0 h
  simp [Tx.direct, h, applyLog, List.foldl_append, applyDW]

theorem evictPyramid_cont (l : List (Addr × Nat)) (tx : Tx) (n : Nat) :
    Tx.Cont tx (evictPyramid tx l n).1 := by
  induction l generalizing tx n with
  | nil => exact Tx.Cont.refl tx
  | cons e l ih =>
    obtain ⟨cid, num⟩ := e
    unfold evictPyramid
    cases hp : SMap.get cid tx.db.pin with
    | some p =>
      simp only
      by_cases hgt : p > num
      · simp only [hgt, if_true]
        exact (Tx.Cont.direct tx _).trans (ih _ _)
      · simp only [hgt, if_false]
        by_cases hh : SMap.has cid (tx.inBatch (.pinDel cid)).db.data = true
        · simp only [hh, if_true]
          exact ((Tx.Cont.inBatch tx _).trans (Tx.Cont.inBatch _ _)).trans (ih _ _)
        · simp only [hh]
          exact (Tx.Cont.inBatch tx _).trans (ih _ _)
    | none =>
      simp only
      by_cases hh : SMap.has cid tx.db.data = true
      · simp only [hh, if_true]
        exact (Tx.Cont.inBatch tx _).trans (ih _ _)
      · simp only [hh]
        exact ih _ _

/-- a run whose localstore state differs from `s` only in the database, which is `s.db` with the
    run's direct writes applied -/
def GcRun.Of (s : State) (r : GcRun) : Prop :=
  r.st = { s with db := r.st.db } ∧ r.st.db = applyLog s.db r.log

theorem GcRun.tx_evict (r : GcRun) (e : GcKey × Nat) (chunks : List (Addr × Nat)) :
    (r.evict e chunks).tx = (evictPyramid r.tx chunks 0).1 := by
  have hc := evictPyramid_cont chunks r.tx 0
  simp only [GcRun.evict]
  generalize evictPyramid r.tx chunks 0 = p at hc ⊢
  obtain ⟨t, c⟩ := p
  obtain ⟨h1, h2, h3, h4, _⟩ := hc
  simp only [GcRun.tx, Tx.start] at h1 h2 h3 h4 ⊢
  cases t
  simp_all

theorem GcRun.Of.evict {s : State} {r : GcRun} (h : GcRun.Of s r) (e : GcKey × Nat) (chunks : List (Addr × Nat)) :
    GcRun.Of s (r.evict e chunks) := by
  obtain ⟨h1, h2⟩ := h
  have hc := (evictPyramid_cont chunks r.tx 0).2.2.2.2 s.db (by simpa [GcRun.tx, Tx.start] using h2)
  constructor
  · simp only [GcRun.evict]
    rw [h1]
  · simpa [GcRun.evict] using hc

theorem GcRun.Of.skip {s : State} {r : GcRun} (h : GcRun.Of s r) (e : GcKey × Nat) : GcRun.Of s (r.skip e) := h

/-- the candidate loop of `gcEvict` is the sequence of single-candidate steps -/
theorem evictLoop_eq_gcSteps (pyr : Addr → Option (List (Addr × Nat))) (s : State)
    (cands : List (GcKey × Nat)) (r : GcRun) (hr : GcRun.Of s r) :
    evictLoop pyr s.dirty r.tx cands r.n r.recycled r.visited =
      ((gcSteps pyr r cands).tx, (gcSteps pyr r cands).n, (gcSteps pyr r cands).recycled, (gcSteps pyr r cands).visited) ∧
    GcRun.Of s (gcSteps pyr r cands) := by
  induction cands generalizing r with
  | nil => exact ⟨by simp [evictLoop, gcSteps], hr⟩
  | cons e rest ih =>
    obtain ⟨k, c⟩ := e
    have hd : r.st.dirty = s.dirty := by rw [hr.1]
    unfold evictLoop gcSteps
    cases hp : pyr k.addr with
    | none =>
      simp only [gcEvictOne]
      exact ih (r.skip (k, c)) (hr.skip _)
    | some chunks =>
      simp only [gcEvictOne, hd]
      by_cases hdirty : s.dirty.contains k.addr = true
      · simp only [hdirty, if_true]
        exact ih (r.skip (k, c)) (hr.skip _)
      · simp only [hdirty]
        have := ih (r.evict (k, c) chunks) (hr.evict _ _)
        rw [GcRun.tx_evict] at this
        simpa [GcRun.evict] using this

theorem recycledTx_batch (recycled : List (GcKey × Nat)) (tx : Tx) :
    (recycledTx recycled tx).batch = recycled.foldl (fun (b : List Write) (e : GcKey × Nat) =>
      b ++ [.dataDel e.1.addr, .accDel e.1.addr, .gcDel e.1]) tx.batch ∧
    (recycledTx recycled tx).log = tx.log ∧ (recycledTx recycled tx).db = tx.db := by
  induction recycled generalizing tx with
  | nil => exact ⟨rfl, rfl, rfl⟩
  | cons e rest ih =>
    simp only [recycledTx, List.foldl] at ih ⊢
    obtain ⟨h1, h2, h3⟩ := ih (((tx.inBatch (.dataDel e.1.addr)).inBatch (.accDel e.1.addr)).inBatch (.gcDel e.1))
    refine ⟨?_, by simpa [Tx.inBatch] using h2, by simpa [Tx.inBatch] using h3⟩
    rw [h1]; simp [Tx.inBatch]

/-- Without an operation between the candidates, the single-candidate steps followed by `gcFinish`
    are exactly lstore-a's `gcEvict` (state, output, driver writes): everything proved about
    `gcEvict` holds for a run of the window model in which nothing races. -/
theorem gcSteps_finish_eq_gcEvict (s : State) (pyr : Addr → Option (List (Addr × Nat)))
    (hrun : s.gcRunning = true) :
    (gcFinish (gcSteps pyr (GcRun.start s) s.cands)).st = (gcEvict s pyr).st ∧
    (gcFinish (gcSteps pyr (GcRun.start s) s.cands)).out = (gcEvict s pyr).out ∧
    (gcFinish (gcSteps pyr (GcRun.start s) s.cands)).writes = (gcEvict s pyr).writes := by
  have h0 : GcRun.Of s (GcRun.start s) := ⟨rfl, rfl⟩
  obtain ⟨hloop, hof⟩ := evictLoop_eq_gcSteps pyr s s.cands (GcRun.start s) h0
  generalize gcSteps pyr (GcRun.start s) s.cands = R at hloop hof ⊢
  have hloop : evictLoop pyr s.dirty (Tx.start s) s.cands 0 [] [] = (R.tx, R.n, R.recycled, R.visited) := hloop
  obtain ⟨hst, hdb⟩ := hof
  obtain ⟨hb, hl, hd⟩ := recycledTx_batch R.recycled R.tx
  have hev : gcEvict s pyr =
      (let tx1 := (recycledTx R.recycled R.tx)
       let n := if R.recycled.isEmpty then R.tx.db.gcSize else R.n + R.recycled.length
       let cur := if n ≤ R.tx.db.gcSize then R.tx.db.gcSize - n else 0
       let tx := tx1.inBatch (.gcSizePut cur)
       { st := { s with db := applyLog s.db (tx.log ++ [DW.batch tx.batch]), gcRunning := false, dirty := [], cands := [] },
         out := .gcDone n (!(decide (cur > s.runTarget))) R.visited, writes := tx.log ++ [DW.batch tx.batch] }) := by
    unfold gcEvict
    simp only [hrun, Bool.not_true, Bool.false_eq_true, if_false, hloop]
    rfl
  rw [hev]
  have hrt : R.st.runTarget = s.runTarget := by rw [hst]
  have hdbtx : R.tx.db = R.st.db := rfl
  have hbt : R.tx.batch = R.batch := rfl
  have hlt : R.tx.log = R.log := rfl
  simp only [gcFinish, Tx.inBatch, hb, hl, hdbtx, hbt, hlt, hrt]
  refine ⟨?_, trivial, trivial⟩
  have : applyLog s.db (R.log ++ [DW.batch (List.foldl (fun (b : List Write) (e : GcKey × Nat) =>
      b ++ [Write.dataDel e.1.addr, Write.accDel e.1.addr, Write.gcDel e.1]) R.batch R.recycled ++
        [Write.gcSizePut (if (if R.recycled.isEmpty = true then R.st.db.gcSize else R.n + R.recycled.length) ≤ R.st.db.gcSize
          then R.st.db.gcSize - (if R.recycled.isEmpty = true then R.st.db.gcSize else R.n + R.recycled.length) else 0)])]) =
      applyBatch R.st.db (List.foldl (fun (b : List Write) (e : GcKey × Nat) =>
      b ++ [Write.dataDel e.1.addr, Write.accDel e.1.addr, Write.gcDel e.1]) R.batch R.recycled ++
        [Write.gcSizePut (if (if R.recycled.isEmpty = true then R.st.db.gcSize else R.n + R.recycled.length) ≤ R.st.db.gcSize
          then R.st.db.gcSize - (if R.recycled.isEmpty = true then R.st.db.gcSize else R.n + R.recycled.length) else 0)]) := by
    rw [hdb]; simp [applyLog, List.foldl_append, applyDW]
  rw [this, hst]

end Aurora.Localstore
