import Driver.Util
import Driver.C03
import Driver.C05
import Aurora.Model.DecryptStore
/-! Driver for C08: `encryption.New(..).Encrypt/Decrypt/Reset`, `EncryptChunk`, the decrypting
    store's `Get` (incl. synthetic chunks with arbitrary spans) and the shape of the trees the
    encrypted pipeline writes, with real Keccak-256.  Random keys / padding drawn by the code are
    oracle values (`| <tokens>` annotations) whose lengths the model checks.
    `trie <seed> <n> <last>`: the encrypted pipeline's hash-trie writer fed with `n` leaves of span `C` (+ one of `last`
    bytes) and no data (subtrees of `2^32` bytes and more): the root span is the sum of the leaf spans, `get` follows paths
    as in a pipeline file of that length (a path that fetches a leaf answers `err`: leaves are not stored). -/
namespace Driver.C08
open Aurora.Bmt Aurora.Encryption Aurora.DecryptStore

def C : Nat := 262144
def R : Nat := 64
def B : Nat := C / R
def keccak := Driver.C03.keccak

structure St where
  enc : Option Enc := none
  last : Option Bytes := none                    -- output of the last successful `e`
  chunk : Option (Bytes × Bytes) := none          -- (key, encrypted chunk) of the last `chunk`
  file : Option Nat := none                       -- length of the file written by `pipe` / `trie`
  synth : Bool := false                          -- `trie`: the leaves are not stored (only their references were written)

def digest (b : Bytes) : String := Driver.bytesToHex ((keccak b).take 8)

def outBytes (b : Bytes) : String :=
  if b.length ≤ 48 then s!"ok {b.length} {Driver.bytesToHex b}" else s!"ok {b.length} {digest b}"

/-- Go panics in `Transcrypt` (`segmentKey[j]`) when a segment is longer than the 32-byte digest -/
def wouldPanic (e : Enc) (inp : Bytes) : Bool := min e.key.length inp.length > 32

/-- span and returned payload length of the chunk reached from an `n`-byte encrypted file by the
    child indices `path` (`none` = index out of range) -/
def pathSpan : List Nat → Nat → Option Nat
  | [], s => some s
  | i :: rest, s =>
    if s ≤ C then none
    else
      let h := (List.range 8).find? (fun h => s ≤ full C B (h + 1)) |>.getD 8
      let fl := full C B h
      let k := (s + fl - 1) / fl
      if i + 1 < k then pathSpan rest fl
      else if i + 1 = k then pathSpan rest (s - (k - 1) * fl)
      else none

/-- `trie` files: following `path`, is a chunk of span `≤ C` (a leaf, never stored) fetched? -/
def leafOnPath : List Nat → Nat → Bool
  | [], s => s ≤ C
  | i :: rest, s =>
    if s ≤ C then true
    else
      let h := (List.range 8).find? (fun h => s ≤ full C B (h + 1)) |>.getD 8
      let fl := full C B h
      let k := (s + fl - 1) / fl
      if i + 1 < k then leafOnPath rest fl
      else if i + 1 = k then leafOnPath rest (s - (k - 1) * fl)
      else false

def u64 (n : Nat) : UInt64 := UInt64.ofNat n

def step (st : St) (opl : List String) : St × String :=
  let (op, ann) := Driver.C05.splitAnnot opl
  match op with
  | ["mk", key, padding, ctr] =>
    match Driver.hexToBytes key, padding.toNat?, ctr.toNat? with
    | some k, some p, some c =>
      if k.isEmpty ∨ c ≥ 2 ^ 32 then (st, "bad-op")
      else ({ st with enc := some { key := k, padding := p, initCtr := c }, last := none }, "ok")
    | _, _, _ => (st, "bad-op")
  | "chunk" :: _ | "chunkl" :: _ =>
    let cdo : Option Bytes := match op with
      | ["chunk", src] => Driver.parseSrc src
      | ["chunkl", span, src] =>
        match span.toNat?, Driver.parseSrc src with
        | some sp, some b => if sp < 2 ^ 64 then some (Aurora.Cac.le64 sp ++ b) else none
        | _, _ => none
      | _ => none
    match cdo with
    | none => (st, "bad-op")
    | some cd =>
      if cd.length < 8 then ({ st with chunk := none }, "panic")
      else
        match ann.map Driver.hexToBytes with
        | [some key, some pad] =>
          if key.length ≠ 32 then (st, "bad-annot")
          else match encryptChunk keccak C R key pad cd with
            | .error .badOracle => (st, "bad-annot")
            | .error _ => ({ st with chunk := none }, "err")
            | .ok (es, ed) => ({ st with chunk := some (key, es ++ ed) }, s!"ok {(es ++ ed).length} {digest (es ++ ed)}")
        | _ =>
          -- without an annotation the real code must have failed before drawing the padding
          if cd.length - 8 > C then ({ st with chunk := none }, "err") else (st, "no-annot")
  | ["cget"] =>
    match st.chunk with
    | none => (st, "nochunk")
    | some (key, c) =>
      match storeGet keccak C R 32 (fun _ => some c) (zeros 32 ++ key) with
      | .error _ => (st, "err")
      | .ok (_, d) => (st, outBytes d)
  | ["sget", key, span, src] =>
    match Driver.hexToBytes key, span.toNat?, Driver.parseSrc src with
    | some key, some span, some payload =>
      if span ≥ 2 ^ 64 then (st, "bad-op") else
      -- the harness encrypts `le64 span` and `payload` with the real encryption package (no padding
      -- needed when |payload| = C); the model does the same with its own `encrypt`
      let addr := zeros 32 ++ key
      if addr.length ≠ 64 then
        match storeGet keccak C R 32 (fun _ => some []) addr with
        | .error .refLength => (st, "err-reflen")
        | .error _ => (st, "err")
        | .ok (_, d) => (st, outBytes d)
      else if payload.length ≠ C then (st, "bad-op")
      else
        match (spanEnc C R key).encrypt keccak (Aurora.Cac.le64 span) [], (dataEnc C key).encrypt keccak payload [] with
        | .ok (es, _), .ok (ed, _) =>
          match storeGet keccak C R 32 (fun _ => some (es ++ ed)) addr with
          | .error _ => (st, "err")
          | .ok (_, d) => (st, s!"ok {d.length - 8} {digest d}")
        | _, _ => (st, "err")
    | _, _, _ => (st, "bad-op")
  | ["sgetshort", key, n] =>
    -- a stored chunk of `n` bytes that is not an encrypted chunk of full length
    match Driver.hexToBytes key, n.toNat? with
    | some key, some n =>
      if key.length ≠ 32 then (st, "bad-op")
      else if n < 8 then (st, "panic")
      else match storeGet keccak C R 32 (fun _ => some (Driver.genBytes 1 n)) (zeros 32 ++ key) with
        | .error _ => (st, "err")
        | .ok (_, d) => (st, outBytes d)
    | _, _ => (st, "bad-op")
  | ["pipe", _seed, n, _per] =>
    match n.toNat? with
    | none => (st, "bad-op")
    | some n =>
      ({ st with file := some n, synth := false },
        s!"ok {n} {(lengthLoop (u64 C) (u64 R) (u64 n)).toNat} {chunkCount C B 8 n} {n}")
  | ["trie", seed, n, last] =>
    -- the hash-trie writer of the encrypted pipeline fed with `n` leaves of span `C` (+ one of `last` bytes):
    -- the root's span is the sum of the leaf spans, the decrypting store returns 64 bytes per child
    match seed.toNat?, n.toNat?, last.toNat? with
    | some seed, some n, some last =>
      if seed ≥ 2 ^ 32 ∨ n < 1 ∨ n > 100000 ∨ last > C ∨ (n = 1 ∧ last = 0) then (st, "bad-op") else
      let s := n * C + last
      ({ st with file := some s, synth := true }, s!"ok {s} {(lengthLoop (u64 C) (u64 R) (u64 s)).toNat}")
    | _, _, _ => (st, "bad-op")
  | ["get", path] =>
    match st.file with
    | none => (st, "nofile")
    | some n =>
      let idx := if path = "-" then some [] else (path.splitOn ".").mapM String.toNat?
      match idx with
      | none => (st, "bad-op")
      | some idx =>
        if st.synth && leafOnPath idx n then (st, "err") else
        match pathSpan idx n with
        | none => (st, "range")
        | some s =>
          match ann.map Driver.hexToBytes with
          | [some key, some es] =>
            -- the span the real chunk carries, decrypted by the model
            match (spanEnc C R key).decrypt keccak es with
            | .ok (sp, _) =>
              if sp ≠ Aurora.Cac.le64 s then (st, s!"annot-mismatch span {Driver.bytesToHex sp}")
              else (st, s!"{s} {(lengthLoop (u64 C) (u64 R) (u64le sp)).toNat}")
            | .error _ => (st, "bad-annot")
          | _ => (st, "no-annot")
  | _ =>
  match st.enc with
  | none => (st, "noenc")
  | some e =>
    match op with
    | ["e", src] =>
      match Driver.parseSrc src with
      | none => (st, "bad-op")
      | some data =>
        if e.padding > 0 ∧ data.length > e.padding then ({ st with last := none }, "err")
        else if wouldPanic e data then (st, "panic")
        else
          match ann.map Driver.hexToBytes with
          | [some pad] =>
            match e.encrypt keccak data pad with
            | .error .badOracle => (st, "bad-annot")
            | .error _ => ({ st with last := none }, "err")
            | .ok (o, e') => ({ st with enc := some e', last := some o }, outBytes o)
          | _ => (st, "no-annot")
    | ["d", src] =>
      match Driver.parseSrc src with
      | none => (st, "bad-op")
      | some data =>
        if e.padding > 0 ∧ data.length ≠ e.padding then (st, "err")
        else if wouldPanic e data then (st, "panic")
        else match e.decrypt keccak data with
          | .error _ => (st, "err")
          | .ok (o, e') => ({ st with enc := some e' }, outBytes o)
    | ["dl"] =>
      match st.last with
      | none => (st, "nolast")
      | some data =>
        if e.padding > 0 ∧ data.length ≠ e.padding then (st, "err")
        else if wouldPanic e data then (st, "panic")
        else match e.decrypt keccak data with
          | .error _ => (st, "err")
          | .ok (o, e') => ({ st with enc := some e' }, outBytes o)
    | ["reset"] => ({ st with enc := some e.reset }, "ok")
    | _ => (st, "bad-op")

def handler : Driver.Handler := { σ := St, init := {}, step := step }

end Driver.C08
