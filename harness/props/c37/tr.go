package c37

import (
	"context"
	"encoding/json"
	"math/big"

	"github.com/ethereum/go-ethereum/common"
	"github.com/ethereum/go-ethereum/core/types"
	"github.com/gauss-project/aurorafs/pkg/boson"
	"github.com/gauss-project/aurorafs/pkg/crypto"
	"github.com/gauss-project/aurorafs/pkg/p2p"
	"github.com/gauss-project/aurorafs/pkg/settlement/traffic"
	"github.com/gauss-project/aurorafs/pkg/settlement/traffic/cheque"
	"github.com/gauss-project/aurorafs/pkg/settlement/traffic/trafficprotocol"
	trpb "github.com/gauss-project/aurorafs/pkg/settlement/traffic/trafficprotocol/pb"
	mockstate "github.com/gauss-project/aurorafs/pkg/statestore/mock"
	"github.com/gauss-project/aurorafs/pkg/subscribe"

	"verifharness/core"
)

// ---- trafficprotocol: handler (cheque), initHandler, init (ConnectOut client) over the REAL traffic service

const trChainID = 5

type chainStub struct{}

func (chainStub) TransferredAddress(common.Address) ([]common.Address, error) { return nil, nil }
func (chainStub) RetrievedAddress(common.Address) ([]common.Address, error)   { return nil, nil }
func (chainStub) BalanceOf(common.Address) (*big.Int, error)                  { return big.NewInt(1000), nil }
func (chainStub) RetrievedTotal(common.Address) (*big.Int, error)             { return big.NewInt(0), nil }
func (chainStub) TransferredTotal(common.Address) (*big.Int, error)           { return big.NewInt(0), nil }
func (chainStub) TransAmount(_, _ common.Address) (*big.Int, error)           { return big.NewInt(0), nil }
func (chainStub) CashChequeBeneficiary(context.Context, boson.Address, common.Address, common.Address, *big.Int, []byte) (*types.Transaction, error) {
	return nil, nil
}

func ethAddrOf(name string) common.Address {
	b, err := crypto.NewEthereumAddress(keyOf(name).PublicKey)
	if err != nil {
		panic(err)
	}
	return common.BytesToAddress(b)
}

type trEnv struct {
	proto *trafficprotocol.Service
	svc   *traffic.Service
	st    *fakeStreamer
	book  traffic.Addressbook
	self  common.Address
}

func newTrEnv() *trEnv {
	store := mockstate.NewStateStore()
	self := ethAddrOf("tr-self")
	st := &fakeStreamer{}
	proto := trafficprotocol.New(st, noLog, self)
	book := traffic.NewAddressBook(store)
	cs := cheque.NewChequeStore(store, self, cheque.RecoverCheque, trChainID)
	signer := cheque.NewChequeSigner(crypto.NewDefaultSigner(keyOf("tr-self")), trChainID)
	svc := traffic.New(noLog, self, store, chainStub{}, cs, nil, nil, book, signer, proto, trChainID, subscribe.NewSubPub())
	proto.SetTraffic(svc)
	return &trEnv{proto: proto, svc: svc, st: st, book: book, self: self}
}

// signedChequeJSON is a cheque for `payout` issued by key `issuer` to the node, as the peer would send it.
func signedChequeJSON(issuer string, payout int64) []byte {
	c := cheque.Cheque{Recipient: ethAddrOf("tr-self"), Beneficiary: ethAddrOf(issuer), CumulativePayout: big.NewInt(payout)}
	sig, err := cheque.NewChequeSigner(crypto.NewDefaultSigner(keyOf(issuer)), trChainID).Sign(&c)
	if err != nil {
		panic(err)
	}
	b, _ := json.Marshal(&cheque.SignedCheque{Cheque: c, Signature: sig})
	return b
}

// annotation of the EmitCheque frame and of what encoding/json makes of its SignedCheque bytes:
// X | E <address> <J0 | Jn | J1 recipient beneficiary <payout|~> sigLen recoverOK issuerIsBeneficiary>
func annEmit(fr *frameReader, intoPointer bool) (tokens []string, shape string) {
	var m trpb.EmitCheque
	if ok, _ := fr.next(&m); !ok {
		return []string{"X"}, "bad-frame"
	}
	t := []string{"E", hx(m.Address)}
	var p *cheque.SignedCheque
	var err error
	if intoPointer {
		err = json.Unmarshal(m.SignedCheque, &p)
	} else {
		var c cheque.SignedCheque
		err = json.Unmarshal(m.SignedCheque, &c)
		p = &c
	}
	switch {
	case err != nil:
		return append(t, "J0"), "bad-json"
	case p == nil:
		return append(t, "Jn"), "null-cheque"
	}
	pay := "~"
	shape = "nil-payout"
	if p.CumulativePayout != nil {
		pay = p.CumulativePayout.String()
		shape = "cheque"
	}
	issuer, rerr := cheque.RecoverCheque(p, trChainID)
	sigTok := "~"
	if p.Signature != nil {
		sigTok = itoa(int64(len(p.Signature)))
	}
	return append(t, "J1", hx(p.Recipient.Bytes()), hx(p.Beneficiary.Bytes()), pay, sigTok,
		core.B(rerr == nil), core.B(rerr == nil && issuer == p.Beneficiary), core.B(rerr == nil && issuer == ethAddrOf("tr-self"))), shape
}

func (rn *runner) stepTr(ctx *core.Ctx, op []string) string {
	if rn.tr == nil {
		rn.tr = newTrEnv()
	}
	e := rn.tr
	if op[0] == "tr.reg" && len(op) == 3 {
		// set-up: the peer named op[1] is a registered cheque peer with chain address of key op[2]
		ctx.Annotate(hx(overlayOf(op[1]).Bytes()), hx(ethAddrOf(op[2]).Bytes()))
		if err := e.book.PutBeneficiary(overlayOf(op[1]), ethAddrOf(op[2])); err != nil {
			return "err"
		}
		return "ok"
	}
	if len(op) != 3 {
		return "bad-op"
	}
	stream, err := core.UnHex(op[2])
	if err != nil {
		return "bad-op"
	}
	peer := p2p.Peer{Address: overlayOf(op[1]), Mode: fullMode}
	chain, known := e.book.Beneficiary(peer.Address)
	fr := newFrameReader(stream)
	specs := e.proto.Protocol().StreamSpecs
	ctx.Annotate(hx(peer.Address.Bytes()), hx(e.self.Bytes()))
	var o outcome
	switch op[0] {
	case "tr.cheque":
		tok, shape := annEmit(fr, true)
		ctx.Annotate(append(tok, core.B(known), hx(chain.Bytes()))...)
		o = run(func() error { return specs[0].Handler(context.Background(), peer, newStream(stream)) })
		report(ctx, o, "traffic-cheque-"+shape, "trafficprotocol.handler")
	case "tr.inithandler":
		tok, shape := annEmit(fr, false)
		ctx.Annotate(append(tok, core.B(known), hx(chain.Bytes()))...)
		o = run(func() error { return specs[1].Handler(context.Background(), peer, newStream(stream)) })
		report(ctx, o, "traffic-inithandler-"+shape, "trafficprotocol.initHandler")
	case "tr.init":
		tok, shape := annEmit(fr, false)
		ctx.Annotate(append(tok, core.B(known), hx(chain.Bytes()))...)
		e.st.setReply(stream)
		o = run(func() error { return e.proto.Protocol().ConnectOut(context.Background(), peer) })
		report(ctx, o, "traffic-init-"+shape, "trafficprotocol.init")
	default:
		return "bad-op"
	}
	if o.class == "panic" || o.class == "hang" {
		return o.class
	}
	// later local use: balance / cheque queries over whatever the message stored
	l := run(func() error {
		_, _ = e.svc.LastReceivedCheque(peer.Address)
		_, _ = e.svc.LastSentCheque(peer.Address)
		_, _ = e.svc.TrafficCheques()
		_, _ = e.svc.TrafficInfo()
		_, _ = e.svc.AvailableBalance()
		_, _ = e.svc.GetPeerBalance(peer.Address)
		_, _ = e.svc.GetUnPaidBalance(peer.Address)
		_, _ = e.svc.TotalReceived(peer.Address)
		_, _ = e.svc.TotalSent(peer.Address)
		// the init exchange of the next connection re-reads the stored cheque
		e.st.setReply(nil)
		_ = e.proto.Protocol().ConnectOut(context.Background(), peer)
		return nil
	})
	report(ctx, l, "traffic-later-use", "balance and cheque queries after "+op[0])
	return o.class + " " + l.class
}
