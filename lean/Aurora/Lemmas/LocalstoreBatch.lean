import Aurora.Lemmas.LocalstoreCS
/-!
When does a (batched) `Put` succeed, and how does success of the batch carry over to the same chunks
put one at a time — used by `C11_batch_eq_sequential_abstract_partial`.
-/
namespace Aurora.Localstore

set_option linter.unusedSectionVars false
set_option linter.unusedSimpArgs false
set_option linter.unusedVariables false

def okT {α : Type} (r : Except (Err × Tx) α) : Bool :=
  match r with
  | .ok _ => true
  | .error _ => false

/-- the root context makes `setPinRoot` fail: the root has an access entry but is not stored -/
def pinErr (db : Db) (r : Option Addr) : Bool :=
  match r with
  | none => false
  | some r' => (SMap.get r' db.access).isSome && (SMap.get r' db.data).isNone

/-- the chunk step of `put` for address `a` succeeds -/
def stepOk (db : Db) (m : PutMode) (r : Option Addr) (a : Addr) : Bool :=
  match m with
  | .upload => true
  | .invalid => false
  | .request =>
    SMap.has a db.data ||
      (match r with
       | none => true
       | some r' => decide (r' = a) || SMap.has r' db.data)
  | .requestPin => SMap.has a db.data || !pinErr db r
  | .uploadPin => !pinErr db r

theorem stepOk_congr {db1 db2 : Db} (hd : db1.data = db2.data) (ha : db1.access = db2.access)
    (m : PutMode) (r : Option Addr) (a : Addr) : stepOk db1 m r a = stepOk db2 m r a := by
  simp [stepOk, pinErr, hd, ha]

theorem setPinRoot_okT (tx : Tx) (r : Option Addr) : okT (setPinRoot tx r) = !pinErr tx.db r := by
  simp only [setPinRoot, pinErr]
  cases r with
  | none => rfl
  | some r' =>
    simp only []
    cases SMap.get r' tx.db.access with
    | none => rfl
    | some t =>
      simp only []
      cases SMap.get r' tx.db.data with
      | none => rfl
      | some rd =>
        simp only []
        cases SMap.get (⟨t, rd.binID, r'⟩ : GcKey) tx.db.gc with
        | none => rfl
        | some c => simp only []; split <;> rfl

theorem setPin_okT (tx : Tx) (a : Addr) (r : Option Addr) : okT (setPin tx a r) = !pinErr tx.db r := by
  rw [← setPinRoot_okT]
  simp only [setPin]
  cases setPinRoot tx r <;> rfl

theorem setGC_okT (tx : Tx) (r : Option Addr) (b : Nat) :
    okT (setGC tx r b) =
      (match r with
       | none => true
       | some r' => decide (b ≠ 0) || SMap.has r' tx.db.data) := by
  simp only [setGC, Tx.now, Tx.inBatch, Tx.addChange]
  cases r with
  | none => rfl
  | some r' =>
    simp only []
    by_cases hb : b = 0
    · subst hb
      cases hd : SMap.get r' tx.db.data <;> cases ha : SMap.get r' tx.db.access <;> simp [okT, SMap.has, hd]
    · cases ha : SMap.get r' tx.db.access <;> simp [okT, hb]

theorem storeNew_bin_pos (po : Addr → Nat) (tx : Tx) (a : Addr) (d : Bytes) : (storeNew po tx a d).1 ≠ 0 := by
  simp [storeNew, incBinID]

theorem putStep_okT (po : Addr → Nat) (m : PutMode) (r : Option Addr) (tx : Tx) (a : Addr) (d : Bytes) :
    okT (putStep po m r tx a d) = stepOk tx.db m r a := by
  cases m
  · -- request
    simp only [putStep, putRequest, stepOk]
    by_cases hh : SMap.has a tx.db.data = true
    · simp [hh, okT]
    · have hm : (PutMode.request == PutMode.requestPin) = false := by decide
      simp only [hh, Bool.false_eq_true, if_false, hm, Bool.false_or]
      have h1 := setGC_okT (storeNew po tx a d).2 r (if r = some a then (storeNew po tx a d).1 else 0)
      rw [storeNew_db] at h1
      cases hr : setGC (storeNew po tx a d).2 r (if r = some a then (storeNew po tx a d).1 else 0) with
      | error e =>
        rw [hr] at h1
        simp only [okT] at h1 ⊢
        rw [h1]
        cases r with
        | none => rfl
        | some r' =>
          simp only []
          by_cases hra : r' = a
          · subst hra; simp [storeNew_bin_pos]
          · have : ¬ (some r' = some a) := by simpa using hra
            simp [this, hra]
      | ok t =>
        rw [hr] at h1
        simp only [okT] at h1 ⊢
        rw [h1]
        cases r with
        | none => rfl
        | some r' =>
          simp only []
          by_cases hra : r' = a
          · subst hra; simp [storeNew_bin_pos]
          · have : ¬ (some r' = some a) := by simpa using hra
            simp [this, hra]
  · simp [putStep, stepOk, okT]
  · -- uploadPin
    simp only [putStep, stepOk]
    have h1 := setPin_okT (putUpload po tx a d).2 a r
    rw [putUpload_db] at h1
    cases hr : setPin (putUpload po tx a d).2 a r with
    | error e => rw [hr] at h1; simp only [okT] at h1 ⊢; exact h1
    | ok t => rw [hr] at h1; simp only [okT] at h1 ⊢; exact h1
  · -- requestPin
    simp only [putStep, putRequest, stepOk]
    by_cases hh : SMap.has a tx.db.data = true
    · simp [hh, okT]
    · have hm : (PutMode.requestPin == PutMode.requestPin) = true := by decide
      simp only [hh, Bool.false_eq_true, if_false, hm, if_true, Bool.false_or]
      have h1 := setPin_okT (storeNew po tx a d).2 a r
      rw [storeNew_db] at h1
      cases hr : setPin (storeNew po tx a d).2 a r with
      | error e => rw [hr] at h1; simp only [okT] at h1 ⊢; exact h1
      | ok t => rw [hr] at h1; simp only [okT] at h1 ⊢; exact h1
  · simp [putStep, stepOk, okT]

/-- the loop succeeds iff every chunk that is not skipped as a duplicate has a successful step,
evaluated on the database as it was before the call -/
theorem putLoop_okT (po : Addr → Nat) (m : PutMode) (r : Option Addr) (chs : List (Addr × Bytes)) :
    ∀ (tx : Tx) (seen : List Addr) (acc : List Bool),
      okT (putLoop po m r tx seen chs acc) = chs.all (fun c => seen.contains c.1 || stepOk tx.db m r c.1) := by
  induction chs with
  | nil => intro tx seen acc; simp [putLoop, okT]
  | cons c rest ih =>
    intro tx seen acc
    obtain ⟨a, d⟩ := c
    by_cases hs : seen.contains a = true
    · rw [putLoop_cons_seen _ _ _ _ _ _ _ _ _ hs, ih]
      have hm : a ∈ seen := by simpa using hs
      simp only [List.all_cons, hs, Bool.true_or, Bool.true_and]
      congr 1
      funext c
      by_cases hc : c.1 = a
      · simp [hc, hm]
      · simp [hc]
    · have hs' : seen.contains a = false := by simpa using hs
      rw [putLoop_cons_new _ _ _ _ _ _ _ _ _ hs']
      have h1 := putStep_okT po m r tx a d
      have hf := putStep_frame po m r tx a d
      simp only [List.all_cons, hs', Bool.false_or]
      cases hr : putStep po m r tx a d with
      | error e =>
        rw [hr] at h1
        simp only [okT] at h1
        simp [okT, ← h1]
      | ok p =>
        obtain ⟨ex, t⟩ := p
        rw [hr] at h1 hf
        simp only [okT] at h1
        simp only [reqTx] at hf
        rw [← h1, Bool.true_and]
        simp only []
        rw [ih]
        congr 1
        funext c
        rw [stepOk_congr hf.1 hf.2.2.2.2.1]
        by_cases hc : c.1 = a
        · rw [hc, ← h1]; simp
        · simp [hc]

/-- `Put` succeeds iff it takes the fast path or every chunk step succeeds -/
theorem put_isExist (po : Addr → Nat) (s : State) (m : PutMode) (r : Option Addr) (chs : List (Addr × Bytes)) :
    (put po s m r chs).out.isExist =
      (putFast s m chs || (m != PutMode.invalid && chs.all (fun c => stepOk s.db m r c.1))) := by
  unfold put
  by_cases hf : putFast s m chs = true
  · simp [hf, Out.isExist]
  · simp only [hf, Bool.false_eq_true, if_false, finish, putBody, Bool.false_or]
    by_cases hinv : (m == PutMode.invalid) = true
    · have hm : m = PutMode.invalid := by simpa using hinv
      subst hm
      simp [Out.isExist]
    · have h1 := putLoop_okT po m r chs (Tx.start s) [] []
      have hne : (m != PutMode.invalid) = true := by simpa [bne] using hinv
      simp only [hinv, Bool.false_eq_true, if_false, hne, Bool.true_and]
      cases hl : putLoop po m r (Tx.start s) [] chs [] with
      | error e =>
        rw [hl] at h1
        simp only [okT] at h1
        obtain ⟨e1, t⟩ := e
        simp only [Out.isExist]
        rw [h1]; simp [Tx.start]
      | ok p =>
        rw [hl] at h1
        simp only [okT] at h1
        obtain ⟨t, fl⟩ := p
        simp only [Out.isExist]
        rw [h1]; simp [Tx.start]

/-! ## the pinning modes never write the access index -/

def AccSame (tx tx' : Tx) : Prop :=
  ∀ D : Db, (applyBatch D tx'.batch).access = (applyBatch D tx.batch).access

theorem AccSame.refl (tx : Tx) : AccSame tx tx := fun _ => rfl
theorem AccSame.trans {a b c : Tx} (h1 : AccSame a b) (h2 : AccSame b c) : AccSame a c :=
  fun D => (h2 D).trans (h1 D)

theorem setPinRoot_accSame (tx : Tx) (r : Option Addr) : OkP (setPinRoot tx r) (fun t => AccSame tx t) := by
  simp only [setPinRoot, Tx.inBatch, Tx.addChange, Tx.direct]
  repeat' split
  all_goals first
    | exact trivial
    | (simp only [OkP_ok]; intro D; simp [applyBatch_append, applyW])

theorem setPin_accSame (tx : Tx) (a : Addr) (r : Option Addr) : OkP (setPin tx a r) (fun t => AccSame tx t) := by
  have h := setPinRoot_accSame tx r
  simp only [setPin]
  cases hr : setPinRoot tx r with
  | error e => exact trivial
  | ok t =>
    rw [hr] at h
    simp only [OkP_ok] at h ⊢
    exact h.trans (fun D => by simp [Tx.inBatch, applyBatch_append, applyW])

theorem storeNew_accSame (po : Addr → Nat) (tx : Tx) (a : Addr) (d : Bytes) : AccSame tx (storeNew po tx a d).2 :=
  fun D => by simp [storeNew, incBinID, Tx.now, Tx.inBatch, applyBatch_append, applyW]

theorem putUpload_accSame (po : Addr → Nat) (tx : Tx) (a : Addr) (d : Bytes) : AccSame tx (putUpload po tx a d).2 := by
  simp only [putUpload]
  split
  · exact AccSame.refl tx
  · exact storeNew_accSame po tx a d

def pinMode (m : PutMode) : Bool :=
  match m with
  | .requestPin => true
  | .uploadPin => true
  | _ => false

theorem putStep_accSame (po : Addr → Nat) (m : PutMode) (r : Option Addr) (tx : Tx) (a : Addr) (d : Bytes)
    (hm : pinMode m = true) : OkP2 (putStep po m r tx a d) (fun t => AccSame tx t) := by
  cases m
  · simp [pinMode] at hm
  · simp [pinMode] at hm
  · simp only [putStep]
    have h0 := putUpload_accSame po tx a d
    have h1 := setPin_accSame (putUpload po tx a d).2 a r
    cases hr : setPin (putUpload po tx a d).2 a r with
    | error e => exact trivial
    | ok t =>
      rw [hr] at h1
      simp only [OkP_ok] at h1
      simp only [OkP2_ok]
      exact h0.trans (fun D => h1 D)
  · simp only [putStep, putRequest]
    split
    · simp only [OkP2_ok]; exact AccSame.refl tx
    · have h0 := storeNew_accSame po tx a d
      have h1 := setPin_accSame (storeNew po tx a d).2 a r
      have : (PutMode.requestPin == PutMode.requestPin) = true := by decide
      simp only [this, if_true]
      cases hr : setPin (storeNew po tx a d).2 a r with
      | error e => exact trivial
      | ok t =>
        rw [hr] at h1
        simp only [OkP_ok] at h1
        simp only [OkP2_ok]
        exact h0.trans h1
  · simp [pinMode] at hm

theorem addBins_accSame (tx : Tx) : AccSame tx (addBins tx) ∧ (addBins tx).log = tx.log := by
  unfold addBins
  generalize tx.bins = bins
  induction bins generalizing tx with
  | nil => exact ⟨AccSame.refl tx, rfl⟩
  | cons b bs ih =>
    simp only [List.foldl_cons]
    obtain ⟨h1, h2⟩ := ih (tx.inBatch (.binPut b.1 b.2))
    refine ⟨AccSame.trans (fun D => by simp [Tx.inBatch, applyBatch_append, applyW]) h1, h2⟩

theorem commit_access (cap : Nat) (tx : Tx) (db : Db) :
    (applyLog db (commit cap tx).writes).access = (applyBatch (applyLog db tx.log) tx.batch).access := by
  simp only [commit]
  by_cases h0 : tx.change = 0
  · simp [h0, applyLog_append, applyDW]
  · by_cases h1 : tx.change > 0
    · simp only [h0, h1, if_false, if_true, applyLog_append, applyLog_cons, applyLog_nil, applyDW, applyBatch_append,
        applyBatch_cons, applyBatch_nil, applyW]
    · by_cases h2 : (-tx.change).toNat > tx.db.gcSize
      · simp [h0, h1, h2, applyLog_append, applyDW]
      · simp only [h0, h1, h2, if_false, applyLog_append, applyLog_cons, applyLog_nil, applyDW, applyBatch_append,
          applyBatch_cons, applyBatch_nil, applyW]

/-- a single-chunk `Put` in a pinning mode leaves the access index alone -/
theorem put_single_access (po : Addr → Nat) (s : State) (m : PutMode) (r : Option Addr) (a : Addr) (d : Bytes)
    (hm : pinMode m = true) : (put po s m r [(a, d)]).st.db.access = s.db.access := by
  have hfast : putFast s m [(a, d)] = false := by
    cases m <;> simp_all [pinMode, putFast]
  have hinv : (m == PutMode.invalid) = false := by cases m <;> simp_all [pinMode]
  unfold put
  simp only [hfast, Bool.false_eq_true, if_false, finish, putBody, hinv]
  rw [putLoop_cons_new _ _ _ _ _ _ _ _ _ (by simp)]
  have hf := putStep_frame po m r (Tx.start s) a d
  have ha := putStep_accSame po m r (Tx.start s) a d hm
  cases hr : putStep po m r (Tx.start s) a d with
  | error e =>
    obtain ⟨e1, t⟩ := e
    rw [hr] at hf
    obtain ⟨_, _, _, _, _, l, hlog, ho⟩ := hf
    simp only [reqTx, Tx.start, List.nil_append] at hlog
    simp only [abort, hlog]
    exact (applyLog_gcPutsOnly l ho s.db).2.2.1
  | ok p =>
    obtain ⟨ex, t⟩ := p
    rw [hr] at hf ha
    obtain ⟨_, _, _, _, _, l, hlog, ho⟩ := hf
    simp only [reqTx, Tx.start, List.nil_append] at hlog
    simp only [OkP2_ok] at ha
    simp only [putLoop]
    obtain ⟨b1, b2⟩ := addBins_accSame t
    rw [commit_access, b2, hlog, b1, ha]
    simp only [Tx.start, applyBatch_nil]
    exact (applyLog_gcPutsOnly l ho s.db).2.2.1

/-! ## success is monotone along one-at-a-time puts -/

theorem put_has_mono (po : Addr → Nat) (s : State) (m : PutMode) (r : Option Addr) (chs : List (Addr × Bytes))
    (x : Addr) (h : SMap.has x s.db.data = true) : SMap.has x (put po s m r chs).st.db.data = true := by
  obtain ⟨hok, herr⟩ := put_view po s m r chs
  rw [has_eq_bget] at h ⊢
  cases hex : (put po s m r chs).out.isExist with
  | false => rw [bget_congr (herr hex).1]; exact h
  | true =>
    rw [(hok hex x).1]
    cases SMap.get x chs with
    | none => exact h
    | some d =>
      simp only []
      rw [has_eq_bget, h]
      simpa [putEB] using h

theorem stepOk_mono (po : Addr → Nat) (s : State) (m : PutMode) (r : Option Addr) (a : Addr) (d : Bytes) (x : Addr)
    (h : stepOk s.db m r x = true) : stepOk (put po s m r [(a, d)]).st.db m r x = true := by
  have hmono := put_has_mono po s m r [(a, d)]
  cases m
  · -- request
    simp only [stepOk, Bool.or_eq_true] at h ⊢
    rcases h with h | h
    · exact Or.inl (hmono x h)
    · right
      cases r with
      | none => rfl
      | some r' =>
        simp only [Bool.or_eq_true] at h ⊢
        rcases h with h | h
        · exact Or.inl h
        · exact Or.inr (hmono r' h)
  · rfl
  · -- uploadPin
    have hacc := put_single_access po s .uploadPin r a d rfl
    simp only [stepOk, pinErr, Bool.not_eq_true'] at h ⊢
    cases r with
    | none => rfl
    | some r' =>
      simp only [hacc] at h ⊢
      cases hA : (SMap.get r' s.db.access).isSome with
      | false => simp
      | true =>
        simp only [hA, Bool.true_and] at h ⊢
        have h1 : SMap.has r' s.db.data = true := by
          cases hd : SMap.get r' s.db.data <;> simp_all [SMap.has]
        have h2 := hmono r' h1
        cases hd : SMap.get r' (put po s .uploadPin (some r') [(a, d)]).st.db.data <;> simp_all [SMap.has]
  · -- requestPin
    have hacc := put_single_access po s .requestPin r a d rfl
    simp only [stepOk, Bool.or_eq_true] at h ⊢
    rcases h with h | h
    · exact Or.inl (hmono x h)
    · right
      simp only [pinErr, Bool.not_eq_true'] at h ⊢
      cases r with
      | none => rfl
      | some r' =>
        simp only [hacc] at h ⊢
        cases hA : (SMap.get r' s.db.access).isSome with
        | false => simp
        | true =>
          simp only [hA, Bool.true_and] at h ⊢
          have h1 : SMap.has r' s.db.data = true := by
            cases hd : SMap.get r' s.db.data <;> simp_all [SMap.has]
          have h2 := hmono r' h1
          cases hd : SMap.get r' (put po s .requestPin (some r') [(a, d)]).st.db.data <;> simp_all [SMap.has]
  · simp [stepOk] at h

/-! ## the reference: one call = one chunk at a time -/

theorem specPut_cons (cs : ChunkSet) (m : PutMode) (a : Addr) (d : Bytes) (rest : List (Addr × Bytes))
    (hdup : m = .uploadPin → a ∉ rest.map (·.1)) :
    specPut (specPut cs m [(a, d)]) m rest = specPut cs m ((a, d) :: rest) := by
  funext x
  simp only [specPut, SMap.get_cons, SMap.get_nil]
  by_cases hx : x = a
  · subst hx
    simp only [if_true]
    cases hg : SMap.get x rest with
    | none => rfl
    | some d' =>
      simp only []
      have hmem : x ∈ rest.map (·.1) := SMap.mem_keys_of_get hg
      have hm : m ≠ .uploadPin := fun e => hdup e hmem
      cases hc : cs x with
      | none => simp [hm]
      | some v => obtain ⟨d0, p⟩ := v; simp [hm]
  · simp only [hx, if_false]

/-- the chunks put one at a time -/
def seqPut (po : Addr → Nat) (m : PutMode) (r : Option Addr) (s : State) (chs : List (Addr × Bytes)) : State :=
  chs.foldl (fun t c => step po t (.put m r [c])) s

theorem seqPut_refines (po : Addr → Nat) (m : PutMode) (r : Option Addr) (hm : m ≠ .invalid)
    (chs : List (Addr × Bytes)) : ∀ (s : State), PinInv s.db →
      (∀ c ∈ chs, stepOk s.db m r c.1 = true) → (m = .uploadPin → (chs.map (·.1)).Nodup) →
      csOf (seqPut po m r s chs).db = specPut (csOf s.db) m chs := by
  induction chs with
  | nil =>
    intro s _ _ _
    funext x
    simp [seqPut, specPut]
  | cons c rest ih =>
    intro s hI hok hdup
    obtain ⟨a, d⟩ := c
    have hne : (m != PutMode.invalid) = true := by simpa [bne] using hm
    have hex : (put po s m r [(a, d)]).out.isExist = true := by
      rw [put_isExist]
      simp [hne, hok (a, d) (by simp)]
    obtain ⟨hI1, hcs⟩ := put_refines po s m r [(a, d)] hI
    have herr : (put po s m r [(a, d)]).out.isErr = false := by
      have := put_out_shape po s m r [(a, d)]
      rw [hex] at this
      simpa using this.symm
    have hcs1 : csOf (put po s m r [(a, d)]).st.db = specPut (csOf s.db) m [(a, d)] := by
      funext x
      rw [hcs x, herr]
      simp [specStep]
    have hok1 : ∀ c ∈ rest, stepOk (put po s m r [(a, d)]).st.db m r c.1 = true :=
      fun c hc => stepOk_mono po s m r a d c.1 (hok c (by simp [hc]))
    have hdup1 : m = .uploadPin → (rest.map (·.1)).Nodup := fun e => by
      have := hdup e
      simp only [List.map_cons, List.nodup_cons] at this
      exact this.2
    have := ih (put po s m r [(a, d)]).st hI1 hok1 hdup1
    simp only [seqPut, List.foldl_cons] at this ⊢
    show csOf (List.foldl (fun t c => step po t (Op.put m r [c])) (put po s m r [(a, d)]).st rest).db = _
    rw [this, hcs1]
    exact specPut_cons _ m a d rest (fun e => by
      have := hdup e
      simp only [List.map_cons, List.nodup_cons] at this
      exact this.1)

/-- the guard of `C11_batch_eq_sequential_abstract_partial`: the batched call succeeds, and a
`ModePutUploadPin` batch lists every address once -/
def batchGuard (po : Addr → Nat) (s : State) (m : PutMode) (r : Option Addr) (chs : List (Addr × Bytes)) : Bool :=
  (put po s m r chs).out.isExist && (m != PutMode.uploadPin || decide (chs.map (·.1)).Nodup)

theorem batch_eq_seq (po : Addr → Nat) (s : State) (m : PutMode) (r : Option Addr) (chs : List (Addr × Bytes))
    (hI : PinInv s.db) (hg : batchGuard po s m r chs = true) :
    csOf (step po s (.put m r chs)).db = csOf (seqPut po m r s chs).db := by
  simp only [batchGuard, Bool.and_eq_true, Bool.or_eq_true, bne_iff_ne, ne_eq, decide_eq_true_eq] at hg
  obtain ⟨hex, hdup⟩ := hg
  have hdup' : m = .uploadPin → (chs.map (·.1)).Nodup := fun e => by
    rcases hdup with h | h
    · exact absurd e h
    · exact h
  by_cases hm : m = .invalid
  · -- an invalid mode only succeeds on the fast path: one chunk, and then both sides are the same call
    subst hm
    rw [put_isExist] at hex
    simp only [bne_self_eq_false, Bool.false_and, Bool.or_false] at hex
    unfold putFast at hex
    split at hex
    · rfl
    · simp at hex
  · have hne : (m != PutMode.invalid) = true := by simpa [bne] using hm
    have hall : ∀ c ∈ chs, stepOk s.db m r c.1 = true := by
      rw [put_isExist] at hex
      simp only [hne, Bool.true_and, Bool.or_eq_true] at hex
      rcases hex with hf | hall
      · unfold putFast at hf
        split at hf
        · rename_i a d
          simp only [Bool.and_eq_true] at hf
          intro c hc
          simp only [List.mem_singleton] at hc
          subst hc
          cases m <;> simp_all [stepOk]
        · simp at hf
      · simpa using hall
    rw [seqPut_refines po m r hm chs s hI hall hdup']
    obtain ⟨_, hcs⟩ := put_refines po s m r chs hI
    have herr : (put po s m r chs).out.isErr = false := by
      have := put_out_shape po s m r chs
      rw [hex] at this
      simpa using this.symm
    funext x
    show csOf (put po s m r chs).st.db x = _
    rw [hcs x, herr]
    simp [specStep]

end Aurora.Localstore
