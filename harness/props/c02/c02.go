// Package c02: correspondence + oracles for "the content reference is the Aurora tree hash of the
// bytes alone" (pkg/file/pipeline feeder + hashtrie via builder; file.ChunkPipe + FeedPipeline).
package c02

import (
	"fmt"

	"verifharness/core"
	fc "verifharness/props/filecommon"
)

type prop struct{}

func init() { core.Register(prop{}) }

func (prop) ID() string       { return "C02" }
func (prop) New() core.Runner { return fc.New("C02") }
func (prop) Rule() string {
	return "cases: `new` (builder.NewPipelineBuilder, real constants C=262144 B=8192), `new pipe` (same through file.ChunkPipe + builder.FeedPipeline) or " +
		"`new small c b` (the same feeder/bmt/store/hashtrie writers assembled with chunk size c in {32,64,96,100} and branching b in {2,3,4,5,8}: trees up to the 8-level limit, " +
		"chunk counts b^k-1, b^k, b^k+1, and 2^7+1 chunks for the trie-full error); content lengths 0,1,31..33,63..65,127..129,4095..4097, C-1,C,C+1,2C-1,2C,2C+1,3C, random; " +
		"segmentations: one write, fixed pieces 1/7/31/32/33/1000/4096/C/C+1/3C/random, random cuts with zero-length writes, cuts next to chunk boundaries; then `sum`. " +
		"Model side also evaluates the independent format specification (Spec.root) and runs the literal buffer-and-cursor model of the hash-trie writer next to the list model (BUF-LIST-MISMATCH if they differ); in `new small` mode the answers carry the writer's cursors[1..8], full flag and a digest of buffer[0:cursors[1]] after every ChainWrite and after Sum (real writer: verif hook hashtrie.VerifPeek; model: Aurora.HashTrieBuf), incl. fixed cases with the real constants (`new small 262144 8192`), B=128 and B=16. Go oracle: independent Go implementation of the format (own BMT over sha3), same bytes in one write give the same reference, every Put is cac.Valid. " +
		"Non-trivial: summed content of >= 2 chunks or written in >= 2 writes; distinct by op-list hash. Real-constant multi-chunk cases are limited in number (Lean-side hashing cost)."
}

func pow(b, k int) int {
	p := 1
	for i := 0; i < k; i++ {
		p *= b
	}
	return p
}

func (prop) Gen(r *core.Rand, tier string) []core.Case {
	nSmall, nMed, nBig, nTiny := 110, 10, 7, 90
	if tier == "thorough" {
		nSmall, nMed, nBig, nTiny = 600, 60, 20, 700
	}
	C := fc.C
	cs := []core.Case{
		{ID: "fix-selftest", Ops: []string{"selftest h:-", "selftest g:1:100", "selftest g:2:5000", fmt.Sprintf("selftest p:3:%d:1000", C)}},
		{ID: "fix-empty", NT: true, Ops: []string{"new", "sum", "new", "write h:-", "write h:-", "sum", "new pipe", "sum"}},
		{ID: "fix-protocol", Ops: []string{"write h:00", "sum", "open", "new", "write h:00", "sum", "sum", "write h:01", "new small 0 2", "new small 64 1", "frob"}},
		{ID: "fix-chunk-boundary", NT: true, Ops: []string{"new", fmt.Sprintf("write p:7:%d:4096", C), "write h:ab", "sum",
			"new", fmt.Sprintf("writeseg p:7:%d:4096 %d", C, C-1), "write h:ab", "sum", "new pipe", fmt.Sprintf("write p:7:%d:4096", C-5), fmt.Sprintf("write p:7:%d:4096", 5), "sum"}},
		{ID: "fix-trie-full", NT: true, Ops: []string{"new small 32 2", "writeseg g:5:4096 32", "sum", "new small 32 2", "writeseg g:5:4097 33", "sum", "new small 32 2", "writeseg g:5:4128 32", "write h:01", "sum"}},
		// cursor machine: real constants through the observable small assembly (cursors compared after every ChainWrite/Sum),
		// a wide level (B=128: cursor values up to 128*40), three wrapped levels with B=16, carry into a full level (B=3)
		{ID: "fix-cursors-real", NT: true, Ops: []string{fmt.Sprintf("new small %d 8192", C), fmt.Sprintf("write p:11:%d:4096", 2*C+5), "write h:abcd", "sum",
			fmt.Sprintf("new small %d 8192", C), "write h:01", "sum"}},
		{ID: "fix-cursors-wide", NT: true, Ops: []string{"new small 32 128", "writeseg g:3:4128 32", "sum", "new small 32 128", "writeseg g:3:4096 1000", "sum",
			"new small 32 16", "writeseg g:4:131104 4096", "sum"}},
		{ID: "fix-cursors-carry-full", NT: true, Ops: []string{"new small 32 3", "writeseg g:6:352 32", "sum", "new small 32 3", "writeseg g:6:864 32", "sum",
			"new small 32 2", "writeseg g:6:96 32", "sum", "new small 32 2", "writeseg g:6:4064 32", "sum"}},
		{ID: "fix-carry", NT: true, Ops: []string{"new small 64 4", "writeseg g:9:1088 64", "sum", "new small 64 4", "write g:9:1088", "sum", "new small 64 4", "writeseg g:9:1025 7", "sum"}},
	}
	add := func(id string, total int, head string) {
		c := core.Case{ID: id, Ops: []string{head}}
		w := fc.Writes(r, total)
		c.Ops = append(c.Ops, w...)
		c.Ops = append(c.Ops, "sum")
		c.NT = total > C || len(w) > 1 || (len(w) == 1 && w[0][:8] == "writeseg")
		cs = append(cs, c)
	}
	for i := 0; i < nSmall; i++ {
		head := "new"
		if r.Chance(20) {
			head = "new pipe"
		}
		add(fmt.Sprintf("s%d", i), fc.Length(r, 0, 0), head)
	}
	for i := 0; i < nMed; i++ {
		add(fmt.Sprintf("m%d", i), fc.Length(r, 1, 0), "new")
	}
	for i := 0; i < nBig; i++ {
		head := "new"
		if r.Chance(25) {
			head = "new pipe"
		}
		add(fmt.Sprintf("b%d", i), fc.Length(r, 2, 4*C), head)
	}
	// small-parameter instances: deep trees
	for i := 0; i < nTiny; i++ {
		c := r.Pick([]int{32, 64, 96, 100})
		b := r.Pick([]int{2, 2, 3, 4, 4, 5, 8})
		maxk := 7
		for pow(b, maxk) > 2600 {
			maxk--
		}
		k := r.Range(1, maxk)
		n := pow(b, k) + r.Pick([]int{-1, 0, 0, 1, 1, 2})
		if r.Chance(35) {
			n = r.Range(1, pow(b, maxk)+1)
		}
		if b == 2 && r.Chance(15) {
			n = r.Pick([]int{127, 128, 129, 130})
		}
		if n < 1 {
			n = 1
		}
		total := n*c + r.Pick([]int{0, 0, 0, 1, -1, c / 2, -(c / 2)})
		if total < 0 {
			total = 0
		}
		cse := core.Case{ID: fmt.Sprintf("t%d", i), NT: true, Ops: []string{fmt.Sprintf("new small %d %d", c, b)}}
		switch r.Intn(4) {
		case 0:
			cse.Ops = append(cse.Ops, fmt.Sprintf("write g:%d:%d", r.Intn(100000), total))
		case 1:
			cse.Ops = append(cse.Ops, fmt.Sprintf("writeseg g:%d:%d %d", r.Intn(100000), total, r.Pick([]int{c, c - 1, c + 1, 3 * c, 7, 1000})))
		default:
			left := total
			for left > 0 {
				n := r.Range(0, 4*c)
				if r.Chance(30) {
					n = r.Range(0, left)
				}
				if n > left {
					n = left
				}
				cse.Ops = append(cse.Ops, fmt.Sprintf("write g:%d:%d", r.Intn(100000), n))
				left -= n
				if len(cse.Ops) > 60 {
					cse.Ops = append(cse.Ops, fmt.Sprintf("write g:%d:%d", r.Intn(100000), left))
					left = 0
				}
			}
		}
		cse.Ops = append(cse.Ops, "sum")
		cs = append(cs, cse)
	}
	return cs
}
