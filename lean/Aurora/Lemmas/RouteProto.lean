import Aurora.Model.RouteProto
import Aurora.Lemmas.RouteTable
/-! Helper lemmas for the route-protocol model (C28): the network step relation, the
    well-formedness invariant and its preservation by every handler. -/
namespace Aurora.RouteProto
open Aurora.RouteTable

/-! ### walks -/

/-- consecutive nodes are neighbours -/
def IsWalk (e : Env) : Path → Prop
  | [] => True
  | [_] => True
  | a :: b :: rest => e.nbr a b = true ∧ IsWalk e (b :: rest)

/-- a duplicate-free walk along neighbour links -/
def PathOK (e : Env) (p : Path) : Prop := p.Nodup ∧ IsWalk e p

theorem isWalk_append (e : Env) (x : Node) : ∀ p : Path, IsWalk e p →
    (∀ l, p.getLast? = some l → e.nbr l x = true) → IsWalk e (p ++ [x])
  | [], _, _ => trivial
  | [a], _, h => ⟨h a rfl, trivial⟩
  | a :: b :: rest, hw, h => by
    refine ⟨hw.1, ?_⟩
    have := isWalk_append e x (b :: rest) hw.2 (by
      intro l hl; apply h; simpa [List.getLast?_cons_cons] using hl)
    simpa using this

theorem pathOK_append {e : Env} {p : Path} {x l : Node} (hp : PathOK e p) (hx : x ∉ p)
    (hl : p.getLast? = some l) (hn : e.nbr l x = true) : PathOK e (p ++ [x]) := by
  refine ⟨?_, isWalk_append e x p hp.2 ?_⟩
  · rw [List.nodup_append]
    refine ⟨hp.1, by simp, ?_⟩
    intro a ha b hb
    simp at hb; subst hb
    intro e'; subst e'; exact hx ha
  · intro l' hl'; rw [hl] at hl'; cases hl'; exact hn

theorem pathOK_single (e : Env) (x : Node) : PathOK e [x] := ⟨by simp, trivial⟩

theorem getLast?_append_single (p : Path) (x : Node) : (p ++ [x]).getLast? = some x := by simp

/-! ### invariants -/

def bodyPaths : Body → List Path
  | .req r => r.paths
  | .resp r => r.paths

/-- a packet in flight between honest nodes: it travels along a neighbour link and each of its
    paths is a duplicate-free walk that ends in the sender -/
def PktOK (e : Env) (p : Packet) : Prop :=
  e.nbr p.src p.dst = true ∧ ∀ q ∈ bodyPaths p.body, PathOK e q ∧ q.getLast? = some p.src

def pendItems (st : NodeSt) (tg : Node) : List PendItem := (aget st.presp tg).getD []

/-- what node `n` stores -/
def NodeOK (e : Env) (n : Node) (st : NodeSt) : Prop :=
  (∀ k, (aget st.table.paths k).isSome →
      PathOK e k ∧ n ∉ k ∧ k.length ≤ e.ttl ∧ 2 ≤ k.length ∧ e.nbr n (lastHop k) = true) ∧
  (∀ tg, ∀ it ∈ pendItems st tg, it.src = n ∨ e.nbr n it.src = true)

def NetInv (e : Env) (net : Net) : Prop :=
  (∀ n, NodeOK e n (net.st n)) ∧ ∀ p ∈ net.flight, PktOK e p

/-- admissible Kademlia answers at node `n`: candidates are connected peers, `RandomSubset`
    returns elements of its argument -/
def Adm (e : Env) (n : Node) (o : Oracle) : Prop :=
  (∀ c ∈ o.cands, e.nbr n c.1 = true) ∧ (∀ l k x, x ∈ o.pick l k → x ∈ l)

/-! ### table facts -/

theorem savePaths_paths (alpha : Nat) (ps : List Path) (now : Nat) : ∀ (t : Table) (k : Key),
    (aget (savePaths alpha t ps now).paths k).isSome →
      (aget t.paths k).isSome ∨ (k ∈ ps ∧ 2 ≤ k.length) := by
  induction ps with
  | nil => intro t k h; exact Or.inl h
  | cons p ps ih =>
    intro t k h
    simp only [savePaths, List.foldl_cons] at h
    rcases ih (save alpha t p now) k h with h1 | h1
    · by_cases hl : 2 ≤ p.length
      · rw [(save_paths alpha t p now hl).1, aget_aput] at h1
        by_cases e : p = k
        · subst e; exact Or.inr ⟨List.mem_cons_self .., hl⟩
        · simp only [e, if_false] at h1; exact Or.inl h1
      · have : p.length < 2 := by omega
        simp only [save, this, if_true] at h1; exact Or.inl h1
    · exact Or.inr ⟨List.mem_cons_of_mem _ h1.1, h1.2⟩

theorem get_mem (t : Table) (tg : Node) (k : Key) (h : k ∈ (RouteTable.get t tg).getD []) :
    (aget t.paths k).isSome := by
  unfold RouteTable.get at h
  split at h
  · simp at h
  · dsimp only at h
    split at h
    · simp at h
    · simp only [Option.getD_some] at h
      obtain ⟨r, _, hrp⟩ := List.mem_filterMap.1 h
      cases hq : aget t.paths r.key with
      | none => simp [hq] at hrp
      | some u =>
        simp only [hq, Option.map_some, Option.some.injEq] at hrp
        subst hrp; simp [hq]

theorem shortest_mem : ∀ (l : List Path), l ≠ [] → shortest l ∈ l := by
  intro l hl
  cases l with
  | nil => exact absurd rfl hl
  | cons p ps =>
    simp only [shortest]
    have key : ∀ (qs : List Path) (b : Path), qs.foldl (fun best q => if q.length < best.length then q else best) b = b ∨
        qs.foldl (fun best q => if q.length < best.length then q else best) b ∈ qs := by
      intro qs
      induction qs with
      | nil => intro b; exact Or.inl rfl
      | cons q qs ih =>
        intro b
        simp only [List.foldl_cons]
        rcases ih (if q.length < b.length then q else b) with h | h
        · rw [h]; split
          · exact Or.inr (List.mem_cons_self ..)
          · exact Or.inl rfl
        · exact Or.inr (List.mem_cons_of_mem _ h)
    rcases key ps p with h | h
    · rw [h]; exact List.mem_cons_self ..
    · exact List.mem_cons_of_mem _ h

theorem convertPaths_mem (self : Node) (l : List Path) (q : Path) (h : q ∈ convertPaths self l) :
    ∃ k ∈ l, q = k ++ [self] := by
  unfold convertPaths at h
  split at h
  · simp at h
  · rename_i hne
    simp at h
    exact ⟨shortest l, shortest_mem l (by intro h0; apply hne; simp [h0]), h⟩

/-! ### generatePaths -/

theorem generatePaths_ok {e : Env} {self src : Node} {ps : List Path}
    (hps : ∀ q ∈ ps, PathOK e q ∧ q.getLast? = some src ∧ self ∉ q) (hn : e.nbr src self = true) :
    ∀ q ∈ generatePaths self ps, PathOK e q ∧ q.getLast? = some self := by
  intro q hq
  unfold generatePaths at hq
  split at hq
  · simp at hq; subst hq; exact ⟨pathOK_single e self, rfl⟩
  · obtain ⟨p, hp, rfl⟩ := List.mem_map.1 hq
    obtain ⟨h1, h2, h3⟩ := hps p hp
    exact ⟨pathOK_append h1 h3 h2 hn, getLast?_append_single p self⟩

/-! ### pending table -/

theorem pendItems_pendAdd (st : NodeSt) (target src next : Node) (ch : Bool) (tg : Node) :
    pendItems (pendAdd st target src next ch).1 tg =
      if target = tg then pendItems st tg ++ [⟨src, ch⟩] else pendItems st tg := by
  simp only [pendItems, pendAdd, aget_aput]
  by_cases h : target = tg
  · subst h; simp
  · simp [h]

theorem pendAdd_table (st : NodeSt) (target src next : Node) (ch : Bool) :
    (pendAdd st target src next ch).1.table = st.table ∧ (pendAdd st target src next ch).1.book = st.book := by
  simp [pendAdd]

theorem sendReqs_spec (self src : Node) (ch : Bool) (req : Req) (next : List Node) :
    ∀ (st : NodeSt) (acc : List Packet),
      let r := next.foldl (fun (a : NodeSt × List Packet) v =>
          let (st', has) := pendAdd a.1 req.dest src v ch
          (st', if has then a.2 else a.2 ++ [⟨self, v, .req req⟩])) (st, acc)
      r.1.table = st.table ∧ r.1.book = st.book ∧
      (∀ tg, ∀ it ∈ pendItems r.1 tg, it ∈ pendItems st tg ∨ it = ⟨src, ch⟩) ∧
      (∀ p ∈ r.2, p ∈ acc ∨ (p.src = self ∧ p.dst ∈ next ∧ p.body = .req req)) := by
  induction next with
  | nil => intro st acc; exact ⟨rfl, rfl, fun _ _ h => Or.inl h, fun _ h => Or.inl h⟩
  | cons v vs ih =>
    intro st acc
    simp only [List.foldl_cons]
    have h := ih (pendAdd st req.dest src v ch).1
      (if (pendAdd st req.dest src v ch).2 then acc else acc ++ [⟨self, v, .req req⟩])
    obtain ⟨h1, h2, h3, h4⟩ := h
    have ht := pendAdd_table st req.dest src v ch
    refine ⟨h1.trans ht.1, h2.trans ht.2, ?_, ?_⟩
    · intro tg it hit
      rcases h3 tg it hit with h | h
      · rw [pendItems_pendAdd] at h
        split at h
        · rcases List.mem_append.1 h with h | h
          · exact Or.inl h
          · simp at h; exact Or.inr h
        · exact Or.inl h
      · exact Or.inr h
    · intro p hp
      rcases h4 p hp with h | h
      · split at h
        · exact Or.inl h
        · rcases List.mem_append.1 h with h | h
          · exact Or.inl h
          · simp at h; subst h; exact Or.inr ⟨rfl, List.mem_cons_self .., rfl⟩
      · exact Or.inr ⟨h.1, List.mem_cons_of_mem _ h.2.1, h.2.2⟩

theorem sendReqs_ok (self : Node) (st : NodeSt) (next : List Node) (src : Node) (ch : Bool) (req : Req) :
    (sendReqs self st next src ch req).1.table = st.table ∧
    (sendReqs self st next src ch req).1.book = st.book ∧
    (∀ tg, ∀ it ∈ pendItems (sendReqs self st next src ch req).1 tg, it ∈ pendItems st tg ∨ it = ⟨src, ch⟩) ∧
    (∀ p ∈ (sendReqs self st next src ch req).2, p.src = self ∧ p.dst ∈ next ∧ p.body = .req req) := by
  have h := sendReqs_spec self src ch req next st []
  refine ⟨h.1, h.2.1, h.2.2.1, ?_⟩
  intro p hp
  rcases h.2.2.2 p hp with h' | h'
  · simp at h'
  · exact h'

theorem pendGet_spec (st : NodeSt) (target next : Node) :
    (pendGet st target next).1.table = st.table ∧ (pendGet st target next).1.book = st.book ∧
    (pendGet st target next).2 = pendItems st target ∧
    (∀ tg, ∀ it ∈ pendItems (pendGet st target next).1 tg, it ∈ pendItems st tg) := by
  unfold pendGet
  cases h : aget st.presp target with
  | none => simp [pendItems, h]
  | some res =>
    refine ⟨rfl, rfl, by simp [pendItems, h], ?_⟩
    intro tg it hit
    simp only [pendItems, aget_adel] at hit
    by_cases e : target = tg
    · simp [e] at hit
    · simpa [pendItems, e] using hit

theorem respForward_spec (self : Node) (st : NodeSt) (target last : Node) (resp : Resp) :
    (respForward self st target last resp).1 = (pendGet st target last).1 ∧
    ∀ p ∈ (respForward self st target last resp).2,
      p.src = self ∧ (∃ it ∈ pendItems st target, it.src = p.dst ∧ it.src ≠ self) ∧
      ∃ r, p.body = .resp r ∧ r.paths = generatePaths self resp.paths := by
  unfold respForward
  have hres := (pendGet_spec st target last).2.2.1
  generalize (pendGet st target last) = pg at hres ⊢
  obtain ⟨st', res⟩ := pg
  simp only at hres
  subst hres
  refine ⟨rfl, ?_⟩
  have key : ∀ (l : List PendItem) (acc : List Node × List Packet),
      (∀ p ∈ acc.2, p.src = self ∧ (∃ it ∈ pendItems st target, it.src = p.dst ∧ it.src ≠ self) ∧
          ∃ r, p.body = .resp r ∧ r.paths = generatePaths self resp.paths) →
      (∀ it ∈ l, it ∈ pendItems st target) →
      ∀ p ∈ (l.foldl (fun (acc : List Node × List Packet) v =>
          if v.src ≠ self ∧ !acc.1.contains v.src then
            (acc.1 ++ [v.src], acc.2 ++ [forwardResp self st' v.src target last resp])
          else acc) acc).2,
        p.src = self ∧ (∃ it ∈ pendItems st target, it.src = p.dst ∧ it.src ≠ self) ∧
          ∃ r, p.body = .resp r ∧ r.paths = generatePaths self resp.paths := by
    intro l
    induction l with
    | nil => intro acc hacc _ p hp; exact hacc p hp
    | cons v vs ih =>
      intro acc hacc hl
      simp only [List.foldl_cons]
      apply ih
      · split
        · rename_i hc
          intro p hp
          rcases List.mem_append.1 hp with hp | hp
          · exact hacc p hp
          · simp at hp; subst hp
            exact ⟨rfl, ⟨v, hl v (List.mem_cons_self ..), rfl, hc.1⟩, _, rfl, rfl⟩
        · exact hacc
      · intro it hit; exact hl it (List.mem_cons_of_mem _ hit)
  intro p hp
  exact key (pendItems st target) ([], []) (by simp) (fun _ h => h) p hp

/-! ### getNeighbor -/

theorem getNeighbor_sub {e : Env} {n : Node} {o : Oracle} (adm : Adm e n o) (a : Int) (skip : List Node) :
    ∀ v ∈ getNeighbor e o a skip, e.nbr n v = true ∧ v ∉ skip := by
  intro v hv
  have hcand : ∀ (cls : Nat), ∀ x ∈ ((o.cands.filter (fun c => !skip.contains c.1)).filter (fun c => c.2 == cls)).map (·.1),
      e.nbr n x = true ∧ x ∉ skip := by
    intro cls x hx
    obtain ⟨c, hc, rfl⟩ := List.mem_map.1 hx
    have hc1 := (List.mem_filter.1 hc).1
    obtain ⟨hc2, hc3⟩ := List.mem_filter.1 hc1
    refine ⟨adm.1 c hc2, ?_⟩
    simpa using hc3
  unfold getNeighbor getNeighborN at hv
  dsimp only at hv
  generalize (if a ≤ 0 then e.alpha else a.toNat) = aa at hv
  split at hv
  · exact hcand 0 v (adm.2 _ _ v hv)
  · rcases List.mem_append.1 hv with h | h
    · exact hcand 0 v h
    · split at h
      · exact hcand 1 v (adm.2 _ _ v h)
      · exact hcand 1 v h

/-! ### handlers preserve the invariant -/

theorem lastHop_of_getLast? {k : Path} {s : Node} (h : k.getLast? = some s) : lastHop k = s := by
  simp [lastHop, List.getLastD_eq_getLast?, h]

theorem getLast?_lastHop (k : Path) (h : 0 < k.length) : k.getLast? = some (lastHop k) := by
  cases k with
  | nil => simp at h
  | cons x xs => rw [lastHop, List.getLastD_eq_getLast?, List.getLast?_eq_some_getLast (by simp)]; rfl

theorem nodeOK_save {e : Env} {self src : Node} {st : NodeSt} (hst : NodeOK e self st) (ps : List Path)
    (hps : ∀ q ∈ ps, PathOK e q ∧ q.getLast? = some src ∧ self ∉ q ∧ q.length ≤ e.ttl)
    (hn : e.nbr self src = true) (now : Nat) (b : List Node) :
    NodeOK e self { st with table := savePaths e.alpha st.table ps now, book := b } := by
  refine ⟨?_, hst.2⟩
  intro k hk
  rcases savePaths_paths e.alpha ps now st.table k hk with h | h
  · exact hst.1 k h
  · obtain ⟨h1, h2, h3, h4⟩ := hps k h.1
    exact ⟨h1, h3, h4, h.2, by rw [lastHop_of_getLast? h2]; exact hn⟩

theorem forwardReq_ok {e : Env} {self src target : Node} {st : NodeSt} (hst : NodeOK e self st)
    (next : List Node) (hnext : ∀ v ∈ next, e.nbr self v = true)
    (hsrc : e.nbr src self = true) (hsrc' : e.nbr self src = true) (req : Req)
    (hps : ∀ q ∈ req.paths, PathOK e q ∧ q.getLast? = some src ∧ self ∉ q) :
    NodeOK e self (forwardReq self st next src target req).1 ∧
    ∀ p ∈ (forwardReq self st next src target req).2, PktOK e p := by
  unfold forwardReq
  dsimp only
  have h := sendReqs_ok self st next src false
    { req with paths := generatePaths self req.paths, ulist := convU req.utype target src req.ulist st.book }
  obtain ⟨h1, _, h3, h4⟩ := h
  constructor
  · refine ⟨?_, ?_⟩
    · intro k hk; rw [h1] at hk; exact hst.1 k hk
    · intro tg it hit
      rcases h3 tg it hit with h | h
      · exact hst.2 tg it h
      · subst h; exact Or.inr hsrc'
  · intro p hp
    obtain ⟨hp1, hp2, hp3⟩ := h4 p hp
    refine ⟨by rw [hp1]; exact hnext _ hp2, ?_⟩
    intro q hq
    rw [hp3] at hq
    simp only [bodyPaths] at hq
    rw [hp1]
    exact generatePaths_ok hps hsrc q hq

theorem onRouteReq_ok {e : Env} (symm : ∀ a b, e.nbr a b = e.nbr b a) {o : Oracle} {self src : Node}
    {st : NodeSt} (hst : NodeOK e self st) (adm : Adm e self o) (req : Req)
    (hn : e.nbr src self = true) (hp : ∀ q ∈ req.paths, PathOK e q ∧ q.getLast? = some src) (now : Nat) :
    NodeOK e self (onRouteReq e o self st src req now).1 ∧
    ∀ p ∈ (onRouteReq e o self st src req now).2, PktOK e p := by
  have hn' : e.nbr self src = true := by rw [symm]; exact hn
  unfold onRouteReq
  dsimp only
  split
  · exact ⟨hst, by simp⟩
  · rename_i hdisc
    have hgood : ∀ q ∈ req.paths, q.length ≤ e.ttl ∧ self ∉ q := by
      intro q hq
      have := hdisc
      simp only [List.any_eq_true, not_exists, not_and, Bool.or_eq_true, decide_eq_true_eq, not_or] at this
      have h2 := this q hq
      refine ⟨by omega, ?_⟩
      have := h2.2
      simpa [inPath] using this
    have hps : ∀ q ∈ req.paths, PathOK e q ∧ q.getLast? = some src ∧ self ∉ q ∧ q.length ≤ e.ttl :=
      fun q hq => ⟨(hp q hq).1, (hp q hq).2, (hgood q hq).2, (hgood q hq).1⟩
    have hps3 : ∀ q ∈ req.paths, PathOK e q ∧ q.getLast? = some src ∧ self ∉ q :=
      fun q hq => ⟨(hp q hq).1, (hp q hq).2, (hgood q hq).2⟩
    have hst1 := nodeOK_save hst req.paths hps hn' now (addBook st.book req.ulist)
    split
    · -- self is the target
      refine ⟨hst1, ?_⟩
      intro p hp'
      simp at hp'; subst hp'
      refine ⟨hn', ?_⟩
      intro q hq
      simp only [bodyPaths] at hq
      exact generatePaths_ok (ps := []) (src := src) (by simp) hn q hq
    · split
      · -- the target is a neighbour
        rename_i htn
        exact forwardReq_ok hst1 [req.dest] (by intro v hv; simp at hv; subst hv; exact htn) hn hn' req hps3
      · split
        · -- answer from a stored route
          rename_i hcond
          refine ⟨hst1, ?_⟩
          intro p hp'
          simp at hp'; subst hp'
          refine ⟨hn', ?_⟩
          intro q hq
          simp only [bodyPaths] at hq
          obtain ⟨k, hk, rfl⟩ := convertPaths_mem self _ q hq
          have hstored := get_mem _ _ _ (List.mem_filter.1 hk).1
          obtain ⟨k1, k2, _, k4, k5⟩ := hst1.1 _ hstored
          have hlast := getLast?_lastHop k (by omega)
          exact ⟨pathOK_append k1 k2 hlast (by rw [symm]; exact k5), getLast?_append_single _ _⟩
        · -- forward to Kademlia's choice
          exact forwardReq_ok hst1 _ (fun v hv => (getNeighbor_sub adm _ _ v hv).1) hn hn' req hps3

theorem onRouteResp_ok {e : Env} (symm : ∀ a b, e.nbr a b = e.nbr b a) {self src : Node}
    {st : NodeSt} (hst : NodeOK e self st) (resp : Resp)
    (hn : e.nbr src self = true) (hp : ∀ q ∈ resp.paths, PathOK e q ∧ q.getLast? = some src) (now : Nat) :
    NodeOK e self (onRouteResp e self st src resp now).1 ∧
    ∀ p ∈ (onRouteResp e self st src resp now).2, PktOK e p := by
  have hn' : e.nbr self src = true := by rw [symm]; exact hn
  unfold onRouteResp
  dsimp only
  split
  · exact ⟨hst, by simp⟩
  · split
    · exact ⟨hst, by simp⟩
    · rename_i hself
      have hps : ∀ q ∈ resp.paths.filter (fun p => decide (p.length ≤ e.ttl)),
          PathOK e q ∧ q.getLast? = some src ∧ self ∉ q ∧ q.length ≤ e.ttl := by
        intro q hq
        obtain ⟨hq1, hq2⟩ := List.mem_filter.1 hq
        refine ⟨(hp q hq1).1, (hp q hq1).2, ?_, by simpa using hq2⟩
        intro hin
        apply hself
        simp only [List.any_eq_true]
        exact ⟨q, hq, by simpa [inPath] using hin⟩
      have hst1 := nodeOK_save hst _ hps hn' now (addBook st.book resp.ulist)
      have hrf := respForward_spec self
        { st with table := savePaths e.alpha st.table (resp.paths.filter (fun p => decide (p.length ≤ e.ttl))) now,
                  book := addBook st.book resp.ulist }
        resp.dest src { resp with paths := resp.paths.filter (fun p => decide (p.length ≤ e.ttl)) }
      obtain ⟨h1, h2⟩ := hrf
      constructor
      · rw [h1]
        have hg := pendGet_spec
          { st with table := savePaths e.alpha st.table (resp.paths.filter (fun p => decide (p.length ≤ e.ttl))) now,
                    book := addBook st.book resp.ulist } resp.dest src
        refine ⟨?_, ?_⟩
        · intro k hk; rw [hg.1] at hk; exact hst1.1 k hk
        · intro tg it hit; exact hst1.2 tg it (hg.2.2.2 tg it hit)
      · intro p hp'
        obtain ⟨hp1, ⟨it, hit, hit2, hit3⟩, r, hp3, hp4⟩ := h2 p hp'
        refine ⟨?_, ?_⟩
        · rw [hp1, ← hit2]
          rcases hst1.2 resp.dest it hit with h | h
          · exact absurd h hit3
          · exact h
        · intro q hq
          rw [hp3] at hq
          simp only [bodyPaths, hp4] at hq
          rw [hp1]
          exact generatePaths_ok (fun q hq => ⟨(hps q hq).1, (hps q hq).2.1, (hps q hq).2.2.1⟩) hn q hq

theorem startFind_ok {e : Env} {o : Oracle} {self target : Node} {st : NodeSt} (hst : NodeOK e self st)
    (adm : Adm e self o) (res : NodeSt × List Packet × List Node)
    (h : startFind e o self st target = some res) :
    NodeOK e self res.1 ∧ ∀ p ∈ res.2.1, PktOK e p := by
  unfold startFind at h
  split at h
  · simp at h
  · dsimp only at h
    split at h
    · simp at h
    · simp only [Option.some.injEq] at h
      subst h
      have hs := sendReqs_ok self st (getNeighbor e o (↑e.alpha) [target]) self true
        { dest := target, alpha := ↑e.alpha, paths := generatePaths self [], utype := 1, ulist := [] }
      obtain ⟨h1, _, h3, h4⟩ := hs
      constructor
      · refine ⟨?_, ?_⟩
        · intro k hk; rw [h1] at hk; exact hst.1 k hk
        · intro tg it hit
          rcases h3 tg it hit with h | h
          · exact hst.2 tg it h
          · subst h; exact Or.inl rfl
      · intro p hp
        obtain ⟨hp1, hp2, hp3⟩ := h4 p hp
        refine ⟨by rw [hp1]; exact (getNeighbor_sub adm _ _ _ hp2).1, ?_⟩
        intro q hq
        rw [hp3] at hq
        simp only [bodyPaths, generatePaths] at hq
        simp at hq; subst hq
        exact ⟨pathOK_single e self, by rw [hp1]; rfl⟩

/-! ### the network step relation -/

/-- a message step: a packet in flight is delivered to its destination's handler (with any
    admissible Kademlia answers) or is lost -/
inductive MsgStep (e : Env) : Net → Net → Prop
  | deliver (net : Net) (pre post : List Packet) (p : Packet) (hf : net.flight = pre ++ p :: post)
      (o : Oracle) (now : Nat) (adm : Adm e p.dst o) :
      MsgStep e net
        { st := setSt net.st p.dst (handle e o net p now).1,
          flight := pre ++ post ++ (handle e o net p now).2 }
  | drop (net : Net) (pre post : List Packet) (p : Packet) (hf : net.flight = pre ++ p :: post) :
      MsgStep e net { net with flight := pre ++ post }

/-- a node's pending table loses entries (the pending-GC timers, `FindRoute`'s timeout); tables of
    routes and messages in flight are untouched -/
inductive TimeoutStep (e : Env) : Net → Net → Prop
  | mk (net : Net) (n : Node) (st' : NodeSt) (ht : st'.table = (net.st n).table)
      (hsub : ∀ tg, ∀ it ∈ pendItems st' tg, it ∈ pendItems (net.st n) tg) :
      TimeoutStep e net { net with st := setSt net.st n st' }

/-- all steps: a message step, a timeout, or a node starts a discovery (`FindRoute`) -/
inductive Step (e : Env) : Net → Net → Prop
  | msg {a b : Net} (h : MsgStep e a b) : Step e a b
  | timeout {a b : Net} (h : TimeoutStep e a b) : Step e a b
  | find (net : Net) (n t : Node) (o : Oracle) (adm : Adm e n o) (res : NodeSt × List Packet × List Node)
      (h : startFind e o n (net.st n) t = some res) :
      Step e net { st := setSt net.st n res.1, flight := net.flight ++ res.2.1 }

inductive Reach (e : Env) : Net → Prop
  | init : Reach e Net.init
  | step {a b : Net} : Reach e a → Step e a b → Reach e b

theorem netInv_init (e : Env) : NetInv e Net.init := by
  refine ⟨?_, by simp [Net.init]⟩
  intro n
  refine ⟨?_, ?_⟩
  · intro k hk; simp [Net.init, aget] at hk
  · intro tg it hit; simp [Net.init, pendItems, aget] at hit

theorem nodeOK_setSt {e : Env} {f : Node → NodeSt} (hf : ∀ n, NodeOK e n (f n)) (m : Node) (s : NodeSt)
    (hs : NodeOK e m s) : ∀ n, NodeOK e n (setSt f m s n) := by
  intro n
  unfold setSt
  split
  · rename_i h; subst h; exact hs
  · exact hf n

theorem msgStep_inv {e : Env} (symm : ∀ a b, e.nbr a b = e.nbr b a) {a b : Net} (hi : NetInv e a)
    (hs : MsgStep e a b) : NetInv e b := by
  cases hs with
  | deliver pre post p hf o now adm =>
    have hmem : p ∈ a.flight := by rw [hf]; simp
    have hpk := hi.2 _ hmem
    have hnode := hi.1 p.dst
    have hres : NodeOK e p.dst (handle e o a p now).1 ∧ ∀ p' ∈ (handle e o a p now).2, PktOK e p' := by
      unfold handle
      cases hb : p.body with
      | req r =>
        simp only
        exact onRouteReq_ok symm hnode adm r hpk.1 (by intro q hq; apply hpk.2; simp [hb, bodyPaths, hq]) now
      | resp r =>
        simp only
        exact onRouteResp_ok symm hnode r hpk.1 (by intro q hq; apply hpk.2; simp [hb, bodyPaths, hq]) now
    refine ⟨nodeOK_setSt hi.1 _ _ hres.1, ?_⟩
    intro p' hp
    rcases List.mem_append.1 hp with h | h
    · apply hi.2; rw [hf]
      rcases List.mem_append.1 h with h | h
      · exact List.mem_append_left _ h
      · exact List.mem_append_right _ (List.mem_cons_of_mem _ h)
    · exact hres.2 p' h
  | drop pre post p hf =>
    refine ⟨hi.1, fun p' hp => ?_⟩
    apply hi.2; rw [hf]
    rcases List.mem_append.1 hp with h | h
    · exact List.mem_append_left _ h
    · exact List.mem_append_right _ (List.mem_cons_of_mem _ h)

theorem step_inv {e : Env} (symm : ∀ a b, e.nbr a b = e.nbr b a) {a b : Net} (hi : NetInv e a)
    (hs : Step e a b) : NetInv e b := by
  cases hs with
  | msg h => exact msgStep_inv symm hi h
  | timeout h =>
    cases h with
    | mk n st' ht hsub =>
      refine ⟨nodeOK_setSt hi.1 n st' ⟨?_, ?_⟩, hi.2⟩
      · intro k hk; rw [ht] at hk; exact (hi.1 n).1 k hk
      · intro tg it hit; exact (hi.1 n).2 tg it (hsub tg it hit)
  | find n t o adm res h =>
    have hres := startFind_ok (hi.1 n) adm res h
    refine ⟨nodeOK_setSt hi.1 n _ hres.1, ?_⟩
    intro p hp
    rcases List.mem_append.1 hp with h | h
    · exact hi.2 p h
    · exact hres.2 p h

theorem reach_inv {e : Env} (symm : ∀ a b, e.nbr a b = e.nbr b a) {net : Net} (h : Reach e net) :
    NetInv e net := by
  induction h with
  | init => exact netInv_init e
  | step _ hs ih => exact step_inv symm ih hs

end Aurora.RouteProto
