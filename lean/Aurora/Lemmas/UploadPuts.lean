import Aurora.Lemmas.Upload
import Aurora.Lemmas.SpecTree
/-!
Towards "every chunk of the uploaded tree was Put": invariants carried through the wrap logs of
`push` / `sumUp`, and the correspondence between the entry-valued run and a tree-valued run.
-/
namespace Aurora.HashTrie
open Aurora.Bmt (Bytes)
open Aurora.Cac (le64)
open Aurora.Tree

section LogInv
variable {α : Type} (wrap : List α → α) (B : Nat) (P : α → Prop) (Q : List α → Prop)
  (hPQ : ∀ g, (∀ x ∈ g, P x) → Q g → P (wrap g))
include hPQ

theorem push_P : ∀ (lv : List (List α)) (e : α), (∀ l ∈ lv, ∀ x ∈ l, P x) → P e →
    (∀ g ∈ (push wrap B lv e).2.2, Q g) → ∀ l ∈ (push wrap B lv e).1, ∀ x ∈ l, P x := by
  intro lv
  induction lv with
  | nil => intro e _ _ _ l hl; simp [push] at hl
  | cons l up ih =>
    intro e hlv he hlog
    have hl1 : ∀ x ∈ l ++ [e], P x := by
      intro x hx
      rcases List.mem_append.mp hx with h | h
      · exact hlv l (by simp) x h
      · simp at h; subst h; exact he
    simp only [push] at hlog ⊢
    by_cases hfull : (l ++ [e]).length = B
    · simp only [hfull, ↓reduceIte] at hlog ⊢
      have hw : P (wrap (l ++ [e])) := hPQ _ hl1 (hlog _ (by simp))
      have := ih (wrap (l ++ [e])) (fun l' hl' => hlv l' (by simp [hl'])) hw
        (fun g hg => hlog g (by simp [hg]))
      intro l' hl'
      rcases List.mem_cons.mp hl' with h | h
      · subst h; intro x hx; simp at hx
      · exact this l' h
    · simp only [hfull, ↓reduceIte] at hlog ⊢
      intro l' hl'
      rcases List.mem_cons.mp hl' with h | h
      · subst h; exact hl1
      · exact hlv l' (by simp [h])

theorem sumUp_P : ∀ (n : Nat) (lv : List (List α)), lv.length = n → (∀ l ∈ lv, ∀ x ∈ l, P x) →
    (∀ g ∈ (sumUp wrap B lv).2, Q g) → ∀ e, (sumUp wrap B lv).1 = some e → P e := by
  intro n
  induction n using Nat.strongRecOn with
  | _ n ih =>
    intro lv hn hlv hlog e he
    match lv, hn with
    | [], _ => simp [sumUp] at he
    | [top], _ =>
      match top, hlv with
      | [x], hlv => simp [sumUp] at he; subst he; exact hlv [x] (by simp) x (by simp)
      | [], _ => simp [sumUp] at he
      | _ :: _ :: _, _ => simp [sumUp] at he
    | l :: l' :: up, hn =>
      rw [sumUp] at he hlog
      have hup : ∀ m ∈ l' :: up, ∀ x ∈ m, P x := fun m hm => hlv m (by simp at hm ⊢; rcases hm with h | h <;> simp [h])
      have hl : ∀ x ∈ l, P x := hlv l (by simp)
      have wrapcase : ∀ (hlog' : ∀ g ∈ l :: (push wrap B (l' :: up) (wrap l)).2.2 ++ (sumUp wrap B (push wrap B (l' :: up) (wrap l)).1).2, Q g)
          (he' : (sumUp wrap B (push wrap B (l' :: up) (wrap l)).1).1 = some e), P e := by
        intro hlog' he'
        have hw : P (wrap l) := hPQ l hl (hlog' l (by simp))
        have hpush := push_P wrap B P Q hPQ (l' :: up) (wrap l) hup hw (fun g hg => hlog' g (by simp [hg]))
        exact ih (l' :: up).length (by simp at hn ⊢; omega) _ (by rw [push_length]) hpush
          (fun g hg => hlog' g (by simp [hg])) e he'
      by_cases h0 : l.length = 0
      · simp only [h0, ↓reduceIte] at he hlog
        exact ih (l' :: up).length (by simp at hn ⊢; omega) (l' :: up) rfl hup hlog e he
      · simp only [h0, ↓reduceIte] at he hlog
        by_cases hB : l.length = B
        · simp only [hB, ↓reduceIte] at he hlog
          exact wrapcase hlog he
        · simp only [hB, ↓reduceIte] at he hlog
          by_cases h1 : l.length = 1
          · simp only [h1, ↓reduceIte] at he hlog
            refine ih ((l' ++ l) :: up).length (by simp at hn ⊢; omega) ((l' ++ l) :: up) rfl ?_ hlog e he
            intro m hm x hx
            rcases List.mem_cons.mp hm with h | h
            · subst h
              rcases List.mem_append.mp hx with h2 | h2
              · exact hup l' (by simp) x h2
              · exact hl x h2
            · exact hup m (by simp [h]) x hx
          · simp only [h1, ↓reduceIte] at he hlog
            exact wrapcase hlog he

end LogInv

section MapLog
variable {α β : Type} (wa : List α → α) (wb : List β → β) (B : Nat) (f : α → β)
  (hw : ∀ g, f (wa g) = wb (g.map f))
include hw

theorem push_map : ∀ (lv : List (List α)) (e : α),
    push wb B (lv.map (List.map f)) (f e) =
      ((push wa B lv e).1.map (List.map f), (push wa B lv e).2.1, (push wa B lv e).2.2.map (List.map f)) := by
  intro lv
  induction lv with
  | nil => intro e; rfl
  | cons l up ih =>
    intro e
    have hl1 : l.map f ++ [f e] = (l ++ [e]).map f := by simp
    simp only [List.map_cons, push, hl1, List.length_map]
    by_cases hfull : (l ++ [e]).length = B
    · simp only [hfull, ↓reduceIte]
      rw [← hw, ih]
      simp
    · simp only [hfull, ↓reduceIte]
      simp

theorem sumUp_map : ∀ (n : Nat) (lv : List (List α)), lv.length = n →
    sumUp wb B (lv.map (List.map f)) = ((sumUp wa B lv).1.map f, (sumUp wa B lv).2.map (List.map f)) := by
  intro n
  induction n using Nat.strongRecOn with
  | _ n ih =>
    intro lv hn
    match lv, hn with
    | [], _ => simp [sumUp]
    | [top], _ =>
      match top with
      | [x] => simp [sumUp]
      | [] => simp [sumUp]
      | _ :: _ :: _ => simp [sumUp]
    | l :: l' :: up, hn =>
      have hlen : (l' :: up).length < n := by simp at hn ⊢; omega
      simp only [List.map_cons]
      rw [sumUp, sumUp]
      simp only [List.length_map]
      have wrapcase :
          (let r := push wb B (l'.map f :: up.map (List.map f)) (wb (l.map f))
           let s := sumUp wb B r.1
           (s.1, l.map f :: r.2.2 ++ s.2)) =
          (Option.map f (let r := push wa B (l' :: up) (wa l); let s := sumUp wa B r.1; (s.1, l :: r.2.2 ++ s.2)).1,
           List.map (List.map f) (let r := push wa B (l' :: up) (wa l); let s := sumUp wa B r.1; (s.1, l :: r.2.2 ++ s.2)).2) := by
        have hp := push_map wa wb B f hw (l' :: up) (wa l)
        simp only [List.map_cons] at hp
        simp only []
        rw [← hw, hp]
        simp only []
        rw [ih (l' :: up).length hlen _ (by rw [push_length])]
        simp
      by_cases h0 : l.length = 0
      · simp only [h0, ↓reduceIte]
        have := ih (l' :: up).length hlen (l' :: up) rfl
        simpa using this
      · simp only [h0, ↓reduceIte]
        by_cases hB : l.length = B
        · simp only [hB, ↓reduceIte]; exact wrapcase
        · simp only [hB, ↓reduceIte]
          by_cases h1 : l.length = 1
          · simp only [h1, ↓reduceIte]
            have := ih ((l' ++ l) :: up).length (by simp at hn ⊢; omega) ((l' ++ l) :: up) rfl
            simpa using this
          · simp only [h1, ↓reduceIte]; exact wrapcase

end MapLog

section Pipeline
variable (cref : Bytes → Bytes → Bytes) (B : Nat)

theorem groupChunk_entry (g : List T) :
    groupChunk cref (g.map (T.entry cref)) = ((wrapT g).ref cref, (wrapT g).data cref) := by
  have h := entry_wrapT cref g
  simp only [groupChunk, ← h, flatMap_ref]
  rfl

/-- the relation between the entry-valued writer state and a tree-valued run: same shape, and
    every chunk of every tree held in a level has been `Put` -/
def Rel (u : Upload) (lvT : List (List T)) : Prop :=
  u.trie.levels = lvT.map (List.map (T.entry cref)) ∧
  ∀ l ∈ lvT, ∀ x ∈ l, ∀ c ∈ x.chunks cref, c ∈ u.puts

theorem feedChunk_failed (u : Upload) (p : Bytes) (h : u.failed = true) : (feedChunk cref B u p).failed = true := by
  unfold feedChunk; simp [h]

theorem wrapT_chunks (g : List T) (puts : List (Bytes × Bytes)) (hg : ∀ x ∈ g, ∀ c ∈ x.chunks cref, c ∈ puts)
    (hown : ((wrapT g).ref cref, (wrapT g).data cref) ∈ puts) : ∀ c ∈ (wrapT g).chunks cref, c ∈ puts := by
  intro c hc
  simp only [wrapT, T.chunks] at hc
  rcases List.mem_cons.mp hc with h | h
  · rw [h]; exact hown
  · clear hc hown
    induction g with
    | nil => simp [chunksL] at h
    | cons t ts ih =>
      rw [chunksL] at h
      rcases List.mem_append.mp h with h1 | h1
      · exact hg t (by simp) c h1
      · exact ih (fun x hx => hg x (by simp [hx])) h1

theorem feedChunk_rel (u : Upload) (lvT : List (List T)) (p : Bytes) (hr : Rel cref u lvT)
    (hok : (feedChunk cref B u p).failed = false) :
    Rel cref (feedChunk cref B u p) (push wrapT B lvT (.leaf p)).1 ∧
    (∀ c ∈ u.puts, c ∈ (feedChunk cref B u p).puts) := by
  have hu : u.failed = false := by
    cases h : u.failed with
    | false => rfl
    | true => rw [feedChunk_failed cref B u p h] at hok; cases hok
  unfold feedChunk at hok ⊢
  simp only [hu, Bool.false_eq_true, ↓reduceIte] at hok ⊢
  unfold chainWrite at hok ⊢
  cases hfull : u.trie.full with
  | true => simp [hfull] at hok
  | false =>
    simp only [hfull, Bool.false_eq_true, ↓reduceIte, Bool.false_or]
    have hleaf : leafEntry cref p = (T.leaf p).entry cref := rfl
    have hpm := push_map wrapT (wrapE cref) B (T.entry cref) (entry_wrapT cref) lvT (.leaf p)
    rw [hr.1, hleaf, hpm]
    simp only []
    refine ⟨⟨rfl, ?_⟩, ?_⟩
    · apply push_P wrapT B
        (fun x => ∀ c ∈ x.chunks cref, c ∈ (u.puts ++ [(((T.leaf p).entry cref).ref, le64 p.length ++ p)]) ++
          ((push wrapT B lvT (.leaf p)).2.2.map (List.map (T.entry cref))).map (groupChunk cref))
        (fun g => ((wrapT g).ref cref, (wrapT g).data cref) ∈ (u.puts ++ [(((T.leaf p).entry cref).ref, le64 p.length ++ p)]) ++
          ((push wrapT B lvT (.leaf p)).2.2.map (List.map (T.entry cref))).map (groupChunk cref))
        (fun g hg hq => wrapT_chunks cref g _ hg hq)
      · intro l hl x hx c hc
        exact List.mem_append_left _ (List.mem_append_left _ (hr.2 l hl x hx c hc))
      · intro c hc
        simp only [T.chunks, List.mem_singleton] at hc
        subst hc
        exact List.mem_append_left _ (List.mem_append_right _ (by simp [T.entry, T.ref]))
      · intro g hg
        apply List.mem_append_right
        rw [← groupChunk_entry]
        exact List.mem_map_of_mem (List.mem_map_of_mem hg)
    · intro c hc
      exact List.mem_append_left _ (List.mem_append_left _ hc)

/-- the tree-valued run of the writer on the data chunks -/
def feedAllT (lvT : List (List T)) (ps : List Bytes) : List (List T) :=
  ps.foldl (fun lv p => (push wrapT B lv (.leaf p)).1) lvT

theorem feedAll_failed (ps : List Bytes) : ∀ (u : Upload), u.failed = true → (feedAll cref B u ps).failed = true := by
  induction ps with
  | nil => intro u h; exact h
  | cons p t ih => intro u h; exact ih _ (feedChunk_failed cref B u p h)

theorem feedAll_rel (ps : List Bytes) : ∀ (u : Upload) (lvT : List (List T)), Rel cref u lvT →
    (feedAll cref B u ps).failed = false →
    Rel cref (feedAll cref B u ps) (feedAllT B lvT ps) ∧ (∀ c ∈ u.puts, c ∈ (feedAll cref B u ps).puts) := by
  induction ps with
  | nil => intro u lvT hr _; exact ⟨hr, fun c hc => hc⟩
  | cons p t ih =>
    intro u lvT hr hok
    have hstep : (feedChunk cref B u p).failed = false := by
      cases h : (feedChunk cref B u p).failed with
      | false => rfl
      | true =>
        have := feedAll_failed cref B t _ h
        simp only [feedAll, List.foldl_cons] at hok this
        rw [this] at hok; cases hok
    have h1 := feedChunk_rel cref B u lvT p hr hstep
    have h2 := ih (feedChunk cref B u p) _ h1.1 (by simpa [feedAll] using hok)
    exact ⟨by simpa [feedAll, feedAllT] using h2.1, fun c hc => by simpa [feedAll] using h2.2 c (h1.2 c hc)⟩

/-- `Sum` on related states: the entry returned is the entry of a tree all of whose chunks are in
    the final Put log -/
theorem sum_rel (u : Upload) (lvT : List (List T)) (hr : Rel cref u lvT) (e : Entry) (gs : List (List Entry))
    (hs : trieSum (wrapE cref) B u.trie = .ok (e, gs)) :
    ∃ t, (sumUp wrapT B lvT).1 = some t ∧ e = t.entry cref ∧
      ∀ c ∈ t.chunks cref, c ∈ u.puts ++ gs.map (groupChunk cref) := by
  unfold trieSum at hs
  rw [hr.1, sumUp_map wrapT (wrapE cref) B (T.entry cref) (entry_wrapT cref) _ lvT rfl] at hs
  cases hT : (sumUp wrapT B lvT).1 with
  | none => simp [hT] at hs
  | some t =>
    simp only [hT, Option.map_some] at hs
    injection hs with hs
    injection hs with he hg
    refine ⟨t, rfl, he.symm, ?_⟩
    apply sumUp_P wrapT B
      (fun x => ∀ c ∈ x.chunks cref, c ∈ u.puts ++ gs.map (groupChunk cref))
      (fun g => ((wrapT g).ref cref, (wrapT g).data cref) ∈ u.puts ++ gs.map (groupChunk cref))
      (fun g hg hq => wrapT_chunks cref g _ hg hq) _ lvT rfl
    · intro l hl x hx c hc
      exact List.mem_append_left _ (hr.2 l hl x hx c hc)
    · intro g hgm
      apply List.mem_append_right
      rw [← groupChunk_entry, ← hg]
      exact List.mem_map_of_mem (List.mem_map_of_mem hgm)
    · exact hT

theorem feedAllT_state (hB0 : 0 < B) (ps : List Bytes) : ∀ (done : List T),
    feedAllT B (state wrapT B 8 done) ps = state wrapT B 8 (done ++ ps.map T.leaf) := by
  induction ps with
  | nil => intro done; simp [feedAllT]
  | cons p t ih =>
    intro done
    simp only [feedAllT, List.foldl_cons] at ih ⊢
    rw [push_state wrapT B hB0 8, ih]
    simp

/-- the Put log after `Sum()` -/
def putsOf (u : Upload) : List (Bytes × Bytes) :=
  if u.failed then u.puts else
  match trieSum (wrapE cref) B u.trie with
  | .error _ => u.puts
  | .ok (_, gs) => u.puts ++ gs.map (groupChunk cref)

theorem putsOf_feeder (u : Upload) (f : Aurora.Feeder.State) :
    putsOf cref B { u with feeder := f } = putsOf cref B u := rfl

theorem sum_fst_puts (u : Upload) :
    (u.sum cref B).1.puts = putsOf cref B (feedAll cref B u (Aurora.Feeder.sum u.feeder).2) := by
  unfold Upload.sum putsOf
  have h := feedAll_feeder cref B (Aurora.Feeder.sum u.feeder).2 u (Aurora.Feeder.sum u.feeder).1
  simp only [feedAll] at h ⊢
  rw [h]
  simp only []
  by_cases hf : (List.foldl (feedChunk cref B) u (Aurora.Feeder.sum u.feeder).2).failed
  · simp [hf]
  · simp only [hf, Bool.false_eq_true, ↓reduceIte]
    split <;> simp_all

end Pipeline

section Final
variable (cref : Bytes → Bytes → Bytes) (C B : Nat)

/-- **Every chunk of the uploaded tree was `Put`**: the upload returns the reference of
    `specTree data`, and all chunks of that tree are in the pipeline's Put log. -/
theorem upload_puts_tree (hC : 0 < C) (hB : 2 ≤ B) (segs : List Bytes)
    (hlim : (leafData C segs.flatten).length < B ^ 7) :
    ∃ t, specTree C B segs.flatten = some t ∧ (upload cref C B segs).2 = some (t.ref cref) ∧
      ∀ c ∈ t.chunks cref, c ∈ (upload cref C B segs).1.puts := by
  have hB0 : 0 < B := by omega
  -- the fed chunks
  have hfeed := Aurora.Feeder.feeder_chunks C hC segs
  rw [runWrites_eq] at hfeed
  simp only [List.nil_append] at hfeed
  -- shape of the state before `Sum`
  have hputs : (upload cref C B segs).1.puts = putsOf cref B (feedAll cref B {} (leafData C segs.flatten)) := by
    unfold upload
    rw [writes_eq, sum_fst_puts, feedAll_feeder, putsOf_feeder, ← feedAll_append, hfeed]
  have hres : (upload cref C B segs).2 = sumOf cref B (feedAll cref B {} (leafData C segs.flatten)) := by
    unfold upload
    rw [writes_eq, sum_snd, feedAll_feeder, sumOf_feeder, ← feedAll_append, hfeed]
  -- the entry-valued state
  have hst := feedAll_state cref B hB0 (leafData C segs.flatten) {} [] rfl rfl
    (by simp [State.new, maxLevel, state_nil B hB0]) (by simpa using hlim)
  simp only [List.nil_append] at hst
  obtain ⟨hf, _, _⟩ := hst
  -- the tree-valued run
  have hrel0 : Rel cref ({} : Upload) (state wrapT B 8 []) := by
    refine ⟨by simp [State.new, maxLevel, state_nil B hB0], ?_⟩
    intro l hl x hx
    rw [state_nil B hB0] at hl
    have : l = [] := by
      have := List.eq_of_mem_replicate hl
      exact this
    subst this; simp at hx
  have hrel := (feedAll_rel cref B (leafData C segs.flatten) {} _ hrel0 hf).1
  rw [feedAllT_state B hB0] at hrel
  simp only [List.nil_append] at hrel
  generalize hts : (leafData C segs.flatten).map T.leaf = ts at hrel
  -- the tree-valued Sum is the spec tree
  have hne : ts ≠ [] := by rw [← hts]; simpa using leafData_ne_nil C segs.flatten
  have hlen : ts.length < B ^ 7 := by rw [← hts]; simpa using hlim
  obtain ⟨t, ht⟩ := rootG_enough wrapT B hB ts.length ts (Nat.le_refl _) hne
  have ht' := rootG_stable wrapT B _ _ _ ht (max 7 ts.length) (by omega)
  have hsum := sumUp_root wrapT B hB 7 ts [] (max 7 ts.length) (by simp) (by simpa using hne)
    (by simp; omega) (by omega)
  simp only [List.append_nil] at hsum
  have hstate : state wrapT B 8 ts = rem B ts :: state wrapT B 7 (fullWraps wrapT B ts) := rfl
  rw [← hstate, ht'] at hsum
  have hspec : specTree C B segs.flatten = some t := by
    unfold specTree; simp only [hts]; exact ht
  -- Sum on the entry side
  generalize hV : feedAll cref B {} (leafData C segs.flatten) = V at *
  unfold sumOf at hres
  unfold putsOf at hputs
  simp only [hf, Bool.false_eq_true, ↓reduceIte] at hres hputs
  cases hs : trieSum (wrapE cref) B V.trie with
  | error e =>
    -- impossible: the entry-side Sum is the image of the tree-side one
    exfalso
    unfold trieSum at hs
    rw [hrel.1, sumUp_map wrapT (wrapE cref) B (T.entry cref) (entry_wrapT cref) _ _ rfl, hsum] at hs
    simp at hs
  | ok r =>
    obtain ⟨e, gs⟩ := r
    simp only [hs] at hres hputs
    obtain ⟨t', ht1, he, hchunks⟩ := sum_rel cref B V _ hrel e gs hs
    rw [hsum] at ht1
    injection ht1 with ht1
    subst ht1
    refine ⟨t, hspec, ?_, ?_⟩
    · rw [hres, he]; rfl
    · rw [hputs]; exact hchunks

end Final

end Aurora.HashTrie
