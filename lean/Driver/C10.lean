import Driver.Util
import Aurora.Model.Mantaray
/-! Driver for C10: the mantaray trie model (`Aurora.Mantaray.step`) on the op lines of the harness.
    Entries are 32 (plain) or 64 (encrypted manifest) copies of the reference byte; metadata is the
    canonical `k=v;k=v` string (`-` = none; long values in the run-length form `c~n`), opaque to the model.
    `lsroundtrip <size> <seed>` ties the load-saver (pkg/file/loadsave) to the identity the model assumes. -/
namespace Driver.C10
open Aurora.Mantaray

structure St where
  s : State := State.new
  enc : Bool := false

def maxLit : Nat := 64
def maxRun : Nat := 60000

def okc (t : String) : Bool := t.toList.all (fun c => ('a' ≤ c && c ≤ 'z') || ('0' ≤ c && c ≤ '9'))

/-- a natural number in canonical decimal form (digits only, no leading zero) -/
def canonNat (t : String) : Option Nat :=
  if !t.isEmpty && t.toList.all Char.isDigit && (t = "0" || t.toList.head? ≠ some '0') && t.length ≤ 18 then t.toNat? else none

/-- a metadata value: a literal of at most `maxLit` characters, or the run-length form `<c>~<n>`
    (`maxLit < n ≤ maxRun`) the big-node cases use.  Returns (well-formed, is a run). -/
def valOk (v : String) : Bool × Bool :=
  match v.splitOn "~" with
  | [lit] => (okc lit && lit.length ≤ maxLit, false)
  | [c, n] => (c.length = 1 && okc c && (match canonNat n with | some k => maxLit < k && k ≤ maxRun | none => false), true)
  | _ => (false, false)

/-- the canonical metadata token (`-`, or `k=v;…` with ascending keys; at most one run-length value).
    The token is canonical, so the model carries it as the (opaque) metadata and prints it back. -/
def metaOk (s : String) : Bool :=
  if s = "-" then true else
  let kvs := s.splitOn ";"
  let parsed := kvs.map (fun kv => kv.splitOn "=")
  let wf := parsed.all (fun f => match f with | [k, v] => k ≠ "" && okc k && k.length ≤ maxLit && (valOk v).1 | _ => false)
  let runs := (parsed.filter (fun f => match f with | [_, v] => (valOk v).2 | _ => false)).length
  let keys := parsed.map (fun f => f.headD "")
  let rec sorted : List String → Bool
    | a :: b :: rest => decide (a < b) && sorted (b :: rest)
    | _ => true
  wf && sorted keys && runs ≤ 1

def metaBytes (s : String) : Meta := if s = "-" then [] else s.toUTF8.toList
def metaStr (m : Meta) : String :=
  if m.isEmpty then "-" else String.ofList (m.map (fun b => Char.ofNat b.toNat))

def outStr : Out → String
  | .ok => "ok" | .notFound => "notfound" | .err => "err" | .noStore => "nostore"
  | .broken => "broken" | .panic => "panic"
  | .found e m => s!"found {Driver.bytesToHex e} {metaStr m}"
  | .bool b => Driver.boolStr b

def run1 (st : St) (op : Op) : St × String :=
  let r := step st.s op
  ({ st with s := r.1 }, outStr r.2)

def step (st : St) (op : List String) : St × String :=
  match op with
  | ["new", e] =>
    if e = "0" then ({ s := State.new, enc := false }, "ok")
    else if e = "1" then ({ s := State.new, enc := true }, "ok")
    else (st, "bad-op")
  | ["lsroundtrip", n, sd] =>
    -- `loadsave.Load (loadsave.Save x) = x` for a blob of n bytes.  The manifest model has no heap (a
    -- reference denotes the persisted tree): it assumes exactly this identity of the load-saver for node
    -- blobs of every size; this op makes the assumption observable (that pipeline + joiner satisfy it is
    -- C01's `C01_upload_then_stored` / `C01_readAt_exact`).  Independent of the manifest state.
    match canonNat n, canonNat sd with
    | some n, some sd => if n ≤ 4 * 262144 && sd < 4294967296 then (st, s!"same {n}") else (st, "bad-op")
    | _, _ => (st, "bad-op")
  | ["store"] => run1 st .store
  | ["reload"] => run1 st .reload
  | ["remove", p] => match Driver.hexToBytes p with | some p => run1 st (.remove p) | none => (st, "bad-op")
  | ["lookup", p] => match Driver.hexToBytes p with | some p => run1 st (.lookup p) | none => (st, "bad-op")
  | ["hasprefix", p] => match Driver.hexToBytes p with | some p => run1 st (.hasPrefix p) | none => (st, "bad-op")
  | ["add", p, r, m] =>
    match Driver.hexToBytes p, r.toNat? with
    | some p, some k =>
      if k < 1 || k > 255 || !metaOk m || r.toList.any (fun c => !(c.isDigit)) then (st, "bad-op")
      else run1 st (.add p (List.replicate (if st.enc then 64 else 32) (UInt8.ofNat k)) (metaBytes m))
    | _, _ => (st, "bad-op")
  | _ => (st, "bad-op")

def handler : Driver.Handler := { σ := St, init := {}, step := step }

end Driver.C10
