import Aurora.Lemmas.Localstore
/-!
C11 — Local store returns exactly what was stored (garbage collection out of reach: no `gcSelect`/
`gcEvict` in the histories considered; the capacity premise of DESIGN §6 is therefore not needed by
the statements below — none of the operations treated here consults the capacity except for the
trigger flag).
-/
namespace Aurora.Localstore

/-- the abstract chunk set: address ↦ (bytes, pin count) -/
def absCS (db : Db) (a : Addr) : Option (Bytes × Nat) :=
  (SMap.get a db.data).map (fun d => (d.data, (SMap.get a db.pin).getD 0))

/-! ## lookups read exactly the data index -/

/-- `Has(ModeHasChunk)` ⇔ the address is in the abstract chunk set -/
theorem C11_has_iff_present (s : State) (a : Addr) :
    has s .chunk a = .bool (absCS s.db a).isSome := by
  simp [has, absCS, SMap.has]

/-- `Get` in the non-pin modes returns exactly the stored bytes, and fails iff the chunk is absent -/
theorem C11_get_exact (s : State) (r : Option Addr) (a : Addr) (m : GetMode) (hm : m = .sync ∨ m = .lookup) :
    (get s m r a).out = match absCS s.db a with
      | some (d, _) => .chunk d
      | none => .err .notFound := by
  unfold get absCS
  cases h : SMap.get a s.db.data with
  | none => simp
  | some d => rcases hm with hm | hm <;> subst hm <;> simp

/-- `Get(ModeGetRequest)` returns the stored bytes as well (and only re-keys gc bookkeeping) -/
theorem C11_get_request_exact (s : State) (r : Option Addr) (a : Addr) :
    (get s .request r a).out = match absCS s.db a with
      | some (d, _) => .chunk d
      | none => .err .notFound := by
  unfold get absCS
  cases h : SMap.get a s.db.data with
  | none => simp
  | some d => cases r <;> simp

/-! ## exist flags -/

/-- `exist_flag_exact`, for every mode, every state, single and batched calls, with or without root
context: whenever `Put` succeeds, `exist[i]` ⇔ chunk i was present before the call or is duplicated
earlier in the same call. -/
theorem C11_exist_flag_exact (po : Addr → Nat) (s : State) (mode : PutMode) (root : Option Addr)
    (chs : List (Addr × Bytes)) (l : List Bool) (h : (put po s mode root chs).out = .exist l) :
    l = existSpec s.db.data [] chs := by
  unfold put at h
  by_cases hf : putFast s mode chs = true
  · simp only [hf, if_true] at h
    unfold putFast at hf
    split at hf
    · rename_i a d
      simp only [Bool.and_eq_true] at hf
      injection h with h
      simp [existSpec, hf.2, ← h]
    · simp at hf
  · simp only [hf, Bool.false_eq_true, if_false, finish, putBody] at h
    split at h
    · simp at h
    · have hs := (putLoop_spec po mode root chs (Tx.start s) [] []).2
      cases hl : putLoop po mode root (Tx.start s) [] chs [] with
      | error e => obtain ⟨e1, t⟩ := e; rw [hl] at h; simp at h
      | ok p =>
        obtain ⟨t, ex⟩ := p
        rw [hl] at h
        simp only [Out.exist.injEq] at h
        have := hs t ex hl
        simp only [List.reverse_nil, List.nil_append, Tx.start] at this
        rw [← h, this]

example : existSpec [] [] [(1, []), (2, []), (1, [])] = [false, false, true] := by decide

/-! ## batched = one at a time -/

def po0c : Addr → Nat := fun _ => 0
def runOpsC (s : State) (ops : List Op) : State := ops.foldl (step po0c) s
def c0 : State := init 1000000

/-- states equal on the abstract chunk set (over the addresses 1…8 used by the witnesses) -/
def absEq (s t : State) : Bool := (List.range 9).all (fun a => absCS s.db a == absCS t.db a)

/-- gc bookkeeping with timestamps abstracted to their order: (root, GCounter) in index order + gcSize -/
def bookkeeping (s : State) : List (Addr × Nat) × Nat := (s.db.gc.map (fun e => (e.1.addr, e.2)), s.db.gcSize)

/-- full statement: a batched `Put` reaches the same abstract chunk set as the same chunks one at a time -/
def C11_batch_eq_sequential_abstract_full : Prop :=
  ∀ (s : State) (m : PutMode) (r : Option Addr) (chs : List (Addr × Bytes)),
    absEq (step po0c s (.put m r chs)) (chs.foldl (fun t c => step po0c t (.put m r [c])) s) = true

/-- full statement for the gc bookkeeping -/
def C11_batch_eq_sequential_bookkeeping_full : Prop :=
  ∀ (s : State) (m : PutMode) (r : Option Addr) (chs : List (Addr × Bytes)),
    bookkeeping (step po0c s (.put m r chs)) = bookkeeping (chs.foldl (fun t c => step po0c t (.put m r [c])) s)

/-- trigger `batch-aborts-where-sequential-stores`: root chunk new in the same call — the whole batch
fails (the root's bin id is looked up in the database, not in the batch) while one at a time both
chunks are stored. -/
theorem C11_batch_eq_sequential_abstract_counterexample : ¬ C11_batch_eq_sequential_abstract_full := by
  intro h
  have := h c0 .request (some 1) [(1, []), (2, [])]
  revert this
  decide

/-- trigger `batch-dup-pins-once`: a duplicated chunk in a pinning batch is pinned once; one at a time
`ModePutUploadPin` pins it per call. -/
theorem C11_batch_dup_pin_counterexample :
    absEq (step po0c c0 (.put .uploadPin none [(1, []), (1, [])]))
          (runOpsC c0 [.put .uploadPin none [(1, [])], .put .uploadPin none [(1, [])]]) = false := by decide

/-- the non-pinning modes without root context, and distinct new chunks, do agree (non-vacuity witness) -/
example : absEq (step po0c c0 (.put .upload none [(1, [1]), (2, [2])]))
          (runOpsC c0 [.put .upload none [(1, [1])], .put .upload none [(2, [2])]]) = true := by decide

/-- trigger `batch-req-root-gcounter`: `batch_eq_sequential_bookkeeping` is false — two new chunks in one
`ModePutRequest` call under a root context leave `GCounter = 2, gcSize = 3`; one at a time `3, 3`. -/
theorem C11_batch_eq_sequential_bookkeeping_counterexample : ¬ C11_batch_eq_sequential_bookkeeping_full := by
  intro h
  have := h (step po0c c0 (.put .request (some 1) [(1, [])])) .request (some 1) [(2, []), (3, [])]
  revert this
  decide

/-- trigger `batch-reqpin-root-gcsize`: two `ModePutRequestPin` chunks in one call under a cached root —
the sum of the decrements exceeds gcSize and is skipped. -/
theorem C11_batch_reqpin_bookkeeping_counterexample :
    bookkeeping (step po0c (step po0c c0 (.put .request (some 1) [(1, [])])) (.put .requestPin (some 1) [(2, []), (3, [])]))
    ≠ bookkeeping (runOpsC (step po0c c0 (.put .request (some 1) [(1, [])]))
        [.put .requestPin (some 1) [(2, [])], .put .requestPin (some 1) [(3, [])]]) := by decide

end Aurora.Localstore
