import Driver.KadShared
/-! Driver for C22: the shared Kad model driver (op lines: harness/kadh/kadh.go). -/
namespace Driver.C22
def handler : Driver.Handler := Driver.KadShared.handler
end Driver.C22
