import Aurora.Model.Depth
import Aurora.Model.Closest
/-!
# Kademlia connection bookkeeping (properties C22, C23, C24) — executable model

Transcription of the event handlers of `pkg/topology/kademlia/kademlia.go`
(`Outbound`, `Connected`, `onConnected`, `Disconnected`, `DisconnectForce`, `Pick`,
`binSaturated`, `Reachable`, `UpdateReachability`, `SetRadius`, `AddPeers`,
`RefreshProtectPeer`, `peerUnreachable`, `randomPeer`) over a model of
`pkg/topology/pslice/pslice.go` (`Add` single and batch, `Remove` with its swap-with-last,
`Exists`, bin order).  Core Lean only.

Environment contract (what the harness — and the node — provide): `p2p.Disconnect(peer)` ends
with `notifier.Disconnected(peer)` and succeeds; `addressBook.Remove` succeeds; `Announce`
returns nil; addresses are shorter than 256 bytes (`uint8(len(one))` in `boson.Proximity`).
-/
namespace Aurora.Topo

def maxPO : Nat := Aurora.Generated.maxPO
def maxBins : Nat := Aurora.Generated.maxBins

/-- index `j` of the first set bit of `x` counted from the most significant one -/
def firstSetBit (x : UInt8) : Option Nat :=
  (List.range 8).find? (fun j => (x >>> (7 - j).toUInt8) &&& 1 != 0)

/-- the loops of `boson.Proximity`; `n` = remaining bytes to inspect -/
def proximityGo (i : Nat) : Nat → Addr → Addr → Nat
  | n + 1, x :: xs, y :: ys =>
    match firstSetBit (x ^^^ y) with
    | some j => i * 8 + j
    | none => proximityGo (i + 1) n xs ys
  | _, _, _ => maxPO

/-- `boson.Proximity(one, other)` (lengths < 256) -/
def proximity (one other : Addr) : Nat := proximityGo 0 (maxPO / 8 + 1) one other

/-! ## PSlice -/

structure PSlice where
  bins : List (List Addr)
deriving Repr, DecidableEq

def PSlice.new : PSlice := ⟨List.replicate maxBins []⟩

/-- `PSlice.po` -/
def psPo (base a : Addr) : Nat :=
  let p := proximity base a
  if p ≥ maxBins then maxBins - 1 else p

def modifyAt (l : List (List Addr)) (i : Nat) (f : List Addr → List Addr) : List (List Addr) :=
  match l, i with
  | [], _ => []
  | b :: rest, 0 => f b :: rest
  | b :: rest, i + 1 => b :: modifyAt rest i f

/-- `PSlice.Exists` / `index(addr, po)`: only the bin of `a` is searched -/
def PSlice.has (base : Addr) (ps : PSlice) (a : Addr) : Bool := (ps.bins.getD (psPo base a) []).contains a

/-- `PSlice.Add(addr)` with one address -/
def PSlice.add (base : Addr) (ps : PSlice) (a : Addr) : PSlice :=
  if ps.has base a then ps else ⟨modifyAt ps.bins (psPo base a) (· ++ [a])⟩

/-- `PSlice.Add(addrs...)`: with more than one address the existence flags are computed for all
addresses *before* any insertion (so a batch containing the same new address twice stores it twice). -/
def PSlice.addMany (base : Addr) (ps : PSlice) (as : List Addr) : PSlice :=
  match as with
  | [a] => ps.add base a
  | _ =>
    let fresh := as.filter (fun a => !ps.has base a)
    fresh.foldl (fun p a => ⟨modifyAt p.bins (psPo base a) (· ++ [a])⟩) ps

/-- the body of `PSlice.Remove` on one bin: drop the last slot and, unless the removed index was
the last one, overwrite the removed index with the former last element -/
def swapRemove (l : List Addr) (i : Nat) : List Addr :=
  if i + 1 == l.length then l.dropLast
  else match l.getLast? with
    | some last => l.dropLast.set i last
    | none => l

/-- `PSlice.Remove` -/
def PSlice.remove (base : Addr) (ps : PSlice) (a : Addr) : PSlice :=
  if ps.has base a then
    ⟨modifyAt ps.bins (psPo base a) (fun l => swapRemove l (l.idxOf a))⟩
  else ps

/-- all peers, bins ascending (`EachBinRev` order) -/
def PSlice.toList (ps : PSlice) : List Addr := ps.bins.flatten

/-! ## Kad -/

structure Kad where
  base : Addr
  params : Params
  os : Nat                       -- oversaturation amount captured by `binSaturated(os, …)`
  bootMode : Bool                -- k.nodeMode.IsBootNode()
  static : List Addr
  connected : PSlice
  known : PSlice
  reach : List (Addr × Nat)      -- collector: last reachability status per address (1 = public)
  protect : List Addr
  radius : Nat
  depth : Nat
  selfReach : Nat                -- k.reachability (0 unknown, 1 public, 2 private)
deriving Repr

/-- `kademlia.New` -/
def Kad.new (base : Addr) (binMax : Nat) (bootMode : Bool) (static : List Addr) : Kad :=
  let p := Params.default.withBinMax binMax
  { base := base, params := p, os := p.osFor bootMode, bootMode := bootMode, static := static,
    connected := PSlice.new, known := PSlice.new, reach := [], protect := [],
    radius := maxPO, depth := 0, selfReach := 0 }

/-- `!k.peerUnreachable(addr)`: an entry exists and says public -/
def Kad.reachable (k : Kad) (a : Addr) : Bool := (k.reach.lookup a) == some 1

def Kad.flags (k : Kad) (ps : PSlice) : Bins := ps.bins.map (fun b => b.map k.reachable)

/-- `k.depth = recalcDepth(k.connectedPeers, k.radius, k.peerFilter)` -/
def Kad.recalc (k : Kad) : Kad := { k with depth := recalcDepth k.params (k.flags k.connected) k.radius }

/-- the closure returned by `binSaturated(os, isStaticPeer(static))` applied to
`(bin, k.knownPeers, k.connectedPeers, k.peerFilter)`: `(saturated, oversaturated)` -/
def Kad.binSaturated (k : Kad) (bin : Nat) : Bool × Bool :=
  let potentialDepth := recalcDepth k.params (k.flags k.known) maxPO
  if bin ≥ potentialDepth then (false, false)
  else
    let size := ((k.connected.bins.getD bin []).filter (fun a => k.reachable a && !k.static.contains a)).length
    (size ≥ k.params.sat, size ≥ k.os)

def Kad.isProtected (k : Kad) (a : Addr) : Bool := k.protect.contains a

/-- `Kad.Disconnected` -/
def Kad.disconnected (k : Kad) (a : Addr) : Kad :=
  ({ k with connected := k.connected.remove k.base a }).recalc

/-- `Kad.onConnected` (Announce returns nil) -/
def Kad.onConnected (k : Kad) (a : Addr) : Kad :=
  ({ k with known := k.known.add k.base a, connected := k.connected.add k.base a }).recalc

inductive ConnOut where
  | ok | oversat | err | badAnnot
deriving Repr, DecidableEq

/-- the peers `randomPeer(bin)` chooses from -/
def Kad.kickCandidates (k : Kad) (bin : Nat) : List Addr :=
  (k.connected.bins.getD bin []).filter (fun a => !k.static.contains a)

/-- what the environment sees of one `Connected` call: its result and the peer that
`randomPeer` + `p2p.Disconnect` kicked out (bootnode mode only) -/
structure Obs where
  out : ConnOut
  kicked : Option Addr
deriving Repr, DecidableEq

/-- `Kad.Connected(ctx, peer, forceConnection)`.  `kick` is the peer the real code's
`randomPeer` picked (observed by the harness); it must be one of `kickCandidates`. -/
def Kad.connectedEv (k : Kad) (a : Addr) (force : Bool) (kick : Option Addr) : Kad × Obs :=
  let po := proximity k.base a
  if (k.binSaturated po).2 && !k.isProtected a then
    if k.bootMode then
      if (k.kickCandidates po).isEmpty then (k, ⟨.err, none⟩)            -- errEmptyBin
      else match kick with
        | some x =>
          if (k.kickCandidates po).contains x then ((k.disconnected x).onConnected a, ⟨.ok, some x⟩)
          else (k, ⟨.badAnnot, none⟩)
        | none => (k, ⟨.badAnnot, none⟩)
    else if !force then (k, ⟨.oversat, none⟩)
    else (k.onConnected a, ⟨.ok, none⟩)
  else (k.onConnected a, ⟨.ok, none⟩)

/-- `Kad.Outbound(peer)`; `boot` = `peer.Mode.IsBootNode()` -/
def Kad.outbound (k : Kad) (a : Addr) (boot : Bool) : Kad :=
  if boot then { k with known := k.known.remove k.base a }
  else ({ k with known := k.known.add k.base a, connected := k.connected.add k.base a }).recalc

/-- `Kad.DisconnectForce` (p2p.Disconnect → Disconnected; address book removal succeeds) -/
def Kad.disconnectForce (k : Kad) (a : Addr) : Kad :=
  let k1 := k.disconnected a
  ({ k1 with connected := k1.connected.remove k.base a, known := k1.known.remove k.base a }).recalc

/-- `Kad.Pick` -/
def Kad.pick (k : Kad) (a : Addr) : Bool :=
  if k.bootMode then true
  else if k.isProtected a then true
  else !(k.binSaturated (proximity k.base a)).2

/-- `Kad.Reachable(addr, status)` (after the `fix:` commit: the depth is recomputed for every status) -/
def Kad.setReachable (k : Kad) (a : Addr) (status : Nat) : Kad :=
  ({ k with reach := (a, status) :: k.reach }).recalc

/-- `Kad.UpdateReachability` -/
def Kad.updateReachability (k : Kad) (status : Nat) : Kad :=
  if status == 0 then k else { k with selfReach := status }

/-- `Kad.SetRadius` -/
def Kad.setRadius (k : Kad) (r : Nat) : Kad :=
  if k.radius == r then k else ({ k with radius := r }).recalc

/-- `Kad.AddPeers` -/
def Kad.addPeers (k : Kad) (as : List Addr) : Kad := { k with known := k.known.addMany k.base as }

/-- `Kad.RefreshProtectPeer` -/
def Kad.setProtect (k : Kad) (as : List Addr) : Kad := { k with protect := as }

/-- the events the harness drives (one op line each) -/
inductive Ev where
  | add (as : List Addr)
  | conn (a : Addr) (force : Bool) (kick : Option Addr)
  | out (a : Addr) (boot : Bool)
  | disc (a : Addr)
  | force (a : Addr)
  | protect (as : List Addr)
  | reach (a : Addr) (status : Nat)
  | self (status : Nat)
  | radius (r : Nat)
deriving Repr

def Kad.apply (k : Kad) : Ev → Kad × Obs
  | .add as => (k.addPeers as, ⟨.ok, none⟩)
  | .conn a f kick => k.connectedEv a f kick
  | .out a boot => (k.outbound a boot, ⟨.ok, none⟩)
  | .disc a => (k.disconnected a, ⟨.ok, none⟩)
  | .force a => (k.disconnectForce a, ⟨.ok, none⟩)
  | .protect as => (k.setProtect as, ⟨.ok, none⟩)
  | .reach a s => (k.setReachable a s, ⟨.ok, none⟩)
  | .self s => (k.updateReachability s, ⟨.ok, none⟩)
  | .radius r => (k.setRadius r, ⟨.ok, none⟩)

/-- connected peers with reachability flags in `EachPeerRev` order -/
def Kad.connFlags (k : Kad) : List (Addr × Bool) := k.connected.toList.map (fun a => (a, k.reachable a))

def Kad.closest (k : Kad) (t : Addr) (includeSelf reachOnly : Bool) (skip : List Addr) : Closest :=
  closestPeer k.base (k.selfReach == 1) k.connFlags t includeSelf reachOnly skip

def Kad.closestN (k : Kad) (t : Addr) (n : Nat) (reachOnly : Bool) (skip : List Addr) : List Addr :=
  closestPeers k.base (k.selfReach == 1) k.connFlags t reachOnly n skip

end Aurora.Topo
