import Driver.Util
import Aurora.Model.Cheque
/-! Driver for C30: runs the cheque-receiving model on the op lines of the harness.
    The recovered signer arrives as the runner annotation `| rec=<id>|err|unk`. -/
namespace Driver.C30
open Aurora.Cheque

/-- number of chain-address ids the harness uses (TrafficCheques enumeration bound) -/
def nAddr : Nat := 16

def parseRec (s : String) : Option (Option Nat) :=
  if s = "rec=err" then some none
  else if s = "rec=unk" then some (some 1000000)
  else if s.startsWith "rec=" then (Driver.parseNat (s.drop 4).toString).map some
  else none

def storeResStr : StoreRes → String
  | .wrongRecipient => "wrong-recipient"
  | .recoverErr => "recover-err"
  | .invalid => "invalid"
  | .notIncreasing => "not-increasing"
  | .ok a => s!"ok {a}"

def resStr : Res → String
  | .unknownPeer => "unknown-peer"
  | .account => "account"
  | .store r => storeResStr r

def chequesStr (l : List (Nat × Nat)) : String :=
  if l.isEmpty then "-" else
  let sorted := l.mergeSort (fun a b => a.1 < b.1 || (a.1 == b.1 && a.2 ≤ b.2))
  " ".intercalate (sorted.map fun (p, v) => s!"{p}:{v}")

/-- the `(ben rcp cum signer mut)` groups of a `parrecv` line (signer / mutation only matter to the
    real code; their effect arrives as the `rec=` annotation) -/
def chunk5 : List String → Option (List Cheque)
  | [] => some []
  | b :: r :: c :: _ :: _ :: rest =>
    match Driver.parseNat b, Driver.parseNat r, Driver.parseNat c, chunk5 rest with
    | some b, some r, some c, some t => some (⟨b, r, c⟩ :: t)
    | _, _, _, _ => none
  | _ => none

def parseList (pre : String) (s : String) (f : String → Option α) : Option (List α) :=
  if s.startsWith pre then ((s.drop pre.length).toString.splitOn ",").mapM f else none

/-- `parrecv`: k cheques delivered concurrently.  The code serialises deliveries (cheque-store
    mutex, per-issuer traffic mutex), so the outcome is that of a sequential run in SOME order; the
    runner reports the order in which the deliveries read the last-cheque record (`ord=`), the model
    checks that it is a permutation of the k deliveries and runs them in that order. -/
def parrecv (st : St) (via : Option Nat) (cs : List Cheque) (recs : List (Option Nat)) (ord : List Nat) : St × String :=
  let k := cs.length
  if recs.length ≠ k ∨ ord.length ≠ k ∨ !(ord.all (· < k)) ∨ !(ord.eraseDups.length == k) then (st, "bad-annot") else
  let (st', outs) := ord.foldl (fun (acc : St × List (Nat × String)) j =>
      let c := cs.getD j ⟨0, 0, 0⟩
      let r := recs.getD j none
      match via with
      | some p =>
        let (s', res) := receive acc.1 p c r
        (s', (j, match res with | .store (.ok a) => s!"ok:{a}" | x => resStr x) :: acc.2)
      | none =>
        let (s', res) := storeOnly acc.1 c r
        (s', (j, match res with | .ok a => s!"ok:{a}" | x => storeResStr x) :: acc.2)) (st, [])
  (st', " ".intercalate ((List.range k).map fun j => ((outs.find? (·.1 == j)).map (·.2)).getD "?"))

def step (st : St) (op : List String) : St × String :=
  match op with
  | ["reg", p, a] =>
    match Driver.parseNat p, Driver.parseNat a with
    | some p, some a => (register st p a, "ok")
    | _, _ => (st, "bad-op")
  | ["recv", p, ben, rcp, cum, _signer, _mut, "|", r] =>
    match Driver.parseNat p, Driver.parseNat ben, Driver.parseNat rcp, Driver.parseNat cum, parseRec r with
    | some p, some ben, some rcp, some cum, some r =>
      let (st', res) := receive st p ⟨ben, rcp, cum⟩ r
      (st', resStr res)
    | _, _, _, _, _ => (st, "bad-op")
  | ["srecv", ben, rcp, cum, _signer, _mut, "|", r] =>
    match Driver.parseNat ben, Driver.parseNat rcp, Driver.parseNat cum, parseRec r with
    | some ben, some rcp, some cum, some r =>
      let (st', res) := storeOnly st ⟨ben, rcp, cum⟩ r
      (st', storeResStr res)
    | _, _, _, _ => (st, "bad-op")
  | ["xrecv", p, ben, rcp, cum, _oben, _orcp, _ocum, _osigner, "|", r] =>
    match Driver.parseNat p, Driver.parseNat ben, Driver.parseNat rcp, Driver.parseNat cum, parseRec r with
    | some p, some ben, some rcp, some cum, some r =>
      let (st', res) := receive st p ⟨ben, rcp, cum⟩ r
      (st', resStr res)
    | _, _, _, _, _ => (st, "bad-op")
  | ["sxrecv", ben, rcp, cum, _oben, _orcp, _ocum, _osigner, "|", r] =>
    match Driver.parseNat ben, Driver.parseNat rcp, Driver.parseNat cum, parseRec r with
    | some ben, some rcp, some cum, some r =>
      let (st', res) := storeOnly st ⟨ben, rcp, cum⟩ r
      (st', storeResStr res)
    | _, _, _, _ => (st, "bad-op")
  | "parrecv" :: via :: _k :: rest =>
    let body := rest.takeWhile (· ≠ "|")
    match rest.dropWhile (· ≠ "|") with
    | ["|", recs, ord] =>
      let via' : Option (Option Nat) := if via = "s" then some none else (Driver.parseNat via).map some
      match via', chunk5 body, parseList "rec=" recs (fun x => parseRec ("rec=" ++ x)), parseList "ord=" ord Driver.parseNat with
      | some via', some cs, some recs, some ord => parrecv st via' cs recs ord
      | _, _, _, _ => (st, "bad-op")
    | _ => (st, "bad-op")
  | ["last", p] =>
    match Driver.parseNat p with
    | some p =>
      match lastReceived st p with
      | none => (st, "empty")
      | some none => (st, "nocheque")
      | some (some c) => (st, s!"{c.ben} {c.rcp} {c.cum}")
    | none => (st, "bad-op")
  | ["cheques"] => (st, chequesStr (cheques st nAddr))
  | _ => (st, "bad-op")

def handler : Driver.Handler := { σ := St, init := init 0, step := step }

end Driver.C30
