import Aurora.Lemmas.Blocker
import Aurora.Generated.BlockerLocks
import Aurora.Lemmas.BlockerLockSet
/-!
# C26 — Unresponsive peers are blocked only after the flag timeout

Property theorems only (helpers: `Aurora/Lemmas/Blocker.lean`).  The model is
`Aurora/Model/Blocker.lean`, a transcription of `/repo/pkg/blocker/blocker.go`, tied to the Go
code by the C26 correspondence run.

Quantification: every history `ops : List Op` of `tick avail` / `flag a avail` / `unflag a` /
`prune seen` / `sweep` from the initial state, every address, every timeout `T ≥ 1` (what `New`
accepts: `flagTimeout > sequencerResolution`).  A concurrent execution is such a list because
every method body and `block()` run under `mu` and the sequence is an atomic counter (see
`notes/C26.md` for how that claim is tied).

The history side is `period T a ops` (Lemmas file): `some n` = `a` is in a flag period that has
lasted `n` available ticks; it is defined from the events alone and `C26_period_meaning` spells
it out as "there is a flag event, issued while the network was available, with no unflag /
pruning of `a` since, and `n` available ticks since".
-/
namespace Aurora.Blocker

/-- `a` is blocklisted by a sweep taken after history `ops` -/
def blocklistedAfter (T : Nat) (ops : List Op) (a : Addr) : Prop := a ∈ sweepOut (run T init ops)

/-- What an open flag period is, in events: `period = some n` iff-direction used by the property —
    the history splits as `h1 ++ [flag a (network available)] ++ h2` where no period was open
    before that flag, `h2` contains no `unflag a` and no `prune` that omits `a`, and `h2` has exactly
    `n` available ticks.  (A sweep inside `h2` did not blocklist `a`: that would have closed the
    period, see `C26_at_most_once_per_flag`.) -/
theorem C26_period_meaning (T : Nat) (ops : List Op) (a : Addr) (n : Nat)
    (h : period T a ops = some n) :
    ∃ h1 h2, ops = h1 ++ Op.flag a true :: h2 ∧ period T a h1 = none ∧
      availTicks h2 = n ∧ ∀ op ∈ h2, keeps a op := by
  rcases periodFrom_some ops none n h with ⟨m, hm, _, _⟩ | ⟨h1, h2, ho, hp, hn, hk⟩
  · simp at hm
  · exact ⟨h1, h2, ho, hp, hn.symm, hk⟩

/-- **Blocked only after the timeout**: if a sweep blocklists `a`, then `a` is in a flag period —
    a flag issued while the network was available, with no success (`unflag`), no pruning of `a`
    and no blocklisting of `a` since — and that period has lasted *more than* `T` ticks counted
    only while the network was available. -/
theorem C26_blocked_only_after_timeout (T : Nat) (hT : 0 < T) (ops : List Op) (a : Addr)
    (hb : blocklistedAfter T ops a) :
    ∃ h1 h2, ops = h1 ++ Op.flag a true :: h2 ∧ period T a h1 = none ∧
      (∀ op ∈ h2, keeps a op) ∧ T < availTicks h2 ∧ period T a ops = some (availTicks h2) := by
  have hR := rel_run (a := a) hT ops init none (rel_init T a)
  obtain ⟨n, hp, hn⟩ := (sweep_iff hT hR).mp hb
  obtain ⟨h1, h2, ho, hp1, hav, hk⟩ := C26_period_meaning T ops a n hp
  exact ⟨h1, h2, ho, hp1, hk, by omega, by rw [hav]; exact hp⟩

/-- **Eventually blocked**: a flag period that is older than `T` available ticks is blocklisted by
    the next sweep, whenever it comes. -/
theorem C26_eventually_blocked (T : Nat) (hT : 0 < T) (ops : List Op) (a : Addr) (n : Nat)
    (hp : period T a ops = some n) (hn : T < n) : blocklistedAfter T ops a := by
  have hR := rel_run (a := a) hT ops init none (rel_init T a)
  exact (sweep_iff hT hR).mpr ⟨n, hp, hn⟩

/-- … and a period that is not older than `T` is left alone (the bound is exact: at exactly `T`
    available ticks the peer is not yet blocklisted). -/
theorem C26_not_blocked_within_timeout (T : Nat) (hT : 0 < T) (ops : List Op) (a : Addr) (n : Nat)
    (hp : period T a ops = some n) (hn : n ≤ T) : ¬ blocklistedAfter T ops a := by
  have hR := rel_run (a := a) hT ops init none (rel_init T a)
  intro hb
  obtain ⟨m, hm, hlt⟩ := (sweep_iff hT hR).mp hb
  have : period T a ops = periodFrom T a none ops := rfl
  rw [this] at hp
  rw [hp] at hm
  simp only [Option.some.injEq] at hm
  omega

/-- **A peer that succeeded since it was flagged, or was pruned as unseen, is never blocklisted**:
    after `unflag a`, or a `prune` whose seen-list lacks `a`, no sweep blocklists `a` until `a` is
    flagged again while the network is available — whatever else happens, however long. -/
theorem C26_unflagged_never_blocked (T : Nat) (hT : 0 < T) (before after : List Op) (a : Addr)
    (e : Op) (he : e = Op.unflag a ∨ ∃ seen, e = Op.prune seen ∧ a ∉ seen)
    (hnf : ∀ op ∈ after, op ≠ Op.flag a true) :
    ¬ blocklistedAfter T (before ++ e :: after) a := by
  have hR := rel_run (a := a) hT (before ++ e :: after) init none (rel_init T a)
  intro hb
  obtain ⟨n, hp, _⟩ := (sweep_iff hT hR).mp hb
  rw [periodFrom_append, periodFrom_cons] at hp
  have he' : pstep T a (periodFrom T a none before) e = none := by
    rcases he with he | ⟨seen, he, hs⟩
    · subst he; simp [pstep]
    · subst he; simp [pstep, hs]
  rw [he', periodFrom_none after hnf] at hp
  simp at hp

/-- A peer that was never flagged while the network was available is never blocklisted. -/
theorem C26_never_flagged_never_blocked (T : Nat) (hT : 0 < T) (ops : List Op) (a : Addr)
    (hnf : ∀ op ∈ ops, op ≠ Op.flag a true) : ¬ blocklistedAfter T ops a := by
  have hR := rel_run (a := a) hT ops init none (rel_init T a)
  intro hb
  obtain ⟨n, hp, _⟩ := (sweep_iff hT hR).mp hb
  rw [periodFrom_none ops hnf] at hp
  simp at hp

/-- **At most one blocklisting per flag period**: once a sweep has blocklisted `a`, no later sweep
    blocklists `a` again unless `a` is flagged anew (while the network is available); and one sweep
    never blocklists the same address twice. -/
theorem C26_at_most_once_per_flag (T : Nat) (hT : 0 < T) (before after : List Op) (a : Addr)
    (hb : blocklistedAfter T before a)
    (hnf : ∀ op ∈ after, op ≠ Op.flag a true) :
    ¬ blocklistedAfter T (before ++ Op.sweep :: after) a ∧
    (sweepOut (run T init before)).Nodup := by
  constructor
  · have hR0 := rel_run (a := a) hT before init none (rel_init T a)
    obtain ⟨n, hp0, hn⟩ := (sweep_iff hT hR0).mp hb
    have hR := rel_run (a := a) hT (before ++ Op.sweep :: after) init none (rel_init T a)
    intro hb'
    obtain ⟨m, hp, _⟩ := (sweep_iff hT hR).mp hb'
    rw [periodFrom_append, periodFrom_cons, hp0] at hp
    have : pstep T a (some n) Op.sweep = none := by simp [pstep, hn]
    rw [this, periodFrom_none after hnf] at hp
    simp at hp
  · have := keys_run_nodup T before init (by simp [init])
    exact (List.filter_sublist.map Prod.fst).nodup this

/-- **Lock discipline (facts regenerated from /repo/pkg/blocker on every run).**  Every syntactic
    access to the flag table `peers` — in `Flag`, `Unflag`, `PruneUnseen`, `block` — happens with
    `mu` held; there is no mutex call in a shape the extractor does not understand; `sequence` is
    only touched through its atomic methods `Load` and `Inc`; the only `Inc` is the sequencer
    closure of `New`, and that closure is exactly "increment iff the network is available".
    Hence each method body is one critical section on `peers`, and (Go mutex semantics, assumed)
    any concurrent execution is equivalent to a list of the atomic `Op`s of the model. -/
theorem C26_lock_discipline :
    (∀ x ∈ Generated.BlockerLocks.accesses, x.field = "peers" → x.locked = true) ∧
    (∀ x ∈ Generated.BlockerLocks.accesses, x.field ≠ "mu") ∧
    (∀ x ∈ Generated.BlockerLocks.accesses, x.field = "sequence" →
        x.how = "Load" ∨ (x.how = "Inc" ∧ x.fn = "New.func1")) ∧
    (∃ x ∈ Generated.BlockerLocks.accesses, x.field = "peers") ∧
    Generated.BlockerLocks.tickGuarded = true := by
  decide

/-- **Static obligation: the sweep blocklists inside its critical section** (by evaluation of the
    regenerated table).  The model's `sweep` step decides "expired" and blocklists in ONE atomic step, and
    `unflag` is another whole step — so "a peer that succeeded since it was flagged is never blocklisted"
    needs that in the code no `Unflag` can run between the expiry test and the `Blocklist` call: every
    `b.blocklister.Blocklist(…)` call is made in `block` with `mu` held (the same region as the reads of
    `peers` and `sequence`, by `C26_lock_discipline`), and such a call exists.  The seeded change C26-3
    (collect the expired peers under the lock, blocklist them after releasing it) yields a row
    `⟨"block", "blocklister", "Blocklist", false⟩` and this fails. -/
theorem C26_blocklist_inside_sweep_region :
    (∀ x ∈ Generated.BlockerLocks.accesses, x.field = "blocklister" → x.locked = true ∧ x.fn = "block") ∧
    (∃ x ∈ Generated.BlockerLocks.accesses, x.field = "blocklister" ∧ x.how = "Blocklist") := by
  decide

/-- **Mutual exclusion on the flag table**, from the regenerated table and the lock-set lemma
    (`Lemmas/BlockerLockSet.lean`): in the abstract program whose threads execute the extracted
    accesses in the lock state the extractor recorded, acquire `mu` only when it is free and never
    lock/unlock in the middle of an access, no reachable configuration has two threads inside
    `peers` accesses at once.  So the bodies of `Flag`/`Unflag`/`PruneUnseen`/`block` exclude one
    another: a concurrent execution is an interleaving of whole method bodies, i.e. a `List Op`.
    (That Go's `sync.Mutex` realises `acquire`/`release` is the assumed part.) -/
theorem C26_no_race_on_peers {c : LockSet.Cfg}
    (h : LockSet.Reach Generated.BlockerLocks.accesses c) : ¬ LockSet.Race c :=
  LockSet.no_race C26_lock_discipline.1 h

/-! ### non-vacuity -/

/-- timeout 2: flagged, 2 available ticks → not yet; the unavailable tick does not count; the
    third available tick → blocklisted, exactly once -/
example : sweepOut (run 2 init [.flag "aa" true, .tick true, .tick true, .tick false]) = [] ∧
    sweepOut (run 2 init [.flag "aa" true, .tick true, .tick true, .tick false, .tick true]) = ["aa"] ∧
    sweepOut (run 2 init [.flag "aa" true, .tick true, .tick true, .tick true, .sweep]) = [] := by
  decide

example : period 2 "aa" [.flag "aa" true, .tick true, .tick true, .tick false, .tick true] = some 3 := by
  decide

/-- a flag issued while the network is unavailable opens no period -/
example : period 1 "aa" [.flag "aa" false, .tick true, .tick true, .tick true] = none := by decide

end Aurora.Blocker
