import Driver.Util
import Aurora.Model.TrafficPersist
/-! Driver for C33: the coarse persistence model (start / release / restart events). -/
namespace Driver.C33
open Aurora.TrafficPersist

def nPeer : Nat := 6
def nAddr : Nat := 8

def parseDir (s : String) : Option Dir :=
  if s = "r" then some .retrieve else if s = "t" then some .transfer else none

def step (n : Node) (op : List String) : Node × String :=
  match op with
  | ["reg", p, a] =>
    match Driver.parseNat p, Driver.parseNat a with
    | some p, some a =>
      if p < nPeer ∧ a < nAddr then ({ n with fwd := upd n.fwd p (some a), sFwd := upd n.sFwd p (some a) }, "ok") else (n, "bad-op")
    | _, _ => (n, "bad-op")
  | ["start", t, p, d, amt] =>
    match Driver.parseNat t, Driver.parseNat p, parseDir d, Driver.parseNat amt with
    | some t, some p, some d, some amt =>
      if t < 16 ∧ p < nPeer then
        let (n', o) := n.start t p d amt
        (n', match o with
          | .nocheque => "done nocheque"
          | .busy => "busy"
          | .parked v => s!"parked {v}"
          | .blocked => "blocked")
      else (n, "bad-op")
    | _, _, _, _ => (n, "bad-op")
  | ["release", t] =>
    match Driver.parseNat t with
    | some t =>
      let (n', o) := n.release t
      (n', match o with
        | .notparked => "notparked"
        | .ok => "ok"
        | .woke u v => s!"ok woke={u}:{v}")
    | none => (n, "bad-op")
  | ["refresh", p, d, amt] =>
    match Driver.parseNat p, parseDir d, Driver.parseNat amt with
    | some p, some d, some amt =>
      if p < nPeer then
        if !n.active.isEmpty then (n, "busy") else
        match n.fwd p with
        | none => (n, "nocheque")
        | some a =>
          let (n', touched) := n.refreshUpdate a d amt
          (n', s!"ok upd={if touched then "blocked" else "seq"} mem={n'.memR a}/{n'.memT a} st={(n'.stR a).getD 0}/{(n'.stT a).getD 0}")
      else (n, "bad-op")
    | _, _, _ => (n, "bad-op")
  | ["restart"] => (n.restart, "ok")
  | ["get", p] =>
    match Driver.parseNat p with
    | some p =>
      if p < nPeer then
        match n.fwd p with
        | none => (n, "nocheque")
        | some a =>
          if n.busyAddr a then (n, "busy")
          else (n, s!"mem={n.memR a}/{n.memT a} st={(n.stR a).getD 0}/{(n.stT a).getD 0}")
      else (n, "bad-op")
    | none => (n, "bad-op")
  | ["pay", p] =>
    match Driver.parseNat p with
    | some p =>
      if p < nPeer then
        match n.fwd p with
        | none => (n, "unknown")
        | some a =>
          if n.busyAddr a then (n, "busy") else
          match n.pay p with
          | none => (n, "unknown")
          | some (n', none) => (n', "below")
          | some (n', some c) => (n', s!"ok {c}")
      else (n, "bad-op")
    | none => (n, "bad-op")
  | ["hs", p, c] =>
    match Driver.parseNat p, Driver.parseNat c with
    | some p, some c =>
      if p < nPeer then
        match n.fwd p with
        | none => (n, "unknown")
        | some a =>
          if n.busyAddr a then (n, "busy") else
          match n.handshake p c with
          | none => (n, "unknown")
          | some n' => (n', "ok")
      else (n, "bad-op")
    | _, _ => (n, "bad-op")
  | ["lastsent", p] =>
    match Driver.parseNat p with
    | some p =>
      if p < nPeer then
        match n.fwd p with
        | none => (n, "nocheque")
        | some a => match n.sLast a with
          | none => (n, "nocheque")
          | some c => (n, toString c)
      else (n, "bad-op")
    | none => (n, "bad-op")
  | _ => (n, "bad-op")

def handler : Driver.Handler := { σ := Node, init := Node.init, step := step }

end Driver.C33
