import Driver.Util
import Aurora.Model.Group
import Aurora.Model.Flood
/-! Driver for C38: one multicast `Service` (node 0 = self) with its groups, the fake
    `IsNeighbor` table, the two de-duplication sets.  See notes/C38.md for the op language. -/
namespace Driver.C38
open Aurora.Group Aurora.Flood

structure St where
  node : Node := { self := 0 }
  nbr  : List Nat := []

def peersStr (l : List Nat) : String :=
  if l.isEmpty then "-" else ",".intercalate (l.map toString)

def parseBool (s : String) : Option Bool :=
  if s = "1" then some true else if s = "0" then some false else none

def parseGType (s : String) : Option GType :=
  if s = "join" then some .join else if s = "observe" then some .observe
  else if s = "known" then some .known else none

def parseOrigin (s : String) : Option (Option Nat) :=
  if s = "-" then some none else (Driver.parseNat s).map some

def parseNats (l : List String) : Option (List Nat) := l.mapM Driver.parseNat

/-- split an op line at the annotation bar -/
def splitBar (l : List String) : List String × List String :=
  (l.takeWhile (· ≠ "|"), (l.dropWhile (· ≠ "|")).drop 1)

def sendsStr (st : St) (sends : List (Nat × Msg)) : String :=
  if sends.isEmpty then "-" else
  ",".intercalate (sends.map (fun s => toString s.1 ++ (if st.nbr.contains s.1 then "" else "r")))

/-- every forwarded copy carries the (stamped) origin, id and gid -/
def sameMsg (o : Out) (gid : Nat) : Bool :=
  o.sends.all (fun s => s.2.key == o.key && s.2.gid == gid)

def outStr (st : St) (o : Out) (gid : Nat) : String :=
  s!"notified={Driver.boolStr o.notified} fwd={Driver.boolStr o.forwarded} id={if o.forwarded then toString o.key.2 else "-"} sends={sendsStr st o.sends}" ++
    (if sameMsg o gid then "" else " BAD-COPY")

def withGroup (st : St) (gid : Nat) (k : GroupEntry → St × String) : St × String :=
  match getGroup st.node gid with
  | none => (st, "nogroup")
  | some ge => k ge

def step (st : St) (line : List String) : St × String :=
  let (op, ann) := splitBar line
  match op with
  | ["group", g, t] =>
    match Driver.parseNat g, parseGType t with
    | some g, some t => ({ st with node := setGroup st.node g t }, "ok")
    | _, _ => (st, "bad-op")
  | ["sub", g, b] =>
    match Driver.parseNat g, parseBool b with
    | some g, some b => withGroup st g fun _ =>
        ({ st with node := updGroup st.node g (fun ge => { ge with sub := b }) }, "ok")
    | _, _ => (st, "bad-op")
  | ["nbr", p, b] =>
    match Driver.parseNat p, parseBool b with
    | some p, some b =>
      ({ st with nbr := if b then (if st.nbr.contains p then st.nbr else p :: st.nbr) else st.nbr.filter (· ≠ p) }, "ok")
    | _, _ => (st, "bad-op")
  | ["add", g, p, k] =>
    match Driver.parseNat g, Driver.parseNat p, parseBool k with
    | some g, some p, some k => withGroup st g fun _ =>
        ({ st with node := updGroup st.node g (fun ge => { ge with g := (add ge.g p k (st.nbr.contains p)).1 }) }, "ok")
    | _, _, _ => (st, "bad-op")
  | ["remove", g, p, k] =>
    match Driver.parseNat g, Driver.parseNat p, parseBool k with
    | some g, some p, some k => withGroup st g fun _ =>
        ({ st with node := updGroup st.node g (fun ge => { ge with g := (remove ge.g p k).1 }) }, "ok")
    | _, _, _ => (st, "bad-op")
  | ["prune", g] =>
    match Driver.parseNat g with
    | some g => withGroup st g fun _ =>
        ({ st with node := updGroup st.node g (fun ge => { ge with g := pruneKnown ge.g }) }, "ok")
    | none => (st, "bad-op")
  | ["lists", g] =>
    match Driver.parseNat g with
    | some g => withGroup st g fun ge =>
        (st, s!"c={peersStr ge.g.connected} k={peersStr ge.g.kept} n={peersStr ge.g.known}")
    | none => (st, "bad-op")
  | ["seen", o, i] =>
    match parseOrigin o, Driver.parseNat i with
    | some o, some i =>
      (st, s!"on={Driver.boolStr (st.node.seenOn.contains (o, i))} mc={Driver.boolStr (st.node.seenMc.contains (o, i))}")
    | _, _ => (st, "bad-op")
  | ["on", f, o, i, g] =>
    match Driver.parseNat f, parseOrigin o, Driver.parseNat i, Driver.parseNat g with
    | some f, some o, some i, some g =>
      let fb := match ann with
        | "fb" :: rest => parseNats rest
        | [] => some []
        | _ => none
      match fb with
      | none => (st, "bad-annotation")
      | some fb =>
        -- the oracle is consulted only on the `g == nil` path; it must be admissible there
        if (getGroup st.node g).isNone && !(fallbackOK st.node [f] fb) then (st, "inadmissible")
        else
          let r := onMulticast st.node { origin := o, id := i, gid := g } f fb
          ({ st with node := r.node }, outStr st r g)
    | _, _, _, _ => (st, "bad-op")
  | ["race", f, o, i, g] =>
    -- the same wire message to several concurrent handlers: with an atomic de-duplication check
    -- exactly one of them behaves like `on`, the others are no-ops; sends are not compared
    -- (they depend on which sender won), the state afterwards does not depend on the winner.
    match Driver.parseNat f, parseOrigin o, Driver.parseNat i, Driver.parseNat g with
    | some f, some o, some i, some g =>
      let r := onMulticast st.node { origin := o, id := i, gid := g } f []
      ({ st with node := r.node }, "ok")
    | _, _, _, _ => (st, "bad-op")
  | "mc" :: o :: i :: g :: skip =>
    match parseOrigin o, Driver.parseNat i, Driver.parseNat g, parseNats skip with
    | some o, some i, some g, some skip =>
      let fb := match ann with
        | "fb" :: rest => parseNats rest
        | [] => some []
        | _ => none
      match fb with
      | none => (st, "bad-annotation")
      | some fb =>
        if (getGroup st.node g).isNone && !(fallbackOK st.node skip fb) then (st, "inadmissible")
        else
          let r := multicast st.node { origin := o, id := i, gid := g } skip fb
          ({ st with node := r.node }, outStr st r g)
    | _, _, _, _ => (st, "bad-op")
  | _ => (st, "bad-op")

/-- `v/h1,h2/a1,a2` (`-` = empty list) -/
def parseList (s : String) : Option (List Nat) :=
  if s = "-" then some [] else (s.splitOn ",").mapM Driver.parseNat

def parseSeg (s : String) : Option Seg :=
  match s.splitOn "/" with
  | [v, h, a] =>
    match Driver.parseNat v, parseList h, parseList a with
    | some v, some h, some a => some { v := v, hs := h, ans := a }
    | _, _, _ => none
  | _ => none

/-- `find g kp seg…` — one discovery round (`Group.doFind`): `asked=v:limit,… c=… k=… n=…` -/
def findStep (st : St) (g kp : Nat) (script : List Seg) : St × String :=
  withGroup st g fun ge =>
    let nbr := fun p => st.nbr.contains p
    let r := doFind kp script nbr ge.g
    let g' := applyAll ge.g r.2
    let asked := if r.1.isEmpty then "-" else ",".intercalate (r.1.map (fun a => s!"{a.v}:{a.lim}"))
    ({ st with node := updGroup st.node g (fun ge => { ge with g := g' }) },
      s!"asked={asked} c={peersStr g'.connected} k={peersStr g'.kept} n={peersStr g'.known}")

/-- `burst f o base n g f2` — `n` distinct messages `(o, base … base+n-1)` for gid `g` from neighbour
    `f`, then (within the window) a duplicate of the first one from `f2`:
    `notified=<count> fwd=<count> dup=<notified><fwd>` -/
def burstStep (st : St) (f : Nat) (o : Option Nat) (base n g f2 : Nat) : St × String :=
  withGroup st g fun _ =>
    let run := (List.range n).foldl (fun (acc : Node × Nat × Nat) i =>
      let r := onMulticast acc.1 { origin := o, id := base + i, gid := g } f []
      (r.node, acc.2.1 + (if r.notified then 1 else 0), acc.2.2 + (if r.forwarded then 1 else 0)))
      (st.node, 0, 0)
    let d := onMulticast run.1 { origin := o, id := base, gid := g } f2 []
    ({ st with node := d.node },
      s!"notified={run.2.1} fwd={run.2.2} dup={Driver.boolStr d.notified}{Driver.boolStr d.forwarded}")

def step' (st : St) (line : List String) : St × String :=
  let (op, _) := splitBar line
  match op with
  | "find" :: g :: kp :: segs =>
    match Driver.parseNat g, Driver.parseNat kp, segs.mapM parseSeg with
    | some g, some kp, some script => findStep st g kp script
    | _, _, _ => (st, "bad-op")
  | ["burst", f, o, base, n, g, f2] =>
    match Driver.parseNat f, parseOrigin o, Driver.parseNat base, Driver.parseNat n, Driver.parseNat g, Driver.parseNat f2 with
    | some f, some (some o), some base, some n, some g, some f2 =>
      if n = 0 ∨ n > 5000 then (st, "bad-op") else burstStep st f (some o) base n g f2
    | _, _, _, _, _, _ => (st, "bad-op")
  | _ => step st line

def handler : Driver.Handler := { σ := St, init := {}, step := step' }

end Driver.C38
