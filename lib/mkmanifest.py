#!/usr/bin/env python3
"""Generate MANIFEST.json from checks/Cxx.json fragments + checks/_not_applicable.json. --check validates only."""
import json, glob, os, sys
root = os.path.dirname(os.path.dirname(os.path.abspath(__file__)))
frs = [json.load(open(p)) for p in sorted(glob.glob(root + "/checks/C*.json"))]
props = [json.loads(l)["id"] for l in open(root + "/properties.jsonl")]
na = json.load(open(root + "/checks/_not_applicable.json")) if os.path.exists(root + "/checks/_not_applicable.json") else []
hooks = json.load(open(root + "/checks/_hooks.json"))
claimed = {f["property_id"] for f in frs}
na = [x for x in na if x["property_id"] not in claimed]
missing = [p for p in props if p not in claimed and p not in {x["property_id"] for x in na}]
for p in missing:
    na.append({"property_id": p, "reason": "not yet claimed: model/theorems/correspondence for this property are not built in this revision (see DESIGN.md §6 for the plan); no check is registered rather than an unproved one"})
m = {
    "version": 1,
    "setup_cmd": "./setup",
    "hooks": hooks,
    "engines": [{"name": "lean-proof+correspondence", "path": "check", "serves_properties": sorted(claimed),
                 "kind_free_text": "Lean 4 theorems about hand-written executable models (lean/Aurora), tied to /repo by a differential correspondence run (harness/ Go module with replace => /repo; lean/Driver line-protocol executable) and regenerated constants (harness/cmd/extract)"}],
    "checks": [{
        "property_id": f["property_id"],
        "quick_cmd": f"./check {f['property_id']} --tier quick",
        "thorough_cmd": f"./check {f['property_id']} --tier thorough",
        "evidence_file": f"/verif/evidence/{f['property_id']}.json",
        "replay_cmd_template": f"./check {f['property_id']} --replay {{path}}",
        "engine": "lean-proof+correspondence",
        "level_claimed": {"category": f.get("level", "proof"), "text": f["level_text"], "design_ref": f.get("design_ref", "")},
        "level_note": f["level_note"],
        "technique": f["technique"],
    } for f in frs],
    "notes": "Every check rebuilds the harness from /repo's working tree (go build with replace => /repo, -tags verif) and re-extracts generated constants before building the Lean theorems. known-findings.txt lists recorded defects; see DESIGN.md.",
    "not_applicable": na,
}
out = json.dumps(m, indent=1) + "\n"
p = root + "/MANIFEST.json"
if "--check" in sys.argv:
    cur = open(p).read() if os.path.exists(p) else ""
    if cur != out:
        print("MANIFEST.json is stale; run lib/mkmanifest.py", file=sys.stderr)
    sys.exit(0)
open(p, "w").write(out)
try:
    import jsonschema
    jsonschema.validate(m, json.load(open("/root/.vp/MANIFEST.schema.json")))
    print("MANIFEST.json valid:", len(m["checks"]), "checks,", len(na), "not_applicable")
except ImportError:
    print("MANIFEST.json written (jsonschema not available)")
