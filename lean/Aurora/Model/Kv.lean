/-
Shared storage model (DESIGN §6 "Shared storage models"): the ordered key/value store that
/repo/pkg/shed/leveldb (goleveldb) offers to shed, localstore and the state store.

* keys and values are byte strings (`List UInt8`), keys ordered lexicographically (`blt`),
  which is goleveldb's default `bytes.Compare` comparer;
* a store is an association list kept strictly ascending by key (`put` inserts in place);
* a batch is a list of writes applied atomically, in order, by `commit`; reads go to the store
  and never see uncommitted batch writes;
* a cursor is a snapshot zipper with goleveldb's `dbIter` semantics: `seek k` positions on the
  first key `≥ k` (else end-of-input), `next`/`prev` move one entry, `prev` at end-of-input goes
  to the last entry, `next` at start-of-input goes to the first one, `last` goes to the last
  entry; `valid` is false at start/end-of-input, where `key`/`value` read as empty (Go: nil).

Core Lean only.  The refinement lemmas to the sorted-map specification are in
`Aurora/Lemmas/Kv.lean`.
-/
namespace Aurora.Kv

abbrev Bytes := List UInt8
abbrev Entry := Bytes × Bytes
/-- association list; the operations below keep it strictly ascending by key (`Lemmas/Kv`) -/
abbrev Store := List Entry

/-- strict lexicographic order on byte strings (`bytes.Compare a b < 0`) -/
def blt : Bytes → Bytes → Bool
  | [], [] => false
  | [], _ :: _ => true
  | _ :: _, [] => false
  | a :: as, b :: bs =>
    if a.toNat < b.toNat then true else if b.toNat < a.toNat then false else blt as bs

/-- `bytes.Compare a b ≤ 0` -/
def ble (a b : Bytes) : Bool := !blt b a

/-- `bytes.HasPrefix k p` -/
def hasPrefix : Bytes → Bytes → Bool
  | _, [] => true
  | [], _ :: _ => false
  | a :: as, b :: bs => a == b && hasPrefix as bs

/-- shed's `bytesIncrement` = goleveldb's `util.BytesPrefix(p).Limit`: increment the last byte
    that is not 0xff and truncate after it; `none` (Go: nil) when every byte is 0xff. -/
def bytesIncrement : Bytes → Option Bytes
  | [] => none
  | b :: rest =>
    match bytesIncrement rest with
    | some r => some (b :: r)
    | none => if b.toNat = 255 then none else some [b + 1]

/-! ### point operations -/

def get : Store → Bytes → Option Bytes
  | [], _ => none
  | (k', v) :: r, k => if k' = k then some v else get r k

def has (s : Store) (k : Bytes) : Bool := (get s k).isSome

def put : Store → Bytes → Bytes → Store
  | [], k, v => [(k, v)]
  | (k', v') :: r, k, v =>
    if blt k k' then (k, v) :: (k', v') :: r
    else if k = k' then (k, v) :: r
    else (k', v') :: put r k v

def delete : Store → Bytes → Store
  | [], _ => []
  | (k', v') :: r, k => if k' = k then r else (k', v') :: delete r k

/-! ### batches -/

inductive Write where
  | put (k v : Bytes)
  | del (k : Bytes)
deriving Repr, DecidableEq

def applyWrite (s : Store) : Write → Store
  | .put k v => put s k v
  | .del k => delete s k

/-- `Batch.Commit`: all writes, in the order they were added, as one step. -/
def commit (s : Store) (b : List Write) : Store := b.foldl applyWrite s

/-! ### cursor (snapshot iterator) -/

/-- `left`: entries before the current one, nearest first; `right`: the current entry (head) and
    everything after it; `right = []` is end-of-input; `soi` is start-of-input (reached by `prev`
    on the first entry or `last` on an empty store), then `left = []` and `right` = all entries. -/
structure Cursor where
  left : List Entry
  right : List Entry
  soi : Bool
deriving Repr, DecidableEq

def Cursor.valid (c : Cursor) : Bool := !c.soi && !c.right.isEmpty

def Cursor.key (c : Cursor) : Bytes :=
  if c.soi then [] else match c.right with | [] => [] | e :: _ => e.1

def Cursor.value (c : Cursor) : Bytes :=
  if c.soi then [] else match c.right with | [] => [] | e :: _ => e.2

/-- `NewIterator(nil)` + `Seek(k)` -/
def seek (s : Store) (k : Bytes) : Cursor :=
  { left := (s.takeWhile (fun e => blt e.1 k)).reverse,
    right := s.dropWhile (fun e => blt e.1 k), soi := false }

/-- `Seek(k)` on an existing cursor: same snapshot, new position -/
def Cursor.all (c : Cursor) : Store := c.left.reverse ++ c.right

def Cursor.seek (c : Cursor) (k : Bytes) : Cursor := Kv.seek c.all k

def Cursor.next (c : Cursor) : Cursor :=
  if c.soi then { c with soi := false }
  else match c.right with
    | [] => c
    | e :: r => { left := e :: c.left, right := r, soi := false }

def Cursor.prev (c : Cursor) : Cursor :=
  if c.soi then c
  else match c.left with
    | [] => { c with soi := true }
    | e :: l => { left := l, right := e :: c.right, soi := false }

def Cursor.last (c : Cursor) : Cursor :=
  match c.all.reverse with
  | [] => { left := [], right := [], soi := true }
  | e :: l => { left := l, right := [e], soi := false }

/-- entries visited by `for ok := it.Valid(); ok; ok = it.Next()` (current one first) -/
def Cursor.fwdList (c : Cursor) : List Entry := if c.soi then [] else c.right

/-- entries visited by `for ok := it.Valid(); ok; ok = it.Prev()` (current one first) -/
def Cursor.bwdList (c : Cursor) : List Entry :=
  if c.soi then [] else match c.right with | [] => [] | e :: _ => e :: c.left

/-! ### iteration callbacks

Every iterating API of the code (`StateStorer.Iterate`, `shed.Index.Iterate`) calls a user
function per entry that answers `(stop bool, err error)`; the error is tested first.  A callback
is modelled as an arbitrary function of the entries visited so far and the current entry. -/

inductive Act where
  | cont      -- (false, nil)
  | stop      -- (true, nil)
  | err       -- (false, e)
  | stopErr   -- (true, e)
deriving Repr, DecidableEq

inductive Res where
  | ok      -- nil
  | cberr   -- the callback's error
  | err     -- another error
deriving Repr, DecidableEq

abbrev Callback := List Entry → Entry → Act

/-- `for … { stop, err := fn(item); if err != nil { return err }; if stop { break } }; return nil`
    over the entries `l` the cursor would yield; returns the visited entries and the result. -/
def drive (cb : Callback) : List Entry → List Entry → List Entry × Res
  | vis, [] => (vis, .ok)
  | vis, e :: r =>
    match cb vis e with
    | .cont => drive cb (vis ++ [e]) r
    | .stop => (vis ++ [e], .ok)
    | .err => (vis ++ [e], .cberr)
    | .stopErr => (vis ++ [e], .cberr)

end Aurora.Kv
