import Aurora.Lemmas.Upload
import Aurora.Lemmas.SpecTree
import Aurora.Lemmas.Joiner
import Aurora.Lemmas.UploadPuts
import Aurora.Lemmas.EncStored
/-!
# C01 — Uploaded content reads back byte-identical

Models: `Model/Feeder.lean`, `Model/HashTrie.lean` (plain pipeline `upload`), `Model/Tree.lean`
(file trees, `WF`), `Model/Joiner.lean` (`New`, `ReadAt`, `Read`, `Seek` over
`decryptingStore.Get`).  For every chunk reference function `cref` with fixed output length `R`,
chunk size `C`, branching `B = C / R ≥ 2`, every content and every segmentation of the writes
(below the writer's 8-level limit, as in C02).

What is proved (plain mode, end to end): the upload returns the reference of a *well-formed* tree
whose leaves concatenate to the written bytes and every chunk of which was `Put`, for every
segmentation (`C01_upload_builds_tree`, `C01_segmentation_irrelevant`); if no two different chunks
written share an address (collision freedom, a premise — `NoColl`), a store answering from those
Puts satisfies `Stored` for that tree (`C01_upload_then_stored`); and on ANY well-formed tree whose
chunks the store returns, opening reports the content length and `ReadAt` / `Read` / `Seek`
sequences behave as a cursor over the content (`C01_open_size`, `C01_readAt_exact`,
`C01_read_seek_sequence`).

Encrypted mode (second part of this file, `namespace Aurora.EncUpload`): the encrypted pipeline
`Model/EncUpload.lean` (feeder → encryption → bmt → store → hashtrie with 64-byte references; keys
and padding bytes are oracle values indexed by the position of the chunk) builds, for every
content, segmentation and oracle, a well-formed *decorated* tree over the written bytes, `Put`s the
encrypted chunk of every node and returns the tree's reference `address ‖ key`
(`C01_enc_upload_builds_tree`); for the repository's constants (chunk and padding size 262144,
branching 4096, 64-byte references), admissible draws (32-byte keys, padding up to `ChunkSize`), a
keystream hash with digests of at least 32 bytes, 32-byte addresses and collision freedom on the
chunks written, the decrypting getter over the upload's Puts returns every plain chunk of that tree
(`C01_enc_upload_then_stored`, from C08's theorems), and on any such tree opening reports the
content length and `ReadAt` / `Read` / `Seek` sequences behave as a cursor over the content
(`C01_enc_open_size`, `C01_enc_readAt_exact`, `C01_enc_read_seek_sequence`), end to end in
`C01_enc_upload_read_back`.  `C01_decrypting_get` (abstract `enc`/`dec`) is kept.
-/
namespace Aurora.Joiner
open Aurora.Bmt (Bytes)
open Aurora.Tree Aurora.HashTrie

variable (cref : Bytes → Bytes → Bytes)

/-- **The upload builds a well-formed tree over the written bytes, stores all its chunks and
    returns its reference**, for every segmentation (below the writer's 8-level limit). -/
theorem C01_upload_builds_tree (C B : Nat) (hC : 0 < C) (hB : 2 ≤ B) (segs : List Bytes)
    (hlim : (leafData C segs.flatten).length < B ^ 7) :
    ∃ t h, specTree C B segs.flatten = some t ∧ WF C B h t ∧ t.flat = segs.flatten ∧
      t.size = segs.flatten.length ∧ (upload cref C B segs).2 = some (t.ref cref) ∧
      ∀ c ∈ t.chunks cref, c ∈ (upload cref C B segs).1.puts := by
  obtain ⟨t, ht, hroot, hputs⟩ := upload_puts_tree cref C B hC hB segs hlim
  obtain ⟨t', ht', ⟨h, hw⟩, hflat⟩ := specTree_WF C B hC hB segs.flatten
  rw [ht] at ht'; injection ht' with ht'; subst ht'
  refine ⟨t, h, ht, hw, hflat, ?_, hroot, hputs⟩
  rw [← (WF_flat_size C B (by omega) h t hw).1, hflat]

/-- a chunk store answering from a Put log (first Put of an address wins) -/
def lookupPuts (puts : List (Bytes × Bytes)) (a : Bytes) : Option Bytes :=
  match puts with
  | [] => none
  | (a', d) :: rest => if a' = a then some d else lookupPuts rest a

/-- collision freedom on the chunks written: one address, one content -/
def NoColl (puts : List (Bytes × Bytes)) : Prop :=
  ∀ a d₁ d₂, (a, d₁) ∈ puts → (a, d₂) ∈ puts → d₁ = d₂

theorem lookupPuts_mem (puts : List (Bytes × Bytes)) (hn : NoColl puts) (a d : Bytes) (hm : (a, d) ∈ puts) :
    lookupPuts puts a = some d := by
  induction puts with
  | nil => simp at hm
  | cons x rest ih =>
    obtain ⟨a', d'⟩ := x
    simp only [lookupPuts]
    by_cases h : a' = a
    · subst h
      simp only [↓reduceIte]
      rw [hn a' d' d (by simp) hm]
    · simp only [h, ↓reduceIte]
      apply ih
      · intro b e1 e2 h1 h2; exact hn b e1 e2 (by simp [h1]) (by simp [h2])
      · rcases List.mem_cons.mp hm with h1 | h1
        · injection h1 with h2 _; exact absurd h2.symm h
        · exact h1

mutual
theorem chunks_addr_len (hR : ∀ s p, (cref s p).length = 32) : ∀ (t : T), ∀ x ∈ t.chunks cref, x.1.length = 32
  | .leaf d, x, hx => by
    simp only [T.chunks, List.mem_singleton] at hx; subst hx; exact hR _ _
  | .node s ks, x, hx => by
    rw [T.chunks] at hx
    rcases List.mem_cons.mp hx with h1 | h1
    · subst h1; exact hR _ _
    · exact chunksL_addr_len hR ks x h1
theorem chunksL_addr_len (hR : ∀ s p, (cref s p).length = 32) : ∀ (ks : List T), ∀ x ∈ chunksL cref ks, x.1.length = 32
  | [], x, hx => by simp [chunksL] at hx
  | t :: ts, x, hx => by
    rw [chunksL] at hx
    rcases List.mem_append.mp hx with h1 | h1
    · exact chunks_addr_len hR t x h1
    · exact chunksL_addr_len hR ts x h1
end

/-- **Upload, then every read theorem applies**: under collision freedom of the chunk hash on the
    chunks written (`NoColl`, a premise), 32-byte references and the reader's branching derivation
    `C / 32 = B`, the decrypting store over the upload's Puts satisfies `Stored` for the uploaded
    tree — so `C01_open_size`, `C01_readAt_exact`, `C01_read_seek_sequence` and all of C07 hold for
    the reference the upload returned. -/
theorem C01_upload_then_stored (C B : Nat) (hC : 0 < C) (hB : 2 ≤ B) (segs : List Bytes)
    (hlim : (leafData C segs.flatten).length < B ^ 7) (dec : Bytes → Bytes → Bytes)
    (hR : ∀ s p, (cref s p).length = 32) (hBR : C / 32 = B) (hsmall : segs.flatten.length < 2 ^ 64)
    (hn : NoColl (upload cref C B segs).1.puts) :
    ∃ t h, (upload cref C B segs).2 = some (t.ref cref) ∧ t.flat = segs.flatten ∧
      Stored cref (storeGet (lookupPuts (upload cref C B segs).1.puts) dec 32) C B 32 h t := by
  obtain ⟨t, h, _, hw, hflat, hsize, hroot, hputs⟩ := C01_upload_builds_tree cref C B hC hB segs hlim
  refine ⟨t, h, hroot, hflat, ⟨hR, by decide, hBR, hB, hC, hw, by rw [hsize]; exact hsmall, ?_⟩⟩
  intro x hx
  obtain ⟨a, d⟩ := x
  have hm := hputs (a, d) hx
  have hlen : a.length = 32 := chunks_addr_len cref hR t (a, d) hx
  unfold storeGet
  simp only [hlen, ↓reduceIte]
  rw [lookupPuts_mem _ hn a d hm]

/-- two segmentations of the same bytes build the same tree and return the same reference -/
theorem C01_segmentation_irrelevant (C B : Nat) (hC : 0 < C) (hB : 2 ≤ B) (segs₁ segs₂ : List Bytes)
    (hsame : segs₁.flatten = segs₂.flatten) (hlim : (leafData C segs₁.flatten).length < B ^ 7) :
    specTree C B segs₁.flatten = specTree C B segs₂.flatten ∧
    (upload cref C B segs₁).2 = (upload cref C B segs₂).2 := by
  refine ⟨by rw [hsame], ?_⟩
  rw [upload_eq_spec cref C B hC hB segs₁ hlim, upload_eq_spec cref C B hC hB segs₂ (hsame ▸ hlim), hsame]

variable (get : Bytes → Except Err Bytes) (C B R : Nat)

/-- **Opening by the reference reports the content length** -/
theorem C01_open_size (h : Nat) (t : T) (S : Stored cref get C B R h t) :
    ∃ j, new get (t.ref cref) = .ok j ∧ j.size = t.flat.length ∧ j = jOf cref R t 0 := by
  refine ⟨_, new_spec cref get t S.small S.holds, ?_, ?_⟩
  · simp only [J.size]
    exact (WF_flat_size C B (by have := S.b2; omega) h t S.wf).1.symm
  · simp only [jOf, T.ref_length cref R S.refLen t]

/-- **Reads at arbitrary offsets return exactly the corresponding bytes**: `n = min len (size-off)`
    bytes equal to `content[off, off+n)`; EOF iff `off ≥ size`. -/
theorem C01_readAt_exact (h : Nat) (t : T) (S : Stored cref get C B R h t) (fuel : Nat) (hf : h + 1 ≤ fuel)
    (o len : Nat) (mem : Bytes) (off : Nat) (hcap : len ≤ mem.length) :
    let r := (jOf cref R t o).readAt get C fuel len mem off
    r.mem.take r.n = (t.flat.drop off).take len ∧ r.n = ((t.flat.drop off).take len).length ∧
    (r.err = some .eof ↔ off ≥ t.flat.length) ∧ (r.err = none ↔ off < t.flat.length) := by
  have hfl := (WF_flat_size C B (by have := S.b2; omega) h t S.wf).1
  simp only
  rw [readAt_spec cref get C B R h t S fuel hf o len mem off hcap]
  by_cases hoff : off ≥ t.size
  · have e : t.flat.drop off = [] := List.drop_of_length_le (by omega)
    simp only [hoff, ↓reduceIte, e]
    refine ⟨by simp, by simp, by simp; omega, by simp; omega⟩
  · simp only [hoff, ↓reduceIte]
    have hdl : (t.flat.drop off).length = t.size - off := by simp [hfl]
    have hlen : ((t.flat.drop off).take (min len (t.size - off))).length = min len (t.size - off) := by
      simp only [List.length_take, hdl]; omega
    have htk : (t.flat.drop off).take (min len (t.size - off)) = (t.flat.drop off).take len := by
      by_cases hl : len ≤ t.size - off
      · rw [Nat.min_eq_left hl]
      · rw [Nat.min_eq_right (by omega), List.take_of_length_le (by omega), List.take_of_length_le (by omega)]
    refine ⟨?_, ?_, by simp; omega, by simp; omega⟩
    · simp only [splice, List.take_zero, List.nil_append, Nat.zero_add, hlen]
      rw [List.take_append_of_le_length (by rw [hlen]; omega), List.take_of_length_le (by rw [hlen]; omega), htk]
    · rw [← htk, hlen]

/-- one step of a consumer: a `Read` into a buffer `(len, mem)` or a `Seek` -/
inductive Op
  | read (len : Nat) (mem : Bytes)
  | seek (offset whence : Int)

inductive Out
  | bytes (b : Bytes) (eof : Bool)
  | seek (r : SeekRes)
deriving DecidableEq

/-- the model: run the ops on the joiner -/
def runOps (fuel : Nat) (j : J) : List Op → List Out
  | [] => []
  | .read len mem :: rest =>
    let (j1, r) := j.read get C fuel len mem
    .bytes (r.mem.take r.n) (r.err == some .eof) :: runOps fuel j1 rest
  | .seek o w :: rest =>
    let (j1, r) := j.seek o w
    .seek r :: runOps fuel j1 rest

/-- the specification: a cursor `pos` over the content -/
def cursorOps (data : Bytes) (pos : Nat) : List Op → List Out
  | [] => []
  | .read len _ :: rest =>
    let got := (data.drop pos).take len
    .bytes got (decide (pos ≥ data.length)) :: cursorOps data (pos + got.length) rest
  | .seek o w :: rest =>
    let target : Int := if w = 0 then o else if w = 1 then o + pos else data.length - o
    if w = 0 ∨ w = 1 ∨ w = 2 then
      if w = 2 ∧ target < 0 then .seek .eof :: cursorOps data pos rest
      else if target < 0 then .seek .errOffset :: cursorOps data pos rest
      else if target > data.length then .seek .eof :: cursorOps data pos rest
      else .seek (.pos target.toNat) :: cursorOps data target.toNat rest
    else .seek .errWhence :: cursorOps data pos rest

/-- **Sequential reads and reads after seeking return exactly the corresponding bytes**: any
    sequence of `Read` / `Seek` calls behaves as a cursor over the content. -/
theorem C01_read_seek_sequence (h : Nat) (t : T) (S : Stored cref get C B R h t) (fuel : Nat) (hf : h + 1 ≤ fuel)
    (ops : List Op) (hcap : ∀ len mem, Op.read len mem ∈ ops → len ≤ mem.length) : ∀ (o : Nat),
    runOps get C fuel (jOf cref R t o) ops = cursorOps t.flat o ops := by
  have hfl := (WF_flat_size C B (by have := S.b2; omega) h t S.wf).1
  induction ops with
  | nil => intro o; rfl
  | cons op rest ih =>
    intro o
    have ihr := ih (fun len mem hm => hcap len mem (by simp [hm]))
    cases op with
    | read len mem =>
      have hc : len ≤ mem.length := hcap len mem (by simp)
      have hex := C01_readAt_exact cref get C B R h t S fuel hf o len mem o hc
      simp only at hex
      obtain ⟨h1, h2, h3, _⟩ := hex
      have hrs : (jOf cref R t o).read get C fuel len mem =
          (jOf cref R t (o + ((jOf cref R t o).readAt get C fuel len mem o).n),
            (jOf cref R t o).readAt get C fuel len mem o) := by
        unfold J.read
        have hj : (jOf cref R t o).off = o := rfl
        rw [hj, readAt_spec cref get C B R h t S fuel hf o len mem o hc]
        by_cases hoff : o ≥ t.size
        · simp [hoff, jOf]
        · simp [hoff, jOf]
      simp only [runOps, cursorOps, hrs]
      rw [ihr, h1, h2]
      congr 2
      by_cases hoff : o ≥ t.flat.length
      · simp [h3.mpr hoff, hoff]
      · have : ¬ ((jOf cref R t o).readAt get C fuel len mem o).err = some IoErr.eof := fun e => hoff (h3.mp e)
        simp [hoff]
        intro e; exact this (by simpa using e)
    | seek off w =>
      simp only [runOps, cursorOps, J.seek]
      have hspan : (jOf cref R t o).span = t.size := rfl
      have hoffj : (jOf cref R t o).off = o := rfl
      have hj : ∀ p, { jOf cref R t o with off := p } = jOf cref R t p := fun p => rfl
      rw [hspan, hoffj, hfl]
      have n02 : ¬ ((0 : Int) = 2) := by decide
      have n12 : ¬ ((1 : Int) = 2) := by decide
      by_cases h0 : w = 0
      · subst h0
        by_cases hneg : off < 0
        · simp [hneg, ihr, n02]
        · by_cases hbig : off > t.size
          · simp [hneg, hbig, ihr, n02]
          · simp [hneg, hbig, n02]; exact ihr _
      · by_cases h1 : w = 1
        · subst h1
          by_cases hneg : off + (o : Int) < 0
          · simp [hneg, ihr, n12]
          · by_cases hbig : off + (o : Int) > t.size
            · simp [hneg, hbig, ihr, n12]
            · simp [hneg, hbig, n12]; exact ihr _
        · by_cases h2 : w = 2
          · subst h2
            by_cases hneg : (t.size : Int) - off < 0
            · simp [hneg, ihr]
            · by_cases hbig : (t.size : Int) - off > t.size
              · simp [hneg, hbig, ihr]
              · simp [hneg, hbig]; exact ihr _
          · simp [h0, h1, h2, ihr]

/-- **Encrypted mode, store side**: the decrypting store returns the plain chunk for a 64-byte
    reference `address ‖ key` whenever the stored chunk is `enc key plain` and `dec key (enc key x) = x`
    — so a tree of encrypted chunks satisfies `Holds` with its plain chunks. -/
theorem C01_decrypting_get (lookup : Bytes → Option Bytes) (enc dec : Bytes → Bytes → Bytes)
    (hinv : ∀ k x, dec k (enc k x) = x) (addr key plain : Bytes) (hk : addr.length = 32) (hkey : key.length = 32)
    (hput : lookup addr = some (enc key plain)) :
    storeGet lookup dec 32 (addr ++ key) = .ok plain := by
  unfold storeGet
  have h1 : ¬ (addr ++ key).length = 32 := by simp [hk, hkey]
  have h2 : (addr ++ key).length = 2 * 32 := by simp [hk, hkey]
  have h3 : ¬ (2 * 32 = 32) := by decide
  rw [if_neg h1, if_pos h2, List.take_left' hk, List.drop_left' hk, hput]
  simp only [hinv]

/-- a plain (32-byte) reference is looked up as it is -/
theorem C01_plain_get (lookup : Bytes → Option Bytes) (dec : Bytes → Bytes → Bytes) (addr d : Bytes)
    (hk : addr.length = 32) (hput : lookup addr = some d) : storeGet lookup dec 32 addr = .ok d := by
  unfold storeGet; simp [hk, hput]

/-! Non-vacuity of the premises of `C01_upload_then_stored`: the repository's instance has
    `C / 32 = B ≥ 2`; a Put log with one content per address is collision free. -/
example : chunkBytes / 32 = branching ∧ 2 ≤ branching ∧ 0 < chunkBytes := by decide
example (a d : Bytes) : NoColl [(a, d), (a, d)] := by
  intro b d₁ d₂ h1 h2
  simp at h1 h2
  rw [h1.2, h2.2]

/-! Non-vacuity: the premises of the reader theorems (`Stored`) are satisfiable — a one-chunk file
    in a store holding that chunk (toy constant-length reference function, `C = 8`, `R = 4`, `B = 2`);
    the writer theorems' premises are those of C02 (see `Props/C02.lean`). -/
example : Stored (fun _ _ => [0, 0, 0, 0]) (fun _ => .ok (Aurora.Cac.le64 3 ++ [1, 2, 3])) 8 2 4 0 (.leaf [1, 2, 3]) where
  refLen := by intro _ _; rfl
  rpos := by decide
  branching := by decide
  b2 := by decide
  c1 := by decide
  wf := ⟨[1, 2, 3], rfl, by decide⟩
  small := by simp [T.size]
  holds := by
    intro x hx
    simp [T.chunks] at hx
    subst hx
    rfl

end Aurora.Joiner

/-! # Encrypted mode -/

namespace Aurora.EncUpload
open Aurora.Bmt (Bytes)
open Aurora.Cac (le64)
open Aurora.Tree Aurora.HashTrie Aurora.Joiner Aurora.DecryptStore

section Writer
variable (H : Bytes → Bytes) (addr : Bytes → Bytes → Bytes) (P R : Nat) (orc : Nat → Nat → Bytes × Bytes)

/-- **The encrypted upload builds a well-formed encrypted tree over the written bytes, stores the
    encrypted chunk of every node and returns the tree's reference**, for every content, every
    segmentation (below the writer's 8-level limit) and every outcome `orc` of the random key /
    padding draws: `e` is a decorated tree whose leaves concatenate to the data (`e.flat`; its
    plain shape is `specTree data`), every `(address, encrypted chunk)` of `e` is in the Put log,
    every decoration is an oracle value, and the result of `Sum` is `e.ref` = address ‖ key of the
    root (64 bytes when addresses and keys have 32: `C01_enc_ref_length`). -/
theorem C01_enc_upload_builds_tree (C B : Nat) (hC : 0 < C) (hB : 2 ≤ B) (segs : List Bytes)
    (hlim : (leafData C segs.flatten).length < B ^ 7) :
    ∃ e h, EWF C B h e ∧ e.flat = segs.flatten ∧ e.size = segs.flatten.length ∧
      specTree C B segs.flatten = some e.plain ∧
      (upload H addr P R orc C B segs).2 = some (e.ref (erefOf H addr P R)) ∧
      (∀ c ∈ e.stored (erefOf H addr P R) (echunkOf H addr P R), c ∈ (upload H addr P R orc C B segs).1.puts) ∧
      e.decBy orc := by
  obtain ⟨e, t, ht, hpl, hroot, hputs, hdec⟩ := enc_upload_tree H addr P R orc C B hC hB segs hlim
  obtain ⟨t', ht', ⟨h, hw⟩, hflat⟩ := specTree_WF C B hC hB segs.flatten
  rw [ht] at ht'; injection ht' with ht'; subst ht'
  subst hpl
  have hewf := ewf_of_plain C B h e hw
  have hfl : e.flat = segs.flatten := by rw [← plain_flat]; exact hflat
  refine ⟨e, h, hewf, hfl, ?_, ht, hroot, hputs, hdec⟩
  rw [← (EWF_flat_size C B (by omega) h e hewf).1, hfl]

/-- the reference of a decorated tree is `address ‖ key` of its root: 64 bytes -/
theorem C01_enc_ref_length (haddr : ∀ s p, (addr s p).length = 32) (e : ET) (hk : Keys32 orc) (hd : e.decBy orc) :
    (e.ref (erefOf H addr P R)).length = 64 := by
  cases e with
  | leaf k p d =>
    obtain ⟨o, ho⟩ := hd
    have := hk o d.length; rw [← ho] at this
    simp [ET.ref, erefOf, echunkOf, haddr, this]
  | node k p s ks =>
    obtain ⟨⟨o, ho⟩, _⟩ := hd
    have := hk o s; rw [← ho] at this
    simp [ET.ref, erefOf, echunkOf, haddr, this]

/-- two segmentations of the same bytes build the same encrypted tree (same oracle) -/
theorem C01_enc_segmentation_irrelevant (C B : Nat) (hC : 0 < C) (hB : 2 ≤ B) (segs₁ segs₂ : List Bytes)
    (hsame : segs₁.flatten = segs₂.flatten) (hlim : (leafData C segs₁.flatten).length < B ^ 7) :
    ∃ e₁ e₂ : ET, (upload H addr P R orc C B segs₁).2 = some (e₁.ref (erefOf H addr P R)) ∧
      (upload H addr P R orc C B segs₂).2 = some (e₂.ref (erefOf H addr P R)) ∧ e₁.plain = e₂.plain := by
  obtain ⟨e₁, _, _, _, _, hs1, hr1, _, _⟩ := C01_enc_upload_builds_tree H addr P R orc C B hC hB segs₁ hlim
  obtain ⟨e₂, _, _, _, _, hs2, hr2, _, _⟩ := C01_enc_upload_builds_tree H addr P R orc C B hC hB segs₂ (hsame ▸ hlim)
  refine ⟨e₁, e₂, hr1, hr2, ?_⟩
  rw [hsame, hs2] at hs1
  injection hs1 with hs1
  exact hs1.symm

end Writer

section Reader
variable (eref : Bytes → Bytes → Bytes → Bytes → Bytes) (get : Bytes → Except Aurora.Joiner.Err Bytes) (C B R : Nat)

/-- **Encrypted: opening by the 64-byte reference reports the content length** -/
theorem C01_enc_open_size (h : Nat) (t : ET) (S : EStored eref get C B R h t) :
    ∃ j, new get (t.ref eref) = .ok j ∧ j.size = t.flat.length ∧ j = ejOf eref R t 0 := by
  refine ⟨_, enew_spec eref get t S.small S.holds, ?_, ?_⟩
  · simp only [J.size]
    exact (EWF_flat_size C B (by have := S.b2; omega) h t S.wf).1.symm
  · simp only [ejOf, ET.ref_length eref R S.refLen t]

/-- **Encrypted: reads at arbitrary offsets return exactly the corresponding bytes**: `n = min len (size-off)`
    bytes equal to `content[off, off+n)`; EOF iff `off ≥ size`. -/
theorem C01_enc_readAt_exact (h : Nat) (t : ET) (S : EStored eref get C B R h t) (fuel : Nat) (hf : h + 1 ≤ fuel)
    (o len : Nat) (mem : Bytes) (off : Nat) (hcap : len ≤ mem.length) :
    let r := (ejOf eref R t o).readAt get C fuel len mem off
    r.mem.take r.n = (t.flat.drop off).take len ∧ r.n = ((t.flat.drop off).take len).length ∧
    (r.err = some .eof ↔ off ≥ t.flat.length) ∧ (r.err = none ↔ off < t.flat.length) := by
  have hfl := (EWF_flat_size C B (by have := S.b2; omega) h t S.wf).1
  simp only
  rw [ereadAt_spec eref get C B R h t S fuel hf o len mem off hcap]
  by_cases hoff : off ≥ t.size
  · have e : t.flat.drop off = [] := List.drop_of_length_le (by omega)
    simp only [hoff, ↓reduceIte, e]
    refine ⟨by simp, by simp, by simp; omega, by simp; omega⟩
  · simp only [hoff, ↓reduceIte]
    have hdl : (t.flat.drop off).length = t.size - off := by simp [hfl]
    have hlen : ((t.flat.drop off).take (min len (t.size - off))).length = min len (t.size - off) := by
      simp only [List.length_take, hdl]; omega
    have htk : (t.flat.drop off).take (min len (t.size - off)) = (t.flat.drop off).take len := by
      by_cases hl : len ≤ t.size - off
      · rw [Nat.min_eq_left hl]
      · rw [Nat.min_eq_right (by omega), List.take_of_length_le (by omega), List.take_of_length_le (by omega)]
    refine ⟨?_, ?_, by simp; omega, by simp; omega⟩
    · simp only [splice, List.take_zero, List.nil_append, Nat.zero_add, hlen]
      rw [List.take_append_of_le_length (by rw [hlen]; omega), List.take_of_length_le (by rw [hlen]; omega), htk]
    · rw [← htk, hlen]

/-- **Encrypted: sequential reads and reads after seeking return exactly the corresponding bytes**: any
    sequence of `Read` / `Seek` calls behaves as a cursor over the content. -/
theorem C01_enc_read_seek_sequence (h : Nat) (t : ET) (S : EStored eref get C B R h t) (fuel : Nat) (hf : h + 1 ≤ fuel)
    (ops : List Op) (hcap : ∀ len mem, Op.read len mem ∈ ops → len ≤ mem.length) : ∀ (o : Nat),
    runOps get C fuel (ejOf eref R t o) ops = cursorOps t.flat o ops := by
  have hfl := (EWF_flat_size C B (by have := S.b2; omega) h t S.wf).1
  induction ops with
  | nil => intro o; rfl
  | cons op rest ih =>
    intro o
    have ihr := ih (fun len mem hm => hcap len mem (by simp [hm]))
    cases op with
    | read len mem =>
      have hc : len ≤ mem.length := hcap len mem (by simp)
      have hex := C01_enc_readAt_exact eref get C B R h t S fuel hf o len mem o hc
      simp only at hex
      obtain ⟨h1, h2, h3, _⟩ := hex
      have hrs : (ejOf eref R t o).read get C fuel len mem =
          (ejOf eref R t (o + ((ejOf eref R t o).readAt get C fuel len mem o).n),
            (ejOf eref R t o).readAt get C fuel len mem o) := by
        unfold J.read
        have hj : (ejOf eref R t o).off = o := rfl
        rw [hj, ereadAt_spec eref get C B R h t S fuel hf o len mem o hc]
        by_cases hoff : o ≥ t.size
        · simp [hoff, ejOf]
        · simp [hoff, ejOf]
      simp only [runOps, cursorOps, hrs]
      rw [ihr, h1, h2]
      congr 2
      by_cases hoff : o ≥ t.flat.length
      · simp [h3.mpr hoff, hoff]
      · have : ¬ ((ejOf eref R t o).readAt get C fuel len mem o).err = some IoErr.eof := fun e => hoff (h3.mp e)
        simp [hoff]
        intro e; exact this (by simpa using e)
    | seek off w =>
      simp only [runOps, cursorOps, J.seek]
      have hspan : (ejOf eref R t o).span = t.size := rfl
      have hoffj : (ejOf eref R t o).off = o := rfl
      have hj : ∀ p, { ejOf eref R t o with off := p } = ejOf eref R t p := fun p => rfl
      rw [hspan, hoffj, hfl]
      have n02 : ¬ ((0 : Int) = 2) := by decide
      have n12 : ¬ ((1 : Int) = 2) := by decide
      by_cases h0 : w = 0
      · subst h0
        by_cases hneg : off < 0
        · simp [hneg, ihr, n02]
        · by_cases hbig : off > t.size
          · simp [hneg, hbig, ihr, n02]
          · simp [hneg, hbig, n02]; exact ihr _
      · by_cases h1 : w = 1
        · subst h1
          by_cases hneg : off + (o : Int) < 0
          · simp [hneg, ihr, n12]
          · by_cases hbig : off + (o : Int) > t.size
            · simp [hneg, hbig, ihr, n12]
            · simp [hneg, hbig, n12]; exact ihr _
        · by_cases h2 : w = 2
          · subst h2
            by_cases hneg : (t.size : Int) - off < 0
            · simp [hneg, ihr]
            · by_cases hbig : (t.size : Int) - off > t.size
              · simp [hneg, hbig, ihr]
              · simp [hneg, hbig]; exact ihr _
          · simp [h0, h1, h2, ihr]


end Reader

section EndToEnd
variable (H : Bytes → Bytes) (addr : Bytes → Bytes → Bytes) (orc : Nat → Nat → Bytes × Bytes)

/-- **The law of C08 that is used**: `decryptChunkData (EncryptChunk (span ‖ data)) = span ‖ data`
    for 32-byte keys whenever the decrypting store's length loop maps the span to `|data|`.
    `C08_chunk_roundtrip` is the instance `span = le64 |data|`, `|data| ≤ ChunkSize` (data chunks);
    intermediate chunks (span = subtree size, data = 64 bytes per child) need this form, which is
    proved from the same C08 theorems (`C08_encrypt_len`, `C08_decrypt_encrypt_prefix`) and used
    together with `C08_strip_leaf` / `C08_strip_intermediate`. -/
theorem C01_enc_chunk_roundtrip (key pad span data es ed : Bytes)
    (hk : key.length = 32) (hH : ∀ x, 32 ≤ (H x).length) (hspan : span.length = 8)
    (hlen : (lengthLoop 262144 64 (u64le span)).toNat = data.length)
    (henc : Aurora.Encryption.encryptChunk H 262144 64 key pad (span ++ data) = .ok (es, ed)) :
    decryptChunkData H 262144 64 (es ++ ed) key = .ok (span ++ data) :=
  chunk_roundtrip_len H key pad span data es ed hk hH hspan hlen henc

/-- **Encrypted upload, then every read theorem applies** (repository constants: chunk / padding
    size 262144, branching 4096, references of 64 bytes).  Premises: admissible draws (`Admissible`:
    32-byte keys, padding up to `ChunkSize`), keystream digests of at least 32 bytes, 32-byte
    addresses, content below 2^63 bytes, and collision freedom of the chunk hash on the chunks
    written (`NoColl` on the encrypted Put log).  Then the decrypting getter over the upload's Puts
    satisfies `EStored` for the uploaded tree under the returned 64-byte reference — so
    `C01_enc_open_size`, `C01_enc_readAt_exact`, `C01_enc_read_seek_sequence` hold for it.
    (`erefN` is `erefOf` with the key normalised to 32 bytes — the same reference on this tree,
    as the first conjunct says.) -/
theorem C01_enc_upload_then_stored (hadm : Admissible orc) (hH : ∀ x, 32 ≤ (H x).length)
    (haddr : ∀ s p, (addr s p).length = 32) (segs : List Bytes)
    (hlim : (leafData 262144 segs.flatten).length < 4096 ^ 7) (hsmall : segs.flatten.length < 2 ^ 63)
    (hn : NoColl (upload H addr 262144 64 orc 262144 4096 segs).1.puts) :
    ∃ e h, (upload H addr 262144 64 orc 262144 4096 segs).2 = some (e.ref (erefN H addr)) ∧
      (e.ref (erefN H addr)).length = 64 ∧ e.flat = segs.flatten ∧
      EStored (erefN H addr)
        (encGet H 262144 64 32 (lookupPuts (upload H addr 262144 64 orc 262144 4096 segs).1.puts))
        262144 4096 64 h e := by
  obtain ⟨e, h, hw, hflat, hsize, _, hroot, hputs, hdec⟩ :=
    C01_enc_upload_builds_tree H addr 262144 64 orc 262144 4096 (by decide) (by decide) segs hlim
  have hk : Keys32 orc := fun o s => (hadm o s).1
  obtain ⟨f1, _, f3⟩ := ref_fit H addr orc hk e hdec
  refine ⟨e, h, by rw [f1]; exact hroot, ?_, hflat, ⟨erefN_length H addr haddr, by decide, by decide, by decide,
    by decide, hw, by rw [hsize]; omega, ?_⟩⟩
  · rw [f1]; exact C01_enc_ref_length H addr 262144 64 orc haddr e hk hdec
  · apply holdsN H addr _ orc hadm hH haddr h e hw hdec (by rw [hsize]; exact hsmall)
    intro c hc
    rw [f3] at hc
    obtain ⟨a, d⟩ := c
    exact lookupPuts_mem _ hn a d (hputs (a, d) hc)

/-- **Encrypted content reads back byte-identical, end to end**: upload any bytes with any
    segmentation and any admissible key / padding draws; open the returned reference with the
    joiner over the decrypting getter on the chunks that were `Put`: the size is the content
    length and every `ReadAt` and every `Read` / `Seek` sequence returns exactly the written bytes. -/
theorem C01_enc_upload_read_back (hadm : Admissible orc) (hH : ∀ x, 32 ≤ (H x).length)
    (haddr : ∀ s p, (addr s p).length = 32) (segs : List Bytes)
    (hlim : (leafData 262144 segs.flatten).length < 4096 ^ 7) (hsmall : segs.flatten.length < 2 ^ 63)
    (hn : NoColl (upload H addr 262144 64 orc 262144 4096 segs).1.puts) :
    let get := encGet H 262144 64 32 (lookupPuts (upload H addr 262144 64 orc 262144 4096 segs).1.puts)
    ∃ ref j, (upload H addr 262144 64 orc 262144 4096 segs).2 = some ref ∧ ref.length = 64 ∧
      Aurora.Joiner.new get ref = .ok j ∧ j.size = segs.flatten.length ∧ j.off = 0 ∧
      ∃ fuel, (∀ (len : Nat) (mem : Bytes) (off : Nat), len ≤ mem.length →
          let r := j.readAt get 262144 fuel len mem off
          r.mem.take r.n = (segs.flatten.drop off).take len ∧ r.n = ((segs.flatten.drop off).take len).length ∧
          (r.err = some .eof ↔ off ≥ segs.flatten.length) ∧ (r.err = none ↔ off < segs.flatten.length)) ∧
        (∀ ops : List Op, (∀ len mem, Op.read len mem ∈ ops → len ≤ mem.length) →
          runOps get 262144 fuel j ops = cursorOps segs.flatten 0 ops) := by
  intro get
  obtain ⟨e, h, hroot, hlen, hflat, S⟩ := C01_enc_upload_then_stored H addr orc hadm hH haddr segs hlim hsmall hn
  obtain ⟨j, hj, hjs, hjo⟩ := C01_enc_open_size (erefN H addr) get 262144 4096 64 h e S
  refine ⟨_, j, hroot, hlen, hj, by rw [hjs, hflat], by rw [hjo]; rfl, h + 1, ?_, ?_⟩
  · intro len mem off hcap
    have := C01_enc_readAt_exact (erefN H addr) get 262144 4096 64 h e S (h + 1) (Nat.le_refl _) 0 len mem off hcap
    rw [hflat, ← hjo] at this
    exact this
  · intro ops hcap
    have := C01_enc_read_seek_sequence (erefN H addr) get 262144 4096 64 h e S (h + 1) (Nat.le_refl _) ops hcap 0
    rw [hflat, ← hjo] at this
    exact this

/-! Non-vacuity of the premises: the all-zero draws of the right lengths are admissible; the
    repository's instance `262144 / 64 = 4096`; a keystream hash and an address function of
    32-byte outputs exist; a Put log with one content per address is collision free; and the
    reader premise `EStored` is satisfiable (one-chunk encrypted file, toy constant-length reference
    function). -/
example : Admissible (fun _ s => (List.replicate 32 0,
    List.replicate (262144 - (lengthLoop 262144 64 (UInt64.ofNat s)).toNat) 0)) := by
  intro o s; simp
example : (262144 : Nat) / 64 = 4096 ∧ encBranching = 4096 ∧ chunkBytes = 262144 := by decide
example : (∀ x : Bytes, 32 ≤ ((fun _ => List.replicate 32 (0 : UInt8)) x).length) ∧
    (∀ s p : Bytes, ((fun _ _ => List.replicate 32 (0 : UInt8)) s p).length = 32) := by simp
example (a d : Bytes) : NoColl [(a, d)] := by
  intro b d₁ d₂ h1 h2
  simp at h1 h2
  rw [h1.2, h2.2]
example : EStored (fun _ _ _ _ => [0, 0, 0, 0]) (fun _ => .ok (le64 3 ++ [1, 2, 3])) 8 2 4 0 (.leaf [7] [9] [1, 2, 3]) where
  refLen := by intro _ _ _ _; rfl
  rpos := by decide
  branching := by decide
  b2 := by decide
  c1 := by decide
  wf := ⟨[7], [9], [1, 2, 3], rfl, by decide⟩
  small := by simp [ET.size]
  holds := by
    intro x hx
    simp [ET.chunks] at hx
    subst hx
    rfl
/-- the premises of `C01_enc_upload_builds_tree` hold for the empty file with the repository's
    constants (one data chunk, far below the level limit) -/
example : (leafData 262144 ([] : List Bytes).flatten).length < 4096 ^ 7 := by decide

end EndToEnd

end Aurora.EncUpload
