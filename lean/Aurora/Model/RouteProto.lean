import Aurora.Model.RouteTable
/-
Model of the route-discovery / relay protocol of /repo/pkg/routetab (route.go, pending.go and the
path builders of table.go).  Hand translation, tied by the C28 correspondence run.

* node = `Nat`; a path = list of nodes; the route table is `Aurora.RouteTable.Table` (C27 model).
* One handler invocation (`onRouteReq`, `onRouteResp`, the synchronous part of `FindRoute`, the
  next-hop choice of `onRelay`/`onRelayConnChain`) is one atomic step that returns the new node state
  and the packets written to outgoing streams, in order.
* Environment of a node that is not routetab's own code is an explicit argument:
  `Env.nbr` (Kademlia's connected peers = `IsNeighbor`), `Oracle.cands` (the ordered candidate list
  Kademlia offers `getNeighbor` for this target: bin peers or neighbourhood peers, each with its
  reachability class), `Oracle.pick` (Kademlia's `RandomSubset`).  Theorems quantify over all
  admissible oracles; the driver is handed the observed candidate list and replays the pinned
  `crypto/rand` stream.
* Address-book knowledge (`UType`/`UList` handling) is the set `book` of nodes whose signed underlay
  is known; only valid underlay records are modelled.
* `doRouteResp` is modelled *after* the repair (a forwarded response is a fresh message: every
  pending source receives the received paths extended by self exactly once); `respForwardOld` is
  the unrepaired behaviour (the same message object is extended again for every further source).
-/
namespace Aurora.RouteProto
open Aurora.RouteTable

abbrev Path := List Node

structure Req where
  dest  : Node
  alpha : Int
  paths : List Path
  utype : Int
  ulist : List Node
deriving DecidableEq, Repr

structure Resp where
  dest  : Node
  paths : List Path
  utype : Int
  ulist : List Node
deriving DecidableEq, Repr

inductive Body where
  | req (r : Req)
  | resp (r : Resp)
deriving DecidableEq, Repr

/-- a message written by `src` to a stream towards `dst` -/
structure Packet where
  src  : Node
  dst  : Node
  body : Body
deriving DecidableEq, Repr

/-- `PendCallResItem` (source + whether it carries a result channel) -/
structure PendItem where
  src : Node
  ch  : Bool
deriving DecidableEq, Repr

structure NodeSt where
  table : Table := {}
  presp : List (Node × List PendItem) := []   -- respList : target ↦ waiting sources
  preq  : List (Node × Node) := []            -- reqList  : (target, next) request log
  book  : List Node := []                     -- address book: underlay known
deriving Repr

/-- static configuration: `NeighborAlpha`, `MaxTTL`, and each node's connected peers -/
structure Env where
  alpha : Nat
  ttl   : Nat
  nbr   : Node → Node → Bool

/-- what Kademlia contributes to one `getNeighbor` call.  Reachability class of a candidate:
    0 = public, 1 = any other status, 2 = no metrics snapshot (ignored by `getNeighbor`). -/
structure Oracle where
  cands : List (Node × Nat)
  pick  : List Node → Nat → List Node

/-! ### pending table (pending.go) -/

def pendAdd (st : NodeSt) (target src next : Node) (ch : Bool) : NodeSt × Bool :=
  let old := (aget st.presp target).getD []
  let presp := aput st.presp target (old ++ [⟨src, ch⟩])
  let has := st.preq.contains (target, next)
  ({ st with presp := presp, preq := if has then st.preq else st.preq ++ [(target, next)] }, has)

def pendGet (st : NodeSt) (target next : Node) : NodeSt × List PendItem :=
  match aget st.presp target with
  | some res =>
    ({ st with presp := adel st.presp target, preq := st.preq.filter (· != (target, next)) }, res)
  | none => (st, [])

def pendDelete (st : NodeSt) (target next : Node) : NodeSt :=
  { st with presp := adel st.presp target, preq := st.preq.filter (· != (target, next)) }

/-- `GcReqLog(0)` + `GcResItems(0)`: everything has expired -/
def pendGcAll (st : NodeSt) : NodeSt := { st with presp := [], preq := [] }

/-! ### path builders (table.go) -/

/-- `generatePaths` -/
def generatePaths (self : Node) (paths : List Path) : List Path :=
  if paths.isEmpty then [[self]] else paths.map (· ++ [self])

/-- index of the first shortest path (`convertPathsToPbPaths`'s `key`) -/
def shortest : List Path → Path
  | [] => []
  | p :: ps => ps.foldl (fun best q => if q.length < best.length then q else best) p

/-- `convertPathsToPbPaths` -/
def convertPaths (self : Node) (paths : List Path) : List Path :=
  if paths.isEmpty then [] else [shortest paths ++ [self]]

def savePaths (alpha : Nat) (t : Table) (paths : List Path) (now : Nat) : Table :=
  paths.foldl (fun acc p => save alpha acc p now) t

/-- `convUnderlayList` -/
def convU (utype : Int) (target last : Node) (old : List Node) (book : List Node) : List Node :=
  if utype = 1 then
    if target = last ∧ book.contains target then [target] else old
  else []

def addBook (book : List Node) (ul : List Node) : List Node :=
  ul.foldl (fun b x => if b.contains x then b else b ++ [x]) book

/-! ### getNeighbor -/

/-- `getNeighbor` once the effective alpha is known -/
def getNeighborN (o : Oracle) (a : Nat) (skip : List Node) : List Node :=
  let now := o.cands.filter (fun c => !skip.contains c.1)
  let direct := (now.filter (fun c => c.2 == 0)).map (·.1)
  let notDirect := (now.filter (fun c => c.2 == 1)).map (·.1)
  if direct.length ≥ a then o.pick direct a
  else
    let n := a - direct.length
    direct ++ (if notDirect.length > n then o.pick notDirect n else notDirect)

def getNeighbor (e : Env) (o : Oracle) (alphaReq : Int) (skip : List Node) : List Node :=
  getNeighborN o (if alphaReq ≤ 0 then e.alpha else alphaReq.toNat) skip

/-! ### sending -/

/-- the loop of `doRouteReq`: register every next hop in the pending table, send unless a request
    for (target, next) is already logged -/
def sendReqs (self : Node) (st : NodeSt) (next : List Node) (src : Node) (ch : Bool) (req : Req) :
    NodeSt × List Packet :=
  next.foldl (fun (acc : NodeSt × List Packet) v =>
      let (st', has) := pendAdd acc.1 req.dest src v ch
      (st', if has then acc.2 else acc.2 ++ [⟨self, v, .req req⟩])) (st, [])

/-- `doRouteReq` with `req != nil` (forwarding) -/
def forwardReq (self : Node) (st : NodeSt) (next : List Node) (src target : Node) (req : Req) :
    NodeSt × List Packet :=
  let req' := { req with paths := generatePaths self req.paths,
                         ulist := convU req.utype target src req.ulist st.book }
  sendReqs self st next src false req'

/-! ### onRouteReq -/

def inPath (x : Node) (p : Path) : Bool := p.contains x
/-- `inPaths(reqPath, items)` -/
def inPaths (reqPath items : Path) : Bool := items.any (fun v => reqPath.contains v)

/-- the stored paths `onRouteReq` may answer with: short enough and disjoint from the request path -/
def answerPaths (e : Env) (t : Table) (target : Node) (reqPath : Path) : List Path :=
  ((get t target).getD []).filter (fun v => !(decide (v.length + reqPath.length > e.ttl)) && !inPaths reqPath v)

def onRouteReq (e : Env) (o : Oracle) (self : Node) (st : NodeSt) (src : Node) (req : Req) (now : Nat) :
    NodeSt × List Packet :=
  let target := req.dest
  if req.paths.any (fun p => decide (p.length > e.ttl) || inPath self p) then (st, [])
  else
    let reqPath : Path := req.paths.getLastD []
    let st := { st with table := savePaths e.alpha st.table req.paths now, book := addBook st.book req.ulist }
    if self = target then
      (st, [⟨self, src, .resp { dest := target, paths := generatePaths self [], utype := req.utype, ulist := [] }⟩])
    else if e.nbr self target then
      forwardReq self st [target] src target req
    else
      let nowPaths := answerPaths e st.table target reqPath
      if !nowPaths.isEmpty && !(req.utype = 1 && !st.book.contains target) then
        (st, [⟨self, src, .resp { dest := target, paths := convertPaths self nowPaths, utype := req.utype,
                                   ulist := convU req.utype target 0 [] [] }⟩])
      else
        let skip := req.paths.flatten
        forwardReq self st (getNeighbor e o req.alpha skip) src target req

/-! ### onRouteResp -/

/-- `doRouteResp` with `resp != nil` (repaired: builds a fresh message) -/
def forwardResp (self : Node) (st : NodeSt) (to target last : Node) (resp : Resp) : Packet :=
  ⟨self, to, .resp { resp with paths := generatePaths self resp.paths,
                               ulist := convU resp.utype target last resp.ulist st.book }⟩

/-- `respForward` (repaired) -/
def respForward (self : Node) (st : NodeSt) (target last : Node) (resp : Resp) : NodeSt × List Packet :=
  let (st', res) := pendGet st target last
  let (_, out) := res.foldl (fun (acc : List Node × List Packet) v =>
      if v.src ≠ self ∧ !acc.1.contains v.src then
        (acc.1 ++ [v.src], acc.2 ++ [forwardResp self st' v.src target last resp])
      else acc) ([], [])
  (st', out)

/-- `respForward` before the repair: `doRouteResp` extends the *same* message object for every
    further pending source -/
def respForwardOld (self : Node) (st : NodeSt) (target last : Node) (resp : Resp) : NodeSt × List Packet :=
  let (st', res) := pendGet st target last
  let (_, _, out) := res.foldl (fun (acc : List Node × Resp × List Packet) v =>
      if v.src ≠ self ∧ !acc.1.contains v.src then
        let r' : Resp := { acc.2.1 with paths := generatePaths self acc.2.1.paths,
                                        ulist := convU acc.2.1.utype target last acc.2.1.ulist st'.book }
        (acc.1 ++ [v.src], r', acc.2.2 ++ [⟨self, v.src, .resp r'⟩])
      else acc) ([], resp, [])
  (st', out)

def onRouteResp (e : Env) (self : Node) (st : NodeSt) (src : Node) (resp : Resp) (now : Nat) :
    NodeSt × List Packet :=
  let nowP := resp.paths.filter (fun p => decide (p.length ≤ e.ttl))
  if nowP.isEmpty then (st, [])
  else if nowP.any (inPath self) then (st, [])
  else
    let st := { st with table := savePaths e.alpha st.table nowP now, book := addBook st.book resp.ulist }
    respForward self st resp.dest src { resp with paths := nowP }

/-! ### FindRoute (synchronous part) and the relay next hop -/

/-- `FindRoute` up to and including `doRouteReq(forward, self, target, nil, resCh)`;
    `none` = error (target is self / no neighbour to ask) -/
def startFind (e : Env) (o : Oracle) (self : Node) (st : NodeSt) (target : Node) :
    Option (NodeSt × List Packet × List Node) :=
  if self = target then none
  else
    let forward := getNeighbor e o e.alpha [target]
    if forward.isEmpty then none
    else
      let req : Req := { dest := target, alpha := e.alpha, paths := generatePaths self [], utype := 1, ulist := [] }
      let (st', out) := sendReqs self st forward self true req
      some (st', out, forward)

/-- the `remove()` of a `FindRoute` that timed out -/
def findTimeout (st : NodeSt) (target : Node) (forward : List Node) : NodeSt :=
  forward.foldl (fun acc v => pendDelete acc target v) st

/-- candidates for the next hop of a relayed stream (`onRelay` / `onRelayConnChain`): `path` is
    `req.Paths` as received; self is appended first.  The code then picks the target itself if it
    is a neighbour, otherwise a random element of `getNextHopEffective(target, path ++ [self])`. -/
def relayNext (e : Env) (self : Node) (st : NodeSt) (target : Node) (path : Path) : List Node :=
  if e.nbr self target then [target]
  else (nextHop st.table target (path ++ [self])).filter (fun v => e.nbr self v)

/-- whether a `FindRoute(target)` of `self` is still waiting: its pending entries (source = self, with
    a result channel) are still in the pending table.  `respForward` takes the whole list of the
    target out of the table and signals every such entry. -/
def findWaiting (self : Node) (st : NodeSt) (target : Node) : Bool :=
  ((aget st.presp target).getD []).any (fun it => it.src == self && it.ch)

/-- Result of `GetNextHopRandomOrFind` as the relay handlers call it: the new node state, the
    packets written meanwhile, and the list the next hop is picked from at random (`[]` = the
    handler gives up with an error). -/
structure RelayChoice where
  st    : NodeSt
  out   : List Packet
  offer : List Node

/-- `GetNextHopRandomOrFind(ctx, target, skips...)` inside `onRelay` / `onRelayConnChain`, including
    the discovery branch.  `skips` = `path ++ [self]` is used by BOTH `getNextHopRandom` calls — the
    one before and the one after `FindRoute` (the extracted fact `Aurora.Generated.RouteSkips` is what
    route.go does).  `during`: what is delivered to this node's `onRouteResp` while `FindRoute`
    waits (`none`: nothing, `FindRoute` times out).  A response for `target` that is not discarded
    signals the waiting `FindRoute`, which returns `GetRoute(target)`; on an error the handler
    gives up, otherwise the next hop is picked again, from the table as it is now.  Any other
    outcome: `FindRoute` gives up and removes its pending entries. -/
def relayOrFind (e : Env) (o : Oracle) (self : Node) (st : NodeSt) (target : Node) (path : Path)
    (during : Option (Node × Resp)) (now : Nat) : RelayChoice :=
  let offer := relayNext e self st target path
  if !offer.isEmpty then ⟨st, [], offer⟩
  else
    match startFind e o self st target with
    | none => ⟨st, [], []⟩
    | some (st1, out, fwd) =>
      match during with
      | none => ⟨findTimeout st1 target fwd, out, []⟩
      | some (src, resp) =>
        let r := onRouteResp e self st1 src resp now
        if findWaiting self r.1 target then ⟨findTimeout r.1 target fwd, out ++ r.2, []⟩
        else
          match get r.1.table target with
          | none => ⟨r.1, out ++ r.2, []⟩
          | some _ => ⟨r.1, out ++ r.2, relayNext e self r.1 target path⟩

/-! ### network -/

structure Net where
  st     : Node → NodeSt
  flight : List Packet

def Net.init : Net := { st := fun _ => {}, flight := [] }

def setSt (f : Node → NodeSt) (n : Node) (s : NodeSt) : Node → NodeSt :=
  fun m => if m = n then s else f m

/-- deliver one packet to its destination's handler -/
def handle (e : Env) (o : Oracle) (net : Net) (p : Packet) (now : Nat) : NodeSt × List Packet :=
  match p.body with
  | .req r => onRouteReq e o p.dst (net.st p.dst) p.src r now
  | .resp r => onRouteResp e p.dst (net.st p.dst) p.src r now

end Aurora.RouteProto
