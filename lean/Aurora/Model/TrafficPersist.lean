/-
Model of the persistence of traffic totals (property C33):
  /repo/pkg/settlement/traffic/traffic.go : PutRetrieveTraffic / PutTransferTraffic, restore in
  trafficPeerChequeUpdate (max of chain value, last cheque, stored total).

Part 1 — fine-grained interleaving model of ONE total (one peer, one direction):
  any number of goroutines, each running
     repaired code :  lock → add → persist → unlock                       (`stepNew`)
     former code   :  lock → add → unlock → readField → persist           (`stepOld`)
  as atomic steps; the store keeps the last write; `base` is what a restart can always recover
  from the chain and the last cheque.
Part 2 — the coarse, executable model the C33 driver runs (several peers, both directions,
  harness-visible events start/release/restart), for the repaired code.
Core Lean only.
-/
namespace Aurora.TrafficPersist

/-! ## Part 1: interleavings -/

structure Thread where
  pc : Nat := 0      -- 0 = idle (before Lock)
  amt : Nat := 0     -- traffic this update adds
  loc : Nat := 0     -- value read from the field (former code only)

structure State where
  mem : Nat                 -- Traffic.retrieveTraffic in memory
  store : Nat               -- persisted total (0 when never written)
  base : Nat                -- max(chain value, last cheque): recoverable without the stored total
  lock : Option Nat         -- holder of the per-peer mutex
  thr : Nat → Thread        -- any number of goroutines

def State.set (s : State) (t : Nat) (x : Thread) : Nat → Thread := fun u => if u = t then x else s.thr u

/-- what a restart restores: max(chain, last cheque, stored total) -/
def restored (s : State) : Nat := max s.base s.store

/-- state right after start-up with stored total `st` -/
def init (base st : Nat) : State :=
  { mem := max base st, store := st, base := base, lock := none, thr := fun _ => {} }

inductive Act where
  | call (t amt : Nat)   -- goroutine `t` enters PutRetrieveTraffic(amt)   (pc done → 0 with a new amount)
  | lock (t : Nat)
  | add (t : Nat)
  | unlock (t : Nat)
  | read (t : Nat)       -- former code only: evaluate `traffic.retrieveTraffic` after Unlock
  | persist (t : Nat)

/-- the repaired code: pcs 0 idle, 1 locked, 2 added, 3 persisted, 4 returned -/
def stepNew (s : State) : Act → Option State
  | .call t amt => if (s.thr t).pc = 4 ∨ (s.thr t).pc = 0 then some { s with thr := s.set t { pc := 0, amt := amt } } else none
  | .lock t => if (s.thr t).pc = 0 ∧ s.lock = none then some { s with lock := some t, thr := s.set t { s.thr t with pc := 1 } } else none
  | .add t => if (s.thr t).pc = 1 then some { s with mem := s.mem + (s.thr t).amt, thr := s.set t { s.thr t with pc := 2 } } else none
  | .persist t => if (s.thr t).pc = 2 then some { s with store := s.mem, thr := s.set t { s.thr t with pc := 3 } } else none
  | .unlock t => if (s.thr t).pc = 3 then some { s with lock := none, thr := s.set t { s.thr t with pc := 4 } } else none
  | .read _ => none

/-- the former code: pcs 0 idle, 1 locked, 2 added, 3 unlocked, 4 field read, 5 persisted/returned -/
def stepOld (s : State) : Act → Option State
  | .call t amt => if (s.thr t).pc = 5 ∨ (s.thr t).pc = 0 then some { s with thr := s.set t { pc := 0, amt := amt } } else none
  | .lock t => if (s.thr t).pc = 0 ∧ s.lock = none then some { s with lock := some t, thr := s.set t { s.thr t with pc := 1 } } else none
  | .add t => if (s.thr t).pc = 1 then some { s with mem := s.mem + (s.thr t).amt, thr := s.set t { s.thr t with pc := 2 } } else none
  | .unlock t => if (s.thr t).pc = 2 then some { s with lock := none, thr := s.set t { s.thr t with pc := 3 } } else none
  | .read t => if (s.thr t).pc = 3 then some { s with thr := s.set t { s.thr t with pc := 4, loc := s.mem } } else none
  | .persist t => if (s.thr t).pc = 4 then some { s with store := (s.thr t).loc, thr := s.set t { s.thr t with pc := 5 } } else none

def exec (step : State → Act → Option State) (s : State) : List Act → Option State
  | [] => some s
  | a :: as => match step s a with
    | some s' => exec step s' as
    | none => none

/-- no update is in flight (every goroutine is before Lock or has returned) -/
def QuiescentNew (s : State) : Prop := ∀ t, (s.thr t).pc = 0 ∨ (s.thr t).pc = 4
def QuiescentOld (s : State) : Prop := ∀ t, (s.thr t).pc = 0 ∨ (s.thr t).pc = 5

/-! ## Part 2: the coarse executable model used by the driver (repaired code) -/

inductive Dir | retrieve | transfer
deriving DecidableEq, Repr

inductive TStatus
  | parked (v : Nat)     -- inside the state-store Put (holding the peer lock) with value v
  | blocked              -- waiting for the peer lock
deriving DecidableEq, Repr

structure Active where
  tid : Nat
  addr : Nat
  dir : Dir
  amt : Nat
  st : TStatus
deriving Repr

structure Node where
  fwd : Nat → Option Nat          -- address book (memory)
  sFwd : Nat → Option Nat         -- address book (store)
  memR : Nat → Nat                -- retrieveTraffic
  memT : Nat → Nat                -- transferTraffic
  chq : Nat → Nat                 -- retrieveChequeTraffic
  stR : Nat → Option Nat          -- retrieved_traffic_
  stT : Nat → Option Nat          -- transferred_traffic_
  sLast : Nat → Option Nat        -- traffic_last_send_cheque_
  active : List Active

def Node.init : Node :=
  { fwd := fun _ => none, sFwd := fun _ => none, memR := fun _ => 0, memT := fun _ => 0, chq := fun _ => 0,
    stR := fun _ => none, stT := fun _ => none, sLast := fun _ => none, active := [] }

def upd {β : Type} (f : Nat → β) (a : Nat) (v : β) : Nat → β := fun x => if x = a then v else f x

def Node.busyAddr (n : Node) (a : Nat) : Bool := n.active.any (·.addr = a)
def Node.lockedAddr (n : Node) (a : Nat) : Bool := n.active.any fun x => x.addr = a && (match x.st with | .parked _ => true | .blocked => false)
def Node.waiter (n : Node) (a : Nat) : Option Active := n.active.find? fun x => x.addr = a && x.st = .blocked

/-- enter the critical section: add and reach the Put -/
def Node.enter (n : Node) (tid a : Nat) (d : Dir) (amt : Nat) : Node × Nat :=
  match d with
  | .retrieve => let v := n.memR a + amt; ({ n with memR := upd n.memR a v }, v)
  | .transfer => let v := n.memT a + amt; ({ n with memT := upd n.memT a v }, v)

inductive StartOut | nocheque | busy | parked (v : Nat) | blocked
deriving Repr

def Node.start (n : Node) (tid p : Nat) (d : Dir) (amt : Nat) : Node × StartOut :=
  if n.active.any (·.tid = tid) then (n, .busy) else
  match n.fwd p with
  | none => (n, .nocheque)
  | some a =>
    if (n.waiter a).isSome then (n, .busy)
    else if n.lockedAddr a then ({ n with active := n.active ++ [⟨tid, a, d, amt, .blocked⟩] }, .blocked)
    else
      let (n1, v) := n.enter tid a d amt
      ({ n1 with active := n1.active ++ [⟨tid, a, d, amt, .parked v⟩] }, .parked v)

inductive ReleaseOut | notparked | ok | woke (tid v : Nat)
deriving Repr

def Node.release (n : Node) (tid : Nat) : Node × ReleaseOut :=
  match n.active.find? (·.tid = tid) with
  | none => (n, .notparked)
  | some x =>
    match x.st with
    | .blocked => (n, .notparked)
    | .parked v =>
      let n1 : Node := match x.dir with
        | .retrieve => { n with stR := upd n.stR x.addr (some v) }
        | .transfer => { n with stT := upd n.stT x.addr (some v) }
      let n2 := { n1 with active := n1.active.filter (·.tid ≠ tid) }
      match n2.waiter x.addr with
      | none => (n2, .ok)
      | some w =>
        let (n3, v') := n2.enter w.tid w.addr w.dir w.amt
        ({ n3 with active := n3.active.map fun y => if y.tid = w.tid then { y with st := .parked v' } else y }, .woke w.tid v')

/-- crash + restart + Init: in-flight writes are lost; totals are restored as
    max(last cheque, stored total) (the chain stub reports 0 in C33 histories) -/
def Node.restart (n : Node) : Node :=
  { n with active := [],
           fwd := n.sFwd,
           chq := fun a => if (n.stR a).isSome || (n.stT a).isSome then (n.sLast a).getD 0 else 0,
           memR := fun a => if (n.stR a).isSome || (n.stT a).isSome then max ((n.sLast a).getD 0) ((n.stR a).getD 0) else 0,
           memT := fun a => if (n.stR a).isSome || (n.stT a).isSome then (n.stT a).getD 0 else 0 }

/-- `TrafficInit()` on a running node (the 24 h refresh): every address that has a persisted total is
    reset to max(chain value = 0, last cheque, stored total); other addresses and the address book
    are untouched.  Same restore rule as `restart`, without losing memory. -/
def Node.refreshAll (n : Node) : Node :=
  let inSet := fun a => (n.stR a).isSome || (n.stT a).isSome
  { n with chq := fun a => if inSet a then (n.sLast a).getD 0 else n.chq a,
           memR := fun a => if inSet a then max ((n.sLast a).getD 0) ((n.stR a).getD 0) else n.memR a,
           memT := fun a => if inSet a then (n.stT a).getD 0 else n.memT a }

/-- the `refresh` event of the harness on a quiescent node: a refresh overlapping one update of
    address `a`.  Sequential semantics of the code that exists: the refresh reads the persisted
    totals under the peer lock, so the update is applied (and persisted) after it.  The flag says
    whether the refresh touched `a` at all (it only visits addresses with a persisted total). -/
def Node.refreshUpdate (n : Node) (a : Nat) (d : Dir) (amt : Nat) : Node × Bool :=
  let touched := (n.stR a).isSome || (n.stT a).isSome
  let n1 := n.refreshAll
  let (n2, v) := n1.enter 0 a d amt
  let n3 : Node := match d with
    | .retrieve => { n2 with stR := upd n2.stR a (some v) }
    | .transfer => { n2 with stT := upd n2.stT a (some v) }
  (n3, touched)

/-- `Pay(peer, 1)` with delivery succeeding and ample chain balance; `none` = unknown peer -/
def Node.pay (n : Node) (p : Nat) : Option (Node × Option Nat) :=
  match n.fwd p with
  | none => none
  | some a =>
    if n.memR a - n.chq a < 1 then some (n, none)
    else
      let cum := n.memR a
      some ({ n with chq := upd n.chq a cum, sLast := upd n.sLast a (some cum) }, some cum)

/-- `Handshake(peer, recipient, signedCheque)` for a registered peer presenting a cheque of ours with
    cumulative payout `c` (signature and recipient check out): it replaces the recorded last sent
    cheque only if it is HIGHER (`putSendCheque`: cheque total := c, owed total := max owed c,
    persisted last cheque := c); `none` = unknown peer. -/
def Node.handshake (n : Node) (p c : Nat) : Option Node :=
  match n.fwd p with
  | none => none
  | some a =>
    if c > (n.sLast a).getD 0 then
      some { n with chq := upd n.chq a c, memR := upd n.memR a (max (n.memR a) c), sLast := upd n.sLast a (some c) }
    else some n

end Aurora.TrafficPersist
