import Aurora.Lemmas.Hive
/-!
# C29 — Peer-exchange replies respect the request

Model: `Aurora/Model/Hive.lean` (`onFindNode` after the `fix:` of the limit split).  The reply is
`reply st req c1 c2` where `c1`, `c2` are the two random truncations (`randPeersLimit`) as chosen
candidate indices.  Every theorem is for all peer orders, address books, requests (any `Int`
limit, any target bytes, any order list) and — where the truncation matters — all admissible
choices (`Adm`).  Environment hypotheses (never axioms), instantiated in the `example` at the end:
`BookOK` (the record stored under an overlay names that overlay — what `addressbook.Put(overlay, addr)`
callers maintain) and `Nodup` of Kad's two iteration orders (pslice is a set, C21).
-/
namespace Aurora.Hive

/-- **Never more peers than requested, at most 30 honoured**: `|reply| ≤ min (max limit 0) 30`. -/
theorem C29_reply_le_limit (st : St) (req : Req) (c1 c2 : List Nat) (hadm : Adm st req c1 c2) :
    ((reply st req c1 c2).length : Int) ≤ min (max req.limit 0) 30 := by
  obtain ⟨h1, h2⟩ := hadm
  have l1 := pick_length_le _ _ _ h1
  have l2 := pick_length_le _ _ _ h2
  have hs := limits_sum_le req.limit
  simp only [reply, List.length_append]
  simp only [findNode, findNodeWith] at l1 l2 ⊢
  omega

/-- every peer of the reply is the address-book record of a connected or known peer that passed
    `addrFunc`'s filter, and that peer is not the requester -/
theorem reply_cand (st : St) (req : Req) (c1 c2 : List Nat) (x : Rec) (hx : x ∈ reply st req c1 c2) :
    ∃ peers, (peers = st.conn ∨ peers = st.known) ∧
      Cand st req (peerPublic st req.requester) [req.requester] peers x := by
  simp only [reply, findNode, findNodeWith, List.mem_append] at hx
  rcases hx with hx | hx
  · have := pick_mem _ _ _ _ hx
    rcases (scan_spec st req _ st.conn [req.requester] []).1 x this with h | h
    · simp at h
    · exact ⟨st.conn, Or.inl rfl, h⟩
  · have := pick_mem _ _ _ _ hx
    rcases (scan_spec st req _ st.known _ []).1 x this with h | h
    · simp at h
    · obtain ⟨a, ha, hns, h1, h2, h3⟩ := h
      refine ⟨st.known, Or.inr rfl, a, ha, ?_, h1, h2, h3⟩
      intro hm
      apply hns
      apply List.mem_append_left
      exact (scan_spec st req _ st.conn [req.requester] []).2 a hm

/-- **The reply never contains the requester.** -/
theorem C29_no_requester (st : St) (req : Req) (c1 c2 : List Nat) (hb : BookOK st) :
    ∀ x ∈ reply st req c1 c2, x.overlay ≠ req.requester := by
  intro x hx
  obtain ⟨_, _, a, _, hns, hl, _, _⟩ := reply_cand st req c1 c2 x hx
  rw [hb a x hl]
  intro h
  exact hns (by simp [h])

/-- **Only peers whose proximity to the target is among the requested orders** (an `int32`
    order `v` is read as `uint8(v)`, exactly as `inArray` does). -/
theorem C29_pos_respected (st : St) (req : Req) (c1 c2 : List Nat) (hb : BookOK st) :
    ∀ x ∈ reply st req c1 c2, ∃ v ∈ req.pos, proximity req.target x.overlay = toU8 v := by
  intro x hx
  obtain ⟨_, _, a, _, _, hl, hin, _⟩ := reply_cand st req c1 c2 x hx
  rw [hb a x hl]
  simp only [inArray, List.any_eq_true, beq_iff_eq] at hin
  exact hin

/-- for order lists within `0..255` (all real orders are ≤ 31) this is plain membership -/
theorem C29_pos_respected_inrange (st : St) (req : Req) (c1 c2 : List Nat) (hb : BookOK st)
    (hr : ∀ v ∈ req.pos, 0 ≤ v ∧ v < 256) :
    ∀ x ∈ reply st req c1 c2, ((proximity req.target x.overlay : Nat) : Int) ∈ req.pos := by
  intro x hx
  obtain ⟨v, hv, h⟩ := C29_pos_respected st req c1 c2 hb x hx
  have := hr v hv
  have hvv : ((toU8 v : Nat) : Int) = v := by unfold toU8; omega
  rw [h, hvv]; exact hv

/-- **No peer is repeated.** -/
theorem C29_no_repeat (st : St) (req : Req) (c1 c2 : List Nat) (hadm : Adm st req c1 c2)
    (hb : BookOK st) (hc : st.conn.Nodup) (hk : st.known.Nodup) :
    ((reply st req c1 c2).map (·.overlay)).Nodup := by
  obtain ⟨h1, h2⟩ := hadm
  simp only [reply, findNode, findNodeWith, List.map_append] at h1 h2 ⊢
  refine List.nodup_append.2 ⟨?_, ?_, ?_⟩
  · exact pick_nodup _ _ _ h1 (scan_nodup st req _ hb st.conn _ [] (by simp) hc (by simp))
  · exact pick_nodup _ _ _ h2 (scan_nodup st req _ hb st.known _ [] (by simp) hk (by simp))
  · intro o ho o' ho' heq
    obtain ⟨y, hy, hyo⟩ := List.mem_map.1 ho'
    have hy' := pick_mem _ _ _ _ hy
    rcases (scan_spec st req _ st.known _ []).1 y hy' with h | h
    · simp at h
    · obtain ⟨a, _, hns, hl, _, _⟩ := h
      apply hns
      apply List.mem_append_right
      rw [← hb a y hl, hyo, ← heq]
      exact ho

/-- **No private-network address is offered to a requester with a public address unless
    explicitly allowed.** -/
theorem C29_no_private_to_public (st : St) (req : Req) (c1 c2 : List Nat)
    (hpub : peerPublic st req.requester = true) (hallow : st.allowPrivate = false) :
    ∀ x ∈ reply st req c1 c2, x.priv = false := by
  intro x hx
  obtain ⟨_, _, a, _, _, _, _, h⟩ := reply_cand st req c1 c2 x hx
  simpa [hpub, hallow] using h

/-- What the repair changed: with the pre-repair split (`limitConn = limitKnown = 1` unless
    `Limit > 2`) a request with limit 1 (or 0) gets two peers — one connected and one known. -/
theorem C29_limitsOld_counterexample :
    let a : Addr := [0x10]; let b : Addr := [0x11]; let q : Addr := [0xff]
    let st : St := { conn := [a], known := [b],
                     book := [(a, ⟨a, true, false⟩), (b, ⟨b, true, false⟩)], allowPrivate := false }
    ∀ lim ∈ [(1 : Int), 0, -1, -2147483648],
      (replyOld st { requester := q, limit := lim, target := [0x00], pos := [3] } [] []).length = 2 ∧
      ((reply st { requester := q, limit := lim, target := [0x00], pos := [3] } [] []).length : Int) ≤ max lim 0 := by
  decide

/-- Non-vacuity: a consistent book with duplicate-free peer orders and admissible choices exists,
    with a truncated connected part (two candidates, limit 3 ⇒ `limitConn = 2`… here limit 2 ⇒ 1),
    so `Adm`, `BookOK`, `Nodup` are jointly satisfiable with a non-empty reply. -/
example :
    let a : Addr := [0x10]; let b : Addr := [0x11]; let c : Addr := [0x12]; let q : Addr := [0xff]
    let st : St := { conn := [a, b], known := [a, b, c],
                     book := [(a, ⟨a, true, false⟩), (b, ⟨b, false, true⟩), (c, ⟨c, true, false⟩), (q, ⟨q, false, true⟩)],
                     allowPrivate := false }
    let req : Req := { requester := q, limit := 2, target := [0x00], pos := [3] }
    Adm st req [1] [0] ∧ BookOK st ∧ st.conn.Nodup ∧ st.known.Nodup ∧
      peerPublic st req.requester = false ∧
      (reply st req [1] [0]).map (·.overlay) = [b, a] := by
  intro a b c q st req
  refine ⟨⟨by decide, by decide⟩, bookOK_of_all st (by decide), by decide, by decide, by decide, by decide⟩

/-- … and the premises of `C29_no_private_to_public` (public requester, not allowed) are met on a
    state where a private peer is filtered out of the reply. -/
example :
    let a : Addr := [0x10]; let b : Addr := [0x11]; let q : Addr := [0xff]
    let st : St := { conn := [a, b], known := [a, b],
                     book := [(a, ⟨a, true, false⟩), (b, ⟨b, false, true⟩), (q, ⟨q, true, false⟩)],
                     allowPrivate := false }
    let req : Req := { requester := q, limit := 5, target := [0x00], pos := [3] }
    peerPublic st req.requester = true ∧ st.allowPrivate = false ∧
      (reply st req [] []).map (·.overlay) = [a] := by
  decide

end Aurora.Hive
