import Driver.Util
import Aurora.Model.NodeLite
/-!
Line-protocol driver for the node-lite model, shared by C12, C15, C16, C17.  The Go counterpart
is `harness/nodelite` (runner.go documents the ops).  Chunk addresses are small integers assigned
by the runner in order of first sight; the structure of a file arrives as annotation of its first
upload (`| r=<root> d=<entry:ids,…> h=<pyramid key ids> w=<put sequence>`), the chunks a fetch
touched as `| t=<ids>`, the outcome of pin/unpin of an encrypted reference as `| c=<code>`.
The model checks the admissibility of every annotation (same spec ⇒ same structure, equal
letters ⇒ equal data chunk ids, touched chunks belong to the file and cover the requested
positions) and answers `bad-annot` otherwise.

Output line: `<status> <dump>` or a bare guard word (`nofile`, `unstable`, `absent`, `bad-op`).
-/
namespace Driver.NodeLite
open Aurora.NodeLite Aurora.ChunkPyramid Aurora.ChunkInfo

abbrev NState := Aurora.NodeLite.State

structure DState where
  st : NState := {}
  /-- content letter ↦ data chunk id (admissibility of `d=`) -/
  letters : List (Char × Nat) := []
  /-- op counter = the pinned clock of the harness -/
  clock : Nat := 1

def parseIds (s : String) : Option (List Nat) :=
  if s = "-" then some [] else (s.splitOn ".").mapM (·.toNat?)

def insSort (lt : α → α → Bool) : List α → List α
  | [] => []
  | a :: l =>
    let rec ins (x : α) : List α → List α
      | [] => [x]
      | b :: r => if lt x b then x :: b :: r else b :: ins x r
    ins a (insSort lt l)

def joinWith (sep : String) (l : List String) : String := sep.intercalate l

def showBits (b : Bits) : String :=
  if b.isEmpty then "-" else String.ofList (b.map (fun x => if x then '1' else '0'))

def ovName (o : Ov) : String := if o = 0 then "n" else if o = 1 then "p" else "?"

def showOvBits (l : List (Ov × Bits)) : String :=
  let x := insSort (fun a b => decide (a < b)) (l.map (fun e => ovName e.1 ++ ">" ++ showBits e.2))
  if x.isEmpty then "-" else joinWith ";" x

def natList (l : List Nat) : String := joinWith "," ((insSort (fun a b => decide (a < b)) l).map toString)

def kvList (l : List (Nat × Nat)) : String :=
  joinWith "," ((insSort (fun a b => decide (a.1 < b.1)) l).map (fun e => s!"{e.1}={e.2}"))

/-- ids of 64-byte (encrypted) references: hidden everywhere but in the pin list -/
def encRoots (s : NState) : List Nat := (s.files.filter (·.2.enc)).map (·.2.fs.root)

def showState (s : NState) : String :=
  let db := s.ls.db
  let S := natList (db.data.map (·.1))
  let P := kvList db.pin
  let G := joinWith "," (db.gc.map (fun e => s!"{e.1.addr}={e.2}"))
  let A := natList (db.access.map (·.1))
  let C := kvList s.cp.chunk
  let roots := insSort (fun a b => decide (a < b))
    (dedup (s.cp.hashData.map (·.1) ++ s.ci.mem.presence.map (·.1) ++ s.ci.mem.discover.map (·.1) ++ s.ci.mem.source.map (·.1)))
  let R := joinWith " " (roots.map (fun r =>
    let hd := match s.cp.hashData.lookup r with
      | some (c, h) => s!"{c}/{h}"
      | none => "-"
    let pr := match s.ci.mem.presence.lookup r with
      | some m => let x := showOvBits m; if x = "-" then "e" else x
      | none => "-"
    let dc := match s.ci.mem.discover.lookup r with
      | some m => let x := showOvBits m; if x = "-" then "e" else x
      | none => "-"
    let sc := match s.ci.mem.source.lookup r with
      | some src => (match src.pyramid with | some o => ovName o | none => "?") ++ "!" ++ showOvBits src.chunks
      | none => "-"
    s!"{r}:h={hd}:p={pr}:d={dc}:s={sc}"))
  let keys : List String :=
    (s.ci.disk.keys.map (fun k => match k with
      | .chunk r o => s!"c:{r}:{ovName o}"
      | .discover r o => s!"d:{r}:{ovName o}"
      | .sourceChunk r o => s!"sc:{r}:{ovName o}"
      | .sourcePyramid r o => s!"sp:{r}:{ovName o}")) ++
    (s.pinned.map (fun r => s!"rp:{r}"))
  let K := joinWith "," (insSort (fun a b => decide (a < b)) keys)
  let L := natList s.pinned
  s!"S[{S}] P[{P}] G[{G}] A[{A}] Z={db.gcSize} C[{C}] R[{R}] K[{K}] L[{L}]"

/-- spec = entries `name/LETTERS` joined by `+` -/
def specEntries (spec : String) : Option (List (String × String)) :=
  if spec.isEmpty || spec.startsWith "=" then none else
  (spec.splitOn "+").mapM (fun e => match e.splitOn "/" with
    | [n, l] => if n.isEmpty || l.isEmpty then none else some (n, l)
    | _ => none)

def splitAnnot (op : List String) : List String × List String :=
  (op.takeWhile (· != "|"), (op.dropWhile (· != "|")).drop 1)

def annotVal (an : List String) (key : String) : Option String :=
  (an.find? (·.startsWith (key ++ "="))).map (fun s => (s.drop (key.length + 1)).toString)

/-- `d=name:ids,name:ids` -/
def parseSubs (s : String) : Option (List (String × List Nat)) :=
  if s = "-" then some [] else
  (s.splitOn ",").mapM (fun e => match e.splitOn ":" with
    | [n, ids] => (parseIds ids).map (fun l => (n, l))
    | _ => none)

/-- equal letters ⇔ equal data chunk ids, across all files of the case -/
def checkLetters (tab : List (Char × Nat)) : List Char → List Nat → Option (List (Char × Nat))
  | [], [] => some tab
  | c :: cs, i :: is =>
    match tab.lookup c with
    | some j => if i = j then checkLetters tab cs is else none
    | none => if tab.any (fun e => e.2 = i) then none else checkLetters (tab ++ [(c, i)]) cs is
  | _, _ => none

def setFile (s : NState) (spec : String) (fi : FileInfo) : NState :=
  { s with files := (s.files.filter (·.1 != spec)) ++ [(spec, fi)] }

def out (d : DState) (s : NState) (w : String) : DState × String :=
  ({ d with st := s }, w ++ " " ++ showState s)

/-- structure of an upload from its annotation; `none` = inadmissible -/
def learn (d : DState) (spec : String) (an : List String) : Option (DState × FileInfo) := do
  let ents ← specEntries spec
  let r ← (← annotVal an "r").toNat?
  let subs ← parseSubs (← annotVal an "d")
  let h ← parseIds (← annotVal an "h")
  let w ← parseIds (← annotVal an "w")
  -- every entry of the spec appears once, with one id per letter
  if subs.length != ents.length then none
  let tab ← subs.foldlM (fun tab (e : String × List Nat) =>
    match ents.lookup e.1 with
    | some letters => checkLetters tab letters.toList e.2
    | none => none) d.letters
  let fs : FileS := { root := r, subs := subs.map (·.2), hash := h }
  -- the put sequence covers exactly data ∪ pyramid keys; the root is a pyramid key
  if !(w.all (fun a => fs.all.contains a) && fs.all.all (fun a => w.contains a) && h.contains r) then none
  match d.st.files.lookup spec with
  | some old => if old.fs != fs then none else some ({ d with letters := tab }, { old with writes := w })
  | none => some ({ d with letters := tab }, { fs := fs, writes := w })

def stepBase (d : DState) (line : List String) : DState × String :=
  let (op, an) := splitAnnot line
  let d := { d with clock := d.clock + 1, st := { d.st with ls := { d.st.ls with clock := d.clock + 1 } } }
  let s := d.st
  let bad : DState × String := (d, "bad-op")
  match op with
  | ["up", spec, pin] =>
    if pin != "0" && pin != "1" then bad else
    match specEntries spec with
    | none => bad
    | some _ =>
      if (s.files.lookup spec).any (·.enc) then bad else
      match learn d spec an with
      | none => (d, "bad-annot")
      | some (d, fi) =>
        let fi := { fi with atN := true }
        let s1 := apiUpload (setFile d.st spec fi) fi (pin == "1")
        out d s1 "201"
  | ["pup", spec, pin] =>
    if pin != "0" && pin != "1" then bad else
    match specEntries spec with
    | none => bad
    | some _ =>
      if (s.files.lookup spec).any (·.enc) then bad else
      match learn d spec an with
      | none => (d, "bad-annot")
      | some (d, fi) => out d (setFile d.st spec { fi with atP := true }) "201"
  | ["upenc", spec, pin] =>
    if pin != "0" && pin != "1" then bad else
    match specEntries spec with
    | some [_] =>
      if (s.files.lookup spec).any (!·.enc) then bad else
      match (annotVal an "r").bind (·.toNat?) with
      | none => (d, "bad-annot")
      | some r =>
        let fi : FileInfo := { fs := { root := r }, enc := true, atN := true }
        let s1 := setFile s spec fi
        let s2 := if pin == "1" && !s1.pinned.contains r then { s1 with pinned := s1.pinned ++ [r] } else s1
        out d s2 "201"
    | _ => bad
  | ["raw", letters, pin] =>
    if pin != "0" && pin != "1" then bad else
    if letters.isEmpty then bad else
    let r? := (annotVal an "r").bind (·.toNat?)
    let d? := (annotVal an "d").bind parseIds
    let h? := (annotVal an "h").bind parseIds
    let w? := (annotVal an "w").bind parseIds
    match r?, d?, h?, w? with
    | some r, some dl, some h, some w =>
      match checkLetters d.letters letters.toList dl with
      | none => (d, "bad-annot")
      | some tab =>
        let fs : FileS := { root := r, subs := [dl], hash := h }
        if !(w.all (fun a => fs.all.contains a) && fs.all.all (fun a => w.contains a)) then (d, "bad-annot") else
        let fi : FileInfo := { fs := fs, writes := w, raw := true, atN := true }
        let d := { d with letters := tab }
        out d (apiUpload (setFile s ("=" ++ letters) fi) fi (pin == "1")) "201"
    | _, _, _, _ => (d, "bad-annot")
  | ["pins"] => out d s "200"
  | ["reinit"] =>
    let unstable : Bool := (diskRoots s).any (fun r => match fileOfRoot s r with
      | some fi => !complete s fi.fs
      | none => true)
    if unstable then (d, "unstable") else out d (reinit s) "ok"
  | ["gc", c] =>
    match c.toNat? with
    | none => bad
    | some c =>
      let unstable : Bool := s.ls.db.gc.any (fun e => match fileOfRoot s e.1.addr with
        | some fi => fi.enc || !complete s fi.fs
        | none => true)
      if unstable then (d, "unstable") else
      let (s1, n) := gc s c
      out d s1 s!"ok c={n}"
  | ["gcr", c, trig, act, tgt, which] =>
    match c.toNat?, specEntries trig, specEntries tgt with
    | some c, some _, some _ =>
      -- shape of the racing operation
      let sel? : Option (Option (Bool × Nat)) :=      -- none = bad; some none = pin/unpin; some (isHash, i) = get
        if act == "pin" || act == "unpin" then (if which == "-" then some none else none)
        else if act == "get" then
          if which.length < 2 || !(which.startsWith "d" || which.startsWith "h") then none
          else ((which.drop 1).toString.toNat?).map (fun i => some (which.startsWith "h", i))
        else none
      match sel? with
      | none => bad
      | some sel =>
        let unstable : Bool := s.ls.db.gc.any (fun e => match fileOfRoot s e.1.addr with
          | some fi => fi.enc || !complete s fi.fs
          | none => true)
        if unstable then (d, "unstable") else
        match s.files.lookup trig, s.files.lookup tgt with
        | some ft, some fg =>
          if ft.enc || fg.enc then bad else
          let g := fg.fs
          let a? : Option (Option Nat) := match sel with   -- none = bad index
            | none => some none
            | some (isHash, i) => ((if isHash then g.hash[i]? else g.data[i]?)).map some
          match a? with
          | none => bad
          | some a? =>
            if !known s g || !complete s g then (d, "unstable")
            else if (match a? with | some a => !stored s a | none => false) then (d, "absent")
            else
              let op : RaceOp := fun w =>
                if act == "pin" then apiPin w g
                else if act == "unpin" then apiUnpin w g
                else match a? with | some a => (nsGet w g a, 0) | none => (w, 0)
              let (s1, n, fired) := gcRace s c ([ft.fs.root], op)
              let r := match fired with
                | none => "-"
                | some code => if act == "get" then "ok" else toString code
              out d s1 s!"ok c={n} f={if fired.isSome then 1 else 0} r={r}"
        | _, _ => (d, "nofile")
    | _, _, _ => bad
  | ["gcr2", c, first, second] =>
    match c.toNat?, specEntries first, specEntries second with
    | some c, some _, some _ =>
      let unstable : Bool := s.ls.db.gc.any (fun e => match fileOfRoot s e.1.addr with
        | some fi => fi.enc || !complete s fi.fs
        | none => true)
      if unstable then (d, "unstable") else
      match s.files.lookup first, s.files.lookup second with
      | some f1, some f2 =>
        if f1.enc || f2.enc then bad
        else if !known s f1.fs || !complete s f1.fs then (d, "unstable")
        else
          let (s1, n, fired) := gcRace s c ([f1.fs.root, f2.fs.root], fun w => apiPin w f1.fs)
          let r := match fired with
            | none => "-"
            | some code => toString code
          out d s1 s!"ok c={n} f={if fired.isSome then 1 else 0} r={r}"
      | _, _ => (d, "nofile")
    | _, _, _ => bad
  | opname :: spec :: rest =>
    match specEntries spec with
    | none => bad
    | some _ =>
    match s.files.lookup spec with
    | none => (d, "nofile")
    | some fi =>
      let f := fi.fs
      match opname, rest with
      | "haspin", [] => out d s (if s.pinned.contains f.root then "200" else "404")
      | "pin", [] =>
        if fi.enc then
          match (annotVal an "c").bind (·.toNat?) with
          | some 201 => if s.pinned.contains f.root then (d, "bad-annot") else out d { s with pinned := s.pinned ++ [f.root] } "201"
          | some 200 => if s.pinned.contains f.root then out d s "200" else (d, "bad-annot")
          | some c => if c ≥ 400 then out d s (toString c) else (d, "bad-annot")
          | none => (d, "bad-annot")
        else if !complete s f then (d, "unstable")
        else if !known s f then (d, "unstable")
        else let (s1, c) := apiPin s f; out d s1 (toString c)
      | "unpin", [] =>
        if fi.enc then
          match (annotVal an "c").bind (·.toNat?) with
          | some 200 => if s.pinned.contains f.root then out d { s with pinned := s.pinned.filter (· != f.root) } "200" else (d, "bad-annot")
          | some 404 => if s.pinned.contains f.root then (d, "bad-annot") else out d s "404"
          | some c => if c ≥ 500 && s.pinned.contains f.root then out d s (toString c) else (d, "bad-annot")
          | none => (d, "bad-annot")
        else if !complete s f then (d, "unstable")
        else if !known s f then (d, "unstable")
        else let (s1, c) := apiUnpin s f; out d s1 (toString c)
      | "del", [] =>
        if fi.enc then bad
        else if !complete s f then (d, "unstable")
        else out d (apiDelete s f) "200"
      | "read", [] =>
        if fi.enc then bad else out d s (if readable s f then "ok" else "missing")
      | "pyr", [] =>
        if fi.enc then bad
        else if !fi.atP then (d, "nofile")
        else if known s f && !complete s f then (d, "unstable")
        else out d (findPyramid s f) "ok"
      | "ask", [] =>
        if fi.enc then bad
        else if !fi.atP then (d, "nofile")
        else if !known s f || !complete s f then (d, "unstable")
        else out d (ask s f) "ok"
      | "fetch", [k, mask] =>
        if fi.enc then bad else
        match k.toNat? with
        | none => bad
        | some k =>
          if k ≥ f.subs.length then bad
          else if !fi.atP then (d, "nofile")
          else
            let sub := f.subs.getD k []
            if mask.length != sub.length || !mask.toList.all (fun c => c == '0' || c == '1') then bad
            else if !known s f || !complete s f then (d, "unstable")
            else
              match (annotVal an "t").bind parseIds with
              | none => (d, "bad-annot")
              | some t =>
                let wanted := (sub.zip mask.toList).filter (·.2 == '1') |>.map (·.1)
                if !(t.all (fun a => f.all.contains a) && wanted.all (fun a => t.contains a)) then (d, "bad-annot")
                else out d (t.foldl (fun s a => nsGet s f a) s) "ok"
      | "serve", [which] =>
        if fi.enc || which.length < 2 then bad else
        match (which.drop 1).toString.toNat? with
        | none => bad
        | some i =>
          let a? : Option Nat :=
            if which.startsWith "h" then f.hash[i]? else if which.startsWith "d" then f.data[i]? else none
          match a? with
          | none => bad
          | some a =>
            if !known s f || !complete s f then (d, "unstable")
            else if !stored s a then (d, "absent")
            else out d (serve s f a) "ok"
      | "get", [which] =>
        if fi.enc || which.length < 2 then bad else
        match (which.drop 1).toString.toNat? with
        | none => bad
        | some i =>
          let a? : Option Nat :=
            if which.startsWith "h" then f.hash[i]? else if which.startsWith "d" then f.data[i]? else none
          match a? with
          | none => bad
          | some a =>
            if !known s f || !complete s f then (d, "unstable")
            else if !stored s a then (d, "absent")
            else out d (nsGet s f a) "ok"
      | "getfault", [which] =>
        if fi.enc || which.length < 2 then bad else
        match (which.drop 1).toString.toNat? with
        | none => bad
        | some i =>
          let a? : Option Nat :=
            if which.startsWith "h" then f.hash[i]? else if which.startsWith "d" then f.data[i]? else none
          match a? with
          | none => bad
          | some a =>
            if !known s f || !complete s f then (d, "unstable")
            else let (s1, ok) := nsGetFault s f a; out d s1 (if ok then "ok" else "err")
      | _, _ => bad
  | _ => bad

/-- `delr <A> up <B> <pin>` / `delr <A> del <B> -`: DELETE of A held at the entry of `DelFile` while
    an upload / a complete DELETE of B runs (`apiDeleteHeld`); every other op: `stepBase`.
    Output `<status of DELETE A> r=<status of the overlapping operation> <dump>`. -/
def step (d0 : DState) (line : List String) : DState × String :=
  let (op, an) := splitAnnot line
  match op with
  | ["delr", a, what, b, arg] =>
    let d := { d0 with clock := d0.clock + 1, st := { d0.st with ls := { d0.st.ls with clock := d0.clock + 1 } } }
    let s := d.st
    let bad : DState × String := (d, "bad-op")
    if what != "up" && what != "del" then bad else
    if (specEntries a).isNone || (specEntries b).isNone || a == b then bad else
    if (what == "up" && arg != "0" && arg != "1") || (what == "del" && arg != "-") then bad else
    match s.files.lookup a, s.files.lookup b with
    | none, _ => (d, "nofile")
    | some fa, fb? =>
      if what == "del" && fb?.isNone then (d, "nofile") else
      if fa.enc || fb?.any (·.enc) then bad else
      if !known s fa.fs || !complete s fa.fs then (d, "unstable") else
      if what == "del" then
        match fb? with
        | none => (d, "nofile")
        | some fb =>
          if !known s fb.fs || !complete s fb.fs then (d, "unstable") else
          out d (apiDeleteHeld s fa.fs (fun s => apiDelete s fb.fs)) "200 r=200"
      else
        -- the upload of B is the ordinary `up` step (it advances the clock once, as the runner does per op line)
        let (d1, w1) := stepBase d0 (["up", b, arg, "|"] ++ an)
        if !w1.startsWith "201 " then (d, w1) else
        out d1 (apiDeleteHeld d1.st fa.fs id) "200 r=201"
  | _ => stepBase d0 line

def handler : Driver.Handler := { σ := DState, init := {}, step := step }

end Driver.NodeLite
