import Aurora.Model.Subscribe
/-! Helper lemmas for C40 (subscribe): the table behaves as a map to lists, the guard
invariant ("every pending or applied subscription still has its unsubscription ahead of it"),
and the pre-repair transition function used by the historical counterexamples. -/
namespace Aurora.Subscribe

theorem tget_terase_self (t : Table) (k : Key) : tget (terase t k) k = [] := by
  induction t with
  | nil => rfl
  | cons p t ih =>
    obtain ⟨k', l⟩ := p
    by_cases h : k' = k
    · simp [terase, h, ih]
    · simp [terase, h, tget, ih]

theorem tget_terase_ne {k k' : Key} (h : k' ≠ k) (t : Table) : tget (terase t k') k = tget t k := by
  induction t with
  | nil => rfl
  | cons p t ih =>
    obtain ⟨c, l⟩ := p
    by_cases hc : c = k'
    · have : c ≠ k := by rw [hc]; exact h
      simp [terase, hc, tget, ih, h]
    · by_cases hck : c = k
      · subst hck; simp [terase, hc, tget]
      · simp [terase, hc, tget, hck, ih]

theorem tget_tset_self (t : Table) (k : Key) (l : List Notifier) : tget (tset t k l) k = l := by
  unfold tset
  by_cases h : l = []
  · simp [h, tget_terase_self]
  · simp [h, tget]

theorem tget_tset_ne {k k' : Key} (h : k' ≠ k) (t : Table) (l : List Notifier) :
    tget (tset t k' l) k = tget t k := by
  unfold tset
  by_cases hl : l = []
  · simp [hl, tget_terase_ne h]
  · simp [hl, tget, h, tget_terase_ne h]

theorem tget_addSub (t : Table) (e : Ev) (k : Key) :
    tget (addSub t e) k = if e.key = k then tget t k ++ [e.n] else tget t k := by
  unfold addSub
  by_cases h : e.key = k
  · subst h; simp [tget_tset_self]
  · simp [h, tget_tset_ne h]

theorem tget_removeAll (t : Table) (e : Ev) (k : Key) :
    tget (removeAll t e) k = if e.key = k then (tget t k).filter (fun x => x ≠ e.n) else tget t k := by
  unfold removeAll
  by_cases h : e.key = k
  · subst h; simp [tget_tset_self]
  · simp [h, tget_tset_ne h]

theorem mem_tget_drain (q : List Ev) : ∀ (t : Table) (k : Key) (n : Notifier),
    n ∈ tget (drain t q) k ↔ n ∈ tget t k ∨ (⟨k, n⟩ : Ev) ∈ q := by
  induction q with
  | nil => intro t k n; simp [drain]
  | cons e q ih =>
    intro t k n
    have : drain t (e :: q) = drain (addSub t e) q := rfl
    rw [this, ih, tget_addSub]
    by_cases h : e.key = k
    · simp only [h, if_true, List.mem_append, List.mem_singleton, List.mem_cons]
      constructor
      · rintro ((h1 | h1) | h1)
        · exact Or.inl h1
        · right; left
          cases e; simp_all
        · exact Or.inr (Or.inr h1)
      · rintro (h1 | h1 | h1)
        · exact Or.inl (Or.inl h1)
        · left; right
          cases e; simp_all
        · exact Or.inr h1
    · simp only [h, if_false, List.mem_cons]
      constructor
      · rintro (h1 | h1)
        · exact Or.inl h1
        · exact Or.inr (Or.inr h1)
      · rintro (h1 | h1 | h1)
        · exact Or.inl h1
        · exfalso; apply h; rw [← h1]
        · exact Or.inr h1

theorem run_cons (s : State) (a : Act) (acts : List Act) : run s (a :: acts) = run (step s a) acts := rfl

theorem run_append (s : State) (xs ys : List Act) : run s (xs ++ ys) = run (run s xs) ys := by
  simp [run, List.foldl_append]

/-- every `Notify` of a `Publish` goes to a notifier that is in the list of that key -/
theorem mem_deliveries {t : Table} {keys : List Key} {m : Msg} {d : Delivery}
    (h : d ∈ deliveries t keys m) : d.n ∈ tget t d.key ∧ d.key ∈ keys ∧ d.msg = m := by
  simp only [deliveries, List.mem_flatMap, List.mem_map] at h
  obtain ⟨k, hk, n, hn, hd⟩ := h
  subst hd
  exact ⟨hn, hk, rfl⟩

theorem deliveries_mem {t : Table} {keys : List Key} {m : Msg} {k : Key} {n : Notifier}
    (hk : k ∈ keys) (hn : n ∈ tget t k) : (⟨n, k, m⟩ : Delivery) ∈ deliveries t keys m := by
  simp only [deliveries, List.mem_flatMap, List.mem_map]
  exact ⟨k, hk, n, hn, rfl⟩

/-! ### the guard invariant -/

/-- every subscription of `(k, n)` that is pending or applied still has an unsubscription ahead of
    it: a goroutine waiting on `n.Err()` or an event in the unsubscribe channel -/
def Guard (s : State) : Prop :=
  ∀ k n, (n ∈ tget s.table k ∨ (⟨k, n⟩ : Ev) ∈ s.subQ) →
    ((⟨k, n⟩ : Ev) ∈ s.waiting ∨ (⟨k, n⟩ : Ev) ∈ s.unsubQ)

theorem guard_init : Guard init := by
  intro k n h
  rcases h with h | h <;> simp [init, tget] at h

/-- moving one waiting goroutine's event to the unsubscribe channel keeps the guard -/
theorem guard_move {s : State} (e : Ev) (h : Guard s) :
    Guard { s with waiting := s.waiting.erase e, unsubQ := s.unsubQ ++ [e] } := by
  intro k n hs
  rcases h k n hs with hw | hu
  · by_cases he : (⟨k, n⟩ : Ev) = e
    · right; simp [he]
    · left; exact (List.mem_erase_of_ne he).mpr hw
  · right; simp [hu]

theorem guard_step {s : State} (a : Act) (h : Guard s) : Guard (step s a) := by
  cases a with
  | subscribe n' k' =>
    intro k n hs
    simp only [step, List.mem_append, List.mem_singleton] at hs ⊢
    rcases hs with hs | hs | hs
    · rcases h k n (Or.inl hs) with h1 | h1
      · exact Or.inl (Or.inl h1)
      · exact Or.inr h1
    · rcases h k n (Or.inr hs) with h1 | h1
      · exact Or.inl (Or.inl h1)
      · exact Or.inr h1
    · exact Or.inl (Or.inr hs)
  | errFires n' => exact h
  | errOne n' =>
    simp only [step]
    cases s.waiting.find? (fun e => e.n = n') with
    | none => exact h
    | some e => exact guard_move e h
  | wake e =>
    simp only [step]
    split
    · exact guard_move e h
    · exact h
  | processSub =>
    simp only [step]
    cases hq : s.subQ with
    | nil => simpa [hq] using h
    | cons e q =>
      intro k n hs
      simp only [tget_addSub] at hs
      apply h k n
      rw [hq]
      rcases hs with hs | hs
      · by_cases hk : e.key = k
        · simp only [hk, if_true, List.mem_append, List.mem_singleton] at hs
          rcases hs with hs | hs
          · exact Or.inl hs
          · right; cases e; simp_all
        · simp only [hk, if_false] at hs; exact Or.inl hs
      · exact Or.inr (List.mem_cons_of_mem _ hs)
  | processUnsub =>
    simp only [step]
    cases hq : s.unsubQ with
    | nil => simpa [hq] using h
    | cons e q =>
      intro k n hs
      simp only [List.not_mem_nil, or_false, tget_removeAll] at hs
      have hne : (⟨k, n⟩ : Ev) ≠ e ∧ n ∈ tget (drain s.table s.subQ) k := by
        by_cases hk : e.key = k
        · simp only [hk, if_true, List.mem_filter, decide_eq_true_eq] at hs
          refine ⟨?_, hs.1⟩
          intro he; apply hs.2; rw [← he]
        · simp only [hk, if_false] at hs
          refine ⟨?_, hs⟩
          intro he; apply hk; rw [← he]
      have hold := h k n ((mem_tget_drain s.subQ s.table k n).mp hne.2)
      rw [hq] at hold
      rcases hold with h1 | h1
      · exact Or.inl h1
      · right
        rcases List.mem_cons.mp h1 with h2 | h2
        · exact absurd h2 hne.1
        · exact h2
  | publish keys m => exact h

theorem guard_run (acts : List Act) : ∀ s : State, Guard s → Guard (run s acts) := by
  induction acts with
  | nil => intro s h; exact h
  | cons a acts ih => intro s h; exact ih _ (guard_step a h)

/-! ### "no unsubscription of (k, n) is processed during `acts`" -/

/-- action `a` taken in `s` processes an unsubscription of notifier `n` for key `k` -/
def unsubOf (k : Key) (n : Notifier) (s : State) (a : Act) : Prop :=
  a = Act.processUnsub ∧ s.unsubQ.head? = some ⟨k, n⟩

def NoUnsub (k : Key) (n : Notifier) : State → List Act → Prop
  | _, [] => True
  | s, a :: acts => ¬ unsubOf k n s a ∧ NoUnsub k n (step s a) acts

instance (s : State) : Decidable (Quiescent s) := by unfold Quiescent; infer_instance

instance decUnsubOf (k : Key) (n : Notifier) (s : State) (a : Act) : Decidable (unsubOf k n s a) := by
  unfold unsubOf; infer_instance

def decNoUnsub (k : Key) (n : Notifier) : (s : State) → (acts : List Act) → Decidable (NoUnsub k n s acts)
  | _, [] => isTrue trivial
  | s, a :: acts =>
    match decUnsubOf k n s a, decNoUnsub k n (step s a) acts with
    | isTrue h1, _ => isFalse (fun h => h.1 h1)
    | isFalse _, isFalse h2 => isFalse (fun h => h2 h.2)
    | isFalse h1, isTrue h2 => isTrue ⟨h1, h2⟩

instance (k : Key) (n : Notifier) (s : State) (acts : List Act) : Decidable (NoUnsub k n s acts) :=
  decNoUnsub k n s acts

theorem subscribed_step {s : State} {k : Key} {n : Notifier} (a : Act)
    (hm : n ∈ tget s.table k) (hno : ¬ unsubOf k n s a) : n ∈ tget (step s a).table k := by
  cases a with
  | subscribe n' k' => exact hm
  | errFires n' => exact hm
  | errOne n' =>
    simp only [step]
    cases s.waiting.find? (fun e => e.n = n') <;> exact hm
  | wake e => simp only [step]; split <;> exact hm
  | processSub =>
    simp only [step]
    cases hq : s.subQ with
    | nil => exact hm
    | cons e q =>
      simp only [tget_addSub]
      split
      · exact List.mem_append_left _ hm
      · exact hm
  | processUnsub =>
    simp only [step]
    cases hq : s.unsubQ with
    | nil => exact hm
    | cons e q =>
      have hne : e ≠ ⟨k, n⟩ := by
        intro he; apply hno; exact ⟨rfl, by rw [hq, he]; rfl⟩
      have hd : n ∈ tget (drain s.table s.subQ) k := (mem_tget_drain _ _ _ _).mpr (Or.inl hm)
      simp only [tget_removeAll]
      by_cases hk : e.key = k
      · simp only [hk, if_true, List.mem_filter, decide_eq_true_eq]
        refine ⟨hd, ?_⟩
        intro hn; apply hne; cases e; simp_all
      · simp only [hk, if_false]; exact hd
  | publish keys m => exact hm

theorem subscribed_run {k : Key} {n : Notifier} (acts : List Act) :
    ∀ s : State, n ∈ tget s.table k → NoUnsub k n s acts → n ∈ tget (run s acts).table k := by
  induction acts with
  | nil => intro s h _; exact h
  | cons a acts ih =>
    intro s h hno
    exact ih _ (subscribed_step a h hno.1) hno.2

/-- the log only grows -/
theorem log_prefix (acts : List Act) : ∀ s : State, ∃ d, (run s acts).log = s.log ++ d := by
  induction acts with
  | nil => intro s; exact ⟨[], by simp [run]⟩
  | cons a acts ih =>
    intro s
    obtain ⟨d, hd⟩ := ih (step s a)
    rw [run_cons, hd]
    cases a with
    | publish keys m => exact ⟨deliveries s.table keys m ++ d, by simp [step]⟩
    | subscribe n k => exact ⟨d, rfl⟩
    | errFires n => exact ⟨d, rfl⟩
    | errOne n =>
      refine ⟨d, ?_⟩
      simp only [step]
      cases s.waiting.find? (fun e => e.n = n) <;> rfl
    | wake e =>
      refine ⟨d, ?_⟩
      simp only [step]; split <;> rfl
    | processSub =>
      refine ⟨d, ?_⟩
      simp only [step]; cases s.subQ <;> rfl
    | processUnsub =>
      refine ⟨d, ?_⟩
      simp only [step]; cases s.unsubQ <;> rfl

/-- `(k, n)` is neither subscribed nor about to be -/
def Gone (k : Key) (n : Notifier) (s : State) : Prop :=
  n ∉ tget s.table k ∧ (⟨k, n⟩ : Ev) ∉ s.subQ

theorem gone_step {s : State} {k : Key} {n : Notifier} (a : Act) (h : Gone k n s)
    (ha : a ≠ Act.subscribe n k) : Gone k n (step s a) := by
  obtain ⟨h1, h2⟩ := h
  cases a with
  | subscribe n' k' =>
    refine ⟨h1, ?_⟩
    simp only [step, List.mem_append, List.mem_singleton, not_or]
    refine ⟨h2, ?_⟩
    intro he; apply ha
    simp only [Ev.mk.injEq] at he
    rw [he.1, he.2]
  | errFires n' => exact ⟨h1, h2⟩
  | errOne n' =>
    simp only [step]
    cases s.waiting.find? (fun e => e.n = n') <;> exact ⟨h1, h2⟩
  | wake e => simp only [step]; split <;> exact ⟨h1, h2⟩
  | processSub =>
    simp only [step]
    cases hq : s.subQ with
    | nil => show Gone k n s; exact ⟨h1, h2⟩
    | cons e q =>
      rw [hq] at h2
      simp only [List.mem_cons, not_or] at h2
      refine ⟨?_, h2.2⟩
      simp only [tget_addSub]
      by_cases hk : e.key = k
      · simp only [hk, if_true, List.mem_append, List.mem_singleton, not_or]
        refine ⟨h1, ?_⟩
        intro hn; apply h2.1; cases e; simp_all
      · simp only [hk, if_false]; exact h1
  | processUnsub =>
    simp only [step]
    cases hq : s.unsubQ with
    | nil => exact ⟨h1, h2⟩
    | cons e q =>
      refine ⟨?_, by simp⟩
      have hd : n ∉ tget (drain s.table s.subQ) k := by
        rw [mem_tget_drain]; simp [h1, h2]
      simp only [tget_removeAll]
      by_cases hk : e.key = k
      · simp only [hk, if_true, List.mem_filter, not_and]
        intro hx; exact absurd hx hd
      · simp only [hk, if_false]; exact hd
  | publish keys m => exact ⟨h1, h2⟩

theorem gone_run {k : Key} {n : Notifier} (acts : List Act) :
    ∀ s : State, Gone k n s → (∀ a ∈ acts, a ≠ Act.subscribe n k) → Gone k n (run s acts) := by
  induction acts with
  | nil => intro s h _; exact h
  | cons a acts ih =>
    intro s h hna
    exact ih _ (gone_step a h (hna a (List.mem_cons_self ..))) (fun b hb => hna b (List.mem_cons_of_mem _ hb))

/-! ### the code before the two repairs (for the historical counterexamples) -/

/-- the removal loop without `j--`: the element after a deleted one is skipped -/
def removeSkip (n : Notifier) : List Notifier → List Notifier
  | [] => []
  | x :: xs =>
    if x = n then
      match xs with
      | [] => []
      | y :: ys => y :: removeSkip n ys
    else x :: removeSkip n xs

/-- `process` before the repairs: no `drainSubs`, removal loop without `j--` -/
def stepOld (s : State) : Act → State
  | .processUnsub =>
    match s.unsubQ with
    | [] => s
    | e :: q => { s with unsubQ := q, table := tset s.table e.key (removeSkip e.n (tget s.table e.key)) }
  | a => step s a

def runOld (s : State) (acts : List Act) : State := acts.foldl stepOld s

/-! ### a parked `Publish` and the memory level -/

theorem splitSlow_append {slow : Notifier} : ∀ {ds a b : List Delivery},
    splitSlow slow ds = some (a, b) → a ++ b = ds := by
  intro ds
  induction ds with
  | nil => intro a b h; simp [splitSlow] at h
  | cons d ds ih =>
    intro a b h
    unfold splitSlow at h
    split at h
    · simp at h; obtain ⟨rfl, rfl⟩ := h; rfl
    · split at h
      · rename_i a' b' heq
        simp at h; obtain ⟨rfl, rfl⟩ := h
        simp [ih heq]
      · simp at h

/-- a parked publish that is released with the table unchanged makes exactly the calls of an
    unparked one: nothing is lost or repeated by parking as such -/
theorem pubUntilParked_complete (t : Table) (m : Msg) (slow : Notifier) : ∀ keys : List Key,
    (pubUntilParked t m slow keys).1 ++
      (match (pubUntilParked t m slow keys).2 with
       | none => []
       | some p => pubResume t m p) = deliveries t keys m := by
  intro keys
  induction keys with
  | nil => simp [pubUntilParked, deliveries]
  | cons k ks ih =>
    unfold pubUntilParked
    simp only
    split
    · rename_i a b heq
      simp only [pubResume, deliveries, List.flatMap_cons]
      rw [← List.append_assoc, splitSlow_append heq]
    · simp only [deliveries, List.flatMap_cons, List.append_assoc]
      rw [ih]
      rfl

theorem view_append_lt (m : Arrays) (c : List Notifier) (p : Slice) (hp : p.arr < m.length) :
    view (m ++ [c]) p = view m p := by
  unfold view
  simp [List.getD, List.getElem?_append_left hp]

theorem view_append_new (m : Arrays) (c : List Notifier) :
    view (m ++ [c]) ⟨m.length, c.length⟩ = c := by
  unfold view
  simp [List.getD]

end Aurora.Subscribe
