package kadh

// Events of the Kad harness as data (shared by the single-event op lines and by `racerecalc`),
// and the `racerecalc` op: a forced overlap of depth-recomputing notifications.
//
//	racerecalc <n> <ev0> <ev1> … <evm>      (1 <= n <= 999, 1 <= m+1 <= 8 events)
//
// every <ev> is an event op line with `:` instead of blanks (`reach:<a>:pub`, `radius:3`,
// `disc:<a>`, `conn:<a>:1`, `out:<a>:full`, `force:<a>`); ev0 must not be `force` (its two
// recalculations are separated by further set changes, so it is not "one change, one
// recalculation").  On a Kad in boot-node mode the op answers `norace` (Connected may kick a random
// peer there).
//
// What it does on the REAL Kad: ev0 is started in its own goroutine with the reachability-filter
// gate armed: the n-th filter call made from inside the event's depth recalculation (a
// `recalcDepth` frame on the stack that was not entered from the saturation function) parks.
// While it is parked, ev1 … evm are fired one after the other from a second goroutine.  On the
// unchanged code ev0 holds depthMu while it is parked, so ev1 runs up to its own
// `depthMu.Lock()` and blocks there (ev2 … have not started); the runner waits until the second
// goroutine has finished or has made no progress for raceGrace, opens the gate, and joins both
// goroutines (watchdog raceWatchdog).  Because depthMu serialises the recalculations, the quiescent
// result on the unchanged code is exactly the sequential composition ev0; ev1; …; evm — that is
// what the Lean model computes for this line (answer: the events' results joined by `,` and the
// final depth `d=<n>`).  If ev0 never reaches the n-th filter call the op IS the sequential
// composition.  A tree in which the recalculation no longer happens under depthMu lets ev1 … evm
// complete while ev0 is parked and ev0 then stores a depth computed from the older radius / peer
// set; the model-free oracle clauses (run on the quiescent state as after every op) and the
// answer's `d=` catch that.

import (
	"context"
	"errors"
	"fmt"
	"os"
	"runtime"
	"strconv"
	"strings"
	"sync"
	"sync/atomic"
	"time"

	"github.com/gauss-project/aurorafs/pkg/boson"
	"github.com/gauss-project/aurorafs/pkg/p2p"
	"github.com/gauss-project/aurorafs/pkg/topology"

	"verifharness/core"
)

const (
	raceGrace    = 15 * time.Millisecond // how long the overlapping goroutine may go without finishing an event
	raceWatchdog = 10 * time.Second      // join timeout after the gate is opened
	raceMaxEv    = 8
)

// ValidEvent: op is a well-formed depth-relevant event line (conn/out/disc/force/reach/radius).
func ValidEvent(op []string) bool {
	if len(op) == 0 {
		return false
	}
	addr := func(s string) bool { _, ok := ParseAddr(s); return ok }
	switch op[0] {
	case "conn":
		return len(op) == 3 && (op[2] == "0" || op[2] == "1") && addr(op[1])
	case "out":
		return len(op) == 3 && (op[2] == "full" || op[2] == "boot") && addr(op[1])
	case "disc", "force":
		return len(op) == 2 && addr(op[1])
	case "reach":
		if len(op) != 3 {
			return false
		}
		_, ok := parseStatus(op[2])
		return ok && addr(op[1])
	case "radius":
		if len(op) != 2 {
			return false
		}
		n, err := strconv.Atoi(op[1])
		return err == nil && n >= 0 && n <= 255
	}
	return false
}

// callEvent makes the one call on the real Kad that a (valid) event line stands for and maps its
// result; it touches no runner bookkeeping, so it may run on any goroutine.
func (r *Runner) callEvent(op []string) string {
	k := r.K
	switch op[0] {
	case "conn":
		a, _ := ParseAddr(op[1])
		err := k.Connected(context.Background(), FullPeer(a), op[2] == "1")
		switch {
		case err == nil:
			return "ok"
		case errors.Is(err, topology.ErrOversaturated):
			return "oversat"
		}
		return "err"
	case "out":
		a, _ := ParseAddr(op[1])
		if op[2] == "boot" {
			k.Outbound(BootPeer(a))
		} else {
			k.Outbound(FullPeer(a))
		}
		return "ok"
	case "disc":
		a, _ := ParseAddr(op[1])
		k.Disconnected(FullPeer(a), "verif")
		return "ok"
	case "force":
		a, _ := ParseAddr(op[1])
		if err := k.DisconnectForce(a, "verif"); err != nil {
			return "err"
		}
		return "ok"
	case "reach":
		a, _ := ParseAddr(op[1])
		st, _ := parseStatus(op[2])
		k.Reachable(a, st)
		return "ok"
	case "radius":
		n, _ := strconv.Atoi(op[1])
		k.SetRadius(uint8(n))
		return "ok"
	}
	return "bad-op"
}

// bookEvent is the oracle bookkeeping (Live / StaleReach / Radius) that follows an event.
func (r *Runner) bookEvent(op []string, res string) {
	switch op[0] {
	case "conn":
		if res == "ok" {
			a, _ := ParseAddr(op[1])
			r.Live[a.ByteString()] = true
			r.StaleReach = false
		}
	case "out":
		if op[2] != "boot" {
			a, _ := ParseAddr(op[1])
			r.Live[a.ByteString()] = true
			r.StaleReach = false
		}
	case "disc":
		a, _ := ParseAddr(op[1])
		delete(r.Live, a.ByteString())
		r.StaleReach = false
	case "force":
		if res == "ok" {
			a, _ := ParseAddr(op[1])
			delete(r.Live, a.ByteString())
			r.StaleReach = false
		}
	case "reach":
		st, _ := parseStatus(op[2])
		r.StaleReach = st != p2p.ReachabilityStatusPublic
	case "radius":
		n, _ := strconv.Atoi(op[1])
		if uint8(n) != r.Radius {
			r.StaleReach = false
		}
		r.Radius = uint8(n)
	}
}

// ---------------------------------------------------------------------------------------------
// the gate in front of the reachability filter

type gate struct {
	on      int32 // atomic: 1 while armed (fast path for the unarmed case)
	mu      sync.Mutex
	left    int
	parked  chan struct{}
	release chan struct{}
}

// inDepthRecalc: the calling goroutine is inside kademlia.recalcDepth, entered from an event
// handler (not from binSaturated's "potential depth" over the known peers, which runs without
// depthMu by design).
func inDepthRecalc() bool {
	var pcs [48]uintptr
	n := runtime.Callers(1, pcs[:])
	fr := runtime.CallersFrames(pcs[:n])
	in, prevRecalc := false, false
	for {
		f, more := fr.Next()
		// the closure returned by binSaturated shows up as `kademlia.binSaturated.func1` or, inlined
		// into its creator, as `kademlia.New.binSaturated.func3`
		if strings.Contains(f.Function, "binSaturated") {
			return false
		}
		if prevRecalc && !strings.Contains(f.Function, "kademlia.(*Kad).") {
			return false // recalcDepth called by something that is not a Kad method
		}
		prevRecalc = strings.HasSuffix(f.Function, "kademlia.recalcDepth")
		if prevRecalc {
			in = true
		}
		if !more {
			break
		}
	}
	return in
}

func (g *gate) hit() {
	if atomic.LoadInt32(&g.on) == 0 {
		return
	}
	g.mu.Lock()
	if atomic.LoadInt32(&g.on) == 0 || !inDepthRecalc() {
		g.mu.Unlock()
		return
	}
	g.left--
	if g.left > 0 {
		g.mu.Unlock()
		return
	}
	atomic.StoreInt32(&g.on, 0)
	parked, release := g.parked, g.release
	g.mu.Unlock()
	if os.Getenv("VERIF_KADH_STATS") == "3" {
		buf := make([]byte, 1<<14)
		fmt.Fprintf(os.Stderr, "kadh: parked at\n%s\n", buf[:runtime.Stack(buf, false)])
	}
	close(parked)
	<-release
}

func (g *gate) arm(n int) (parked, release chan struct{}) {
	g.mu.Lock()
	g.left, g.parked, g.release = n, make(chan struct{}), make(chan struct{})
	parked, release = g.parked, g.release
	atomic.StoreInt32(&g.on, 1)
	g.mu.Unlock()
	return
}

func (g *gate) disarm() {
	g.mu.Lock()
	atomic.StoreInt32(&g.on, 0)
	g.mu.Unlock()
}

// installGate wraps the Kad's own filter (Kad.peerUnreachable) — the wrapped filter still decides.
func (r *Runner) installGate() {
	g := &gate{}
	r.gate = g
	r.K.VerifWrapPeerFilter(func(next func(boson.Address) bool) func(boson.Address) bool {
		return func(a boson.Address) bool {
			g.hit()
			return next(a)
		}
	})
}

// RaceStats counts, over the life of the process, how the racerecalc ops went (diagnostics only;
// printed by Close when VERIF_KADH_STATS is set).
var RaceStats struct{ Ops, Parked, Overlapped, Blocked int64 }

func (r *Runner) raceRecalc(ctx *core.Ctx, op []string) string {
	if len(op) < 3 || len(op) > 2+raceMaxEv {
		return "bad-op"
	}
	n, err := strconv.Atoi(op[1])
	if err != nil || n < 1 || n > 999 || strconv.Itoa(n) != op[1] {
		return "bad-op"
	}
	var evs [][]string
	for _, t := range op[2:] {
		ev := strings.Split(t, ":")
		if !ValidEvent(ev) {
			return "bad-op"
		}
		evs = append(evs, ev)
	}
	if evs[0][0] == "force" {
		return "bad-op"
	}
	if r.BootMode {
		return "norace"
	}
	atomic.AddInt64(&RaceStats.Ops, 1)
	res := make([]string, len(evs))

	parked, release := r.gate.arm(n)
	doneA := make(chan struct{})
	go func() {
		defer close(doneA)
		defer func() {
			if recover() != nil {
				res[0] = "panic"
			}
		}()
		res[0] = r.callEvent(evs[0])
	}()
	isParked := false
	select {
	case <-parked:
		isParked = true
	case <-doneA:
	case <-time.After(raceWatchdog):
		r.gate.disarm()
		ctx.Fail("race-hang", "`%v`: the first event neither finished nor reached the filter within %v", op, raceWatchdog)
		return "hang"
	}
	r.gate.disarm()

	doneB := make(chan struct{})
	progress := make(chan struct{}, len(evs))
	runB := func() {
		defer close(doneB)
		for i := 1; i < len(evs); i++ {
			func() {
				defer func() {
					if recover() != nil {
						res[i] = "panic"
					}
				}()
				res[i] = r.callEvent(evs[i])
			}()
			progress <- struct{}{}
		}
	}
	if !isParked {
		// ev0 is over: plain sequential composition
		runB()
	} else {
		atomic.AddInt64(&RaceStats.Parked, 1)
		go runB()
		finished := 0
	wait:
		for {
			select {
			case <-doneB:
				break wait
			case <-progress:
				finished++
			case <-time.After(raceGrace):
				break wait
			}
		}
		select {
		case <-doneB:
			if len(evs) > 1 {
				atomic.AddInt64(&RaceStats.Overlapped, 1) // everything ran while ev0 was inside its recalculation
				if os.Getenv("VERIF_KADH_STATS") == "2" {
					fmt.Fprintf(os.Stderr, "kadh: overlapped completely: %v -> %v\n", op, res[1:])
				}
			}
		default:
			atomic.AddInt64(&RaceStats.Blocked, 1)
		}
		_ = finished
		close(release)
		tmo := time.After(raceWatchdog)
		for _, ch := range []chan struct{}{doneA, doneB} {
			select {
			case <-ch:
			case <-tmo:
				ctx.Fail("race-hang", "`%v`: events still running %v after the parked recalculation was released", op, raceWatchdog)
				return "hang"
			}
		}
	}
	for i, ev := range evs {
		r.bookEvent(ev, res[i])
	}
	r.Kicked = nil
	return strings.Join(res, ",") + " d=" + strconv.Itoa(int(r.K.NeighborhoodDepth()))
}
