import Aurora.Model.Kv
/-
Model of the two `storage.StateStorer` implementations (property C18), after the two `fix:`
commits (callback error kept by the leveldb store; sorted keys in the mock):

* `/repo/pkg/statestore/leveldb/leveldb.go` — `Level`: a `Kv.Store`; `Iterate` is
  `Search{Prefix, MatchPrefix}` = goleveldb iterator restricted to `util.BytesPrefix(prefix)`
  (`[prefix, bytesIncrement prefix)`), `Seek(prefix)`, then the callback loop.
* `/repo/pkg/statestore/mock/store.go` — `Mock`: a Go map, modelled as an association list in
  *arbitrary* order without duplicate keys (`mput` puts the newest first, which is as good as any
  order: nothing below depends on it); `Iterate` collects the matching keys, sorts them
  (`sort.Strings` = byte order) and looks each one up.

Values are the payload bytes; the JSON / BinaryMarshaler encoding is an injective codec that
the harness applies and inverts on the Go side.  Only user keys are modelled (each store also
holds one private schema key that the harness hides).  `reopen` of the on-disk store is the
identity on the contents (goleveldb durability is part of the trusted base).
-/
namespace Aurora.StateStore
open Aurora.Kv

/-! ### leveldb store -/

abbrev Level := Store

def Level.put (s : Level) (k v : Bytes) : Level := Kv.put s k v
def Level.get (s : Level) (k : Bytes) : Option Bytes := Kv.get s k
def Level.delete (s : Level) (k : Bytes) : Level := Kv.delete s k
def Level.reopen (s : Level) : Level := s

/-- entries a goleveldb iterator with `util.BytesPrefix(p)` can see -/
def rangeView (s : Store) (p : Bytes) : Store :=
  s.filter (fun e => ble p e.1 &&
    (match bytesIncrement p with | some lim => blt e.1 lim | none => true))

def Level.iterate (s : Level) (p : Bytes) (cb : Callback) : List Entry × Res :=
  drive cb [] (seek (rangeView s p) p).fwdList

/-! ### mock store -/

abbrev Mock := List Entry

def Mock.put (m : Mock) (k v : Bytes) : Mock := (k, v) :: m.filter (fun e => e.1 ≠ k)
def Mock.get (m : Mock) (k : Bytes) : Option Bytes := Kv.get m k
def Mock.delete (m : Mock) (k : Bytes) : Mock := m.filter (fun e => e.1 ≠ k)

/-- the sorted matching keys, each paired with its value -/
def Mock.matching (m : Mock) (p : Bytes) : List Entry :=
  (((m.map (·.1)).filter (fun k => hasPrefix k p)).mergeSort ble).filterMap
    (fun k => (Kv.get m k).map (fun v => (k, v)))

def Mock.iterate (m : Mock) (p : Bytes) (cb : Callback) : List Entry × Res :=
  drive cb [] (m.matching p)

end Aurora.StateStore
