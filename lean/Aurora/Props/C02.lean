import Aurora.Lemmas.Upload
import Aurora.Lemmas.SpecTree
import Aurora.Lemmas.TrieSpans
import Aurora.Lemmas.HashTrieBuf
import Aurora.Lemmas.ChunkPipe
import Aurora.Lemmas.FeedPipeline
import Aurora.Generated.Consts
/-!
# C02 — Content reference is the Aurora tree hash of the bytes alone

Models: `Model/Feeder.lean` (`chunkFeeder.Write/Sum`), `Model/HashTrie.lean` (`hashTrieWriter` at
the level of per-level reference lists + the plain pipeline `upload`), specification
`Tree.Spec.root` in `Model/Tree.lean` (data chunks → references → groups of `B`, a lone reference
carried up).  All statements hold for every chunk reference function `cref` (the repository's is
the BMT hash of C03/C04; it is never unfolded), every chunk size `C > 0` and branching `B ≥ 2`
(repository: `C = 262144`, `B = 8192`, see `C02_consts_match`), every content and every split of
the content into `Write` calls.  The only premise is the writer's 8-level limit, stated
explicitly: fewer than `B^7` data chunks (the `B^7`-th chunk sets `full`, later writes fail).
-/
namespace Aurora.HashTrie
open Aurora.Bmt (Bytes)
open Aurora.Tree

variable (cref : Bytes → Bytes → Bytes)

/-- **Segmentation independence of the feeder**: whatever the split into `Write` calls, the chunks
    handed to the next writer by the writes and by `Sum` are the `C`-byte pieces of the
    concatenated bytes — and ONE empty chunk for the empty file. -/
theorem C02_feeder_chunks_bytes_only (C : Nat) (hC : 0 < C) (segs : List Bytes) :
    (Aurora.Feeder.runWrites C segs {} []).2 ++ (Aurora.Feeder.sum (Aurora.Feeder.runWrites C segs {} []).1).2
      = leafData C segs.flatten :=
  Aurora.Feeder.feeder_chunks C hC segs

/-- every `Write` reports all its bytes as written (the `io.Writer` count) -/
theorem C02_write_count (C : Nat) (hC : 0 < C) (f : Aurora.Feeder.State) (out : List Bytes) (data b : Bytes)
    (h : Aurora.Feeder.Inv C f out data) : (Aurora.Feeder.write C f b).2.2 = b.length :=
  (Aurora.Feeder.write_inv C hC f out data b h).2

/-- **The reference returned by the streaming pipeline (feeder + hash-trie writer, any
    segmentation) is the format's tree hash** (`Spec.root`: data chunks, groups of `B` references
    with the subtree length as span, a lone reference carried up unchanged), below the writer's
    8-level limit. -/
theorem C02_pipeline_ref_eq_spec (C B : Nat) (hC : 0 < C) (hB : 2 ≤ B) (segs : List Bytes)
    (hlim : (leafData C segs.flatten).length < B ^ 7) :
    (upload cref C B segs).2 = Spec.root cref C B segs.flatten :=
  upload_eq_spec cref C B hC hB segs hlim

/-- the same with the limit stated in bytes -/
theorem C02_pipeline_ref_eq_spec_bytes (C B : Nat) (hC : 0 < C) (hB : 2 ≤ B) (segs : List Bytes)
    (hlim : segs.flatten.length / C + 1 < B ^ 7) :
    (upload cref C B segs).2 = Spec.root cref C B segs.flatten :=
  upload_eq_spec cref C B hC hB segs (Nat.lt_of_le_of_lt (leafData_length_le C hC _) hlim)

/-- **The reference depends on the bytes alone**: two segmentations of the same bytes give the
    same reference (and it is `Spec.root` of the bytes, a function of the bytes only). -/
theorem C02_spec_depends_on_bytes_only (C B : Nat) (hC : 0 < C) (hB : 2 ≤ B) (segs₁ segs₂ : List Bytes)
    (hsame : segs₁.flatten = segs₂.flatten) (hlim : (leafData C segs₁.flatten).length < B ^ 7) :
    (upload cref C B segs₁).2 = (upload cref C B segs₂).2 := by
  rw [upload_eq_spec cref C B hC hB segs₁ hlim, upload_eq_spec cref C B hC hB segs₂ (hsame ▸ hlim), hsame]

/-- the pipeline always produces a reference (no error) below the limit -/
theorem C02_pipeline_succeeds (C B : Nat) (hC : 0 < C) (hB : 2 ≤ B) (segs : List Bytes)
    (hlim : (leafData C segs.flatten).length < B ^ 7) :
    ∃ r, (upload cref C B segs).2 = some r := by
  rw [upload_eq_spec cref C B hC hB segs hlim]
  unfold Spec.root
  have hne : (leafData C segs.flatten).map (leafEntry cref) ≠ [] := by
    simpa using leafData_ne_nil C segs.flatten
  obtain ⟨r, hr⟩ := rootG_enough (wrapE cref) B hB _ _ (Nat.le_refl _) hne
  exact ⟨r.ref, by simp only [hr, Option.map_some]⟩

/-- **The tree behind the specification is well formed** (`levelUp_tree_is_WF`): the bottom-up
    construction run on trees (`specTree`) yields a tree satisfying the recursive shape invariant
    `WF` that the reader (C01/C07) and the traversal (C09) rely on, its leaves concatenate to the
    data, and `Spec.root` is exactly its reference. -/
theorem C02_levelUp_tree_is_WF (C B : Nat) (hC : 0 < C) (hB : 2 ≤ B) (data : Bytes) :
    ∃ t, specTree C B data = some t ∧ (∃ h, WF C B h t) ∧ t.flat = data ∧
      Spec.root cref C B data = some (t.ref cref) := by
  obtain ⟨t, ht, hw, hf⟩ := specTree_WF C B hC hB data
  exact ⟨t, ht, hw, hf, by rw [specRoot_eq_tree cref C B (by omega), ht]; rfl⟩

/-- **Generated constants = model instance**: the numbers the drivers run the models with are the
    ones extracted from `/repo/pkg/boson` on this run, `ChunkSize = SectionSize * Branches`
    (256 KiB), the BMT capacity equals the chunk size, and the reader's derivation of the
    branching factor (`ChunkSize / refLength`) gives `Branches` / `EncryptedBranches`. -/
theorem C02_consts_match :
    chunkBytes = Aurora.Generated.chunkSize ∧ branching = Aurora.Generated.branches ∧
    encBranching = Aurora.Generated.encryptedBranches ∧ hashBytes = Aurora.Generated.hashSize ∧
    spanBytes = Aurora.Generated.spanSize ∧
    Aurora.Generated.chunkSize = 32 * 8192 ∧ Aurora.Generated.branches = 8192 ∧ Aurora.Generated.spanSize = 8 ∧
    Aurora.Generated.chunkSize = Aurora.Generated.sectionSize * Aurora.Generated.branches ∧
    Aurora.Bmt.maxSize 32 12 = Aurora.Generated.chunkSize ∧
    Aurora.Generated.chunkSize / Aurora.Generated.hashSize = Aurora.Generated.branches ∧
    Aurora.Generated.chunkSize / (2 * Aurora.Generated.hashSize) = Aurora.Generated.encryptedBranches ∧
    Aurora.Generated.chunkWithSpanSize = Aurora.Generated.chunkSize + Aurora.Generated.spanSize := by
  decide

/-! Non-vacuity: the premises are satisfiable (and the repository's instance satisfies them for
    every content below `C * (B^7 - 1)` bytes ≈ 6.5·10^32 bytes). -/
example : (0 : Nat) < chunkBytes ∧ 2 ≤ branching := by decide
example (data : Bytes) (h : data.length < 2 ^ 64) :
    ([data] : List Bytes).flatten.length / chunkBytes + 1 < branching ^ 7 := by
  simp only [List.flatten_cons, List.flatten_nil, List.append_nil, chunkBytes, branching]
  have : data.length / 262144 < 2 ^ 64 := Nat.lt_of_le_of_lt (Nat.div_le_self _ _) h
  have h2 : (2 : Nat) ^ 64 + 1 < 8192 ^ 7 := by decide
  omega

/-! ## Spans: the writer fed with arbitrary leaf entries (`leaves` op of the correspondence run)

The hash-trie writer only sees `(span, reference)` entries; the statements below are about ANY list of
leaf entries, not only those of data chunks (spans `≤ C`), so they cover subtrees of `2^32` bytes and
more.  Spans are unbounded `Nat`s in the list model: the root's span is the exact sum.  What the Go
code holds is that sum modulo `2^64` (`uint64` addition) — the same 8 bytes `le64 span` in every chunk
and hash, see `C02_span_bytes_are_uint64_sum`; the literal model adds modulo `2^64` as Go does. -/

/-- `Sum` of the hash-trie writer after `ChainWrite` of any non-empty list of fewer than `B^7` leaf
    entries is the bottom-up root `rootG` over them (the whole entry: span and reference). -/
theorem C02_leaves_root_eq_rootG (B : Nat) (hB : 2 ≤ B) (es : List Entry) (hne : es ≠ [])
    (hlen : es.length < B ^ 7) :
    ((feedEntries cref B {} es).sumTrie cref B).2 = rootG (wrapE cref) B es.length es :=
  leaves_root_eq_rootG cref B hB es hne hlen

/-- **The root's span is the sum of the leaf spans**, for every list of leaf spans (no bound on the
    spans), as long as the trie is not full. -/
theorem C02_root_span_is_sum (B : Nat) (hB : 2 ≤ B) (es : List Entry) (hne : es ≠ [])
    (hlen : es.length < B ^ 7) :
    ∃ r, ((feedEntries cref B {} es).sumTrie cref B).2 = some r ∧ r.span = (es.map Entry.span).sum := by
  rw [leaves_root_eq_rootG cref B hB es hne hlen]
  obtain ⟨r, hr⟩ := rootG_enough (wrapE cref) B hB es.length es (Nat.le_refl _) hne
  exact ⟨r, hr, rootG_span cref B (by omega) _ es r hr⟩

/-- every intermediate chunk the writer produces carries the sum of its children's spans, and the bytes
    written are those of the sum modulo `2^64` (what Go's `uint64` accumulator `sp` holds) -/
theorem C02_span_bytes_are_uint64_sum (g : List Entry) :
    (wrapE cref g).span = (g.map Entry.span).sum ∧
    Aurora.Cac.le64 (wrapE cref g).span = Aurora.Cac.le64 ((g.map Entry.span).sum % 2 ^ 64) := by
  refine ⟨rfl, ?_⟩
  show Aurora.Cac.le64 ((g.map Entry.span).sum) = _
  generalize (g.map Entry.span).sum = n
  simp only [Aurora.Cac.le64]
  apply List.map_congr_left
  intro i hi
  have hi8 : i < 8 := by simpa using hi
  congr 1
  have hdvd : 256 ^ (i + 1) ∣ 2 ^ 64 := by
    have : (2 : Nat) ^ 64 = 256 ^ (i + 1) * 256 ^ (7 - i) := by
      rw [← Nat.pow_add]; have : i + 1 + (7 - i) = 8 := by omega
      rw [this]
    exact ⟨_, this⟩
  rw [← Nat.mod_mul_right_div_self, ← Nat.mod_mul_right_div_self (n % 2 ^ 64), ← Nat.pow_succ,
    Nat.mod_mod_of_dvd _ hdvd]

/-- non-vacuity: two leaves of `2^31` bytes under branching 2 satisfy the premises; their spans add up to `2^32` -/
example : ([⟨2 ^ 31, [1]⟩, ⟨2 ^ 31, [2]⟩] : List Entry) ≠ [] ∧
    ([⟨2 ^ 31, [1]⟩, ⟨2 ^ 31, [2]⟩] : List Entry).length < 2 ^ 7 ∧
    (([⟨2 ^ 31, [1]⟩, ⟨2 ^ 31, [2]⟩] : List Entry).map Entry.span).sum = 2 ^ 32 := by decide

/-! ## The literal cursor machine (`Model/HashTrieBuf.lean`) refines the list machine

`hashtrie.go` keeps all levels in ONE byte buffer with `cursors[1..8]`; `Model/HashTrieBuf.lean`
transcribes that code (every index expression that can panic in Go yields `Err.panic` there), the
theorems above are about the per-level list machine `Model/HashTrie.lean`.  The statements below
close that gap.  `cref` is any chunk reference function with `refLen`-byte outputs (the
repository's: 32), `B ≥ 2`, and the buffer has at least `(refLen+8)·B·8` bytes. -/

open Aurora.HashTrieBuf in
/-- **Step-wise simulation through the abstraction function.**  `Sim P s h` (the invariant:
    cursors monotone `cursors[8] ≤ … ≤ cursors[1] ≤ len(buffer)`, every region
    `buffer[cursors[l+1]:cursors[l]]` the concatenation of `oneRef`-byte records, fewer than `B`
    records per level, level 8 empty until `full`) implies: the abstraction function
    `State.levels` reads exactly the list-machine levels back; `ChainWrite` behaves as the list
    machine's `chainWrite` (`errTrieFull` included), re-establishes the invariant and hands the same
    wrapped chunks to the short pipeline; `Sum` returns the record the list machine's `sumUp`
    leaves in level 8 (minus its span bytes) or the same error.  `short` is ANY short pipeline that
    returns one `oneRef`-byte record (plain and encrypted configuration). -/
theorem C02_hashtrie_buffer_step_simulation (P : Params) (hB : 2 ≤ P.branching) (hs : ShortOK P)
    (s : Aurora.HashTrieBuf.State) (h : State Bytes) (hsim : Sim P s h) :
    s.levels P = h.levels ∧
    (∀ span ref key : Bytes, (span ++ ref ++ key).length = P.oneRef →
      match chainWrite (wrapRaw P) P.branching h (span ++ ref ++ key) with
      | .error e => e = .trieFull ∧ Aurora.HashTrieBuf.chainWrite P s span ref key = .error .trieFull
      | .ok (h', gs) => ∃ s', Aurora.HashTrieBuf.chainWrite P s span ref key = .ok s' ∧ Sim P s' h' ∧
          s'.sent = s.sent ++ gs.map wrapData) ∧
    (match trieSum (wrapRaw P) P.branching h with
      | .error _ => Aurora.HashTrieBuf.trieSum P s = .error .inconsistent
      | .ok (e, gs) => ∃ s', Aurora.HashTrieBuf.trieSum P s = .ok (e.drop 8, s') ∧
          s'.sent = s.sent ++ gs.map wrapData) :=
  ⟨Sim_levels P s h hsim, fun span ref key hrec => chainWrite_sim P hB hs s h hsim span ref key hrec,
    trieSum_sim P hB hs s h hsim⟩

open Aurora.HashTrieBuf in
/-- **The buffer-and-cursor writer refines the per-level list writer** (whole runs): for every
    sequence of leaf entries `(span, ref)` with `refLen`-byte references — below, at and beyond the
    level limit — the literal machine (fresh buffer of `bufLen` bytes, `ChainWrite(le64 span, ref,
    nil)` for each, then `Sum`) returns the same reference as the list machine run on the entries,
    has handed the same wrapped chunks (`le64 Σspan ‖ refs`, = the list model's `groupChunk` data)
    to the short pipeline in the same order, or fails with the same error (`errTrieFull` /
    `errInconsistentRefs`); it never panics. -/
theorem C02_hashtrie_buffer_refines_lists (B refLen bufLen : Nat) (hB : 2 ≤ B)
    (hcref : ∀ sp p, (cref sp p).length = refLen) (hfit : (refLen + 8) * B * 8 ≤ bufLen)
    (es : List Entry) (hlen : ∀ e ∈ es, e.ref.length = refLen) :
    runLit (plainParams cref B refLen) bufLen (es.map rec3) = toLit cref (runList B (wrapE cref) es) :=
  run_refines cref B refLen hB hcref bufLen hfit es hlen

open Aurora.HashTrieBuf in
/-- the upload pipeline over the literal writer returns what the pipeline over the list writer
    returns, for every segmentation and every size (errors included) -/
theorem C02_pipeline_literal_eq_list (C B refLen bufLen : Nat) (hB : 2 ≤ B)
    (hcref : ∀ sp p, (cref sp p).length = refLen) (hfit : (refLen + 8) * B * 8 ≤ bufLen) (segs : List Bytes) :
    (uploadLit cref C B refLen bufLen segs).2 = (upload cref C B segs).2 :=
  uploadLit_eq cref C B refLen hB hcref bufLen hfit segs

open Aurora.HashTrieBuf in
/-- **`C02_pipeline_ref_eq_spec` for the literal model**: feeder + the buffer-and-cursor hash-trie
    writer, any segmentation, returns the format's tree hash `Spec.root` below the 8-level limit. -/
theorem C02_pipeline_ref_eq_spec_literal (C B refLen bufLen : Nat) (hC : 0 < C) (hB : 2 ≤ B)
    (hcref : ∀ sp p, (cref sp p).length = refLen) (hfit : (refLen + 8) * B * 8 ≤ bufLen) (segs : List Bytes)
    (hlim : (leafData C segs.flatten).length < B ^ 7) :
    (uploadLit cref C B refLen bufLen segs).2 = Spec.root cref C B segs.flatten := by
  rw [uploadLit_eq cref C B refLen hB hcref bufLen hfit segs]
  exact upload_eq_spec cref C B hC hB segs hlim

open Aurora.HashTrieBuf in
/-- **The buffer never overflows** — the claim the Go code only comments on ("double size as temp
    workaround for weak calculation of needed buffer space").  Generic part: for every branching
    `B ≥ 2`, every reference size and every short pipeline returning one record, a buffer of
    `(refSize+8)·B·8` bytes suffices: no `buffer[a:b]`, `data[i:j]` or `cursors[l]` expression of a
    whole run (well-sized records, then `Sum`) is out of range (`Err.panic` is never returned — the
    model raises it exactly where Go would panic).  Instances: the repository's buffer
    (`ChunkWithSpanSize*9*2 = 4718736` bytes, generated constants) is large enough for the plain
    configuration (`refLen = HashSize`, `B = Branches`: 2621440 bytes needed) and for the encrypted
    one (`refLen = 2·HashSize`, `B = EncryptedBranches`: 2359296 bytes). -/
theorem C02_buffer_never_overflows :
    (∀ (P : Params) (bufLen : Nat) (recs : List (Bytes × Bytes × Bytes)), 2 ≤ P.branching → ShortOK P →
      (P.refSize + 8) * P.branching * 8 ≤ bufLen →
      (∀ r ∈ recs, (r.1 ++ r.2.1 ++ r.2.2).length = P.refSize + 8) →
      runLit P bufLen recs ≠ .error .panic) ∧
    (Aurora.Generated.hashSize + Aurora.Generated.spanSize) * Aurora.Generated.branches * 8
      ≤ Aurora.Generated.chunkWithSpanSize * 9 * 2 ∧
    (2 * Aurora.Generated.hashSize + Aurora.Generated.spanSize) * Aurora.Generated.encryptedBranches * 8
      ≤ Aurora.Generated.chunkWithSpanSize * 9 * 2 ∧
    (∀ (short : Bytes → Bytes × Bytes × Bytes) (recs : List (Bytes × Bytes × Bytes)),
      let P : Params := { branching := Aurora.Generated.branches, refSize := Aurora.Generated.hashSize, short := short }
      ShortOK P → (∀ r ∈ recs, (r.1 ++ r.2.1 ++ r.2.2).length = Aurora.Generated.hashSize + 8) →
      runLit P (Aurora.Generated.chunkWithSpanSize * 9 * 2) recs ≠ .error .panic) := by
  refine ⟨fun P bufLen recs hB hs hfit hlen => run_no_panic P hB hs bufLen hfit recs hlen, by decide, by decide, ?_⟩
  intro short recs P hs hlen
  exact run_no_panic P (show 2 ≤ Aurora.Generated.branches by decide) hs _
    (show (Aurora.Generated.hashSize + 8) * Aurora.Generated.branches * 8 ≤ Aurora.Generated.chunkWithSpanSize * 9 * 2 by decide) recs hlen

/-! Non-vacuity of the literal statements: the repository's instance satisfies the size premises, a
    32-byte reference function exists, and the invariant holds initially. -/
example : (2 : Nat) ≤ branching ∧ (hashBytes + 8) * branching * 8 ≤ Aurora.Generated.chunkWithSpanSize * 9 * 2 := by decide
example : ∀ sp p : Bytes, ((fun _ _ => List.replicate 32 (0 : UInt8)) sp p).length = 32 := by intro _ _; simp
example : Aurora.HashTrieBuf.Sim (Aurora.HashTrieBuf.plainParams (fun _ _ => List.replicate 32 0) 8192 32)
    (Aurora.HashTrieBuf.State.new 4718736) State.new :=
  Aurora.HashTrieBuf.Sim_new _ (by decide) _ (by decide)
example : Aurora.HashTrieBuf.ShortOK (Aurora.HashTrieBuf.plainParams (fun _ _ => List.replicate 32 0) 8192 32) :=
  Aurora.HashTrieBuf.shortOK_plain _ _ _ (by intro _ _; simp)

/-! ## `file.ChunkPipe` in front of the pipeline (`new pipe` mode: `file.ChunkPipe` + `builder.FeedPipeline`)

`Model/ChunkPipe.lean` transcribes `pkg/file/buffer.go` (buffer of `2 * ChunkSize` bytes, cursor, the
copy-then-flush loop of `Write`, `Close`).  A *piece* is the argument of one write to the underlying
`io.Pipe`, i.e. what one `Read` of `FeedPipeline` receives and hands to `pipeline.Write`.  `P` is the
pipe's chunk size (`boson.ChunkSize`), any `P > 0`.  (Added after seeded change C02-3, a fast path in
`Write` that let whole chunks of the caller's slice overtake buffered bytes.) -/

/-- **ChunkPipe preserves the bytes**: for every sequence of writes (every segmentation), the
    concatenation of the pieces the pipe hands on — by the writes, then by `Close` — is the
    concatenation of the writes, in order. -/
theorem C02_chunkpipe_preserves_bytes (P : Nat) (hP : 0 < P) (ws : List Bytes) :
    (Aurora.ChunkPipe.run P ws).flatten = ws.flatten :=
  (Aurora.ChunkPipe.run_spec P hP ws).1

/-- "only the last read is smaller than the chunk size" (the contract stated in `buffer.go`): every
    piece but the last has exactly `P` bytes, no piece is empty or longer than `P`. -/
theorem C02_chunkpipe_piece_sizes (P : Nat) (hP : 0 < P) (ws : List Bytes) :
    (∀ p ∈ (Aurora.ChunkPipe.run P ws).dropLast, p.length = P) ∧
    (∀ p ∈ Aurora.ChunkPipe.run P ws, 0 < p.length ∧ p.length ≤ P) :=
  (Aurora.ChunkPipe.run_spec P hP ws).2

/-- every `ChunkPipe.Write` reports all its bytes as written and never holds back more than one
    chunk (stated on the invariant that every sequence of writes maintains from the empty pipe) -/
theorem C02_chunkpipe_write_count (P : Nat) (hP : 0 < P) (c : Aurora.ChunkPipe.State) (out : List Bytes)
    (data b : Bytes) (h : Aurora.ChunkPipe.Inv P c out data) :
    (Aurora.ChunkPipe.write P c b).2.2 = b.length ∧ (Aurora.ChunkPipe.write P c b).1.buf.length ≤ P :=
  ⟨(Aurora.ChunkPipe.write_inv P hP c out data b h).2, (Aurora.ChunkPipe.write_inv P hP c out data b h).1.2.1⟩

/-- **The reference of an upload through the ChunkPipe is the format's tree hash of the bytes
    written**, whatever the segmentation of the writes into the pipe. -/
theorem C02_chunkpipe_upload_ref_eq_spec (P C B : Nat) (hP : 0 < P) (hC : 0 < C) (hB : 2 ≤ B) (ws : List Bytes)
    (hlim : (leafData C ws.flatten).length < B ^ 7) :
    (upload cref C B (Aurora.ChunkPipe.run P ws)).2 = Spec.root cref C B ws.flatten := by
  have h := C02_chunkpipe_preserves_bytes P hP ws
  rw [upload_eq_spec cref C B hC hB (Aurora.ChunkPipe.run P ws) (by rw [h]; exact hlim), h]

/-! Non-vacuity: the invariant holds for the empty pipe; a short write followed by a whole chunk
    (the order the seeded fast path got wrong), with `P = 2`. -/
example : Aurora.ChunkPipe.Inv 262144 {} [] [] := Aurora.ChunkPipe.inv_init _
example : Aurora.ChunkPipe.run 2 [[1], [2, 3], [4, 5, 6, 7, 8]] = [[1, 2], [3, 4], [5, 6], [7, 8]] := by decide
example : Aurora.ChunkPipe.run 2 [[1, 2, 3, 4]] = [[1, 2], [3, 4]] ∧
    (Aurora.ChunkPipe.write 2 {} [1, 2, 3, 4]).1.buf = [3, 4] := by decide

/-! ## `builder.FeedPipeline` (reader → pipeline)

`Model/FeedPipeline.lean`: the read loop of `FeedPipeline` as a function from the reader's results
`(bytes, err == io.EOF)` to the `pipeline.Write` calls.  The reader's behaviour is the environment's
choice; `Admissible content rs` says the results are consecutive slices of the content with exactly one
`io.EOF`, at the end — possibly *together with* the last bytes.  (Added after seeded change C02-5, which
dropped the bytes delivered with `io.EOF`.) -/

/-- **FeedPipeline hands every byte of the reader to the pipeline, in order** — for every reader
    behaviour: any piece sizes, empty reads, the last bytes with or without `io.EOF`. -/
theorem C02_feedpipeline_writes_all_bytes (content : Bytes) (rs : List Aurora.FeedPipeline.ReadRes)
    (h : Aurora.FeedPipeline.Admissible content rs) :
    (Aurora.FeedPipeline.writes rs).flatten = content :=
  Aurora.FeedPipeline.writes_all_bytes content rs h

/-- **The reference returned by `FeedPipeline` is the format's tree hash of the reader's content**,
    whatever the reader's piece sizes and wherever it reports `io.EOF`. -/
theorem C02_feedpipeline_ref_eq_spec (C B : Nat) (hC : 0 < C) (hB : 2 ≤ B) (content : Bytes)
    (rs : List Aurora.FeedPipeline.ReadRes) (h : Aurora.FeedPipeline.Admissible content rs)
    (hlim : (leafData C content).length < B ^ 7) :
    (upload cref C B (Aurora.FeedPipeline.writes rs)).2 = Spec.root cref C B content := by
  have hw := C02_feedpipeline_writes_all_bytes content rs h
  rw [upload_eq_spec cref C B hC hB (Aurora.FeedPipeline.writes rs) (by rw [hw]; exact hlim), hw]

/-! Non-vacuity: a reader that delivers its last bytes with `io.EOF`, and one that does not. -/
example : Aurora.FeedPipeline.Admissible [1, 2, 3] [([1, 2], false), ([3], true)] :=
  ⟨by decide, [([1, 2], false)], [3], rfl, by simp⟩
example : Aurora.FeedPipeline.Admissible [1, 2, 3] [([1, 2], false), ([], false), ([3], false), ([], true)] :=
  ⟨by decide, [([1, 2], false), ([], false), ([3], false)], [], rfl, by simp⟩
example : Aurora.FeedPipeline.writes [([1, 2], false), ([3], true)] = [[1, 2], [3]] := by decide

end Aurora.HashTrie
