import Aurora.Model.Proximity
/-! Helper lemmas for Props/C20 (core Lean only). -/
namespace Aurora.Proximity
open Aurora.Generated

/-! ## Specification vocabulary -/

/-- bit `k` (most significant bit of byte 0 first) of a byte string; `false` past the end. -/
def bitAt (x : List Byte) (k : Nat) : Bool := (x[k / 8]?.getD 0#8).getMsbD (k % 8)

/-- leading-equal-bit count, scanning from bit `k` for at most `fuel` bits. -/
def lcpFrom (x y : List Byte) (k : Nat) : Nat → Nat
  | 0 => k
  | fuel + 1 => if bitAt x k = bitAt y k then lcpFrom x y (k + 1) fuel else k

/-- number of leading equal bits of two byte strings of one length (`8 * length` when equal). -/
def lcpBits (x y : List Byte) : Nat := lcpFrom x y 0 (8 * x.length)

/-- big-endian value of a byte string (specification form: positional weights) -/
def beVal : List Byte → Nat
  | [] => 0
  | b :: bs => b.toNat * 256 ^ bs.length + beVal bs

/-- big-endian XOR distance as a natural number -/
def xorNat (a x : List Byte) : Nat := beVal (List.zipWith (· ^^^ ·) a x)

/-- the XOR of byte `i` of both strings, and its bit view -/
def dbyte (one other : List Byte) (i : Nat) : Byte := one[i]?.getD 0#8 ^^^ other[i]?.getD 0#8
def dbit (one other : List Byte) (k : Nat) : Bool := (dbyte one other (k / 8)).getMsbD (k % 8)

theorem dbit_eq (x y : List Byte) (k : Nat) : dbit x y k = (bitAt x k != bitAt y k) := by
  simp [dbit, dbyte, bitAt, BitVec.getMsbD_xor]

theorem dbit_false_iff (x y : List Byte) (k : Nat) : dbit x y k = false ↔ bitAt x k = bitAt y k := by
  rw [dbit_eq]; cases bitAt x k <;> cases bitAt y k <;> simp

theorem dbit_true_iff (x y : List Byte) (k : Nat) : dbit x y k = true ↔ bitAt x k ≠ bitAt y k := by
  rw [dbit_eq]; cases bitAt x k <;> cases bitAt y k <;> simp

theorem bitAt_of_ge (x : List Byte) (k : Nat) (h : 8 * x.length ≤ k) : bitAt x k = false := by
  unfold bitAt
  have : x[k / 8]? = none := by
    apply List.getElem?_eq_none; omega
  simp [this]

/-! ## The Go bit test -/

theorem bitTest (x : Byte) (j : Nat) (hj : j < 8) :
    ((x >>> (7 - j)) &&& 1#8 ≠ 0#8) ↔ x.getMsbD j = true := by
  have h : (x >>> (7 - j)) &&& 1#8 = if x.getLsbD (7 - j) then 1#8 else 0#8 := by
    apply BitVec.eq_of_getLsbD_eq
    intro i hi
    by_cases hb : x.getLsbD (7 - j) = true
    · simp [hb, BitVec.getLsbD_and, BitVec.getLsbD_ushiftRight, BitVec.getLsbD_one]
      intro h0; subst h0; simpa using hb
    · simp [hb, BitVec.getLsbD_and, BitVec.getLsbD_ushiftRight, BitVec.getLsbD_one]
      intro h1 h0; subst h0; simp at h1; simp [h1] at hb
  rw [h, BitVec.getMsbD]
  have : 8 - 1 - j = 7 - j := by omega
  rw [this]
  by_cases hb : x.getLsbD (7 - j) = true <;> simp [hb, hj]

/-! ## Loop specifications -/

theorem bitScan_some (oxo : Byte) (fuel : Nat) : ∀ (j r : Nat), j + fuel ≤ 8 →
    bitScan oxo j fuel = some r →
    j ≤ r ∧ r < j + fuel ∧ oxo.getMsbD r = true ∧ ∀ k, j ≤ k → k < r → oxo.getMsbD k = false := by
  induction fuel with
  | zero => intro j r _ h; simp [bitScan] at h
  | succ f ih =>
    intro j r hj h
    unfold bitScan at h
    by_cases ht : (oxo >>> (7 - j)) &&& 1#8 ≠ 0#8
    · rw [if_pos ht] at h
      have : j = r := by simpa using h
      subst this
      refine ⟨Nat.le_refl _, by omega, (bitTest oxo j (by omega)).1 ht, ?_⟩
      intro k h1 h2; omega
    · rw [if_neg ht] at h
      obtain ⟨h1, h2, h3, h4⟩ := ih (j + 1) r (by omega) h
      refine ⟨by omega, by omega, h3, ?_⟩
      intro k hk1 hk2
      by_cases hkj : k = j
      · subst hkj
        have hh : ¬ (oxo.getMsbD k = true) := fun hm => ht ((bitTest oxo k (by omega)).2 hm)
        simpa using hh
      · exact h4 k (by omega) hk2

theorem bitScan_none (oxo : Byte) (fuel : Nat) : ∀ (j : Nat), j + fuel ≤ 8 →
    bitScan oxo j fuel = none → ∀ k, j ≤ k → k < j + fuel → oxo.getMsbD k = false := by
  induction fuel with
  | zero => intro j _ _ k h1 h2; omega
  | succ f ih =>
    intro j hj h k hk1 hk2
    unfold bitScan at h
    by_cases ht : (oxo >>> (7 - j)) &&& 1#8 ≠ 0#8
    · rw [if_pos ht] at h; simp at h
    · rw [if_neg ht] at h
      by_cases hkj : k = j
      · subst hkj
        have hh : ¬ (oxo.getMsbD k = true) := fun hm => ht ((bitTest oxo k (by omega)).2 hm)
        simpa using hh
      · exact ih (j + 1) (by omega) h k (by omega) (by omega)

theorem scan_some (one other : List Byte) (fuel : Nat) : ∀ (i r : Nat),
    scan one other i fuel = some r →
    ∃ k, r = k % 256 ∧ i * 8 ≤ k ∧ k < (i + fuel) * 8 ∧ dbit one other k = true ∧
      ∀ k', i * 8 ≤ k' → k' < k → dbit one other k' = false := by
  induction fuel with
  | zero => intro i r h; simp [scan] at h
  | succ f ih =>
    intro i r h
    unfold scan at h
    cases hb : bitScan (one[i]?.getD 0#8 ^^^ other[i]?.getD 0#8) 0 8 with
    | some j =>
      rw [hb] at h
      simp only [Option.some.injEq] at h
      obtain ⟨_, h2, h3, h4⟩ := bitScan_some _ 8 0 j (by omega) hb
      refine ⟨i * 8 + j, h.symm, by omega, by omega, ?_, ?_⟩
      · have e1 : (i * 8 + j) / 8 = i := by omega
        have e2 : (i * 8 + j) % 8 = j := by omega
        simp only [dbit, dbyte, e1, e2]; exact h3
      · intro k' hk1 hk2
        have e1 : k' / 8 = i := by omega
        simp only [dbit, dbyte, e1]
        exact h4 (k' % 8) (by omega) (by omega)
    | none =>
      rw [hb] at h
      obtain ⟨k, hk1, hk2, hk3, hk4, hk5⟩ := ih (i + 1) r h
      refine ⟨k, hk1, by omega, by omega, hk4, ?_⟩
      intro k' h1 h2
      by_cases hlt : k' < (i + 1) * 8
      · have e1 : k' / 8 = i := by omega
        simp only [dbit, dbyte, e1]
        exact bitScan_none _ 8 0 (by omega) hb (k' % 8) (by omega) (by omega)
      · exact hk5 k' (by omega) h2

theorem scan_none (one other : List Byte) (fuel : Nat) : ∀ (i : Nat),
    scan one other i fuel = none →
    ∀ k', i * 8 ≤ k' → k' < (i + fuel) * 8 → dbit one other k' = false := by
  induction fuel with
  | zero => intro i _ k' h1 h2; omega
  | succ f ih =>
    intro i h k' h1 h2
    unfold scan at h
    cases hb : bitScan (one[i]?.getD 0#8 ^^^ other[i]?.getD 0#8) 0 8 with
    | some j => rw [hb] at h; simp at h
    | none =>
      rw [hb] at h
      by_cases hlt : k' < (i + 1) * 8
      · have e1 : k' / 8 = i := by omega
        simp only [dbit, dbyte, e1]
        exact bitScan_none _ 8 0 (by omega) hb (k' % 8) (by omega) (by omega)
      · exact ih (i + 1) h k' (by omega) (by omega)

theorem scan_comm (one other : List Byte) (fuel : Nat) : ∀ i, scan one other i fuel = scan other one i fuel := by
  induction fuel with
  | zero => intro i; rfl
  | succ f ih =>
    intro i
    unfold scan
    rw [BitVec.xor_comm (one[i]?.getD 0#8), ih]

theorem scanBytes_comm (cap : Nat) (one other : List Byte) : scanBytes cap one other = scanBytes cap other one := by
  unfold scanBytes
  simp only
  by_cases h1 : cap / 8 + 1 > one.length <;> by_cases h2 : cap / 8 + 1 > other.length <;>
    simp only [h1, h2, if_true, if_false] <;> (repeat' split) <;> omega

/-- The specification of a capped leading-equal-bits count: `p` never exceeds the cap, the
    first `p` bits agree, and below the cap bit `p` differs. -/
def CappedLcp (cap : Nat) (x y : List Byte) (p : Nat) : Prop :=
  p ≤ cap ∧ (∀ k, k < p → bitAt x k = bitAt y k) ∧ (p < cap → bitAt x p ≠ bitAt y p)

/-- common part of both proximity functions: what the scan over `scanBytes cap` bytes finds. -/
theorem scan_found (cap : Nat) (hcap : cap < 248) (x y : List Byte) (r : Nat)
    (h : scan x y 0 (scanBytes cap x y) = some r) :
    r < (cap / 8 + 1) * 8 ∧ bitAt x r ≠ bitAt y r ∧ ∀ k, k < r → bitAt x k = bitAt y k := by
  obtain ⟨k, hk1, _, hk3, hk4, hk5⟩ := scan_some x y _ 0 r h
  have hb : scanBytes cap x y ≤ cap / 8 + 1 := by
    unfold scanBytes; simp only; split <;> split <;> omega
  have hk : k < (cap / 8 + 1) * 8 := by
    have : (0 + scanBytes cap x y) * 8 ≤ (cap / 8 + 1) * 8 := by omega
    omega
  have : r = k := by omega
  subst this
  refine ⟨hk, (dbit_true_iff x y r).1 hk4, ?_⟩
  intro k' hk'
  exact (dbit_false_iff x y k').1 (hk5 k' (by omega) hk')

theorem scan_notfound (cap : Nat) (x y : List Byte) (hlen : x.length = y.length)
    (h : scan x y 0 (scanBytes cap x y) = none) :
    ∀ k, k < (cap / 8 + 1) * 8 → bitAt x k = bitAt y k := by
  intro k hk
  have hn := scan_none x y _ 0 h
  by_cases hin : k < (0 + scanBytes cap x y) * 8
  · exact (dbit_false_iff x y k).1 (hn k (by omega) hin)
  · have hb : scanBytes cap x y = x.length := by
      unfold scanBytes at hin ⊢; simp only at hin ⊢
      split <;> split <;> rename_i h1 h2 <;> simp only [h1, h2, if_true, if_false] at hin <;> omega
    rw [bitAt_of_ge x k (by omega), bitAt_of_ge y k (by omega)]

/-! ## `lcpBits` is determined by the bitwise characterisation -/

theorem lcpFrom_stop (x y : List Byte) (fuel : Nat) : ∀ k p, k ≤ p → p < k + fuel →
    (∀ j, k ≤ j → j < p → bitAt x j = bitAt y j) → bitAt x p ≠ bitAt y p →
    lcpFrom x y k fuel = p := by
  induction fuel with
  | zero => intro k p h1 h2; omega
  | succ f ih =>
    intro k p h1 h2 hag hd
    unfold lcpFrom
    by_cases hkp : k = p
    · subst hkp; simp [hd]
    · rw [if_pos (hag k (Nat.le_refl _) (by omega))]
      exact ih (k + 1) p (by omega) (by omega) (fun j a b => hag j (by omega) b) hd

theorem lcpFrom_all (x y : List Byte) (fuel : Nat) : ∀ k,
    (∀ j, k ≤ j → j < k + fuel → bitAt x j = bitAt y j) → lcpFrom x y k fuel = k + fuel := by
  induction fuel with
  | zero => intro k _; rfl
  | succ f ih =>
    intro k hag
    unfold lcpFrom
    rw [if_pos (hag k (Nat.le_refl _) (by omega)), ih (k + 1) (fun j a b => hag j (by omega) (by omega))]
    omega

/-- a differing bit can only be inside the strings -/
theorem diff_lt (x y : List Byte) (hlen : x.length = y.length) (p : Nat) (h : bitAt x p ≠ bitAt y p) :
    p < 8 * x.length := by
  apply Classical.byContradiction
  intro hn
  rw [bitAt_of_ge x p (by omega), bitAt_of_ge y p (by omega)] at h
  exact h rfl

/-- equal strings ⇔ all bits agree -/
theorem eq_of_bits (x : List Byte) : ∀ (y : List Byte), x.length = y.length →
    (∀ k, bitAt x k = bitAt y k) → x = y := by
  induction x with
  | nil => intro y h _; cases y with | nil => rfl | cons => simp at h
  | cons a x ih =>
    intro y h hb
    cases y with
    | nil => simp at h
    | cons b y =>
      have hab : a = b := by
        apply BitVec.eq_of_getMsbD_eq
        intro i hi
        have := hb i
        simp only [bitAt] at this
        have e1 : i / 8 = 0 := by omega
        have e2 : i % 8 = i := by omega
        simpa [e1, e2] using this
      have hxy : x = y := by
        apply ih y (by simpa using h)
        intro k
        have := hb (k + 8)
        simp only [bitAt] at this
        have e1 : (k + 8) / 8 = k / 8 + 1 := by omega
        have e2 : (k + 8) % 8 = k % 8 := by omega
        simpa [e1, e2, bitAt] using this
      rw [hab, hxy]

/-- a capped count that is the spec of `CappedLcp` equals `min lcpBits cap` for different strings -/
theorem cappedLcp_eq_min (cap : Nat) (x y : List Byte) (hlen : x.length = y.length) (hne : x ≠ y)
    (p : Nat) (h : CappedLcp cap x y p) : p = min (lcpBits x y) cap := by
  obtain ⟨h1, h2, h3⟩ := h
  -- the first differing bit exists since x ≠ y
  have hex : ∃ q, bitAt x q ≠ bitAt y q := by
    apply Classical.byContradiction
    intro hn
    apply hne
    apply eq_of_bits x y hlen
    intro k
    apply Classical.byContradiction
    intro hk
    exact hn ⟨k, hk⟩
  -- least such q
  have hleast : ∃ q, bitAt x q ≠ bitAt y q ∧ ∀ j, j < q → bitAt x j = bitAt y j := by
    obtain ⟨q, hq⟩ := hex
    induction q using Nat.strongRecOn with
    | _ q ih =>
      by_cases hall : ∀ j, j < q → bitAt x j = bitAt y j
      · exact ⟨q, hq, hall⟩
      · have : ∃ j, j < q ∧ bitAt x j ≠ bitAt y j := by
          apply Classical.byContradiction
          intro hn
          apply hall
          intro j hj
          apply Classical.byContradiction
          intro hk
          exact hn ⟨j, hj, hk⟩
        obtain ⟨j, hj1, hj2⟩ := this
        exact ih j hj1 hj2
  obtain ⟨q, hq1, hq2⟩ := hleast
  have hql := diff_lt x y hlen q hq1
  have hl : lcpBits x y = q := by
    unfold lcpBits
    exact lcpFrom_stop x y _ 0 q (Nat.zero_le _) (by omega) (fun j _ b => hq2 j b) hq1
  rw [hl]
  by_cases hpc : p < cap
  · have hd := h3 hpc
    have : p = q := by
      apply Classical.byContradiction
      intro hpq
      by_cases hlt : p < q
      · exact hd (hq2 p hlt)
      · exact hq1 (h2 q (by omega))
    omega
  · have : p = cap := by omega
    subst this
    have : p ≤ q := by
      apply Classical.byContradiction
      intro hn
      exact hq1 (h2 q (by omega))
    omega

/-! ## Distance -/

theorem xorBytes_eq_zipWith (x : List Byte) : ∀ y, xorBytes x y = List.zipWith (· ^^^ ·) x y := by
  induction x with
  | nil => intro y; cases y <;> rfl
  | cons a x ih => intro y; cases y with
    | nil => rfl
    | cons b y => simp [xorBytes, ih]

theorem foldl_be (bs : List Byte) : ∀ acc : Nat,
    bs.foldl (fun acc b => acc * 256 + b.toNat) acc = acc * 256 ^ bs.length + beVal bs := by
  induction bs with
  | nil => intro acc; simp [beVal]
  | cons b bs ih =>
    intro acc
    simp only [List.foldl_cons, ih, beVal, List.length_cons, Nat.pow_succ]
    rw [Nat.add_mul, Nat.mul_assoc, Nat.mul_comm 256 (256 ^ bs.length)]
    omega

theorem beNat_eq_beVal (bs : List Byte) : beNat bs = beVal bs := by
  unfold beNat; rw [foldl_be]; simp

theorem beVal_lt (bs : List Byte) : beVal bs < 256 ^ bs.length := by
  induction bs with
  | nil => simp [beVal]
  | cons b bs ih =>
    simp only [beVal, List.length_cons, Nat.pow_succ]
    have hb : b.toNat < 256 := b.isLt
    have : (b.toNat + 1) * 256 ^ bs.length ≤ 256 * 256 ^ bs.length :=
      Nat.mul_le_mul_right _ (by omega)
    rw [Nat.add_mul] at this
    rw [Nat.mul_comm (256 ^ bs.length) 256]
    omega

theorem xor_cancel_right (a x y : Byte) : x ^^^ a = y ^^^ a ↔ x = y := by
  constructor
  · intro h
    have := congrArg (· ^^^ a) h
    simpa [BitVec.xor_assoc] using this
  · intro h; rw [h]

theorem distanceCmpLoop_spec (a : List Byte) : ∀ x y : List Byte, a.length = x.length → a.length = y.length →
    distanceCmpLoop a x y =
      if xorNat a x < xorNat a y then 1 else if xorNat a x = xorNat a y then 0 else -1 := by
  induction a with
  | nil =>
    intro x y hx hy
    cases x with
    | nil => cases y with
      | nil => simp [distanceCmpLoop, xorNat, beVal]
      | cons => simp at hy
    | cons => simp at hx
  | cons a as ih =>
    intro x y hx hy
    cases x with
    | nil => simp at hx
    | cons x xs =>
      cases y with
      | nil => simp at hy
      | cons y ys =>
        have hx' : as.length = xs.length := by simpa using hx
        have hy' : as.length = ys.length := by simpa using hy
        have ihh := ih xs ys hx' hy'
        simp only [xorNat] at ihh ⊢
        simp only [distanceCmpLoop, List.zipWith_cons_cons, beVal, List.length_zipWith, ← hx', ← hy',
          Nat.min_self]
        have t1 := beVal_lt (List.zipWith (· ^^^ ·) as xs)
        have t2 := beVal_lt (List.zipWith (· ^^^ ·) as ys)
        simp only [List.length_zipWith, ← hx', ← hy', Nat.min_self] at t1 t2
        rw [BitVec.xor_comm a x, BitVec.xor_comm a y]
        by_cases heq : x ^^^ a = y ^^^ a
        · rw [if_pos heq, ihh, heq]
          by_cases h1 : beVal (List.zipWith (· ^^^ ·) as xs) < beVal (List.zipWith (· ^^^ ·) as ys)
          · have : (y ^^^ a).toNat * 256 ^ as.length + beVal (List.zipWith (· ^^^ ·) as xs) <
                (y ^^^ a).toNat * 256 ^ as.length + beVal (List.zipWith (· ^^^ ·) as ys) := by omega
            simp [h1]
          · by_cases h2 : beVal (List.zipWith (· ^^^ ·) as xs) = beVal (List.zipWith (· ^^^ ·) as ys)
            · simp [h2]
            · have n1 : ¬ ((y ^^^ a).toNat * 256 ^ as.length + beVal (List.zipWith (· ^^^ ·) as xs) <
                (y ^^^ a).toNat * 256 ^ as.length + beVal (List.zipWith (· ^^^ ·) as ys)) := by omega
              have n2 : ¬ ((y ^^^ a).toNat * 256 ^ as.length + beVal (List.zipWith (· ^^^ ·) as xs) =
                (y ^^^ a).toNat * 256 ^ as.length + beVal (List.zipWith (· ^^^ ·) as ys)) := by omega
              simp [h1, h2]
        · rw [if_neg heq]
          have hne : (x ^^^ a).toNat ≠ (y ^^^ a).toNat := fun h => heq (BitVec.eq_of_toNat_eq h)
          by_cases hlt : x ^^^ a < y ^^^ a
          · rw [if_pos hlt]
            have hl : (x ^^^ a).toNat < (y ^^^ a).toNat := BitVec.lt_def.1 hlt
            have := Nat.mul_le_mul_right (256 ^ as.length) (Nat.succ_le_of_lt hl)
            rw [Nat.succ_mul] at this
            rw [if_pos (by omega)]
          · rw [if_neg hlt]
            have hl : (y ^^^ a).toNat < (x ^^^ a).toNat := by
              have : ¬ (x ^^^ a).toNat < (y ^^^ a).toNat := fun h => hlt (BitVec.lt_def.2 h)
              omega
            have := Nat.mul_le_mul_right (256 ^ as.length) (Nat.succ_le_of_lt hl)
            rw [Nat.succ_mul] at this
            rw [if_neg (by omega), if_neg (by omega)]

theorem distanceCmpLoop_zero_iff (a : List Byte) : ∀ x y : List Byte, a.length = x.length → a.length = y.length →
    (distanceCmpLoop a x y = 0 ↔ x = y) := by
  induction a with
  | nil =>
    intro x y hx hy
    cases x with
    | nil => cases y with
      | nil => simp [distanceCmpLoop]
      | cons => simp at hy
    | cons => simp at hx
  | cons a as ih =>
    intro x y hx hy
    cases x with
    | nil => simp at hx
    | cons x xs =>
      cases y with
      | nil => simp at hy
      | cons y ys =>
        simp only [distanceCmpLoop]
        by_cases heq : x ^^^ a = y ^^^ a
        · rw [if_pos heq, ih xs ys (by simpa using hx) (by simpa using hy)]
          have := (xor_cancel_right a x y).1 heq
          simp [this]
        · rw [if_neg heq]
          have hxy : x ≠ y := fun h => heq ((xor_cancel_right a x y).2 h)
          by_cases hlt : x ^^^ a < y ^^^ a <;> simp [hlt, hxy]

end Aurora.Proximity
