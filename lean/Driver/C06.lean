import Driver.Util
import Driver.C03
import Driver.C05
import Aurora.Model.Accept
/-! Driver for C06: `retrieval.retrieveChunk` acceptance (`deliver`, `deliver2`, `forward`) and
    `traversal.GetChunkHashes` with a supplied pyramid (`pyr`) with real Keccak-256.
    Named byte strings (`def`) let op lines describe whole (adversarial) pyramids compactly:
    expression = atom('+'atom)*, atom = `h:<hex>` | `g:<seed>:<n>` | `p:<seed>:<n>:<period>` |
    `s<n>` (le64 n) | `z<n>` (n zero bytes) | `@name` | `@name/<n>` (first n bytes) |
    `@name^<pos>:<x>` (one byte xor-ed) | `#name` (the truncating BMT hash of `name` as span‖payload). -/
namespace Driver.C06
open Aurora.Bmt Aurora.Cac Aurora.Soc Aurora.Accept

def seg : Nat := 32
def d : Nat := 12
def C : Nat := 262144
def keccak := Driver.C03.keccak
def stale0 : Bytes := zeros (maxSize seg d)

structure St where
  cur : Option Chunk := none
  defs : List (String × Bytes × Bytes) := []     -- name, bytes, `#name`

/-- `#name`: what the (truncating) BMT hasher computes for `span ‖ payload` -/
def refOf (b : Bytes) : Bytes :=
  if b.length < 8 then zeros 32 else hashWith keccak seg d stale0 (b.take 8) (b.drop 8)

def atom (st : St) (a : String) : Except String Bytes :=
  if a.startsWith "@" then
    let body := (a.drop 1).toString
    match body.splitOn "/" with
    | [nm, n] =>
      match st.defs.lookup nm, n.toNat? with
      | some (b, _), some n => .ok (b.take n)
      | none, some _ => .error "noname"
      | _, none => .error "bad-op"
    | _ =>
      match body.splitOn "^" with
      | [nm, px] =>
        match st.defs.lookup nm, px.splitOn ":" with
        | some (b, _), [p, x] =>
          match p.toNat?, x.toNat? with
          | some p, some x => if p < b.length then .ok (b.set p (b[p]! ^^^ UInt8.ofNat x)) else .ok b
          | _, _ => .error "bad-op"
        | none, _ => .error "noname"
        | _, _ => .error "bad-op"
      | _ =>
        match st.defs.lookup body with
        | some (b, _) => .ok b
        | none => .error "noname"
  else if a.startsWith "#" then
    match st.defs.lookup (a.drop 1).toString with
    | some (_, h) => .ok h
    | none => .error "noname"
  else if a.startsWith "s" then
    match (a.drop 1).toString.toNat? with
    | some n => .ok (le64 n)
    | none => .error "bad-op"
  else if a.startsWith "z" then
    match (a.drop 1).toString.toNat? with
    | some n => .ok (zeros n)
    | none => .error "bad-op"
  else match Driver.parseSrc a with
    | some b => .ok b
    | none => .error "bad-op"

def expr (st : St) (e : String) : Except String Bytes :=
  (e.splitOn "+").foldl (init := .ok []) fun acc a =>
    match acc with
    | .error e => .error e
    | .ok b => match atom st a with
      | .error e => .error e
      | .ok x => .ok (b ++ x)

def short (b : Bytes) : String := Driver.bytesToHex (b.take 6)

def entryStr (e : Entry) : String := s!"{short e.1}:{e.2.length}:{short (keccak e.2)}"

/-- insertion sort on strings (canonical order of the stored set) -/
def sortStrs (l : List String) : List String := (l.toArray.qsort (· < ·)).toList

def xorAt (l : Bytes) (pos : Nat) (x : UInt8) : Option Bytes :=
  if pos < l.length then some (l.set pos (l[pos]! ^^^ x)) else none

def deliverOut (twice : Bool) (c : Chunk) (rec : Option Bytes) (credit report : Bool) : String :=
  let S := Driver.C05.oracleScheme [] [] rec
  let v := Aurora.Cac.valid keccak seg d stale0 c || Aurora.Soc.valid S keccak seg d stale0 c
  match acceptDelivery S keccak seg d stale0 credit report c.addr c.data with
  | some e => s!"ok credit=1 put={entryStr e} got={entryStr e}"
  | none =>
    let n := if v && credit then (if twice then 2 else 1) else 0
    s!"err credit={n} put=- got=-"

def step (st : St) (opl : List String) : St × String :=
  let (op, ann) := Driver.C05.splitAnnot opl
  match op with
  | ["new", src] =>
    match Driver.parseSrc src with
    | none => (st, "bad-op")
    | some data =>
      match Aurora.Cac.new keccak seg d stale0 data with
      | .error _ => ({ st with cur := none }, "err")
      | .ok c => ({ st with cur := some c }, s!"ok {short c.addr} {c.data.length}")
  | ["soc", key, id, src] =>
    match Driver.hexToBytes key, Driver.hexToBytes id, Driver.parseSrc src with
    | some _, some id, some data =>
      match Aurora.Cac.new keccak seg d stale0 data with
      | .error _ => ({ st with cur := none }, "err")
      | .ok ch =>
        match ann.map Driver.hexToBytes with
        | [some sig, some owner] =>
          match Aurora.Soc.sign (Driver.C05.oracleScheme sig owner none) keccak () id ch with
          | none => ({ st with cur := none }, "err")
          | some c => ({ st with cur := some c }, s!"ok {short c.addr} {c.data.length}")
        | _ => ({ st with cur := none }, "no-annot")
    | _, _, _ => (st, "bad-op")
  | ["set", addr, src] =>
    match Driver.hexToBytes addr, Driver.parseSrc src with
    | some a, some p => ({ st with cur := some { addr := a, data := p } }, "ok")
    | _, _ => (st, "bad-op")
  | ["setx", addr, e] =>
    match Driver.hexToBytes addr, expr st e with
    | some a, .ok p => ({ st with cur := some { addr := a, data := p } }, "ok")
    | _, .error "noname" => (st, "noname")
    | _, _ => (st, "bad-op")
  | ["def", name, e] =>
    match expr st e with
    | .error m => (st, m)
    | .ok b => ({ st with defs := (name, b, refOf b) :: st.defs.filter (·.1 ≠ name) }, s!"ok {b.length} {short (refOf b)}")
  | "pyr" :: rootE :: ents =>
    match expr st rootE with
    | .error m => (st, m)
    | .ok root =>
      let parsed := ents.foldl (init := (.ok [] : Except String (List Entry))) fun acc kv =>
        match acc with
        | .error e => .error e
        | .ok l =>
          match kv.splitOn "=" with
          | [k, v] =>
            match expr st k, expr st v with
            | .ok k, .ok v => .ok (l ++ [(k, v)])
            | .error e, _ => .error e
            | _, .error e => .error e
          | _ => .error "bad-op"
      match parsed with
      | .error m => (st, m)
      | .ok l =>
        match acceptPyramid keccak seg d stale0 (trav C 32 64) root (mkMap l) with
        | .error _ => (st, "err")
        | .ok stored => (st, "ok " ++ " ".intercalate (sortStrs (stored.map entryStr)))
  | _ =>
  match st.cur with
  | none => (st, "nochunk")
  | some c =>
    match op with
    | [kind, cr, rp] =>
      if kind = "deliver" ∨ kind = "deliver2" ∨ kind = "forward" then
        if (cr ≠ "0" ∧ cr ≠ "1") ∨ (rp ≠ "0" ∧ rp ≠ "1") then (st, "bad-op") else
        match Driver.C05.recOracle c.data ann with
        | .error e => (st, e)
        | .ok rec => (st, deliverOut (kind = "deliver2") c rec (cr = "1") (rp = "1"))
      else if kind = "mutd" then
        match cr.toNat?, rp.toNat? with
        | some pos, some x => match xorAt c.data pos (UInt8.ofNat x) with
          | some p => ({ st with cur := some { c with data := p } }, "ok")
          | none => (st, "range")
        | _, _ => (st, "bad-op")
      else if kind = "muta" then
        match cr.toNat?, rp.toNat? with
        | some pos, some x => match xorAt c.addr pos (UInt8.ofNat x) with
          | some a => ({ st with cur := some { c with addr := a } }, "ok")
          | none => (st, "range")
        | _, _ => (st, "bad-op")
      else (st, "bad-op")
    | ["trunc", n] =>
      match n.toNat? with
      | some n => ({ st with cur := some { c with data := c.data.take n } }, "ok")
      | none => (st, "bad-op")
    | ["extend", src] =>
      match Driver.parseSrc src with
      | some b => ({ st with cur := some { c with data := c.data ++ b } }, "ok")
      | none => (st, "bad-op")
    | _ => (st, "bad-op")

def handler : Driver.Handler := { σ := St, init := {}, step := step }

end Driver.C06
