import Aurora.Lemmas.Cheque
/-!
# C30 — Cheques are credited once and to the right peer

Property theorems only (helpers in `Aurora/Lemmas/Cheque.lean`).  The model
(`Aurora/Model/Cheque.lean`) transcribes `chequestore.ReceiveCheque` and
`traffic.Service.ReceiveCheque` (after the `||` repair) and is tied to the Go code by the
C30 correspondence run.  Signature recovery is an oracle argument; what "a valid signature of
the stated issuer" means cryptographically is a *hypothesis* (`C30_accept_signed`), never an axiom.
All statements hold for every state, cheque, peer and every history — no bound.
-/
namespace Aurora.Cheque

/-- Clause 1, store level (`ChequeStore.ReceiveCheque` return values): the store answers
    `ok amount` exactly when the cheque names this node as recipient, the recovered signer is the
    stated issuer, and the cumulative payout exceeds the issuer's last one; the amount is the
    increase and only that issuer's entry is replaced. -/
theorem C30_store_accept_iff (self : Nat) (s s' : Store) (c : Cheque) (r : Option Nat) (amt : Nat) :
    storeReceive self s c r = (s', .ok amt) ↔
      (c.rcp = self ∧ r = some c.ben ∧ lastCum s c.ben < c.cum ∧ amt = c.cum - lastCum s c.ben ∧
       s' = { last := fun i => if i = c.ben then some c else s.last i }) :=
  storeReceive_ok_iff self s c r s' amt

/-- Clause 1, service level (`accept_sound`): a cheque delivered by `peer` is accepted only if
    it names this node as recipient, the recovered signer is its stated issuer, it raises that
    issuer's cumulative payout, and `peer`'s registered chain address is that issuer. -/
theorem C30_accept_sound (st st' : St) (peer : Nat) (c : Cheque) (r : Option Nat) (amt : Nat)
    (h : receive st peer c r = (st', .store (.ok amt))) :
    c.rcp = st.self ∧ r = some c.ben ∧ lastCum st.store c.ben < c.cum ∧ st.fwd peer = some c.ben ∧
    amt = c.cum - lastCum st.store c.ben := receive_ok_sound st st' peer c r amt h

/-- Clause 1 under the cryptographic reading: if recovery is sound for the signature scheme
    (`recover c σ = some a` only when `a` signed `c` — EIP-712/secp256k1 unforgeability, a
    hypothesis), every accepted cheque was signed by its stated issuer. -/
theorem C30_accept_signed {Sig : Type} (recover : Cheque → Sig → Option Nat)
    (SignedBy : Nat → Cheque → Sig → Prop)
    (hsound : ∀ c σ a, recover c σ = some a → SignedBy a c σ)
    (st st' : St) (peer : Nat) (c : Cheque) (σ : Sig) (amt : Nat)
    (h : receive st peer c (recover c σ) = (st', .store (.ok amt))) : SignedBy c.ben c σ :=
  hsound c σ c.ben (C30_accept_sound st st' peer c _ amt h).2.1

/-- non-vacuity of `C30_accept_signed`: a toy scheme where the signature is the signer's id -/
example : ∃ st', receive (register (init 0) 7 3) 7 ⟨3, 0, 5⟩ ((fun (_ : Cheque) (σ : Nat) => some σ) ⟨3, 0, 5⟩ 3)
    = (st', .store (.ok 5)) := ⟨_, rfl⟩

/-- A cheque that is not accepted changes nothing (no store entry, no credit): replays, equal or
    lower amounts, mis-addressed, wrongly signed and foreign-issuer cheques are inert. -/
theorem C30_reject_no_change (st : St) (peer : Nat) (c : Cheque) (r : Option Nat)
    (h : ∀ amt, (receive st peer c r).2 ≠ .store (.ok amt)) : (receive st peer c r).1 = st :=
  receive_reject_no_change st peer c r h

/-- A replayed (or lower) cheque is never accepted: once an issuer's last cumulative payout is
    `≥ c.cum`, `c` is rejected whoever delivers it. -/
theorem C30_replay_rejected (st : St) (peer : Nat) (c : Cheque) (r : Option Nat)
    (hle : c.cum ≤ lastCum st.store c.ben) (amt : Nat) : (receive st peer c r).2 ≠ .store (.ok amt) := by
  intro h
  have := C30_accept_sound st (receive st peer c r).1 peer c r amt (Prod.ext rfl h)
  omega

/-- Effect of an accepted cheque: the credit record of the issuer's chain address — and of no
    other address — becomes the cumulative payout; only the issuer's stored cheque changes. -/
theorem C30_accept_effect (st st' : St) (peer : Nat) (c : Cheque) (r : Option Nat) (amt : Nat)
    (h : receive st peer c r = (st', .store (.ok amt))) :
    st'.credited c.ben = c.cum ∧ (∀ x, x ≠ c.ben → st'.credited x = st.credited x) ∧
    st'.store.last c.ben = some c ∧ (∀ x, x ≠ c.ben → st'.store.last x = st.store.last x) ∧
    st'.earned c.ben = st.earned c.ben + amt ∧ (∀ x, x ≠ c.ben → st'.earned x = st.earned x) ∧
    st'.fwd = st.fwd ∧ st'.rev = st.rev ∧ st'.self = st.self := receive_ok_effect st st' peer c r amt h

/-- Clause 2 (`credit_is_max`): over any history of registrations, cheques delivered by peers and
    direct store calls — valid, replayed, reordered, lower, mis-addressed, wrongly signed, foreign —
    the total credited to issuer `i` (Σ of the amounts the store returned) equals the highest
    accepted cumulative payout of `i`, which is the stored last cheque's amount (0 if none);
    and the credit record of `i`'s address never exceeds it. -/
theorem C30_credit_is_max (self : Nat) (ops : List Op) (i : Nat) :
    let st := run (init self) ops
    st.earned i = (accCums (init self) ops i).foldl max 0 ∧
    lastCum st.store i = (accCums (init self) ops i).foldl max 0 ∧
    st.credited i ≤ (accCums (init self) ops i).foldl max 0 := by
  have h := run_facts ops (init self) (inv_init self) i
  have h0 : lastCum (init self).store i = 0 := by simp [init, lastCum]
  rw [h0] at h
  exact ⟨by rw [(h.1 i).1, h.2], h.2, by rw [← h.2]; exact (h.1 i).2⟩

/-- non-vacuity / sanity: replay and reordering are credited once — the history
    10, 30, 10 (replay), 20 (late) for issuer 1 through peer 0 credits 30 in total -/
example :
    let ops := [Op.reg 0 1, .recv 0 ⟨1, 0, 10⟩ (some 1), .recv 0 ⟨1, 0, 30⟩ (some 1),
                .recv 0 ⟨1, 0, 10⟩ (some 1), .recv 0 ⟨1, 0, 20⟩ (some 1)]
    (run (init 0) ops).earned 1 = 30 ∧ (run (init 0) ops).credited 1 = 30 ∧ accCums (init 0) ops 1 = [10, 30] := by
  decide

/-- What the repair changed: with the former `&&` guard a cheque validly signed by issuer 2 but
    delivered by peer 0 (registered address 1) was accepted and credited to address 1. -/
theorem C30_receiveOld_counterexample :
    ∃ st peer c r st' amt, receiveOld st peer c r = (st', .store (.ok amt)) ∧
      st.fwd peer ≠ some c.ben ∧ st'.credited 1 = 77 ∧ c.ben = 2 := by
  refine ⟨register (register (init 0) 0 1) 1 2, 0, ⟨2, 0, 77⟩, some 2, _, 77, rfl, by decide, by decide, rfl⟩

end Aurora.Cheque
