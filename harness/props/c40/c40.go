// Package c40: correspondence + oracle for pkg/subscribe (property C40).
package c40

import (
	"fmt"
	"runtime"
	"sort"
	"strings"
	"sync"
	"time"

	"github.com/gauss-project/aurorafs/pkg/subscribe"

	"verifharness/core"
)

type prop struct{}

func init() { core.Register(prop{}) }

func (prop) ID() string { return "C40" }
func (prop) Rule() string {
	return "cases: 8-40 ops over 2-4 notifiers, 1-2 namespaces/kinds and params {-,p,q} (also the aliasing names kind=k_p / param=p): " +
		"sub (duplicates on the same key are common), err (closes the notifier's error channel; every waiting goroutine fires), errone (one error value: only the first parked goroutine of the notifier fires), sub on a notifier whose error already fired " +
		"(the subscribe/unsubscribe race: the runner floods the subscribe channel first so that the select sees both channels non-empty), pub, dump. " +
		"After every op the runner waits for quiescence (goroutine count, channel lengths, a sentinel subscription seen in the hook snapshot). " +
		"The schedule-bit strings on sub/err lines are used by the model only. Non-trivial: >=2 subs, >=1 err and >=2 pubs; distinct by op-list hash."
}

var (
	notifiers = []string{"n0", "n1", "n2", "n3"}
	nss       = []string{"a", "b"}
	kinds     = []string{"k", "k_p"}
	params    = []string{"-", "p", "q", "-"}
)

func (prop) Gen(r *core.Rand, tier string) []core.Case {
	n := 400
	if tier == "thorough" {
		n = 4000
	}
	cs := []core.Case{
		{ID: "fix-zombie", NT: true, Ops: []string{"err z", "sub z a k - 1", "dump", "pub a k - m1", "sub n0 a k -", "err n0", "sub n0 a k p 11", "dump", "pub a k p m2"}},
		{ID: "fix-duplicates", NT: true, Ops: []string{"sub n0 a k -", "sub n0 a k -", "sub n1 a k -", "sub n0 a k -", "dump", "pub a k - m1", "err n0 0101", "dump", "pub a k - m2", "pub a k p m3"}},
		{ID: "fix-dup-nonadjacent", NT: true, Ops: []string{"sub n0 a k p", "sub n1 a k p", "sub n0 a k p", "sub n0 a k p", "sub n1 a k p", "err n0 1", "dump", "pub a k p m1", "err n1", "dump", "pub a k p m2"}},
		{ID: "fix-one-error-duplicates", NT: true, Ops: []string{"sub n0 a k -", "sub n0 a k -", "sub n1 a k -", "sub n0 a k -", "sub n0 a k p", "errone n0", "dump", "pub a k p m1", "errone n0", "errone n0", "errone n0 1", "errone n0", "dump", "pub a k p m2"}},
		{ID: "fix-namespace-key", NT: true, Ops: []string{"sub n0 a k -", "sub n1 a k p", "sub n2 a k q", "pub a k p m1", "pub a k q m2", "pub a k - m3", "pub a k_p - m4", "sub n3 a k_p -", "pub a k p m5", "pub b k p m6", "err n1", "pub a k p m7"}},
		{ID: "fix-bad", NT: false, Ops: []string{"sub n0 a", "pub a k", "err", "sub N0 a k -", "pub a k - M", "sub n0 a k - 2", "dump x"}},
	}
	for i := 0; i < n; i++ {
		c := core.Case{ID: fmt.Sprintf("g%d", i)}
		nn := r.Range(2, 4)
		nns := r.Range(1, 2)
		nk := r.Range(1, 2)
		subs, errs, pubs, races := 0, 0, 0, 0
		dead := map[string]bool{}
		sched := func() string {
			if r.Chance(40) {
				return ""
			}
			b := make([]byte, r.Range(1, 6))
			for j := range b {
				b[j] = '0' + byte(r.Intn(2))
			}
			return " " + string(b)
		}
		nops := r.Range(8, 40)
		for k := 0; k < nops; k++ {
			nt := notifiers[r.Intn(nn)]
			ns, kd, pa := nss[r.Intn(nns)], kinds[r.Intn(nk)], params[r.Intn(len(params))]
			switch x := r.Intn(20); {
			case x < 8:
				if dead[nt] {
					if races >= 3 && r.Chance(80) {
						continue
					}
					races++
				}
				c.Ops = append(c.Ops, fmt.Sprintf("sub %s %s %s %s%s", nt, ns, kd, pa, sched()))
				subs++
				if r.Chance(30) { // duplicate right away
					c.Ops = append(c.Ops, fmt.Sprintf("sub %s %s %s %s", nt, ns, kd, pa))
				}
			case x < 10:
				if r.Chance(40) {
					c.Ops = append(c.Ops, "errone "+nt+sched())
					errs++
					continue
				}
				c.Ops = append(c.Ops, "err "+nt+sched())
				dead[nt] = true
				errs++
			case x < 17:
				c.Ops = append(c.Ops, fmt.Sprintf("pub %s %s %s m%d", ns, kd, pa, k))
				pubs++
			default:
				c.Ops = append(c.Ops, "dump")
			}
		}
		c.Ops = append(c.Ops, "dump", "pub a k p mz", "pub a k_p - my")
		c.NT = subs >= 2 && errs >= 1 && pubs >= 2
		cs = append(cs, c)
	}
	return cs
}

// ---- fake notifier

type delivery struct{ n, key, msg string }

type fakeN struct {
	id   string
	errc chan error
	rn   *runner
}

func (f *fakeN) Notify(key string, data interface{}) error {
	f.rn.mu.Lock()
	f.rn.log = append(f.rn.log, delivery{f.id, key, fmt.Sprint(data)})
	f.rn.mu.Unlock()
	return nil
}
func (f *fakeN) Err() <-chan error { return f.errc }

type spT interface {
	subscribe.SubPub
	VerifSnapshot() map[string][]subscribe.INotifier
	VerifPending() (int, int)
}

type nstate struct {
	f      *fakeN
	dead   bool
	order  []string        // keys of the Subscribe calls whose goroutine is still parked on Err(), in blocking order
	calls  int             // Subscribe calls made with this notifier while alive (goroutines waiting on Err)
	subs   map[string]int  // oracle: key -> subscriptions made while alive
	zombie map[string]int  // oracle: key -> subscriptions made after the error fired
	oneErr map[string]bool // oracle: an unsubscription of this key was triggered by a single error value
}

type runner struct {
	sp      spT
	mu      sync.Mutex
	log     []delivery
	ns      map[string]*nstate
	base    int // goroutines when nothing of this case is waiting
	alive   int // goroutines expected to be parked on Err() of live notifiers
	sent    *fakeN
	nsent   int
	dummies []*fakeN
	broken  bool
	// oracle
	expect map[string][]string // notifier -> messages it must have received, in order
	got    map[string][]string
}

var once sync.Once

const (
	sentNS   = "~sentinel"
	junkNS   = "~junk"
	floodLen = 44
)

func (prop) New() core.Runner {
	once.Do(func() { runtime.GOMAXPROCS(1) })
	rn := &runner{ns: map[string]*nstate{}, expect: map[string][]string{}, got: map[string][]string{}}
	rn.base = runtime.NumGoroutine() + 1 // + the process goroutine started by NewSubPub
	rn.sp = subscribe.NewSubPub()
	rn.sent = &fakeN{id: "~s", errc: make(chan error), rn: rn}
	return rn
}

func (rn *runner) Close() {
	// let every goroutine of this case finish (the process goroutine itself has no stop API)
	for _, st := range rn.ns {
		if !st.dead {
			close(st.f.errc)
			st.dead = true
		}
	}
	close(rn.sent.errc)
	for _, d := range rn.dummies {
		close(d.errc)
	}
	rn.alive = 0
	rn.waitGoroutines()
}

func poll(cond func() bool) bool {
	for i := 0; i < 20000; i++ {
		if cond() {
			return true
		}
		runtime.Gosched()
	}
	dl := time.Now().Add(3 * time.Second)
	for time.Now().Before(dl) {
		if cond() {
			return true
		}
		time.Sleep(200 * time.Microsecond)
	}
	return cond()
}

func (rn *runner) waitGoroutines() bool {
	return poll(func() bool { return runtime.NumGoroutine() <= rn.base+rn.alive })
}

// settle waits until process has applied everything that was enqueued:
// (1) every goroutine of a dead notifier has sent its event and exited, (2) both channels are empty,
// (3) a sentinel subscription sent after that is visible in the snapshot (process is sequential).
func (rn *runner) settle() bool {
	if !rn.waitGoroutines() {
		return false
	}
	if !poll(func() bool { a, b := rn.sp.VerifPending(); return a == 0 && b == 0 }) {
		return false
	}
	rn.nsent++
	rn.alive++
	_ = rn.sp.Subscribe(rn.sent, sentNS, "s", "")
	want := rn.nsent
	return poll(func() bool { return len(rn.sp.VerifSnapshot()[sentNS+"_s"]) >= want })
}

func validName(a string) bool {
	if len(a) == 0 {
		return false
	}
	for _, c := range a {
		if !(c >= '0' && c <= '9' || c >= 'a' && c <= 'z' || c == '_') {
			return false
		}
	}
	return true
}
func validSched(a string) bool { return strings.Trim(a, "01") == "" }
func param(a string) (string, bool) {
	if a == "-" {
		return "", true
	}
	return a, validName(a)
}

func (rn *runner) notifier(id string) *nstate {
	st := rn.ns[id]
	if st == nil {
		st = &nstate{f: &fakeN{id: id, errc: make(chan error), rn: rn}, subs: map[string]int{}, zombie: map[string]int{}, oneErr: map[string]bool{}}
		rn.ns[id] = st
	}
	return st
}

func (rn *runner) Step(ctx *core.Ctx, op []string) string {
	if rn.broken {
		return "sched-fail"
	}
	switch {
	case (len(op) == 5 || len(op) == 6 && validSched(op[5])) && op[0] == "sub":
		p, ok := param(op[4])
		if !ok || !validName(op[1]) || !validName(op[2]) || !validName(op[3]) {
			return "bad-op"
		}
		st := rn.notifier(op[1])
		key := op[2] + "_" + op[3]
		if p != "" {
			key += "_" + p
		}
		if st.dead {
			// the race: make process busy with a burst of junk subscriptions, so that this subscription and
			// its immediate unsubscription are both pending when the select runs
			d := &fakeN{id: "~d", errc: make(chan error), rn: rn}
			for i := 0; i < floodLen; i++ {
				_ = rn.sp.Subscribe(d, junkNS, "j", "")
			}
			_ = rn.sp.Subscribe(st.f, op[2], op[3], p)
			rn.dummies = append(rn.dummies, d) // their goroutines stay parked until Close
			rn.alive += floodLen
			st.zombie[key]++
		} else {
			_ = rn.sp.Subscribe(st.f, op[2], op[3], p)
			st.calls++
			rn.alive++
			st.subs[key]++
			st.oneErr[key] = false
			st.order = append(st.order, key)
		}
		if !rn.settle() {
			rn.broken = true
			return "sched-fail"
		}
		return "ok"
	case (len(op) == 2 || len(op) == 3 && validSched(op[2])) && op[0] == "err":
		if !validName(op[1]) {
			return "bad-op"
		}
		st := rn.notifier(op[1])
		if !st.dead {
			st.dead = true
			rn.alive -= st.calls
			st.calls, st.order = 0, nil
			close(st.f.errc)
		}
		if !rn.settle() {
			rn.broken = true
			return "sched-fail"
		}
		return "ok"
	case (len(op) == 2 || len(op) == 3 && validSched(op[2])) && op[0] == "errone":
		if !validName(op[1]) {
			return "bad-op"
		}
		st := rn.notifier(op[1])
		if st.dead || len(st.order) == 0 {
			return "nowait"
		}
		// one error value: exactly one parked goroutine (the one that blocked first) receives it
		st.f.errc <- fmt.Errorf("one error")
		key := st.order[0]
		st.order = st.order[1:]
		st.calls--
		rn.alive--
		st.subs[key] = 0 // oracle: one unsubscription must remove every entry of the notifier on that key
		st.oneErr[key] = true
		if !rn.settle() {
			rn.broken = true
			return "sched-fail"
		}
		return "ok"
	case len(op) == 5 && op[0] == "pub":
		p, ok := param(op[3])
		if !ok || !validName(op[1]) || !validName(op[2]) || !validName(op[4]) {
			return "bad-op"
		}
		rn.log = nil
		_ = rn.sp.Publish(op[1], op[2], p, op[4])
		keys := []string{op[1] + "_" + op[2]}
		if p != "" {
			keys = append(keys, keys[0]+"_"+p)
		}
		rn.oracle(ctx, keys, op[4])
		var out []string
		for _, d := range rn.log {
			out = append(out, d.n+":"+d.key+":"+d.msg)
		}
		if len(out) == 0 {
			return "-"
		}
		return strings.Join(out, ",")
	case len(op) == 1 && op[0] == "dump":
		snap := rn.sp.VerifSnapshot()
		var out []string
		for k, l := range snap {
			if strings.HasPrefix(k, "~") {
				continue
			}
			var ids []string
			for _, n := range l {
				ids = append(ids, n.(*fakeN).id)
			}
			out = append(out, k+"="+strings.Join(ids, "+"))
		}
		if len(out) == 0 {
			return "-"
		}
		sort.Strings(out)
		return strings.Join(out, ";")
	}
	return "bad-op"
}

// oracle: the property on the Notify calls of one Publish (all earlier ops are quiescent).
func (rn *runner) oracle(ctx *core.Ctx, keys []string, msg string) {
	got := map[string]map[string]int{} // notifier -> key -> count
	for _, d := range rn.log {
		if d.msg != msg {
			ctx.Fail("wrong-message", "%s got %q while %q was published", d.n, d.msg, msg)
		}
		if got[d.n] == nil {
			got[d.n] = map[string]int{}
		}
		got[d.n][d.key]++
		in := false
		for _, k := range keys {
			in = in || k == d.key
		}
		if !in {
			ctx.Fail("wrong-key", "%s notified for key %s, published keys %v", d.n, d.key, keys)
		}
	}
	for id, st := range rn.ns {
		for _, k := range keys {
			g := got[id][k]
			switch {
			case st.dead && g > 0 && st.zombie[k] > 0:
				ctx.Fail("delivery-after-error/subscribed-after-error", "%s got %d message(s) on %s although its error channel fired before it subscribed", id, g, k)
			case st.dead && g > 0 && st.subs[k] > 1:
				ctx.Fail("delivery-after-error/duplicate-subscription", "%s got %d message(s) on %s after its error channel fired (%d subscriptions)", id, g, k, st.subs[k])
			case st.dead && g > 0:
				ctx.Fail("delivery-after-error/single", "%s got %d message(s) on %s after its error channel fired", id, g, k)
			case !st.dead && g < st.subs[k]:
				ctx.Fail("missed-delivery", "%s has %d subscription(s) on %s but got %d message(s)", id, st.subs[k], k, g)
			case !st.dead && g > 0 && st.subs[k] == 0 && st.oneErr[k]:
				ctx.Fail("delivery-after-error/one-unsubscription-left-duplicate", "%s got %d message(s) on %s after an unsubscription of that key was processed", id, g, k)
			case !st.dead && g > st.subs[k]:
				ctx.Fail("extra-delivery", "%s has %d subscription(s) on %s but got %d message(s)", id, st.subs[k], k, g)
			}
		}
	}
	// order: the namespace-wide key is served before the specific key
	seenSpecific := false
	for _, d := range rn.log {
		if len(keys) == 2 && d.key == keys[1] {
			seenSpecific = true
		}
		if len(keys) == 2 && d.key == keys[0] && seenSpecific {
			ctx.Fail("key-order", "namespace-wide key notified after the specific key")
		}
	}
}
