// Package c12: correspondence + model-free oracle for property C12
// (garbage collection never deletes pinned or uploaded chunks) on the node-lite harness.
package c12

import (
	"fmt"
	"strings"

	"verifharness/core"
	"verifharness/nodelite"
)

type prop struct{}

func init() { core.Register(prop{}) }

func (prop) ID() string { return "C12" }
func (prop) Rule() string {
	return "node-lite histories (real localstore + chunkinfo + pinning + traversal + netstore + retrieval + API server, a second real node as peer): 1-3 initial uploads / cached files, " +
		"then 6-16 ops: uploads (45 % pinned) of files with identical content, chunk-aligned prefixes, repeated chunks and directories sharing files; raw /bytes uploads (70 % pinned, not known to chunkinfo); " +
		"files cached from the peer (pyramid exchange + full or partial fetch); pin/unpin through the API; collection runs `gc c` with capacity 0-8 (synchronous, until done); read-back. " +
		"Fixed regression histories for every known trigger first. After every op status and full symbolic dump (stored set, pin index, gc index, gcSize, pyramid refcounts, chunkinfo tables, state-store keys, pin list) are compared with the Lean model; " +
		"the oracle compares the pin index before/after every run and checks Has for every pinned or uploaded chunk. Non-trivial: >=1 executed gc run with a non-empty gc index and >=1 pinned or uploaded chunk stored; distinct by op-list hash."
}

var fixed = []core.Case{
	// pinned raw upload of A; cached file AB lists A with refcount 1 (chunkinfo does not know the raw upload) -> evicting AB deletes A and its pin
	{ID: "fix-raw-pinned-shared-with-cached", NT: true, Ops: []string{"raw A 1", "pup x/AB 0", "pyr x/AB", "fetch x/AB 0 11", "gc 0", "read x/AB"}},
	// uploaded file becomes a gc candidate after pin; unpin
	{ID: "fix-upload-pin-unpin-gc", NT: true, Ops: []string{"up x/a 0", "pin x/a", "unpin x/a", "gc 0", "read x/a"}},
	// pinned cached file: more chunks fetched after the pin re-enter the root into the gc index
	{ID: "fix-cached-pinned-then-fetch", NT: true, Ops: []string{"pup y/ABA 0", "pyr y/ABA", "fetch y/ABA 0 100", "pin y/ABA", "fetch y/ABA 0 010", "gc 0", "read y/ABA"}},
	// uploaded and cached files sharing chunks, both known to chunkinfo: protected by refcounts
	{ID: "fix-upload-and-cache-share", NT: true, Ops: []string{"up x/AB 1", "pup y/ABA 0", "pyr y/ABA", "fetch y/ABA 0 111", "gc 0", "read x/AB", "pins"}},
	// a file cached first and uploaded afterwards keeps its root in the gc index: the run deletes the uploaded chunks (and pins)
	{ID: "fix-cached-then-uploaded", NT: true, Ops: []string{"pup w/c 0", "pyr w/c", "up w/c 0", "gc 1", "read w/c"}},
	{ID: "fix-cached-then-uploaded-pinned", NT: true, Ops: []string{"pup y/a 0", "pyr y/a", "up y/a 1", "gc 1", "read y/a", "pins"}},
	{ID: "fix-dir-pinned-cache-shares-file", NT: true, Ops: []string{"up p/a+q/b 1", "pup q/b+s/c 0", "pyr q/b+s/c", "fetch q/b+s/c 0 1", "fetch q/b+s/c 1 1", "gc 1", "read p/a+q/b"}},
}

func (prop) Gen(r *core.Rand, tier string) []core.Case {
	n := 80
	if tier == "thorough" {
		n = 450
	}
	cs := append([]core.Case(nil), fixed...)
	for i := 0; i < n; i++ {
		cfg := nodelite.GenConfig{MinOps: 6, MaxOps: 16, PinUploads: 45, Pins: 14, GC: 16, Cache: 16, Partial: i%2 == 0, Reads: 6, Raw: 8, Dirs: true, Budget: 7}
		ops := nodelite.GenHistory(r.Fork(), cfg)
		cs = append(cs, core.Case{ID: fmt.Sprintf("g%d", i), NT: nontrivial(ops), Ops: ops})
	}
	return cs
}

func nontrivial(ops []string) bool {
	gc, stored, cached := false, false, false
	for _, o := range ops {
		switch {
		case strings.HasPrefix(o, "gc "):
			gc = gc || cached || stored
		case strings.HasPrefix(o, "up ") || strings.HasPrefix(o, "raw "):
			stored = true
		case strings.HasPrefix(o, "fetch ") || strings.HasPrefix(o, "pyr "):
			cached = true
		}
	}
	return gc && stored && cached
}


func (prop) New() core.Runner { return nodelite.NewRunner(nodelite.NewC12Oracle()) }
