// Package core is the property-independent part of the correspondence harness:
// PRNG, case format, per-op execution with panic recovery, oracle failure collection.
package core

import (
	"bufio"
	"encoding/hex"
	"encoding/json"
	"fmt"
	"io"
	"os"
	"sort"
	"strconv"
	"strings"
)

// Rand is splitmix64; every random choice of a run derives from one state.
type Rand struct{ s uint64 }

func NewRand(seed uint64) *Rand { return &Rand{s: seed*0x9E3779B97F4A7C15 + 0x1234567} }
func (r *Rand) U64() uint64 {
	r.s += 0x9E3779B97F4A7C15
	z := r.s
	z = (z ^ (z >> 30)) * 0xBF58476D1CE4E5B9
	z = (z ^ (z >> 27)) * 0x94D049BB133111EB
	return z ^ (z >> 31)
}
func (r *Rand) Intn(n int) int {
	if n <= 0 {
		return 0
	}
	return int(r.U64() % uint64(n))
}
func (r *Rand) Range(lo, hi int) int { return lo + r.Intn(hi-lo+1) } // inclusive
func (r *Rand) Bool() bool           { return r.U64()&1 == 1 }
func (r *Rand) Chance(pct int) bool  { return r.Intn(100) < pct }
func (r *Rand) Bytes(n int) []byte {
	b := make([]byte, n)
	for i := range b {
		b[i] = byte(r.U64())
	}
	return b
}
func (r *Rand) Pick(xs []int) int { return xs[r.Intn(len(xs))] }
func (r *Rand) Fork() *Rand       { return NewRand(r.U64()) }

// Hex encodes bytes as the line protocol does ("-" for empty).
func Hex(b []byte) string {
	if len(b) == 0 {
		return "-"
	}
	return hex.EncodeToString(b)
}
func UnHex(s string) ([]byte, error) {
	if s == "-" {
		return []byte{}, nil
	}
	return hex.DecodeString(s)
}
func B(b bool) string {
	if b {
		return "1"
	}
	return "0"
}

// Case is one operation sequence. NT marks it non-trivial by the property's rule.
type Case struct {
	ID  string
	NT  bool
	Ops []string
}

// Fail is an oracle failure on the implementation trace (model-free).
type Fail struct {
	Case   string `json:"case"`
	Clause string `json:"clause"`
	Op     int    `json:"op"`
	Msg    string `json:"msg"`
}

// Ctx is handed to Step so the property oracle can report failures.
type Ctx struct {
	caseID string
	op     int
	fails  *[]Fail
	annot  []string
}

// Annotate appends tokens to the op line as the model driver will see it: the driver receives
// `<op line> | tok1 tok2 …`.  Use it for choices the real code makes that the model cannot
// compute (random subsets, nonces, salts, signatures, recovered keys, wall-clock reads): the
// model checks admissibility of the observed choice and continues with it (DESIGN §4).
func (c *Ctx) Annotate(tokens ...string) { c.annot = append(c.annot, tokens...) }

func (c *Ctx) Fail(clause, format string, a ...interface{}) {
	*c.fails = append(*c.fails, Fail{Case: c.caseID, Clause: clause, Op: c.op, Msg: fmt.Sprintf(format, a...)})
}

// Runner executes the ops of one case against the real code.
type Runner interface {
	Step(ctx *Ctx, op []string) string
	Close()
}

// Prop is what each property package provides.
type Prop interface {
	ID() string
	// Gen produces the generated cases for a seed and tier ("quick"/"thorough").
	Gen(r *Rand, tier string) []Case
	// New creates a fresh runner (fresh implementation state) for one case.
	New() Runner
	// Rule describes generation and what makes a case non-trivial.
	Rule() string
}

var registry = map[string]Prop{}

func Register(p Prop) { registry[p.ID()] = p }
func Lookup(id string) Prop {
	return registry[id]
}
func IDs() []string {
	var ids []string
	for k := range registry {
		ids = append(ids, k)
	}
	sort.Strings(ids)
	return ids
}

// WriteCases writes cases in the line format shared with the Lean driver.
func WriteCases(w io.Writer, cs []Case) {
	bw := bufio.NewWriter(w)
	defer bw.Flush()
	for _, c := range cs {
		nt := 0
		if c.NT {
			nt = 1
		}
		fmt.Fprintf(bw, "#case %s nt=%d\n", c.ID, nt)
		for _, op := range c.Ops {
			fmt.Fprintln(bw, op)
		}
	}
}

// ReadCases parses the line format.
func ReadCases(r io.Reader) []Case {
	var cs []Case
	sc := bufio.NewScanner(r)
	sc.Buffer(make([]byte, 1<<20), 1<<30)
	for sc.Scan() {
		line := strings.TrimRight(sc.Text(), "\r\n")
		if line == "" {
			continue
		}
		if strings.HasPrefix(line, "#case") {
			f := strings.Fields(line)
			c := Case{}
			if len(f) > 1 {
				c.ID = f[1]
			}
			for _, x := range f[2:] {
				if x == "nt=1" {
					c.NT = true
				}
			}
			cs = append(cs, c)
			continue
		}
		if len(cs) == 0 {
			cs = append(cs, Case{ID: "anon"})
		}
		cs[len(cs)-1].Ops = append(cs[len(cs)-1].Ops, line)
	}
	return cs
}

// step runs one op under recover: a Go panic becomes the output line "panic".
func step(rn Runner, ctx *Ctx, op []string) (out string) {
	defer func() {
		if e := recover(); e != nil {
			msg := fmt.Sprint(e)
			if len(msg) > 200 {
				msg = msg[:200]
			}
			if os.Getenv("VH_DEBUG") != "" {
				fmt.Fprintf(os.Stderr, "recovered panic in case %s op %d (%v): %s\n", ctx.caseID, ctx.op, op, msg)
			}
			out = "panic"
		}
	}()
	return rn.Step(ctx, op)
}

// Exec runs all cases; writes the output stream (one line per input line) and returns fails.
// If annot is non-nil it receives the case file as the model driver must read it: every op line
// followed by ` | <tokens>` when the runner annotated that op (identical to the input otherwise).
func Exec(p Prop, cs []Case, w io.Writer, annot io.Writer) []Fail {
	bw := bufio.NewWriter(w)
	defer bw.Flush()
	var aw *bufio.Writer
	if annot != nil {
		aw = bufio.NewWriter(annot)
		defer aw.Flush()
	}
	var fails []Fail
	for _, c := range cs {
		nt := 0
		if c.NT {
			nt = 1
		}
		fmt.Fprintf(bw, "#case %s nt=%d\n", c.ID, nt)
		if aw != nil {
			fmt.Fprintf(aw, "#case %s nt=%d\n", c.ID, nt)
		}
		rn := p.New()
		ctx := &Ctx{caseID: c.ID, fails: &fails}
		for i, op := range c.Ops {
			ctx.op = i
			ctx.annot = nil
			out := step(rn, ctx, strings.Fields(op))
			fmt.Fprintln(bw, out)
			if aw != nil {
				if len(ctx.annot) > 0 {
					fmt.Fprintln(aw, op+" | "+strings.Join(ctx.annot, " "))
				} else {
					fmt.Fprintln(aw, op)
				}
			}
		}
		func() {
			defer func() { recover() }()
			rn.Close()
		}()
		bw.Flush()
	}
	return fails
}

func WriteFails(path string, fails []Fail) error {
	f, err := os.Create(path)
	if err != nil {
		return err
	}
	defer f.Close()
	enc := json.NewEncoder(f)
	for _, x := range fails {
		if err := enc.Encode(x); err != nil {
			return err
		}
	}
	return nil
}

// GenBytes is the deterministic content generator shared with the Lean driver
// (Driver.genBytes): byte i is the low byte of the i-th splitmix64 output of NewRand(seed)'s
// state; with period > 0 the content repeats with that period.
func GenBytes(seed uint64, n int, period int) []byte {
	m := n
	if period > 0 && period < n {
		m = period
	}
	r := &Rand{s: seed*0x9E3779B97F4A7C15 + 0x1234567}
	base := make([]byte, m)
	for i := range base {
		base[i] = byte(r.U64())
	}
	if m == n {
		return base
	}
	out := make([]byte, n)
	for i := range out {
		out[i] = base[i%m]
	}
	return out
}

// ParseSrc decodes a data-source token shared with the Lean driver (Driver.parseSrc):
// h:<hex> | g:<seed>:<n> | p:<seed>:<n>:<period>.
func ParseSrc(s string) ([]byte, bool) {
	f := strings.Split(s, ":")
	switch {
	case len(f) == 2 && f[0] == "h":
		b, err := UnHex(f[1])
		return b, err == nil
	case len(f) == 3 && f[0] == "g":
		a, e1 := strconv.ParseUint(f[1], 10, 64)
		n, e2 := strconv.Atoi(f[2])
		if e1 != nil || e2 != nil || n < 0 {
			return nil, false
		}
		return GenBytes(a, n, 0), true
	case len(f) == 4 && f[0] == "p":
		a, e1 := strconv.ParseUint(f[1], 10, 64)
		n, e2 := strconv.Atoi(f[2])
		p, e3 := strconv.Atoi(f[3])
		if e1 != nil || e2 != nil || e3 != nil || n < 0 || p < 0 {
			return nil, false
		}
		return GenBytes(a, n, p), true
	}
	return nil, false
}
