import Aurora.Model.ChunkPyramid
/-!
# Model of the availability / discovery / source tables of `pkg/chunkinfo` (property C17)

`Tables` is one image of the three tables; the service state holds two images, the in-memory
one and the one persisted in the state store (every update writes the changed vector through,
`DelFile` deletes both, `InitChunkInfo` rebuilds memory from the persisted image).

Overlays: `self` is the node itself.  A bit vector is a `List Bool` of the file's number of
distinct data chunks.  Transcribed (after the C17 `fix:` commit): `putChunkInfoNeighbor`,
`updateNeighborChunkInfo` (sets the bit only for a cid that IS a data chunk — `getCidSortOK`),
`updatePyramidSource`, `UpdateChunkInfoSource` (still uses `getCidSort`, i.e. position 0 for a
non-data cid: the source table is not part of the property), `updateChunkInfo` (discover),
`delPresence`, `delDiscoverPresence`, `DelChunkInfoSource`, `isDownload`.
Core Lean only.
-/
namespace Aurora.ChunkInfo
open Aurora.ChunkPyramid

abbrev Ov := Nat
def self : Ov := 0

abbrev Bits := List Bool

def zeros (n : Nat) : Bits := List.replicate n false
def ones (n : Nat) : Bits := List.replicate n true
def setBit (b : Bits) (i : Nat) : Bits := b.set i true
def getBit (b : Bits) (i : Nat) : Bool := b.getD i false
def orBits : Bits → Bits → Bits
  | a :: as, b :: bs => (a || b) :: orBits as bs
  | as, [] => as
  | [], _ => []

/-- `BitVector.Equals()` (after C39's fix): all `len` bits set -/
def allSet (b : Bits) : Bool := b.all id

/-- association-list update -/
def upd {β : Type} (m : List (Nat × β)) (k : Nat) (v : β) : List (Nat × β) :=
  if (m.lookup k).isSome then m.map (fun e => if e.1 = k then (k, v) else e) else m ++ [(k, v)]

def del {β : Type} (m : List (Nat × β)) (k : Nat) : List (Nat × β) := m.filter (fun e => e.1 != k)

/-- source record of one root -/
structure Source where
  /-- `PyramidSource` (`none` = empty string) -/
  pyramid : Option Ov := none
  chunks : List (Ov × Bits) := []
deriving DecidableEq, Repr

/-- one image of the three tables, keyed by root -/
structure Tables where
  presence : List (Addr × List (Ov × Bits)) := []
  discover : List (Addr × List (Ov × Bits)) := []
  source : List (Addr × Source) := []
deriving DecidableEq, Repr

def Tables.pres (t : Tables) (root : Addr) (o : Ov) : Option Bits :=
  (t.presence.lookup root).bind (fun m => m.lookup o)

def Tables.mentions (t : Tables) (root : Addr) : Bool :=
  (t.presence.lookup root).isSome || (t.discover.lookup root).isSome || (t.source.lookup root).isSome

/-- memory + persisted image -/
structure State where
  mem : Tables := {}
  disk : Tables := {}
deriving DecidableEq, Repr

def onBoth (s : State) (f : Tables → Tables) : State := { mem := f s.mem, disk := f s.disk }

/-- `putChunkInfoNeighbor(root, o)` once the chunk count `n > 0` is known: create a zero vector
    unless one exists (memory decides; the new vector is written through) -/
def putNeighbor (s : State) (root : Addr) (o : Ov) (n : Nat) : State :=
  match s.mem.pres root o with
  | some _ => s
  | none =>
    let ins (t : Tables) : Tables :=
      { t with presence := upd t.presence root (upd ((t.presence.lookup root).getD []) o (zeros n)) }
    onBoth s ins

/-- `updateNeighborChunkInfo(root, cid, o)` after `putChunkInfoNeighbor` succeeded: set the bit of
    `cid` iff it is a data chunk of the file; the vector is written through either way -/
def markPresent (s : State) (f : FileS) (o : Ov) (cid : Addr) : State :=
  match s.mem.pres f.root o with
  | none => s
  | some b =>
    let b' := match f.cidPos cid with
      | some i => setBit b i
      | none => b
    let ins (t : Tables) : Tables :=
      { t with presence := upd t.presence f.root (upd ((t.presence.lookup f.root).getD []) o b') }
    onBoth s ins

/-- `updatePyramidSource(root, src)` -/
def updatePyramidSource (s : State) (root : Addr) (src : Ov) : State :=
  match s.mem.source.lookup root with
  | none => onBoth s (fun t => { t with source := upd t.source root { pyramid := some src, chunks := ((t.source.lookup root).getD {}).chunks } })
  | some r =>
    if r.pyramid.isNone then
      onBoth s (fun t => { t with source := upd t.source root { ((t.source.lookup root).getD {}) with pyramid := some src } })
    else s

/-- `UpdateChunkInfoSource(root, src, cid)`: position by `getCidSort` (0 for a non-data cid);
    nothing if some overlay's vector already has that position -/
def updateChunkSource (s : State) (f : FileS) (src : Ov) (cid : Addr) : State :=
  match s.mem.source.lookup f.root with
  | none => s
  | some r =>
    let v := f.cidSort cid
    if r.chunks.any (fun e => getBit e.2 v) then s
    else
      let cur := (r.chunks.lookup src).getD (zeros f.cids.length)
      let nb := setBit cur v
      onBoth s (fun t =>
        let r' := (t.source.lookup f.root).getD {}
        { t with source := upd t.source f.root { r' with chunks := upd r'.chunks src nb } })

/-- `updateChunkInfo(root, o, bv)` of the discover table (`bv` already cut to the file's length) -/
def updateDiscover (s : State) (f : FileS) (o : Ov) (bv : Bits) : State :=
  let cur := (s.mem.discover.lookup f.root).getD []
  let nb := match cur.lookup o with
    | some b => orBits b bv
    | none => bv
  onBoth s (fun t => { t with discover := upd t.discover f.root (upd ((t.discover.lookup f.root).getD []) o nb) })

/-- the table part of `DelFile`: `delDiscoverPresence`, `DelChunkInfoSource`, `delPresence`.
    Each of the three deletes by the PREFIX `<prefix><root>` in the state store and the whole `root`
    entry in memory: the records of EVERY overlay under that root go — the node's own availability
    record and the ones it keeps for the peers it served (`chunk-<root>-<peer>`) alike. -/
def delFile (s : State) (root : Addr) : State :=
  onBoth s (fun t => { presence := del t.presence root, discover := del t.discover root, source := del t.source root })

/-- NOT the code: `delPresence` deleting only the node's own persisted record (`chunk-<root>-<self>`)
    while the in-memory entry of the root is dropped completely; discover and source as in `delFile`.
    Exists only to state that this is a different function (`C17_self_only_delete_counterexample`). -/
def delFileSelfOnly (s : State) (root : Addr) : State :=
  { mem := { presence := del s.mem.presence root, discover := del s.mem.discover root, source := del s.mem.source root },
    disk := { presence := s.disk.presence.map (fun e => if e.1 = root then (e.1, del e.2 self) else e),
              discover := del s.disk.discover root, source := del s.disk.source root } }

/-- the state-store keys of chunkinfo, one per (prefix, root, overlay): `chunk-<root>-<o>`,
    `discover-<root>-<o>`, `sourceChunk-<root>-<o>`, `sourcePyramid-<root>-<o>` -/
inductive Key
  | chunk (root : Addr) (o : Ov)
  | discover (root : Addr) (o : Ov)
  | sourceChunk (root : Addr) (o : Ov)
  | sourcePyramid (root : Addr) (o : Ov)
deriving DecidableEq, Repr

def Key.root : Key → Addr
  | .chunk r _ => r
  | .discover r _ => r
  | .sourceChunk r _ => r
  | .sourcePyramid r _ => r

/-- every record of an image as its state-store key (for the persisted image: the keys that exist) -/
def Tables.keys (t : Tables) : List Key :=
  t.presence.flatMap (fun e => e.2.map (fun o => Key.chunk e.1 o.1)) ++
  t.discover.flatMap (fun e => e.2.map (fun o => Key.discover e.1 o.1)) ++
  t.source.flatMap (fun e => e.2.chunks.map (fun o => Key.sourceChunk e.1 o.1)) ++
  t.source.flatMap (fun e => match e.2.pyramid with | some o => [Key.sourcePyramid e.1 o] | none => [])

/-- `DelDiscover` -/
def delDiscover (s : State) (root : Addr) : State :=
  onBoth s (fun t => { t with discover := del t.discover root })

/-- `InitChunkInfo` on a fresh service: memory := persisted image -/
def reinit (s : State) : State := { mem := s.disk, disk := s.disk }

/-- `isDownload(root, self)` -/
def isDownload (s : State) (root : Addr) : Bool :=
  match s.mem.pres root self with
  | some b => allSet b
  | none => false

end Aurora.ChunkInfo
