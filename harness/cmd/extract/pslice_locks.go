// pslice_locks.go — lock-discipline facts for pkg/topology/pslice.PSlice (property C21, race clause).
//
// For every method of PSlice the body is walked in source order, tracking which mode of
// <recv>.mu is held; every syntactic access to <recv>.peers / <recv>.baseBytes is emitted
// together with the lock state at that point.  The Lean side (Lemmas/PSliceLocks.lean)
// decides that every row is guarded and combines the table with the generic lock-set lemma.
//
// The analysis is deliberately conservative: whatever it does not understand becomes
// guard `unknown`, which the Lean check rejects.
package main

import (
	"fmt"
	"go/ast"
	"go/parser"
	"go/token"
	"path/filepath"
	"sort"
	"strconv"
	"strings"
)

func init() { extraGenerators["PSliceLocks.lean"] = genPSliceLocks }

const (
	plFile     = "pkg/topology/pslice/pslice.go"
	plStruct   = "PSlice"
	plMaxDepth = 8
)

var plGuarded = map[string]bool{"peers": true, "baseBytes": true}

type plGuard int

const (
	plNone plGuard = iota
	plLock
	plRLock
	plUnknown
)

func (g plGuard) lean() string {
	switch g {
	case plLock:
		return ".lock"
	case plRLock:
		return ".rlock"
	case plNone:
		return ".none"
	}
	return ".unknown"
}

type plAccess struct {
	method, via, field string
	write              bool
	guard              plGuard
	line               int
}

type plMethod struct {
	name   string
	recv   string // receiver identifier ("" or "_" if unnamed)
	body   *ast.BlockStmt
	usesMu bool // body mentions <recv>.<mutex>
	called bool // helper: called from some other method
}

type plWalker struct {
	fset    *token.FileSet
	mutex   string // name of the mutex field
	methods map[string]*plMethod

	method string // method the rows are attributed to
	via    string // helper being inlined ("" = direct)
	recv   string // receiver identifier of the body being walked
	depth  int

	state    plGuard
	poisoned bool      // state is unknown for the rest of the method
	allBad   bool      // every row of the method becomes unknown (unstructured jump with a different lock state)
	inLit    int       // >0: inside a function literal / go / defer argument
	entry    []plGuard // lock state at the entry of the enclosing loops / switches
	rows     []plAccess
	others   []plOther // writes to other (non-mutex) fields of the receiver
}

type plOther struct {
	method, field string
	line          int
}

func (w *plWalker) guard() plGuard {
	if w.poisoned || w.inLit > 0 {
		return plUnknown
	}
	return w.state
}

func (w *plWalker) poison() { w.poisoned = true; w.state = plUnknown }

func (w *plWalker) emit(field string, write bool, pos token.Pos) {
	w.rows = append(w.rows, plAccess{w.method, w.via, field, write, w.guard(), w.fset.Position(pos).Line})
}

func (w *plWalker) isRecv(e ast.Expr) bool {
	id, ok := e.(*ast.Ident)
	return ok && w.recv != "" && w.recv != "_" && id.Name == w.recv
}

// muCall recognises <recv>.<mutex>.<Lock|RLock|Unlock|RUnlock>()
func (w *plWalker) muCall(e ast.Expr) (string, bool) {
	c, ok := e.(*ast.CallExpr)
	if !ok || len(c.Args) != 0 {
		return "", false
	}
	sel, ok := c.Fun.(*ast.SelectorExpr)
	if !ok {
		return "", false
	}
	in, ok := sel.X.(*ast.SelectorExpr)
	if !ok || !w.isRecv(in.X) || in.Sel.Name != w.mutex {
		return "", false
	}
	switch sel.Sel.Name {
	case "Lock", "RLock", "Unlock", "RUnlock":
		return sel.Sel.Name, true
	}
	return "", false
}

func plIsPanic(e ast.Expr) bool {
	c, ok := e.(*ast.CallExpr)
	if !ok {
		return false
	}
	id, ok := c.Fun.(*ast.Ident)
	return ok && id.Name == "panic"
}

// inline emits the accesses of helper h under the caller's current guard.
func (w *plWalker) inline(h *plMethod, forceUnknown bool) {
	h.called = true
	if w.depth >= plMaxDepth {
		forceUnknown = true
	}
	sv, sr := w.via, w.recv
	if w.via == "" {
		w.via = h.name
	}
	w.recv = h.recv
	w.depth++
	if forceUnknown {
		w.inLit++
	}
	if w.depth <= plMaxDepth+1 {
		w.block(h.body.List)
	}
	if forceUnknown {
		w.inLit--
	}
	w.depth--
	w.via, w.recv = sv, sr
}

// expr walks an expression in source order; write = the expression is the root of an assignment target.
func (w *plWalker) expr(e ast.Expr, write bool) {
	switch x := e.(type) {
	case nil:
		return
	case *ast.SelectorExpr:
		if w.isRecv(x.X) {
			switch {
			case plGuarded[x.Sel.Name]:
				w.emit(x.Sel.Name, write, x.Pos())
			case x.Sel.Name == w.mutex:
				w.poison() // the mutex is used in a way the walker does not model
			default:
				if h, ok := w.methods[x.Sel.Name]; ok {
					if !h.usesMu {
						w.inline(h, true) // method value: runs who knows when
					}
				} else if write {
					w.others = append(w.others, plOther{w.method, x.Sel.Name, w.fset.Position(x.Pos()).Line})
				}
			}
			return
		}
		w.expr(x.X, write)
	case *ast.IndexExpr:
		w.expr(x.X, write)
		w.expr(x.Index, false)
	case *ast.SliceExpr:
		w.expr(x.X, write)
		w.expr(x.Low, false)
		w.expr(x.High, false)
		w.expr(x.Max, false)
	case *ast.ParenExpr:
		w.expr(x.X, write)
	case *ast.StarExpr:
		w.expr(x.X, write)
	case *ast.UnaryExpr:
		w.expr(x.X, write || x.Op == token.AND) // &s.peers may be written through
	case *ast.BinaryExpr:
		w.expr(x.X, false)
		w.expr(x.Y, false)
	case *ast.KeyValueExpr:
		w.expr(x.Key, false)
		w.expr(x.Value, false)
	case *ast.CallExpr:
		if _, ok := w.muCall(x); ok {
			w.poison() // mutex call that is not a plain statement
			return
		}
		if sel, ok := x.Fun.(*ast.SelectorExpr); ok && w.isRecv(sel.X) {
			if h, ok := w.methods[sel.Sel.Name]; ok {
				for _, a := range x.Args {
					w.expr(a, false)
				}
				if !h.usesMu {
					w.inline(h, false)
				}
				return
			}
		}
		w.expr(x.Fun, false)
		for i, a := range x.Args {
			id, isCopy := x.Fun.(*ast.Ident)
			w.expr(a, i == 0 && isCopy && id.Name == "copy" && len(x.Args) == 2)
		}
	case *ast.FuncLit:
		w.inLit++
		w.block(x.Body.List)
		w.inLit--
	default:
		ast.Inspect(e, func(n ast.Node) bool {
			if n == nil || n == ast.Node(e) {
				return true
			}
			if sub, ok := n.(ast.Expr); ok {
				w.expr(sub, false)
				return false
			}
			return true
		})
	}
}

func (w *plWalker) block(list []ast.Stmt) (term bool) {
	for _, s := range list {
		if w.stmt(s) {
			term = true
		}
	}
	return term
}

// branch runs f from lock state start; returns the state at its end and whether it always leaves the function.
func (w *plWalker) branch(start plGuard, f func() bool) (plGuard, bool) {
	w.state = start
	term := f()
	return w.state, term
}

// merge: the state after a set of alternative paths that all started in `start`.
func plMerge(start plGuard, ends []plGuard) plGuard {
	for _, e := range ends {
		if e != start {
			return plUnknown
		}
	}
	return start
}

func (w *plWalker) loop(body func()) {
	start, mark := w.state, len(w.rows)
	w.entry = append(w.entry, start)
	body()
	w.entry = w.entry[:len(w.entry)-1]
	if w.state != start {
		// the second iteration would start in a different state than the first
		for i := mark; i < len(w.rows); i++ {
			w.rows[i].guard = plUnknown
		}
		w.state = plUnknown
		return
	}
	w.state = start
}

func (w *plWalker) clauses(init func(), list []ast.Stmt) bool {
	init()
	start := w.state
	w.entry = append(w.entry, start)
	var ends []plGuard
	hasDefault, allTerm := false, true
	for _, c := range list {
		var body []ast.Stmt
		pre := func() {}
		switch cc := c.(type) {
		case *ast.CaseClause:
			if cc.List == nil {
				hasDefault = true
			}
			pre = func() {
				for _, e := range cc.List {
					w.expr(e, false)
				}
			}
			body = cc.Body
		case *ast.CommClause:
			if cc.Comm == nil {
				hasDefault = true
			} else {
				pre = func() { w.stmt(cc.Comm) }
			}
			body = cc.Body
		}
		e, t := w.branch(start, func() bool { pre(); return w.block(body) })
		if !t {
			ends = append(ends, e)
			allTerm = false
		}
	}
	w.entry = w.entry[:len(w.entry)-1]
	if !hasDefault {
		ends = append(ends, start)
		allTerm = false
	}
	w.state = plMerge(start, ends)
	return allTerm && len(list) > 0
}

func (w *plWalker) stmt(s ast.Stmt) (term bool) {
	switch x := s.(type) {
	case nil:
	case *ast.ExprStmt:
		if op, ok := w.muCall(x.X); ok {
			if w.inLit > 0 {
				w.poison()
				return false
			}
			switch op {
			case "Lock":
				w.state = plLock
			case "RLock":
				w.state = plRLock
			default:
				w.state = plNone
			}
			return false
		}
		w.expr(x.X, false)
		return plIsPanic(x.X)
	case *ast.DeferStmt:
		if op, ok := w.muCall(x.Call); ok {
			if w.inLit > 0 || op == "Lock" || op == "RLock" {
				w.poison()
			}
			return false // deferred unlock: held until return
		}
		w.inLit++ // runs at return time, in whatever state the function is then
		w.expr(x.Call, false)
		w.inLit--
	case *ast.GoStmt:
		w.inLit++
		w.expr(x.Call, false)
		w.inLit--
	case *ast.AssignStmt:
		for _, l := range x.Lhs {
			if x.Tok == token.DEFINE {
				w.expr(l, false)
				continue
			}
			w.expr(l, true)
			if x.Tok != token.ASSIGN {
				w.expr(l, false)
			}
		}
		for _, r := range x.Rhs {
			w.expr(r, false)
		}
	case *ast.IncDecStmt:
		w.expr(x.X, true)
		w.expr(x.X, false)
	case *ast.SendStmt:
		w.expr(x.Chan, false)
		w.expr(x.Value, false)
	case *ast.ReturnStmt:
		for _, r := range x.Results {
			w.expr(r, false)
		}
		return true
	case *ast.BranchStmt:
		if x.Tok == token.GOTO {
			w.allBad = true
			w.poison()
			return false
		}
		for _, e := range w.entry {
			if e != w.state {
				w.allBad = true
				w.poison()
			}
		}
	case *ast.BlockStmt:
		return w.block(x.List)
	case *ast.LabeledStmt:
		return w.stmt(x.Stmt)
	case *ast.DeclStmt:
		if gd, ok := x.Decl.(*ast.GenDecl); ok {
			for _, sp := range gd.Specs {
				if vs, ok := sp.(*ast.ValueSpec); ok {
					for _, v := range vs.Values {
						w.expr(v, false)
					}
				}
			}
		}
	case *ast.IfStmt:
		w.stmt(x.Init)
		w.expr(x.Cond, false)
		start := w.state
		var ends []plGuard
		e, t1 := w.branch(start, func() bool { return w.block(x.Body.List) })
		if !t1 {
			ends = append(ends, e)
		}
		t2 := false
		if x.Else != nil {
			e, t2 = w.branch(start, func() bool { return w.stmt(x.Else) })
			if !t2 {
				ends = append(ends, e)
			}
		} else {
			ends = append(ends, start)
		}
		w.state = plMerge(start, ends)
		return t1 && t2
	case *ast.ForStmt:
		w.stmt(x.Init)
		w.loop(func() {
			w.expr(x.Cond, false)
			w.block(x.Body.List)
			w.stmt(x.Post)
		})
	case *ast.RangeStmt:
		w.expr(x.X, false)
		w.loop(func() {
			w.expr(x.Key, x.Tok == token.ASSIGN)
			w.expr(x.Value, x.Tok == token.ASSIGN)
			w.block(x.Body.List)
		})
	case *ast.SwitchStmt:
		return w.clauses(func() { w.stmt(x.Init); w.expr(x.Tag, false) }, x.Body.List)
	case *ast.TypeSwitchStmt:
		return w.clauses(func() { w.stmt(x.Init); w.stmt(x.Assign) }, x.Body.List)
	case *ast.SelectStmt:
		return w.clauses(func() {}, x.Body.List)
	case *ast.EmptyStmt:
	default:
		w.poison() // unknown statement kind
	}
	return false
}

func plRecvType(fd *ast.FuncDecl) (typ, name string) {
	if fd.Recv == nil || len(fd.Recv.List) != 1 {
		return "", ""
	}
	f := fd.Recv.List[0]
	t := f.Type
	if st, ok := t.(*ast.StarExpr); ok {
		t = st.X
	}
	id, ok := t.(*ast.Ident)
	if !ok {
		return "", ""
	}
	if len(f.Names) == 1 {
		name = f.Names[0].Name
	}
	return id.Name, name
}

func genPSliceLocks(repo string) (string, error) {
	fset := token.NewFileSet()
	path := filepath.Join(repo, filepath.FromSlash(plFile))
	file, err := parser.ParseFile(fset, path, nil, 0)
	if err != nil {
		return "", err
	}

	// struct fields; the mutex is the field of type sync.RWMutex / sync.Mutex
	var fields []string
	mutex := ""
	for _, d := range file.Decls {
		gd, ok := d.(*ast.GenDecl)
		if !ok || gd.Tok != token.TYPE {
			continue
		}
		for _, sp := range gd.Specs {
			ts := sp.(*ast.TypeSpec)
			st, ok := ts.Type.(*ast.StructType)
			if !ok || ts.Name.Name != plStruct {
				continue
			}
			for _, f := range st.Fields.List {
				isMu := false
				if sel, ok := f.Type.(*ast.SelectorExpr); ok {
					if p, ok := sel.X.(*ast.Ident); ok && p.Name == "sync" && (sel.Sel.Name == "RWMutex" || sel.Sel.Name == "Mutex") {
						isMu = true
					}
				}
				if len(f.Names) == 0 {
					fields = append(fields, "<embedded>")
				}
				for _, n := range f.Names {
					fields = append(fields, n.Name)
					if isMu && mutex == "" {
						mutex = n.Name
					}
				}
			}
		}
	}
	if mutex == "" {
		return "", fmt.Errorf("%s: no sync.RWMutex field in struct %s", plFile, plStruct)
	}
	for f := range plGuarded {
		found := false
		for _, g := range fields {
			found = found || g == f
		}
		if !found {
			return "", fmt.Errorf("%s: struct %s has no field %s", plFile, plStruct, f)
		}
	}

	w := &plWalker{fset: fset, mutex: mutex, methods: map[string]*plMethod{}}
	var order []*plMethod
	var foreign []*ast.FuncDecl // functions that are not methods of PSlice
	for _, d := range file.Decls {
		fd, ok := d.(*ast.FuncDecl)
		if !ok || fd.Body == nil {
			continue
		}
		typ, recv := plRecvType(fd)
		if typ != plStruct {
			foreign = append(foreign, fd)
			continue
		}
		m := &plMethod{name: fd.Name.Name, recv: recv, body: fd.Body}
		ast.Inspect(fd.Body, func(n ast.Node) bool {
			if sel, ok := n.(*ast.SelectorExpr); ok && sel.Sel.Name == mutex {
				if id, ok := sel.X.(*ast.Ident); ok && id.Name == recv {
					m.usesMu = true
				}
			}
			return true
		})
		w.methods[m.name] = m
		order = append(order, m)
	}
	if len(order) == 0 {
		return "", fmt.Errorf("%s: no methods of %s found", plFile, plStruct)
	}

	perMethod := map[string][]plAccess{}
	walk := func(m *plMethod, forceUnknown bool) {
		w.method, w.via, w.recv, w.depth = m.name, "", m.recv, 0
		w.state, w.poisoned, w.allBad, w.inLit, w.entry, w.rows = plNone, false, false, 0, nil, nil
		if forceUnknown {
			w.inLit = 1
		}
		w.block(m.body.List)
		if w.allBad {
			for i := range w.rows {
				w.rows[i].guard = plUnknown
			}
		}
		perMethod[m.name] = w.rows
	}
	for _, m := range order {
		if m.usesMu {
			walk(m, false)
		}
	}
	for _, m := range order {
		if m.usesMu {
			continue
		}
		switch {
		case ast.IsExported(m.name):
			// callable from other packages and takes no lock itself
			walk(m, false)
		case !m.called:
			walk(m, true)
		}
	}
	// accesses from plain functions of the file (other than composite-literal construction): not analysed
	for _, fd := range foreign {
		name := fd.Name.Name
		ast.Inspect(fd.Body, func(n ast.Node) bool {
			if sel, ok := n.(*ast.SelectorExpr); ok && plGuarded[sel.Sel.Name] {
				perMethod[name] = append(perMethod[name],
					plAccess{name, "", sel.Sel.Name, true, plUnknown, fset.Position(sel.Pos()).Line})
			}
			return true
		})
	}

	var sb strings.Builder
	fmt.Fprintf(&sb, "-- GENERATED by harness/cmd/extract (pslice_locks.go) from %s — do not edit\n", plFile)
	sb.WriteString("namespace Aurora.Generated.PSliceLocks\n\n")
	sb.WriteString("inductive Guard | lock | rlock | none | unknown\nderiving DecidableEq, Repr\n\n")
	sb.WriteString("structure Access where\n  method : String\n  via    : String\n  field  : String\n  write  : Bool\n  guard  : Guard\n  line   : Nat\nderiving DecidableEq, Repr\n\n")
	sb.WriteString("def accesses : List Access := [\n")
	var all []plAccess
	for _, m := range order {
		all = append(all, perMethod[m.name]...)
	}
	for _, fd := range foreign {
		all = append(all, perMethod[fd.Name.Name]...)
		perMethod[fd.Name.Name] = nil
	}
	for i, a := range all {
		sep := ","
		if i == len(all)-1 {
			sep = ""
		}
		fmt.Fprintf(&sb, "  { method := %s, via := %s, field := %s, write := %t, guard := %s, line := %d }%s\n",
			strconv.Quote(a.method), strconv.Quote(a.via), strconv.Quote(a.field), a.write, a.guard.lean(), a.line, sep)
	}
	sb.WriteString("]\n\n")

	quoteList := func(xs []string) string {
		q := make([]string, len(xs))
		for i, x := range xs {
			q[i] = strconv.Quote(x)
		}
		return "[" + strings.Join(q, ", ") + "]"
	}
	var names []string
	for _, m := range order {
		names = append(names, m.name)
	}
	sb.WriteString("/-- methods of *PSlice found in the file (so that a new method without rows is visible) -/\n")
	fmt.Fprintf(&sb, "def methods : List String := %s\n\n", quoteList(names))
	sb.WriteString("/-- fields of the struct, in declaration order (a new field must be classified by hand) -/\n")
	fmt.Fprintf(&sb, "def structFields : List String := %s\n\n", quoteList(fields))
	fmt.Fprintf(&sb, "/-- name of the sync.RWMutex field -/\ndef mutexField : String := %s\n\n", strconv.Quote(mutex))
	sort.SliceStable(w.others, func(i, j int) bool { return w.others[i].line < w.others[j].line })
	sb.WriteString("/-- writes, inside methods, to fields other than the guarded ones and the mutex: (method, field, line) -/\n")
	sb.WriteString("def otherFieldWrites : List (String × String × Nat) := [")
	for i, o := range w.others {
		if i > 0 {
			sb.WriteString(", ")
		}
		fmt.Fprintf(&sb, "(%s, %s, %d)", strconv.Quote(o.method), strconv.Quote(o.field), o.line)
	}
	sb.WriteString("]\n\nend Aurora.Generated.PSliceLocks\n")
	return sb.String(), nil
}
