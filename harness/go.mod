module verifharness

go 1.17

require (
	github.com/gauss-project/aurorafs v0.0.0
	github.com/sirupsen/logrus v1.8.1
)

require (
	github.com/Knetic/govaluate v3.0.1-0.20171022003610-9aa49832a739+incompatible // indirect
	github.com/beorn7/perks v1.0.1 // indirect
	github.com/casbin/casbin/v2 v2.35.0 // indirect
	github.com/cespare/xxhash/v2 v2.1.2 // indirect
	github.com/golang/protobuf v1.5.2 // indirect
	github.com/matttproud/golang_protobuf_extensions v1.0.1 // indirect
	github.com/prometheus/client_golang v1.12.1 // indirect
	github.com/prometheus/client_model v0.2.0 // indirect
	github.com/prometheus/common v0.33.0 // indirect
	github.com/prometheus/procfs v0.7.3 // indirect
	golang.org/x/crypto v0.0.0-20220411220226-7b82a4e95df4 // indirect
	golang.org/x/sys v0.0.0-20220412211240-33da011f77ad // indirect
	google.golang.org/protobuf v1.28.0 // indirect
	resenje.org/web v0.4.3 // indirect
)

replace github.com/gauss-project/aurorafs => /repo
