import Aurora.Model.Subscribe
namespace Aurora.Subscribe
theorem C40_placeholder : True := trivial
end Aurora.Subscribe
