import Driver.NodeLite
/-! Driver for C16: the shared node-lite model driver (status + full symbolic dump per op). -/
namespace Driver.C16
def handler : Driver.Handler := Driver.NodeLite.handler
end Driver.C16
