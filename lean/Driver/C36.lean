import Driver.Util
import Aurora.Model.Keystore
/-! Driver for C36: runs the Keystore model with the *ideal* scheme (a blob is the pair
(password, key); it opens to the key under exactly that password) on the op lines of the harness.
The real scheme (scrypt/AES-CTR/keccak) is compared against this ideal one by the correspondence.

Annotations: `key … | k=<hex>` the private scalar the real call returned (used by the model only
as the fresh key when the model itself decides that the key is created); `importraw … | dec=<ok:hex|invalid|bad>`
what the real `decryptKey` made of a blob that no keystore produced. -/
namespace Driver.C36
open Aurora.Keystore

/-- ideal blob: `1 :: len(key) :: key ++ password` (keys are 32-byte scalars) -/
def ideal : Scheme Bytes :=
  { enc := fun pw k _ => 1 :: UInt8.ofNat k.length :: (k ++ pw),
    dec := fun pw b => match b with
      | 1 :: l :: rest =>
        if rest.length < l.toNat then .bad
        else if rest.drop l.toNat = pw then .ok (rest.take l.toNat) else .invalid
      | _ => .bad }

structure S where
  st : St Bytes := St.empty
  slots : List (Nat × Bytes) := []

def splitAnnot (op : List String) : List String × List String :=
  match op.span (· ≠ "|") with
  | (a, []) => (a, [])
  | (a, _ :: b) => (a, b)

def annot (an : List String) (key : String) : Option String :=
  (an.find? (fun t => t.startsWith (key ++ "="))).map (fun t => (t.drop (key.length + 1)).toString)

def kindOf (s : String) : Option Kind := if s = "f" then some .file else if s = "m" then some .mem else none

def resStr {α} (f : α → String) : Res α → String
  | .ok a => f a
  | .invalid => "invalid"
  | .err => "err"
  | .panic => "panic"

/-- an opaqueBlob blob (not produced by a keystore) whose `decryptKey` outcome was observed:
    encoded for the ideal scheme as a blob that behaves the same under `pw` -/
def opaqueBlob (pw : Bytes) (d : String) : Option Bytes :=
  if d = "invalid" then some (ideal.enc (0 :: pw) [] [])        -- opens under another password only
  else if d = "bad" then some [0]
  else if d.startsWith "ok:" then (Driver.hexToBytes (d.drop 3).toString).map (fun k => ideal.enc pw k [])
  else none

def step (s : S) (op : List String) : S × String :=
  let (args, an) := splitAnnot op
  match args with
  | ["key", kd, n, pw] =>
    match kindOf kd, Driver.hexToBytes n, Driver.hexToBytes pw with
    | some kd, some n, some pw =>
      let fresh := ((annot an "k").bind Driver.hexToBytes).getD []
      let (r, st') := svcKey ideal kd s.st n pw fresh []
      match r with
      | .ok (k, c) =>
        if c && k.length != 32 then (s, "inadmissible fresh-key")
        else ({ s with st := st' }, s!"ok {Driver.bytesToHex k} created={Driver.boolStr c}")
      | r => ({ s with st := st' }, resStr (fun _ => "ok") r)
    | _, _, _ => (s, "bad-op")
  | ["parkey", kd, n, pw, _k] =>
    -- k concurrent Key calls on the in-memory keystore: get-or-create is atomic, so the outcome is that of one call
    match kindOf kd, Driver.hexToBytes n, Driver.hexToBytes pw with
    | some .mem, some n, some pw =>
      let fresh := ((annot an "k").bind Driver.hexToBytes).getD []
      let (r, st') := svcKey ideal .mem s.st n pw fresh []
      match r with
      | .ok (k, c) =>
        if c && k.length != 32 then (s, "inadmissible fresh-key")
        else ({ s with st := st' }, s!"ok {Driver.bytesToHex k} created={if c then 1 else 0}")
      | r => ({ s with st := st' }, resStr (fun _ => "ok") r)
    | _, _, _ => (s, "bad-op")
  | ["exists", kd, n] =>
    match kindOf kd, Driver.hexToBytes n with
    | some .file, some n => (s, Driver.boolStr (fileExists s.st n))
    | some .mem, some n => (s, Driver.boolStr (memExists s.st n))
    | _, _ => (s, "bad-op")
  | ["export", kd, n, pw, sl] =>
    match kindOf kd, Driver.hexToBytes n, Driver.hexToBytes pw, Driver.parseNat sl with
    | some kd, some n, some pw, some sl =>
      match svcExport ideal kd s.st n pw [] with
      | .ok b => ({ s with slots := (sl, b) :: s.slots.filter (·.1 != sl) }, "ok")
      | r => (s, resStr (fun _ => "ok") r)
    | _, _, _, _ => (s, "bad-op")
  | ["import", kd, n, pw, sl] =>
    match kindOf kd, Driver.hexToBytes n, Driver.hexToBytes pw, Driver.parseNat sl with
    | some kd, some n, some pw, some sl =>
      match s.slots.lookup sl with
      | none => (s, "noslot")
      | some b =>
        let (r, st') := svcImport ideal kd s.st n pw b []
        ({ s with st := st' }, resStr (fun _ => "ok") r)
    | _, _, _, _ => (s, "bad-op")
  | ["importraw", kd, n, pw, raw] =>
    match kindOf kd, Driver.hexToBytes n, Driver.hexToBytes pw, Driver.hexToBytes raw with
    | some kd, some n, some pw, some _ =>
      -- the blob's decryption outcome is only needed when the code gets that far
      let b := ((annot an "dec").bind (opaqueBlob pw)).getD [0]
      let (r, st') := svcImport ideal kd s.st n pw b []
      ({ s with st := st' }, resStr (fun _ => "ok") r)
    | _, _, _, _ => (s, "bad-op")
  | ["importmut", kd, n, pw, sl, _] =>
    match kindOf kd, Driver.hexToBytes n, Driver.hexToBytes pw, Driver.parseNat sl with
    | some kd, some n, some pw, some sl =>
      match s.slots.lookup sl with
      | none => (s, "noslot")
      | some _ =>
        let b := ((annot an "dec").bind (opaqueBlob pw)).getD [0]
        let (r, st') := svcImport ideal kd s.st n pw b []
        ({ s with st := st' }, resStr (fun _ => "ok") r)
    | _, _, _, _ => (s, "bad-op")
  | ["importpk", kd, n, pw, k] =>
    match kindOf kd, Driver.hexToBytes n, Driver.hexToBytes pw, Driver.hexToBytes k with
    | some kd, some n, some pw, some k =>
      if k.length != 32 then (s, "bad-op") else
      let (r, st') := svcImportPK ideal kd s.st n pw k []
      ({ s with st := st' }, resStr (fun _ => "ok") r)
    | _, _, _, _ => (s, "bad-op")
  | _ => (s, "bad-op")

def handler : Driver.Handler := { σ := S, init := {}, step := step }

end Driver.C36
