// pslice_locks.go — lock-discipline facts for pkg/topology/pslice.PSlice (property C21, race clause).
//
// For every method of PSlice the body is walked in source order, tracking which mode of
// <recv>.mu is held; every syntactic access to <recv>.peers / <recv>.baseBytes is emitted
// together with the lock state at that point.  The Lean side (Lemmas/PSliceLocks.lean)
// decides that every row is guarded and combines the table with the generic lock-set lemma.
//
// Local aliases.  A local variable may hold a copy of (part of) a guarded field after the lock is
// released.  Every value derived from a guarded field has a LEVEL: `s.peers` (the field's own
// slice header) is level 0, `s.peers[a:b]` stays level 0, `s.peers[i]` (ONE cell of the outer
// array = one bin's slice header) is level 1, `&x` is level(x)-1, `*p` is level(p)+1; locals
// assigned / ranged from such expressions inherit the level (computed per body, by name, to a
// fixpoint).  Dereferencing a level-l value touches level-(l+1) memory:
//   - level-1 memory is the outer array of bin headers, which Add/Remove write IN PLACE
//     (`s.peers[po] = …`): it is what `mu` protects.  So every use of a level ≤ 0 alias
//     (`bins := s.peers; …; bins[i]`, `range bins`, `copy(dst, bins)`, passing it to a call) is
//     emitted as an access to the field with the lock state AT THE USE, not at the copy
//     (`len(x)`/`cap(x)` and re-binding the local read only the local header and are exempt);
//     a level ≤ 0 value that is returned, sent, or stored anywhere but in a local escapes the
//     analysis: guard `unknown`.
//   - level-2 memory (the element cells of one bin) is copy-on-write: Add appends at an index ≥ every
//     published len or redirects the bin to a fresh array, Remove always redirects (theorems
//     C21_snapshot_isolated*, C21_ops_emit_safe_prims over Model/PSliceMem*.lean, tied to the code by
//     the len/cap/array-identity observations).  So READING through a level-1 alias
//     (`peers := s.peers[i]` under RLock, unlock, `range peers`) is not a lock-discipline matter and
//     emits nothing — exactly the pattern EachBin/EachBinRev use; WRITING through one
//     (`peers[k] = …`, `copy(peers, …)`, `append(peers, …)`) is emitted as a write to the field.
// The receiver used as a bare value (`*s`, `t := s`, `f(s)`) makes every row of the method `unknown`.
//
// The analysis is deliberately conservative: whatever it does not understand becomes
// guard `unknown`, which the Lean check rejects.
package main

import (
	"fmt"
	"go/ast"
	"go/parser"
	"go/token"
	"path/filepath"
	"sort"
	"strconv"
	"strings"
)

func init() { extraGenerators["PSliceLocks.lean"] = genPSliceLocks }

const (
	plFile     = "pkg/topology/pslice/pslice.go"
	plStruct   = "PSlice"
	plMaxDepth = 8
)

var plGuarded = map[string]bool{"peers": true, "baseBytes": true}

// slice / array / pointer nesting depth of the guarded fields, read off the struct declaration
var plDepth = map[string]int{}

func plTypeDepth(t ast.Expr) int {
	switch x := t.(type) {
	case *ast.ArrayType:
		return 1 + plTypeDepth(x.Elt)
	case *ast.StarExpr:
		return 1 + plTypeDepth(x.X)
	case *ast.ParenExpr:
		return plTypeDepth(x.X)
	}
	return 0
}

// plAlias: a local variable holding a value of level `level` derived from guarded field `field`
type plAlias struct {
	field string
	level int
	line  int
}

type plGuard int

const (
	plNone plGuard = iota
	plLock
	plRLock
	plUnknown
)

func (g plGuard) lean() string {
	switch g {
	case plLock:
		return ".lock"
	case plRLock:
		return ".rlock"
	case plNone:
		return ".none"
	}
	return ".unknown"
}

type plAccess struct {
	method, via, field string
	alias              string // local variable the access goes through ("" = the field itself)
	write              bool
	guard              plGuard
	line               int
}

type plAliasRow struct {
	method, via, name, field string
	level, line              int
}

type plMethod struct {
	name   string
	recv   string // receiver identifier ("" or "_" if unnamed)
	body   *ast.BlockStmt
	usesMu bool // body mentions <recv>.<mutex>
	called bool // helper: called from some other method
}

type plWalker struct {
	fset    *token.FileSet
	mutex   string // name of the mutex field
	methods map[string]*plMethod

	method string // method the rows are attributed to
	via    string // helper being inlined ("" = direct)
	recv   string // receiver identifier of the body being walked
	depth  int

	state    plGuard
	poisoned bool      // state is unknown for the rest of the method
	allBad   bool      // every row of the method becomes unknown (unstructured jump with a different lock state)
	inLit    int       // >0: inside a function literal / go / defer argument
	entry    []plGuard // lock state at the entry of the enclosing loops / switches
	rows     []plAccess
	others   []plOther // writes to other (non-mutex) fields of the receiver

	aliases   map[string]plAlias // locals of the body being walked that alias a guarded field
	aliasRows []plAliasRow
}

type plOther struct {
	method, field string
	line          int
}

func (w *plWalker) guard() plGuard {
	if w.poisoned || w.inLit > 0 {
		return plUnknown
	}
	return w.state
}

func (w *plWalker) poison() { w.poisoned = true; w.state = plUnknown }

func (w *plWalker) emit(field string, write bool, pos token.Pos) {
	w.rows = append(w.rows, plAccess{w.method, w.via, field, "", write, w.guard(), w.fset.Position(pos).Line})
}

func (w *plWalker) emitAlias(name string, a plAlias, write bool, g plGuard, pos token.Pos) {
	w.rows = append(w.rows, plAccess{w.method, w.via, a.field, name, write, g, w.fset.Position(pos).Line})
}

// levelOf: e is a value derived from a guarded field; its level (see the file comment).
func (w *plWalker) levelOf(e ast.Expr) (plAlias, string, bool) {
	switch x := e.(type) {
	case *ast.ParenExpr:
		return w.levelOf(x.X)
	case *ast.SelectorExpr:
		if w.isRecv(x.X) && plGuarded[x.Sel.Name] {
			return plAlias{field: x.Sel.Name, level: 0}, "", true
		}
	case *ast.Ident:
		if a, ok := w.aliases[x.Name]; ok {
			return a, x.Name, true
		}
	case *ast.SliceExpr:
		return w.levelOf(x.X)
	case *ast.IndexExpr:
		if a, n, ok := w.levelOf(x.X); ok {
			a.level++
			return a, n, true
		}
	case *ast.StarExpr:
		if a, n, ok := w.levelOf(x.X); ok {
			a.level++
			return a, n, true
		}
	case *ast.UnaryExpr:
		if x.Op == token.AND {
			if a, n, ok := w.levelOf(x.X); ok {
				a.level--
				return a, n, true
			}
		}
	}
	return plAlias{}, "", false
}

// findAliases computes, by name and to a fixpoint, the locals of `body` that hold a value of
// level < depth(field) derived from a guarded field.
func (w *plWalker) findAliases(body *ast.BlockStmt) {
	w.aliases = map[string]plAlias{}
	bind := func(lhs ast.Expr, a plAlias, ok bool) bool {
		id, isId := lhs.(*ast.Ident)
		if !ok || !isId || id.Name == "_" || a.level >= plDepth[a.field] {
			return false
		}
		if old, had := w.aliases[id.Name]; had && (old.field != a.field || old.level <= a.level) {
			return false
		}
		a.line = w.fset.Position(id.Pos()).Line
		w.aliases[id.Name] = a // the lowest level wins (most conservative)
		return true
	}
	for changed := true; changed; {
		changed = false
		ast.Inspect(body, func(n ast.Node) bool {
			switch x := n.(type) {
			case *ast.AssignStmt:
				if len(x.Lhs) == len(x.Rhs) {
					for i := range x.Lhs {
						a, _, ok := w.levelOf(x.Rhs[i])
						changed = bind(x.Lhs[i], a, ok) || changed
					}
				}
			case *ast.ValueSpec:
				if len(x.Names) == len(x.Values) {
					for i := range x.Names {
						a, _, ok := w.levelOf(x.Values[i])
						changed = bind(x.Names[i], a, ok) || changed
					}
				}
			case *ast.RangeStmt:
				if a, _, ok := w.levelOf(x.X); ok && x.Value != nil {
					a.level++
					changed = bind(x.Value, a, true) || changed
				}
			}
			return true
		})
	}
	names := make([]string, 0, len(w.aliases))
	for n := range w.aliases {
		names = append(names, n)
	}
	sort.Slice(names, func(i, j int) bool { return w.aliases[names[i]].line < w.aliases[names[j]].line })
	for _, n := range names {
		a := w.aliases[n]
		w.aliasRows = append(w.aliasRows, plAliasRow{w.method, w.via, n, a.field, a.level, a.line})
	}
}

// plainAlias: e is an alias identifier, possibly parenthesised / re-sliced, with no dereference
func (w *plWalker) plainAlias(e ast.Expr) (*ast.Ident, bool) {
	switch x := e.(type) {
	case *ast.ParenExpr:
		return w.plainAlias(x.X)
	case *ast.Ident:
		_, ok := w.aliases[x.Name]
		return x, ok
	}
	return nil, false
}

// escapes: a level ≤ 0 value leaves the locals of the method (returned, sent, stored in a
// field / element / composite literal): whoever receives it dereferences it in a lock state
// this analysis does not see.
func (w *plWalker) escapes(e ast.Expr) {
	if a, n, ok := w.levelOf(e); ok && a.level <= 0 {
		w.emitAlias(n, a, false, plUnknown, e.Pos())
	}
}

func (w *plWalker) isRecv(e ast.Expr) bool {
	id, ok := e.(*ast.Ident)
	return ok && w.recv != "" && w.recv != "_" && id.Name == w.recv
}

// muCall recognises <recv>.<mutex>.<Lock|RLock|Unlock|RUnlock>()
func (w *plWalker) muCall(e ast.Expr) (string, bool) {
	c, ok := e.(*ast.CallExpr)
	if !ok || len(c.Args) != 0 {
		return "", false
	}
	sel, ok := c.Fun.(*ast.SelectorExpr)
	if !ok {
		return "", false
	}
	in, ok := sel.X.(*ast.SelectorExpr)
	if !ok || !w.isRecv(in.X) || in.Sel.Name != w.mutex {
		return "", false
	}
	switch sel.Sel.Name {
	case "Lock", "RLock", "Unlock", "RUnlock":
		return sel.Sel.Name, true
	}
	return "", false
}

func plIsPanic(e ast.Expr) bool {
	c, ok := e.(*ast.CallExpr)
	if !ok {
		return false
	}
	id, ok := c.Fun.(*ast.Ident)
	return ok && id.Name == "panic"
}

// inline emits the accesses of helper h under the caller's current guard.
func (w *plWalker) inline(h *plMethod, forceUnknown bool) {
	h.called = true
	if w.depth >= plMaxDepth {
		forceUnknown = true
	}
	sv, sr, sa := w.via, w.recv, w.aliases
	if w.via == "" {
		w.via = h.name
	}
	w.recv = h.recv
	w.findAliases(h.body)
	w.depth++
	if forceUnknown {
		w.inLit++
	}
	if w.depth <= plMaxDepth+1 {
		w.block(h.body.List)
	}
	if forceUnknown {
		w.inLit--
	}
	w.depth--
	w.via, w.recv, w.aliases = sv, sr, sa
}

// expr walks an expression in source order; write = the expression is the root of an assignment target.
func (w *plWalker) expr(e ast.Expr, write bool) {
	switch x := e.(type) {
	case nil:
		return
	case *ast.Ident:
		if w.isRecv(x) {
			w.allBad = true // the receiver as a bare value: *s, t := s, f(s)
			return
		}
		if a, ok := w.aliases[x.Name]; ok {
			switch {
			case a.level <= 0:
				w.emitAlias(x.Name, a, write, w.guard(), x.Pos())
			case write:
				w.emitAlias(x.Name, a, true, w.guard(), x.Pos())
			}
		}
	case *ast.CompositeLit:
		for _, el := range x.Elts {
			v := el
			if kv, ok := el.(*ast.KeyValueExpr); ok {
				w.expr(kv.Key, false)
				v = kv.Value
			}
			w.escapes(v)
			w.expr(v, false)
		}
	case *ast.SelectorExpr:
		if w.isRecv(x.X) {
			switch {
			case plGuarded[x.Sel.Name]:
				w.emit(x.Sel.Name, write, x.Pos())
			case x.Sel.Name == w.mutex:
				w.poison() // the mutex is used in a way the walker does not model
			default:
				if h, ok := w.methods[x.Sel.Name]; ok {
					if !h.usesMu {
						w.inline(h, true) // method value: runs who knows when
					}
				} else if write {
					w.others = append(w.others, plOther{w.method, x.Sel.Name, w.fset.Position(x.Pos()).Line})
				}
			}
			return
		}
		w.expr(x.X, write)
	case *ast.IndexExpr:
		w.expr(x.X, write)
		w.expr(x.Index, false)
	case *ast.SliceExpr:
		w.expr(x.X, write)
		w.expr(x.Low, false)
		w.expr(x.High, false)
		w.expr(x.Max, false)
	case *ast.ParenExpr:
		w.expr(x.X, write)
	case *ast.StarExpr:
		w.expr(x.X, write)
	case *ast.UnaryExpr:
		w.expr(x.X, write || x.Op == token.AND) // &s.peers may be written through
	case *ast.BinaryExpr:
		w.expr(x.X, false)
		w.expr(x.Y, false)
	case *ast.KeyValueExpr:
		w.expr(x.Key, false)
		w.expr(x.Value, false)
	case *ast.CallExpr:
		if _, ok := w.muCall(x); ok {
			w.poison() // mutex call that is not a plain statement
			return
		}
		if sel, ok := x.Fun.(*ast.SelectorExpr); ok && w.isRecv(sel.X) {
			if h, ok := w.methods[sel.Sel.Name]; ok {
				for _, a := range x.Args {
					w.expr(a, false)
				}
				if !h.usesMu {
					w.inline(h, false)
				}
				return
			}
		}
		w.expr(x.Fun, false)
		fid, isBuiltin := x.Fun.(*ast.Ident)
		for i, a := range x.Args {
			if isBuiltin && (fid.Name == "len" || fid.Name == "cap") && len(x.Args) == 1 {
				if _, ok := w.plainAlias(a); ok {
					continue // reads the local header only
				}
			}
			wr := i == 0 && isBuiltin && fid.Name == "copy" && len(x.Args) == 2
			if i == 0 && isBuiltin && fid.Name == "append" {
				if _, ok := w.plainAlias(a); ok {
					wr = true // may store in place at index len of the shared array
				}
			}
			w.expr(a, wr)
		}
	case *ast.FuncLit:
		w.inLit++
		w.block(x.Body.List)
		w.inLit--
	default:
		ast.Inspect(e, func(n ast.Node) bool {
			if n == nil || n == ast.Node(e) {
				return true
			}
			if sub, ok := n.(ast.Expr); ok {
				w.expr(sub, false)
				return false
			}
			return true
		})
	}
}

func (w *plWalker) block(list []ast.Stmt) (term bool) {
	for _, s := range list {
		if w.stmt(s) {
			term = true
		}
	}
	return term
}

// branch runs f from lock state start; returns the state at its end and whether it always leaves the function.
func (w *plWalker) branch(start plGuard, f func() bool) (plGuard, bool) {
	w.state = start
	term := f()
	return w.state, term
}

// merge: the state after a set of alternative paths that all started in `start`.
func plMerge(start plGuard, ends []plGuard) plGuard {
	for _, e := range ends {
		if e != start {
			return plUnknown
		}
	}
	return start
}

func (w *plWalker) loop(body func()) {
	start, mark := w.state, len(w.rows)
	w.entry = append(w.entry, start)
	body()
	w.entry = w.entry[:len(w.entry)-1]
	if w.state != start {
		// the second iteration would start in a different state than the first
		for i := mark; i < len(w.rows); i++ {
			w.rows[i].guard = plUnknown
		}
		w.state = plUnknown
		return
	}
	w.state = start
}

func (w *plWalker) clauses(init func(), list []ast.Stmt) bool {
	init()
	start := w.state
	w.entry = append(w.entry, start)
	var ends []plGuard
	hasDefault, allTerm := false, true
	for _, c := range list {
		var body []ast.Stmt
		pre := func() {}
		switch cc := c.(type) {
		case *ast.CaseClause:
			if cc.List == nil {
				hasDefault = true
			}
			pre = func() {
				for _, e := range cc.List {
					w.expr(e, false)
				}
			}
			body = cc.Body
		case *ast.CommClause:
			if cc.Comm == nil {
				hasDefault = true
			} else {
				pre = func() { w.stmt(cc.Comm) }
			}
			body = cc.Body
		}
		e, t := w.branch(start, func() bool { pre(); return w.block(body) })
		if !t {
			ends = append(ends, e)
			allTerm = false
		}
	}
	w.entry = w.entry[:len(w.entry)-1]
	if !hasDefault {
		ends = append(ends, start)
		allTerm = false
	}
	w.state = plMerge(start, ends)
	return allTerm && len(list) > 0
}

func (w *plWalker) stmt(s ast.Stmt) (term bool) {
	switch x := s.(type) {
	case nil:
	case *ast.ExprStmt:
		if op, ok := w.muCall(x.X); ok {
			if w.inLit > 0 {
				w.poison()
				return false
			}
			switch op {
			case "Lock":
				w.state = plLock
			case "RLock":
				w.state = plRLock
			default:
				w.state = plNone
			}
			return false
		}
		w.expr(x.X, false)
		return plIsPanic(x.X)
	case *ast.DeferStmt:
		if op, ok := w.muCall(x.Call); ok {
			if w.inLit > 0 || op == "Lock" || op == "RLock" {
				w.poison()
			}
			return false // deferred unlock: held until return
		}
		w.inLit++ // runs at return time, in whatever state the function is then
		w.expr(x.Call, false)
		w.inLit--
	case *ast.GoStmt:
		w.inLit++
		w.expr(x.Call, false)
		w.inLit--
	case *ast.AssignStmt:
		for _, l := range x.Lhs {
			if id, ok := l.(*ast.Ident); ok && !w.isRecv(id) {
				continue // (re)binding a local: no memory shared with the struct is touched
			}
			if x.Tok == token.DEFINE {
				w.expr(l, false)
				continue
			}
			w.expr(l, true)
			if x.Tok != token.ASSIGN {
				w.expr(l, false)
			}
		}
		for i, r := range x.Rhs {
			if len(x.Lhs) == len(x.Rhs) {
				if _, local := x.Lhs[i].(*ast.Ident); local {
					if w.localCopy(r) {
						continue
					}
				} else {
					w.escapes(r)
				}
			}
			w.expr(r, false)
		}
	case *ast.IncDecStmt:
		w.expr(x.X, true)
		w.expr(x.X, false)
	case *ast.SendStmt:
		w.expr(x.Chan, false)
		w.escapes(x.Value)
		w.expr(x.Value, false)
	case *ast.ReturnStmt:
		for _, r := range x.Results {
			w.escapes(r)
			w.expr(r, false)
		}
		return true
	case *ast.BranchStmt:
		if x.Tok == token.GOTO {
			w.allBad = true
			w.poison()
			return false
		}
		for _, e := range w.entry {
			if e != w.state {
				w.allBad = true
				w.poison()
			}
		}
	case *ast.BlockStmt:
		return w.block(x.List)
	case *ast.LabeledStmt:
		return w.stmt(x.Stmt)
	case *ast.DeclStmt:
		if gd, ok := x.Decl.(*ast.GenDecl); ok {
			for _, sp := range gd.Specs {
				if vs, ok := sp.(*ast.ValueSpec); ok {
					for _, v := range vs.Values {
						if !w.localCopy(v) {
							w.expr(v, false)
						}
					}
				}
			}
		}
	case *ast.IfStmt:
		w.stmt(x.Init)
		w.expr(x.Cond, false)
		start := w.state
		var ends []plGuard
		e, t1 := w.branch(start, func() bool { return w.block(x.Body.List) })
		if !t1 {
			ends = append(ends, e)
		}
		t2 := false
		if x.Else != nil {
			e, t2 = w.branch(start, func() bool { return w.stmt(x.Else) })
			if !t2 {
				ends = append(ends, e)
			}
		} else {
			ends = append(ends, start)
		}
		w.state = plMerge(start, ends)
		return t1 && t2
	case *ast.ForStmt:
		w.stmt(x.Init)
		w.loop(func() {
			w.expr(x.Cond, false)
			w.block(x.Body.List)
			w.stmt(x.Post)
		})
	case *ast.RangeStmt:
		w.expr(x.X, false)
		w.loop(func() {
			for _, kv := range []ast.Expr{x.Key, x.Value} {
				if _, local := kv.(*ast.Ident); !local {
					w.expr(kv, x.Tok == token.ASSIGN)
				}
			}
			w.block(x.Body.List)
		})
	case *ast.SwitchStmt:
		return w.clauses(func() { w.stmt(x.Init); w.expr(x.Tag, false) }, x.Body.List)
	case *ast.TypeSwitchStmt:
		return w.clauses(func() { w.stmt(x.Init); w.stmt(x.Assign) }, x.Body.List)
	case *ast.SelectStmt:
		return w.clauses(func() {}, x.Body.List)
	case *ast.EmptyStmt:
	default:
		w.poison() // unknown statement kind
	}
	return false
}

// localCopy: r is an alias identifier (possibly re-sliced) copied into another local — only the
// local header is read; the slice bounds are still walked.
func (w *plWalker) localCopy(r ast.Expr) bool {
	switch x := r.(type) {
	case *ast.ParenExpr:
		return w.localCopy(x.X)
	case *ast.Ident:
		_, ok := w.aliases[x.Name]
		return ok
	case *ast.SliceExpr:
		if w.localCopy(x.X) {
			w.expr(x.Low, false)
			w.expr(x.High, false)
			w.expr(x.Max, false)
			return true
		}
	}
	return false
}

func plRecvType(fd *ast.FuncDecl) (typ, name string) {
	if fd.Recv == nil || len(fd.Recv.List) != 1 {
		return "", ""
	}
	f := fd.Recv.List[0]
	t := f.Type
	if st, ok := t.(*ast.StarExpr); ok {
		t = st.X
	}
	id, ok := t.(*ast.Ident)
	if !ok {
		return "", ""
	}
	if len(f.Names) == 1 {
		name = f.Names[0].Name
	}
	return id.Name, name
}

func genPSliceLocks(repo string) (string, error) {
	fset := token.NewFileSet()
	path := filepath.Join(repo, filepath.FromSlash(plFile))
	file, err := parser.ParseFile(fset, path, nil, 0)
	if err != nil {
		return "", err
	}

	// struct fields; the mutex is the field of type sync.RWMutex / sync.Mutex
	var fields []string
	mutex := ""
	for _, d := range file.Decls {
		gd, ok := d.(*ast.GenDecl)
		if !ok || gd.Tok != token.TYPE {
			continue
		}
		for _, sp := range gd.Specs {
			ts := sp.(*ast.TypeSpec)
			st, ok := ts.Type.(*ast.StructType)
			if !ok || ts.Name.Name != plStruct {
				continue
			}
			for _, f := range st.Fields.List {
				isMu := false
				if sel, ok := f.Type.(*ast.SelectorExpr); ok {
					if p, ok := sel.X.(*ast.Ident); ok && p.Name == "sync" && (sel.Sel.Name == "RWMutex" || sel.Sel.Name == "Mutex") {
						isMu = true
					}
				}
				if len(f.Names) == 0 {
					fields = append(fields, "<embedded>")
				}
				for _, n := range f.Names {
					if plGuarded[n.Name] {
						plDepth[n.Name] = plTypeDepth(f.Type)
					}
					fields = append(fields, n.Name)
					if isMu && mutex == "" {
						mutex = n.Name
					}
				}
			}
		}
	}
	if mutex == "" {
		return "", fmt.Errorf("%s: no sync.RWMutex field in struct %s", plFile, plStruct)
	}
	for f := range plGuarded {
		found := false
		for _, g := range fields {
			found = found || g == f
		}
		if !found {
			return "", fmt.Errorf("%s: struct %s has no field %s", plFile, plStruct, f)
		}
	}

	w := &plWalker{fset: fset, mutex: mutex, methods: map[string]*plMethod{}}
	var order []*plMethod
	var foreign []*ast.FuncDecl // functions that are not methods of PSlice
	for _, d := range file.Decls {
		fd, ok := d.(*ast.FuncDecl)
		if !ok || fd.Body == nil {
			continue
		}
		typ, recv := plRecvType(fd)
		if typ != plStruct {
			foreign = append(foreign, fd)
			continue
		}
		m := &plMethod{name: fd.Name.Name, recv: recv, body: fd.Body}
		ast.Inspect(fd.Body, func(n ast.Node) bool {
			if sel, ok := n.(*ast.SelectorExpr); ok && sel.Sel.Name == mutex {
				if id, ok := sel.X.(*ast.Ident); ok && id.Name == recv {
					m.usesMu = true
				}
			}
			return true
		})
		w.methods[m.name] = m
		order = append(order, m)
	}
	if len(order) == 0 {
		return "", fmt.Errorf("%s: no methods of %s found", plFile, plStruct)
	}

	perMethod := map[string][]plAccess{}
	walk := func(m *plMethod, forceUnknown bool) {
		w.method, w.via, w.recv, w.depth = m.name, "", m.recv, 0
		w.state, w.poisoned, w.allBad, w.inLit, w.entry, w.rows = plNone, false, false, 0, nil, nil
		if forceUnknown {
			w.inLit = 1
		}
		w.findAliases(m.body)
		w.block(m.body.List)
		if w.allBad {
			for i := range w.rows {
				w.rows[i].guard = plUnknown
			}
		}
		perMethod[m.name] = w.rows
	}
	for _, m := range order {
		if m.usesMu {
			walk(m, false)
		}
	}
	for _, m := range order {
		if m.usesMu {
			continue
		}
		switch {
		case ast.IsExported(m.name):
			// callable from other packages and takes no lock itself
			walk(m, false)
		case !m.called:
			walk(m, true)
		}
	}
	// accesses from plain functions of the file (other than composite-literal construction): not analysed
	for _, fd := range foreign {
		name := fd.Name.Name
		ast.Inspect(fd.Body, func(n ast.Node) bool {
			if sel, ok := n.(*ast.SelectorExpr); ok && plGuarded[sel.Sel.Name] {
				perMethod[name] = append(perMethod[name],
					plAccess{name, "", sel.Sel.Name, "", true, plUnknown, fset.Position(sel.Pos()).Line})
			}
			return true
		})
	}

	var sb strings.Builder
	fmt.Fprintf(&sb, "-- GENERATED by harness/cmd/extract (pslice_locks.go) from %s — do not edit\n", plFile)
	sb.WriteString("namespace Aurora.Generated.PSliceLocks\n\n")
	sb.WriteString("inductive Guard | lock | rlock | none | unknown\nderiving DecidableEq, Repr\n\n")
	sb.WriteString("structure Access where\n  method : String\n  via    : String\n  field  : String\n  alias  : String\n  write  : Bool\n  guard  : Guard\n  line   : Nat\nderiving DecidableEq, Repr\n\n")
	sb.WriteString("def accesses : List Access := [\n")
	var all []plAccess
	for _, m := range order {
		all = append(all, perMethod[m.name]...)
	}
	for _, fd := range foreign {
		all = append(all, perMethod[fd.Name.Name]...)
		perMethod[fd.Name.Name] = nil
	}
	for i, a := range all {
		sep := ","
		if i == len(all)-1 {
			sep = ""
		}
		fmt.Fprintf(&sb, "  { method := %s, via := %s, field := %s, alias := %s, write := %t, guard := %s, line := %d }%s\n",
			strconv.Quote(a.method), strconv.Quote(a.via), strconv.Quote(a.field), strconv.Quote(a.alias), a.write, a.guard.lean(), a.line, sep)
	}
	sb.WriteString("]\n\n")

	quoteList := func(xs []string) string {
		q := make([]string, len(xs))
		for i, x := range xs {
			q[i] = strconv.Quote(x)
		}
		return "[" + strings.Join(q, ", ") + "]"
	}
	var names []string
	for _, m := range order {
		names = append(names, m.name)
	}
	sb.WriteString("/-- methods of *PSlice found in the file (so that a new method without rows is visible) -/\n")
	fmt.Fprintf(&sb, "def methods : List String := %s\n\n", quoteList(names))
	sb.WriteString("/-- fields of the struct, in declaration order (a new field must be classified by hand) -/\n")
	fmt.Fprintf(&sb, "def structFields : List String := %s\n\n", quoteList(fields))
	fmt.Fprintf(&sb, "/-- name of the sync.RWMutex field -/\ndef mutexField : String := %s\n\n", strconv.Quote(mutex))
	sort.SliceStable(w.others, func(i, j int) bool { return w.others[i].line < w.others[j].line })
	sb.WriteString("/-- writes, inside methods, to fields other than the guarded ones and the mutex: (method, field, line) -/\n")
	sb.WriteString("def otherFieldWrites : List (String × String × Nat) := [")
	for i, o := range w.others {
		if i > 0 {
			sb.WriteString(", ")
		}
		fmt.Fprintf(&sb, "(%s, %s, %d)", strconv.Quote(o.method), strconv.Quote(o.field), o.line)
	}
	sb.WriteString("]\n\n")
	sb.WriteString("/-- locals holding a value derived from a guarded field: (method, helper, variable, field, level, line);\n")
	sb.WriteString("    level 0 = shares the field's own array (uses are rows of `accesses`), level 1 = copy of one cell of it\n")
	sb.WriteString("    (one bin's slice header; only writes through it are rows) — documentation, see pslice_locks.go -/\n")
	sb.WriteString("def aliases : List (String × String × String × String × Int × Nat) := [")
	seen := map[plAliasRow]bool{}
	first := true
	for _, a := range w.aliasRows {
		if seen[a] {
			continue
		}
		seen[a] = true
		if !first {
			sb.WriteString(",")
		}
		first = false
		fmt.Fprintf(&sb, "\n  (%s, %s, %s, %s, %d, %d)", strconv.Quote(a.method), strconv.Quote(a.via), strconv.Quote(a.name), strconv.Quote(a.field), a.level, a.line)
	}
	sb.WriteString("]\n\nend Aurora.Generated.PSliceLocks\n")
	return sb.String(), nil
}
