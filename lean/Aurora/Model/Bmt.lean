/-!
# BMT: specification and sequential model of `/repo/pkg/bmt/{bmt.go,pool.go}`

Everything is parametric in the base hash `H : Bytes → Bytes` (the driver instantiates it with
Keccak-256), the segment size `seg` (= hash size, 32) and the number `d` of *section levels*
(a section is two segments; the tree has `2^d` sections, `2^(d+1)` segments; the repository
uses `d = 12`, i.e. `BmtBranches = 8192` segments, `maxSize = 262144` bytes).

* `bmtRoot`, `bmtHash` — the recursive definition the property refers to.
* `Hasher` + `write`/`hash`/`reset` — hand translation of `Hasher.Write/Hash/Reset` with the
  tree buffer (which is *reused with stale content* across hashes) and the bookkeeping
  `size`/`pos`; the per-section goroutines are represented by the list `leafs` of the section
  digests they compute (read at spawn time; `Props/C03` shows the bytes they read never change
  afterwards), and the node-toggling combination by `iterUp`, the dataflow it computes.
-/
namespace Aurora.Bmt

abbrev Bytes := List UInt8

def zeros (n : Nat) : Bytes := List.replicate n 0

/-! ## Specification -/

/-- Binary Merkle root over `2^k` segments of `seg` bytes (input length `seg * 2^k`). -/
def bmtRoot (H : Bytes → Bytes) (seg : Nat) : Nat → Bytes → Bytes
  | 0, x => x
  | k + 1, x => H (bmtRoot H seg k (x.take (seg * 2 ^ k)) ++ bmtRoot H seg k (x.drop (seg * 2 ^ k)))

/-- zero-pad (on the right) to `n` bytes -/
def pad (n : Nat) (x : Bytes) : Bytes := x ++ zeros (n - x.length)

/-- capacity in bytes of a tree with `d` section levels -/
def maxSize (seg d : Nat) : Nat := 2 * seg * 2 ^ d

/-- The BMT hash: `H(span ‖ root(zero-padded data))`. -/
def bmtHash (H : Bytes → Bytes) (seg d : Nat) (span data : Bytes) : Bytes :=
  H (span ++ bmtRoot H seg (d + 1) (pad (maxSize seg d) data))

/-! ## Model of the code -/

/-- `NewConf`'s zero-hash table: `zerohashes[0] = zeros`, `zerohashes[i+1] = H(z_i ‖ z_i)`. -/
def zerohash (H : Bytes → Bytes) (seg : Nat) : Nat → Bytes
  | 0 => zeros seg
  | i + 1 => H (zerohash H seg i ++ zerohash H seg i)

/-- One level of the node combination: neighbours are hashed pairwise; an unpaired last value
    (the final section's path coming from the left) is combined with the zero hash `zh` of the
    absent right subtree (`writeFinalNode`, `isLeft` branch). -/
def levelUp (H : Bytes → Bytes) (zh : Bytes) : List Bytes → List Bytes
  | a :: b :: rest => H (a ++ b) :: levelUp H zh rest
  | [a] => [H (a ++ zh)]
  | [] => []

/-- `n` levels of combination starting at code level `lvl` (the zero hash used when going from
    the children at level `lvl` to their parents is `zerohashes[lvl]`). -/
def iterUp (H : Bytes → Bytes) (seg : Nat) : Nat → Nat → List Bytes → List Bytes
  | 0, _, vals => vals
  | n + 1, lvl, vals => iterUp H seg n (lvl + 1) (levelUp H (zerohash H seg lvl) vals)

structure Hasher where
  buffer : Bytes        -- `h.bmt.buffer` (length `maxSize`; stale bytes from earlier use)
  size   : Nat          -- bytes written since the last reset
  pos    : Nat          -- index of the rightmost open section
  span   : Bytes        -- 8-byte header
  leafs  : List Bytes   -- digests of the sections handed to `go processSection(i, false)`, in index order
deriving Repr

/-- `Pool.Get()`: a hasher over a (possibly dirty) tree buffer. -/
def Hasher.get (buffer : Bytes) : Hasher :=
  { buffer := buffer, size := 0, pos := 0, span := zeros 8, leafs := [] }

/-- `Reset()` -/
def Hasher.reset (h : Hasher) : Hasher :=
  { h with size := 0, pos := 0, span := zeros 8, leafs := [] }

/-- `SetHeader(span)` = `copy(h.span, span)` -/
def Hasher.setHeader (h : Hasher) (s : Bytes) : Hasher :=
  { h with span := s.take h.span.length ++ h.span.drop (min s.length h.span.length) }

/-- Go's `copy(dst[at:], src)` on a fixed-length buffer. -/
def copyAt (dst : Bytes) (at_ : Nat) (src : Bytes) : Bytes :=
  dst.take at_ ++ src.take (dst.length - at_) ++ dst.drop (at_ + min src.length (dst.length - at_))

/-- section `i` (`2*seg` bytes) of a buffer -/
def sect (seg : Nat) (buf : Bytes) (i : Nat) : Bytes := (buf.drop (i * (2 * seg))).take (2 * seg)

/-- `n` consecutive pieces of `w` bytes (sequential chunking; linear time) -/
def chunkList (w : Nat) : Nat → Bytes → List Bytes
  | 0, _ => []
  | n + 1, l => l.take w :: chunkList w n (l.drop w)

/-- `Write(b)`; returns the new hasher and the number of bytes accepted. -/
def Hasher.write (H : Bytes → Bytes) (seg : Nat) (h : Hasher) (b : Bytes) : Hasher × Nat :=
  let mx := h.buffer.length - h.size
  let l := min b.length mx
  let buffer := copyAt h.buffer h.size b
  let secsize := 2 * seg
  let from_ := h.size / secsize
  let size := h.size + l
  let to0 := size / secsize
  let to_ := if l = mx then to0 - 1 else to0
  -- `for i := from; i < to; i++ { go h.processSection(i, false) }`
  -- (sections `from_ … to_-1` of the buffer, i.e. `sect seg buffer (from_ + j)` for `j < to_ - from_`)
  let spawned := (chunkList secsize (to_ - from_) (buffer.drop (from_ * secsize))).map H
  ({ h with buffer := buffer, size := size, pos := to_, leafs := h.leafs ++ spawned }, l)

/-- `Hash(nil)`: returns the digest and the hasher (whose tree buffer got 64 bytes zeroed). -/
def Hasher.hash (H : Bytes → Bytes) (seg d : Nat) (h : Hasher) : Bytes × Hasher :=
  if h.size = 0 then (H (h.span ++ zerohash H seg (d + 1)), h)
  else
    let buffer := copyAt h.buffer h.size (zeros (2 * seg))
    let final := H (sect seg buffer h.pos)
    let root := (iterUp H seg d 1 (h.leafs ++ [final])).headD []
    (H (h.span ++ root), { h with buffer := buffer })

end Aurora.Bmt
