import Aurora.Model.AtomicRegion
/-!
# Bodies whose accesses lie in ONE critical section run serially (C17)

Threads *interpret* instruction lists of `Model/LockSetProg.lean` (`lock | unlock | access`) — the
lists the extractor generates from the Go source (`Aurora/Generated/*Regions.lean`).  One mutex, one
shared state `σ` (for C17: everything `pkg/chunkinfo` keeps about a file).  Thread `t` runs `prog t`
once; its `k`-th `access` applies `op t k : σ → σ` to the shared state (a read is an access whose
operation may also be the identity — what the thread *does* later with what it read is part of the
later operations, which is why all of them must sit in the same critical section).  `lock` is enabled
only when nobody holds the mutex; `unlock` releases it (Go's mutexes are not owner-checked).

`serial_of_oneRegion`: if every body passes the static check `AtomicRegion.oneRegion` (all accesses
under the mutex and in a single critical section), then in every reachable state in which nobody
holds the mutex the shared state is the fold, over the threads in the order in which they left their
critical section (`log`), of each thread's WHOLE composed effect `eff t` — every interleaving is a
serial execution of whole calls.  `serial_finished`: in particular when all threads have finished;
the log then has no duplicates and contains every thread whose effect is not the identity.
`split_not_serial`: a body of the shape `[lock, read, unlock, write]` (seeded change C17-3) reaches a
final state that no serial order produces.  Core Lean only.
-/
namespace Aurora.RegionSerial
open Aurora.LockSetProg (Instr Body)
open Aurora.AtomicRegion (oneRegionFrom oneRegion)

structure Thr where
  rest : Body          -- instructions still to run
  k : Nat              -- number of accesses performed so far
  held : Bool          -- ghost: this thread acquired the mutex and has not released it
  cur : Bool           -- ghost: an access happened in the current critical section
  fin : Bool           -- ghost: a finished critical section contained an access

structure St (σ : Type) where
  sh : σ
  holder : Option Nat
  thr : Nat → Thr
  log : List Nat       -- ghost: threads in the order in which they left a critical section with accesses

def setThr (f : Nat → Thr) (t : Nat) (x : Thr) : Nat → Thr := fun u => if u = t then x else f u

@[simp] theorem setThr_same (f : Nat → Thr) (t : Nat) (x : Thr) : setThr f t x t = x := by simp [setThr]
theorem setThr_other (f : Nat → Thr) (t u : Nat) (x : Thr) (h : u ≠ t) : setThr f t x u = f u := by simp [setThr, h]

section
variable {σ : Type} (op : Nat → Nat → σ → σ)

/-- the step of thread `t`, if it has one -/
def stepFn (s : St σ) (t : Nat) : Option (St σ) :=
  match (s.thr t).rest with
  | [] => none
  | .lock _ :: r =>
    if s.holder.isNone then
      some { s with holder := some t,
                    thr := setThr s.thr t { (s.thr t) with rest := r, held := true, cur := false } }
    else none
  | .unlock _ :: r =>
    some { s with holder := none, log := if (s.thr t).cur then s.log ++ [t] else s.log,
                  thr := setThr s.thr t { (s.thr t) with rest := r, held := false, cur := false,
                                                          fin := (s.thr t).fin || (s.thr t).cur } }
  | .access _ _ :: r =>
    some { s with sh := op t (s.thr t).k s.sh,
                  thr := setThr s.thr t { (s.thr t) with rest := r, k := (s.thr t).k + 1, cur := true } }

def init (prog : Nat → Body) (c0 : σ) : St σ :=
  ⟨c0, none, fun t => ⟨prog t, 0, false, false, false⟩, []⟩

inductive Reach (prog : Nat → Body) (c0 : σ) : St σ → Prop
  | init : Reach prog c0 (init prog c0)
  | step {s s' : St σ} (t : Nat) : Reach prog c0 s → stepFn op s t = some s' → Reach prog c0 s'

/-- composed effect of the accesses of a body, the first of them being access number `k` of thread `t` -/
def effFrom (t : Nat) : Nat → Body → σ → σ
  | _, [], x => x
  | k, .lock _ :: r, x => effFrom t k r x
  | k, .unlock _ :: r, x => effFrom t k r x
  | k, .access _ _ :: r, x => effFrom t (k + 1) r (op t k x)

/-- the whole call of thread `t` as one function -/
def eff (prog : Nat → Body) (t : Nat) (x : σ) : σ := effFrom op t 0 (prog t) x

/-- the calls of the threads in `l`, one after the other -/
def serial (prog : Nat → Body) (l : List Nat) (c0 : σ) : σ := l.foldl (fun x t => eff op prog t x) c0

theorem serial_append (prog : Nat → Body) (l : List Nat) (t : Nat) (c0 : σ) :
    serial op prog (l ++ [t]) c0 = eff op prog t (serial op prog l c0) := by
  simp [serial, List.foldl_append]

/-- after the critical section with the accesses nothing is left to do -/
theorem effFrom_done (t : Nat) : ∀ (r : Body) (h c : Bool) (k : Nat) (x : σ),
    oneRegionFrom h c true r = true → effFrom op t k r x = x
  | [], _, _, _, _, _ => rfl
  | .lock _ :: r, h, c, k, x, hr => by
    simp only [oneRegionFrom, Bool.and_eq_true] at hr
    simpa [effFrom] using effFrom_done t r true false k x hr.2
  | .unlock _ :: r, h, c, k, x, hr => by
    simp only [oneRegionFrom, Bool.and_eq_true, Bool.true_or] at hr
    simpa [effFrom] using effFrom_done t r false false k x hr.2
  | .access _ _ :: r, h, c, k, x, hr => by
    simp [oneRegionFrom] at hr

structure Inv (prog : Nat → Body) (c0 : σ) (s : St σ) : Prop where
  reg : ∀ t, oneRegionFrom (s.thr t).held (s.thr t).cur (s.thr t).fin (s.thr t).rest = true
  own : ∀ t, (s.thr t).held = true ↔ s.holder = some t
  curHeld : ∀ t, (s.thr t).cur = true → (s.thr t).held = true
  curFin : ∀ t, (s.thr t).cur = true → (s.thr t).fin = false
  fresh : ∀ t, (s.thr t).cur = false → (s.thr t).fin = false →
    (s.thr t).k = 0 ∧ ∀ x, effFrom op t 0 (s.thr t).rest x = eff op prog t x
  logFin : ∀ t, t ∈ s.log ↔ (s.thr t).fin = true
  nodup : s.log.Nodup
  busy : ∀ t, s.holder = some t → (s.thr t).cur = true →
    effFrom op t (s.thr t).k (s.thr t).rest s.sh = eff op prog t (serial op prog s.log c0)
  idle : (∀ t, s.holder = some t → (s.thr t).cur = false) → s.sh = serial op prog s.log c0

theorem inv_init (prog : Nat → Body) (hp : ∀ t, oneRegion (prog t) = true) (c0 : σ) :
    Inv op prog c0 (init prog c0) where
  reg t := hp t
  own t := by simp [init]
  curHeld t := by simp [init]
  curFin t := by simp [init]
  fresh t _ _ := ⟨rfl, fun _ => rfl⟩
  logFin t := by simp [init]
  nodup := by simp [init]
  busy t := by simp [init]
  idle _ := rfl

theorem inv_step (prog : Nat → Body) (c0 : σ) (s s' : St σ) (t : Nat) (hi : Inv op prog c0 s)
    (hs : stepFn op s t = some s') : Inv op prog c0 s' := by
  unfold stepFn at hs
  have hreg := hi.reg t
  split at hs
  · cases hs
  · -- lock
    rename_i l r hr
    split at hs
    · rename_i hfree
      cases hs
      rw [hr] at hreg
      simp only [oneRegionFrom, Bool.and_eq_true, Bool.not_eq_true'] at hreg
      have hnone : s.holder = none := by simpa using hfree
      have hcur : (s.thr t).cur = false := by
        cases hc : (s.thr t).cur with
        | false => rfl
        | true => have := hi.curHeld t hc; rw [hreg.1] at this; cases this
      have hidle : s.sh = serial op prog s.log c0 := hi.idle (by intro u hu; rw [hnone] at hu; cases hu)
      refine ⟨?_, ?_, ?_, ?_, ?_, ?_, hi.nodup, ?_, fun _ => hidle⟩
      · intro u
        by_cases hu : u = t
        · subst hu; simpa using hreg.2
        · simpa [setThr_other _ _ _ _ hu] using hi.reg u
      · intro u
        by_cases hu : u = t
        · subst hu; simp
        · simp only [setThr_other _ _ _ _ hu]
          constructor
          · intro h; have := (hi.own u).1 h; rw [hnone] at this; cases this
          · intro h; exact absurd (Option.some.inj h).symm hu
      · intro u
        by_cases hu : u = t
        · subst hu; simp
        · simpa [setThr_other _ _ _ _ hu] using hi.curHeld u
      · intro u
        by_cases hu : u = t
        · subst hu; simp
        · simpa [setThr_other _ _ _ _ hu] using hi.curFin u
      · intro u
        by_cases hu : u = t
        · subst hu
          intro _ hf
          have := hi.fresh u hcur (by simpa using hf)
          rw [hr] at this
          simpa [effFrom] using this
        · simpa [setThr_other _ _ _ _ hu] using hi.fresh u
      · intro u
        by_cases hu : u = t
        · subst hu; simpa using hi.logFin u
        · simpa [setThr_other _ _ _ _ hu] using hi.logFin u
      · intro u hu hc
        have : u = t := (Option.some.inj hu).symm
        subst this
        simp at hc
    · cases hs
  · -- unlock
    rename_i l r hr
    cases hs
    rw [hr] at hreg
    simp only [oneRegionFrom, Bool.and_eq_true] at hreg
    have hown : s.holder = some t := (hi.own t).1 hreg.1
    refine ⟨?_, ?_, ?_, ?_, ?_, ?_, ?_, ?_, ?_⟩
    · intro u
      by_cases hu : u = t
      · subst hu; simpa using hreg.2
      · simpa [setThr_other _ _ _ _ hu] using hi.reg u
    · intro u
      by_cases hu : u = t
      · subst hu; simp
      · simp only [setThr_other _ _ _ _ hu]
        constructor
        · intro h; have := (hi.own u).1 h; rw [hown] at this; exact absurd (Option.some.inj this).symm hu
        · intro h; cases h
    · intro u
      by_cases hu : u = t
      · subst hu; simp
      · simp only [setThr_other _ _ _ _ hu]
        intro hc
        have := (hi.own u).1 (hi.curHeld u hc); rw [hown] at this
        exact absurd (Option.some.inj this).symm hu
    · intro u
      by_cases hu : u = t
      · subst hu; simp
      · simpa [setThr_other _ _ _ _ hu] using hi.curFin u
    · intro u
      by_cases hu : u = t
      · subst hu
        simp only [setThr_same, Bool.or_eq_false_iff]
        intro _ hf
        have := hi.fresh u hf.2 hf.1
        rw [hr] at this
        simpa [effFrom] using this
      · simpa [setThr_other _ _ _ _ hu] using hi.fresh u
    · intro u
      by_cases hu : u = t
      · subst hu
        cases hc : (s.thr u).cur with
        | false => simpa [hc] using hi.logFin u
        | true => simp
      · simp only [setThr_other _ _ _ _ hu]
        cases hc : (s.thr t).cur with
        | false => simpa [hc] using hi.logFin u
        | true =>
          simp only [if_true, List.mem_append, List.mem_singleton, hu, or_false]
          exact hi.logFin u
    · cases hc : (s.thr t).cur with
      | false => simpa [hc] using hi.nodup
      | true =>
        simp only [if_true]
        have hnin : t ∉ s.log := by
          intro hm
          have := (hi.logFin t).1 hm
          rw [hi.curFin t hc] at this; cases this
        exact List.nodup_append.2 ⟨hi.nodup, by simp, by
          intro a ha b hb; simp at hb; subst hb; intro hab; subst hab; exact hnin ha⟩
    · intro u hu; cases hu
    · intro _
      cases hc : (s.thr t).cur with
      | false =>
        simp only [Bool.false_eq_true, if_false]
        exact hi.idle (by intro u hu; rw [hown] at hu; cases hu; exact hc)
      | true =>
        simp only [if_true]
        have hb := hi.busy t hown hc
        rw [hr] at hb
        simp only [effFrom] at hb
        have hdone : oneRegionFrom false false true r = true := by
          have := hreg.2; rw [hc] at this; simpa using this
        rw [effFrom_done op t r false false _ _ hdone] at hb
        rw [serial_append]; exact hb
  · -- access
    rename_i loc w r hr
    cases hs
    rw [hr] at hreg
    simp only [oneRegionFrom, Bool.and_eq_true, Bool.not_eq_true'] at hreg
    have hheld : (s.thr t).held = true := hreg.1.1
    have hfin : (s.thr t).fin = false := hreg.1.2
    have hown : s.holder = some t := (hi.own t).1 hheld
    refine ⟨?_, ?_, ?_, ?_, ?_, ?_, hi.nodup, ?_, ?_⟩
    · intro u
      by_cases hu : u = t
      · subst hu; simpa [hheld] using hreg.2
      · simpa [setThr_other _ _ _ _ hu] using hi.reg u
    · intro u
      by_cases hu : u = t
      · subst hu; simpa using hi.own u
      · simpa [setThr_other _ _ _ _ hu] using hi.own u
    · intro u
      by_cases hu : u = t
      · subst hu; simpa using hheld
      · simpa [setThr_other _ _ _ _ hu] using hi.curHeld u
    · intro u
      by_cases hu : u = t
      · subst hu; simpa using hfin
      · simpa [setThr_other _ _ _ _ hu] using hi.curFin u
    · intro u
      by_cases hu : u = t
      · subst hu; simp
      · simpa [setThr_other _ _ _ _ hu] using hi.fresh u
    · intro u
      by_cases hu : u = t
      · subst hu; simpa using hi.logFin u
      · simpa [setThr_other _ _ _ _ hu] using hi.logFin u
    · intro u hu _
      have : u = t := by rw [hown] at hu; exact (Option.some.inj hu).symm
      subst this
      simp only [setThr_same]
      cases hc : (s.thr u).cur with
      | true =>
        have hb := hi.busy u hown hc
        rw [hr] at hb
        simpa [effFrom] using hb
      | false =>
        have hf := hi.fresh u hc hfin
        have hid := hi.idle (by intro v hv; rw [hown] at hv; cases hv; exact hc)
        have h2 := hf.2 s.sh
        rw [hr] at h2
        simp only [effFrom] at h2
        rw [hf.1, ← hid]; exact h2
    · intro h
      have := h t hown
      simp at this

/-- every reachable state satisfies the invariant -/
theorem inv_reach (prog : Nat → Body) (hp : ∀ t, oneRegion (prog t) = true) (c0 : σ) (s : St σ)
    (h : Reach op prog c0 s) : Inv op prog c0 s := by
  induction h with
  | init => exact inv_init op prog hp c0
  | step t _ hs ih => exact inv_step op prog c0 _ _ t ih hs

/-- **Serialisability.**  If all accesses of every body lie in one critical section, then in every
    reachable state in which nobody holds the mutex the shared state is the result of running the WHOLE
    calls of the threads in `log` one after the other, in the order in which they left their critical
    section; `log` has no duplicates. -/
theorem serial_of_oneRegion (prog : Nat → Body) (hp : ∀ t, oneRegion (prog t) = true) (c0 : σ) (s : St σ)
    (h : Reach op prog c0 s) (hfree : s.holder = none) :
    s.sh = serial op prog s.log c0 ∧ s.log.Nodup := by
  have hi := inv_reach op prog hp c0 s h
  exact ⟨hi.idle (by intro t ht; rw [hfree] at ht; cases ht), hi.nodup⟩

/-- … also while somebody is inside its critical section but has not accessed anything yet, and in
    general: what the current holder still has to do leads to the serial result with the holder last. -/
theorem serial_pending (prog : Nat → Body) (hp : ∀ t, oneRegion (prog t) = true) (c0 : σ) (s : St σ)
    (h : Reach op prog c0 s) (t : Nat) (ht : s.holder = some t) (hc : (s.thr t).cur = true) :
    effFrom op t (s.thr t).k (s.thr t).rest s.sh = serial op prog (s.log ++ [t]) c0 := by
  rw [serial_append]
  exact (inv_reach op prog hp c0 s h).busy t ht hc

/-- All threads of `ts` finished, the others have not started: nobody holds the mutex, the shared
    state is a serial run of whole calls of distinct threads, and every finished thread that is not in
    the log has the identity as its effect (it has no access at all). -/
theorem serial_finished (prog : Nat → Body) (hp : ∀ t, oneRegion (prog t) = true) (c0 : σ) (s : St σ)
    (h : Reach op prog c0 s) (hdone : ∀ t, (s.thr t).rest = [] ∨ (s.thr t).rest = prog t ∧ (s.thr t).k = 0 ∧ (s.thr t).held = false) :
    s.sh = serial op prog s.log c0 ∧ s.log.Nodup ∧
    (∀ t, (s.thr t).rest = [] → t ∉ s.log → ∀ x, eff op prog t x = x) := by
  have hi := inv_reach op prog hp c0 s h
  have hheld : ∀ t, (s.thr t).held = false := by
    intro t
    rcases hdone t with h0 | h0
    · have := hi.reg t; rw [h0] at this; simpa [oneRegionFrom] using this
    · exact h0.2.2
  have hfree : s.holder = none := by
    cases hh : s.holder with
    | none => rfl
    | some t => have := (hi.own t).2 hh; rw [hheld t] at this; cases this
  refine ⟨(serial_of_oneRegion op prog hp c0 s h hfree).1, hi.nodup, ?_⟩
  intro t hr hnin x
  have hfin : (s.thr t).fin = false := by
    cases hf : (s.thr t).fin with
    | false => rfl
    | true => exact absurd ((hi.logFin t).2 hf) hnin
  have hcur : (s.thr t).cur = false := by
    cases hc : (s.thr t).cur with
    | false => rfl
    | true => have := hi.curHeld t hc; rw [hheld t] at this; cases this
  have := (hi.fresh t hcur hfin).2 x
  rw [hr] at this
  simpa [effFrom] using this.symm

end

/-! ### the discipline is needed -/

/-- the shape of seeded change C17-3: the mutex is released after the read, the writes follow outside -/
def splitBody : Body := [.lock 0, .access 0 false, .unlock 0, .access 0 true]
/-- a whole call under the mutex (`DelFile`) -/
def delBody : Body := [.lock 0, .access 0 true, .unlock 0]

/-- the shared state is the trace of accesses `(thread, access number)` -/
def traceOp : Nat → Nat → List (Nat × Nat) → List (Nat × Nat) := fun t k x => x ++ [(t, k)]

def splitProg : Nat → Body := fun t => if t = 0 then splitBody else if t = 1 then delBody else []

theorem split_rejected : oneRegion splitBody = false := by decide

/-- Thread 0 runs the split body, thread 1 a whole call under the mutex: a state in which every
    thread has finished is reachable whose trace has thread 1's access BETWEEN the two accesses of
    thread 0 — neither of the two serial orders (nor any other list of threads) produces it. -/
theorem split_not_serial :
    ∃ s : St (List (Nat × Nat)), Reach traceOp splitProg [] s ∧ (∀ t, (s.thr t).rest = []) ∧
      s.holder = none ∧ s.sh = [(0, 0), (1, 0), (0, 1)] ∧
      serial traceOp splitProg [0, 1] [] = [(0, 0), (0, 1), (1, 0)] ∧
      serial traceOp splitProg [1, 0] [] = [(1, 0), (0, 0), (0, 1)] ∧
      ∀ l, s.sh ≠ serial traceOp splitProg l [] := by
  have r0 : Reach traceOp splitProg [] (init splitProg []) := .init
  have r1 := Reach.step 0 r0 rfl
  have r2 := Reach.step 0 r1 rfl
  have r3 := Reach.step 0 r2 rfl
  have r4 := Reach.step 1 r3 rfl
  have r5 := Reach.step 1 r4 rfl
  have r6 := Reach.step 1 r5 rfl
  have r7 := Reach.step 0 r6 rfl
  refine ⟨_, r7, ?_, rfl, rfl, by decide, by decide, ?_⟩
  · intro t
    by_cases h0 : t = 0
    · subst h0; rfl
    · by_cases h1 : t = 1
      · subst h1; rfl
      · simp [setThr, h0, h1, init, splitProg]
  · -- every serial run keeps (0,0) immediately followed by (0,1)
    intro l
    show [(0, 0), (1, 0), (0, 1)] ≠ serial traceOp splitProg l []
    have key : ∀ (l : List Nat) (x : List (Nat × Nat)),
        ∃ y, serial traceOp splitProg l x = x ++ y ∧
          ∀ p q, y = p ++ (0, 0) :: q → ∃ q', q = (0, 1) :: q' := by
      intro l
      induction l with
      | nil => intro x; exact ⟨[], by simp [serial], by intro p q h; cases p <;> cases h⟩
      | cons t l ih =>
        intro x
        have hstep : serial traceOp splitProg (t :: l) x = serial traceOp splitProg l (eff traceOp splitProg t x) := rfl
        by_cases h0 : t = 0
        · subst h0
          obtain ⟨y, hy, hq⟩ := ih (x ++ [(0, 0), (0, 1)])
          have he : eff traceOp splitProg 0 x = x ++ [(0, 0), (0, 1)] := by
            simp [eff, splitProg, splitBody, effFrom, traceOp]
          refine ⟨[(0, 0), (0, 1)] ++ y, by rw [hstep, he, hy]; simp, ?_⟩
          intro p q h
          cases p with
          | nil => simp at h; exact ⟨y, by rw [← h]⟩
          | cons a p =>
            cases p with
            | nil => simp at h
            | cons b p =>
              simp only [List.cons_append, List.nil_append, List.cons.injEq] at h
              exact hq p q h.2.2
        · by_cases h1 : t = 1
          · subst h1
            obtain ⟨y, hy, hq⟩ := ih (x ++ [(1, 0)])
            have he : eff traceOp splitProg 1 x = x ++ [(1, 0)] := by
              simp [eff, splitProg, delBody, effFrom, traceOp]
            refine ⟨[(1, 0)] ++ y, by rw [hstep, he, hy]; simp, ?_⟩
            intro p q h
            cases p with
            | nil => simp at h
            | cons a p =>
              simp only [List.cons_append, List.nil_append, List.cons.injEq] at h
              exact hq p q h.2
          · obtain ⟨y, hy, hq⟩ := ih x
            have he : eff traceOp splitProg t x = x := by
              simp [eff, splitProg, h0, h1, effFrom]
            exact ⟨y, by rw [hstep, he, hy], hq⟩
    obtain ⟨y, hy, hq⟩ := key l []
    intro hcontra
    rw [hy] at hcontra
    simp only [List.nil_append] at hcontra
    obtain ⟨q', hq'⟩ := hq [] [(1, 0), (0, 1)] (by rw [← hcontra]; rfl)
    cases hq'

end Aurora.RegionSerial
