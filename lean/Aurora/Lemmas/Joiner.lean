import Aurora.Model.Joiner
import Aurora.Lemmas.Tree
/-!
The reader on well-formed trees: `subtrieSection` returns each child's true size
(`subtrieSection_spec`, with the termination argument of its loop), and `readAtOffset` returns the
requested slice of the flattened content (`readAtOffset_spec`).
-/
namespace Aurora.Joiner
open Aurora.Bmt (Bytes)
open Aurora.Cac (le64)
open Aurora.Tree

/-! ## `subtrieSection` -/

theorem pow_lt_step (C B k h : Nat) (hB : 2 ≤ B) (hk : k < h) : 2 * (C * B ^ k) ≤ C * B ^ h := by
  obtain ⟨d, rfl⟩ : ∃ d, h = k + 1 + d := ⟨h - k - 1, by omega⟩
  rw [Nat.pow_add, Nat.pow_succ]
  have h1 : 1 ≤ B ^ d := Nat.one_le_pow _ _ (by omega)
  have h2 : B ^ k * 2 * 1 ≤ B ^ k * B * B ^ d := Nat.mul_le_mul (Nat.mul_le_mul_left _ hB) h1
  calc 2 * (C * B ^ k) = C * (B ^ k * 2 * 1) := by
        rw [Nat.mul_one, Nat.mul_comm 2, Nat.mul_assoc]
    _ ≤ C * (B ^ k * B * B ^ d) := Nat.mul_le_mul_left C h2

/-- The loop of `subtrieSection` on a node whose `a+1` children are `a` full subtrees of
    `Q = C*B^h` bytes and a last one of `0 < l ≤ Q` bytes: started at `C*B^k` (`k ≤ h`) with at
    least `h-k+1` iterations of fuel it stops at `Q`.  (Termination argument of the Go loop: the
    branch size at least doubles per iteration and never exceeds the span.) -/
theorem branchLoop_spec (C B h a l : Nat) (hB : 2 ≤ B) (ha : 1 ≤ a) (hl : 0 < l) (hlq : l ≤ C * B ^ h) :
    ∀ (d k fuel : Nat), k + d = h → d + 1 ≤ fuel →
      branchLoop B (a * (C * B ^ h) + l) (a + 1) fuel (C * B ^ k) = C * B ^ h := by
  intro d
  induction d with
  | zero =>
    intro k fuel hk hf
    have : k = h := by omega
    subst this
    obtain ⟨f, rfl⟩ : ∃ f, fuel = f + 1 := ⟨fuel - 1, by omega⟩
    simp only [branchLoop, Nat.add_sub_cancel]
    have : a * (C * B ^ k) + l - C * B ^ k * a ≤ C * B ^ k := by
      rw [Nat.mul_comm (C * B ^ k) a]; omega
    simp [this]
  | succ d ih =>
    intro k fuel hk hf
    obtain ⟨f, rfl⟩ : ∃ f, fuel = f + 1 := ⟨fuel - 1, by omega⟩
    simp only [branchLoop, Nat.add_sub_cancel]
    have hstep := pow_lt_step C B k h hB (by omega)
    have h1 : a * (2 * (C * B ^ k)) ≤ a * (C * B ^ h) := Nat.mul_le_mul_left a hstep
    have h2 : C * B ^ k ≤ a * (C * B ^ k) := Nat.le_mul_of_pos_left _ (by omega)
    have h3 : a * (2 * (C * B ^ k)) = 2 * (a * (C * B ^ k)) := by
      rw [Nat.mul_left_comm]
    have hnot : ¬ (a * (C * B ^ h) + l - C * B ^ k * a ≤ C * B ^ k) := by
      rw [Nat.mul_comm (C * B ^ k) a]; omega
    simp only [hnot, ↓reduceIte]
    have e : C * B ^ k * B = C * B ^ (k + 1) := by rw [Nat.pow_succ, Nat.mul_assoc]
    rw [e]
    exact ih (k + 1) f (by omega) (by omega)

theorem span_ge_fuel (C B h a l : Nat) (hC : 1 ≤ C) (hB : 2 ≤ B) (ha : 1 ≤ a) :
    h + 1 ≤ a * (C * B ^ h) + l := by
  have h1 : h + 1 ≤ 2 ^ h := by
    induction h with
    | zero => simp
    | succ h ih => rw [Nat.pow_succ]; omega
  have h2 : 2 ^ h ≤ B ^ h := Nat.pow_le_pow_left hB h
  have h3 : B ^ h ≤ C * B ^ h := Nat.le_mul_of_pos_left _ (by omega)
  have h4 : C * B ^ h ≤ a * (C * B ^ h) := Nat.le_mul_of_pos_left _ (by omega)
  omega

/-- **`subtrieSection` on a well-formed node**: with `m = a+1` references of `R` bytes,
    `C / R = B`, children sizes `Q,…,Q,l`: the section of child `j` is its size. -/
theorem subtrieSection_spec (C B R h a l j : Nat) (hC : 1 ≤ C) (hR : 0 < R) (hBR : C / R = B) (hB : 2 ≤ B)
    (ha : 1 ≤ a) (hl : 0 < l) (hlq : l ≤ C * B ^ h) (hj : j ≤ a) :
    subtrieSection C (R * (a + 1)) (j * R) R (a * (C * B ^ h) + l) =
      if j = a then l else C * B ^ h := by
  unfold subtrieSection
  have hrefs : R * (a + 1) / R = a + 1 := Nat.mul_div_cancel_left _ hR
  simp only [hrefs, hBR, Nat.add_sub_cancel]
  have hloop := branchLoop_spec C B h a l hB ha hl hlq h 0 (a * (C * B ^ h) + l) (by omega)
    (span_ge_fuel C B h a l hC hB ha)
  simp only [Nat.pow_zero, Nat.mul_one] at hloop
  rw [hloop]
  by_cases hja : j = a
  · subst hja; simp
  · have : ¬ j * R = a * R := by
      intro h'; exact hja (Nat.eq_of_mul_eq_mul_right hR h')
    simp [this, hja]

/-! ## Writing into the caller's buffer -/

/-- `copy(b[bo:bo+len(s)], s)` on the backing array -/
def splice (mem : Bytes) (bo : Nat) (s : Bytes) : Bytes := mem.take bo ++ s ++ mem.drop (bo + s.length)

theorem splice_nil (mem : Bytes) (bo : Nat) : splice mem bo [] = mem := by
  simp [splice]

theorem splice_length (mem : Bytes) (bo : Nat) (s : Bytes) (h : bo + s.length ≤ mem.length) :
    (splice mem bo s).length = mem.length := by
  simp only [splice, List.length_append, List.length_take, List.length_drop]; omega

theorem drop_add_append (A Bl : Bytes) (i : Nat) : (A ++ Bl).drop (A.length + i) = Bl.drop i := by
  rw [List.drop_append, List.drop_of_length_le (by omega)]
  simp

theorem splice_splice (mem : Bytes) (bo : Nat) (s1 s2 : Bytes) (h : bo + s1.length + s2.length ≤ mem.length) :
    splice (splice mem bo s1) (bo + s1.length) s2 = splice mem bo (s1 ++ s2) := by
  have hA : (mem.take bo ++ s1).length = bo + s1.length := by
    simp only [List.length_append, List.length_take]; omega
  unfold splice
  rw [List.take_left' hA]
  have hdrop : ((mem.take bo ++ s1) ++ mem.drop (bo + s1.length)).drop (bo + s1.length + s2.length)
      = mem.drop (bo + (s1 ++ s2).length) := by
    rw [show bo + s1.length + s2.length = (mem.take bo ++ s1).length + s2.length by rw [hA]]
    rw [drop_add_append, List.drop_drop]
    congr 1
    simp only [List.length_append]; omega
  rw [hdrop]
  simp [List.append_assoc]

theorem fromLe64_data (s : Nat) (p : Bytes) (h : s < 2 ^ 64) : fromLe64 (le64 s ++ p) = s := by
  have : (le64 s ++ p).take 8 = (le64 s).take 8 := by
    rw [List.take_append_of_le_length (by rw [le64_length]; omega)]
  unfold fromLe64
  rw [this]
  exact fromLe64_le64 s h

/-! ## `readAtOffset` on a well-formed tree -/

section Reader
variable (cref : Bytes → Bytes → Bytes) (get : Bytes → Except Err Bytes) (C B R : Nat)

/-- the store returns every chunk of the tree under its reference -/
def Holds (t : T) : Prop := ∀ x ∈ t.chunks cref, get x.1 = .ok x.2

/-- what a correct recursive call does on subtree `k` -/
def RecOk (rec : Bytes → Nat → Nat → Nat → Nat → Nat → RS → Except Err RS) (k : T) : Prop :=
  ∀ (cur off bo n : Nat) (st : RS), cur ≤ off → off + n ≤ cur + k.size → bo + n ≤ st.mem.length →
    rec (k.payload cref) cur k.size off bo n st =
      .ok { mem := splice st.mem bo ((k.flat.drop (off - cur)).take n), read := st.read + n }

theorem take_drop_append (A Bl : Bytes) (d n : Nat) (hd : d ≤ A.length) :
    ((A ++ Bl).drop d).take n =
      (A.drop d).take (min (A.length - d) n) ++ Bl.take (n - min (A.length - d) n) := by
  rw [List.drop_append_of_le_length hd, List.take_append]
  simp only [List.length_drop]
  by_cases h : n ≤ A.length - d
  · have h1 : min (A.length - d) n = n := by omega
    have h2 : n - (A.length - d) = 0 := by omega
    rw [h1, h2, Nat.sub_self]
  · have h1 : min (A.length - d) n = A.length - d := by omega
    rw [h1]
    congr 1
    rw [List.take_of_length_le (by simp only [List.length_drop]; omega),
      List.take_of_length_le (by simp only [List.length_drop]; omega)]

theorem refLoop_spec (hR : ∀ s p, (cref s p).length = R) (hRpos : 0 < R)
    (span : Nat) (kids : List T) (hspan : span < 2 ^ 64)
    (hsize : ∀ k ∈ kids, k.size ≤ span) (hflat : ∀ k ∈ kids, k.flat.length = k.size)
    (hget : ∀ k ∈ kids, get (k.ref cref) = .ok (k.data cref))
    (rec : Bytes → Nat → Nat → Nat → Nat → Nat → RS → Except Err RS)
    (hrec : ∀ k ∈ kids, RecOk cref rec k)
    (hsec : ∀ pre k post, kids = pre ++ k :: post →
      subtrieSection C (refsL cref kids).length (pre.length * R) R span = k.size) :
    ∀ (ks pre : List T), kids = pre ++ ks →
    ∀ (cur off bo n : Nat) (st : RS), cur ≤ off → off + n ≤ cur + (ks.map T.size).sum →
      bo + n ≤ st.mem.length →
      refLoop get C R (refsL cref kids) span rec ks.length (pre.length * R) cur off bo n st =
        .ok { mem := splice st.mem bo (((flatL ks).drop (off - cur)).take n), read := st.read + n } := by
  intro ks
  induction ks with
  | nil =>
    intro pre _ cur off bo n st h1 h2 _
    have : n = 0 := by simp at h2; omega
    subst this
    simp [refLoop, splice_nil]
  | cons k ks' ih =>
    intro pre hk cur off bo n st h1 h2 h3
    have hkmem : k ∈ kids := by rw [hk]; simp
    simp only [List.length_cons, refLoop]
    by_cases hn : n = 0
    · subst hn; simp [splice_nil]
    · simp only [hn, ↓reduceIte]
      rw [hsec pre k ks' hk]
      have hkflat := hflat k hkmem
      have hpre' : kids = (pre ++ [k]) ++ ks' := by rw [hk]; simp
      have hcursor : pre.length * R + R = (pre ++ [k]).length * R := by
        simp only [List.length_append, List.length_cons, List.length_nil]; rw [Nat.add_mul]; omega
      by_cases hskip : cur + k.size < off
      · simp only [hskip, ↓reduceIte]
        rw [hcursor]
        have := ih (pre ++ [k]) hpre' (cur + k.size) off bo n st (by omega)
          (by simp only [List.map_cons, List.sum_cons] at h2; omega) h3
        rw [this]
        congr 3
        rw [flatL]
        have e : off - cur = k.flat.length + (off - (cur + k.size)) := by omega
        rw [e, drop_add_append]
      · simp only [hskip, ↓reduceIte]
        -- the reference of child k sits at the cursor
        have hdata : refsL cref kids = refsL cref pre ++ (k.ref cref ++ refsL cref ks') := by
          rw [hk, refsL_append, refsL]
        have hprelen : (refsL cref pre).length = pre.length * R := by
          rw [refsL_length cref R hR pre, Nat.mul_comm]
        have hreflen : (k.ref cref).length = R := T.ref_length cref R hR k
        have hnotshort : ¬ (refsL cref kids).length < pre.length * R + R := by
          rw [hdata]; simp only [List.length_append, hprelen, hreflen]; omega
        simp only [hnotshort, ↓reduceIte]
        have haddr : ((refsL cref kids).drop (pre.length * R)).take R = k.ref cref := by
          rw [hdata, ← hprelen, List.drop_left, List.take_left' hreflen]
        rw [haddr, hget k hkmem]
        have hks : k.size < 2 ^ 64 := Nat.lt_of_le_of_lt (hsize k hkmem) hspan
        have hlen8 : ¬ (k.data cref).length < 8 := by
          simp only [T.data, List.length_append, le64_length]; omega
        have hspan' : fromLe64 (k.data cref) = k.size := fromLe64_data k.size _ hks
        have hpayload : (k.data cref).drop 8 = k.payload cref := by
          simp only [T.data]; rw [List.drop_left' (le64_length _)]
        simp only [hlen8, ↓reduceIte, hspan', Nat.lt_irrefl, hpayload]
        -- the recursive call
        have hcrs : min (min (k.size - (off - cur)) n) k.size = min (k.size - (off - cur)) n := by omega
        rw [hcrs]
        have hr := hrec k hkmem cur off bo (min (k.size - (off - cur)) n) st h1 (by omega) (by omega)
        rw [hr]
        simp only []
        rw [hcursor]
        have hS1 : ((k.flat.drop (off - cur)).take (min (k.size - (off - cur)) n)).length
            = min (k.size - (off - cur)) n := by
          simp only [List.length_take, List.length_drop, hkflat]; omega
        have hmem1 : (splice st.mem bo ((k.flat.drop (off - cur)).take (min (k.size - (off - cur)) n))).length
            = st.mem.length := splice_length _ _ _ (by rw [hS1]; omega)
        have := ih (pre ++ [k]) hpre' (cur + k.size) (cur + k.size) (bo + min (k.size - (off - cur)) n)
          (n - min (k.size - (off - cur)) n)
          { mem := splice st.mem bo ((k.flat.drop (off - cur)).take (min (k.size - (off - cur)) n)),
            read := st.read + min (k.size - (off - cur)) n }
          (Nat.le_refl _) (by simp only [List.map_cons, List.sum_cons] at h2; omega)
          (by simp only [hmem1]; omega)
        rw [this]
        simp only [Nat.sub_self, List.drop_zero]
        have hread : st.read + min (k.size - (off - cur)) n + (n - min (k.size - (off - cur)) n) = st.read + n := by
          omega
        rw [hread]
        have e := splice_splice st.mem bo ((k.flat.drop (off - cur)).take (min (k.size - (off - cur)) n))
          ((flatL ks').take (n - min (k.size - (off - cur)) n))
          (by rw [hS1]; simp only [List.length_take]; omega)
        rw [hS1] at e
        rw [e, flatL, take_drop_append _ _ _ _ (by omega), hkflat]

theorem kids_index (init : List T) (last : T) (pre : List T) (k : T) (post : List T)
    (h : init ++ [last] = pre ++ k :: post) :
    (pre.length = init.length ∧ k = last) ∨ (pre.length < init.length ∧ k ∈ init) := by
  have hk : (pre ++ k :: post)[pre.length]? = some k := by simp
  rw [← h] at hk
  have hlen := congrArg List.length h
  simp only [List.length_append, List.length_cons, List.length_nil] at hlen
  by_cases hj : pre.length < init.length
  · right
    rw [List.getElem?_append_left hj] at hk
    exact ⟨hj, List.mem_of_getElem? hk⟩
  · left
    have hje : pre.length = init.length := by omega
    rw [hje] at hk
    simp at hk
    exact ⟨hje, hk.symm⟩

/-- **The reader returns the requested slice of the content** on every well-formed tree whose
    chunks the store holds: `readAtOffset` started on subtree `t` (covering `[cur, cur+size)`)
    for `n` bytes at `off` writes `flat t [off-cur, off-cur+n)` at `bufferOffset` and nothing else,
    and adds `n` to `bytesRead`. -/
theorem readAtOffset_spec (hR : ∀ s p, (cref s p).length = R) (hRpos : 0 < R) (hBR : C / R = B)
    (hB : 2 ≤ B) (hC : 1 ≤ C) :
    ∀ (h : Nat) (t : T), WF C B h t → t.size < 2 ^ 64 → Holds cref get t →
    ∀ fuel, h + 1 ≤ fuel → RecOk cref (readAtOffset get C R fuel) t := by
  intro h
  induction h with
  | zero =>
    intro t w _ _ fuel hf cur off bo n st h1 h2 h3
    rw [WF] at w
    obtain ⟨d, rfl, _⟩ := w
    obtain ⟨f, rfl⟩ : ∃ f, fuel = f + 1 := ⟨fuel - 1, by omega⟩
    simp only [T.payload, T.size, T.flat] at h2 ⊢
    simp only [readAtOffset, Nat.le_refl, ↓reduceIte]
    have e1 : ¬ off < cur := by omega
    have e2 : ¬ d.length < off - cur := by omega
    have e3 : ¬ n > d.length - (off - cur) := by omega
    simp only [e1, e2, e3, ↓reduceIte]
    have hbs : (d.take (off - cur + n)).drop (off - cur) = (d.drop (off - cur)).take n := by
      rw [List.take_drop]
    rw [hbs]
    have hlen : ((d.drop (off - cur)).take n).length = n := by
      simp only [List.length_take, List.length_drop]; omega
    have e4 : ¬ st.mem.length < bo + n := by omega
    simp only [hlen, e4, ↓reduceIte, splice]
  | succ h ih =>
    intro t w hsz hholds fuel hf
    rcases WF_succ_cases C B h t w with w' | ⟨span, init, last, rfl, h1, h2, hinit, hlast, hpos, hle, hspan⟩
    · exact ih t w' hsz hholds fuel (by omega)
    · intro cur off bo n st c1 c2 c3
      obtain ⟨f, rfl⟩ : ∃ f, fuel = f + 1 := ⟨fuel - 1, by omega⟩
      have hB1 : 1 ≤ B := by omega
      have hQ := node_span init last (C * B ^ h) (fun k hk => (hinit k hk).2)
      simp only [T.size] at hsz c2 ⊢
      simp only [T.payload, T.flat]
      have hdlen : (refsL cref (init ++ [last])).length = R * (init.length + 1) := by
        rw [refsL_length cref R hR]; simp
      -- not a leaf: the span exceeds the payload length
      have hRB : B * R ≤ C := by rw [← hBR]; exact Nat.div_mul_le_self C R
      have hpow : C ≤ C * B ^ h := Nat.le_mul_of_pos_right _ (Nat.pow_pos (by omega))
      have hQa : C * B ^ h ≤ init.length * (C * B ^ h) := Nat.le_mul_of_pos_left _ (by omega)
      have hRa : R * (init.length + 1) ≤ B * R := by
        rw [Nat.mul_comm B R]; exact Nat.mul_le_mul_left R h2
      have hnotleaf : ¬ span ≤ (refsL cref (init ++ [last])).length := by
        rw [hdlen, hspan, hQ]; omega
      simp only [readAtOffset, hnotleaf, ↓reduceIte]
      have hiter : ((refsL cref (init ++ [last])).length + R - 1) / R = (init ++ [last]).length := by
        rw [hdlen]
        simp only [List.length_append, List.length_cons, List.length_nil, Nat.zero_add]
        apply Nat.div_eq_of_lt_le
        · rw [Nat.mul_comm]; omega
        · rw [Nat.add_mul, Nat.mul_comm R]; omega
      rw [hiter]
      have hkid : ∀ k ∈ init ++ [last], WF C B h k := by
        intro k hk
        rcases List.mem_append.mp hk with hk | hk
        · exact (hinit k hk).1
        · simp at hk; subst hk; exact hlast
      have hsizes : ∀ k ∈ init ++ [last], k.size ≤ span := by
        intro k hk; rw [hspan]; exact size_le_sum _ k hk
      have := refLoop_spec cref get C R hR hRpos span (init ++ [last]) hsz hsizes
        (fun k hk => (WF_flat_size C B hB1 h k (hkid k hk)).1)
        (fun k hk => hholds _ (node_chunks_mem cref span _ k hk _ (chunks_head cref k)))
        (readAtOffset get C R f)
        (fun k hk => ih k (hkid k hk) (Nat.lt_of_le_of_lt (hsizes k hk) hsz)
          (fun x hx => hholds x (node_chunks_mem cref span _ k hk x hx)) f (by omega))
        (by
          intro pre k post hk
          rw [hdlen, hspan, hQ]
          have := subtrieSection_spec C B R h init.length last.size pre.length hC hRpos hBR hB h1 hpos hle
          rcases kids_index init last pre k post hk with ⟨e1, e2⟩ | ⟨e1, e2⟩
          · rw [this (by omega)]; simp [e1, e2]
          · rw [this (by omega)]
            have : ¬ pre.length = init.length := by omega
            simp [this, (hinit k e2).2])
        (init ++ [last]) [] rfl cur off bo n st c1 (by rw [← hspan]; exact c2) c3
      simpa using this

/-- `joiner.New` on the root reference of a stored tree: span = size, root data = payload -/
theorem new_spec (t : T) (hsz : t.size < 2 ^ 64) (hholds : Holds cref get t) :
    new get (t.ref cref) = .ok { rootData := t.payload cref, span := t.size, off := 0, refLength := (t.ref cref).length } := by
  unfold new
  rw [hholds _ (chunks_head cref t)]
  have hlen8 : ¬ (t.data cref).length < 8 := by
    simp only [T.data, List.length_append, le64_length]; omega
  have hspan : fromLe64 (t.data cref) = t.size := fromLe64_data t.size _ hsz
  have hpl : (t.data cref).drop 8 = t.payload cref := by
    simp only [T.data]; rw [List.drop_left' (le64_length _)]
  simp only [hlen8, ↓reduceIte, hspan, hpl]

/-- the premises shared by the reader theorems: a well-formed tree of height ≤ `h`, stored under
    references of `R` bytes, with the reader's branching derivation `C / R = B` -/
structure Stored (h : Nat) (t : T) : Prop where
  refLen : ∀ s p, (cref s p).length = R
  rpos : 0 < R
  branching : C / R = B
  b2 : 2 ≤ B
  c1 : 1 ≤ C
  wf : WF C B h t
  small : t.size < 2 ^ 64
  holds : Holds cref get t

/-- the joiner opened on `t`, positioned at `off` -/
def jOf (t : T) (off : Nat) : J := { rootData := t.payload cref, span := t.size, off := off, refLength := R }

theorem readAt_spec (h : Nat) (t : T) (S : Stored cref get C B R h t) (fuel : Nat) (hf : h + 1 ≤ fuel)
    (o len : Nat) (mem : Bytes) (off : Nat) (hcap : len ≤ mem.length) :
    (jOf cref R t o).readAt get C fuel len mem off =
      if off ≥ t.size then { n := 0, err := some .eof, mem := mem }
      else { n := min len (t.size - off), err := none,
             mem := splice mem 0 ((t.flat.drop off).take (min len (t.size - off))) } := by
  unfold J.readAt jOf
  by_cases hoff : off ≥ t.size
  · simp [hoff]
  · simp only [hoff, ↓reduceIte]
    have := readAtOffset_spec cref get C B R S.refLen S.rpos S.branching S.b2 S.c1 h t S.wf S.small S.holds
      fuel hf 0 off 0 (min len (t.size - off)) { mem := mem, read := 0 } (Nat.zero_le _) (by omega) (by simp only []; omega)
    simp only [Nat.sub_zero, Nat.zero_add] at this
    rw [this]

end Reader

end Aurora.Joiner
