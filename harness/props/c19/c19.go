// Package c19: correspondence + oracle for pkg/shed (property C19).
//
// One shed.DB on the on-disk leveldb driver with three indexes (identity key codec on
// Item.Address, identity value codec on Item.Data), a uint64 field, a string field and a
// uint64 vector.  One pending batch at a time (created lazily, dropped by bcommit/bdrop/reopen).
// The model-free oracle keeps one plain Go map per index (sorted on demand), plain variables for
// the fields, and a list of pending batch writes.
package c19

import (
	"bytes"
	"errors"
	"fmt"
	"os"
	"sort"
	"strconv"
	"strings"

	"github.com/gauss-project/aurorafs/pkg/shed"
	"github.com/gauss-project/aurorafs/pkg/shed/driver"
	sldb "github.com/gauss-project/aurorafs/pkg/shed/leveldb"

	"verifharness/core"
)

type prop struct{}

func init() { core.Register(prop{}) }

func (prop) ID() string { return "C19" }
func (prop) Rule() string {
	return "cases: 8-60 ops on 3 indexes over user keys of length 0-4 from {a,b,0x00,0xff} (pool of 3-9 keys per case shared by all indexes, so the same key lives in several indexes): " +
		"put/get/has/hasm/fill/del, batch ops (bput/bdel/buput/buinc/budec/bsput/bvput/bvinc/bvdec, bcommit, bdrop) interleaved with reads, " +
		"iter <idx> <prefix> <start|~> <skip> <rev> all|stop|err <n> over the full options cross product (prefix empty / proper prefix / 0xff-ending; start absent, present in the index, missing from the index, outside the prefix), " +
		"first/last <prefix>, count, countfrom, uint64 field (put/get/inc/dec incl. 0 and 2^64-1), string field, uint64 vector, reopen. " +
		"Fixed regression cases first (fix-...). Non-trivial: >=2 indexes written, >=1 committed batch or reopen, >=1 iter with options; distinct by op-list hash."
}

var alphabet = []byte{'a', 'b', 0x00, 0xff}

func hexList(ks [][]byte) string {
	var s []string
	for _, k := range ks {
		s = append(s, core.Hex(k))
	}
	return strings.Join(s, ",")
}

func (prop) Gen(r *core.Rand, tier string) []core.Case {
	n := 160
	if tier == "thorough" {
		n = 1500
	}
	cs := []core.Case{
		{ID: "fix-rev-absent-start", NT: true, Ops: []string{
			"put 0 61 01", "put 0 63 03", "put 1 62 02", "iter 0 - 62 0 1 all 0", "iter 0 - 64 0 1 all 0", "iter 0 - 62 1 1 all 0", "iter 0 - 63 1 1 all 0",
			"put 2 61 05", "iter 2 - 62 0 1 all 0", "iter 1 - 61 0 1 all 0", "iter 1 - 63 0 1 all 0"}},
		{ID: "fix-skip-nostart", NT: true, Ops: []string{
			"put 0 - 01", "put 0 61 02", "put 1 61 03", "iter 0 - ~ 1 0 all 0", "iter 1 61 ~ 1 0 all 0", "iter 1 61 ~ 1 1 all 0", "iter 0 - ~ 1 1 all 0", "iter 0 - - 1 0 all 0"}},
		{ID: "fix-last-other-index", NT: true, Ops: []string{
			"put 0 61 01", "put 0 62 02", "last 0 -", "put 1 61 03", "last 0 -", "last 1 -", "put 2 - 04", "last 1 -", "last 0 61", "last 2 -", "first 1 -"}},
		{ID: "fix-last-carry", NT: true, Ops: []string{
			"put 0 61ff00 01", "put 0 62 02", "last 0 61ff", "last 0 61", "put 0 ffff 03", "last 0 ff", "last 0 ffff", "last 0 -", "put 1 ff 04", "last 0 ff", "last 1 ff"}},
		{ID: "fix-batch-atomic", NT: true, Ops: []string{
			"put 0 61 01", "bput 0 62 02", "bdel 0 61", "bput 1 61 07", "get 0 62", "get 0 61", "count 0", "buinc", "uget", "bcommit", "get 0 62", "get 0 61", "get 1 61", "uget",
			"bput 2 61 09", "bdrop", "bcommit", "get 2 61"}},
		{ID: "known-start-outside-prefix", NT: true, Ops: []string{
			"put 0 61 01", "put 0 6200 02", "put 0 63 03", "iter 0 6200 - 0 0 all 0", "iter 0 6200 63 0 1 all 0", "iter 0 6200 6200 0 0 all 0", "iter 0 6200 6200 0 1 all 0"}},
		{ID: "fix-fields-reopen", NT: true, Ops: []string{
			"uput 18446744073709551615", "uinc", "udec", "udec", "sput 6869", "vput 3 9", "vinc 3", "vdec 4", "put 1 61 01", "reopen", "uget", "sget", "vget 3", "vget 4", "vget 5", "get 1 61", "count 1"}},
	}
	for i := 0; i < n; i++ {
		c := core.Case{ID: fmt.Sprintf("g%d", i)}
		np := r.Range(3, 9)
		pool := make([][]byte, 0, np)
		for len(pool) < np {
			var k []byte
			if len(pool) > 0 && r.Chance(60) {
				b := pool[r.Intn(len(pool))]
				k = append([]byte(nil), b...)
				if r.Bool() && len(k) > 0 {
					k = k[:r.Intn(len(k))]
				}
				for len(k) < 4 && r.Chance(60) {
					k = append(k, alphabet[r.Intn(len(alphabet))])
				}
			} else {
				l := r.Range(0, 3)
				for j := 0; j < l; j++ {
					k = append(k, alphabet[r.Intn(len(alphabet))])
				}
			}
			pool = append(pool, k)
		}
		key := func() []byte { return pool[r.Intn(len(pool))] }
		anyKey := func() []byte { // pool key or a neighbour that is probably absent
			k := key()
			if r.Chance(30) {
				k = append(append([]byte(nil), k...), alphabet[r.Intn(len(alphabet))])
			}
			return k
		}
		idx := func() int {
			if r.Chance(70) {
				return r.Intn(2) // concentrate on two indexes so they interleave
			}
			return r.Intn(3)
		}
		val := func() []byte { return r.Bytes(r.Pick([]int{0, 1, 1, 2, 8})) }
		u64 := func() uint64 {
			switch r.Intn(5) {
			case 0:
				return 0
			case 1:
				return ^uint64(0)
			case 2:
				return ^uint64(0) - 1
			default:
				return uint64(r.Intn(1000))
			}
		}
		written := map[int]bool{}
		commits, iters := 0, 0
		nops := r.Range(8, 60)
		for k := 0; k < nops; k++ {
			switch x := r.Intn(40); {
			case x < 9:
				ix := idx()
				written[ix] = true
				c.Ops = append(c.Ops, fmt.Sprintf("put %d %s %s", ix, core.Hex(key()), core.Hex(val())))
			case x < 11:
				c.Ops = append(c.Ops, fmt.Sprintf("get %d %s", idx(), core.Hex(anyKey())))
			case x < 12:
				c.Ops = append(c.Ops, fmt.Sprintf("has %d %s", idx(), core.Hex(anyKey())))
			case x < 13:
				var ks [][]byte
				for j := r.Range(1, 4); j > 0; j-- {
					ks = append(ks, anyKey())
				}
				c.Ops = append(c.Ops, fmt.Sprintf("hasm %d %s", idx(), hexList(ks)))
			case x < 14:
				var ks [][]byte
				for j := r.Range(1, 3); j > 0; j-- {
					ks = append(ks, key())
				}
				c.Ops = append(c.Ops, fmt.Sprintf("fill %d %s", idx(), hexList(ks)))
			case x < 16:
				c.Ops = append(c.Ops, fmt.Sprintf("del %d %s", idx(), core.Hex(key())))
			case x < 19:
				ix := idx()
				written[ix] = true
				c.Ops = append(c.Ops, fmt.Sprintf("bput %d %s %s", ix, core.Hex(key()), core.Hex(val())))
			case x < 20:
				c.Ops = append(c.Ops, fmt.Sprintf("bdel %d %s", idx(), core.Hex(key())))
			case x < 22:
				c.Ops = append(c.Ops, "bcommit")
				commits++
			case x < 23:
				switch r.Intn(8) {
				case 0:
					c.Ops = append(c.Ops, "bdrop")
				case 1:
					c.Ops = append(c.Ops, fmt.Sprintf("buput %d", u64()))
				case 2:
					c.Ops = append(c.Ops, "buinc")
				case 3:
					c.Ops = append(c.Ops, "budec")
				case 4:
					c.Ops = append(c.Ops, "bsput "+core.Hex(val()))
				case 5:
					c.Ops = append(c.Ops, fmt.Sprintf("bvput %d %d", r.Intn(3), u64()))
				case 6:
					c.Ops = append(c.Ops, fmt.Sprintf("bvinc %d", r.Intn(3)))
				default:
					c.Ops = append(c.Ops, fmt.Sprintf("bvdec %d", r.Intn(3)))
				}
			case x < 31:
				// iterate: options cross product
				var p []byte
				switch r.Intn(5) {
				case 0, 1: // empty
				case 2:
					p = key()
				default:
					p = key()
					if len(p) > 0 {
						p = p[:r.Intn(len(p)+1)]
					}
				}
				start := "~"
				if r.Chance(60) {
					var s []byte
					switch r.Intn(8) {
					case 0: // probably outside the prefix
						s = anyKey()
					case 1, 2: // inside the prefix, probably absent
						s = append(append([]byte(nil), p...), alphabet[r.Intn(len(alphabet))])
					case 3:
						s = append([]byte(nil), p...)
					default: // a pool key, preferably under the prefix
						s = key()
						for t := 0; t < 4 && !bytes.HasPrefix(s, p); t++ {
							s = key()
						}
					}
					start = core.Hex(s)
				}
				mode := []string{"all", "all", "stop", "err"}[r.Intn(4)]
				c.Ops = append(c.Ops, fmt.Sprintf("iter %d %s %s %s %s %s %d", idx(), core.Hex(p), start, core.B(r.Chance(40)), core.B(r.Bool()), mode, r.Range(0, 4)))
				if start != "~" || len(p) > 0 {
					iters++
				}
			case x < 33:
				p := key()
				if len(p) > 0 && r.Bool() {
					p = p[:r.Intn(len(p)+1)]
				}
				if r.Chance(30) {
					p = nil
				}
				op := "first"
				if r.Chance(60) {
					op = "last"
				}
				c.Ops = append(c.Ops, fmt.Sprintf("%s %d %s", op, idx(), core.Hex(p)))
			case x < 34:
				c.Ops = append(c.Ops, fmt.Sprintf("count %d", idx()))
			case x < 35:
				c.Ops = append(c.Ops, fmt.Sprintf("countfrom %d %s", idx(), core.Hex(anyKey())))
			case x < 38:
				switch r.Intn(10) {
				case 0:
					c.Ops = append(c.Ops, "uget")
				case 1:
					c.Ops = append(c.Ops, fmt.Sprintf("uput %d", u64()))
				case 2:
					c.Ops = append(c.Ops, "uinc")
				case 3:
					c.Ops = append(c.Ops, "udec")
				case 4:
					c.Ops = append(c.Ops, "sget")
				case 5:
					c.Ops = append(c.Ops, "sput "+core.Hex(val()))
				case 6:
					c.Ops = append(c.Ops, fmt.Sprintf("vget %d", r.Intn(3)))
				case 7:
					c.Ops = append(c.Ops, fmt.Sprintf("vput %d %d", r.Intn(3), u64()))
				case 8:
					c.Ops = append(c.Ops, fmt.Sprintf("vinc %d", r.Intn(3)))
				default:
					c.Ops = append(c.Ops, fmt.Sprintf("vdec %d", r.Intn(3)))
				}
			default:
				c.Ops = append(c.Ops, "reopen")
				commits++
			}
		}
		c.NT = len(written) >= 2 && commits > 0 && iters > 0
		cs = append(cs, c)
	}
	return cs
}

// ---- runner

const nIdx = 3

type refWrite struct {
	kind string // "put","del","u","s","v"
	idx  int
	key  string
	val  []byte
	n    uint64
	i    uint64
}

type runner struct {
	dir    string
	db     *shed.DB
	idx    [nIdx]shed.Index
	uf     shed.Uint64Field
	sf     shed.StringField
	vf     shed.Uint64Vector
	batch  driver.Batching
	broken bool

	// oracle state
	ref     [nIdx]map[string][]byte
	ru      uint64
	rs      string
	rv      map[uint64]uint64
	pending []refWrite
}

func register() {
	for _, d := range shed.Drivers() {
		if d == "leveldb" {
			return
		}
	}
	shed.Register("leveldb", sldb.Driver{})
}

func (rn *runner) open() error {
	register()
	db, err := shed.NewDB(rn.dir, &shed.Options{Driver: "leveldb"})
	if err != nil {
		return err
	}
	rn.db = db
	funcs := shed.IndexFuncs{
		EncodeKey:   func(f shed.Item) ([]byte, error) { return f.Address, nil },
		DecodeKey:   func(k []byte) (shed.Item, error) { return shed.Item{Address: k}, nil },
		EncodeValue: func(f shed.Item) ([]byte, error) { return f.Data, nil },
		DecodeValue: func(_ shed.Item, v []byte) (shed.Item, error) { return shed.Item{Data: v}, nil },
	}
	for i := 0; i < nIdx; i++ {
		if rn.idx[i], err = db.NewIndex("idx"+strconv.Itoa(i), funcs); err != nil {
			return err
		}
	}
	if rn.uf, err = db.NewUint64Field("u"); err != nil {
		return err
	}
	if rn.sf, err = db.NewStringField("s"); err != nil {
		return err
	}
	if rn.vf, err = db.NewUint64Vector("v"); err != nil {
		return err
	}
	rn.batch = nil
	return nil
}

func (prop) New() core.Runner {
	rn := &runner{rv: map[uint64]uint64{}}
	for i := range rn.ref {
		rn.ref[i] = map[string][]byte{}
	}
	dir, err := os.MkdirTemp(scratchBase(), "vh-c19-")
	if err != nil {
		rn.broken = true
		return rn
	}
	rn.dir = dir
	if err := rn.open(); err != nil {
		rn.broken = true
	}
	return rn
}

func (rn *runner) Close() {
	if rn.db != nil {
		_ = rn.db.Close()
	}
	if rn.dir != "" {
		_ = os.RemoveAll(rn.dir)
	}
}

func (rn *runner) b() driver.Batching {
	if rn.batch == nil {
		rn.batch = rn.db.NewBatch()
	}
	return rn.batch
}

func parseIdx(s string) (int, bool) {
	i, err := strconv.Atoi(s)
	return i, err == nil && i >= 0 && i < nIdx
}

func parseKeys(s string) ([][]byte, bool) {
	var ks [][]byte
	for _, p := range strings.Split(s, ",") {
		k, err := core.UnHex(p)
		if err != nil {
			return nil, false
		}
		ks = append(ks, k)
	}
	return ks, true
}

func (rn *runner) sorted(i int) []string {
	var ks []string
	for k := range rn.ref[i] {
		ks = append(ks, k)
	}
	sort.Strings(ks)
	return ks
}

func kv(k string, v []byte) string { return core.Hex([]byte(k)) + ":" + core.Hex(v) }

var errCallback = errors.New("c19 callback error")

func errWord(err error) string {
	switch {
	case err == nil:
		return "ok"
	case errors.Is(err, driver.ErrNotFound):
		return "notfound"
	case errors.Is(err, errCallback):
		return "cberr"
	}
	return "err"
}

func (rn *runner) Step(ctx *core.Ctx, op []string) string {
	if rn.broken {
		return "broken"
	}
	if len(op) == 0 {
		return "bad-op"
	}
	u := func(s string) (uint64, bool) { n, err := strconv.ParseUint(s, 10, 64); return n, err == nil }
	switch op[0] {
	case "put", "bput":
		if len(op) != 4 {
			return "bad-op"
		}
		i, ok := parseIdx(op[1])
		k, e1 := core.UnHex(op[2])
		v, e2 := core.UnHex(op[3])
		if !ok || e1 != nil || e2 != nil {
			return "bad-op"
		}
		it := shed.Item{Address: k, Data: v}
		if op[0] == "put" {
			if err := rn.idx[i].Put(it); err != nil {
				ctx.Fail("put-error", "Put: %v", err)
				return "err"
			}
			rn.ref[i][string(k)] = v
			rn.checkIsolation(ctx, i, "put")
		} else {
			if err := rn.idx[i].PutInBatch(rn.b(), it); err != nil {
				ctx.Fail("bput-error", "PutInBatch: %v", err)
				return "err"
			}
			rn.pending = append(rn.pending, refWrite{kind: "put", idx: i, key: string(k), val: v})
			rn.checkIsolation(ctx, -1, "batch-uncommitted")
		}
		return "ok"
	case "del", "bdel":
		if len(op) != 3 {
			return "bad-op"
		}
		i, ok := parseIdx(op[1])
		k, e1 := core.UnHex(op[2])
		if !ok || e1 != nil {
			return "bad-op"
		}
		it := shed.Item{Address: k}
		if op[0] == "del" {
			if err := rn.idx[i].Delete(it); err != nil {
				ctx.Fail("del-error", "Delete: %v", err)
				return "err"
			}
			delete(rn.ref[i], string(k))
			rn.checkIsolation(ctx, i, "del")
		} else {
			if err := rn.idx[i].DeleteInBatch(rn.b(), it); err != nil {
				ctx.Fail("bdel-error", "DeleteInBatch: %v", err)
				return "err"
			}
			rn.pending = append(rn.pending, refWrite{kind: "del", idx: i, key: string(k)})
			rn.checkIsolation(ctx, -1, "batch-uncommitted")
		}
		return "ok"
	case "get":
		if len(op) != 3 {
			return "bad-op"
		}
		i, ok := parseIdx(op[1])
		k, e1 := core.UnHex(op[2])
		if !ok || e1 != nil {
			return "bad-op"
		}
		out, err := rn.idx[i].Get(shed.Item{Address: k})
		want, have := rn.ref[i][string(k)]
		if err != nil {
			if have || !errors.Is(err, driver.ErrNotFound) {
				ctx.Fail("get", "Get(%d,%x): %v, reference has=%v", i, k, err, have)
			}
			return errWord(err)
		}
		if !have || !bytes.Equal(out.Data, want) || !bytes.Equal(out.Address, k) {
			ctx.Fail("get", "Get(%d,%x) = %x, reference %x (has=%v)", i, k, out.Data, want, have)
		}
		return core.Hex(out.Data)
	case "has":
		if len(op) != 3 {
			return "bad-op"
		}
		i, ok := parseIdx(op[1])
		k, e1 := core.UnHex(op[2])
		if !ok || e1 != nil {
			return "bad-op"
		}
		yes, err := rn.idx[i].Has(shed.Item{Address: k})
		if err != nil {
			ctx.Fail("has", "Has: %v", err)
			return "err"
		}
		if _, have := rn.ref[i][string(k)]; have != yes {
			ctx.Fail("has", "Has(%d,%x) = %v, reference %v", i, k, yes, have)
		}
		return core.B(yes)
	case "hasm", "fill":
		if len(op) != 3 {
			return "bad-op"
		}
		i, ok := parseIdx(op[1])
		ks, ok2 := parseKeys(op[2])
		if !ok || !ok2 {
			return "bad-op"
		}
		items := make([]shed.Item, len(ks))
		for j, k := range ks {
			items[j] = shed.Item{Address: k}
			// Fill must return what the index stores, whatever value fields the caller's item carries: hand it a
			// stale value (only where the stored value is non-empty or absent — Item.Merge by design lets the caller's
			// field through when the stored field is the zero value)
			if v, have := rn.ref[i][string(k)]; op[0] == "fill" && (!have || len(v) > 0) {
				items[j].Data = []byte{0xee, 0xee}
			}
		}
		if op[0] == "hasm" {
			yes, err := rn.idx[i].HasMulti(items...)
			if err != nil || len(yes) != len(ks) {
				ctx.Fail("hasm", "HasMulti: %v", err)
				return "err"
			}
			s := ""
			for j, k := range ks {
				if _, have := rn.ref[i][string(k)]; have != yes[j] {
					ctx.Fail("hasm", "HasMulti(%d)[%x] = %v, reference %v", i, k, yes[j], have)
				}
				s += core.B(yes[j])
			}
			return s
		}
		err := rn.idx[i].Fill(items)
		allHave := true
		for _, k := range ks {
			if _, have := rn.ref[i][string(k)]; !have {
				allHave = false
			}
		}
		if err != nil {
			if allHave || !errors.Is(err, driver.ErrNotFound) {
				ctx.Fail("fill", "Fill(%d): %v although every key is present=%v", i, err, allHave)
			}
			return errWord(err)
		}
		var s []string
		for j, k := range ks {
			want, have := rn.ref[i][string(k)]
			if !have || !bytes.Equal(items[j].Data, want) {
				ctx.Fail("fill", "Fill(%d)[%x] = %x, reference %x (has=%v)", i, k, items[j].Data, want, have)
			}
			s = append(s, core.Hex(items[j].Data))
		}
		return strings.Join(s, ",")
	case "bcommit":
		if len(op) != 1 {
			return "bad-op"
		}
		err := rn.b().Commit()
		rn.batch = nil
		if err != nil {
			ctx.Fail("bcommit-error", "Commit: %v", err)
			return "err"
		}
		for _, w := range rn.pending {
			switch w.kind {
			case "put":
				rn.ref[w.idx][w.key] = w.val
			case "del":
				delete(rn.ref[w.idx], w.key)
			case "u":
				rn.ru = w.n
			case "s":
				rn.rs = string(w.val)
			case "v":
				rn.rv[w.i] = w.n
			}
		}
		rn.pending = nil
		rn.checkIsolation(ctx, -1, "batch-commit")
		return "ok"
	case "bdrop":
		if len(op) != 1 {
			return "bad-op"
		}
		rn.batch = nil
		rn.pending = nil
		return "ok"
	case "iter":
		return rn.iter(ctx, op)
	case "first", "last":
		if len(op) != 3 {
			return "bad-op"
		}
		i, ok := parseIdx(op[1])
		p, e1 := core.UnHex(op[2])
		if !ok || e1 != nil {
			return "bad-op"
		}
		var arg []byte
		if len(p) > 0 {
			arg = p
		}
		var it shed.Item
		var err error
		if op[0] == "first" {
			it, err = rn.idx[i].First(arg)
		} else {
			it, err = rn.idx[i].Last(arg)
		}
		want := ""
		for _, k := range rn.sorted(i) {
			if strings.HasPrefix(k, string(p)) {
				want = kv(k, rn.ref[i][k])
				if op[0] == "first" {
					break
				}
			}
		}
		got := ""
		if err == nil {
			got = kv(string(it.Address), it.Data)
		} else if !errors.Is(err, driver.ErrNotFound) {
			ctx.Fail(op[0]+"-error", "%s(%d,%x): %v", op[0], i, p, err)
			return "err"
		}
		if got != want {
			clause := op[0]
			if op[0] == "last" {
				switch {
				case len(p) == 0:
					clause = "last-empty-prefix"
				case p[len(p)-1] == 0xff:
					clause = "last-ff-prefix"
				}
			}
			ctx.Fail(clause, "%s(%d,%x) = %q, reference sorted map says %q", op[0], i, p, got, want)
		}
		if got == "" {
			return "notfound"
		}
		return got
	case "count", "countfrom":
		i, ok := 0, false
		var from []byte
		if op[0] == "count" && len(op) == 2 {
			i, ok = parseIdx(op[1])
		} else if op[0] == "countfrom" && len(op) == 3 {
			i, ok = parseIdx(op[1])
			var e error
			if from, e = core.UnHex(op[2]); e != nil {
				ok = false
			}
		}
		if !ok {
			return "bad-op"
		}
		var n int
		var err error
		want := 0
		if op[0] == "count" {
			n, err = rn.idx[i].Count()
			want = len(rn.ref[i])
		} else {
			n, err = rn.idx[i].CountFrom(shed.Item{Address: from})
			for k := range rn.ref[i] {
				if k >= string(from) {
					want++
				}
			}
		}
		if err != nil {
			ctx.Fail(op[0]+"-error", "%v", err)
			return "err"
		}
		if n != want {
			ctx.Fail(op[0], "%s(%d,%x) = %d, reference %d", op[0], i, from, n, want)
		}
		return strconv.Itoa(n)
	case "uget", "uinc", "udec", "buinc", "budec":
		if len(op) != 1 {
			return "bad-op"
		}
		var n uint64
		var err error
		want := rn.ru
		switch op[0] {
		case "uget":
			n, err = rn.uf.Get()
		case "uinc":
			n, err = rn.uf.Inc()
			want++
			rn.ru = want
		case "udec":
			n, err = rn.uf.Dec()
			if want > 0 {
				want--
			}
			rn.ru = want
		case "buinc":
			n, err = rn.uf.IncInBatch(rn.b())
			want++
			rn.pending = append(rn.pending, refWrite{kind: "u", n: want})
		case "budec":
			n, err = rn.uf.DecInBatch(rn.b())
			if want > 0 {
				want--
			}
			rn.pending = append(rn.pending, refWrite{kind: "u", n: want})
		}
		if err != nil {
			ctx.Fail("field-error", "%s: %v", op[0], err)
			return "err"
		}
		if n != want {
			ctx.Fail("field-u64", "%s = %d, last written value implies %d", op[0], n, want)
		}
		return strconv.FormatUint(n, 10)
	case "uput", "buput":
		if len(op) != 2 {
			return "bad-op"
		}
		n, ok := u(op[1])
		if !ok {
			return "bad-op"
		}
		var err error
		if op[0] == "uput" {
			err = rn.uf.Put(n)
			rn.ru = n
		} else {
			err = rn.uf.PutInBatch(rn.b(), n)
			rn.pending = append(rn.pending, refWrite{kind: "u", n: n})
		}
		if err != nil {
			ctx.Fail("field-error", "%s: %v", op[0], err)
			return "err"
		}
		return "ok"
	case "sget":
		if len(op) != 1 {
			return "bad-op"
		}
		s, err := rn.sf.Get()
		if err != nil {
			ctx.Fail("field-error", "sget: %v", err)
			return "err"
		}
		if s != rn.rs {
			ctx.Fail("field-string", "StringField.Get = %q, last written %q", s, rn.rs)
		}
		return core.Hex([]byte(s))
	case "sput", "bsput":
		if len(op) != 2 {
			return "bad-op"
		}
		v, e := core.UnHex(op[1])
		if e != nil {
			return "bad-op"
		}
		var err error
		if op[0] == "sput" {
			err = rn.sf.Put(string(v))
			rn.rs = string(v)
		} else {
			err = rn.sf.PutInBatch(rn.b(), string(v))
			rn.pending = append(rn.pending, refWrite{kind: "s", val: v})
		}
		if err != nil {
			ctx.Fail("field-error", "%s: %v", op[0], err)
			return "err"
		}
		return "ok"
	case "vget", "vinc", "vdec", "bvinc", "bvdec":
		if len(op) != 2 {
			return "bad-op"
		}
		i, ok := u(op[1])
		if !ok {
			return "bad-op"
		}
		var n uint64
		var err error
		want := rn.rv[i]
		switch op[0] {
		case "vget":
			n, err = rn.vf.Get(i)
		case "vinc":
			n, err = rn.vf.Inc(i)
			want++
			rn.rv[i] = want
		case "vdec":
			n, err = rn.vf.Dec(i)
			if want > 0 {
				want--
			}
			rn.rv[i] = want
		case "bvinc":
			n, err = rn.vf.IncInBatch(rn.b(), i)
			want++
			rn.pending = append(rn.pending, refWrite{kind: "v", i: i, n: want})
		case "bvdec":
			n, err = rn.vf.DecInBatch(rn.b(), i)
			if want > 0 {
				want--
			}
			rn.pending = append(rn.pending, refWrite{kind: "v", i: i, n: want})
		}
		if err != nil {
			ctx.Fail("field-error", "%s: %v", op[0], err)
			return "err"
		}
		if n != want {
			ctx.Fail("vector", "%s %d = %d, last written value implies %d", op[0], i, n, want)
		}
		return strconv.FormatUint(n, 10)
	case "vput", "bvput":
		if len(op) != 3 {
			return "bad-op"
		}
		i, ok := u(op[1])
		n, ok2 := u(op[2])
		if !ok || !ok2 {
			return "bad-op"
		}
		var err error
		if op[0] == "vput" {
			err = rn.vf.Put(i, n)
			rn.rv[i] = n
		} else {
			err = rn.vf.PutInBatch(rn.b(), i, n)
			rn.pending = append(rn.pending, refWrite{kind: "v", i: i, n: n})
		}
		if err != nil {
			ctx.Fail("field-error", "%s: %v", op[0], err)
			return "err"
		}
		return "ok"
	case "reopen":
		if len(op) != 1 {
			return "bad-op"
		}
		if err := rn.db.Close(); err != nil {
			ctx.Fail("close-error", "Close: %v", err)
		}
		rn.db = nil
		rn.pending = nil
		if err := rn.open(); err != nil {
			ctx.Fail("reopen-error", "reopen: %v", err)
			rn.broken = true
			return "err"
		}
		rn.checkIsolation(ctx, -1, "reopen")
		return "ok"
	}
	return "bad-op"
}

// checkIsolation compares every index (Count + full forward iteration) and the fields with the
// reference after a write; `changed` is the index the write addressed (-1: none in particular).
func (rn *runner) checkIsolation(ctx *core.Ctx, changed int, what string) {
	for i := 0; i < nIdx; i++ {
		var got []string
		err := rn.idx[i].Iterate(func(it shed.Item) (bool, error) {
			got = append(got, kv(string(it.Address), it.Data))
			return false, nil
		}, nil)
		var want []string
		for _, k := range rn.sorted(i) {
			want = append(want, kv(k, rn.ref[i][k]))
		}
		if err != nil || strings.Join(got, ",") != strings.Join(want, ",") {
			clause := "isolation-" + what
			if i == changed {
				clause = "content-" + what
			}
			ctx.Fail(clause, "after %s (index %d): index %d holds %v (err %v), reference %v", what, changed, i, got, err, want)
		}
	}
	if n, err := rn.uf.Get(); err != nil || n != rn.ru {
		ctx.Fail("field-u64-"+what, "uint64 field = %d (err %v), last written %d", n, err, rn.ru)
	}
	if s, err := rn.sf.Get(); err != nil || s != rn.rs {
		ctx.Fail("field-string-"+what, "string field = %q (err %v), last written %q", s, err, rn.rs)
	}
	for i, w := range rn.rv {
		if n, err := rn.vf.Get(i); err != nil || n != w {
			ctx.Fail("vector-"+what, "vector[%d] = %d (err %v), last written %d", i, n, err, w)
		}
	}
}

func (rn *runner) iter(ctx *core.Ctx, op []string) string {
	if len(op) != 8 {
		return "bad-op"
	}
	i, ok := parseIdx(op[1])
	p, e1 := core.UnHex(op[2])
	var start []byte
	hasStart := op[3] != "~"
	var e2 error
	if hasStart {
		start, e2 = core.UnHex(op[3])
	}
	n, e3 := strconv.Atoi(op[7])
	mode := op[6]
	if !ok || e1 != nil || e2 != nil || e3 != nil || n < 0 || (op[4] != "0" && op[4] != "1") || (op[5] != "0" && op[5] != "1") ||
		(mode != "all" && mode != "stop" && mode != "err") {
		return "bad-op"
	}
	skip, rev := op[4] == "1", op[5] == "1"
	opts := &shed.IterateOptions{SkipStartFromItem: skip, Reverse: rev}
	if len(p) > 0 {
		opts.Prefix = p
	}
	if hasStart {
		opts.StartFrom = &shed.Item{Address: start}
	}
	var seen []string
	cnt := 0
	err := rn.idx[i].Iterate(func(it shed.Item) (bool, error) {
		cnt++
		seen = append(seen, kv(string(it.Address), it.Data))
		if mode != "all" && cnt == n {
			if mode == "stop" {
				return true, nil
			}
			return false, errCallback
		}
		return false, nil
	}, opts)
	status := errWord(err)
	// reference sorted map
	var keys []string
	for _, k := range rn.sorted(i) {
		if !strings.HasPrefix(k, string(p)) {
			continue
		}
		if hasStart {
			if !rev && k < string(start) || rev && k > string(start) {
				continue
			}
			if skip && k == string(start) {
				continue
			}
		}
		keys = append(keys, k)
	}
	if rev {
		for a, b := 0, len(keys)-1; a < b; a, b = a+1, b-1 {
			keys[a], keys[b] = keys[b], keys[a]
		}
	}
	wantErr := false
	if mode != "all" && n >= 1 && n <= len(keys) {
		keys = keys[:n]
		wantErr = mode == "err"
	}
	var want []string
	for _, k := range keys {
		want = append(want, kv(k, rn.ref[i][k]))
	}
	_, startPresent := rn.ref[i][string(start)]
	if strings.Join(seen, ",") != strings.Join(want, ",") {
		clause := "iter-fwd"
		switch {
		case hasStart && !bytes.HasPrefix(start, p):
			clause = "iter-start-outside-prefix"
		case rev && hasStart && !startPresent:
			clause = "iter-rev-absent-start"
		case skip && !hasStart:
			clause = "iter-skip-nostart"
		case rev:
			clause = "iter-rev"
		}
		ctx.Fail(clause, "Iterate(idx %d, prefix %x, start %s, skip %v, rev %v, %s@%d) visited %v, reference sorted map gives %v", i, p, op[3], skip, rev, mode, n, seen, want)
	} else {
		if wantErr && status != "cberr" {
			ctx.Fail("iter-error-lost", "callback error at item %d not returned: %v", n, err)
		}
		if !wantErr && status != "ok" {
			ctx.Fail("iter-error-spurious", "Iterate returned %v", err)
		}
	}
	vis := strings.Join(seen, ",")
	if vis == "" {
		vis = "-"
	}
	return vis + " " + status
}

// scratchBase prefers a memory-backed directory: the leveldb driver fsyncs every Put/Delete,
// which makes an on-disk scratch directory the bottleneck of the run ("" = os.TempDir()).
func scratchBase() string {
	if st, err := os.Stat("/dev/shm"); err == nil && st.IsDir() {
		if f, err := os.CreateTemp("/dev/shm", "vh-probe-"); err == nil {
			f.Close()
			os.Remove(f.Name())
			return "/dev/shm"
		}
	}
	return ""
}
