import Aurora.Lemmas.Upload
import Aurora.Lemmas.SpecTree
import Aurora.Generated.Consts
/-!
# C02 — Content reference is the Aurora tree hash of the bytes alone

Models: `Model/Feeder.lean` (`chunkFeeder.Write/Sum`), `Model/HashTrie.lean` (`hashTrieWriter` at
the level of per-level reference lists + the plain pipeline `upload`), specification
`Tree.Spec.root` in `Model/Tree.lean` (data chunks → references → groups of `B`, a lone reference
carried up).  All statements hold for every chunk reference function `cref` (the repository's is
the BMT hash of C03/C04; it is never unfolded), every chunk size `C > 0` and branching `B ≥ 2`
(repository: `C = 262144`, `B = 8192`, see `C02_consts_match`), every content and every split of
the content into `Write` calls.  The only premise is the writer's 8-level limit, stated
explicitly: fewer than `B^7` data chunks (the `B^7`-th chunk sets `full`, later writes fail).
-/
namespace Aurora.HashTrie
open Aurora.Bmt (Bytes)
open Aurora.Tree

variable (cref : Bytes → Bytes → Bytes)

/-- **Segmentation independence of the feeder**: whatever the split into `Write` calls, the chunks
    handed to the next writer by the writes and by `Sum` are the `C`-byte pieces of the
    concatenated bytes — and ONE empty chunk for the empty file. -/
theorem C02_feeder_chunks_bytes_only (C : Nat) (hC : 0 < C) (segs : List Bytes) :
    (Aurora.Feeder.runWrites C segs {} []).2 ++ (Aurora.Feeder.sum (Aurora.Feeder.runWrites C segs {} []).1).2
      = leafData C segs.flatten :=
  Aurora.Feeder.feeder_chunks C hC segs

/-- every `Write` reports all its bytes as written (the `io.Writer` count) -/
theorem C02_write_count (C : Nat) (hC : 0 < C) (f : Aurora.Feeder.State) (out : List Bytes) (data b : Bytes)
    (h : Aurora.Feeder.Inv C f out data) : (Aurora.Feeder.write C f b).2.2 = b.length :=
  (Aurora.Feeder.write_inv C hC f out data b h).2

/-- **The reference returned by the streaming pipeline (feeder + hash-trie writer, any
    segmentation) is the format's tree hash** (`Spec.root`: data chunks, groups of `B` references
    with the subtree length as span, a lone reference carried up unchanged), below the writer's
    8-level limit. -/
theorem C02_pipeline_ref_eq_spec (C B : Nat) (hC : 0 < C) (hB : 2 ≤ B) (segs : List Bytes)
    (hlim : (leafData C segs.flatten).length < B ^ 7) :
    (upload cref C B segs).2 = Spec.root cref C B segs.flatten :=
  upload_eq_spec cref C B hC hB segs hlim

/-- the same with the limit stated in bytes -/
theorem C02_pipeline_ref_eq_spec_bytes (C B : Nat) (hC : 0 < C) (hB : 2 ≤ B) (segs : List Bytes)
    (hlim : segs.flatten.length / C + 1 < B ^ 7) :
    (upload cref C B segs).2 = Spec.root cref C B segs.flatten :=
  upload_eq_spec cref C B hC hB segs (Nat.lt_of_le_of_lt (leafData_length_le C hC _) hlim)

/-- **The reference depends on the bytes alone**: two segmentations of the same bytes give the
    same reference (and it is `Spec.root` of the bytes, a function of the bytes only). -/
theorem C02_spec_depends_on_bytes_only (C B : Nat) (hC : 0 < C) (hB : 2 ≤ B) (segs₁ segs₂ : List Bytes)
    (hsame : segs₁.flatten = segs₂.flatten) (hlim : (leafData C segs₁.flatten).length < B ^ 7) :
    (upload cref C B segs₁).2 = (upload cref C B segs₂).2 := by
  rw [upload_eq_spec cref C B hC hB segs₁ hlim, upload_eq_spec cref C B hC hB segs₂ (hsame ▸ hlim), hsame]

/-- the pipeline always produces a reference (no error) below the limit -/
theorem C02_pipeline_succeeds (C B : Nat) (hC : 0 < C) (hB : 2 ≤ B) (segs : List Bytes)
    (hlim : (leafData C segs.flatten).length < B ^ 7) :
    ∃ r, (upload cref C B segs).2 = some r := by
  rw [upload_eq_spec cref C B hC hB segs hlim]
  unfold Spec.root
  have hne : (leafData C segs.flatten).map (leafEntry cref) ≠ [] := by
    simpa using leafData_ne_nil C segs.flatten
  obtain ⟨r, hr⟩ := rootG_enough (wrapE cref) B hB _ _ (Nat.le_refl _) hne
  exact ⟨r.ref, by simp only [hr, Option.map_some]⟩

/-- **The tree behind the specification is well formed** (`levelUp_tree_is_WF`): the bottom-up
    construction run on trees (`specTree`) yields a tree satisfying the recursive shape invariant
    `WF` that the reader (C01/C07) and the traversal (C09) rely on, its leaves concatenate to the
    data, and `Spec.root` is exactly its reference. -/
theorem C02_levelUp_tree_is_WF (C B : Nat) (hC : 0 < C) (hB : 2 ≤ B) (data : Bytes) :
    ∃ t, specTree C B data = some t ∧ (∃ h, WF C B h t) ∧ t.flat = data ∧
      Spec.root cref C B data = some (t.ref cref) := by
  obtain ⟨t, ht, hw, hf⟩ := specTree_WF C B hC hB data
  exact ⟨t, ht, hw, hf, by rw [specRoot_eq_tree cref C B (by omega), ht]; rfl⟩

/-- **Generated constants = model instance**: the numbers the drivers run the models with are the
    ones extracted from `/repo/pkg/boson` on this run, `ChunkSize = SectionSize * Branches`
    (256 KiB), the BMT capacity equals the chunk size, and the reader's derivation of the
    branching factor (`ChunkSize / refLength`) gives `Branches` / `EncryptedBranches`. -/
theorem C02_consts_match :
    chunkBytes = Aurora.Generated.chunkSize ∧ branching = Aurora.Generated.branches ∧
    encBranching = Aurora.Generated.encryptedBranches ∧ hashBytes = Aurora.Generated.hashSize ∧
    spanBytes = Aurora.Generated.spanSize ∧
    Aurora.Generated.chunkSize = 32 * 8192 ∧ Aurora.Generated.branches = 8192 ∧ Aurora.Generated.spanSize = 8 ∧
    Aurora.Generated.chunkSize = Aurora.Generated.sectionSize * Aurora.Generated.branches ∧
    Aurora.Bmt.maxSize 32 12 = Aurora.Generated.chunkSize ∧
    Aurora.Generated.chunkSize / Aurora.Generated.hashSize = Aurora.Generated.branches ∧
    Aurora.Generated.chunkSize / (2 * Aurora.Generated.hashSize) = Aurora.Generated.encryptedBranches ∧
    Aurora.Generated.chunkWithSpanSize = Aurora.Generated.chunkSize + Aurora.Generated.spanSize := by
  decide

/-! Non-vacuity: the premises are satisfiable (and the repository's instance satisfies them for
    every content below `C * (B^7 - 1)` bytes ≈ 6.5·10^32 bytes). -/
example : (0 : Nat) < chunkBytes ∧ 2 ≤ branching := by decide
example (data : Bytes) (h : data.length < 2 ^ 64) :
    ([data] : List Bytes).flatten.length / chunkBytes + 1 < branching ^ 7 := by
  simp only [List.flatten_cons, List.flatten_nil, List.append_nil, chunkBytes, branching]
  have : data.length / 262144 < 2 ^ 64 := Nat.lt_of_le_of_lt (Nat.div_le_self _ _) h
  have h2 : (2 : Nat) ^ 64 + 1 < 8192 ^ 7 := by decide
  omega

end Aurora.HashTrie
