import Aurora.Model.PSlice
namespace Aurora.PSlice
theorem C21_stub : True := trivial
end Aurora.PSlice
