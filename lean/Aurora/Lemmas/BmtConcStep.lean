import Aurora.Lemmas.BmtConcInv
/-! Preservation of `Inv` by every step of `Model/BmtConc.lean`. -/
namespace Aurora.BmtConc
open Aurora.Bmt

theorem arr_frame {cfg : Cfg} {s s' : St} {ph ph' : Nat → Nat → Ph} (c k : Nat)
    (h1 : k ≤ path cfg.pos c → (ph' c k = .arrived ↔ ph c k = .arrived))
    (h2 : path cfg.pos c < k → (c < fl cfg (s'.pc cfg.pos) ↔ c < fl cfg (s.pc cfg.pos))) :
    arr cfg s' ph' c k = arr cfg s ph c k := by
  unfold arr
  split
  · next h => simp only [decide_eq_decide]; exact h1 h
  · next h => simp only [decide_eq_decide]; exact h2 (by omega)

theorem TOK_frame {cfg : Cfg} {s s' : St} {ph ph' : Nat → Nat → Ph} {t : Nat} {p : PC}
    (h : TOK cfg s ph t p)
    (hph : ∀ c k, ph c k = .held t → ph' c k = .held t)
    (hl : ∀ c k, p = .wrote c k → k % 2 = 0 → s'.left (c + 1) (k / 2) = s.left (c + 1) (k / 2))
    (hr : ∀ c k, (p = .wrote c k ∧ k % 2 ≠ 0) ∨ (∃ sv, p = .zr c k sv) →
      s'.right (c + 1) (k / 2) = s.right (c + 1) (k / 2)) :
    TOK cfg s' ph' t p := by
  cases p with
  | init => exact hph _ _ h
  | top c k sv =>
    cases sv with
    | none => exact h
    | some v => obtain ⟨a, b, e, f, g⟩ := h; exact ⟨a, b, hph _ _ e, f, g⟩
  | zr c k sv =>
    obtain ⟨a, b, e, f, g, i⟩ := h
    refine ⟨a, b, e, f, ?_, ?_⟩
    · rw [hr c k (.inr ⟨sv, rfl⟩)]; exact g
    · intro v hv; exact ⟨hph _ _ (i v hv).1, (i v hv).2⟩
  | wrote c k =>
    obtain ⟨a, b, e, f, g⟩ := h
    refine ⟨a, b, hph _ _ e, ?_, g⟩
    by_cases hk : k % 2 = 0
    · rw [if_pos hk] at f ⊢; rw [hl c k rfl hk]; exact f
    · rw [if_neg hk] at f ⊢; rw [hr c k (.inl ⟨rfl, hk⟩)]; exact f
  | hash c j => obtain ⟨a, b, e, f, g⟩ := h; exact ⟨a, b, e, hph _ _ f, g⟩
  | done => trivial

/-- nodes other than the touched node `(c0+1, j0)` keep their invariant -/
theorem node_frame {cfg : Cfg} {s s' : St} {ph ph' : Nat → Nat → Ph} (inv : Inv cfg s ph) (c0 j0 : Nat)
    (hst : ∀ c j, ¬(c = c0 + 1 ∧ j = j0) → s'.state c j = s.state c j)
    (hl : ∀ c j, ¬(c = c0 + 1 ∧ j = j0) → s'.left c j = s.left c j)
    (hr : ∀ c j, ¬(c = c0 + 1 ∧ j = j0) → s'.right c j = s.right c j)
    (harr : ∀ c k, c < cfg.d → ¬(c = c0 ∧ k / 2 = j0) → k / 2 ≤ path cfg.pos (c + 1) →
      arr cfg s' ph' c k = arr cfg s ph c k)
    (hpen : ∀ c j, ¬(c = c0 + 1 ∧ j = j0) → (ph' c j = .pending ↔ ph c j = .pending))
    (hnode : c0 < cfg.d → j0 ≤ path cfg.pos (c0 + 1) → NodeAt cfg s' ph' c0 j0)
    (hout : (c0 < cfg.d ∧ j0 ≤ path cfg.pos (c0 + 1)) ∨ s'.state (c0 + 1) j0 = s.state (c0 + 1) j0) :
    (∀ c j, c < cfg.d → j ≤ path cfg.pos (c + 1) → NodeAt cfg s' ph' c j) ∧
    (∀ c j, ¬(1 ≤ c ∧ c ≤ cfg.d ∧ j ≤ path cfg.pos c) → s'.state c j % 2 = 0) := by
  constructor
  · intro c j hc hj
    by_cases hn : c = c0 ∧ j = j0
    · obtain ⟨rfl, rfl⟩ := hn; exact hnode hc hj
    · have hn' : ¬(c + 1 = c0 + 1 ∧ j = j0) := by omega
      have := inv.node c j hc hj
      unfold NodeAt at this ⊢
      rw [hst _ _ hn', hl _ _ hn', hr _ _ hn', harr c (2 * j) hc (by omega) (by omega), harr c (2 * j + 1) hc (by omega) (by omega)]
      unfold NodeOK at this ⊢
      rw [hpen _ _ hn']
      exact this
  · intro c j hcj
    by_cases hn : c = c0 + 1 ∧ j = j0
    · obtain ⟨rfl, rfl⟩ := hn
      rcases hout with h | h
      · exfalso; apply hcj; omega
      · rw [h]; exact inv.out _ _ hcj
    · rw [hst _ _ hn]; exact inv.out _ _ hcj

/-- the ghost phases only move forward: `pending → held t → arrived`, and the holder never changes -/
def Mono (ph ph' : Nat → Nat → Ph) : Prop :=
  ∀ c k, (ph c k = .arrived → ph' c k = .arrived) ∧ (∀ t, ph c k = .held t → ph' c k = .held t ∨ ph' c k = .arrived)

theorem mono_refl (ph : Nat → Nat → Ph) : Mono ph ph := fun _ _ => ⟨id, fun _ h => .inl h⟩

theorem mono_trans {a b c : Nat → Nat → Ph} (h1 : Mono a b) (h2 : Mono b c) : Mono a c := by
  intro x y
  refine ⟨fun h => (h2 x y).1 ((h1 x y).1 h), fun t h => ?_⟩
  rcases (h1 x y).2 t h with h' | h'
  · exact (h2 x y).2 t h'
  · exact .inr ((h2 x y).1 h')

theorem mono_arrive (ph : Nat → Nat → Ph) (c k : Nat) : Mono ph (upd2 ph c k .arrived) := by
  intro x y
  by_cases e : x = c ∧ y = k
  · obtain ⟨rfl, rfl⟩ := e; rw [upd2_same]; exact ⟨fun _ => rfl, fun _ _ => .inr rfl⟩
  · rw [upd2_ne _ _ _ _ _ _ e]; exact ⟨id, fun _ h => .inl h⟩

theorem mono_hold (ph : Nat → Nat → Ph) (c k t : Nat) (h : ph c k = .pending) : Mono ph (upd2 ph c k (.held t)) := by
  intro x y
  by_cases e : x = c ∧ y = k
  · obtain ⟨rfl, rfl⟩ := e; rw [h]
    exact ⟨(fun h => by cases h), (fun _ h => by cases h)⟩
  · rw [upd2_ne _ _ _ _ _ _ e]; exact ⟨id, fun _ h => .inl h⟩

/-- assemble the invariant after a step of thread `t` that touches at most node `(c0+1, j0)` -/
theorem inv_build {cfg : Cfg} {s s' : St} {ph ph' : Nat → Nat → Ph} (inv : Inv cfg s ph)
    (t : Nat) (p' : PC) (c0 j0 : Nat)
    (hpc : s'.pc = upd s.pc t p')
    (hst : ∀ c j, ¬(c = c0 + 1 ∧ j = j0) → s'.state c j = s.state c j)
    (hl : ∀ c j, ¬(c = c0 + 1 ∧ j = j0) → s'.left c j = s.left c j)
    (hr : ∀ c j, ¬(c = c0 + 1 ∧ j = j0) → s'.right c j = s.right c j)
    (harr : ∀ c k, c < cfg.d → ¬(c = c0 ∧ k / 2 = j0) → k / 2 ≤ path cfg.pos (c + 1) →
      arr cfg s' ph' c k = arr cfg s ph c k)
    (hpen : ∀ c j, ¬(c = c0 + 1 ∧ j = j0) → (ph' c j = .pending ↔ ph c j = .pending))
    (hnode : c0 < cfg.d → j0 ≤ path cfg.pos (c0 + 1) → NodeAt cfg s' ph' c0 j0)
    (hout : (c0 < cfg.d ∧ j0 ≤ path cfg.pos (c0 + 1)) ∨ s'.state (c0 + 1) j0 = s.state (c0 + 1) j0)
    (hthis : t ≤ cfg.pos → TOK cfg s' ph' t p')
    (hph : ∀ t', t' ≠ t → ∀ c k, ph c k = .held t' → ph' c k = .held t')
    (hsl : ∀ t', t' ≤ cfg.pos → t' ≠ t → ∀ c k, s.pc t' = .wrote c k → k % 2 = 0 →
      s'.left (c + 1) (k / 2) = s.left (c + 1) (k / 2))
    (hsr : ∀ t', t' ≤ cfg.pos → t' ≠ t → ∀ c k, (s.pc t' = .wrote c k ∧ k % 2 ≠ 0) ∨ (∃ sv, s.pc t' = .zr c k sv) →
      s'.right (c + 1) (k / 2) = s.right (c + 1) (k / 2))
    (hown : ∀ c k t', ph' c k = .held t' → (t' ≠ t ∧ ph c k = .held t') ∨ (t' = t ∧ t ≤ cfg.pos ∧ holdsAt t p' c k))
    (hleaf : ∀ i, i ≤ cfg.pos → ph' 0 i ≠ .pending)
    (hres : s'.result = if ph' cfg.d 0 = .arrived then [val cfg cfg.d 0] else []) :
    Inv cfg s' ph' := by
  obtain ⟨hn, ho⟩ := node_frame inv c0 j0 hst hl hr harr hpen hnode hout
  refine ⟨?_, ?_, hn, ho, hleaf, hres⟩
  · intro t' ht'
    rw [hpc]
    by_cases e : t' = t
    · subst e; rw [upd_same]; exact hthis ht'
    · rw [upd_ne _ _ _ _ e]
      exact TOK_frame (inv.thr t' ht') (hph t' e) (fun c k h1 h2 => hsl t' ht' e c k h1 h2)
        (fun c k h1 => hsr t' ht' e c k h1)
  · intro c k t' h
    rw [hpc]
    rcases hown c k t' h with ⟨e, h'⟩ | ⟨e, h1, h2⟩
    · rw [upd_ne _ _ _ _ e]; exact inv.own c k t' h'
    · subst e; rw [upd_same]; exact ⟨h1, h2⟩

end Aurora.BmtConc
