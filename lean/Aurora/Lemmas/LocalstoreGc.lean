import Aurora.Lemmas.Localstore
/-!
Lemmas about the eviction half of the collection run (`gcEvict`): the shape of its ordered driver
write list (direct `pinIndex.Put`s, then ONE batch of pin/data/access/gc deletes + `gcSize`), used by
C14 (crash prefixes) and C13 (accounting of the run).
-/
namespace Aurora.Localstore

set_option linter.unusedSectionVars false
set_option linter.unusedSimpArgs false
set_option linter.unusedVariables false

/-- a direct `pinIndex.Put` as a driver write -/
def mkPin (p : Addr × Nat) : DW := DW.direct (.pinPut p.1 p.2)

/-- value of the last write to `a` in a list of direct pin writes -/
def lastPin (a : Addr) : List (Addr × Nat) → Option Nat
  | [] => none
  | p :: P => match lastPin a P with
    | some v => some v
    | none => if a = p.1 then some p.2 else none

theorem applyLog_mkPin_fields (P : List (Addr × Nat)) (db : Db) :
    (applyLog db (P.map mkPin)).data = db.data ∧ (applyLog db (P.map mkPin)).access = db.access ∧
    (applyLog db (P.map mkPin)).gc = db.gc ∧ (applyLog db (P.map mkPin)).binIDs = db.binIDs ∧
    (applyLog db (P.map mkPin)).gcSize = db.gcSize ∧ (applyLog db (P.map mkPin)).schema = db.schema := by
  induction P generalizing db with
  | nil => simp
  | cons p P ih =>
    have := ih (applyDW db (mkPin p))
    simpa [mkPin, applyDW, applyW] using this

theorem pin_applyLog_mkPin (P : List (Addr × Nat)) (db : Db) (a : Addr) :
    SMap.get a (applyLog db (P.map mkPin)).pin =
      match lastPin a P with
      | some v => some v
      | none => SMap.get a db.pin := by
  induction P generalizing db with
  | nil => simp [lastPin]
  | cons p P ih =>
    simp only [List.map_cons, applyLog_cons, lastPin]
    rw [ih]
    cases h : lastPin a P with
    | some v => rfl
    | none =>
      simp only [mkPin, applyDW, applyW, SMap.get_put]
      by_cases ha : a = p.1 <;> simp [ha]

theorem lastPin_none_of_not_mem (a : Addr) (P : List (Addr × Nat)) (h : a ∉ P.map (·.1)) :
    lastPin a P = none := by
  induction P with
  | nil => rfl
  | cons p P ih =>
    simp only [List.map_cons, List.mem_cons, not_or] at h
    simp [lastPin, ih h.2, h.1]

/-- with pairwise distinct targets, a prefix of the direct pin writes has either not written `a` yet
or written its final value -/
theorem lastPin_take (a : Addr) (P : List (Addr × Nat)) (hn : (P.map (·.1)).Nodup) (k : Nat) :
    lastPin a (P.take k) = none ∨ lastPin a (P.take k) = lastPin a P := by
  induction P generalizing k with
  | nil => left; simp [lastPin]
  | cons p P ih =>
    cases k with
    | zero => left; simp [lastPin]
    | succ k =>
      simp only [List.map_cons, List.nodup_cons] at hn
      simp only [List.take_succ_cons, lastPin]
      by_cases ha : a = p.1
      · have h1 : lastPin a P = none := lastPin_none_of_not_mem a P (by rw [ha]; exact hn.1)
        have h2 : lastPin a (P.take k) = none :=
          lastPin_none_of_not_mem a _ (by
            rw [ha]; intro hm
            rw [List.map_take] at hm
            exact hn.1 (List.mem_of_mem_take hm))
        right; rw [h1, h2]
      · rcases ih hn.2 k with h | h
        · left; simp [h, ha]
        · right; rw [h]

def Write.isPin : Write → Bool
  | .pinPut _ _ => true
  | .pinDel _ => true
  | _ => false

/-- a batch without `pinPut` and without `pinDel a` leaves the pin entry of `a` alone -/
theorem pin_applyBatch_untouched (B : List Write) (a : Addr)
    (h : ∀ w ∈ B, (∀ x c, w ≠ .pinPut x c) ∧ w ≠ .pinDel a) (D : Db) :
    SMap.get a (applyBatch D B).pin = SMap.get a D.pin := by
  induction B generalizing D with
  | nil => rfl
  | cons w B ih =>
    rw [applyBatch_cons, ih (fun x hx => h x (by simp [hx]))]
    have hw := h w (by simp)
    cases w <;> simp only [applyW] <;> try rfl
    · exact absurd rfl (hw.1 _ _)
    · rename_i x
      have : a ≠ x := fun e => hw.2 (by rw [e])
      simp [SMap.get_erase, this]

/-- relation between the transaction before and after evicting the cids `cids` -/
def EvRel (cids : List Addr) (tx tx' : Tx) : Prop :=
  ∃ (P : List (Addr × Nat)) (B : List Write),
    tx'.log = tx.log ++ P.map mkPin ∧ tx'.batch = tx.batch ++ B ∧
    tx'.db = applyLog tx.db (P.map mkPin) ∧
    (∀ p ∈ P, p.1 ∈ cids) ∧
    (∀ w ∈ B, (∃ x, x ∈ cids ∧ w = .pinDel x) ∨ (∃ x, w = .dataDel x)) ∧
    (cids.Nodup → (P.map (·.1)).Nodup ∧ ∀ p ∈ P, Write.pinDel p.1 ∉ B)

theorem EvRel.refl (tx : Tx) : EvRel [] tx tx :=
  ⟨[], [], by simp, by simp, by simp, by simp, by simp, by simp⟩

theorem EvRel.trans {c1 c2 : List Addr} {a b c : Tx} (h1 : EvRel c1 a b) (h2 : EvRel c2 b c) :
    EvRel (c1 ++ c2) a c := by
  obtain ⟨P1, B1, l1, b1, d1, m1, w1, n1⟩ := h1
  obtain ⟨P2, B2, l2, b2, d2, m2, w2, n2⟩ := h2
  refine ⟨P1 ++ P2, B1 ++ B2, ?_, ?_, ?_, ?_, ?_, ?_⟩
  · rw [l2, l1, List.map_append, List.append_assoc]
  · rw [b2, b1, List.append_assoc]
  · rw [d2, d1, List.map_append, applyLog_append]
  · intro p hp
    rcases List.mem_append.1 hp with h | h
    · exact List.mem_append.2 (Or.inl (m1 p h))
    · exact List.mem_append.2 (Or.inr (m2 p h))
  · intro w hw
    rcases List.mem_append.1 hw with h | h
    · rcases w1 w h with ⟨x, hx, e⟩ | ⟨x, e⟩
      · exact Or.inl ⟨x, List.mem_append.2 (Or.inl hx), e⟩
      · exact Or.inr ⟨x, e⟩
    · rcases w2 w h with ⟨x, hx, e⟩ | ⟨x, e⟩
      · exact Or.inl ⟨x, List.mem_append.2 (Or.inr hx), e⟩
      · exact Or.inr ⟨x, e⟩
  · intro hn
    obtain ⟨hn1, hn2, hd⟩ := List.nodup_append.1 hn
    obtain ⟨p1, q1⟩ := n1 hn1
    obtain ⟨p2, q2⟩ := n2 hn2
    refine ⟨?_, ?_⟩
    · rw [List.map_append]
      refine List.nodup_append.2 ⟨p1, p2, ?_⟩
      intro x hx y hy
      obtain ⟨px, hpx, ex⟩ := List.mem_map.1 hx
      obtain ⟨py, hpy, ey⟩ := List.mem_map.1 hy
      subst ex; subst ey
      exact hd _ (m1 px hpx) _ (m2 py hpy)
    · intro p hp hm
      rcases List.mem_append.1 hp with h | h
      · rcases List.mem_append.1 hm with g | g
        · exact q1 p h g
        · rcases w2 _ g with ⟨x, hx, e⟩ | ⟨x, e⟩
          · injection e with e
            exact hd _ (m1 p h) _ hx e
          · cases e
      · rcases List.mem_append.1 hm with g | g
        · rcases w1 _ g with ⟨x, hx, e⟩ | ⟨x, e⟩
          · injection e with e
            exact hd _ hx _ (m2 p h) e.symm
          · cases e
        · exact q2 p h g

theorem EvRel.cons {cid : Addr} {rest : List Addr} {a b c : Tx} (h1 : EvRel [cid] a b) (h2 : EvRel rest b c) :
    EvRel (cid :: rest) a c := h1.trans h2

/-- one direct `pinIndex.Put` -/
theorem EvRel.direct (tx : Tx) (cid v : Nat) : EvRel [cid] tx (tx.direct (.pinPut cid v)) :=
  ⟨[(cid, v)], [], rfl, by simp [Tx.direct], rfl, by simp, by simp, by simp⟩

/-- deletes of `cid` put into the batch -/
theorem EvRel.batch (tx tx' : Tx) (cid : Addr) (B : List Write) (hl : tx'.log = tx.log) (hd : tx'.db = tx.db)
    (hb : tx'.batch = tx.batch ++ B) (hB : ∀ w ∈ B, w = .pinDel cid ∨ w = .dataDel cid) : EvRel [cid] tx tx' := by
  refine ⟨[], B, by simp [hl], hb, by simp [hd], by simp, ?_, by simp⟩
  intro w hw
  rcases hB w hw with e | e
  · exact Or.inl ⟨cid, by simp, e⟩
  · exact Or.inr ⟨cid, e⟩

theorem evictPyramid_rel (chunks : List (Addr × Nat)) : ∀ (tx : Tx) (n : Nat),
    EvRel (chunks.map (·.1)) tx (evictPyramid tx chunks n).1 := by
  induction chunks with
  | nil => intro tx n; exact EvRel.refl tx
  | cons c rest ih =>
    intro tx n
    obtain ⟨cid, num⟩ := c
    simp only [evictPyramid, List.map_cons]
    split
    · split
      · exact (EvRel.direct tx cid _).cons (ih _ _)
      · split
        · refine (EvRel.batch tx ((tx.inBatch (.pinDel cid)).inBatch (.dataDel cid)) cid [.pinDel cid, .dataDel cid] rfl rfl ?_ ?_).cons (ih _ _)
          · simp [Tx.inBatch]
          · intro w hw; simp at hw; exact hw
        · refine (EvRel.batch tx (tx.inBatch (.pinDel cid)) cid [.pinDel cid] rfl rfl ?_ ?_).cons (ih _ _)
          · simp [Tx.inBatch]
          · intro w hw; simp at hw; exact Or.inl hw
    · split
      · refine (EvRel.batch tx (tx.inBatch (.dataDel cid)) cid [.dataDel cid] rfl rfl ?_ ?_).cons (ih _ _)
        · simp [Tx.inBatch]
        · intro w hw; simp at hw; exact Or.inr hw
      · refine (EvRel.batch tx tx cid [] rfl rfl (by simp) (by simp)).cons (ih _ _)

/-- the cids walked by the eviction loop, in order (skipped candidates contribute nothing) -/
def evictedCids (pyr : Addr → Option (List (Addr × Nat))) (dirty : List Addr) : List (GcKey × Nat) → List Addr
  | [] => []
  | (k, _) :: rest =>
    match pyr k.addr with
    | none => evictedCids pyr dirty rest
    | some chunks =>
      if dirty.contains k.addr then evictedCids pyr dirty rest
      else chunks.map (·.1) ++ evictedCids pyr dirty rest

theorem evictLoop_rel (pyr : Addr → Option (List (Addr × Nat))) (dirty : List Addr) (cands : List (GcKey × Nat)) :
    ∀ (tx : Tx) (n : Nat) (rec : List (GcKey × Nat)) (vis : List Addr),
      EvRel (evictedCids pyr dirty cands) tx (evictLoop pyr dirty tx cands n rec vis).1 := by
  induction cands with
  | nil => intro tx n rec vis; exact EvRel.refl tx
  | cons e rest ih =>
    intro tx n rec vis
    obtain ⟨k, c⟩ := e
    simp only [evictLoop, evictedCids]
    cases hp : pyr k.addr with
    | none => exact ih _ _ _ _
    | some chunks =>
      simp only []
      by_cases hd : dirty.contains k.addr = true
      · simp only [hd, if_true]; exact ih _ _ _ _
      · simp only [hd, Bool.false_eq_true, if_false]
        exact (evictPyramid_rel chunks tx 0).trans (ih _ _ _ _)

/-- the root/access/gc deletes of the recycled entries -/
def recycleTx (tx : Tx) (recycled : List (GcKey × Nat)) : Tx :=
  recycled.foldl (fun (t : Tx) (e : GcKey × Nat) =>
    ((t.inBatch (.dataDel e.1.addr)).inBatch (.accDel e.1.addr)).inBatch (.gcDel e.1)) tx

def recycleWrites (recycled : List (GcKey × Nat)) : List Write :=
  recycled.flatMap (fun e => [Write.dataDel e.1.addr, .accDel e.1.addr, .gcDel e.1])

theorem recycleTx_eq (recycled : List (GcKey × Nat)) : ∀ tx : Tx,
    recycleTx tx recycled = { tx with batch := tx.batch ++ recycleWrites recycled } := by
  induction recycled with
  | nil => intro tx; simp [recycleTx, recycleWrites]
  | cons e rest ih =>
    intro tx
    have := ih (((tx.inBatch (.dataDel e.1.addr)).inBatch (.accDel e.1.addr)).inBatch (.gcDel e.1))
    simp only [recycleTx, List.foldl_cons] at this ⊢
    rw [this]
    simp [Tx.inBatch, recycleWrites, List.append_assoc]

/-- the outcome of the eviction loop of `gcEvict` -/
def evictRun (s : State) (pyr : Addr → Option (List (Addr × Nat))) :
    Tx × Nat × List (GcKey × Nat) × List Addr :=
  evictLoop pyr s.dirty (Tx.start s) s.cands 0 [] []

/-- the count the run subtracts from `gcSize` -/
def evictCount (s : State) (pyr : Addr → Option (List (Addr × Nat))) : Nat :=
  if (evictRun s pyr).2.2.1.isEmpty then (evictRun s pyr).1.db.gcSize
  else (evictRun s pyr).2.1 + (evictRun s pyr).2.2.1.length

/-- the new `gcSize` the run writes -/
def evictCur (s : State) (pyr : Addr → Option (List (Addr × Nat))) : Nat :=
  if evictCount s pyr ≤ (evictRun s pyr).1.db.gcSize then (evictRun s pyr).1.db.gcSize - evictCount s pyr else 0

/-- the batch of the run -/
def evictBatch (s : State) (pyr : Addr → Option (List (Addr × Nat))) : List Write :=
  (evictRun s pyr).1.batch ++ recycleWrites (evictRun s pyr).2.2.1 ++ [.gcSizePut (evictCur s pyr)]

/-- the ordered driver writes of a collection run in progress -/
theorem gcEvict_writes (s : State) (pyr : Addr → Option (List (Addr × Nat))) (hr : s.gcRunning = true) :
    (gcEvict s pyr).writes = (evictRun s pyr).1.log ++ [DW.batch (evictBatch s pyr)] := by
  have h := recycleTx_eq (evictRun s pyr).2.2.1 (evictRun s pyr).1
  unfold recycleTx at h
  simp only [gcEvict, hr, Bool.not_true, Bool.false_eq_true, if_false]
  simp only [evictBatch, evictCur, evictCount, evictRun] at h ⊢
  rw [h]
  simp [Tx.inBatch]

theorem gcEvict_db (s : State) (pyr : Addr → Option (List (Addr × Nat))) :
    (gcEvict s pyr).st.db = applyLog s.db (gcEvict s pyr).writes := by
  unfold gcEvict
  split <;> rfl

theorem gcEvict_idle (s : State) (pyr : Addr → Option (List (Addr × Nat))) (hr : s.gcRunning = false) :
    (gcEvict s pyr).writes = [] ∧ (gcEvict s pyr).st = s := by
  simp [gcEvict, hr]

end Aurora.Localstore
