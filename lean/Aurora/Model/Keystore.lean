/-!
Model of `/repo/pkg/keystore/file/service.go` (+ `key.go` through the scheme parameter) and
`/repo/pkg/keystore/mem/service.go`.  Hand translation, tied by the C36 correspondence run.

* `Scheme` is `encryptKey` / `decryptKey` (scrypt + AES-128-CTR + keccak MAC + JSON v3 envelope):
  `enc pw key rnd` with `rnd` the random salt/IV/uuid, `dec pw blob`.  Its laws are hypotheses of
  the theorems (`Props/C36.lean`).
* The key directory is a total function `name ↦ file content`, `[]` for a missing file — the code
  itself does not distinguish a missing from an empty file in `Key`/`Exists`
  (`len(data) == 0`), and `read` fails on both (open error / JSON error).
* `ImportKey`/`ImportPrivateKey` move the file to a backup name and restore it on failure; the
  backup name (`<name>.key.bak.<unix>`) never ends in `.key`, so it is not a key file of any name
  and is left out of the state.
* The mem keystore's `ExportKey`/`ImportKey`/`ImportPrivateKey` are `panic("implement me")`:
  outcome `Res.panic`.
-/
namespace Aurora.Keystore

abbrev Bytes := List UInt8

inductive DecRes (Key : Type) where
  | ok (k : Key)
  /-- `keystore.ErrInvalidPassword` (MAC mismatch) -/
  | invalid
  /-- any other error (JSON, version, cipher, hex, key length …) -/
  | bad
deriving DecidableEq, Repr

structure Scheme (Key : Type) where
  enc : Bytes → Key → Bytes → Bytes
  dec : Bytes → Bytes → DecRes Key

inductive Res (α : Type) where
  | ok (a : α)
  | invalid
  | err
  | panic
deriving DecidableEq, Repr

structure St (Key : Type) where
  files : Bytes → Bytes
  mem : Bytes → Option (Key × Bytes)

def St.empty {Key : Type} : St Key := { files := fun _ => [], mem := fun _ => none }

def putFile {Key} (s : St Key) (n v : Bytes) : St Key :=
  { s with files := fun x => if x = n then v else s.files x }

def putMem {Key} (s : St Key) (n : Bytes) (v : Key × Bytes) : St Key :=
  { s with mem := fun x => if x = n then some v else s.mem x }

def ofDec {Key} : DecRes Key → Res Key
  | .ok k => .ok k
  | .invalid => .invalid
  | .bad => .err

section file
variable {Key : Type} (S : Scheme Key)

/-- `file.Service.Key(name, password)`; `fresh` is the key `GenerateSecp256k1Key` would return,
    `rnd` the randomness of `encryptKey`.  Result: key and the `created` flag. -/
def fileKey (s : St Key) (n pw : Bytes) (fresh : Key) (rnd : Bytes) : Res (Key × Bool) × St Key :=
  if s.files n = [] then (.ok (fresh, true), putFile s n (S.enc pw fresh rnd))
  else match S.dec pw (s.files n) with
    | .ok k => (.ok (k, false), s)
    | .invalid => (.invalid, s)
    | .bad => (.err, s)

def fileExists (s : St Key) (n : Bytes) : Bool := s.files n != []

/-- the unexported `read(name, password)` -/
def fileRead (s : St Key) (n pw : Bytes) : Res Key := ofDec (S.dec pw (s.files n))

/-- `ExportKey`: read, then encrypt again under the same password -/
def fileExport (s : St Key) (n pw rnd : Bytes) : Res Bytes :=
  match fileRead S s n pw with
  | .ok k => .ok (S.enc pw k rnd)
  | .invalid => .invalid
  | .err => .err
  | .panic => .panic

/-- `ImportKey`: the existing key must open with `pw`; the blob must open with the same `pw`;
    on any failure the old file is restored (state unchanged) -/
def fileImport (s : St Key) (n pw blob rnd : Bytes) : Res Unit × St Key :=
  match fileRead S s n pw with
  | .ok _ =>
    match S.dec pw blob with
    | .ok k => (.ok (), putFile s n (S.enc pw k rnd))
    | .invalid => (.invalid, s)
    | .bad => (.err, s)
  | .invalid => (.invalid, s)
  | .err => (.err, s)
  | .panic => (.panic, s)

/-- `ImportPrivateKey` -/
def fileImportPK (s : St Key) (n pw : Bytes) (k : Key) (rnd : Bytes) : Res Unit × St Key :=
  match fileRead S s n pw with
  | .ok _ => (.ok (), putFile s n (S.enc pw k rnd))
  | .invalid => (.invalid, s)
  | .err => (.err, s)
  | .panic => (.panic, s)

end file

section mem
variable {Key : Type}

/-- `mem.Service.Key` -/
def memKey (s : St Key) (n pw : Bytes) (fresh : Key) : Res (Key × Bool) × St Key :=
  match s.mem n with
  | none => (.ok (fresh, true), putMem s n (fresh, pw))
  | some (k, p) => if p ≠ pw then (.invalid, s) else (.ok (k, false), s)

def memExists (s : St Key) (n : Bytes) : Bool := (s.mem n).isSome

/-- `panic("implement me")` -/
def memExport (_s : St Key) (_n _pw : Bytes) : Res Bytes := .panic
def memImport (s : St Key) (_n _pw _blob : Bytes) : Res Unit × St Key := (.panic, s)
def memImportPK (s : St Key) (_n _pw : Bytes) (_k : Key) : Res Unit × St Key := (.panic, s)

end mem

/-! ### both services behind one interface (`keystore.Service`) -/

inductive Kind | file | mem
deriving DecidableEq, Repr

variable {Key : Type} (S : Scheme Key)

def svcKey (kd : Kind) (s : St Key) (n pw : Bytes) (fresh : Key) (rnd : Bytes) : Res (Key × Bool) × St Key :=
  match kd with
  | .file => fileKey S s n pw fresh rnd
  | .mem => memKey s n pw fresh

def svcExport (kd : Kind) (s : St Key) (n pw rnd : Bytes) : Res Bytes :=
  match kd with
  | .file => fileExport S s n pw rnd
  | .mem => memExport s n pw

def svcImport (kd : Kind) (s : St Key) (n pw blob rnd : Bytes) : Res Unit × St Key :=
  match kd with
  | .file => fileImport S s n pw blob rnd
  | .mem => memImport s n pw blob

def svcImportPK (kd : Kind) (s : St Key) (n pw : Bytes) (k : Key) (rnd : Bytes) : Res Unit × St Key :=
  match kd with
  | .file => fileImportPK S s n pw k rnd
  | .mem => memImportPK s n pw k

/-- operations of a history (every random choice is part of the op) -/
inductive Op (Key : Type) where
  | key (n pw : Bytes) (fresh : Key) (rnd : Bytes)
  | export_ (n pw rnd : Bytes)
  | import_ (n pw blob rnd : Bytes)
  | importPK (n pw : Bytes) (k : Key) (rnd : Bytes)

def stepOp (kd : Kind) (s : St Key) : Op Key → St Key
  | .key n pw fresh rnd => (svcKey S kd s n pw fresh rnd).2
  | .export_ _ _ _ => s
  | .import_ n pw blob rnd => (svcImport S kd s n pw blob rnd).2
  | .importPK n pw k rnd => (svcImportPK S kd s n pw k rnd).2

def run (kd : Kind) (s : St Key) (ops : List (Op Key)) : St Key := ops.foldl (stepOp S kd) s

/-- "a key `k` is stored under `n` and password `pw`" -/
def Holds (kd : Kind) (s : St Key) (n pw : Bytes) (k : Key) : Prop :=
  match kd with
  | .file => ∃ rnd, s.files n = S.enc pw k rnd
  | .mem => s.mem n = some (k, pw)

/-- an op that replaces the key stored under `n` (imports are the only ones that may) -/
def Op.importsInto {Key} (n : Bytes) : Op Key → Prop
  | .import_ m _ _ _ => m = n
  | .importPK m _ _ _ => m = n
  | _ => False

end Aurora.Keystore
