import Std.Data.HashMap
import Driver.Util
import Driver.FastKeccak
import Aurora.Model.Cac
import Aurora.Model.HashTrie
import Aurora.Model.Joiner
/-!
Shared driver for the file pipeline properties C01 / C02 / C07.

Ops (one output line each):
* `new` | `new enc` | `new small <C> <B>` — fresh pipeline (`builder.NewPipelineBuilder` plain /
  encrypted; `small`: feeder(C) → bmt → store → hashtrie(C, B, 32), writer side only)
* `write <src>` — one `Write`; `writeseg <src> <k>` — the source in consecutive `k`-byte `Write`s
* `sum` — `Sum()`: `ok <ref> <#puts> <digest of the Put multiset>`; also evaluates the independent
  specification `Tree.Spec.root` and prints `SPEC-MISMATCH …` if it differs from the pipeline model
* `open` — `joiner.New` on the reference; `size`
* `readat <off> <len> <cap>` — `ReadAt` into a sentinel-filled (0xEE) buffer of that len/cap
* `read <len> <cap>` — `Read`; `seek <off> <whence>`; `readall` — `file.JoinReadAll`
* `new pipe` — the writes go through `file.ChunkPipe` + `builder.FeedPipeline` on the Go side (same model)

Encrypted mode: the Lean side cannot reproduce the random keys/padding; it runs the same pipeline
and joiner models with branching 4096 and 64-byte references whose "key" half is a copy of the
address (`dec` = identity).  Only sizes and read results are compared in that mode, not references.

The chunk reference function is `fastBmt` (ByteArray BMT over `Driver.Fast.keccak`), memoised per
case on the chunk content.  It is cross-checked against the list model `Aurora.Cac.hashWith` by the
`selftest` op.
-/
namespace Driver.File
open Aurora.Bmt (Bytes)
open Aurora.Tree Aurora.HashTrie Aurora.Joiner

def C : Nat := Aurora.Tree.chunkBytes

/-- zero-subtree hashes: `zh[0]` = 32 zero bytes, `zh[i+1] = H(zh[i] ‖ zh[i])` -/
def zeroHashes : Array ByteArray := Id.run do
  let mut a : Array ByteArray := #[⟨Array.replicate 32 0⟩]
  for i in [0:13] do
    a := a.push (Driver.Fast.keccak (a[i]! ++ a[i]!))
  return a

/-- BMT root (8192 segments of 32 bytes) of `data` (truncated to 262144 bytes) -/
def fastBmtRoot (data : ByteArray) : ByteArray := Id.run do
  let n := min data.size C
  if n = 0 then return zeroHashes[13]!
  let nsec := (n + 63) / 64
  let mut nodes : Array ByteArray := Array.mkEmpty nsec
  for i in [0:nsec] do
    let hi := min n (64 * i + 64)
    let mut sec := data.extract (64 * i) hi
    if sec.size < 64 then
      sec := sec ++ ⟨Array.replicate (64 - sec.size) 0⟩
    nodes := nodes.push (Driver.Fast.keccak sec)
  let mut lvl := 1
  for _ in [0:12] do
    if nodes.size % 2 = 1 then nodes := nodes.push zeroHashes[lvl]!
    let mut up : Array ByteArray := Array.mkEmpty (nodes.size / 2)
    for j in [0:nodes.size / 2] do
      up := up.push (Driver.Fast.keccak (nodes[2 * j]! ++ nodes[2 * j + 1]!))
    nodes := up
    lvl := lvl + 1
  return nodes[0]!

def fastBmt (span payload : Bytes) : Bytes :=
  (Driver.Fast.keccak ((⟨span.toArray⟩ : ByteArray) ++ fastBmtRoot ⟨payload.toArray⟩)).toList

abbrev Memo := Std.HashMap Bytes Bytes

def crefWith (memo : Memo) (span payload : Bytes) : Bytes :=
  match memo.get? (span ++ payload) with
  | some r => r
  | none => fastBmt span payload

/-- "encrypted" stand-in: 64-byte reference = address ‖ address -/
def crefEnc (memo : Memo) (span payload : Bytes) : Bytes :=
  let r := crefWith memo span payload
  r ++ r

inductive Mode | none | plain | enc | small (c b : Nat)
deriving Repr, DecidableEq

structure St where
  mode : Mode := .none
  up : Upload := {}
  memo : Memo := {}
  store : Std.HashMap Bytes Bytes := {}
  nputs : Nat := 0
  pdig : UInt64 := 0
  segsRev : List Bytes := []
  root : Option Bytes := none
  summed : Bool := false
  failed : Bool := false
  j : Option J := none

def fnv (bs : Bytes) : UInt64 :=
  bs.foldl (fun h b => (h ^^^ b.toUInt64) * 0x100000001b3) 0xcbf29ce484222325

def hex64 (w : UInt64) : String :=
  String.ofList ((List.range 16).map fun i => Driver.nibble ((w >>> (4 * (15 - i)).toUInt64).toNat % 16))

def St.params (st : St) : Nat × Nat :=
  match st.mode with
  | .small c b => (c, b)
  | .enc => (C, Aurora.Tree.encBranching)
  | _ => (C, Aurora.Tree.branching)

def St.cref (st : St) : Bytes → Bytes → Bytes :=
  match st.mode with
  | .enc => crefEnc st.memo
  | _ => crefWith st.memo

/-- move the model's Put log into the store / counters -/
def St.drain (st : St) : St := Id.run do
  let mut store := st.store
  let mut dig := st.pdig
  for (a, d) in st.up.puts do
    store := store.insert (a.take 32) d
    dig := dig + fnv (a.take 32 ++ Aurora.Cac.le64 d.length)
  return { st with store := store, pdig := dig, nputs := st.nputs + st.up.puts.length, up := { st.up with puts := [] } }

/-- make sure the references of the given data chunks are memoised -/
def St.memoise (st : St) (chunks : List Bytes) : St := Id.run do
  let mut memo := st.memo
  for p in chunks do
    let sp := Aurora.Cac.le64 p.length
    if !memo.contains (sp ++ p) then
      memo := memo.insert (sp ++ p) (fastBmt sp p)
  return { st with memo := memo }

def St.write1 (st : St) (b : Bytes) : St × Option Int :=
  let (c, bb) := st.params
  let chunks := (Aurora.Feeder.write c st.up.feeder b).2.1
  let st := st.memoise chunks
  let (u, n) := st.up.write st.cref c bb b
  ({ st with up := u, segsRev := b :: st.segsRev }.drain, n)

def splitEvery (k : Nat) : Nat → Bytes → List Bytes
  | 0, _ => []
  | fuel + 1, l => if l = [] then [] else l.take k :: splitEvery k fuel (l.drop k)

def readOut (n : Nat) (err : Option IoErr) (mem : Bytes) : String :=
  let e := match err with | none => "nil" | some .eof => "eof" | some (.other _) => "err"
  let got := mem.take n
  let desc := if n = 0 then "-" else if n ≤ 24 then Driver.bytesToHex got else "f:" ++ hex64 (fnv got)
  let tail := if (mem.drop n).all (· == 0xEE) then "clean" else "dirty"
  s!"{n} {e} {desc} {tail}"

def lookupFn (st : St) : Bytes → Option Bytes := fun a => st.store.get? a

def getFn (st : St) : Bytes → Except Aurora.Joiner.Err Bytes :=
  storeGet (lookupFn st) (fun _ d => d) Aurora.Tree.hashBytes

def depthFuel : Nat := 12

def step (st : St) (op : List String) : St × String :=
  match op with
  | ["new"] => ({ mode := .plain }, "ok")
  | ["new", "enc"] => ({ mode := .enc }, "ok")
  | ["new", "pipe"] => ({ mode := .plain }, "ok")   -- ChunkPipe + FeedPipeline only re-segment the writes
  | ["new", "small", c, b] =>
    match c.toNat?, b.toNat? with
    | some c, some b => if c = 0 ∨ c > C ∨ b < 2 then (st, "bad-op") else ({ mode := .small c b }, "ok")
    | _, _ => (st, "bad-op")
  | ["selftest", src] =>
    match Driver.parseSrc src with
    | none => (st, "bad-op")
    | some d =>
      let sp := Aurora.Cac.le64 d.length
      let a := fastBmt sp d
      let b := Aurora.Cac.hashWith (fun x => (Driver.Fast.keccak ⟨x.toArray⟩).toList) 32 12 (Aurora.Bmt.zeros C) sp d
      let k1 := (Driver.Fast.keccak ⟨d.toArray⟩).toList
      let k2 := (Aurora.Keccak.keccak256 ⟨d.toArray⟩).toList
      (st, if a = b ∧ k1 = k2 then s!"ok {Driver.bytesToHex a}" else "SELFTEST-MISMATCH")
  | _ =>
  if st.mode = .none then (st, "nofile") else
  match op with
  | ["write", src] =>
    if st.summed then (st, "summed") else
    if st.failed then (st, "err") else
    match Driver.parseSrc src with
    | none => (st, "bad-op")
    | some b =>
      let (st, n) := st.write1 b
      match n with
      | some n => (st, toString n)
      | none => ({ st with failed := true }, "err")
  | ["writeseg", src, k] =>
    if st.summed then (st, "summed") else
    if st.failed then (st, "err") else
    match Driver.parseSrc src, k.toNat? with
    | some b, some k =>
      if k = 0 then (st, "bad-op") else
      let (st, tot, ok) := (splitEvery k (b.length + 1) b).foldl (fun (acc : St × Int × Bool) seg =>
        if !acc.2.2 then acc else
        let (s, n) := acc.1.write1 seg
        match n with
        | some n => (s, acc.2.1 + n, true)
        | none => (s, acc.2.1, false)) (st, 0, true)
      if ok then (st, toString tot) else ({ st with failed := true }, "err")
    | _, _ => (st, "bad-op")
  | ["sum"] =>
    if st.summed then (st, "summed") else
    if st.failed then (st, "err") else
    let (c, bb) := st.params
    let chunks := (Aurora.Feeder.sum st.up.feeder).2
    let st := st.memoise chunks
    let (u, r) := st.up.sum st.cref bb
    let st := { st with up := u, summed := true }.drain
    match r with
    | none => ({ st with failed := true }, "err")
    | some ref =>
      let data := st.segsRev.reverse.flatten
      let spec := Spec.root st.cref c bb data
      let st := { st with root := some ref }
      if spec ≠ some ref then
        (st, s!"SPEC-MISMATCH model={Driver.bytesToHex ref} spec={match spec with | some s => Driver.bytesToHex s | none => "none"}")
      else if st.mode = .enc then (st, s!"ok enc {st.nputs}")
      else (st, s!"ok {Driver.bytesToHex ref} {st.nputs} {hex64 st.pdig}")
  | ["open"] =>
    match st.root with
    | none => (st, "nosum")
    | some ref =>
      match st.mode with
      | .small _ _ => (st, "nojoin")
      | _ =>
        match Aurora.Joiner.new (getFn st) ref with
        | .error _ => (st, "err")
        | .ok j => ({ st with j := some j }, s!"ok {j.size}")
  | _ =>
  match st.j with
  | none => (st, "noopen")
  | some j =>
    match op with
    | ["size"] => (st, toString j.size)
    | ["readat", off, len, cap] =>
      match off.toNat?, len.toNat?, cap.toNat? with
      | some off, some len, some cap =>
        if cap < len then (st, "bad-op") else
        let r := j.readAt (getFn st) C depthFuel len (List.replicate cap 0xEE) off
        (st, readOut r.n r.err r.mem)
      | _, _, _ => (st, "bad-op")
    | ["read", len, cap] =>
      match len.toNat?, cap.toNat? with
      | some len, some cap =>
        if cap < len then (st, "bad-op") else
        let (j', r) := j.read (getFn st) C depthFuel len (List.replicate cap 0xEE)
        ({ st with j := some j' }, readOut r.n r.err r.mem)
      | _, _ => (st, "bad-op")
    | ["readall"] =>
      -- `file.JoinReadAll`: ⌈size/C⌉ times `Read` into a C-byte buffer; any error (EOF included) aborts
      let iters := (j.size + C - 1) / C
      let (j', tot, dig, ok) := (List.range iters).foldl (fun (acc : J × Nat × UInt64 × Bool) _ =>
        if !acc.2.2.2 then acc else
        let (j1, r) := acc.1.read (getFn st) C depthFuel C (List.replicate C 0xEE)
        match r.err with
        | some _ => (j1, acc.2.1, acc.2.2.1, false)
        | none => (j1, acc.2.1 + r.n, (r.mem.take r.n).foldl (fun h b => (h ^^^ b.toUInt64) * 0x100000001b3) acc.2.2.1, true))
        (j, 0, 0xcbf29ce484222325, true)
      let st := { st with j := some j' }
      if ok ∧ tot = j.size then (st, s!"{tot} {hex64 dig}") else (st, s!"err {tot}")
    | ["seek", off, wh] =>
      match off.toInt?, wh.toInt? with
      | some off, some wh =>
        let (j', r) := j.seek off wh
        ({ st with j := some j' },
          match r with
          | .pos p => toString p
          | .eof => "eof"
          | .errWhence => "errwhence"
          | .errOffset => "erroffset")
      | _, _ => (st, "bad-op")
    | _ => (st, "bad-op")

def handler : Driver.Handler := { σ := St, init := {}, step := step }

end Driver.File
