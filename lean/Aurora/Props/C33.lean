import Aurora.Lemmas.TrafficPersist
import Aurora.Props.C31
/-!
# C33 — Traffic totals survive restarts

Property theorems only (helpers in `Aurora/Lemmas/TrafficPersist.lean`; the cheque clause reuses the
sequential traffic model of C31).  `Aurora/Model/TrafficPersist.lean` models one traffic total
updated by any number of goroutines as interleavings of atomic steps; `stepNew` is the repaired
code (`lock → add → persist → unlock`), `stepOld` the former one (`… unlock → readField → persist`).
`exec step s acts` runs a schedule; theorems quantify over *all* schedules `acts` (no bound on
goroutines or steps).  `restored s = max(base, stored total)` is what a restart restores.
-/
namespace Aurora.TrafficPersist

/-- Clause 1 (`quiescent_persisted_eq_memory`): in every state reachable by any interleaving,
    whenever no update holds the peer lock — in particular when no update is in flight — what a
    restart would restore equals the total in memory; and once the store holds at least the
    chain/cheque figure, the persisted total *is* the total in memory. -/
theorem C33_quiescent_persisted_eq_memory (base st : Nat) (acts : List Act) (s : State)
    (he : exec stepNew (init base st) acts = some s) :
    (s.lock = none → restored s = s.mem) ∧
    (QuiescentNew s → restored s = s.mem ∧ (s.base ≤ s.store → s.store = s.mem)) := by
  have hinv := (inv_exec acts _ _ (inv_init base st) he).1
  refine ⟨hinv.2.2.1, fun hq => ?_⟩
  have hfree : s.lock = none := by
    cases hl : s.lock with
    | none => rfl
    | some t =>
      have := holder_pc s hinv t hl
      have := hq t
      omega
  have hr := hinv.2.2.1 hfree
  refine ⟨hr, fun hb => ?_⟩
  simp only [restored] at hr; omega

/-- Clause 2 (`restart_ge_before`, crash at any point): take any moment at which the peer lock is
    free (e.g. right after an update returned) with total `s1.mem` in memory; after *any* further
    interleaving — including a crash in the middle of later updates — a restart restores at least
    that total: no served or consumed traffic whose update had returned is forgotten.  The persisted
    total never decreases. -/
theorem C33_restart_ge_before (base st : Nat) (acts1 acts2 : List Act) (s1 s2 : State)
    (h1 : exec stepNew (init base st) acts1 = some s1) (hfree : s1.lock = none)
    (h2 : exec stepNew s1 acts2 = some s2) :
    s1.mem ≤ restored s2 ∧ s1.store ≤ s2.store := by
  have i1 := inv_exec acts1 _ _ (inv_init base st) h1
  have i2 := inv_exec acts2 _ _ i1.1 h2
  have hr := i1.1.2.2.1 hfree
  simp only [restored] at hr ⊢
  rw [i2.2.2.2]
  refine ⟨?_, i2.2.1⟩
  have := i2.2.1
  omega

/-- What the repair changed: with the former order (persist after unlock, from a re-read field) the
    schedule "T0 adds 5 and reads 5; T1 adds 3, reads 8 and persists 8; T0 persists 5" ends with no
    update in flight, 8 in memory and 5 in the store — a restart would forget 3. -/
theorem C33_stale_persist_counterexample :
    ∃ acts s, exec stepOld (init 0 0) acts = some s ∧ s.lock = none ∧
      (s.thr 0).pc = 5 ∧ (s.thr 1).pc = 5 ∧ s.mem = 8 ∧ s.store = 5 ∧ restored s < s.mem :=
  ⟨[.call 0 5, .call 1 3, .lock 0, .add 0, .unlock 0, .read 0, .lock 1, .add 1, .unlock 1, .read 1,
    .persist 1, .persist 0], _, rfl, rfl, rfl, rfl, rfl, rfl, by decide⟩

/-- the same schedule shape is harmless for the repaired code: T1 cannot lock before T0 unlocked, and
    T0 unlocks only after persisting (non-vacuity of the theorems above: schedules exist) -/
example : ∃ s, exec stepNew (init 0 0) [.call 0 5, .call 1 3, .lock 0, .add 0, .persist 0, .unlock 0,
    .lock 1, .add 1, .persist 1, .unlock 1] = some s ∧ s.mem = 8 ∧ s.store = 8 ∧ s.lock = none :=
  ⟨_, rfl, rfl, rfl, rfl⟩
example : exec stepNew (init 0 0) [.call 0 5, .call 1 3, .lock 0, .add 0, .lock 1] = none := rfl

end Aurora.TrafficPersist

namespace Aurora.Traffic

/-- Clause 3 (`no_repay`): after any history (credits, payments with positive threshold, refreshes,
    cash-outs, earlier restarts) followed by a restart, the next cheque for peer `p` has a
    cumulative payout strictly above every cheque already recorded as sent to that address and
    equal to the restored total owed — so no amount already paid is paid again, and the last
    cheque amount restored is at least the recorded one. -/
theorem C33_no_repay (n : Nat) (ops : List Op) (hpos : ∀ op ∈ ops, PosThr op)
    (p : Nat) (thr : Int) (hthr : 0 < thr) (fail : Bool) (cum : Int) :
    let st := restart (run n init ops)
    (pay n st p thr fail).2.emit = some cum →
    ∃ a, st.fwd p = some a ∧ (∀ l, st.sLast a = some l → l < cum ∧ l ≤ st.chq a) ∧ cum = st.tot a := by
  intro st hem
  have hrun : st = run n init (ops ++ [.restart]) := by
    simp [st, run, List.foldl_append, step]
  have hpos' : ∀ op ∈ ops ++ [.restart], PosThr op := by
    intro op hop
    rcases List.mem_append.1 hop with h | h
    · exact hpos op h
    · simp only [List.mem_singleton] at h; subst h; trivial
  have hinv : Inv st := by
    rw [hrun]
    have : ∀ (ops : List Op) (s : St), Inv s → (∀ op ∈ ops, PosThr op) → Inv (run n s ops) := by
      intro ops
      induction ops with
      | nil => intro s hs _; exact hs
      | cons op ops ih =>
        intro s hs hp
        exact ih (step n s op) (inv_step n s op (hp op (List.mem_cons_self ..)) hs)
          (fun o ho => hp o (List.mem_cons_of_mem _ ho))
    exact this _ init inv_init hpos'
  have h := C31_payout_monotone_bounded n (ops ++ [.restart]) hpos' p thr hthr fail cum
  simp only at h
  rw [← hrun] at h
  obtain ⟨a, hf, hlt, hc, _, _⟩ := h hem
  exact ⟨a, hf, fun l hl => ⟨hlt l hl, ((hinv a).2.1 l hl).1⟩, hc⟩

/-- Clause 2 on the sequential model: a restart restores, for every address, a total that is at
    least the persisted total and a cheque total that is at least the last recorded cheque. -/
theorem C33_restore_is_max (st : St) (a : Nat) :
    (∀ v, st.sRetr a = some v → v ≤ (restart st).tot a) ∧
    (∀ l, st.sLast a = some l → inSet st a = true → l ≤ (restart st).chq a ∧ l ≤ (restart st).tot a) := by
  constructor
  · intro v hv
    have hin : inSet st a = true := by simp [inSet, hv]
    simp only [restart, refresh, inSet] at hin ⊢
    simp only [hin, if_true, hv, Option.getD_some]
    exact imax_ge_right _ _
  · intro l hl hin
    simp only [restart, refresh, inSet] at hin ⊢
    simp only [hin, if_true, hl]
    exact ⟨imax_ge_right _ _, Int.le_trans (imax_ge_right _ _) (imax_ge_left _ _)⟩

end Aurora.Traffic
