import Aurora.Model.Hive
import Mathlib.Data.List.Nodup
/-! Helper lemmas for C29 (`Model/Hive.lean`). -/
namespace Aurora.Hive

/-- the address book is keyed consistently: the record stored under `a` names `a` -/
def BookOK (st : St) : Prop := ∀ a r, st.book.lookup a = some r → r.overlay = a

/-- a book all of whose entries are keyed by their own overlay is consistent -/
theorem bookOK_of_all (st : St) (h : ∀ e ∈ st.book, e.2.overlay = e.1) : BookOK st := by
  intro a r hl
  generalize st.book = book at h hl
  induction book with
  | nil => simp [List.lookup] at hl
  | cons e rest ih =>
    obtain ⟨k, v⟩ := e
    simp only [List.lookup] at hl
    split at hl
    · rename_i heq
      cases hl
      have := h (k, r) (by simp)
      simp only at this
      rw [this]; exact (beq_iff_eq.1 heq).symm
    · exact ih (fun e he => h e (by simp [he])) hl

/-- the filter `addrFunc` applies to address-book record `p` of peer `a` -/
def Cand (st : St) (req : Req) (pp : Bool) (skip0 peers : List Addr) (p : Rec) : Prop :=
  ∃ a ∈ peers, a ∉ skip0 ∧ st.book.lookup a = some p ∧
    inArray (proximity req.target a) req.pos = true ∧ (!st.allowPrivate && pp && p.priv) = false

theorem limits_sum_le (l : Int) :
    (((limits (clamp l)).1 + (limits (clamp l)).2 : Nat) : Int) ≤ min (max l 0) 30 := by
  unfold limits clamp maxPeersLimit
  split <;> split <;> (try split) <;> (try split) <;> simp <;> omega

theorem pick_length_le (cands : List Rec) (lim : Nat) (c : List Nat) (h : AdmChoice cands lim c) :
    (pick cands lim c).length ≤ lim := by
  unfold pick
  split
  · rename_i hgt
    have := (h hgt).1
    calc (c.filterMap fun i => cands[i]?).length ≤ c.length := List.length_filterMap_le _ _
      _ = lim := this
  · omega

theorem pick_mem (cands : List Rec) (lim : Nat) (c : List Nat) (x : Rec) (h : x ∈ pick cands lim c) :
    x ∈ cands := by
  unfold pick at h
  split at h
  · obtain ⟨i, _, hi⟩ := List.mem_filterMap.1 h
    exact List.mem_of_getElem? hi
  · exact h

theorem pickIdx_nodup (cands : List Rec) (hn : (cands.map (·.overlay)).Nodup) :
    ∀ c : List Nat, c.Nodup → (∀ i ∈ c, i < cands.length) →
      ((c.filterMap fun i => cands[i]?).map (·.overlay)).Nodup := by
  intro c
  induction c with
  | nil => simp
  | cons i c ih =>
    intro hc hr
    have hi : i < cands.length := hr i (by simp)
    have hci := List.nodup_cons.1 hc
    have ih' := ih hci.2 (fun j hj => hr j (by simp [hj]))
    simp only [List.filterMap_cons, List.getElem?_eq_getElem hi, List.map_cons]
    refine List.nodup_cons.2 ⟨?_, ih'⟩
    intro hmem
    obtain ⟨y, hy, hyo⟩ := List.mem_map.1 hmem
    obtain ⟨j, hj, hjy⟩ := List.mem_filterMap.1 hy
    obtain ⟨hjl, hjy'⟩ := List.getElem?_eq_some_iff.1 hjy
    have hil' : i < (cands.map (·.overlay)).length := by simpa using hi
    have hjl' : j < (cands.map (·.overlay)).length := by simpa using hjl
    have : (cands.map (·.overlay))[i] = (cands.map (·.overlay))[j] := by
      simp only [List.getElem_map]; rw [hjy']; exact hyo.symm
    have hij : i = j := (hn.getElem_inj_iff (hi := hil') (hj := hjl')).1 this
    exact hci.1 (hij ▸ hj)

theorem pick_nodup (cands : List Rec) (lim : Nat) (c : List Nat) (h : AdmChoice cands lim c)
    (hn : (cands.map (·.overlay)).Nodup) : ((pick cands lim c).map (·.overlay)).Nodup := by
  unfold pick
  split
  · rename_i hgt
    obtain ⟨_, hc, hr⟩ := h hgt
    exact pickIdx_nodup cands hn c hc hr
  · exact hn

/-- everything `scan` returns was already collected or passes `addrFunc`'s filter against the
    *initial* skip list; the skip list only grows. -/
theorem scan_spec (st : St) (req : Req) (pp : Bool) :
    ∀ (peers skip : List Addr) (out : List Rec),
      (∀ x ∈ (scan st req pp peers skip out).2, x ∈ out ∨ Cand st req pp skip peers x) ∧
      (∀ a ∈ skip, a ∈ (scan st req pp peers skip out).1) := by
  intro peers
  induction peers with
  | nil => intro skip out; simp only [scan]; exact ⟨fun x hx => Or.inl hx, fun a h => h⟩
  | cons a rest ih =>
    intro skip out
    have lift : ∀ (skip' : List Addr) (x : Rec), (∀ b ∈ skip, b ∈ skip') →
        Cand st req pp skip' rest x → Cand st req pp skip (a :: rest) x := by
      rintro skip' x hs ⟨b, hb, hns, h1, h2, h3⟩
      exact ⟨b, by simp [hb], fun hm => hns (hs b hm), h1, h2, h3⟩
    unfold scan
    by_cases hsk : skip.contains a = true
    · simp only [hsk, if_true]
      obtain ⟨i1, i2⟩ := ih skip out
      exact ⟨fun x hx => (i1 x hx).imp id (lift skip x (fun _ h => h)), i2⟩
    · simp only [hsk, if_false]
      have hna : a ∉ skip := fun h => hsk (List.contains_iff_mem.2 h)
      by_cases hin : inArray (proximity req.target a) req.pos = true
      · simp only [hin, if_true]
        cases hb : st.book.lookup a with
        | none =>
          simp only
          obtain ⟨i1, i2⟩ := ih skip out
          exact ⟨fun x hx => (i1 x hx).imp id (lift skip x (fun _ h => h)), i2⟩
        | some p =>
          simp only
          by_cases hpv : (!st.allowPrivate && pp && p.priv) = true
          · simp only [hpv, if_true]
            obtain ⟨i1, i2⟩ := ih (skip ++ [p.overlay]) out
            exact ⟨fun x hx => (i1 x hx).imp id (lift _ x (fun b h => by simp [h])),
              fun b h => i2 b (by simp [h])⟩
          · simp only [hpv, if_false]
            obtain ⟨i1, i2⟩ := ih skip (out ++ [p])
            refine ⟨fun x hx => ?_, i2⟩
            rcases i1 x hx with h | h
            · rcases List.mem_append.1 h with h | h
              · exact Or.inl h
              · have : x = p := by simpa using h
                subst this
                exact Or.inr ⟨a, by simp, hna, hb, hin, by simpa using hpv⟩
            · exact Or.inr (lift skip x (fun _ h => h) h)
      · simp only [hin]
        obtain ⟨i1, i2⟩ := ih skip out
        exact ⟨fun x hx => (i1 x hx).imp id (lift skip x (fun _ h => h)), i2⟩

/-- with a consistent book and duplicate-free iteration, the collected overlays are distinct -/
theorem scan_nodup (st : St) (req : Req) (pp : Bool) (hb : BookOK st) :
    ∀ (peers skip : List Addr) (out : List Rec),
      (out.map (·.overlay)).Nodup → peers.Nodup → (∀ o ∈ out.map (·.overlay), o ∉ peers) →
      ((scan st req pp peers skip out).2.map (·.overlay)).Nodup := by
  intro peers
  induction peers with
  | nil => intro skip out h _ _; simpa [scan] using h
  | cons a rest ih =>
    intro skip out hout hp hd
    have hp' := List.nodup_cons.1 hp
    have hd' : ∀ o ∈ out.map (·.overlay), o ∉ rest := fun o ho hr => hd o ho (by simp [hr])
    unfold scan
    split
    · exact ih skip out hout hp'.2 hd'
    · split
      · split
        · exact ih skip out hout hp'.2 hd'
        · rename_i p hlook
          have hpa : p.overlay = a := hb a p hlook
          split
          · exact ih _ out hout hp'.2 hd'
          · apply ih skip (out ++ [p]) _ hp'.2
            · intro o ho
              simp only [List.map_append, List.map_cons, List.map_nil, List.mem_append,
                List.mem_singleton] at ho
              rcases ho with ho | ho
              · exact hd' o (by simpa using ho)
              · rw [ho, hpa]; exact hp'.1
            · simp only [List.map_append, List.map_cons, List.map_nil]
              refine List.nodup_append.2 ⟨hout, by simp, ?_⟩
              intro x hx y hy hxy
              have : y = a := by simpa [hpa] using hy
              exact hd x hx (by simp [hxy, this])
      · exact ih skip out hout hp'.2 hd'

end Aurora.Hive
