import Aurora.Model.Accounting
/-! Helper lemmas for C32 (accounting). -/
namespace Aurora.Accounting

/-- non-negativity side conditions of the "never negative" clause -/
def Op.NonNeg (op : Op) : Prop :=
  (∀ r, op.rt = some r → 0 ≤ r) ∧ (match op with | .notify _ amt _ => 0 ≤ amt | _ => True)

def NonNegAt (st : St) (p : Nat) : Prop := ∀ u, st.unpaid p = some u → 0 ≤ u

theorem getPeer_other (st : St) (p q : Nat) (rt : Option Int) (st1 : St) (u : Int)
    (h : getPeer st p rt = some (st1, u)) (hq : q ≠ p) : st1.unpaid q = st.unpaid q := by
  unfold getPeer at h
  cases hu : st.unpaid p with
  | some v => simp [hu] at h; rw [← h.1]
  | none =>
    cases rt with
    | none => simp [hu] at h
    | some r => simp [hu] at h; rw [← h.1]; simp [set, hq]

theorem getPeer_self (st : St) (p : Nat) (rt : Option Int) (st1 : St) (u : Int)
    (h : getPeer st p rt = some (st1, u)) :
    st1.unpaid p = some u ∧ opening (st.unpaid p) rt = some u := by
  unfold getPeer at h
  unfold opening
  cases hu : st.unpaid p with
  | some v => simp [hu] at h; rw [← h.1, ← h.2]; exact ⟨hu, rfl⟩
  | none =>
    cases rt with
    | none => simp [hu] at h
    | some r => simp [hu] at h; rw [← h.1, ← h.2]; simp [set]

theorem getPeer_none (st : St) (p : Nat) (rt : Option Int) (h : getPeer st p rt = none) :
    opening (st.unpaid p) rt = none := by
  unfold getPeer at h
  unfold opening
  cases hu : st.unpaid p with
  | some v => simp [hu] at h
  | none => cases rt with
    | none => rfl
    | some r => simp [hu] at h

theorem opening_left_none (u rt : Option Int) (h : opening u rt = none) : u = none := by
  cases u <;> simp_all [opening]

/-- operations of other peers do not touch `p` -/
theorem step_other (cfg : Cfg) (st : St) (op : Op) (p : Nat) (h : op.peer ≠ p) :
    (step cfg st op).unpaid p = st.unpaid p := by
  have hp : p ≠ op.peer := fun e => h e.symm
  cases op with
  | reserve q amt rt av =>
    simp only [step, reserve, Op.peer] at *
    cases hg : getPeer st q rt with
    | none => rfl
    | some x =>
      obtain ⟨st1, u⟩ := x
      have := getPeer_other st q p rt st1 u hg hp
      cases av with
      | none => exact this
      | some a => simp only; split <;> exact this
  | credit q amt rt pe =>
    simp only [step, credit, Op.peer] at *
    cases hg : getPeer st q rt with
    | none => rfl
    | some x =>
      obtain ⟨st1, u⟩ := x
      have := getPeer_other st q p rt st1 u hg hp
      simp only
      split
      · simp [set, hp, this]
      · split <;> simp [set, hp, this]
  | debit q amt rt tt pe =>
    simp only [step, debit, Op.peer] at *
    cases hg : getPeer st q rt with
    | none => rfl
    | some x =>
      obtain ⟨st1, u⟩ := x
      have := getPeer_other st q p rt st1 u hg hp
      cases tt with
      | none => exact this
      | some t => simp only; split; exact this; split <;> exact this
  | notify q amt rt =>
    simp only [step, notify, Op.peer] at *
    cases hg : getPeer st q rt with
    | none => rfl
    | some x =>
      obtain ⟨st1, u⟩ := x
      have := getPeer_other st q p rt st1 u hg hp
      simp [set, hp, this]
  | peek q rt =>
    simp only [step, peek, Op.peer] at *
    cases hg : getPeer st q rt with
    | none => rfl
    | some x =>
      obtain ⟨st1, u⟩ := x
      exact getPeer_other st q p rt st1 u hg hp

theorem payDown_spec (u amt : Int) (hu : 0 ≤ u) (ha : 0 ≤ amt) :
    payDown u amt = (if u - amt < 0 then 0 else u - amt) ∧ 0 ≤ payDown u amt := by
  unfold payDown
  constructor
  · split <;> split <;> (try split) <;> omega
  · split
    · omega
    · split <;> omega

/-- an operation of peer `p` acts on `p`'s balance as the specification step -/
theorem step_self (cfg : Cfg) (st : St) (op : Op) (hn : op.NonNeg) (hs : NonNegAt st op.peer) :
    (step cfg st op).unpaid op.peer = specStep (st.unpaid op.peer) op ∧ NonNegAt (step cfg st op) op.peer := by
  obtain ⟨hrt, hamt⟩ := hn
  have nonneg_u : ∀ st1 u, getPeer st op.peer op.rt = some (st1, u) → 0 ≤ u := by
    intro st1 u hg
    have := (getPeer_self _ _ _ _ _ hg).2
    cases hu : st.unpaid op.peer with
    | some v => rw [hu] at this; simp [opening] at this; rw [← this]; exact hs v hu
    | none => rw [hu] at this; simp [opening] at this; exact hrt u this
  cases op with
  | reserve q amt rt av =>
    simp only [step, reserve, Op.peer, Op.rt, specStep] at *
    cases hg : getPeer st q rt with
    | none =>
      have hn := getPeer_none _ _ _ hg
      rw [hn]; exact ⟨opening_left_none _ _ hn, hs⟩
    | some x =>
      obtain ⟨st1, u⟩ := x
      have h1 := getPeer_self _ _ _ _ _ hg
      have hu0 := nonneg_u st1 u hg
      rw [h1.2]
      have : ∀ (o : ReserveOut), ((st1, o).1).unpaid q = some u ∧ NonNegAt (st1, o).1 q := by
        intro o; exact ⟨h1.1, fun v hv => by rw [h1.1] at hv; cases hv; exact hu0⟩
      cases av with
      | none => exact this _
      | some a => simp only; split <;> exact this _
  | credit q amt rt pe =>
    simp only [step, credit, Op.peer, Op.rt, specStep] at *
    cases hg : getPeer st q rt with
    | none =>
      have hn := getPeer_none _ _ _ hg
      rw [hn]; exact ⟨opening_left_none _ _ hn, hs⟩
    | some x =>
      obtain ⟨st1, u⟩ := x
      have h1 := getPeer_self _ _ _ _ _ hg
      have hu0 := nonneg_u st1 u hg
      rw [h1.2]
      have : ∀ (o : CreditOut), ((set st1 q (u + amt), o).1).unpaid q = some (u + amt) ∧ NonNegAt (set st1 q (u + amt), o).1 q := by
        intro o; refine ⟨by simp [set], fun v hv => ?_⟩
        simp [set] at hv; omega
      simp only
      split
      · exact this _
      · split <;> exact this _
  | debit q amt rt tt pe =>
    simp only [step, debit, Op.peer, Op.rt, specStep] at *
    cases hg : getPeer st q rt with
    | none =>
      have hn := getPeer_none _ _ _ hg
      rw [hn]; exact ⟨opening_left_none _ _ hn, hs⟩
    | some x =>
      obtain ⟨st1, u⟩ := x
      have h1 := getPeer_self _ _ _ _ _ hg
      have hu0 := nonneg_u st1 u hg
      rw [h1.2]
      have : ∀ (o : DebitOut), ((st1, o).1).unpaid q = some u ∧ NonNegAt (st1, o).1 q := by
        intro o; exact ⟨h1.1, fun v hv => by rw [h1.1] at hv; cases hv; exact hu0⟩
      cases tt with
      | none => exact this _
      | some t => simp only; split; exact this _; split <;> exact this _
  | notify q amt rt =>
    simp only [step, notify, Op.peer, Op.rt, specStep] at *
    cases hg : getPeer st q rt with
    | none =>
      have hn := getPeer_none _ _ _ hg
      rw [hn]; exact ⟨opening_left_none _ _ hn, hs⟩
    | some x =>
      obtain ⟨st1, u⟩ := x
      have h1 := getPeer_self _ _ _ _ _ hg
      have hu0 := nonneg_u st1 u hg
      have hpd := payDown_spec u amt hu0 hamt
      rw [h1.2]
      refine ⟨by simp [set, hpd.1], fun v hv => ?_⟩
      simp [set] at hv; rw [← hv]; exact hpd.2
  | peek q rt =>
    simp only [step, peek, Op.peer, Op.rt, specStep] at *
    cases hg : getPeer st q rt with
    | none =>
      have hn := getPeer_none _ _ _ hg
      rw [hn]; exact ⟨opening_left_none _ _ hn, hs⟩
    | some x =>
      obtain ⟨st1, u⟩ := x
      have h1 := getPeer_self _ _ _ _ _ hg
      have hu0 := nonneg_u st1 u hg
      rw [h1.2]
      exact ⟨h1.1, fun v hv => by rw [h1.1] at hv; cases hv; exact hu0⟩

end Aurora.Accounting
