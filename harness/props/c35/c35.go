// Package c35: correspondence + oracle for pkg/auth (property C35, API access tokens).
package c35

import (
	"crypto/aes"
	"crypto/cipher"
	"crypto/md5"
	"encoding/base64"
	"encoding/hex"
	"encoding/json"
	"errors"
	"fmt"
	"io"
	"math/big"
	"net/http"
	"net/http/httptest"
	"net/url"
	"regexp"
	"strconv"
	"strings"
	"time"

	"github.com/gauss-project/aurorafs/pkg/auth"
	"github.com/gauss-project/aurorafs/pkg/logging"
	"github.com/sirupsen/logrus"

	"verifharness/core"
)

const (
	nodeKey  = "verif-node-key"
	otherKey = "some-other-node"
)

type prop struct{}

func init() { core.Register(prop{}) }

func (prop) ID() string { return "C35" }
func (prop) Rule() string {
	return "cases: tokens are produced by the real GenerateKey/RefreshKey (roles consumer/creator/maintainer/master/unknown/empty/unicode, durations -3600..3600 incl. 0), " +
		"or minted by the harness with the node key or a foreign key (arbitrary JSON payloads, expiry now-2s..now+1h), or are raw strings (random base64, non-base64, empty); " +
		"mutations: truncation to every length 0..40 and beyond, bit flips in nonce/ciphertext/tag, appended bytes/newlines; " +
		"each token is then enforced against paths generated from every policy pattern (0-3 extra segments, /v1 prefix, near-misses) x methods (exact, lower-case, super/sub-strings), refreshed (chains), " +
		"and sent through PermissionCheckHandler; a few cases sleep across an expiry. Fixed regression cases (short tokens) first. " +
		"Non-trivial: >=1 token created and >=1 enforce/refresh/http on it; distinct by op-list hash."
}

// ---- the harness's own view of the primitives (real libraries, same derivation as auth.newEncrypter)

func gcmFor(key string) cipher.AEAD {
	h := md5.Sum([]byte(key))
	block, err := aes.NewCipher([]byte(hex.EncodeToString(h[:])))
	if err != nil {
		panic(err)
	}
	g, err := cipher.NewGCM(block)
	if err != nil {
		panic(err)
	}
	return g
}

type rec struct {
	Role   string    `json:"r"`
	Expiry time.Time `json:"e"`
}

func nanos(t time.Time) *big.Int {
	x := new(big.Int).Mul(big.NewInt(t.Unix()), big.NewInt(1000000000))
	return x.Add(x, big.NewInt(int64(t.Nanosecond())))
}

// tokInfo is what the real libraries say about a token string under the node key.
type tokInfo struct {
	decoded []byte
	decOK   bool
	plain   []byte
	openOK  bool
	rec     rec
	recOK   bool
}

func inspect(g cipher.AEAD, tok string) tokInfo {
	var ti tokInfo
	d, err := base64.StdEncoding.DecodeString(tok)
	if err != nil {
		return ti
	}
	ti.decoded, ti.decOK = d, true
	if len(d) < g.NonceSize() {
		return ti
	}
	pt, err := g.Open(nil, d[:g.NonceSize()], d[g.NonceSize():], nil)
	if err != nil {
		return ti
	}
	ti.plain, ti.openOK = pt, true
	var r rec
	if err := json.Unmarshal(pt, &r); err != nil {
		return ti
	}
	ti.rec, ti.recOK = r, true
	return ti
}

func (ti tokInfo) annotate(ctx *core.Ctx, pfx string) {
	ct, op, rc := "bad", "na", "bad"
	if ti.decOK {
		ct = core.Hex(ti.decoded)
		if len(ti.decoded) >= 12 {
			op = "fail"
		}
	}
	if ti.openOK {
		op = core.Hex(ti.plain)
	}
	if ti.recOK {
		rc = core.Hex([]byte(ti.rec.Role)) + ":" + nanos(ti.rec.Expiry).String()
	}
	ctx.Annotate(pfx+"ct="+ct, pfx+"open="+op, pfx+"rec="+rc)
}

// ---- independent statement of "the role's policy allows path and method" (spec copy of the table)

var specPolicy = [][3]string{
	{"consumer", "/apiPort", "GET"}, {"consumer", "/bytes/*", "GET"}, {"creator", "/bytes", "POST"},
	{"consumer", "/chunks/*", "GET"}, {"creator", "/chunks", "POST"}, {"creator", "/soc/*/*", "POST"},
	{"consumer", "/aurora", "GET"}, {"creator", "/aurora", "POST"}, {"consumer", "/aurora/*", "GET"},
	{"creator", "/aurora/*", "DELETE"}, {"consumer", "/aurora/*/*", "GET"}, {"consumer", "/manifest/*", "GET"},
	{"consumer", "/manifest/*/*", "GET"}, {"creator", "/pins/*", "(GET)|(DELETE)|(POST)"},
	{"consumer", "/group/peers/*", "GET"}, {"consumer", "/group/multicast/*", "POST"},
	{"consumer", "/group/send/*/*", "POST"}, {"consumer", "/group/notify/*/*", "POST"},
	{"consumer", "/group/join/*", "(DELETE)|(POST)"}, {"consumer", "/group/observe/*", "(DELETE)|(POST)"},
	{"maintainer", "/pins", "GET"},
	{"maintainer", "/addresses", "GET"}, {"maintainer", "/pingpong/*", "POST"}, {"maintainer", "/connect/*", "POST"},
	{"maintainer", "/peers", "GET"}, {"maintainer", "/peers/*", "DELETE"}, {"maintainer", "/blocklist", "GET"},
	{"maintainer", "/blocklist/*", "(DELETE)|(POST)"}, {"maintainer", "/chunks/*", "(GET)|(DELETE)"},
	{"maintainer", "/topology", "GET"}, {"maintainer", "/route/*", "(GET)|(DELETE)|(POST)"},
	{"maintainer", "/route/findunderlay/*", "GET"}, {"maintainer", "/welcome-message", "(GET)|(POST)"},
	{"maintainer", "/chunk/discover/*", "GET"}, {"maintainer", "/chunk/server/*", "GET"},
	{"maintainer", "/chunk/init/*", "GET"}, {"maintainer", "/chunk/source/*", "GET"}, {"maintainer", "/aco/*", "GET"},
	{"maintainer", "/keystore", "(GET)|(POST)"}, {"maintainer", "/privatekey", "GET"},
	{"maintainer", "/transaction", "POST"}, {"maintainer", "/topology/group", "GET"},
}

// pathMatches: the pattern up to its first '*' is a prefix requirement; without '*' equality.
func pathMatches(path, pat string) bool {
	i := strings.IndexByte(pat, '*')
	if i < 0 {
		return path == pat
	}
	if len(path) > i {
		return strings.HasPrefix(path, pat[:i])
	}
	return path == pat[:i]
}

func specAllows(role, path, method string) bool {
	for _, p := range specPolicy {
		if role != p[0] && role != "master" {
			continue
		}
		if !pathMatches(path, p[1]) && !pathMatches(path, "/v1"+p[1]) {
			continue
		}
		if ok, _ := regexp.MatchString(p[2], method); ok {
			return true
		}
	}
	return false
}

// ---- generator

var roles = []string{"consumer", "creator", "maintainer", "master", "", "admin", "Consumer", "consumer ", "rôle"}
var methods = []string{"GET", "POST", "DELETE", "PUT", "PATCH", "HEAD", "get", "GETX", "XPOST", "", "GET|POST", "(GET)", "DELETEGET", "OPTIONS"}

func hx(s string) string { return core.Hex([]byte(s)) }

func genPath(r *core.Rand) string {
	p := specPolicy[r.Intn(len(specPolicy))][1]
	seg := func() string { return []string{"a", "abc", "0123abcd", "x.y", "*", "..", "é", ""}[r.Intn(8)] }
	// instantiate every '*'
	parts := strings.Split(p, "*")
	s := parts[0]
	for i := 1; i < len(parts); i++ {
		switch r.Intn(6) {
		case 0: // nothing in place of the star
		default:
			s += seg()
		}
		s += parts[i]
	}
	for k := r.Intn(4); k > 0; k-- { // 0-3 extra segments
		s += "/" + seg()
	}
	switch r.Intn(14) {
	case 0:
		s = "/v1" + s
	case 1:
		s = "/v2" + s
	case 2:
		if len(s) > 1 {
			s = s[:len(s)-1]
		}
	case 3:
		s = strings.ToUpper(s)
	case 4:
		s = p // the pattern itself, star included
	case 5:
		s = "/v1" + p
	case 6:
		s = ""
	case 7:
		s = strings.TrimSuffix(parts[0], "/")
	case 8:
		s = "/v1/v1" + s
	case 9:
		s = s + "?name=x"
	}
	return s
}

func validJSON(role string, exp string) string {
	b, _ := json.Marshal(role)
	return `{"r":` + string(b) + `,"e":"` + exp + `"}`
}

func (prop) Gen(r *core.Rand, tier string) []core.Case {
	n, sleepers := 500, 6
	if tier == "thorough" {
		n, sleepers = 12000, 60
	}
	var cs []core.Case
	use := func(slot int, k int) []string {
		var ops []string
		for ; k > 0; k-- {
			switch r.Intn(8) {
			case 0:
				ops = append(ops, fmt.Sprintf("refresh %d %d %d", slot, 5+r.Intn(3), r.Pick([]int{60, 1, -1, 0, 3600})))
			case 1:
				ops = append(ops, fmt.Sprintf("http %d %s %s", slot, hx(genPath(r)), hx(methods[r.Intn(len(methods))])))
			default:
				ops = append(ops, fmt.Sprintf("enforce %d %s %s", slot, hx(genPath(r)), hx(methods[r.Intn(len(methods))])))
			}
		}
		return ops
	}
	// fixed regression cases: tokens that decode to fewer than 12 bytes (panicked before the fix)
	short := []string{"", "AAAA", "AAAAAAAAAAAAAAA=", "AAAAAAAAAAAAAA==", "QUJD", "\n"}
	for i, s := range short {
		cs = append(cs, core.Case{ID: fmt.Sprintf("fix-short-token-%d", i), NT: true, Ops: []string{
			"raw 0 " + hx(s), "enforce 0 " + hx("/bytes/abc") + " " + hx("GET"), "refresh 0 1 60", "http 0 " + hx("/bytes/abc") + " " + hx("GET")}})
	}
	// every truncation length of a valid token, both through enforce and refresh
	{
		c := core.Case{ID: "fix-truncate-all", NT: true, Ops: []string{"gen 0 " + hx("consumer") + " 3600"}}
		for k := 0; k <= 60; k++ {
			c.Ops = append(c.Ops, fmt.Sprintf("trunc 0 1 %d", k), "enforce 1 "+hx("/bytes/abc")+" "+hx("GET"), "refresh 1 2 60")
		}
		cs = append(cs, c)
	}
	// every policy row: exact hit, /v1 hit, miss by method and by role
	for i, p := range specPolicy {
		path := strings.ReplaceAll(p[1], "*", "x")
		m := strings.Trim(strings.Split(p[2], "|")[0], "()")
		c := core.Case{ID: fmt.Sprintf("row-%d", i), NT: true, Ops: []string{
			"gen 0 " + hx(p[0]) + " 60", "gen 1 " + hx("master") + " 60", "gen 2 " + hx("nobody") + " 60",
			"enforce 0 " + hx(path) + " " + hx(m), "enforce 0 " + hx("/v1"+path) + " " + hx(m),
			"enforce 0 " + hx(path) + " " + hx("PUT"), "enforce 1 " + hx(path) + " " + hx(m),
			"enforce 2 " + hx(path) + " " + hx(m), "enforce 0 " + hx(path+"/more") + " " + hx(m),
			"http 0 " + hx(path) + " " + hx(m), "http 2 " + hx(path) + " " + hx(m)}}
		// the row's own role against every standard method (a row that grants more than the table says shows up here)
		for _, mm := range []string{"GET", "POST", "DELETE", "PUT"} {
			c.Ops = append(c.Ops, "enforce 0 "+hx(path)+" "+hx(mm))
		}
		cs = append(cs, c)
	}
	for i := 0; i < sleepers; i++ {
		role := roles[r.Intn(4)]
		c := core.Case{ID: fmt.Sprintf("sleep%d", i), NT: true}
		c.Ops = append(c.Ops, "gen 0 "+hx(role)+" 1", fmt.Sprintf("mintrel 1 0 %s 1000 %s", hx(role), core.Hex(r.Bytes(12))))
		before := append(use(0, 2), use(1, 1)...)
		// an allowed and a denied request that are REPEATED verbatim after the expiry (a decision remembered per
		// token/method/path must not outlive the token)
		before = append(before, "enforce 0 "+hx("/bytes/1")+" "+hx("GET"), "enforce 0 "+hx("/pingpong/x")+" "+hx("POST"), "http 0 "+hx("/bytes/1")+" "+hx("GET"),
			"enforce 1 "+hx("/bytes/1")+" "+hx("GET"))
		c.Ops = append(c.Ops, before...)
		c.Ops = append(c.Ops, "refresh 0 2 1", "refresh 1 3 3")
		c.Ops = append(c.Ops, "sleep 1250")
		for _, o := range before {
			if !strings.HasPrefix(o, "refresh ") {
				c.Ops = append(c.Ops, o)
			}
		}
		c.Ops = append(c.Ops, use(0, 2)...)
		c.Ops = append(c.Ops, use(1, 1)...)
		c.Ops = append(c.Ops, use(2, 1)...)
		c.Ops = append(c.Ops, use(3, 2)...) // refreshed for 3 s: still valid
		c.Ops = append(c.Ops, "refresh 0 4 60", "refresh 2 4 60", "refresh 3 4 60", "enforce 4 "+hx("/bytes/a")+" "+hx("GET"))
		cs = append(cs, c)
	}
	for i := 0; i < n; i++ {
		c := core.Case{ID: fmt.Sprintf("g%d", i)}
		role := roles[r.Intn(len(roles))]
		if r.Chance(60) {
			role = roles[r.Intn(4)]
		}
		made := true
		switch r.Intn(12) {
		case 0, 1, 2, 3: // the real GenerateKey
			c.Ops = append(c.Ops, fmt.Sprintf("gen 0 %s %d", hx(role), r.Pick([]int{60, 3600, 2, 1, -1, -60, -3600, 0, 86400 * 365})))
		case 4, 5: // minted with the node key, relative expiry
			c.Ops = append(c.Ops, fmt.Sprintf("mintrel 0 0 %s %d %s", hx(role), r.Pick([]int{3600000, 1500, 60000, -1000, -2000, -3600000}), core.Hex(r.Bytes(12))))
		case 6: // minted with a foreign key
			c.Ops = append(c.Ops, fmt.Sprintf("mintrel 0 1 %s %d %s", hx(role), 3600000, core.Hex(r.Bytes(12))))
		case 7: // node key, arbitrary payload
			pl := []string{"{}", "null", "", "[]", `{"r":"consumer"}`, `{"e":"2100-01-01T00:00:00Z"}`, `{"r":1,"e":"2100-01-01T00:00:00Z"}`,
				`{"r":"master","e":"not a time"}`, validJSON(role, "2100-01-01T00:00:00Z"), validJSON(role, "1999-12-31T23:59:59.999999999Z"),
				`{"R":"maintainer","E":"2100-01-01T00:00:00+08:00"}`, validJSON(role, "2100-01-01T00:00:00Z") + " ", `{"r":"consumer","e":"2100-01-01T00:00:00Z","x":1}`,
				`{"r":"consumer","e":"2100-01-01T00:00:00Z"}{}`, "\xff\xfe", `"consumer"`}
			c.Ops = append(c.Ops, fmt.Sprintf("mint 0 %d %s %s", r.Intn(2)*r.Intn(2), hx(pl[r.Intn(len(pl))]), core.Hex(r.Bytes(12))))
		case 8: // random base64 of assorted lengths
			l := r.Pick([]int{0, 3, 8, 9, 11, 12, 13, 27, 28, 29, 40, 64})
			s := base64.StdEncoding.EncodeToString(r.Bytes(l))
			if r.Chance(20) {
				s = base64.RawStdEncoding.EncodeToString(r.Bytes(l))
			}
			if r.Chance(10) {
				s = base64.URLEncoding.EncodeToString(r.Bytes(l))
			}
			c.Ops = append(c.Ops, "raw 0 "+hx(s))
		case 9: // not base64
			junk := []string{"not a token", "====", "A", "AB", "ABC", "A===", "AB=C", "AAAA=", "AAA=AAAA", "Bearer x", " ", "é", "AAAA\nAAAA", "AA\r\n==",
				"AAAAAAAAAAAAAAAAAAAA AAAA", "AAAAAAAAAAAAAAAA\n", "-_-_", "AAAAAAAAAAAAAAAAAAAAAAAAAAAAAAAAAAAAAAA=", "AAAAAAAAAAAAAAAAAAAAAAAAAAAAAAAAAAAAAA==", "A=AA"}
			c.Ops = append(c.Ops, "raw 0 "+hx(junk[r.Intn(len(junk))]))
		case 10:
			c.Ops = append(c.Ops, "raw 0 "+core.Hex(r.Bytes(r.Intn(50))))
		default: // no token at all
			made = false
		}
		used := 0
		// mutations of slot 0 into slots 1..4
		nm := r.Intn(4)
		cur := 0
		for k := 0; k < nm; k++ {
			d := 1 + r.Intn(4)
			switch r.Intn(6) {
			case 0, 1:
				c.Ops = append(c.Ops, fmt.Sprintf("trunc %d %d %d", cur, d, r.Pick([]int{r.Intn(41), r.Intn(41), 16, 17, 20, 36, 40, 60, 91, 92, 200})))
			case 2, 3:
				c.Ops = append(c.Ops, fmt.Sprintf("flip %d %d %d", cur, d, r.Intn(8*100)))
			case 4:
				c.Ops = append(c.Ops, fmt.Sprintf("app %d %d %s", cur, d, hx([]string{"\n", "=", "A", "AAAA", " ", "\r\n", "Bearer "}[r.Intn(7)])))
			default:
				c.Ops = append(c.Ops, fmt.Sprintf("refresh %d %d %d", cur, d, r.Pick([]int{60, 60, -1, 0, 1})))
				used++
			}
			ops := use(d, 1+r.Intn(2))
			used += len(ops)
			c.Ops = append(c.Ops, ops...)
			if r.Bool() {
				cur = d
			}
		}
		ops := use(r.Intn(2)*cur, 1+r.Intn(4))
		used += len(ops)
		c.Ops = append(c.Ops, ops...)
		c.NT = made && used > 0
		cs = append(cs, c)
	}
	return cs
}

// ---- runner

type runner struct {
	a     *auth.Authenticator
	g, og cipher.AEAD
	slots map[int]string
}

func (prop) New() core.Runner {
	a, err := auth.New(nodeKey, "$2a$05$r/Sd7EiyrD1JWq4epW6U/u65A6yvVc9zsFEcLv4lLWcvhpfjOGfP2", logging.New(io.Discard, logrus.ErrorLevel))
	if err != nil {
		panic(err)
	}
	return &runner{a: a, g: gcmFor(nodeKey), og: gcmFor(otherKey), slots: map[int]string{}}
}
func (*runner) Close() {}

func errClass(err error) string {
	var cie base64.CorruptInputError
	var se *json.SyntaxError
	var ute *json.UnmarshalTypeError
	var tpe *time.ParseError
	switch {
	case errors.Is(err, auth.ErrTokenExpired):
		return "err:expired"
	case errors.Is(err, auth.ErrExpiry):
		return "err:dur"
	case errors.As(err, &cie):
		return "err:b64"
	case err.Error() == "cipher: message authentication failed":
		return "err:open"
	case err.Error() == "token too short":
		return "err:short"
	case errors.As(err, &se), errors.As(err, &ute), errors.As(err, &tpe),
		strings.Contains(err.Error(), "JSON"), strings.Contains(err.Error(), "Time.UnmarshalJSON"), strings.Contains(err.Error(), "json:"):
		return "err:json"
	}
	return "err:other:" + strings.ReplaceAll(err.Error(), " ", "_")
}

// guarded runs f; a panic is reported to the oracle (before the framework prints `panic`).
func guarded(ctx *core.Ctx, ti tokInfo, what string, f func()) {
	defer func() {
		if e := recover(); e != nil {
			clause := "panic-" + what + "-other"
			if !ti.decOK || len(ti.decoded) < 12 {
				clause = "panic-" + what + "-short-token"
			}
			ctx.Fail(clause, "%s panicked on a token decoding to %d bytes: %v", what, len(ti.decoded), e)
			panic(e)
		}
	}()
	f()
}

func (rn *runner) Step(ctx *core.Ctx, op []string) string {
	atoi := func(s string) (int, bool) { v, e := strconv.Atoi(s); return v, e == nil }
	unhex := func(s string) (string, bool) { b, e := core.UnHex(s); return string(b), e == nil }
	if len(op) == 0 {
		return "bad-op"
	}
	switch op[0] {
	case "sleep":
		if len(op) != 2 {
			return "bad-op"
		}
		ms, ok := atoi(op[1])
		if !ok || ms < 0 {
			return "bad-op"
		}
		time.Sleep(time.Duration(ms) * time.Millisecond)
		return "ok"
	case "raw":
		if len(op) != 3 {
			return "bad-op"
		}
		s, ok1 := atoi(op[1])
		t, ok2 := unhex(op[2])
		if !ok1 || !ok2 || s < 0 {
			return "bad-op"
		}
		rn.slots[s] = t
		return "ok"
	case "mint", "mintrel":
		var payload string
		var nonceHex string
		if op[0] == "mint" && len(op) == 5 {
			p, ok := unhex(op[3])
			if !ok {
				return "bad-op"
			}
			payload, nonceHex = p, op[4]
		} else if op[0] == "mintrel" && len(op) == 6 {
			role, ok1 := unhex(op[3])
			off, ok2 := atoi(op[4])
			if !ok1 || !ok2 {
				return "bad-op"
			}
			b, _ := json.Marshal(rec{Role: role, Expiry: time.Now().Add(time.Duration(off) * time.Millisecond)})
			payload, nonceHex = string(b), op[5]
		} else {
			return "bad-op"
		}
		s, ok1 := atoi(op[1])
		kid, ok2 := atoi(op[2])
		nonce, ok3 := unhex(nonceHex)
		if !ok1 || !ok2 || !ok3 || s < 0 || len(nonce) != 12 {
			return "bad-op"
		}
		g := rn.g
		if kid != 0 {
			g = rn.og
		}
		tok := base64.StdEncoding.EncodeToString(g.Seal([]byte(nonce), []byte(nonce), []byte(payload), nil))
		rn.slots[s] = tok
		ctx.Annotate("tok=" + hx(tok))
		return "ok"
	case "trunc", "flip", "app":
		if len(op) != 4 {
			return "bad-op"
		}
		s, ok1 := atoi(op[1])
		d, ok2 := atoi(op[2])
		if !ok1 || !ok2 || s < 0 || d < 0 {
			return "bad-op"
		}
		var n int
		var x string
		if op[0] == "app" {
			var ok bool
			if x, ok = unhex(op[3]); !ok {
				return "bad-op"
			}
		} else {
			var ok bool
			if n, ok = atoi(op[3]); !ok || n < 0 {
				return "bad-op"
			}
		}
		t, ok := rn.slots[s]
		if !ok {
			return "noslot"
		}
		b := []byte(t)
		switch op[0] {
		case "trunc":
			if n < len(b) {
				b = b[:n]
			}
		case "flip":
			if len(b) > 0 {
				i := n % (len(b) * 8)
				b[i/8] ^= 1 << uint(i%8)
			}
		default:
			b = append(b, x...)
		}
		rn.slots[d] = string(b)
		return fmt.Sprintf("ok %d", len(b))
	case "gen":
		if len(op) != 4 {
			return "bad-op"
		}
		s, ok1 := atoi(op[1])
		role, ok2 := unhex(op[2])
		dur, ok3 := atoi(op[3])
		if !ok1 || !ok2 || !ok3 || s < 0 {
			return "bad-op"
		}
		t0 := time.Now()
		tok, err := rn.a.GenerateKey(role, dur)
		t1 := time.Now()
		if err != nil {
			if dur != 0 {
				ctx.Fail("generate-fails", "GenerateKey(%q,%d): %v", role, dur, err)
			}
			return errClass(err)
		}
		ti := inspect(rn.g, tok)
		ctx.Annotate("t0="+nanos(t0).String(), "t1="+nanos(t1).String(), "ntok="+hx(tok))
		ti.annotate(ctx, "n")
		if !ti.recOK || ti.rec.Role != role || ti.rec.Expiry.Before(t0.Add(time.Duration(dur)*time.Second)) {
			ctx.Fail("generate-wrong-token", "GenerateKey(%q,%d) token does not read back as that role/expiry", role, dur)
		}
		rn.slots[s] = tok
		return "ok"
	case "enforce", "http":
		if len(op) != 4 {
			return "bad-op"
		}
		s, ok1 := atoi(op[1])
		obj, ok2 := unhex(op[2])
		act, ok3 := unhex(op[3])
		if !ok1 || !ok2 || !ok3 {
			return "bad-op"
		}
		tok, ok := rn.slots[s]
		if !ok {
			return "noslot"
		}
		ti := inspect(rn.g, tok)
		t0 := time.Now()
		ctx.Annotate("t0=" + nanos(t0).String())
		ti.annotate(ctx, "")
		if op[0] == "http" {
			status := 0
			served := false
			guarded(ctx, ti, "handler", func() {
				h := auth.PermissionCheckHandler(rn.a)(http.HandlerFunc(func(w http.ResponseWriter, r *http.Request) { served = true; w.WriteHeader(200) }))
				req := &http.Request{Method: act, URL: &url.URL{Path: obj}, Header: http.Header{"Authorization": []string{"Bearer " + tok}}}
				w := httptest.NewRecorder()
				h.ServeHTTP(w, req)
				status = w.Code
			})
			if served != (status == 200) {
				ctx.Fail("handler-status", "inner handler served=%v but status %d", served, status)
			}
			if served {
				rn.checkHonoured(ctx, "handler", ti, t0, obj, act)
			}
			return strconv.Itoa(status)
		}
		var allowed bool
		var err error
		guarded(ctx, ti, "enforce", func() { allowed, err = rn.a.Enforce(tok, obj, act) })
		if err != nil {
			if allowed {
				ctx.Fail("allowed-with-error", "Enforce returned true together with %v", err)
			}
			return errClass(err)
		}
		if !ti.recOK {
			ctx.Fail("malformed-not-error", "Enforce returned (%v, nil) for a token that does not decode/open/parse under the node key", allowed)
		}
		if allowed {
			rn.checkHonoured(ctx, "enforce", ti, t0, obj, act)
			return "allow"
		}
		return "deny"
	case "refresh":
		if len(op) != 4 {
			return "bad-op"
		}
		s, ok1 := atoi(op[1])
		d, ok2 := atoi(op[2])
		dur, ok3 := atoi(op[3])
		if !ok1 || !ok2 || !ok3 || d < 0 {
			return "bad-op"
		}
		tok, ok := rn.slots[s]
		if !ok {
			return "noslot"
		}
		ti := inspect(rn.g, tok)
		t0 := time.Now()
		ctx.Annotate("t0=" + nanos(t0).String())
		ti.annotate(ctx, "")
		var nt string
		var err error
		guarded(ctx, ti, "refresh", func() { nt, err = rn.a.RefreshKey(tok, dur) })
		t1 := time.Now()
		ctx.Annotate("t1=" + nanos(t1).String())
		if err != nil {
			return errClass(err)
		}
		nti := inspect(rn.g, nt)
		ctx.Annotate("ntok=" + hx(nt))
		nti.annotate(ctx, "n")
		switch {
		case !ti.recOK:
			ctx.Fail("refresh-forged", "RefreshKey succeeded on a token that is not authentic under the node key")
		case t0.After(ti.rec.Expiry):
			ctx.Fail("refresh-revived-expired", "RefreshKey succeeded on a token expired at %v", ti.rec.Expiry)
		case !nti.recOK:
			ctx.Fail("refresh-bad-token", "RefreshKey produced a token that does not read back")
		case nti.rec.Role != ti.rec.Role:
			ctx.Fail("refresh-changed-role", "role %q became %q", ti.rec.Role, nti.rec.Role)
		case nti.rec.Expiry.Before(t0.Add(time.Duration(dur)*time.Second)) || nti.rec.Expiry.After(t1.Add(time.Duration(dur)*time.Second)):
			ctx.Fail("refresh-expiry", "new expiry %v is not now+%ds", nti.rec.Expiry, dur)
		}
		rn.slots[d] = nt
		return "ok"
	}
	return "bad-op"
}

// checkHonoured: the token was honoured (request allowed) — every conjunct of the property must hold.
func (rn *runner) checkHonoured(ctx *core.Ctx, via string, ti tokInfo, t0 time.Time, obj, act string) {
	switch {
	case !ti.decOK || !ti.openOK:
		ctx.Fail(via+"-honoured-forged", "allowed a token that does not open under the node key")
	case !ti.recOK:
		ctx.Fail(via+"-honoured-unparsable", "allowed a token whose payload is not an auth record")
	case t0.After(ti.rec.Expiry):
		ctx.Fail(via+"-honoured-expired", "allowed a token expired at %v (now %v)", ti.rec.Expiry, t0)
	case !specAllows(ti.rec.Role, obj, act):
		ctx.Fail(via+"-honoured-not-permitted", "allowed role %q on %q %q which the policy table does not allow", ti.rec.Role, act, obj)
	}
}
