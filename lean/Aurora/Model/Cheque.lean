/-
Model of the receiving side of the cheque machinery (property C30):
  /repo/pkg/settlement/traffic/cheque/chequestore.go : ReceiveCheque, LastReceivedCheque
  /repo/pkg/settlement/traffic/traffic.go            : ReceiveCheque, LastReceivedCheque, TrafficCheques
  /repo/pkg/settlement/traffic/addressbook.go        : PutBeneficiary / Beneficiary / BeneficiaryPeer
Hand translation, tied by the C30 correspondence run.  Chain addresses and overlay addresses
are small ids (`Nat`); the harness maps them to real secp256k1 keys / addresses.  In this code
base `Cheque.Beneficiary` is the *issuer* (payer, signer) and `Cheque.Recipient` the payee.
Signature recovery is an oracle argument (`recovered : Option Nat`, `none` = recovery error),
computed on the Go side by the real `RecoverCheque` (DESIGN §4).
Core Lean only.
-/
namespace Aurora.Cheque

structure Cheque where
  ben : Nat   -- Beneficiary = issuer
  rcp : Nat   -- Recipient  = payee
  cum : Nat   -- CumulativePayout
deriving DecidableEq, Repr

/-- result of `chequestore.ReceiveCheque` (error enum in the order of the checks) -/
inductive StoreRes where
  | wrongRecipient            -- ErrWrongBeneficiary
  | recoverErr                -- recoverChequeFunc failed
  | invalid                   -- ErrChequeInvalid (recovered signer ≠ Beneficiary)
  | notIncreasing             -- ErrChequeNotIncreasing
  | ok (amount : Nat)
deriving DecidableEq, Repr

/-- the persistent part: `traffic_last_received_cheque_<issuer>` -/
structure Store where
  last : Nat → Option Cheque

def lastCum (s : Store) (i : Nat) : Nat :=
  match s.last i with
  | some c => c.cum
  | none => 0

/-- `chequeStore.ReceiveCheque` -/
def storeReceive (self : Nat) (s : Store) (c : Cheque) (recovered : Option Nat) : Store × StoreRes :=
  if c.rcp ≠ self then (s, .wrongRecipient)
  else match recovered with
    | none => (s, .recoverErr)
    | some issuer =>
      if issuer ≠ c.ben then (s, .invalid)
      else if c.cum ≤ lastCum s c.ben then (s, .notIncreasing)
      else ({ last := fun i => if i = c.ben then some c else s.last i }, .ok (c.cum - lastCum s c.ben))

/-- node state seen by C30 -/
structure St where
  self : Nat
  fwd : Nat → Option Nat      -- address book: peer ↦ chain address
  rev : Nat → Option Nat      -- address book: chain address ↦ peer
  store : Store
  credited : Nat → Nat        -- Traffic.transferChequeTraffic per chain address (0 when no record)
  earned : Nat → Nat          -- ghost: Σ of the amounts the store returned, per issuer

def init (self : Nat) : St :=
  { self := self, fwd := fun _ => none, rev := fun _ => none, store := ⟨fun _ => none⟩,
    credited := fun _ => 0, earned := fun _ => 0 }

inductive Res where
  | unknownPeer               -- "account information error" (peer has no registered address)
  | account                   -- "account information error " (issuer/recipient check)
  | store (r : StoreRes)
deriving DecidableEq, Repr

/-- `addressBook.PutBeneficiary` -/
def register (st : St) (peer addr : Nat) : St :=
  { st with fwd := fun p => if p = peer then some addr else st.fwd p,
            rev := fun a => if a = addr then some peer else st.rev a }

/-- `Service.ReceiveCheque` after the repair (`||`).  `guardOr = false` gives the code before the
    repair (`&&`), kept only to state what the repair changed. -/
def receiveG (guardOr : Bool) (st : St) (peer : Nat) (c : Cheque) (recovered : Option Nat) : St × Res :=
  match st.fwd peer with
  | none => (st, .unknownPeer)
  | some a =>
    let reject : Bool := if guardOr then (c.ben != a || c.rcp != st.self) else (c.ben != a && c.rcp != st.self)
    if reject then (st, .account)
    else
      match storeReceive st.self st.store c recovered with
      | (s', .ok amt) =>
        ({ st with store := s',
                   credited := fun x => if x = a then c.cum else st.credited x,
                   earned := fun x => if x = c.ben then st.earned x + amt else st.earned x }, .store (.ok amt))
      | (_, r) => (st, .store r)

def receive := receiveG true
def receiveOld := receiveG false

/-- a direct call of the cheque store (no peer, nothing credited) -/
def storeOnly (st : St) (c : Cheque) (recovered : Option Nat) : St × StoreRes :=
  match storeReceive st.self st.store c recovered with
  | (s', .ok amt) =>
    ({ st with store := s', earned := fun x => if x = c.ben then st.earned x + amt else st.earned x }, .ok amt)
  | (_, r) => (st, r)

/-- `Service.LastReceivedCheque(peer)` : `none` = unknown peer (empty cheque, nil error),
    `some none` = ErrNoCheque -/
def lastReceived (st : St) (peer : Nat) : Option (Option Cheque) :=
  match st.fwd peer with
  | none => none
  | some a => some (st.store.last a)

/-- `Service.TrafficCheques()` restricted to `ReceivedSettlements`, for chain addresses `< n`:
    (peer, received) for every record with a known peer and a non-zero amount. -/
def cheques (st : St) (n : Nat) : List (Nat × Nat) :=
  (List.range n).filterMap fun a =>
    match st.rev a with
    | some p => if st.credited a = 0 then none else some (p, st.credited a)
    | none => none

/-! ### histories -/

inductive Op where
  | reg (peer addr : Nat)
  | recv (peer : Nat) (c : Cheque) (recovered : Option Nat)
  | srecv (c : Cheque) (recovered : Option Nat)
deriving Repr

def step (st : St) : Op → St
  | .reg p a => register st p a
  | .recv p c r => (receive st p c r).1
  | .srecv c r => (storeOnly st c r).1

def run (st : St) (ops : List Op) : St := ops.foldl step st

/-- `some (issuer, cumulative)` iff the op is a cheque that the store accepts in state `st` -/
def accepted (st : St) : Op → Option (Nat × Nat)
  | .reg _ _ => none
  | .recv p c r => match (receive st p c r).2 with
    | .store (.ok _) => some (c.ben, c.cum)
    | _ => none
  | .srecv c r => match (storeOnly st c r).2 with
    | .ok _ => some (c.ben, c.cum)
    | _ => none

/-- `[c]` if `op` is an accepted cheque of issuer `i` with cumulative payout `c`, else `[]` -/
def accOne (st : St) (op : Op) (i : Nat) : List Nat :=
  match accepted st op with
  | some (j, c) => if j = i then [c] else []
  | none => []

/-- the accepted cumulative payouts of issuer `i` along a history, in order -/
def accCums : St → List Op → Nat → List Nat
  | _, [], _ => []
  | st, op :: ops, i => accOne st op i ++ accCums (step st op) ops i

end Aurora.Cheque
