import Driver.Util
import Driver.C03
import Aurora.Model.Soc
/-! Driver for C05: `soc.New(..).Sign / FromChunk / Valid / CreateAddress` model with real
    Keccak-256; the signature and the recovered owner are oracle values observed on the real
    code (`| <tokens>` annotations), admissibility-checked here (lengths, digest equality). -/
namespace Driver.C05
open Aurora.Bmt Aurora.Cac Aurora.Soc

def seg : Nat := 32
def d : Nat := 12
def keccak := Driver.C03.keccak
def stale0 : Bytes := zeros (maxSize seg d)

structure St where
  cur : Option Chunk := none

/-- scheme whose primitives answer with the observed values -/
def oracleScheme (sig owner : Bytes) (rec : Option Bytes) : SigScheme :=
  { SK := Unit, PK := Bytes, pub := fun _ => owner, sign := fun _ _ => sig,
    recover := fun _ _ => rec, ethAddr := fun pk => pk }

/-- the digest `FromChunk` hands to `crypto.Recover`, if parsing gets that far -/
def digestOf (data : Bytes) : Option Bytes :=
  if data.length < minChunkSize then none
  else match newWithDataSpan keccak seg d stale0 (data.drop (idSize + sigSize)) with
    | .error _ => none
    | .ok ch => some (keccak (data.take idSize ++ ch.addr))

def xorAt (l : Bytes) (pos : Nat) (x : UInt8) : Option Bytes :=
  if pos < l.length then some (l.set pos (l[pos]! ^^^ x)) else none

def splitAnnot (op : List String) : List String × List String :=
  match op.span (· ≠ "|") with
  | (a, _ :: b) => (a, b)
  | (a, []) => (a, [])

/-- parse the recovery annotation `<digest|-> <owner|fail>` against the model's own digest -/
def recOracle (data : Bytes) (ann : List String) : Except String (Option Bytes) :=
  match ann with
  | [dg, ow] =>
    match digestOf data, dg with
    | none, "-" => .ok none
    | none, _ => .error "annot-mismatch"
    | some _, "-" => .error "annot-mismatch"
    | some m, dg =>
      if Driver.hexToBytes dg ≠ some m then .error "annot-mismatch"
      else if ow = "fail" then .ok none
      else match Driver.hexToBytes ow with
        | some o => .ok (some o)
        | none => .error "bad-annot"
  | _ => .error "no-annot"

def step (st : St) (opl : List String) : St × String :=
  let (op, ann) := splitAnnot opl
  match op with
  | [sg, key, id, src] =>
    if sg ≠ "sign" ∧ sg ≠ "signw" then (st, if st.cur.isNone then "nochunk" else "bad-op") else
    match Driver.hexToBytes key, Driver.hexToBytes id, Driver.parseSrc src with
    | some _, some id, some data =>
      -- `sign`: wrap `cac.New(data)`; `signw`: wrap `cac.NewWithDataSpan(data)` (span chosen by the caller)
      match (if sg = "sign" then Aurora.Cac.new keccak seg d stale0 data else newWithDataSpan keccak seg d stale0 data) with
      | .error _ => ({ cur := none }, "err-cac")
      | .ok ch =>
        match ann.map Driver.hexToBytes with
        | [some sig, some owner] =>
          if sig.length ≠ sigSize then ({ cur := none }, "bad-annot-sig")
          else
          match Aurora.Soc.sign (oracleScheme sig owner none) keccak () id ch with
          | none => ({ cur := none }, "err")
          | some c => ({ cur := some c }, s!"ok {Driver.bytesToHex c.addr} {c.data.length} {Driver.bytesToHex (keccak c.data)}")
        | _ => ({ cur := none }, "no-annot")
    | _, _, _ => (st, "bad-op")
  | ["set", addr, src] =>
    match Driver.hexToBytes addr, Driver.parseSrc src with
    | some a, some p => ({ cur := some { addr := a, data := p } }, "ok")
    | _, _ => (st, "bad-op")
  | ["addr", id, owner] =>
    match Driver.hexToBytes id, Driver.hexToBytes owner with
    | some id, some owner => (st, Driver.bytesToHex (createAddress keccak id owner))
    | _, _ => (st, "bad-op")
  | _ =>
  match st.cur with
  | none => (st, "nochunk")
  | some c =>
    match op with
    | ["valid"] =>
      match recOracle c.data ann with
      | .error e => (st, e)
      | .ok rec => (st, Driver.boolStr (Aurora.Soc.valid (oracleScheme [] [] rec) keccak seg d stale0 c))
    | ["parse"] =>
      match recOracle c.data ann with
      | .error e => (st, e)
      | .ok rec =>
        match fromChunk (oracleScheme [] [] rec) keccak seg d stale0 c.data with
        | none => (st, "err")
        | some s => (st, s!"ok {Driver.bytesToHex s.id} {Driver.bytesToHex s.owner} {Driver.bytesToHex s.chunk.addr} {s.chunk.data.length}")
    | ["mutd", pos, x] =>
      match pos.toNat?, x.toNat? with
      | some pos, some x => match xorAt c.data pos (UInt8.ofNat x) with
        | some p => ({ cur := some { c with data := p } }, "ok")
        | none => (st, "range")
      | _, _ => (st, "bad-op")
    | ["muta", pos, x] =>
      match pos.toNat?, x.toNat? with
      | some pos, some x => match xorAt c.addr pos (UInt8.ofNat x) with
        | some a => ({ cur := some { c with addr := a } }, "ok")
        | none => (st, "range")
      | _, _ => (st, "bad-op")
    | ["trunc", n] =>
      match n.toNat? with
      | some n => ({ cur := some { c with data := c.data.take n } }, "ok")
      | none => (st, "bad-op")
    | ["extend", src] =>
      match Driver.parseSrc src with
      | some b => ({ cur := some { c with data := c.data ++ b } }, "ok")
      | none => (st, "bad-op")
    | ["info"] => (st, s!"{Driver.bytesToHex c.addr} {c.data.length}")
    | _ => (st, "bad-op")

def handler : Driver.Handler := { σ := St, init := {}, step := step }

end Driver.C05
