import Aurora.Model.Group
/-! Helper lemmas for C38 (membership lists). -/
namespace Aurora.Group

theorem psAdd_of_mem {p : Peer} {l : List Peer} (h : p ∈ l) : psAdd p l = l := by
  simp [psAdd, h]

theorem mem_psAdd {x p : Peer} {l : List Peer} : x ∈ psAdd p l ↔ x ∈ l ∨ x = p := by
  unfold psAdd
  split
  · constructor
    · intro h; exact Or.inl h
    · rintro (h | h)
      · exact h
      · subst h; assumption
  · simp

theorem nodup_psAdd {p : Peer} {l : List Peer} (h : l.Nodup) : (psAdd p l).Nodup := by
  unfold psAdd
  split
  · exact h
  · rename_i hp
    rw [List.nodup_append]
    refine ⟨h, by simp, ?_⟩
    intro a ha b hb
    simp at hb
    subst hb
    intro hab; subst hab; exact hp ha

theorem psRemove_of_not_mem {p : Peer} {l : List Peer} (h : p ∉ l) : psRemove p l = l := by
  induction l with
  | nil => rfl
  | cons x xs ih =>
    simp only [List.mem_cons, not_or] at h
    have hx : ¬ x = p := fun e => h.1 e.symm
    simp [psRemove, hx, ih h.2]

theorem psRemove_perm (p : Peer) (l : List Peer) : (psRemove p l).Perm (l.erase p) := by
  induction l with
  | nil => simp [psRemove]
  | cons x xs ih =>
    by_cases hx : x = p
    · subst hx
      simp only [psRemove, if_true, List.erase_cons_head]
      cases hl : xs.getLast? with
      | none =>
        have : xs = [] := by simpa using hl
        simp [this]
      | some z =>
        obtain ⟨ys, rfl⟩ := List.getLast?_eq_some_iff.mp hl
        simpa using (List.perm_append_singleton z ys).symm
    · have hb : ¬ (x == p) = true := by simpa using hx
      rw [List.erase_cons_tail hb]
      simp only [psRemove, hx, if_false]
      exact ih.cons x

theorem mem_of_mem_psRemove {x p : Peer} {l : List Peer} (h : x ∈ psRemove p l) : x ∈ l :=
  List.mem_of_mem_erase ((psRemove_perm p l).mem_iff.mp h)

theorem nodup_psRemove {p : Peer} {l : List Peer} (h : l.Nodup) : (psRemove p l).Nodup :=
  (psRemove_perm p l).nodup_iff.mpr (h.erase p)

theorem mem_psRemove {x p : Peer} {l : List Peer} (h : l.Nodup) :
    x ∈ psRemove p l ↔ x ∈ l ∧ x ≠ p := by
  rw [(psRemove_perm p l).mem_iff, h.mem_erase_iff]
  exact And.comm

theorem length_psRemove {p : Peer} {l : List Peer} (h : p ∈ l) :
    (psRemove p l).length = l.length - 1 := by
  rw [(psRemove_perm p l).length_eq, List.length_erase_of_mem h]


/-! ### the partition invariant -/

/-- each list is duplicate-free and the three lists are pairwise disjoint -/
structure Inv (g : Group) : Prop where
  ndc : g.connected.Nodup
  ndk : g.kept.Nodup
  ndn : g.known.Nodup
  ck : ∀ x, x ∈ g.connected → x ∉ g.kept
  cn : ∀ x, x ∈ g.connected → x ∉ g.known
  kn : ∀ x, x ∈ g.kept → x ∉ g.known

theorem inv_empty : Inv Group.empty := by
  constructor <;> simp [Group.empty]

/-! what the three operations do to the lists, with the redundant `Exists` guards removed -/

theorem remove_connected (g : Group) (p : Peer) (b : Bool) :
    (remove g p b).1.connected = psRemove p g.connected := by
  unfold remove
  by_cases h : p ∈ g.connected <;> simp [h, psRemove_of_not_mem]

theorem remove_kept (g : Group) (p : Peer) (b : Bool) :
    (remove g p b).1.kept = psRemove p g.kept := by
  unfold remove
  by_cases h : p ∈ g.kept <;> simp [h, psRemove_of_not_mem]

theorem remove_known (g : Group) (p : Peer) (b : Bool) :
    (remove g p b).1.known =
      if p ∈ g.known then (if b then g.known else psRemove p g.known)
      else (if b = true ∧ (p ∈ g.connected ∨ p ∈ g.kept) then psAdd p g.known else g.known) := by
  unfold remove
  by_cases h : p ∈ g.known <;> cases b <;> simp [h]

theorem add_lists (g : Group) (p : Peer) (keep nb : Bool) :
    (add g p keep nb).1 =
      if keep = false then
        { connected := psRemove p g.connected, kept := psRemove p g.kept, known := psAdd p g.known }
      else if nb = true then
        { connected := psAdd p g.connected, kept := psRemove p g.kept, known := psRemove p g.known }
      else
        { connected := psRemove p g.connected, kept := psAdd p g.kept, known := psRemove p g.known } := by
  unfold add
  by_cases hc : p ∈ g.connected <;> by_cases hk : p ∈ g.kept <;> by_cases hn : p ∈ g.known <;>
    cases keep <;> cases nb <;> simp [hc, hk, hn, psRemove_of_not_mem, psAdd_of_mem]

theorem inv_remove {g : Group} (h : Inv g) (p : Peer) (b : Bool) : Inv (remove g p b).1 := by
  have mc : ∀ x, x ∈ psRemove p g.connected ↔ x ∈ g.connected ∧ x ≠ p := fun x => mem_psRemove h.ndc
  have mk : ∀ x, x ∈ psRemove p g.kept ↔ x ∈ g.kept ∧ x ≠ p := fun x => mem_psRemove h.ndk
  have mn : ∀ x, x ∈ psRemove p g.known ↔ x ∈ g.known ∧ x ≠ p := fun x => mem_psRemove h.ndn
  obtain ⟨ndc, ndk, ndn, ck, cn, kn⟩ := h
  constructor
  · rw [remove_connected]; exact nodup_psRemove ndc
  · rw [remove_kept]; exact nodup_psRemove ndk
  · rw [remove_known]; split <;> split <;> first | exact ndn | exact nodup_psRemove ndn | exact nodup_psAdd ndn
  · intro x; rw [remove_connected, remove_kept]; grind
  · intro x; rw [remove_connected, remove_known]
    split <;> split <;> (try simp only [mem_psAdd]) <;> grind
  · intro x; rw [remove_kept, remove_known]
    split <;> split <;> (try simp only [mem_psAdd]) <;> grind

theorem inv_add {g : Group} (h : Inv g) (p : Peer) (keep nb : Bool) : Inv (add g p keep nb).1 := by
  have mc : ∀ x, x ∈ psRemove p g.connected ↔ x ∈ g.connected ∧ x ≠ p := fun x => mem_psRemove h.ndc
  have mk : ∀ x, x ∈ psRemove p g.kept ↔ x ∈ g.kept ∧ x ≠ p := fun x => mem_psRemove h.ndk
  have mn : ∀ x, x ∈ psRemove p g.known ↔ x ∈ g.known ∧ x ≠ p := fun x => mem_psRemove h.ndn
  obtain ⟨ndc, ndk, ndn, ck, cn, kn⟩ := h
  rw [add_lists]
  split
  · constructor <;> simp only [mem_psAdd] <;>
      first | exact nodup_psRemove ‹_› | exact nodup_psAdd ‹_› | grind
  · split
    · constructor <;> simp only [mem_psAdd] <;>
        first | exact nodup_psRemove ‹_› | exact nodup_psAdd ‹_› | grind
    · constructor <;> simp only [mem_psAdd] <;>
        first | exact nodup_psRemove ‹_› | exact nodup_psAdd ‹_› | grind

/-! ### pruneKnown -/

theorem foldl_psRemove_nodup (ps : List Peer) : ∀ l : List Peer, l.Nodup →
    (ps.foldl (fun acc p => psRemove p acc) l).Nodup := by
  induction ps with
  | nil => intro l h; exact h
  | cons p ps ih => intro l h; exact ih _ (nodup_psRemove h)

theorem mem_foldl_psRemove (ps : List Peer) : ∀ l : List Peer, l.Nodup → ∀ x,
    (x ∈ ps.foldl (fun acc p => psRemove p acc) l ↔ x ∈ l ∧ x ∉ ps) := by
  induction ps with
  | nil => intro l _ x; simp
  | cons p ps ih =>
    intro l h x
    rw [List.foldl_cons, ih _ (nodup_psRemove h), mem_psRemove h]
    simp only [List.mem_cons, not_or]
    constructor
    · rintro ⟨⟨a, b⟩, c⟩; exact ⟨a, b, c⟩
    · rintro ⟨a, b, c⟩; exact ⟨⟨a, b⟩, c⟩

theorem mem_drop_iff_of_nodup {l : List Peer} (h : l.Nodup) (k : Nat) (x : Peer) :
    x ∈ l.drop k ↔ x ∈ l ∧ x ∉ l.take k := by
  have e := List.take_append_drop k l
  rw [← e] at h
  rw [List.nodup_append] at h
  obtain ⟨_, _, hd⟩ := h
  constructor
  · intro hx
    refine ⟨List.mem_of_mem_drop hx, fun ht => hd x ht x hx rfl⟩
  · rintro ⟨hx, hnt⟩
    rw [← e, List.mem_append] at hx
    exact hx.resolve_left hnt

/-- `pruneKnown` keeps exactly the peers after the first `len - maxKnown` ones. -/
theorem mem_pruneKnown {g : Group} (h : g.known.Nodup) (x : Peer) :
    x ∈ (pruneKnown g).known ↔ x ∈ g.known.drop (g.known.length - maxKnown) := by
  simp only [pruneKnown]
  split
  · simp only
    rw [mem_foldl_psRemove _ _ h, mem_drop_iff_of_nodup h]
  · rename_i hk
    have : g.known.length - maxKnown = 0 := by omega
    simp [this]

theorem nodup_pruneKnown {g : Group} (h : g.known.Nodup) : (pruneKnown g).known.Nodup := by
  simp only [pruneKnown]
  split
  · exact foldl_psRemove_nodup _ _ h
  · exact h

theorem pruneKnown_connected (g : Group) : (pruneKnown g).connected = g.connected := by
  simp only [pruneKnown]; split <;> rfl

theorem pruneKnown_kept (g : Group) : (pruneKnown g).kept = g.kept := by
  simp only [pruneKnown]; split <;> rfl

theorem inv_prune {g : Group} (h : Inv g) : Inv (pruneKnown g) := by
  have mk := fun x => (mem_pruneKnown h.ndn x).mp
  constructor
  · rw [pruneKnown_connected]; exact h.ndc
  · rw [pruneKnown_kept]; exact h.ndk
  · exact nodup_pruneKnown h.ndn
  · rw [pruneKnown_connected, pruneKnown_kept]; exact h.ck
  · rw [pruneKnown_connected]; intro x hx hn; exact h.cn x hx (List.mem_of_mem_drop (mk x hn))
  · rw [pruneKnown_kept]; intro x hx hn; exact h.kn x hx (List.mem_of_mem_drop (mk x hn))

/-- after `pruneKnown` at most `maxKnown` peers are known -/
theorem length_pruneKnown {g : Group} (h : g.known.Nodup) :
    (pruneKnown g).known.length = min g.known.length maxKnown := by
  have hp : ((pruneKnown g).known).Perm (g.known.drop (g.known.length - maxKnown)) :=
    (List.perm_ext_iff_of_nodup (nodup_pruneKnown h) (h.sublist (List.drop_sublist _ _))).mpr
      (fun x => mem_pruneKnown h x)
  rw [hp.length_eq, List.length_drop]; omega

/-! ### histories -/

theorem inv_apply {g : Group} (h : Inv g) (o : Op) : Inv (apply g o) := by
  cases o with
  | add p k nb => exact inv_add h p k nb
  | remove p b => exact inv_remove h p b
  | prune => exact inv_prune h

def runFrom (g : Group) (ops : List Op) : Group := ops.foldl apply g

theorem inv_runFrom (ops : List Op) : ∀ g, Inv g → Inv (runFrom g ops) := by
  induction ops with
  | nil => intro g h; exact h
  | cons o ops ih => intro g h; exact ih _ (inv_apply h o)

theorem inv_run (ops : List Op) : Inv (run ops) := inv_runFrom ops _ inv_empty

/-- a discovery round is a sequence of `Op` events, so it keeps the partition invariant -/
theorem inv_discover {g : Group} (h : Inv g) (kp : Nat) (script : List Seg) (nbr : Peer → Bool) :
    Inv (discover kp script nbr g) :=
  inv_runFrom _ g h

theorem inv_stepApply {g : Group} (h : Inv g) (s : Step) : Inv (stepApply g s) := by
  cases s with
  | op o => exact inv_apply h o
  | find kp script nbr => exact inv_discover h kp script nbr

theorem inv_runSteps (l : List Step) : Inv (runSteps l) := by
  have : ∀ g, Inv g → Inv (l.foldl stepApply g) := by
    induction l with
    | nil => intro g h; exact h
    | cons s l ih => intro g h; exact ih _ (inv_stepApply h s)
  exact this _ inv_empty

/-- `o` takes `p` out of `connected`: a remove, an add into known, or an add while not a neighbour -/
def unseats (p : Peer) : Op → Bool
  | .add q keep nb => q = p && !(keep && nb)
  | .remove q _ => q = p
  | .prune => false

/-- a peer enters `connected` only through `add peer keep=true` with `IsNeighbor = true` -/
theorem connected_enters {g : Group} {o : Op} {p : Peer} (hp : p ∈ (apply g o).connected) :
    p ∈ g.connected ∨ o = .add p true true := by
  cases o with
  | add q k nb =>
    simp only [apply, add_lists] at hp
    cases k <;> cases nb <;> simp only [Bool.false_eq_true, if_true, if_false] at hp
    · exact Or.inl (mem_of_mem_psRemove hp)
    · exact Or.inl (mem_of_mem_psRemove hp)
    · exact Or.inl (mem_of_mem_psRemove hp)
    · rcases mem_psAdd.mp hp with h | h
      · exact Or.inl h
      · exact Or.inr (by rw [h])
  | remove q b =>
    simp only [apply, remove_connected] at hp
    exact Or.inl (mem_of_mem_psRemove hp)
  | prune =>
    simp only [apply, pruneKnown_connected] at hp
    exact Or.inl hp

theorem unseats_leaves {g : Group} (h : Inv g) {o : Op} {p : Peer} (hu : unseats p o = true) :
    p ∉ (apply g o).connected := by
  cases o with
  | add q k nb =>
    simp only [unseats, Bool.and_eq_true, decide_eq_true_eq] at hu
    obtain ⟨rfl, hk⟩ := hu
    simp only [apply, add_lists]
    cases k <;> cases nb <;> simp at hk <;> simp [mem_psRemove h.ndc]
  | remove q b =>
    simp only [unseats, decide_eq_true_eq] at hu
    subst hu
    simp [apply, remove_connected, mem_psRemove h.ndc]
  | prune => simp [unseats] at hu

theorem connected_history (p : Peer) (ops : List Op) : ∀ g, Inv g →
    p ∈ (runFrom g ops).connected →
    (p ∈ g.connected ∧ ∀ o ∈ ops, unseats p o = false) ∨
    ∃ pre post, ops = pre ++ Op.add p true true :: post ∧ ∀ o ∈ post, unseats p o = false := by
  induction ops with
  | nil => intro g _ hp; exact Or.inl ⟨hp, by simp⟩
  | cons o ops ih =>
    intro g hg hp
    rcases ih (apply g o) (inv_apply hg o) hp with ⟨h1, h2⟩ | ⟨pre, post, e, h2⟩
    · rcases connected_enters h1 with h | h
      · left
        refine ⟨h, ?_⟩
        intro o' ho'
        rcases List.mem_cons.mp ho' with rfl | h'
        · cases hu : unseats p o' with
          | false => rfl
          | true => exact absurd h1 (unseats_leaves hg hu)
        · exact h2 o' h'
      · right; exact ⟨[], ops, by simp [h], h2⟩
    · right; exact ⟨o :: pre, post, by simp [e], h2⟩

end Aurora.Group
