import Aurora.Model.Proximity
/-
Model of /repo/pkg/topology/pslice/pslice.go (hand translation, tied by the C21 correspondence
run), after the `fix:` commit that makes the batch path of `Add` re-check the bin before each
append.  A bin is the `List` of the addresses in slice order (order is observable through
iteration and `BinPeers`, so it is modelled, not abstracted).  Capacities and backing arrays are
not part of this model — they are in `Aurora/Model/PSliceMem.lean`, which refines this one.

`maxBins ≥ 1` is assumed (kademlia passes `boson.MaxBins`); with `maxBins = 0` every
`Add/Remove/Exists` indexes `s.peers[255]` and panics — the generator does not produce it.
-/
namespace Aurora.PSlice
open Aurora.Proximity

abbrev Addr := List Byte

structure PS where
  bins    : List (List Addr)   -- s.peers
  base    : Addr               -- s.baseBytes
  maxBins : Nat
deriving Repr, DecidableEq

/-- `New(maxBins, base)` -/
def new (maxBins : Nat) (base : Addr) : PS :=
  { bins := List.replicate maxBins [], base := base, maxBins := maxBins }

/-- `s.peers[po]` -/
def bin (s : PS) (po : Nat) : List Addr := s.bins[po]?.getD []

def setBin (s : PS) (po : Nat) (b : List Addr) : PS := { s with bins := s.bins.set po b }

/-- `s.po(peer)`: proximity to the base, capped at the last bin (`uint8(s.maxBins) - 1`). -/
def po (s : PS) (a : Addr) : Nat :=
  let p := proximity s.base a
  if p ≥ s.maxBins then (s.maxBins % 256 + 255) % 256 else p

/-- loop of `s.index(addr, po)`: position of the first equal peer. -/
def indexFrom (a : Addr) : List Addr → Nat → Option Nat
  | [], _ => none
  | p :: ps, i => if p = a then some i else indexFrom a ps (i + 1)

def index (s : PS) (a : Addr) (po : Nat) : Option Nat := indexFrom a (bin s po) 0

/-- the single-address path of `Add` (also the body of the last loop of the batch path). -/
def addOne (s : PS) (a : Addr) : PS :=
  let po := po s a
  if (index s a po).isSome then s else setBin s po (bin s po ++ [a])

/-- first loop of the batch path: `exists[i]` for every address, against the state *before* any
    insertion. -/
def existsFlags (s : PS) (addrs : List Addr) : List Bool :=
  addrs.map (fun a => (index s a (po s a)).isSome)

/-- last loop of the batch path: skip `exists[i]`; otherwise (repaired code) check the bin again
    and append.  (The middle loop only grows capacities — see `PSliceMem`.) -/
def addLoop : PS → List (Addr × Bool) → PS
  | s, [] => s
  | s, (a, e) :: rest => if e then addLoop s rest else addLoop (addOne s a) rest

/-- `Add(addrs...)` -/
def add (s : PS) (addrs : List Addr) : PS :=
  match addrs with
  | [a] => addOne s a
  | _ => addLoop s (addrs.zip (existsFlags s addrs))

/-- the batch path before the repair: no second check, so the same address twice in one batch was
    appended twice. -/
def addLoopOld : PS → List (Addr × Bool) → PS
  | s, [] => s
  | s, (a, e) :: rest =>
    if e then addLoopOld s rest else addLoopOld (setBin s (po s a) (bin s (po s a) ++ [a])) rest

def addOld (s : PS) (addrs : List Addr) : PS :=
  match addrs with
  | [a] => addOne s a
  | _ => addLoopOld s (addrs.zip (existsFlags s addrs))

/-- `Remove(addr)`: copy of the bin without its last element; the removed slot (unless it was the
    last) receives the former last element. -/
def remove (s : PS) (a : Addr) : PS :=
  let po := po s a
  let b := bin s po
  match index s a po with
  | none => s
  | some i =>
    let newLength := b.length - 1
    let cpy := b.take newLength
    if i = newLength then setBin s po cpy
    else setBin s po (cpy.set i (b[newLength]?.getD []))

/-- `Exists(addr)` -/
def «exists» (s : PS) (a : Addr) : Bool := (index s a (po s a)).isSome

/-- `BinSize(bin)` (`bin` is a `uint8`; `0` for `bin ≥ maxBins`) -/
def binSize (s : PS) (b : Nat) : Nat := if b ≥ s.maxBins then 0 else (bin s b).length

/-- `BinPeers(bin)` -/
def binPeers (s : PS) (b : Nat) : List Addr := if b ≥ s.maxBins then [] else bin s b

/-- `Length()` -/
def length (s : PS) : Nat := s.bins.foldl (fun acc b => acc + b.length) 0

/-- loop of `ShallowestEmpty()`; `none` = the `(0, true)` answer "no empty bin". -/
def shallowestEmptyFrom : List (List Addr) → Nat → Option Nat
  | [], _ => none
  | b :: bs, i => if b.length = 0 then some (i % 256) else shallowestEmptyFrom bs (i + 1)

def shallowestEmpty (s : PS) : Option Nat := shallowestEmptyFrom s.bins 0

/-! ### Iteration

The callback is a state transformer over an arbitrary state `σ`; it may contain the `PSlice`
itself (`get : σ → PS`), because the Go code holds no lock while it runs the callback: another
goroutine's — or the callback's own — `Add/Remove` interleaves at exactly these points. -/

/-- what the three results `(stop, jumpToNext, err)` make the loop do; `err` is tested first. -/
inductive Ctl | go | next | stop | err
deriving Repr, DecidableEq

def ctlOf (stop next err : Bool) : Ctl :=
  if err then .err else if stop then .stop else if next then .next else .go

inductive BinOutcome | exhausted | stopped | failed
deriving Repr, DecidableEq

/-- `for _, peer := range peers { … }` over the snapshot `peers` of one bin. -/
def iterPeers {σ : Type} (pf : σ → Addr → Nat → σ × Ctl) (po : Nat) : List Addr → σ → σ × BinOutcome
  | [], st => (st, .exhausted)
  | p :: ps, st =>
    match pf st p po with
    | (st', .err) => (st', .failed)
    | (st', .stop) => (st', .stopped)
    | (st', .next) => (st', .exhausted)
    | (st', .go) => iterPeers pf po ps st'

/-- the outer loop over the bin indices `is`; the snapshot `peers := s.peers[i]` is taken from the
    *current* slice.  Result `true` = `nil`, `false` = the callback's error. -/
def eachBins {σ : Type} (get : σ → PS) (pf : σ → Addr → Nat → σ × Ctl) : List Nat → σ → σ × Bool
  | [], st => (st, true)
  | i :: is, st =>
    match iterPeers pf i (bin (get st) i) st with
    | (st', .failed) => (st', false)
    | (st', .stopped) => (st', true)
    | (st', .exhausted) => eachBins get pf is st'

/-- `EachBin`: deepest bin first. -/
def eachBin {σ : Type} (get : σ → PS) (pf : σ → Addr → Nat → σ × Ctl) (st : σ) : σ × Bool :=
  eachBins get pf (List.range (get st).maxBins).reverse st

/-- `EachBinRev`: shallowest bin first. -/
def eachBinRev {σ : Type} (get : σ → PS) (pf : σ → Addr → Nat → σ × Ctl) (st : σ) : σ × Bool :=
  eachBins get pf (List.range (get st).maxBins) st

end Aurora.PSlice
