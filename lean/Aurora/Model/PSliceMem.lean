import Aurora.Model.PSlice
/-
Finer model of the memory behind `PSlice.peers` (DESIGN §6 C21 `PSliceMem`): every bin is a Go
slice header `(arr, len, cap)` into a heap of backing arrays.  Only what the snapshot-isolation
argument needs is modelled: the two kinds of writes that `Add`/`Remove` perform on this memory.

* `write i a`  — `append(s.peers[i], a)` when `len < cap`: stores `a` at index `len` of the bin's
  current array and bumps `len` (the array is shared with every earlier snapshot of the bin).
* `realloc i content len cap` — everything else: `append` with `len = cap` (new array holding the
  old elements and `a`), the capacity pre-grow of the batch path (`make` + `copy`), and `Remove`
  (`cpy := make(..); copy(..); cpy[i] = last`): a *fresh* array is allocated, filled, and the bin
  header is redirected to it.  The old array is never written.

`EachBin` reads the header under `RLock` (a *snapshot*) and then reads `arr[0..len)` without a lock.
Which of these steps the real `Add`/`Remove`/`EachBin` perform, in which order and with which
arguments, is in `Aurora/Model/PSliceMemOps.lean`; that their contents equal the list model
`Aurora.PSlice` is `C21_mem_refines_list`.  Go's growth policy is an oracle there (any capacity
`≥ len+1`), observed on the real slice by the correspondence run.
-/
namespace Aurora.PSliceMem
open Aurora.PSlice (Addr)

structure Hdr where
  arr : Nat
  len : Nat
  cap : Nat
deriving DecidableEq, Repr

structure Mem where
  heap : List (List Addr)   -- backing arrays by id
  bins : List Hdr           -- s.peers[i]

def cells (m : Mem) (id : Nat) : List Addr := m.heap[id]?.getD []
def hdr (m : Mem) (i : Nat) : Hdr := m.bins[i]?.getD ⟨0, 0, 0⟩

/-- what a reader holding the slice header `h` sees -/
def read (m : Mem) (h : Hdr) : List Addr := (cells m h.arr).take h.len

inductive Prim
  | write (i : Nat) (a : Addr)
  | realloc (i : Nat) (content : List Addr) (len cap : Nat)
deriving DecidableEq, Repr

def step (m : Mem) : Prim → Mem
  | .write i a =>
    let h := hdr m i
    if h.len < h.cap then
      { heap := m.heap.set h.arr ((cells m h.arr).set h.len a),
        bins := m.bins.set i { h with len := h.len + 1 } }
    else m
  | .realloc i content len cap =>
    if len ≤ cap ∧ cap ≤ content.length then
      { heap := m.heap ++ [content], bins := m.bins.set i ⟨m.heap.length, len, cap⟩ }
    else m

def run (m : Mem) (ps : List Prim) : Mem := ps.foldl step m

/-- `New(maxBins, base)`: every bin is the nil slice (no array: id 0 is a shared empty array). -/
def init (maxBins : Nat) : Mem := { heap := [[]], bins := List.replicate maxBins ⟨0, 0, 0⟩ }

end Aurora.PSliceMem
