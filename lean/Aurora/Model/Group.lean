import Aurora.Generated.Consts
/-!
Model of the membership transitions of `/repo/pkg/multicast/group.go`
(`Group.add`, `Group.remove`, `Group.pruneKnown`) over the three peer lists
`connectedPeers`, `keepPeers`, `knownPeers`.

Each list is a `pslice.PSlice` with ONE bin (`pslice.New(1, self)`), i.e. a plain slice:
* `Add(p)`    appends `p` at the end unless it is already there (`psAdd`);
* `Remove(p)` deletes the first occurrence of `p` by overwriting it with the LAST element
  and shortening the slice by one (`psRemove`; the order is therefore *not* insertion
  order after a removal, and the model reproduces the real order);
* `BinPeers(0)` / `EachBin` enumerate the slice front to back.

`route.IsNeighbor(peer)` is an oracle: the answer is an argument of `add`.
Peers are natural numbers (the harness maps 32-byte overlay addresses to indices).
Core Lean only.
-/
namespace Aurora.Group

abbrev Peer := Nat

/-- `PSlice.Add` (single address, one bin). -/
def psAdd (p : Peer) (l : List Peer) : List Peer :=
  if p ∈ l then l else l ++ [p]

/-- `PSlice.Remove` (one bin): the first occurrence of `p` is replaced by the last element
    and the slice shrinks by one; no-op if `p` is absent.  (Written recursively: at the first
    `x = p` the rest `xs` either is empty — `p` was last — or its last element moves here.) -/
def psRemove (p : Peer) : List Peer → List Peer
  | [] => []
  | x :: xs =>
    if x = p then
      match xs.getLast? with
      | none => []
      | some z => z :: xs.dropLast
    else x :: psRemove p xs

/-- The three peer lists of a `Group`. -/
structure Group where
  connected : List Peer := []
  kept      : List Peer := []
  known     : List Peer := []
deriving Repr, DecidableEq

def Group.empty : Group := {}

/-- `Group.remove(peer, intoKnown)`.  The Go code guards every `Remove` with `Exists` and
    every `Add` with `!Exists`; those guards are no-ops on the lists (`psRemove` of an absent
    peer and `psAdd` of a present one are the identity) and only decide the `notify` flag,
    which is the second component (whether `notifyPeers()` is called). -/
def remove (g : Group) (peer : Peer) (intoKnown : Bool) : Group × Bool :=
  let inC := decide (peer ∈ g.connected)
  let c := if inC then psRemove peer g.connected else g.connected
  let inK := decide (peer ∈ g.kept)
  let k := if inK then psRemove peer g.kept else g.kept
  let notify := inC || inK
  let n :=
    if peer ∈ g.known then
      (if !intoKnown then psRemove peer g.known else g.known)
    else
      (if intoKnown && notify then psAdd peer g.known else g.known)
  ({ connected := c, kept := k, known := n }, notify)

/-- `Group.add(peer, keep)` with the answer `isNbr` of `route.IsNeighbor(peer)`
    (only consulted when `keep` is true, as in the code). -/
def add (g : Group) (peer : Peer) (keep : Bool) (isNbr : Bool) : Group × Bool :=
  let inC := decide (peer ∈ g.connected)
  let inK := decide (peer ∈ g.kept)
  if !keep then
    ({ connected := if inC then psRemove peer g.connected else g.connected,
       kept := if inK then psRemove peer g.kept else g.kept,
       known := if peer ∈ g.known then g.known else psAdd peer g.known }, inC || inK)
  else if isNbr then
    -- direct connect peer
    ({ connected := if inC then g.connected else psAdd peer g.connected,
       kept := if inK then psRemove peer g.kept else g.kept,
       known := if peer ∈ g.known then psRemove peer g.known else g.known }, !inC || inK)
  else
    -- not direct connect peer
    ({ connected := if inC then psRemove peer g.connected else g.connected,
       kept := if inK then g.kept else psAdd peer g.kept,
       known := if peer ∈ g.known then psRemove peer g.known else g.known }, inC || !inK)

/-- `maxKnownPeers` (extracted from discover.go at every run). -/
def maxKnown : Nat := Aurora.Generated.mcMaxKnownPeers

/-- `Group.pruneKnown()`: with `k = len(known) - maxKnownPeers > 0`, walk a snapshot of the
    known list from the front and `Remove` each peer until `k` removals were made. -/
def pruneKnown (g : Group) : Group :=
  let k := g.known.length - maxKnown
  if k > 0 then
    { g with known := (g.known.take k).foldl (fun acc p => psRemove p acc) g.known }
  else g

/-- Membership events, for statements over histories. -/
inductive Op where
  | add (peer : Peer) (keep : Bool) (isNbr : Bool)
  | remove (peer : Peer) (intoKnown : Bool)
  | prune
deriving Repr, DecidableEq

def apply (g : Group) : Op → Group
  | .add p keep nb => (add g p keep nb).1
  | .remove p into => (remove g p into).1
  | .prune => pruneKnown g

/-- State after a history of events, starting from the empty group (`newGroup`). -/
def run (ops : List Op) : Group := ops.foldl apply Group.empty

end Aurora.Group
