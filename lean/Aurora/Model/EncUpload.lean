import Aurora.Model.HashTrie
import Aurora.Model.Joiner
import Aurora.Model.DecryptStore
/-!
# The encrypted upload pipeline and encrypted file trees (C01, encrypted mode)

Model of `builder.newEncryptionPipeline`:

    feeder(ChunkSize) → encryptionWriter → bmtWriter → storeWriter → hashTrieWriter(ChunkSize, 4096, 64)

with the hash-trie's short pipeline `encryptionWriter → bmtWriter → storeWriter`
(`newShortEncryptionPipelineFunc`), and of the reader side `store.New(getter)` (the decrypting
getter) under the joiner.

* `encryptionWriter.ChainWrite` (`pipeline/encryption/encryption.go`): `EncryptChunk(p.Data)` draws a
  random 32-byte key, encrypts `p.Data[:8]` with the span encryption (no padding, counter
  `ChunkSize/64`) and `p.Data[8:]` with the data encryption (padded with random bytes to
  `ChunkSize`, counter 0) — `Aurora.Encryption.encryptChunk` (C08's model) — then replaces `p.Data`
  by `encryptedSpan ‖ encryptedData` and sets `p.Key`; **`p.Span` keeps the plain span**.
* `bmtWriter.ChainWrite`: `p.Ref = addr p.Data[:8] p.Data[8:]` (`addr` = the BMT chunk hash, a
  parameter; the theorems never unfold it).  Its length check `8 ≤ len(p.Data) ≤ ChunkSize + 8`
  always passes here (`EncryptChunk` returns `8 + ChunkSize` bytes, `C08_encrypt_len`) and is not
  represented, as in the plain model.
* `storeWriter.ChainWrite`: `Put(p.Ref, p.Data)` — the Put log holds `(address, encrypted chunk)`.
* `hashTrieWriter`: the generic `HashTrie.push` / `sumUp` on records `span ‖ ref ‖ key`
  (`EE.span`, `EE.ref = address ‖ key`, 64 bytes); `wrapEE` is `wrapFullLevel`'s short pipeline.

**Random choices.**  The key and the padding bytes `crypto/rand` hands to one `EncryptChunk` call are
oracle values.  The oracle is a function `orc : offset → span → key × padding` of the *position* of
the chunk being encrypted (byte offset of the first content byte below it, and its span).  Every
`EncryptChunk` call of an upload has its own position (a node's span is larger than its first
child's), so quantifying over `orc` is quantifying over all outcomes of the random draws, call by
call — in particular two chunks with identical plain content get independent keys.  The position is
ghost state (`EE.off`, `Upload.fed`) that the Go writer does not keep; it is used for nothing else.
A draw is *admissible* when the key has 32 bytes and the padding has `ChunkSize − |payload|` bytes
(`AdmissibleAt`): what `GenerateRandomKey(32)` and `pad(out[len(data):])` can return.

`P` is the padding size and `R` the reference size of `chunk_encryption.go` (`boson.ChunkSize`, 64:
constants of the encryption package, not of the writers); `C`, `B` are the feeder's chunk size and
the hash-trie's branching (`ChunkSize`, `Branches/2 = 4096` in the builder; the driver's
`new encsmall C B` instantiates the same writers with small values, as C02's `new small` does).

`ET` is a file tree decorated with the `(key, padding)` drawn for each chunk; `ET.plain` forgets the
decoration (`Tree.T`), `ET.ref` is the 64-byte reference, `ET.chunks` the `(reference, plain chunk)`
pairs the decrypting getter has to return, `ET.stored` the `(address, encrypted chunk)` pairs the
store has to hold.
-/
namespace Aurora.EncUpload
open Aurora.Bmt (Bytes)
open Aurora.Cac (le64)
open Aurora.Tree Aurora.HashTrie Aurora.Encryption

/-! ## Decorated trees -/

inductive ET where
  | leaf (key pad : Bytes) (d : Bytes)
  | node (key pad : Bytes) (span : Nat) (kids : List ET)
deriving Repr

def ET.size : ET → Nat
  | .leaf _ _ d => d.length
  | .node _ _ s _ => s

mutual
def ET.flat : ET → Bytes
  | .leaf _ _ d => d
  | .node _ _ _ ks => eflatL ks
def eflatL : List ET → Bytes
  | [] => []
  | t :: ts => t.flat ++ eflatL ts
end

mutual
/-- forget keys and paddings -/
def ET.plain : ET → T
  | .leaf _ _ d => .leaf d
  | .node _ _ s ks => .node s (plainL ks)
def plainL : List ET → List T
  | [] => []
  | t :: ts => t.plain :: plainL ts
end

section Ref
-- `eref key pad span8 payload`: the reference of the chunk `span8 ‖ payload` encrypted with `key` / `pad`
variable (eref : Bytes → Bytes → Bytes → Bytes → Bytes)

mutual
def ET.ref : ET → Bytes
  | .leaf k p d => eref k p (le64 d.length) d
  | .node k p s ks => eref k p (le64 s) (erefsL ks)
def erefsL : List ET → Bytes
  | [] => []
  | t :: ts => t.ref ++ erefsL ts
end

/-- plain chunk payload -/
def ET.payload : ET → Bytes
  | .leaf _ _ d => d
  | .node _ _ _ ks => erefsL eref ks

/-- the plain chunk bytes (what the decrypting getter returns): span ‖ payload -/
def ET.data (t : ET) : Bytes := le64 t.size ++ t.payload eref

mutual
/-- `(reference, plain chunk)` of every node, root first -/
def ET.chunks : ET → List (Bytes × Bytes)
  | .leaf k p d => [(eref k p (le64 d.length) d, le64 d.length ++ d)]
  | .node k p s ks => (eref k p (le64 s) (erefsL eref ks), le64 s ++ erefsL eref ks) :: echunksL ks
def echunksL : List ET → List (Bytes × Bytes)
  | [] => []
  | t :: ts => t.chunks ++ echunksL ts
end

-- `echunk key pad span8 payload`: `(address, encrypted chunk)` as stored
variable (echunk : Bytes → Bytes → Bytes → Bytes → Bytes × Bytes)

/-- the node's own `(address, encrypted chunk)` -/
def ET.own : ET → Bytes × Bytes
  | .leaf k p d => echunk k p (le64 d.length) d
  | .node k p s ks => echunk k p (le64 s) (erefsL eref ks)

mutual
/-- `(address, encrypted chunk)` of every node, root first -/
def ET.stored : ET → List (Bytes × Bytes)
  | .leaf k p d => [echunk k p (le64 d.length) d]
  | .node k p s ks => echunk k p (le64 s) (erefsL eref ks) :: estoredL ks
def estoredL : List ET → List (Bytes × Bytes)
  | [] => []
  | t :: ts => t.stored ++ estoredL ts
end

end Ref

/-- Well-formed decorated tree of height ≤ `h`: `Tree.WF` on the decorated type. -/
def EWF (C B : Nat) : Nat → ET → Prop
  | 0, t => ∃ k p d, t = .leaf k p d ∧ d.length ≤ C
  | h + 1, t => EWF C B h t ∨
      ∃ k p span init last, t = .node k p span (init ++ [last]) ∧ 1 ≤ init.length ∧ init.length + 1 ≤ B ∧
        (∀ x ∈ init, EWF C B h x ∧ x.size = C * B ^ h) ∧
        EWF C B h last ∧ 0 < last.size ∧ last.size ≤ C * B ^ h ∧
        span = ((init ++ [last]).map ET.size).sum

/-! ## The writers -/

section Pipeline
variable (H : Bytes → Bytes) (addr : Bytes → Bytes → Bytes) (P R : Nat)

/-- `EncryptChunk` made total: `(encryptedSpan, encryptedData)`.  `EncryptChunk`'s only error is
    "payload longer than `ChunkSize`", unreachable in the pipeline: the feeder hands down payloads
    of at most `C ≤ P` bytes and a wrapped group has at most `B` references of 64 bytes with
    `64 · B ≤ P` (the driver rejects other parameters); the model's `.badOracle` is not a behaviour
    of the code — the driver checks the admissibility of the observed key / padding
    (`AdmissibleAt`) before running the model. -/
def encT (key pad cd : Bytes) : Bytes × Bytes :=
  match encryptChunk H P R key pad cd with
  | .ok r => r
  | .error _ => ([], [])

/-- encryptionWriter → bmtWriter → storeWriter on the chunk `span8 ‖ payload`:
    what is `Put`: `(p.Ref, p.Data)` -/
def echunkOf (key pad span8 payload : Bytes) : Bytes × Bytes :=
  let c := encT H P R key pad (span8 ++ payload)
  (addr c.1 c.2, c.1 ++ c.2)

/-- … and what goes to the next level: `p.Ref ‖ p.Key` -/
def erefOf (key pad span8 payload : Bytes) : Bytes :=
  (echunkOf H addr P R key pad span8 payload).1 ++ key

/-- one record of the hash-trie buffer: `span ‖ ref ‖ key` (`ref` here = address ‖ key), with the
    ghost offset -/
structure EE where
  off : Nat
  span : Nat
  ref : Bytes
deriving Repr, DecidableEq

variable (orc : Nat → Nat → Bytes × Bytes)

def groupOff : List EE → Nat
  | [] => 0
  | e :: _ => e.off

def groupSpan (g : List EE) : Nat := (g.map EE.span).sum

/-- `wrapFullLevel`: sum the spans, concatenate `ref ‖ key` of the records, run the short
    encryption pipeline on `span ‖ refs`, and form the record for the next level -/
def wrapEE (g : List EE) : EE :=
  let s := groupSpan g
  let o := groupOff g
  let kp := orc o s
  ⟨o, s, erefOf H addr P R kp.1 kp.2 (le64 s) (g.flatMap EE.ref)⟩

/-- the chunk the short pipeline stores for a wrapped group -/
def groupChunk (g : List EE) : Bytes × Bytes :=
  let s := groupSpan g
  let kp := orc (groupOff g) s
  echunkOf H addr P R kp.1 kp.2 (le64 s) (g.flatMap EE.ref)

variable (C B : Nat)

structure Upload where
  feeder : Aurora.Feeder.State := {}
  trie : State EE := State.new
  puts : List (Bytes × Bytes) := []          -- every `Put(address, encrypted chunk)` in order
  failed : Bool := false
  fed : Nat := 0                               -- ghost: content bytes handed down by the feeder so far

/-- one data chunk through encryption → bmt → store → hashtrie -/
def feedChunk (u : Upload) (payload : Bytes) : Upload :=
  if u.failed then u else
  let kp := orc u.fed payload.length
  let sp := le64 payload.length
  let e : EE := ⟨u.fed, payload.length, erefOf H addr P R kp.1 kp.2 sp payload⟩
  let u := { u with puts := u.puts ++ [echunkOf H addr P R kp.1 kp.2 sp payload], fed := u.fed + payload.length }
  match chainWrite (wrapEE H addr P R orc) B u.trie e with
  | .error _ => { u with failed := true }
  | .ok (t, gs) => { u with trie := t, puts := u.puts ++ gs.map (groupChunk H addr P R orc) }

/-- `pipeline.Write(b)` -/
def Upload.write (u : Upload) (b : Bytes) : Upload × Option Int :=
  let (f, chunks, n) := Aurora.Feeder.write C u.feeder b
  let u := chunks.foldl (feedChunk H addr P R orc B) { u with feeder := f }
  (u, if u.failed then none else some n)

/-- `pipeline.Sum()`: the 64-byte reference `address ‖ key` of the root, or `none` on error -/
def Upload.sum (u : Upload) : Upload × Option Bytes :=
  let (f, chunks) := Aurora.Feeder.sum u.feeder
  let u := chunks.foldl (feedChunk H addr P R orc B) { u with feeder := f }
  if u.failed then (u, none) else
  match trieSum (wrapEE H addr P R orc) B u.trie with
  | .error _ => (u, none)
  | .ok (e, gs) => ({ u with puts := u.puts ++ gs.map (groupChunk H addr P R orc) }, some e.ref)

/-- a whole encrypted upload: the writes in order, then `Sum` -/
def upload (segs : List Bytes) : Upload × Option Bytes :=
  (segs.foldl (fun (u : Upload) b => (u.write H addr P R orc C B b).1) ({} : Upload)).sum H addr P R orc B

/-- what `GenerateRandomKey(32)` and `pad(out[len(data):])` can return for a chunk whose payload has
    `n` bytes -/
def AdmissibleAt (key pad : Bytes) (n : Nat) : Prop := key.length = 32 ∧ pad.length = P - n

end Pipeline

/-! ## The decrypting getter under the joiner -/

/-- `store.New(getter).Get(…)` as the joiner sees it (`ch.Data()` or an error); errors of
    `decryptChunkData` (wrong ciphertext length) are reported as `.notFound` — the joiner only
    distinguishes error / no error -/
def encGet (H : Bytes → Bytes) (P R hashSize : Nat) (lookup : Bytes → Option Bytes) (ref : Bytes) :
    Except Aurora.Joiner.Err Bytes :=
  match Aurora.DecryptStore.storeGet H P R hashSize lookup ref with
  | .ok (_, d) => .ok d
  | .error .refLength => .error .refLength
  | .error _ => .error .notFound

end Aurora.EncUpload
