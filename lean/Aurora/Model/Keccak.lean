/-!
Executable Keccak-256 (legacy padding 0x01, as `sha3.NewLegacyKeccak256`) in core Lean.

Used ONLY by the driver (to produce real digests comparable byte-for-byte with Go) — theorems
never unfold it: every model is parametric in the hash function.  Validated against Go's
implementation by the C03/C04 correspondence runs (known-answer vectors + random inputs).
-/
namespace Aurora.Keccak

def roundConstants : Array UInt64 := #[
  0x0000000000000001, 0x0000000000008082, 0x800000000000808A, 0x8000000080008000,
  0x000000000000808B, 0x0000000080000001, 0x8000000080008081, 0x8000000000008009,
  0x000000000000008A, 0x0000000000000088, 0x0000000080008009, 0x000000008000000A,
  0x000000008000808B, 0x800000000000008B, 0x8000000000008089, 0x8000000000008003,
  0x8000000000008002, 0x8000000000000080, 0x000000000000800A, 0x800000008000000A,
  0x8000000080008081, 0x8000000000008080, 0x0000000080000001, 0x8000000080008008]

/-- rotation offsets, index = x + 5*y -/
def rotc : Array UInt64 := #[
  0, 1, 62, 28, 27,
  36, 44, 6, 55, 20,
  3, 10, 43, 25, 39,
  41, 45, 15, 21, 8,
  18, 2, 61, 56, 14]

@[inline] def rotl (x : UInt64) (n : UInt64) : UInt64 :=
  if n == 0 then x else (x <<< n) ||| (x >>> (64 - n))

def keccakF (a : Array UInt64) : Array UInt64 := Id.run do
  let mut a := a
  for r in [0:24] do
    -- theta
    let mut c : Array UInt64 := Array.replicate 5 0
    for x in [0:5] do
      c := c.set! x (a[x]! ^^^ a[x+5]! ^^^ a[x+10]! ^^^ a[x+15]! ^^^ a[x+20]!)
    for x in [0:5] do
      let d := c[(x+4)%5]! ^^^ rotl c[(x+1)%5]! 1
      for y in [0:5] do
        a := a.set! (x+5*y) (a[x+5*y]! ^^^ d)
    -- rho + pi
    let mut b : Array UInt64 := Array.replicate 25 0
    for x in [0:5] do
      for y in [0:5] do
        b := b.set! (y + 5*((2*x+3*y)%5)) (rotl a[x+5*y]! rotc[x+5*y]!)
    -- chi
    for x in [0:5] do
      for y in [0:5] do
        a := a.set! (x+5*y) (b[x+5*y]! ^^^ ((~~~ b[(x+1)%5+5*y]!) &&& b[(x+2)%5+5*y]!))
    -- iota
    a := a.set! 0 (a[0]! ^^^ roundConstants[r]!)
  return a

def rate : Nat := 136

/-- xor a 136-byte block (at `off` of `data`) into the state -/
def absorbBlock (st : Array UInt64) (data : ByteArray) (off : Nat) : Array UInt64 := Id.run do
  let mut st := st
  for i in [0:17] do
    let mut w : UInt64 := 0
    for j in [0:8] do
      w := w ||| ((data.get! (off + 8*i + j)).toUInt64 <<< (8 * j).toUInt64)
    st := st.set! i (st[i]! ^^^ w)
  return keccakF st

def keccak256 (msg : ByteArray) : ByteArray := Id.run do
  let n := msg.size
  let full := n / rate
  let mut st : Array UInt64 := Array.replicate 25 0
  for k in [0:full] do
    st := absorbBlock st msg (k * rate)
  -- last (padded) block
  let rem := n - full * rate
  let mut last : ByteArray := ByteArray.empty
  for j in [0:rem] do
    last := last.push (msg.get! (full * rate + j))
  for _ in [rem:rate] do
    last := last.push 0
  last := last.set! rem (last.get! rem ||| 0x01)
  last := last.set! (rate - 1) (last.get! (rate - 1) ||| 0x80)
  st := absorbBlock st last 0
  let mut out : ByteArray := ByteArray.empty
  for i in [0:4] do
    for j in [0:8] do
      out := out.push ((st[i]! >>> (8 * j).toUInt64).toUInt8)
  return out

end Aurora.Keccak
