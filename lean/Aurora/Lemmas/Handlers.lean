import Aurora.Model.Handlers
/-! Helper lemmas for the C37 theorems (core Lean only). -/
namespace Aurora.Handlers

/-- "did not panic" -/
def NoPanic {α : Type} (x : M α) : Prop := ∃ a, x = .ok a

theorem noPanic_isOk {α : Type} {x : M α} (h : NoPanic x) : x.isOk = true := by
  rcases h with ⟨a, rfl⟩; rfl

theorem each_ok {α : Type} (l : List α) (f : α → M Unit) (h : ∀ a ∈ l, f a = .ok ()) :
    each l f = .ok () := by
  induction l with
  | nil => rfl
  | cons a r ih =>
    have ha : f a = .ok () := h a (by simp)
    have hr : each r f = .ok () := ih (fun b hb => h b (by simp [hb]))
    simp only [each, ha, hr, bind, Except.bind]

theorem idx_zero_ok {α : Type} (l : List α) (h : 0 < l.length) : ∃ a, idx l 0 = .ok a := ⟨_, idx_ok l 0 h⟩

theorem bvGet_ok (v : BV) (i : Nat) (h : i / 8 < v.b.length) : ∃ r, bvGet v i = .ok r := by
  unfold bvGet
  rw [idx_ok v.b (i / 8) h]
  exact ⟨_, rfl⟩

theorem bvFromBytes_some {b : Bytes} {l : Nat} {v : BV} (h : bvFromBytes b l = some v) :
    v.len = l ∧ v.b = b ∧ 1 ≤ l ∧ l ≤ b.length * 8 := by
  unfold bvFromBytes at h
  split at h
  · cases h
  · rename_i hc
    cases h
    refine ⟨rfl, rfl, ?_, ?_⟩ <;> omega

theorem bvFromBytes_ok {b : Bytes} {l : Nat} (h1 : 1 ≤ l) (h2 : l ≤ b.length * 8) :
    bvFromBytes b l = some ⟨l, b⟩ := by
  unfold bvFromBytes
  have : ¬ (l = 0 ∨ b.length * 8 < l) := by omega
  simp [this]

theorem bvSetBit_ok (v : BV) (i : Nat) (h : i / 8 < v.b.length) :
    ∃ v', bvSetBit v i = .ok v' ∧ v'.len = v.len ∧ v'.b.length = v.b.length := by
  unfold bvSetBit
  rw [idx_ok v.b (i / 8) h]
  simp only [bind, Except.bind, pure, Except.pure]
  split
  · exact ⟨_, rfl, rfl, rfl⟩
  · exact ⟨_, rfl, rfl, by simp⟩

/-- the bit loop of `SetBytes` stays inside both slices as long as they have the same length
    (the loop bound is `len(bv.b)*8`) -/
theorem bvSetLoop_ok (bs : Bytes) : ∀ (n i : Nat) (v : BV), bs.length = v.b.length → i + n ≤ v.b.length * 8 →
    ∃ v', bvSetLoop bs n i v = .ok v' ∧ v'.len = v.len ∧ v'.b.length = v.b.length := by
  intro n
  induction n with
  | zero => intro i v _ _; exact ⟨_, rfl, rfl, rfl⟩
  | succ n ih =>
    intro i v hl hb
    unfold bvSetLoop
    have hi : i / 8 < v.b.length := by omega
    rw [idx_ok bs (i / 8) (by omega)]
    simp only [bind, Except.bind]
    split
    · obtain ⟨v1, e1, l1, b1⟩ := bvSetBit_ok v i hi
      rw [e1]
      obtain ⟨v2, e2, l2, b2⟩ := ih (i + 1) v1 (by omega) (by omega)
      exact ⟨v2, e2, by omega, by omega⟩
    · obtain ⟨v2, e2, l2, b2⟩ := ih (i + 1) v (by omega) (by omega)
      exact ⟨v2, e2, l2, b2⟩

/-- `SetBytes` never panics: a length mismatch is the "invalid length" error, equal lengths give a
    vector of the same `len` and the same number of bytes -/
theorem bvSetBytes_ok (v : BV) (m : Bytes) :
    (m.length ≠ v.b.length ∧ bvSetBytes v m = .ok none) ∨
    (m.length = v.b.length ∧ ∃ n, bvSetBytes v m = .ok (some n) ∧ n.len = v.len ∧ n.b.length = v.b.length) := by
  unfold bvSetBytes
  by_cases hc : m.length = v.b.length
  · right
    obtain ⟨r, e, l, b⟩ := bvSetLoop_ok m (v.b.length * 8) 0 v hc (by omega)
    refine ⟨hc, r, ?_, l, b⟩
    simp [hc, e, bind, Except.bind, pure, Except.pure]
  · left
    exact ⟨hc, by simp [hc, pure, Except.pure]⟩

theorem proximity_go_ok (one other : Bytes) (b : Nat) (hb1 : b ≤ one.length) (hb2 : b ≤ other.length) :
    ∀ fuel i, ∃ r, proximity.go one other b i fuel = .ok r := by
  intro fuel
  induction fuel with
  | zero => intro i; exact ⟨_, rfl⟩
  | succ n ih =>
    intro i
    unfold proximity.go
    by_cases hi : i < b
    · simp only [hi, if_true]
      rw [idx_ok one i (by omega), idx_ok other i (by omega)]
      simp only [bind, Except.bind]
      split
      · exact ⟨_, rfl⟩
      · exact ih (i + 1)
    · simp only [hi, if_false]; exact ⟨_, rfl⟩

theorem proximity_ok (one other : Bytes) : ∃ r, proximity one other = .ok r := by
  unfold proximity
  apply proximity_go_ok <;> omega

end Aurora.Handlers
